/-
Vocabulary of the transition table of ansi/parser.go (C02/C08): state ids, guards, action calls,
arms.  `Gen/ParserTable.lean` (regenerated from the source on every run) is data of these types;
`Model/Parser.lean` interprets it.  Core Lean only.
-/
namespace VaxisModel.Model.ParserTable

/-- One constructor per state function of ansi/parser.go. -/
inductive StateId
  | ground | escape | escapeIntermediate | csiEntry | csiParam | csiIntermediate | csiIgnore
  | dcsEntry | dcsParam | dcsIntermediate | dcsPassthrough | dcsIgnore | oscString | sosPm | apc | ss3
  deriving DecidableEq, Repr, Inhabited

def allStates : List StateId :=
  [.ground, .escape, .escapeIntermediate, .csiEntry, .csiParam, .csiIntermediate, .csiIgnore,
   .dcsEntry, .dcsParam, .dcsIntermediate, .dcsPassthrough, .dcsIgnore, .oscString, .sosPm, .apc, .ss3]

theorem mem_allStates (s : StateId) : s ∈ allStates := by cases s <;> decide

/-- What a state function returns. -/
inductive Next
  | st (s : StateId)   -- `return <state>`
  | stop               -- `return nil`
  | dispatch           -- `return p.state(r, p)` (only in `anywhere`)
  deriving DecidableEq, Repr, Inhabited

/-- The statements that occur in the arms (and before the switch) of the state functions. -/
inductive Act
  | execute            -- p.execute(r)
  | print              -- p.print(r)
  | collect            -- p.collect(r)
  | param              -- p.param(r)
  | csiDispatch        -- p.csiDispatch(r)
  | escapeDispatch     -- p.escapeDispatch(r)
  | hook               -- p.hook(r)
  | put                -- p.put(r)
  | oscStart           -- p.oscStart()
  | oscPut             -- p.oscPut(r)
  | apcPut             -- p.apcData = append(p.apcData, r)
  | clear              -- p.clear()
  | emitErr            -- p.emit(fmt.Errorf(...))
  | emitSS3            -- p.emit(SS3(r))
  | setIgnoreST        -- p.ignoreST = true
  | setExitUnhook      -- p.exit = p.unhook
  | setExitApc         -- p.exit = p.apcUnhook
  | runExit            -- p.exit()           (unguarded: nil dereference if unset)
  | clearExit          -- p.exit = nil
  | runExitIfSet       -- if p.exit != nil { p.exit(); p.exit = nil }
  | runExitIfSetST     -- if p.exit != nil { p.exit(); p.exit = nil; p.ignoreST = true }
  | clearIgnoreST      -- p.ignoreST = false
  | startTimer         -- p.escTimeout = time.AfterFunc(10ms, …)
  | deferClearIgnoreST -- defer func() { p.ignoreST = false }()
  | retIfIgnoreST (n : Next) -- if p.ignoreST { return n }
  | unknown            -- a statement the extractor does not know (listed in `Gen.ParserTable.unrecognised`;
                       -- `Props.C02.gen_fully_recognised` requires that there is none)
  deriving DecidableEq, Repr, Inhabited

/-- A `case` label: `in(r, lo, hi)`, `r == c`, `r == eof`. -/
inductive Guard
  | range (lo hi : Nat)
  | eq (c : Nat)
  | isEof
  deriving DecidableEq, Repr, Inhabited

structure Arm where
  guards : List Guard
  acts : List Act
  next : Next
  deriving DecidableEq, Repr, Inhabited

/-- A state function: `if <labels> { …; return … }` statements at the very top (`early`, tried in
    source order before anything else runs), the statements before the `switch` (`pre`), the arms
    in source order, the default arm. -/
structure StateFn where
  early : List Arm := []
  pre : List Act
  arms : List Arm
  dflt : Arm
  deriving DecidableEq, Repr, Inhabited

/-- Parser input: a rune (Unicode scalar or raw byte value) or the end-of-input marker
    (`const eof rune = -1`). -/
inductive Inp
  | rune (r : Nat)
  | eof
  deriving DecidableEq, Repr, Inhabited

def Guard.eval : Guard → Inp → Bool
  | .range lo hi, .rune r => decide (lo ≤ r) && decide (r ≤ hi)
  | .eq c, .rune r => decide (r = c)
  | .isEof, .eof => true
  | _, _ => false

def Arm.fires (a : Arm) (i : Inp) : Bool := a.guards.any (·.eval i)

/-- First arm whose label matches, else the default arm (Go `switch { case …: }` semantics). -/
def findArm : List Arm → Arm → Inp → Arm
  | [], d, _ => d
  | a :: rest, d, i => if a.fires i then a else findArm rest d i

def StateFn.arm (f : StateFn) (i : Inp) : Arm := findArm f.arms f.dflt i

/-- First `if <labels> { … return … }` at the top of the function whose condition holds. -/
def findEarly : List Arm → Inp → Option Arm
  | [], _ => none
  | a :: rest, i => if a.fires i then some a else findEarly rest i

/-- All the statements executed for input `i` and the returned `Next`: the body of the first early
    `if` that fires (the prologue — e.g. a `defer` — is then never reached), else the prologue
    followed by the arm of the `switch`.  An early `return` inside an arm is kept as the
    `retIfIgnoreST` action. -/
def StateFn.row (f : StateFn) (i : Inp) : List Act × Next :=
  match findEarly f.early i with
  | some a => (a.acts, a.next)
  | none =>
    let a := f.arm i
    (f.pre ++ a.acts, a.next)

/-! ### Interval classes: a row depends on the rune only through comparisons with the guard
constants, so it is constant on any interval that contains no boundary. -/

def Guard.bounds : Guard → List Nat
  | .range lo hi => [lo, hi + 1]
  | .eq c => [c, c + 1]
  | .isEof => []

def Arm.bounds (a : Arm) : List Nat := a.guards.flatMap Guard.bounds
def StateFn.bounds (f : StateFn) : List Nat := f.early.flatMap Arm.bounds ++ f.arms.flatMap Arm.bounds

/-- No boundary `b` with `a < b ≤ hi` (so `[a, hi]` lies inside one class). -/
def clear (bs : List Nat) (a hi : Nat) : Bool := bs.all fun b => decide (b ≤ a) || decide (hi < b)
/-- No boundary above `a` (so `[a, ∞)` lies inside one class). -/
def clearAbove (bs : List Nat) (a : Nat) : Bool := bs.all fun b => decide (b ≤ a)

theorem Guard.eval_const (g : Guard) (a r : Nat) (h : ∀ b ∈ g.bounds, b ≤ a ∨ r < b) (har : a ≤ r) :
    g.eval (.rune r) = g.eval (.rune a) := by
  cases g with
  | range lo hi =>
    have h1 := h lo (by simp [Guard.bounds])
    have h2 := h (hi + 1) (by simp [Guard.bounds])
    simp only [Guard.eval]
    by_cases c1 : lo ≤ r <;> by_cases c2 : r ≤ hi <;> by_cases c3 : lo ≤ a <;> by_cases c4 : a ≤ hi <;>
      simp [c1, c2, c3, c4] <;> omega
  | eq c =>
    have h1 := h c (by simp [Guard.bounds])
    have h2 := h (c + 1) (by simp [Guard.bounds])
    simp only [Guard.eval]
    by_cases c1 : r = c <;> by_cases c2 : a = c <;> simp [c1, c2] <;> omega
  | isEof => rfl

theorem Arm.fires_const (m : Arm) (a r : Nat) (h : ∀ b ∈ m.bounds, b ≤ a ∨ r < b) (har : a ≤ r) :
    m.fires (.rune r) = m.fires (.rune a) := by
  unfold Arm.fires
  have : ∀ gs : List Guard, (∀ g ∈ gs, ∀ b ∈ g.bounds, b ≤ a ∨ r < b) →
      gs.any (·.eval (.rune r)) = gs.any (·.eval (.rune a)) := by
    intro gs
    induction gs with
    | nil => intro _; rfl
    | cons g gs ih =>
      intro hg
      simp only [List.any_cons]
      rw [Guard.eval_const g a r (hg g (by simp)) har, ih (fun g' hg' => hg g' (by simp [hg']))]
  apply this
  intro g hg b hb
  exact h b (by simp only [Arm.bounds, List.mem_flatMap]; exact ⟨g, hg, hb⟩)

theorem findArm_const (arms : List Arm) (d : Arm) (a r : Nat)
    (h : ∀ b ∈ arms.flatMap Arm.bounds, b ≤ a ∨ r < b) (har : a ≤ r) :
    findArm arms d (.rune r) = findArm arms d (.rune a) := by
  induction arms with
  | nil => rfl
  | cons m rest ih =>
    simp only [findArm]
    rw [Arm.fires_const m a r (fun b hb => h b (by simp [hb])) har,
        ih (fun b hb => h b (by simp only [List.flatMap_cons, List.mem_append]; exact Or.inr hb))]

theorem findEarly_const (arms : List Arm) (a r : Nat)
    (h : ∀ b ∈ arms.flatMap Arm.bounds, b ≤ a ∨ r < b) (har : a ≤ r) :
    findEarly arms (.rune r) = findEarly arms (.rune a) := by
  induction arms with
  | nil => rfl
  | cons m rest ih =>
    simp only [findEarly]
    rw [Arm.fires_const m a r (fun b hb => h b (by simp [hb])) har,
        ih (fun b hb => h b (by simp only [List.flatMap_cons, List.mem_append]; exact Or.inr hb))]

theorem StateFn.row_const_of (f : StateFn) (a r : Nat) (h : ∀ b ∈ f.bounds, b ≤ a ∨ r < b) (har : a ≤ r) :
    f.row (.rune r) = f.row (.rune a) := by
  unfold StateFn.row StateFn.arm
  have h1 : ∀ b ∈ f.early.flatMap Arm.bounds, b ≤ a ∨ r < b := fun b hb =>
    h b (by simp only [StateFn.bounds, List.mem_append]; exact Or.inl hb)
  have h2 : ∀ b ∈ f.arms.flatMap Arm.bounds, b ≤ a ∨ r < b := fun b hb =>
    h b (by simp only [StateFn.bounds, List.mem_append]; exact Or.inr hb)
  rw [findEarly_const f.early a r h1 har, findArm_const f.arms f.dflt a r h2 har]

/-- A state function's row is constant on `[a, hi]` when no boundary falls in `(a, hi]`. -/
theorem StateFn.row_const (f : StateFn) (a hi r : Nat) (hc : clear f.bounds a hi = true)
    (har : a ≤ r) (hr : r ≤ hi) : f.row (.rune r) = f.row (.rune a) := by
  apply StateFn.row_const_of f a r _ har
  intro b hb
  have := (List.all_eq_true.mp hc) b hb
  simp only [Bool.or_eq_true, decide_eq_true_eq] at this
  omega

/-- … and constant on `[a, ∞)` when no boundary lies above `a`. -/
theorem StateFn.row_const_above (f : StateFn) (a r : Nat) (hc : clearAbove f.bounds a = true)
    (har : a ≤ r) : f.row (.rune r) = f.row (.rune a) := by
  apply StateFn.row_const_of f a r _ har
  intro b hb
  have := (List.all_eq_true.mp hc) b hb
  simp only [decide_eq_true_eq] at this
  omega

end VaxisModel.Model.ParserTable
