/-
UTF-8 at the level of whole byte streams (C02): `encodeRune` (Go `utf8.EncodeRune` on a scalar
value), the *units* of a byte stream as `Parser.readRune` sees them — one unit per well-formed
scalar, one unit per byte that does not start a well-formed sequence (overlong, surrogate,
> U+10FFFF, truncated, stray continuation, C0/C1/F5–FF lead: delivered raw) — and the two readings
of a unit: `raw` (what `readRune` returns: the raw-byte fallback) and `look` (what `bufio.ReadRune`
returns: U+FFFD for an invalid byte — `print`'s look-ahead stops there and leaves the byte to
`readRune`; before F102d was repaired it put that U+FFFD into the Print).

Everything is defined from `ParserIO.decodeRune` (the transcription of `utf8.DecodeRune`), so the
lemmas in Lemmas/ParserUtf8.lean are statements about that transcription.  Core Lean only.
-/
import VaxisModel.Model.ParserIO

namespace VaxisModel.Model.ParserUtf8
open VaxisModel.Model.Parser VaxisModel.Model.ParserIO

/-- Unicode scalar values: 0–D7FF and E000–10FFFF. -/
def IsScalar (r : Nat) : Prop := r < 0xD800 ∨ (0xE000 ≤ r ∧ r < 0x110000)

instance (r : Nat) : Decidable (IsScalar r) := by unfold IsScalar; infer_instance

/-- `utf8.EncodeRune` / `utf8.AppendRune` on a scalar value. -/
def encodeRune (r : Nat) : List Nat :=
  if r < 0x80 then [r]
  else if r < 0x800 then [0xC0 + r / 64, 0x80 + r % 64]
  else if r < 0x10000 then [0xE0 + r / 4096, 0x80 + r / 64 % 64, 0x80 + r % 64]
  else [0xF0 + r / 262144, 0x80 + r / 4096 % 64, 0x80 + r / 64 % 64, 0x80 + r % 64]

/-- One unit of the stream. -/
structure U where
  /-- the rune `readRune` returns: the scalar, or the value of the invalid byte -/
  raw : Rune
  /-- the byte does not start a well-formed UTF-8 sequence -/
  inv : Bool
  /-- bytes consumed (1 for an invalid byte) -/
  sz : Nat
  deriving DecidableEq, Repr, Inhabited

/-- What `bufio.ReadRune` returns for the unit (no fallback): U+FFFD for an invalid byte. -/
def U.look (u : U) : Rune := if u.inv then runeError else u.raw

/-- The bytes of a unit. -/
def U.bytes (u : U) : List Nat := if u.inv then [u.raw] else encodeRune u.raw

/-- The first unit of a non-empty byte list: `utf8.DecodeRune`, and the `size == 1` test of
    `Parser.readRune` (`r == unicode.ReplacementChar && size == 1` ⇒ the byte itself). -/
def unit1 (bs : List Nat) : U :=
  if (decodeRune bs).1 = runeError ∧ (decodeRune bs).2 = 1 then ⟨bs.headD 0, true, 1⟩
  else ⟨(decodeRune bs).1, false, (decodeRune bs).2⟩

def unitsF : Nat → List Nat → List U
  | 0, _ => []
  | _, [] => []
  | f + 1, b :: t => unit1 (b :: t) :: unitsF f ((b :: t).drop (unit1 (b :: t)).sz)

/-- All units of a byte stream, in order. -/
def units (bs : List Nat) : List U := unitsF bs.length bs

/-- The runes of a byte stream as `readRune` delivers them one by one: every well-formed scalar,
    every other byte as itself. -/
def decodeRunes (bs : List Nat) : List Rune := (units bs).map U.raw

/-- Byte length of a list of units. -/
def ulen (us : List U) : Nat := (us.map U.sz).sum

/-- How `print` renders a block of units: the first through `readRune` (raw-byte fallback), the
    following ones through the look-ahead, which only takes well-formed scalars (it stops in front
    of an invalid byte): every unit as its own rune. -/
def render (us : List U) : List Rune := us.map U.raw

/-- Number of leading valid units. -/
def validRun : List U → Nat
  | [] => 0
  | u :: us => if u.inv then 0 else validRun us + 1


/-! ### The rune-level reference run and the comparison "modulo merging adjacent Prints" -/

/-- A delivered item list with every Print split into single-rune Prints.  Two item lists are equal
    after merging adjacent Prints iff their `flat`s are equal. -/
def flat : List Item → List Seq
  | [] => []
  | .print g :: rest => g.map Seq.print ++ flat rest
  | .seq s :: rest => s :: flat rest

/-- The automaton run over a list of runes, then the end of input, then `EOF{}` — no reader, no
    reads, no clusters: every printable rune is its own Print. -/
def runRunes (T : Table) : PState → List Rune → List Seq
  | s, [] => (step T s .eof).out ++ [.eof]
  | s, r :: rs =>
    let o := step T s (.rune r)
    if o.stop then o.out ++ [.eof] else o.out ++ runRunes T o.st rs

/-- A unit that is not a C0 control: a rune ≥ 0x20 — or an invalid byte (always ≥ 0x80; the
    look-ahead of `print` stops in front of it by itself). -/
def absorbable (u : U) : Bool := u.inv || decide (0x20 ≤ u.raw)

def absRun : List U → Nat
  | [] => 0
  | u :: us => if absorbable u then absRun us + 1 else 0

/-- The cluster oracle respects the stream from byte offset `pos` on: a cluster never extends over
    a C0 control (uniseg: GB4/GB5 — a property of the library, counter `oracle-joins-c0`).  Nothing
    is assumed about invalid bytes (before F102d was repaired this also had to exclude them). -/
def Respects (cl : Nat → Nat) : Nat → List U → Prop
  | _, [] => True
  | pos, u :: us => cl pos ≤ 1 + absRun us ∧ Respects cl (pos + u.sz) us


instance Respects.dec (cl : Nat → Nat) : ∀ pos us, Decidable (Respects cl pos us)
  | _, [] => isTrue trivial
  | pos, u :: us =>
    match Nat.decLe (cl pos) (1 + absRun us), Respects.dec cl (pos + u.sz) us with
    | isTrue h1, isTrue h2 => isTrue ⟨h1, h2⟩
    | isFalse h1, _ => isFalse fun h => h1 h.1
    | _, isFalse h2 => isFalse fun h => h2 h.2

/-- Reads given as bytes (`UInt8`) — what `io.Reader.Read` returns — as the model's byte lists. -/
def natChunks (chunks : List (List UInt8)) : List (List Nat) := chunks.map (·.map UInt8.toNat)

/-- The whole stream of a list of reads. -/
def streamOf (chunks : List (List UInt8)) : List Nat := (natChunks chunks).flatten

/-- The block starts with an invalid byte. -/
def startsInvalid : List (List U) → Prop
  | (u :: _) :: _ => u.inv = true
  | _ => False

/-- Blocks of units as delivered Prints: every block is non-empty, only its first unit can be an
    invalid byte, it is never longer than the oracle's cluster at its byte offset, and shorter only
    if it ends at a read boundary (`cut` holds of the byte offset where it ends) or in front of an
    invalid byte (which then starts the next block). -/
def BlocksOk (cl : Nat → Nat) (cut : Nat → Prop) : Nat → List (List U) → Prop
  | _, [] => True
  | pos, b :: rest =>
    b ≠ [] ∧ (∀ u ∈ b.tail, u.inv = false) ∧ b.length ≤ max 1 (cl pos) ∧
    (b.length = max 1 (cl pos) ∨ cut (pos + ulen b) ∨ startsInvalid rest) ∧
    BlocksOk cl cut (pos + ulen b) rest

/-- Byte offset `n` is a read boundary of `chunks` (or the end of the stream). -/
def IsCut (chunks : List (List Nat)) (n : Nat) : Prop := ∃ k, n = ((chunks.take k).flatten).length

end VaxisModel.Model.ParserUtf8
