/-
Model of the graphics placement bookkeeping: `Vaxis.graphicsNext` / `graphicsLast`, `samePlacement`
(image.go), the delete and draw loops at the top of `render` (vaxis.go), `Render` resetting the
refresh flag, `Refresh`, `Window.Clear` resetting the next list, and `KittyImage.Draw` /
`Sixel.Draw` appending to it.  Core Lean only.  The fields compared by `samePlacement` come from
`Gen.ImageConsts.samePlacementFields`.
-/
import VaxisModel.Gen.ImageConsts
import VaxisModel.Spec.Images

namespace VaxisModel.Model.Placements
open VaxisModel.Gen.ImageConsts
open VaxisModel.Spec.Images (Placement Op)

def fieldEq (f : PField) (a b : Placement) : Bool :=
  match f with
  | .id => a.id == b.id
  | .col => a.col == b.col
  | .row => a.row == b.row
  | .w => a.w == b.w
  | .h => a.h == b.h

/-- `samePlacement`: a chain of `if p1.f != p2.f { return false }` over the listed fields. -/
def samePlacementWith (fs : List PField) (a b : Placement) : Bool := fs.all fun f => fieldEq f a b

def samePlacement (a b : Placement) : Bool := samePlacementWith samePlacementFields a b

structure State where
  next : List Placement
  last : List Placement
  refresh : Bool
  deriving DecidableEq, Repr

/-- After `vaxis.New`: no placements, and a refresh is pending (`enterAltScreen` sets it). -/
def init : State := ⟨[], [], true⟩

/-- What one render transmits: deletions first, then placements, each in list order. -/
structure Out where
  deletes : List Placement
  writes : List Placement
  deriving DecidableEq, Repr

/-- The two loops at the top of `render`, then `Render` clearing the refresh flag.
    `outerLast`: every `p1` of `last` is deleted on refresh, else deleted unless some `p2` of `next`
    is the same placement.  On refresh `last` is emptied.  `outerNew`: every `p1` of `next` is
    written unless some `p2` of (the possibly emptied) `last` is the same.  Then `last = next`. -/
def renderWith (same : Placement → Placement → Bool) (s : State) : State × Out :=
  let deletes := s.last.filter fun p1 => s.refresh || !(s.next.any fun p2 => same p1 p2)
  let last' := if s.refresh then [] else s.last
  let writes := s.next.filter fun p1 => !(last'.any fun p2 => same p1 p2)
  ({ next := s.next, last := s.next, refresh := false }, ⟨deletes, writes⟩)

/-- The same two loops **interpreted** from the regenerated statement skeleton `Gen.renderShape` (round 3): a
    statement that is not in the source does not happen in the model.  With every statement present this is
    `renderWith` (`Lemmas.Placements.renderShaped_std`). -/
def renderShaped (sh : RenderShape) (same : Placement → Placement → Bool) (s : State) : State × Out :=
  let deletes := s.last.filter fun p1 =>
    if sh.delOnRefresh && s.refresh then true
    else if sh.delKeepSame && (s.next.any fun p2 => same p1 p2) then false
    else sh.delRest
  let last' := if sh.clearOnRefresh && s.refresh then [] else s.last
  let writes := s.next.filter fun p1 =>
    if sh.writeSkipSame && (last'.any fun p2 => same p1 p2) then false else sh.writeRest
  ({ next := s.next, last := if sh.saveLast then s.next else last', refresh := false }, ⟨deletes, writes⟩)

/-- One application-level step with the interpreted render (what the driver runs). -/
def stepShaped (sh : RenderShape) (same : Placement → Placement → Bool) (s : State) : Op → State × Option Out
  | .draw p => ({ s with next := s.next ++ [p] }, none)
  | .clear => ({ s with next := [] }, none)
  | .render => let (s', o) := renderShaped sh same s; (s', some o)
  | .refresh => let (s', o) := renderShaped sh same { s with refresh := true }; (s', some o)

/-- `Window.Clear` on the next-frame list, from the regenerated form of its assignment (round 4): a fresh empty list;
    nothing when the assignment is missing; for a re-slice / an unknown right-hand side the model still empties the
    list (what Go's slice aliasing then does to the saved list is not modelled — `Props.C20Ext.render_shape` fails). -/
def clearWith (f : ClearForm) (s : State) : State :=
  match f with
  | .missing => s
  | _ => { s with next := [] }

def stepGen (s : State) (op : Op) : State × Option Out :=
  match op with
  | .clear => (clearWith clearPlacements s, none)
  | op => stepShaped renderShape samePlacement s op

def stepWith (same : Placement → Placement → Bool) (s : State) : Op → State × Option Out
  | .draw p => ({ s with next := s.next ++ [p] }, none)
  | .clear => ({ s with next := [] }, none)
  | .render => let (s', o) := renderWith same s; (s', some o)
  | .refresh => let (s', o) := renderWith same { s with refresh := true }; (s', some o)

def step : State → Op → State × Option Out := stepWith samePlacement

/-- Outputs of every render of an op history. -/
def outputsWith (same : Placement → Placement → Bool) (s : State) : List Op → List (List Placement × List Placement)
  | [] => []
  | op :: rest =>
    match stepWith same s op with
    | (s', some o) => (o.deletes, o.writes) :: outputsWith same s' rest
    | (s', none) => outputsWith same s' rest

def outputs : State → List Op → List (List Placement × List Placement) := outputsWith samePlacement

end VaxisModel.Model.Placements
