import VaxisModel.Model.GoBody
import VaxisModel.Model.InputQuery
import VaxisModel.Model.InputBody
import VaxisModel.Gen.InputBody

/-!
# Interpreter for the regenerated body of `parseColorReply` (vaxis.go, the F303 repair)

`Gen.InputBody.pr` is the body as a term of `Model/GoBody.lean` (`*`, `/`, `<<`, `>>` rewritten by the
extractor into calls `mul`, `div`, `shl`, `shr`).  This file executes it over strings as code points,
natural numbers and a fixed-size array; `Props/C03Query.parseColorReply_body_eq_model` proves the
execution equal to the model `Model/InputQuery.parseReply` for every reply and prefix.

Meaning given to the Go subset: `len(s)` of a string is its length in bytes (UTF-8), of a slice its
number of elements; unsigned 64-bit arithmetic wraps (`mul`, `shl`, `-`); `div` by zero and an index
out of range are run-time panics (`fail "panic"`); `strconv.ParseUint(s, 16, 16)` accepts exactly
the non-empty strings of hexadecimal digits whose value is below 2^16; `strings.HasPrefix`,
`TrimPrefix`, `Split` (one-rune separator) are the list functions of `Model/Input.lean`; `&&` / `||`
evaluate their right operand only when needed.  Anything else is `fail why`.  Core Lean only.
-/
namespace VaxisModel.Model.QueryBody
open VaxisModel.Model.GoBody VaxisModel.Model.Color VaxisModel.Model.InputQuery VaxisModel.Model

inductive QV
  | nat (n : Nat)
  | bool (b : Bool)
  | str (s : List Nat)
  | strs (l : List (List Nat))
  | arr (l : List Nat)
  | color (c : Color)
  | pair (a b : QV)
  | nil
  | errv
  deriving DecidableEq, Repr

abbrev QEnv := List (String × QV)

inductive QR
  | norm (env : QEnv)
  | ret (v : QV)
  | fail (why : String)

def U64 : Nat := 2 ^ 64

/-- `strconv.ParseUint(s, 16, 16)`: `(value, err)`. -/
def parseUint16 (s : List Nat) : QV :=
  if s.isEmpty then .pair (.nat 0) .errv
  else match hexNum s 0 with
    | some v => if v < 65536 then .pair (.nat v) .nil else .pair (.nat 65535) .errv
    | none => .pair (.nat 0) .errv

def trimPrefix (p s : List Nat) : List Nat := if Input.isPrefix p s then s.drop p.length else s

/-- `fmt.Sprintf(f, x)` for a format whose only verb is `%v`: the verb replaced by the rendering of `x`. -/
def sprintfV : List Nat → List Nat → List Nat
  | [], _ => []
  | [c], _ => [c]
  | a :: b :: rest, r => if a = 37 ∧ b = 118 then r ++ sprintfV rest r else a :: sprintfV (b :: rest) r

def qcall (fn : String) (args : List QV) : Except String QV :=
  if fn = "strings.HasPrefix" then (match args with | [.str s, .str p] => .ok (.bool (Input.isPrefix p s)) | _ => .error "HasPrefix")
  else if fn = "strings.TrimPrefix" then (match args with | [.str s, .str p] => .ok (.str (trimPrefix p s)) | _ => .error "TrimPrefix")
  else if fn = "strings.Split" then (match args with | [.str s, .str [sep]] => .ok (.strs (Input.splitOn sep s)) | _ => .error "Split")
  else if fn = "len" then
    (match args with
     | [.str s] => .ok (.nat (InputBody.strLen s).toNat)
     | [.strs l] => .ok (.nat l.length)
     | [.arr l] => .ok (.nat l.length)
     | _ => .error "len")
  else if fn = "Color" then (match args with | [.nat n] => .ok (.color n) | _ => .error "Color")
  else if fn = "strconv.ParseUint" then (match args with | [.str s, .nat 16, .nat 16] => .ok (parseUint16 s) | _ => .error "ParseUint")
  else if fn = "uint64" then (match args with | [.nat n] => .ok (.nat (n % U64)) | _ => .error "uint64")
  else if fn = "uint8" then (match args with | [.nat n] => .ok (.nat (n % 256)) | _ => .error "uint8")
  else if fn = "mul" then (match args with | [.nat a, .nat b] => .ok (.nat (a * b % U64)) | _ => .error "mul")
  else if fn = "div" then (match args with | [.nat a, .nat b] => if b = 0 then .error "panic" else .ok (.nat (a / b)) | _ => .error "div")
  else if fn = "shl" then (match args with | [.nat a, .nat b] => .ok (.nat (a * 2 ^ b % U64)) | _ => .error "shl")
  else if fn = "shr" then (match args with | [.nat a, .nat b] => .ok (.nat (a / 2 ^ b)) | _ => .error "shr")
  else if fn = "fmt.Sprintf" then (match args with | [.str f, .nat n] => .ok (.str (sprintfV f (decimal n))) | _ => .error "Sprintf")
  else if fn = "RGBColor" then (match args with | [.nat r, .nat g, .nat b] => .ok (.color (rgbColor r g b)) | _ => .error "RGBColor")
  else .error ("call " ++ fn)

def qbin (op : BinOp) (a b : QV) : Except String QV :=
  match op, a, b with
  | .eq, .nat x, .nat y => .ok (.bool (decide (x = y)))
  | .ne, .nat x, .nat y => .ok (.bool (!decide (x = y)))
  | .lt, .nat x, .nat y => .ok (.bool (decide (x < y)))
  | .gt, .nat x, .nat y => .ok (.bool (decide (x > y)))
  | .ne, .errv, .nil => .ok (.bool true)
  | .ne, .nil, .nil => .ok (.bool false)
  | .add, .str x, .str y => .ok (.str (x ++ y))
  | .sub, .nat x, .nat y => .ok (.nat ((x + U64 - y % U64) % U64))
  | _, _, _ => .error "operator"

mutual
  def qeval (env : QEnv) : E → Except String QV
    | .int n => if 0 ≤ n then .ok (.nat n.toNat) else .error "negative literal"
    | .str s => .ok (.str (s.map Int.toNat))
    | .tt => .ok (.bool true)
    | .ff => .ok (.bool false)
    | .nilv => .ok .nil
    | .var x => (match env.lookup x with | some v => .ok v | none => .error ("unbound " ++ x))
    | .bin op a b =>
      match op with
      | .lor =>
        (match qeval env a with
         | .ok (.bool true) => .ok (.bool true)
         | .ok (.bool false) => (match qeval env b with | .ok (.bool y) => .ok (.bool y) | .ok _ => .error "||" | .error e => .error e)
         | .ok _ => .error "||"
         | .error e => .error e)
      | .land =>
        (match qeval env a with
         | .ok (.bool false) => .ok (.bool false)
         | .ok (.bool true) => (match qeval env b with | .ok (.bool y) => .ok (.bool y) | .ok _ => .error "&&" | .error e => .error e)
         | .ok _ => .error "&&"
         | .error e => .error e)
      | op =>
        (match qeval env a with
         | .ok x => (match qeval env b with | .ok y => qbin op x y | .error e => .error e)
         | .error e => .error e)
    | .un op a =>
      (match op with
       | .not => (match qeval env a with | .ok (.bool x) => .ok (.bool (!x)) | .ok _ => .error "!" | .error e => .error e)
       | _ => .error "unary operator")
    | .call fn args => (match qevals env args with | .ok l => qcall fn l | .error e => .error e)
    | .idx a i =>
      (match qeval env a with
       | .ok (.arr l) =>
         (match qeval env i with
          | .ok (.nat k) => (match l[k]? with | some x => .ok (.nat x) | none => .error "panic")
          | .ok _ => .error "index"
          | .error e => .error e)
       | .ok _ => .error "index type"
       | .error e => .error e)
    | _ => .error "expression"
  def qevals (env : QEnv) : Es → Except String (List QV)
    | .nil => .ok []
    | .cons h t =>
      match qeval env h with
      | .ok v => (match qevals env t with | .ok l => .ok (v :: l) | .error e => .error e)
      | .error e => .error e
end

def QR.andThen (r : QR) (f : QEnv → QR) : QR :=
  match r with
  | .norm env => f env
  | r => r

/-- `for i, v := range items` -/
def qloop (f : QEnv → Nat → List Nat → QR) : List (List Nat) → Nat → QEnv → QR
  | [], _, env => .norm env
  | it :: rest, i, env =>
    match f env i it with
    | .norm env' => qloop f rest (i + 1) env'
    | r => r

mutual
  def qexecS : S → QEnv → QR
    | .assign tok lhs rhs, env =>
      match tok, lhs, rhs with
      | .define, .cons (.var a) .nil, .cons e .nil =>
        (match qeval env e with | .ok v => .norm ((a, v) :: env) | .error w => .fail w)
      | .define, .cons (.var a) (.cons (.var b) .nil), .cons e .nil =>
        (match qeval env e with
         | .ok (.pair x y) => .norm ((b, y) :: (a, x) :: env)
         | .ok _ => .fail "assignment arity"
         | .error w => .fail w)
      | .set, .cons (.idx (.var a) ie) .nil, .cons e .nil =>
        (match env.lookup a, qeval env ie, qeval env e with
         | some (.arr l), .ok (.nat k), .ok (.nat x) => if k < l.length then .norm ((a, .arr (l.set k x)) :: env) else .fail "panic"
         | _, .error w, _ => .fail w
         | _, _, .error w => .fail w
         | _, _, _ => .fail "array assignment")
      | _, _, _ => .fail "assignment"
    | .ifS .nil cond thn els, env =>
      (match qeval env cond with
       | .ok (.bool b) => if b = true then qexecSs thn env else qexecSs els env
       | .ok _ => .fail "condition"
       | .error w => .fail w)
    | .ret vals, env =>
      (match qevals env vals with
       | .ok [a, b] => .ret (.pair a b)
       | .ok _ => .fail "return arity"
       | .error w => .fail w)
    | .varDecl name ty, env => if ty = "[3]uint8" then .norm ((name, .arr [0, 0, 0]) :: env) else .fail "var declaration"
    | .forRange k v x body, env =>
      (match qeval env x with
       | .ok (.strs items) => qloop (fun env' i it => qexecSs body ((v, .str it) :: (k, .nat i) :: env')) items 0 env
       | .ok _ => .fail "range"
       | .error w => .fail w)
    | _, _ => .fail "statement"
  def qexecSs : Ss → QEnv → QR
    | .nil, env => .norm env
    | .cons h t, env => (qexecS h env).andThen fun env' => qexecSs t env'
end

/-- `parseColorReply(resp, prefix)` run on its regenerated body. -/
def runPr (resp pfx : List Nat) : Except String (Color × Bool) :=
  match qexecSs Gen.InputBody.pr [("prefix", .str pfx), ("resp", .str resp)] with
  | .ret (.pair (.color c) (.bool ok)) => .ok (c, ok)
  | .ret _ => .error "result type"
  | .norm _ => .error "no return"
  | .fail w => .error w

/-- The model of `parseColorReply` in the shape of its two results (`colorOfReply` is its first
component, `Color(0)` on failure). `lit` = prefix followed by `rgb:`. -/
def parseReply (lit resp : List Nat) : Option Color :=
  match matchLit lit resp with
  | none => none
  | some rest =>
    match Input.splitOn 47 rest with
    | [a, b, c] =>
      (match parseChannel a, parseChannel b, parseChannel c with
       | some r, some g, some bl => some (rgbColor r g bl)
       | _, _, _ => none)
    | _ => none

end VaxisModel.Model.QueryBody
