/-
Model of the diffing renderer: /repo/vaxis.go `render()`, `Render`, `Refresh`, `ShowCursor`,
`HideCursor`, `showCursor`, `advance`; /repo/writer.go `Write`/`WriteString`/`Flush`;
/repo/screen.go `resize`/`setCell`.

Transcription notes
* Output is a list of *tokens* (`Tok`), one per escape sequence / text write; `Spec.Tokenize`
  maps the real bytes back to the same token type, so bytes are compared token for token.
* Graphemes, hyperlink URLs and hyperlink parameter strings are opaque strings (hex of the bytes).
* `cw : String → Nat` is `Vaxis.characterWidth` under the current capability set — a parameter
  (uniseg / runewidth are modelled, not verified; the harness passes the real values).
* Graphics placements (sixel / kitty) are not part of this model (C20 covers their bookkeeping);
  the `sixel` flag of cells is modelled because `render` looks at it.
* `Cell.w` is Go's `int` (may be negative: then `advance` gives 0 and the grapheme is written raw).
-/
import VaxisModel.Model.Color

namespace VaxisModel.Model.Render
open VaxisModel.Model.Color

/-- vaxis.Style -/
structure Style where
  link : String := ""
  linkParams : String := ""
  fg : Nat := 0
  bg : Nat := 0
  ul : Nat := 0
  ulStyle : Nat := 0
  attr : Nat := 0
  deriving DecidableEq, Repr, Inhabited

/-- vaxis.Cell -/
structure Cell where
  g : String := ""
  w : Int := 0
  style : Style := {}
  sixel : Bool := false
  deriving DecidableEq, Repr, Inhabited

abbrev Grid := List (List Cell)

/-- The capability flags `render` and the writer consult. -/
structure Caps where
  rgb : Bool := false
  styledUnderlines : Bool := false
  explicitWidth : Bool := false
  sync : Bool := false
  deriving DecidableEq, Repr, Inhabited

structure CursorState where
  row : Int := 0
  col : Int := 0
  style : Nat := 0
  visible : Bool := false
  deriving DecidableEq, Repr, Inhabited

/-- One write to the terminal. -/
inductive Tok where
  | cup (row col : Int)                       -- CSI row;col H  (as printed: 1-based)
  | sgr (ps : List (List Nat))                -- CSI … m
  | osc8 (params url : String)                -- OSC 8 ; params ; url ST
  | text (g : String)                         -- raw grapheme bytes
  | textW (w : Int) (g : String)              -- OSC 66 ; w=N ; g ST (explicit width)
  | decset (n : Nat)
  | decrst (n : Nat)
  | cursorStyle (n : Nat)                     -- CSI n SP q
  | pointer (shape : String)                  -- OSC 22
  | other (raw : String)                      -- anything else (hex)
  deriving DecidableEq, Repr, Inhabited

/-- Attribute bits of style.go (`AttrBold = 1 << iota` with iota = 1). -/
def attrBold : Nat := 2
def attrDim : Nat := 4
def attrItalic : Nat := 8
def attrBlink : Nat := 16
def attrReverse : Nat := 32
def attrInvisible : Nat := 64
def attrStrikethrough : Nat := 128

def hasBit (m b : Nat) : Bool := (m / b) % 2 == 1

/-- `ps` as computed in `render`: the colour's parameters, through `asIndex` when the terminal has no RGB. -/
def effParams (caps : Caps) (c : Nat) : List Nat :=
  if caps.rgb then params c else params (asIndex c)

/-- The colour part of the pen delta: the switch on `len(ps)`. `which` = 30 (fg) or 40 (bg). -/
def colorToksP (which : Nat) : List Nat → List Tok
  | [] => [.sgr [[which + 9]]]                                   -- 39 / 49
  | [i] =>
      if i < 8 then [.sgr [[which + i]]]                          -- 3x / 4x
      else if i < 16 then [.sgr [[which + 60 + (i - 8)]]]         -- 9x / 10x
      else [.sgr [[which + 8, 5, i]]]                             -- 38:5:i / 48:5:i
  | [r, g, b] => [.sgr [[which + 8, 2, r, g, b]]]
  | _ => []

def colorToks (caps : Caps) (which : Nat) (c : Nat) : List Tok := colorToksP which (effParams caps c)

def ulColorToksP : List Nat → List Tok
  | [] => [.sgr [[59]]]
  | [i] => [.sgr [[58, 5, i]]]
  | [r, g, b] => [.sgr [[58, 2, r, g, b]]]
  | _ => []

def ulColorToks (caps : Caps) (c : Nat) : List Tok := ulColorToksP (effParams caps c)

def onTok (on bit code : Nat) : List Tok := if hasBit on bit then [.sgr [[code]]] else []

/-- The attribute part of the pen delta. `a` = tracked attributes, `b` = wanted. -/
def attrToks (a b : Nat) : List Tok :=
  if a = b then [] else
  let d := a ^^^ b
  let on := d &&& b
  let off := d &&& a
  onTok on attrBold 1 ++ onTok on attrDim 2 ++ onTok on attrItalic 3 ++ onTok on attrBlink 5 ++
  onTok on attrReverse 7 ++ onTok on attrInvisible 8 ++ onTok on attrStrikethrough 9 ++
  (if hasBit off attrBold then [Tok.sgr [[22]]] ++ (if hasBit b attrDim then [Tok.sgr [[2]]] else []) else []) ++
  (if hasBit off attrDim then [Tok.sgr [[22]]] ++ (if hasBit b attrBold then [Tok.sgr [[1]]] else []) else []) ++
  onTok off attrItalic 23 ++ onTok off attrBlink 25 ++ onTok off attrReverse 27 ++
  onTok off attrInvisible 28 ++ onTok off attrStrikethrough 29

/-- `linkPs[:strings.IndexByte(linkPs, ';')]` on the hex form of the string (two characters per
    byte, lower case — `hx.Hex` / `hexOfBytes`): the bytes before the first `;` (0x3b).  A tail of
    odd length cannot occur for a hex string; it is kept as it is. -/
def lpFieldL : List Char → List Char
  | a :: b :: r => if a = '3' ∧ b = 'b' then [] else a :: b :: lpFieldL r
  | r => r

/-- The parameter field `render` writes into OSC 8 (F112b repair): `HyperlinkParams` up to the
    first `;` — the field ends there on every terminal, the rest would be read as part of the URL. -/
def lpField (s : String) : String := String.ofList (lpFieldL s.toList)

/-- Everything `render` writes between the CUP and the grapheme of one changed cell. -/
def penDelta (caps : Caps) (pen next : Style) : List Tok :=
  (if pen.fg ≠ next.fg then colorToks caps 30 next.fg else []) ++
  (if pen.bg ≠ next.bg then colorToks caps 40 next.bg else []) ++
  (if caps.styledUnderlines ∧ pen.ul ≠ next.ul then ulColorToks caps next.ul else []) ++
  attrToks pen.attr next.attr ++
  (if pen.ulStyle ≠ next.ulStyle then
     (if caps.styledUnderlines then [Tok.sgr [[4, next.ulStyle]]]
      else if next.ulStyle = 0 then [Tok.sgr [[24]]] else [Tok.sgr [[4]]])
   else []) ++
  (if pen.link ≠ next.link ∨ (next.link ≠ "" ∧ pen.linkParams ≠ next.linkParams) then
     [Tok.osc8 (lpField (if next.link = "" then "" else next.linkParams)) next.link]
   else [])

/-- The width `render` and `advance` use for a cell: the explicit one, or `characterWidth`. -/
def resolvedW (cw : String → Nat) (c : Cell) : Int := if c.w = 0 then (cw c.g : Int) else c.w

/-- `Vaxis.advance`. -/
def advance (cw : String → Nat) (c : Cell) : Nat :=
  if resolvedW cw c - 1 < 0 then 0 else (resolvedW cw c - 1).toNat

def glyphTokW (caps : Caps) (w : Int) (g : String) : Tok :=
  if w = 0 then .text "20"
  else if w > 1 ∧ caps.explicitWidth then .textW w g
  else .text g

/-- The grapheme write of one cell. -/
def glyphTok (cw : String → Nat) (caps : Caps) (c : Cell) : Tok := glyphTokW caps (resolvedW cw c) c.g

/-- Loop state of `render` that survives from cell to cell (and row to row). -/
structure RSt where
  reposition : Bool := true
  pen : Style := {}
  out : List Tok := []          -- tokens written so far, in order
  deriving Repr, Inhabited

/-- One row of the cell loop. `skip` = cells still to be jumped over after a wide cell (their
    `last` entries are nulled); `track` says whether that jump follows a *written* cell (then the
    glyphs being covered extend `dirty`); `dirty` = cells before this column are rewritten even if
    unchanged because a wide glyph that used to cover them was partly overwritten.
    Returns the new `last` row. -/
def renderCells (cw : String → Nat) (caps : Caps) (refresh : Bool) (row : Nat) :
    Nat → Nat → Bool → Nat → List Cell → List Cell → RSt → List Cell × RSt
  | _, _, _, _, [], _, st => ([], st)
  | _, _, _, _, _ :: _, [], st => ([], st)                    -- rows of unequal length: cannot occur
  | col, skip + 1, track, dirty, _ :: ns, l :: ls, st =>
      let dirty' := if track ∧ col + advance cw l + 1 > dirty then col + advance cw l + 1 else dirty
      let (r, st') := renderCells cw caps refresh row (col + 1) skip track dirty' ns ls st
      (({} : Cell) :: r, st')
  | col, 0, _, dirty, n :: ns, l :: ls, st =>
      if n.sixel then
        let (r, st') := renderCells cw caps refresh row (col + 1) 0 false dirty ns ls { st with reposition := true }
        ({ l with sixel := true } :: r, st')
      else if n = l ∧ ¬ refresh ∧ col ≥ dirty then
        let (r, st') := renderCells cw caps refresh row (col + 1) (advance cw n) false dirty ns ls { st with reposition := true }
        (l :: r, st')
      else
        let dirty' := if col + advance cw l + 1 > dirty then col + advance cw l + 1 else dirty
        let pre : List Tok :=
          if st.reposition then
            (if st.pen.link ≠ "" then [Tok.osc8 "" ""] else []) ++ [Tok.cup (row + 1) (col + 1)]
          else []
        -- closing the hyperlink before the CUP also clears it in the tracked pen
        let pen : Style := if st.reposition ∧ st.pen.link ≠ "" then { st.pen with link := "", linkParams := "" } else st.pen
        let toks := pre ++ penDelta caps pen n.style ++ [glyphTok cw caps n]
        let st' : RSt := { reposition := false, pen := n.style, out := st.out ++ toks }
        let (r, st'') := renderCells cw caps refresh row (col + 1) (advance cw n) true dirty' ns ls st'
        (n :: r, st'')

/-- All rows: `reposition` is set at the start of each row; the pen carries over. -/
def renderRows (cw : String → Nat) (caps : Caps) (refresh : Bool) :
    Nat → Grid → Grid → RSt → Grid × RSt
  | _, [], _, st => ([], st)
  | _, _ :: _, [], st => ([], st)
  | row, n :: ns, l :: ls, st =>
      let (l', st') := renderCells cw caps refresh row 0 0 false 0 n l { st with reposition := true }
      let (r, st'') := renderRows cw caps refresh (row + 1) ns ls st'
      (l' :: r, st'')

/-- `showCursor()` -/
def showCursorToks (c : CursorState) : List Tok :=
  [.cursorStyle c.style, .cup (c.row + 1) (c.col + 1), .decset 25]

/-- Body of `render()` (without graphics): mouse shape, cell loop, hyperlink close, cursor show. -/
structure Frame where
  caps : Caps
  refresh : Bool
  next : Grid
  last : Grid
  cursorNext : CursorState
  cursorLast : CursorState
  shapeNext : String := ""
  shapeLast : String := ""
  deriving Repr, Inhabited

def renderBody (cw : String → Nat) (f : Frame) : Grid × List Tok :=
  let pre := if f.shapeLast ≠ f.shapeNext then [Tok.pointer f.shapeNext] else []
  let (last', st) := renderRows cw f.caps f.refresh 0 f.next f.last { out := pre }
  let close := if st.pen.link ≠ "" then [Tok.osc8 "" ""] else []
  let show_ := if f.cursorNext.visible ∧ ¬ f.cursorLast.visible then showCursorToks f.cursorNext else []
  (last', st.out ++ close ++ show_)

/-- writer.go: what reaches the console for one `render(); Flush()` given the tokens `body` that
    `render` wrote through `WriteString` (the first write of a frame is always a `WriteString`:
    pointer shape, OSC 8 close, CUP or showCursor). -/
def flush (caps : Caps) (cn cl : CursorState) (body : List Tok) : List Tok :=
  if body.isEmpty then
    -- cursor-only branch, written directly
    if ¬ cn.visible ∧ cl.visible then [.decrst 25]
    else if ¬ cn.visible then []
    else if cn.row ≠ cl.row then showCursorToks cn
    else if cn.col ≠ cl.col then showCursorToks cn
    else if cn.style ≠ cl.style then showCursorToks cn
    else []
  else
    (if cl.visible then [Tok.decrst 25] else []) ++
    (if caps.sync then [Tok.decset 2026] else []) ++
    body ++ [Tok.sgr []] ++
    (if cn.visible ∧ cl.visible then showCursorToks cn else []) ++
    (if caps.sync then [Tok.decrst 2026] else [])

/-- One `Render()` without a pending resize: new `last`, tokens on the wire. Afterwards
    `cursorLast = cursorNext`, `refresh = false`, `shapeLast = shapeNext`. -/
def renderFrame (cw : String → Nat) (f : Frame) : Grid × List Tok :=
  let (last', body) := renderBody cw f
  (last', flush f.caps f.cursorNext f.cursorLast body)

/-- `screen.resize`: both buffers become all zero-value cells. -/
def blankGrid (cols rows : Nat) : Grid := List.replicate rows (List.replicate cols ({} : Cell))

/-- `screen.setCell` with its bounds check. -/
def setCell (g : Grid) (col row : Int) (c : Cell) : Grid :=
  if col < 0 ∨ row < 0 then g else
  match g[row.toNat]? with
  | none => g
  | some r =>
    if col.toNat < r.length then g.set row.toNat (r.set col.toNat c) else g

end VaxisModel.Model.Render
