/-
The cell loop of /repo/vaxis.go `render()` after the F02 repair (commit 990e1a4): at the top of
the loop body, after the `sixel` test,

    if col+vx.advance(next) >= len(vx.screenNext.buf[row]) {
        next.Character = Character{Grapheme: " ", Width: 1}
    }

— a glyph wider than the rest of its row is replaced by a blank in the cell's style, and everything
below (comparison with `last`, the copy into `last`, the pen delta, the write, the skipping) uses
the replaced cell.

`renderCellsC` is the verbatim transcription (the substitution inside the loop).  Because the
substitution depends only on the cell and on its distance from the end of the row — not on the
loop state — it can be done for the whole row first: `renderCellsC … ns = renderCells … (clipRow ns)`
(`Lemmas/RenderClip.lean`), so every theorem about `Model.Render.renderFrame` applies to the
repaired renderer with `next := clipGrid next`.  `Model/Render.lean` is left as it was (other
properties' theorems are stated over it).
-/
import VaxisModel.Model.Render

namespace VaxisModel.Model.Render

/-- The substitution: `rem` = number of cells from this one to the end of the row (`len - col`). -/
def clipCell (cw : String → Nat) (rem : Nat) (c : Cell) : Cell :=
  if rem ≤ advance cw c then { c with g := "20", w := 1 } else c

def clipRow (cw : String → Nat) : List Cell → List Cell
  | [] => []
  | c :: cs => clipCell cw (cs.length + 1) c :: clipRow cw cs

def clipGrid (cw : String → Nat) (g : Grid) : Grid := g.map (clipRow cw)

/-- `renderCells` with the substitution at the top of the non-skipped, non-sixel branch. -/
def renderCellsC (cw : String → Nat) (caps : Caps) (refresh : Bool) (row : Nat) :
    Nat → Nat → Bool → Nat → List Cell → List Cell → RSt → List Cell × RSt
  | _, _, _, _, [], _, st => ([], st)
  | _, _, _, _, _ :: _, [], st => ([], st)
  | col, skip + 1, track, dirty, _ :: ns, l :: ls, st =>
      let dirty' := if track ∧ col + advance cw l + 1 > dirty then col + advance cw l + 1 else dirty
      let (r, st') := renderCellsC cw caps refresh row (col + 1) skip track dirty' ns ls st
      (({} : Cell) :: r, st')
  | col, 0, _, dirty, n0 :: ns, l :: ls, st =>
      if n0.sixel then
        let (r, st') := renderCellsC cw caps refresh row (col + 1) 0 false dirty ns ls { st with reposition := true }
        ({ l with sixel := true } :: r, st')
      else
      let n := clipCell cw (ns.length + 1) n0
      if n = l ∧ ¬ refresh ∧ col ≥ dirty then
        let (r, st') := renderCellsC cw caps refresh row (col + 1) (advance cw n) false dirty ns ls { st with reposition := true }
        (l :: r, st')
      else
        let dirty' := if col + advance cw l + 1 > dirty then col + advance cw l + 1 else dirty
        let pre : List Tok :=
          if st.reposition then
            (if st.pen.link ≠ "" then [Tok.osc8 "" ""] else []) ++ [Tok.cup (row + 1) (col + 1)]
          else []
        let pen : Style := if st.reposition ∧ st.pen.link ≠ "" then { st.pen with link := "", linkParams := "" } else st.pen
        let toks := pre ++ penDelta caps pen n.style ++ [glyphTok cw caps n]
        let st' : RSt := { reposition := false, pen := n.style, out := st.out ++ toks }
        let (r, st'') := renderCellsC cw caps refresh row (col + 1) (advance cw n) true dirty' ns ls st'
        (n :: r, st'')

def renderRowsC (cw : String → Nat) (caps : Caps) (refresh : Bool) :
    Nat → Grid → Grid → RSt → Grid × RSt
  | _, [], _, st => ([], st)
  | _, _ :: _, [], st => ([], st)
  | row, n :: ns, l :: ls, st =>
      let (l', st') := renderCellsC cw caps refresh row 0 0 false 0 n l { st with reposition := true }
      let (r, st'') := renderRowsC cw caps refresh (row + 1) ns ls st'
      (l' :: r, st'')

def renderBodyC (cw : String → Nat) (f : Frame) : Grid × List Tok :=
  let pre := if f.shapeLast ≠ f.shapeNext then [Tok.pointer f.shapeNext] else []
  let (last', st) := renderRowsC cw f.caps f.refresh 0 f.next f.last { out := pre }
  let close := if st.pen.link ≠ "" then [Tok.osc8 "" ""] else []
  let show_ := if f.cursorNext.visible ∧ ¬ f.cursorLast.visible then showCursorToks f.cursorNext else []
  (last', st.out ++ close ++ show_)

/-- One `Render()` of the repaired renderer. -/
def renderFrameC (cw : String → Nat) (f : Frame) : Grid × List Tok :=
  let (last', body) := renderBodyC cw f
  (last', flush f.caps f.cursorNext f.cursorLast body)

end VaxisModel.Model.Render
