/-
A small interpreter for the statement skeletons `extract/cmd/C01` regenerates from vaxis.go on every
run (`Gen/RenderFacts.lean`: (depth, kind, text) per statement, locals under role names).

* `atomOf` reads one line: the kind (`if` / `switch` / `case` / `default` / statement) and the atom
  the text denotes — a guard or a statement of the cell loop, of `advance()` or of `showCursor()`.
  A text it does not know is `Atom.unknown`; executing it sets `Env.unknown`, so a changed source line
  changes the result of the run (and breaks the `…_body_eq_model` theorem of exactly that block).
* `exec` runs a block: `if` (with nested block), `switch` with `case` / `default` arms (first matching
  arm), statements in order, `continue` / `return` stop the block.
* `blockAt` cuts the block of one statement out of a function's skeleton (the statement and the
  lines nested under it).

The environment `Env` holds the locals and fields the straight-line blocks of `render()`'s cell loop
touch.  Strings are the model's opaque hex strings; `strings.IndexByte(s, ';')` and `s[:i]` act on
whole bytes (two hex digits).
-/
import VaxisModel.Model.RenderClip

namespace VaxisModel.Model.RenderInterp
open VaxisModel.Model.Render

abbrev Line := Nat × String × String

inductive Kind where
  | if_ | switch_ | case_ | default_ | stmt | for_ | unknown
  deriving DecidableEq, Repr, Inhabited

inductive Atom where
  -- advance()
  | cellWidth0 | setCellWidth | wAssign | wNeg | ret0 | retW
  -- showCursor()
  | newBuf | wrCursorStyle | wrCursorCup | wrCursorShow | retBuf
  -- cell loop: image cell, clip
  | nextSixel | endLastDirty | dirtyEnd | lastNext | repTrue | continue_
  | nextTooWide | nextBlank
  -- cell loop: reposition
  | reposition | cursorLinked | wrLinkClose | cursorLinkClear | cursorParamsClear | wrCup | repFalse
  -- cell loop: hyperlink
  | linkChanged | linkAssign | paramsAssign | linkEmpty | paramsClear | semiIndex | paramsCut | wrLink
  -- cell loop: glyph
  | nextWidth0 | setNextWidth | nextWide | wrSpace | wrExplicit | wrGrapheme
  -- cell loop: the five colour / attribute / underline blocks, executed as wholes (`prune`)
  | fgDelta | bgDelta | ulDelta | attrDelta | ulStyleDelta | cursorNextStyle
  -- cell loop: the unchanged cell
  | unchanged | skipAdvance | nullLoop | colSkip
  -- render(): pointer shape, trailing cursor show
  | shapeChanged | wrShape | shapeAssign | cursorAppears | wrShowCursor
  -- the bodies of the two nulling loops `for i := 1; i < skip+1; i += 1 { … }`
  | colIBeyond | break_ | endLastIDirty | lastINull
  -- the loop headers and the two statements around them (read for `cell_loop_order`; the glue of
  -- `Props.C01Body.iterI` / `rowsI` stands for them, they are not executed by `exec`)
  | loadNext | dirtyZero | colLoop | rowRange
  -- inside the colour / underline blocks
  | colAssign | psParams | notRgb | psAsIndex | lenPs | lit1 | lit3 | ps0lt8 | ps0lt16
  | wrFgReset | wrFgSet | wrFgBright | wrFgIndex | wrFgRGB
  | wrBgReset | wrBgSet | wrBgBright | wrBgIndex | wrBgRGB
  | ulChanged | wrUlReset | wrUlIndex | wrUlRGB
  | ulStyleAssign | litTrue | litFalse | wrUlStyleSet | ulStyleVar | litUnderlineOff | wrUnderlineReset | wrUnderlineSet
  | none_       -- a `switch` / `default` line (no text)
  | unknown
  deriving DecidableEq, Repr, Inhabited

def kindOf (k : String) : Kind :=
  if k = "if" then .if_ else if k = "switch" then .switch_ else if k = "case" then .case_
  else if k = "default" then .default_
  else if k = "for" ∨ k = "range" then .for_
  else if k = "assign" ∨ k = "write" ∨ k = "return" ∨ k = "continue" ∨ k = "call" ∨ k = "break" then .stmt
  else .unknown

def atomOf (t : String) : Atom :=
  if t = "" then .none_
  else if t = "cell.Width==0" then .cellWidth0
  else if t = "cell.Width=vx.characterWidth(cell.Grapheme)" then .setCellWidth
  else if t = "w:=cell.Width-1" then .wAssign
  else if t = "w<0" then .wNeg
  else if t = "0" then .ret0
  else if t = "w" then .retW
  else if t = "buf:=bytes.NewBuffer(nil)" then .newBuf
  else if t = "buf.WriteString(vx.cursorStyle())" then .wrCursorStyle
  else if t = "buf.WriteString(tparm(cup,vx.cursorNext.row+1,vx.cursorNext.col+1))" then .wrCursorCup
  else if t = "buf.WriteString(decset(cursorVisibility))" then .wrCursorShow
  else if t = "buf.String()" then .retBuf
  else if t = "next.sixel" then .nextSixel
  else if t = "end:=col+vx.advance(vx.screenLast.buf[row][col])+1;end>dirty" then .endLastDirty
  else if t = "dirty=end" then .dirtyEnd
  else if t = "vx.screenLast.buf[row][col]=next" then .lastNext
  else if t = "reposition=true" then .repTrue
  else if t = "col+vx.advance(next)>=len(vx.screenNext.buf[row])" then .nextTooWide
  else if t = "next.Character=Character{Grapheme:\" \",Width:1}" then .nextBlank
  else if t = "reposition" then .reposition
  else if t = "cursor.Hyperlink!=\"\"" then .cursorLinked
  else if t = "vx.tw.WriteString(tparm(osc8,\"\",\"\"))" then .wrLinkClose
  else if t = "cursor.Hyperlink=\"\"" then .cursorLinkClear
  else if t = "cursor.HyperlinkParams=\"\"" then .cursorParamsClear
  else if t = "vx.tw.WriteString(tparm(cup,row+1,col+1))" then .wrCup
  else if t = "reposition=false" then .repFalse
  else if t = "cursor.Hyperlink!=next.Hyperlink||(next.Hyperlink!=\"\"&&cursor.HyperlinkParams!=next.HyperlinkParams)" then .linkChanged
  else if t = "link:=next.Hyperlink" then .linkAssign
  else if t = "linkPs:=next.HyperlinkParams" then .paramsAssign
  else if t = "link==\"\"" then .linkEmpty
  else if t = "linkPs=\"\"" then .paramsClear
  else if t = "i:=strings.IndexByte(linkPs,';');i>=0" then .semiIndex
  else if t = "linkPs=linkPs[:i]" then .paramsCut
  else if t = "vx.tw.WriteString(tparm(osc8,linkPs,link))" then .wrLink
  else if t = "next.Width==0" then .nextWidth0
  else if t = "next.Width=vx.characterWidth(next.Grapheme)" then .setNextWidth
  else if t = "next.Width>1&&vx.caps.explicitWidth" then .nextWide
  else if t = "vx.tw.WriteString(\" \")" then .wrSpace
  else if t = "fmt.Fprintf(vx.tw,explicitWidth,next.Width,next.Grapheme)" then .wrExplicit
  else if t = "vx.tw.WriteString(next.Grapheme)" then .wrGrapheme
  else if t = "cursor.Foreground!=next.Foreground" then .fgDelta
  else if t = "cursor.Background!=next.Background" then .bgDelta
  else if t = "vx.caps.styledUnderlines" then .ulDelta
  else if t = "cursor.Attribute!=next.Attribute" then .attrDelta
  else if t = "cursor.UnderlineStyle!=next.UnderlineStyle" then .ulStyleDelta
  else if t = "cursor=next.Style" then .cursorNextStyle
  else if t = "next==vx.screenLast.buf[row][col]&&!vx.refresh&&col>=dirty" then .unchanged
  else if t = "skip:=vx.advance(next)" then .skipAdvance
  else if t = "i:=1;i<skip+1;i+=1" then .nullLoop
  else if t = "col+=skip" then .colSkip
  else if t = "vx.mouseShapeLast!=vx.mouseShapeNext" then .shapeChanged
  else if t = "vx.tw.WriteString(tparm(mouseShape,vx.mouseShapeNext))" then .wrShape
  else if t = "vx.mouseShapeLast=vx.mouseShapeNext" then .shapeAssign
  else if t = "vx.cursorNext.visible&&!vx.cursorLast.visible" then .cursorAppears
  else if t = "vx.tw.WriteString(vx.showCursor())" then .wrShowCursor
  else if t = "next:=vx.screenNext.buf[row][col]" then .loadNext
  else if t = "dirty:=0" then .dirtyZero
  else if t = "col:=0;col<len(vx.screenNext.buf[row]);col+=1" then .colLoop
  else if t = "row:=range vx.screenNext.buf" then .rowRange
  else if t = "fg:=next.Foreground" ∨ t = "bg:=next.Background" ∨ t = "ul:=next.UnderlineColor" then .colAssign
  else if t = "ps:=fg.Params()" ∨ t = "ps:=bg.Params()" ∨ t = "ps:=ul.Params()" then .psParams
  else if t = "!vx.caps.rgb" then .notRgb
  else if t = "ps=fg.asIndex().Params()" ∨ t = "ps=bg.asIndex().Params()" ∨ t = "ps=ul.asIndex().Params()" then .psAsIndex
  else if t = "len(ps)" then .lenPs
  else if t = "1" then .lit1
  else if t = "3" then .lit3
  else if t = "ps[0]<8" then .ps0lt8
  else if t = "ps[0]<16" then .ps0lt16
  else if t = "vx.tw.WriteString(fgReset)" then .wrFgReset
  else if t = "vx.tw.Printf(fgSet,ps[0])" then .wrFgSet
  else if t = "vx.tw.Printf(fgBrightSet,ps[0]-8)" then .wrFgBright
  else if t = "vx.tw.Printf(fgIndexSet,ps[0])" then .wrFgIndex
  else if t = "vx.tw.Printf(fgRGBSet,ps[0],ps[1],ps[2])" then .wrFgRGB
  else if t = "vx.tw.WriteString(bgReset)" then .wrBgReset
  else if t = "vx.tw.Printf(bgSet,ps[0])" then .wrBgSet
  else if t = "vx.tw.Printf(bgBrightSet,ps[0]-8)" then .wrBgBright
  else if t = "vx.tw.Printf(bgIndexSet,ps[0])" then .wrBgIndex
  else if t = "vx.tw.Printf(bgRGBSet,ps[0],ps[1],ps[2])" then .wrBgRGB
  else if t = "cursor.UnderlineColor!=next.UnderlineColor" then .ulChanged
  else if t = "vx.tw.WriteString(ulColorReset)" then .wrUlReset
  else if t = "vx.tw.Printf(ulIndexSet,ps[0])" then .wrUlIndex
  else if t = "vx.tw.Printf(ulRGBSet,ps[0],ps[1],ps[2])" then .wrUlRGB
  else if t = "ulStyle:=next.UnderlineStyle" then .ulStyleAssign
  else if t = "true" then .litTrue
  else if t = "false" then .litFalse
  else if t = "vx.tw.WriteString(tparm(ulStyleSet,ulStyle))" then .wrUlStyleSet
  else if t = "ulStyle" then .ulStyleVar
  else if t = "UnderlineOff" then .litUnderlineOff
  else if t = "vx.tw.WriteString(underlineReset)" then .wrUnderlineReset
  else if t = "vx.tw.WriteString(underlineSet)" then .wrUnderlineSet
  else if t = "col+i>=len(vx.screenNext.buf[row])" then .colIBeyond
  else if t = "end:=col+i+vx.advance(vx.screenLast.buf[row][col+i])+1;end>dirty" then .endLastIDirty
  else if t = "vx.screenLast.buf[row][col+i]=Cell{}" then .lastINull
  else .unknown

/-- `continue` / `break` have their own kind and no text. -/
def readLine (l : Line) : Nat × Kind × Atom :=
  (l.1, kindOf l.2.1, if l.2.1 = "continue" then Atom.continue_ else if l.2.1 = "break" then Atom.break_ else atomOf l.2.2)

def prog (sk : List Line) : List (Nat × Kind × Atom) := sk.map readLine

/-- The blocks executed as wholes: `if cursor.F != next.F { … }` for the colours, the attributes and the
    underline style (their inner lines — `switch len(ps)`, `Printf` … — stay pinned by `facts_render`; the
    attribute tables and the order are interpreted by `attrToks_from_source` / `penDelta_order`). -/
def isMacro : Atom → Bool
  | .fgDelta | .bgDelta | .ulDelta | .attrDelta | .ulStyleDelta => true
  | _ => false

/-- Replace each such `if` — and the loop `for i := 1; i < skip+1; i += 1 { … }` that nulls the `last`
    entries of the cells a glyph covers (`Env.nulled`; the model's skip branch) — by one statement and drop
    the lines nested under it. -/
def prune (p : List (Nat × Kind × Atom)) : List (Nat × Kind × Atom) :=
  (p.foldl (fun (st : List (Nat × Kind × Atom) × Option Nat) l =>
      let keep : List (Nat × Kind × Atom) × Option Nat :=
        if (l.2.1 = Kind.if_ ∧ isMacro l.2.2) ∨ (l.2.1 = Kind.for_ ∧ l.2.2 = Atom.nullLoop) then
          ((l.1, Kind.stmt, l.2.2) :: st.1, some l.1)
        else (l :: st.1, none)
      match st.2 with
      | some d => if d < l.1 then st else keep
      | none => keep) ([], none)).1.reverse

/-- The statement `(depth, kind, text)` of a skeleton together with the lines nested under it. -/
def blockAt (sk : List Line) (depth : Nat) (kind text : String) : List Line :=
  match sk.dropWhile (fun l => !(l.1 == depth && l.2.1 == kind && l.2.2 == text)) with
  | [] => []
  | h :: rest => h :: rest.takeWhile (fun l => depth < l.1)

/-! ### environment -/

structure Env where
  col : Nat := 0
  row : Nat := 0
  len : Nat := 0                 -- len(vx.screenNext.buf[row])
  dirty : Nat := 0
  endv : Nat := 0                -- `end`
  reposition : Bool := true
  cursor : Style := {}
  next : Cell := {}              -- `next` (render) / `cell` (advance)
  last : Cell := {}              -- vx.screenLast.buf[row][col] as read
  lastSet : Option Cell := none  -- … as assigned
  link : String := ""
  linkPs : String := ""
  idx : Option Nat := none       -- `i` = strings.IndexByte(linkPs, ';') (none = -1)
  refresh : Bool := false        -- vx.refresh
  skipv : Nat := 0               -- `skip`
  nulled : Nat := 0              -- how many following `last` entries the nulling loop was asked to clear
  shapeNext : String := ""       -- vx.mouseShapeNext
  shapeLast : String := ""       -- vx.mouseShapeLast
  cl : CursorState := {}         -- vx.cursorLast
  lastRow : List Cell := []      -- vx.screenLast.buf[row] (the nulling loops index it)
  i : Nat := 0                   -- `i`
  brk : Bool := false            -- `break` hit
  ps : List Nat := []            -- `ps`
  colv : Nat := 0                -- `fg` / `bg` / `ul`
  colSel : Nat := 0              -- which colour the block is about: 0 Foreground, 1 Background, 2 UnderlineColor
  ulsv : Nat := 0                -- `ulStyle`
  w : Int := 0
  ret : Option Int := none
  cn : CursorState := {}
  out : List Tok := []
  cont : Bool := false
  unknown : Bool := false
  deriving Repr, Inhabited

/-- Index (in bytes) of the first `;` (hex pair `3b`) of a hex string. -/
def semiIndexL : List Char → Option Nat
  | a :: b :: r => if a = '3' ∧ b = 'b' then some 0 else (semiIndexL r).map (· + 1)
  | _ => none

/-- `s[:i]` on a hex string. -/
def takeBytes (i : Nat) (s : String) : String := String.ofList (s.toList.take (2 * i))

/-- Guards: the (possibly updated) environment and the truth value. -/
def evalG (cw : String → Nat) (caps : Caps) (a : Atom) (e : Env) : Env × Bool :=
  match a with
  | .cellWidth0 => (e, e.next.w == 0)
  | .wNeg => (e, decide (e.w < 0))
  | .nextSixel => (e, e.next.sixel)
  | .endLastDirty => ({ e with endv := e.col + advance cw e.last + 1 }, decide (e.col + advance cw e.last + 1 > e.dirty))
  | .nextTooWide => (e, decide (e.col + advance cw e.next ≥ e.len))
  | .reposition => (e, e.reposition)
  | .cursorLinked => (e, decide (e.cursor.link ≠ ""))
  | .linkChanged => (e, decide (e.cursor.link ≠ e.next.style.link ∨ (e.next.style.link ≠ "" ∧ e.cursor.linkParams ≠ e.next.style.linkParams)))
  | .linkEmpty => (e, decide (e.link = ""))
  | .semiIndex => ({ e with idx := semiIndexL e.linkPs.toList }, (semiIndexL e.linkPs.toList).isSome)
  | .nextWidth0 => (e, e.next.w == 0)
  | .unchanged => (e, decide (e.next = e.last) && !e.refresh && decide (e.col ≥ e.dirty))
  | .shapeChanged => (e, decide (e.shapeLast ≠ e.shapeNext))
  | .cursorAppears => (e, e.cn.visible && !e.cl.visible)
  | .fgDelta => (e, decide (e.cursor.fg ≠ e.next.style.fg))
  | .bgDelta => (e, decide (e.cursor.bg ≠ e.next.style.bg))
  | .ulDelta => (e, caps.styledUnderlines)
  | .ulChanged => (e, decide (e.cursor.ul ≠ e.next.style.ul))
  | .ulStyleDelta => (e, decide (e.cursor.ulStyle ≠ e.next.style.ulStyle))
  | .notRgb => (e, !caps.rgb)
  | .ps0lt8 => (e, decide (e.ps.getD 0 0 < 8))
  | .ps0lt16 => (e, decide (e.ps.getD 0 0 < 16))
  | .colIBeyond => (e, decide (e.col + e.i ≥ e.len))
  | .endLastIDirty =>
      ({ e with endv := e.col + e.i + advance cw (e.lastRow[e.col + e.i]?.getD {}) + 1 },
       decide (e.col + e.i + advance cw (e.lastRow[e.col + e.i]?.getD {}) + 1 > e.dirty))
  | .nextWide => (e, decide (e.next.w > 1) && caps.explicitWidth)
  | _ => ({ e with unknown := true }, false)

/-- Statements. -/
def evalS (cw : String → Nat) (caps : Caps) (a : Atom) (e : Env) : Env :=
  match a with
  | .setCellWidth => { e with next := { e.next with w := (cw e.next.g : Int) } }
  | .wAssign => { e with w := e.next.w - 1 }
  | .ret0 => { e with ret := some 0 }
  | .retW => { e with ret := some e.w }
  | .newBuf => { e with out := [] }
  | .wrCursorStyle => { e with out := e.out ++ [Tok.cursorStyle e.cn.style] }
  | .wrCursorCup => { e with out := e.out ++ [Tok.cup (e.cn.row + 1) (e.cn.col + 1)] }
  | .wrCursorShow => { e with out := e.out ++ [Tok.decset 25] }
  | .retBuf => { e with ret := some 0 }
  | .dirtyEnd => { e with dirty := e.endv }
  | .lastNext => { e with lastSet := some e.next }
  | .repTrue => { e with reposition := true }
  | .continue_ => { e with cont := true }
  | .nextBlank => { e with next := { e.next with g := "20", w := 1 } }
  | .wrLinkClose => { e with out := e.out ++ [Tok.osc8 "" ""] }
  | .cursorLinkClear => { e with cursor := { e.cursor with link := "" } }
  | .cursorParamsClear => { e with cursor := { e.cursor with linkParams := "" } }
  | .wrCup => { e with out := e.out ++ [Tok.cup (e.row + 1) (e.col + 1)] }
  | .repFalse => { e with reposition := false }
  | .linkAssign => { e with link := e.next.style.link }
  | .paramsAssign => { e with linkPs := e.next.style.linkParams }
  | .paramsClear => { e with linkPs := "" }
  | .paramsCut => { e with linkPs := takeBytes (e.idx.getD 0) e.linkPs }
  | .wrLink => { e with out := e.out ++ [Tok.osc8 e.linkPs e.link] }
  | .setNextWidth => { e with next := { e.next with w := (cw e.next.g : Int) } }
  | .wrSpace => { e with out := e.out ++ [Tok.text "20"] }
  | .wrExplicit => { e with out := e.out ++ [Tok.textW e.next.w e.next.g] }
  | .wrGrapheme => { e with out := e.out ++ [Tok.text e.next.g] }
  | .fgDelta => { e with out := e.out ++ (if e.cursor.fg ≠ e.next.style.fg then colorToks caps 30 e.next.style.fg else []) }
  | .bgDelta => { e with out := e.out ++ (if e.cursor.bg ≠ e.next.style.bg then colorToks caps 40 e.next.style.bg else []) }
  | .ulDelta => { e with out := e.out ++
      (if caps.styledUnderlines ∧ e.cursor.ul ≠ e.next.style.ul then ulColorToks caps e.next.style.ul else []) }
  | .attrDelta => { e with out := e.out ++ attrToks e.cursor.attr e.next.style.attr }
  | .ulStyleDelta => { e with out := e.out ++
      (if e.cursor.ulStyle ≠ e.next.style.ulStyle then
         (if caps.styledUnderlines then [Tok.sgr [[4, e.next.style.ulStyle]]]
          else if e.next.style.ulStyle = 0 then [Tok.sgr [[24]]] else [Tok.sgr [[4]]])
       else []) }
  | .cursorNextStyle => { e with cursor := e.next.style }
  | .skipAdvance => { e with skipv := advance cw e.next }
  | .nullLoop => { e with nulled := e.skipv }
  | .colSkip => { e with col := e.col + e.skipv }
  | .wrShape => { e with out := e.out ++ [Tok.pointer e.shapeNext] }
  | .shapeAssign => { e with shapeLast := e.shapeNext }
  | .wrShowCursor => { e with out := e.out ++ showCursorToks e.cn }
  | .colAssign => { e with colv := if e.colSel = 0 then e.next.style.fg else if e.colSel = 1 then e.next.style.bg else e.next.style.ul }
  | .psParams => { e with ps := VaxisModel.Model.Color.params e.colv }
  | .psAsIndex => { e with ps := VaxisModel.Model.Color.params (VaxisModel.Model.Color.asIndex e.colv) }
  | .wrFgReset => { e with out := e.out ++ [Tok.sgr [[39]]] }
  | .wrFgSet => { e with out := e.out ++ [Tok.sgr [[30 + e.ps.getD 0 0]]] }
  | .wrFgBright => { e with out := e.out ++ [Tok.sgr [[90 + (e.ps.getD 0 0 - 8)]]] }
  | .wrFgIndex => { e with out := e.out ++ [Tok.sgr [[38, 5, e.ps.getD 0 0]]] }
  | .wrFgRGB => { e with out := e.out ++ [Tok.sgr [[38, 2, e.ps.getD 0 0, e.ps.getD 1 0, e.ps.getD 2 0]]] }
  | .wrBgReset => { e with out := e.out ++ [Tok.sgr [[49]]] }
  | .wrBgSet => { e with out := e.out ++ [Tok.sgr [[40 + e.ps.getD 0 0]]] }
  | .wrBgBright => { e with out := e.out ++ [Tok.sgr [[100 + (e.ps.getD 0 0 - 8)]]] }
  | .wrBgIndex => { e with out := e.out ++ [Tok.sgr [[48, 5, e.ps.getD 0 0]]] }
  | .wrBgRGB => { e with out := e.out ++ [Tok.sgr [[48, 2, e.ps.getD 0 0, e.ps.getD 1 0, e.ps.getD 2 0]]] }
  | .wrUlReset => { e with out := e.out ++ [Tok.sgr [[59]]] }
  | .wrUlIndex => { e with out := e.out ++ [Tok.sgr [[58, 5, e.ps.getD 0 0]]] }
  | .wrUlRGB => { e with out := e.out ++ [Tok.sgr [[58, 2, e.ps.getD 0 0, e.ps.getD 1 0, e.ps.getD 2 0]]] }
  | .ulStyleAssign => { e with ulsv := e.next.style.ulStyle }
  | .wrUlStyleSet => { e with out := e.out ++ [Tok.sgr [[4, e.ulsv]]] }
  | .wrUnderlineReset => { e with out := e.out ++ [Tok.sgr [[24]]] }
  | .wrUnderlineSet => { e with out := e.out ++ [Tok.sgr [[4]]] }
  | .break_ => { e with brk := true }
  | .lastINull => { e with lastRow := e.lastRow.set (e.col + e.i) {} }
  | _ => { e with unknown := true }

/-- `switch tag { case c: … }`: does the tag's value equal the case constant? -/
def tagMatch (caps : Caps) (tag c : Atom) (e : Env) : Bool :=
  match tag, c with
  | .lenPs, .ret0 => e.ps.length == 0
  | .lenPs, .lit1 => e.ps.length == 1
  | .lenPs, .lit3 => e.ps.length == 3
  | .ulDelta, .litTrue => caps.styledUnderlines
  | .ulDelta, .litFalse => !caps.styledUnderlines
  | .ulStyleVar, .litUnderlineOff => e.ulsv == 0
  | _, _ => false

/-! ### execution -/

mutual
/-- Run the statements of a block in order. -/
def exec (cw : String → Nat) (caps : Caps) : Nat → List (Nat × Kind × Atom) → Env → Env
  | 0, _, e => { e with unknown := true }
  | _, [], e => e
  | f + 1, (d, k, a) :: rest, e =>
    if e.cont ∨ e.ret.isSome ∨ e.brk then e else
    let body := rest.takeWhile (fun l => d < l.1)
    let after := rest.dropWhile (fun l => d < l.1)
    match k with
    | .if_ =>
        let r := evalG cw caps a e
        exec cw caps f after (if r.2 then exec cw caps f body r.1 else r.1)
    | .switch_ => exec cw caps f after (execArms cw caps f a body e)
    | .stmt => exec cw caps f after (evalS cw caps a e)
    | .for_ =>
        if a = Atom.nullLoop then exec cw caps f after (loopI cw caps f body { e with i := 1 })
        else { e with unknown := true }
    | _ => { e with unknown := true }
/-- The arms of a `switch`: the first `case` whose guard holds, else `default`. -/
def execArms (cw : String → Nat) (caps : Caps) : Nat → Atom → List (Nat × Kind × Atom) → Env → Env
  | 0, _, _, e => { e with unknown := true }
  | _, _, [], e => e
  | f + 1, tag, (d, k, a) :: rest, e =>
    let body := rest.takeWhile (fun l => d < l.1)
    let after := rest.dropWhile (fun l => d < l.1)
    match k with
    | .case_ =>
        let r := if tag = Atom.none_ then evalG cw caps a e else (e, tagMatch caps tag a e)
        if r.2 then exec cw caps f body r.1 else execArms cw caps f tag after r.1
    | .default_ => exec cw caps f body e
    | _ => { e with unknown := true }
/-- `for i := 1; i < skip+1; i += 1 { body }` after the init statement. -/
def loopI (cw : String → Nat) (caps : Caps) : Nat → List (Nat × Kind × Atom) → Env → Env
  | 0, _, e => { e with unknown := true }
  | f + 1, body, e =>
    if e.i < e.skipv + 1 then
      let e1 := exec cw caps f body e
      if e1.brk then { e1 with brk := false } else loopI cw caps f body { e1 with i := e1.i + 1 }
    else e
end

/-- Run a block with the five colour / attribute / underline blocks as single statements. -/
def runP (cw : String → Nat) (caps : Caps) (sk : List Line) (e : Env) : Env :=
  exec cw caps (sk.length + 1) (prune (prog sk)) e

/-- Run a block with explicit fuel (loops). -/
def runF (cw : String → Nat) (caps : Caps) (fuel : Nat) (sk : List Line) (e : Env) : Env :=
  exec cw caps fuel (prog sk) e

/-- Run a block of a skeleton (fuel = number of lines + 1: every call consumes a line). -/
def run (cw : String → Nat) (caps : Caps) (sk : List Line) (e : Env) : Env :=
  exec cw caps (sk.length + 1) (prog sk) e

end VaxisModel.Model.RenderInterp
