/-
The cell loop of /repo/vaxis.go `render()` as it is now: `Model.RenderClip` (F02 repair) plus the
F113 repair of the sixel branch (commit 631e12a):

    if next.sixel {
        if end := col + vx.advance(vx.screenLast.buf[row][col]) + 1; end > dirty { dirty = end }
        vx.screenLast.buf[row][col] = next
        reposition = true
        continue
    }

(before: only `vx.screenLast.buf[row][col].sixel = true`).  `renderCellsS` is the transcription the
driver runs.  On grids without sixel-flagged cells it is `renderCellsC` (`Lemmas/RenderSixel.lean`),
which is why `Model/RenderClip.lean` and `Model/Render.lean` — over which the display theorems and
other properties' theorems are stated, all for sixel-free grids or for the token vocabulary only —
are left as they were.
-/
import VaxisModel.Model.RenderClip

namespace VaxisModel.Model.Render

def renderCellsS (cw : String → Nat) (caps : Caps) (refresh : Bool) (row : Nat) :
    Nat → Nat → Bool → Nat → List Cell → List Cell → RSt → List Cell × RSt
  | _, _, _, _, [], _, st => ([], st)
  | _, _, _, _, _ :: _, [], st => ([], st)
  | col, skip + 1, track, dirty, _ :: ns, l :: ls, st =>
      let dirty' := if track ∧ col + advance cw l + 1 > dirty then col + advance cw l + 1 else dirty
      let (r, st') := renderCellsS cw caps refresh row (col + 1) skip track dirty' ns ls st
      (({} : Cell) :: r, st')
  | col, 0, _, dirty, n0 :: ns, l :: ls, st =>
      if n0.sixel then
        let dirty' := if col + advance cw l + 1 > dirty then col + advance cw l + 1 else dirty
        let (r, st') := renderCellsS cw caps refresh row (col + 1) 0 false dirty' ns ls { st with reposition := true }
        (n0 :: r, st')
      else
      let n := clipCell cw (ns.length + 1) n0
      if n = l ∧ ¬ refresh ∧ col ≥ dirty then
        let (r, st') := renderCellsS cw caps refresh row (col + 1) (advance cw n) false dirty ns ls { st with reposition := true }
        (l :: r, st')
      else
        let dirty' := if col + advance cw l + 1 > dirty then col + advance cw l + 1 else dirty
        let pre : List Tok :=
          if st.reposition then
            (if st.pen.link ≠ "" then [Tok.osc8 "" ""] else []) ++ [Tok.cup (row + 1) (col + 1)]
          else []
        let pen : Style := if st.reposition ∧ st.pen.link ≠ "" then { st.pen with link := "", linkParams := "" } else st.pen
        let toks := pre ++ penDelta caps pen n.style ++ [glyphTok cw caps n]
        let st' : RSt := { reposition := false, pen := n.style, out := st.out ++ toks }
        let (r, st'') := renderCellsS cw caps refresh row (col + 1) (advance cw n) true dirty' ns ls st'
        (n :: r, st'')

def renderRowsS (cw : String → Nat) (caps : Caps) (refresh : Bool) :
    Nat → Grid → Grid → RSt → Grid × RSt
  | _, [], _, st => ([], st)
  | _, _ :: _, [], st => ([], st)
  | row, n :: ns, l :: ls, st =>
      let (l', st') := renderCellsS cw caps refresh row 0 0 false 0 n l { st with reposition := true }
      let (r, st'') := renderRowsS cw caps refresh (row + 1) ns ls st'
      (l' :: r, st'')

def renderBodyS (cw : String → Nat) (f : Frame) : Grid × List Tok :=
  let pre := if f.shapeLast ≠ f.shapeNext then [Tok.pointer f.shapeNext] else []
  let (last', st) := renderRowsS cw f.caps f.refresh 0 f.next f.last { out := pre }
  let close := if st.pen.link ≠ "" then [Tok.osc8 "" ""] else []
  let show_ := if f.cursorNext.visible ∧ ¬ f.cursorLast.visible then showCursorToks f.cursorNext else []
  (last', st.out ++ close ++ show_)

/-- One `Render()` of the renderer as it is now. -/
def renderFrameS (cw : String → Nat) (f : Frame) : Grid × List Tok :=
  let (last', body) := renderBodyS cw f
  (last', flush f.caps f.cursorNext f.cursorLast body)

end VaxisModel.Model.Render
