import VaxisModel.Model.QueryBody

/-!
# Interpreter for the regenerated bodies of `QueryColor`, `QueryForeground`, `QueryBackground`

`Gen.InputBody.qc / qf / qb` (terms of `Model/GoBody.lean`; the extractor rewrites
`select { case <-CH: default: }` into `tryRecv(CH)` and `<-CH` into `recv(CH)`).  A requester is run
as a function of what it cannot know itself — whether the capability was detected (`can`), the
parameters of the colour asked for, the payload its receive returns (`resp`) — to the trace of its
channel / terminal operations and the colour it returns.  Expressions are those of
`Model/QueryBody.lean`; `parseColorReply(resp, prefix)` is a call into ITS regenerated body (`runPr`).
`Props/C03Query.query*_body_eq_model` prove the runs equal to the model (`queryColorPre`, the drain
of a stale reply, the query, one receive, `colorOfReply`).  Core Lean only.
-/
namespace VaxisModel.Model.RequesterBody
open VaxisModel.Model.GoBody VaxisModel.Model.Color VaxisModel.Model.InputQuery VaxisModel.Model.QueryBody

/-- What a requester does to its reply channel and to the terminal, in order. -/
inductive Fx
  | tryRecv (ch : String)
  | write (what : String) (args : List Nat)
  | recv (ch : String)
  deriving DecidableEq, Repr

structure ReqIn where
  /-- the capability accessor the body tests (`vx.CanReport…Color()`) -/
  can : Bool
  /-- `c.Params()` -/
  params : List Nat
  /-- what the blocking receive returns -/
  resp : List Nat

structure RSt where
  env : QEnv
  fx : List Fx := []

inductive RR
  | norm (st : RSt)
  | ret (st : RSt) (v : QV)
  | fail (why : String)

def isCanCall (fn : String) : Bool :=
  fn == "vx.CanReportColor" || fn == "vx.CanReportForegroundColor" || fn == "vx.CanReportBackgroundColor"

/-- The condition of an `if`: the capability test, or an expression of `Model/QueryBody`. -/
def reqCond (inp : ReqIn) (env : QEnv) (cond : E) : Except String Bool :=
  match cond with
  | .un .not (.call fn .nil) => if isCanCall fn then .ok (!inp.can) else .error "condition"
  | e => match qeval env e with | .ok (.bool b) => .ok b | .ok _ => .error "condition" | .error w => .error w

/-- A call in statement position. -/
def reqCallStmt (st : RSt) (fn : String) (args : Es) : RR :=
  if fn = "log.Error" then .norm st
  else if fn = "tryRecv" then
    (match args with | .cons (.var ch) .nil => .norm { st with fx := st.fx ++ [.tryRecv ch] } | _ => .fail "tryRecv")
  else if fn = "vx.tw.WriteStringLocked" then
    (match args with
     | .cons (.var q) .nil => .norm { st with fx := st.fx ++ [.write q []] }
     | .cons (.call tp (.cons (.var q) (.cons e .nil))) .nil =>
       if tp = "tparm" then
         (match qeval st.env e with
          | .ok (.nat n) => .norm { st with fx := st.fx ++ [.write q [n]] }
          | .ok _ => .fail "tparm argument"
          | .error w => .fail w)
       else .fail "write"
     | _ => .fail "write")
  else .fail ("call statement " ++ fn)

/-- `x := f(args)` -/
def reqDefine1 (inp : ReqIn) (st : RSt) (x fn : String) (args : Es) : RR :=
  if fn = "c.Params" then .norm { st with env := (x, .arr inp.params) :: st.env }
  else if fn = "recv" then
    (match args with
     | .cons (.var ch) .nil => .norm { env := (x, .str inp.resp) :: st.env, fx := st.fx ++ [.recv ch] }
     | _ => .fail "recv")
  else match qeval st.env (.call fn args) with
    | .ok v => .norm { st with env := (x, v) :: st.env }
    | .error w => .fail w

/-- `a, b := parseColorReply(e1, e2)` -/
def reqDefine2 (st : RSt) (a b fn : String) (args : Es) : RR :=
  if fn = "parseColorReply" then
    (match qevals st.env args with
     | .ok [.str r, .str p] =>
       (match runPr r p with
        | .ok (c, ok) => .norm { st with env := (b, .bool ok) :: (a, .color c) :: st.env }
        | .error w => .fail w)
     | .ok _ => .fail "parseColorReply arguments"
     | .error w => .fail w)
  else .fail "assignment"

def RR.andThen (r : RR) (f : RSt → RR) : RR :=
  match r with
  | .norm st => f st
  | r => r

mutual
  def rexecS (inp : ReqIn) : S → RSt → RR
    | .ifS .nil cond thn .nil, st =>
      (match reqCond inp st.env cond with
       | .ok b => if b = true then rexecSs inp thn st else .norm st
       | .error w => .fail w)
    | .ret (.cons e .nil), st => (match qeval st.env e with | .ok v => .ret st v | .error w => .fail w)
    | .expr (.call fn args), st => reqCallStmt st fn args
    | .assign .define (.cons (.var x) .nil) (.cons (.call fn args) .nil), st => reqDefine1 inp st x fn args
    | .assign .define (.cons (.var a) (.cons (.var b) .nil)) (.cons (.call fn args) .nil), st => reqDefine2 st a b fn args
    | _, _ => .fail "statement"
  def rexecSs (inp : ReqIn) : Ss → RSt → RR
    | .nil, st => .norm st
    | .cons h t, st => (rexecS inp h st).andThen fun st' => rexecSs inp t st'
end

/-- A requester run on its regenerated body: the trace and the colour returned. -/
def runReq (body : Ss) (inp : ReqIn) (c : Color) : Except String (List Fx × Color) :=
  match rexecSs inp body { env := [("c", .color c)] } with
  | .ret st (.color col) => .ok (st.fx, col)
  | .ret _ _ => .error "result type"
  | .norm _ => .error "no return"
  | .fail w => .error w

/-- The model's prediction in the same vocabulary: no capability / an RGB colour / the default colour
return at once; otherwise drop a stale reply, write the query, receive once, parse. -/
def queryColorModel (can : Bool) (c : Color) (resp : List Nat) : List Fx × Color :=
  match queryColorPre can c with
  | .inl col => ([], col)
  | .inr idx => ([.tryRecv "vx.chColor", .write "osc4" [idx], .recv "vx.chColor"], colorOfReply (litColor idx) resp)

def queryFgBgModel (can : Bool) (ch q : String) (lit resp : List Nat) : List Fx × Color :=
  if !can then ([], 0) else ([.tryRecv ch, .write q [], .recv ch], colorOfReply lit resp)

end VaxisModel.Model.RequesterBody
