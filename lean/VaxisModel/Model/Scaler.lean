/-
C20, round 3: model of `draw.NearestNeighbor.Scale(dst, dst.Rect, img, img.Bounds(), draw.Over, nil)` as
`resizeImage` (image.go) calls it — golang.org/x/image v0.9.0, draw/impl.go, the generated fast paths
`scale_RGBA_NRGBA_{Over,Src}` and `scale_RGBA_RGBA_{Over,Src}` (source `*image.NRGBA` / `*image.RGBA`, destination
the fresh `image.NewRGBA(image.Rect(0, 0, newPixelWidth, newPixelHeight))`) — and of the whole path from a stored
8-bit image to the cell lists of the block renderers.  Core Lean only.

Transcribed:
* the index choice `sx := (2*uint64(dx) + 1) * sw / dw2` with `dw2 = 2*dr.Dx()`, `sw = sr.Dx()` (same for `sy`):
  `nnIndex`;
* the pixel the fast path reads, as 16-bit premultiplied `(pr, pg, pb, pa)`: for `*image.NRGBA`
  `pa := uint32(a) * 0x101; pr := uint32(r) * pa / 0xff`, for `*image.RGBA` `pr := uint32(r) * 0x101`: `load`;
* what it stores: `_Src`: `dst.Pix[d+i] = uint8(p >> 8)`; `_Over`: `pa1 := (0xffff - pa) * 0x101;
  dst.Pix[d+i] = uint8((uint32(dst.Pix[d+i])*pa1/0xffff + p) >> 8)`: `storeSrc`, `storeOver` (no `uint32` product
  here exceeds 255·0xffff·0x101 < 2³², so there is no wrap-around to model);
* `Scale` switches `Over` to `Src` when `opaque(src)` (a scan of the whole source): both are modelled (`over : Bool`)
  and `Props.C20Pixels.over_on_fresh_is_src` shows they agree on the all-zero destination `resizeImage` passes.

Not transcribed: the `Copy` shortcut `Scale` takes when `dr.Size() == sr.Size()` — `resizeImage` only scales after
the fit test failed, and then both dimensions shrink (`Props.C20Pixels.scale_shrinks`), so the shortcut is
unreachable from `resizeImage`; the `DstMask`/`SrcMask` options (nil here).  Round 4: the generic paths
`scale_RGBA_Image_{Over,Src}` (`scaledPxGeneric`: same index formula, pixel = the source's own `At(…).RGBA()`) and the
Gray fast path (`grayStore`) are transcribed; `Props.C20Generic` shows the NRGBA / RGBA fast paths are the generic path
on those types' `RGBA()`, so a source of another type whose `At(x,y).RGBA()` agrees with an NRGBA image's is scaled to
the same bytes (`*image.Gray`, `*image.Paletted` with 8-bit palette entries: checked on the real code by the streams
`halfg|fullg|halfq|fullq`).  `*image.YCbCr` (inlined 16-bit conversion) is not modelled.
-/
import VaxisModel.Model.Blocks
import VaxisModel.Spec.Images

namespace VaxisModel.Model.Scaler
open VaxisModel.Model.Blocks VaxisModel.Model.ImageFit VaxisModel.Spec.Images VaxisModel.Gen.ImageConsts

/-- Four bytes of a `Pix` slice. -/
structure P8 where
  r : Nat
  g : Nat
  b : Nat
  a : Nat
  deriving DecidableEq, Repr, Inhabited

/-- Concrete type of the source image: `*image.NRGBA` (straight alpha) or `*image.RGBA` (premultiplied). -/
inductive Kind | nrgba | rgba
  deriving DecidableEq, Repr

/-- An image as stored: `w × h` pixels of four bytes, row major (`Rect.Min = (0,0)`, `Stride = 4·w`). -/
structure Img8 where
  kind : Kind
  w : Nat
  h : Nat
  px : Array P8

def Img8.pix (img : Img8) (x y : Nat) : P8 := img.px.getD (y * img.w + x) ⟨0, 0, 0, 0⟩

/-- `(2*uint64(d) + 1) * s / (2 * dn)`: the source index for destination index `d` when `s` source pixels are
    scaled to `dn` destination pixels (the centre of the destination pixel, mapped back and truncated). -/
def nnIndex (d s dn : Nat) : Nat := (2 * d + 1) * s / (2 * dn)

/-- The pixel as the fast path computes it from the `Pix` bytes: 16-bit alpha-premultiplied. -/
def load : Kind → P8 → C16
  | .nrgba, p => ⟨p.r * (p.a * 0x101) / 0xff, p.g * (p.a * 0x101) / 0xff, p.b * (p.a * 0x101) / 0xff, p.a * 0x101⟩
  | .rgba, p => ⟨p.r * 0x101, p.g * 0x101, p.b * 0x101, p.a * 0x101⟩

/-- `_Src` paths (`>> 8` written `/ 256`). -/
def storeSrc (c : C16) : P8 := ⟨u8 (c.r / 256), u8 (c.g / 256), u8 (c.b / 256), u8 (c.a / 256)⟩

/-- `_Over` paths, onto the destination bytes `d`. -/
def storeOver (d : P8) (c : C16) : P8 :=
  let pa1 := (0xffff - c.a) * 0x101
  ⟨u8 ((d.r * pa1 / 0xffff + c.r) / 256), u8 ((d.g * pa1 / 0xffff + c.g) / 256),
   u8 ((d.b * pa1 / 0xffff + c.b) / 256), u8 ((d.a * pa1 / 0xffff + c.a) / 256)⟩

/-- Destination pixel `(dx, dy)` of a `dw × dh` destination that was all zero (`image.NewRGBA`). -/
def scaledPx (over : Bool) (src : Img8) (dw dh dx dy : Nat) : P8 :=
  let c := load src.kind (src.pix (nnIndex dx src.w dw) (nnIndex dy src.h dh))
  if over then storeOver ⟨0, 0, 0, 0⟩ c else storeSrc c

/-- The generic paths `scale_RGBA_Image_{Over,Src}` (round 4; sources of any other concrete type — `*image.Paletted`,
    16-bit types, …): the same index formula, the pixel is what the source's own `At(x, y).RGBA()` returns (`px`), the
    same stores.  `sw × sh`: the source's size. -/
def scaledPxGeneric (over : Bool) (px : Nat → Nat → C16) (sw sh dw dh dx dy : Nat) : P8 :=
  let c := px (nnIndex dx sw dw) (nnIndex dy sh dh)
  if over then storeOver ⟨0, 0, 0, 0⟩ c else storeSrc c

/-- The fast path `scale_RGBA_Gray_Src` (source `*image.Gray`, always opaque): `pr := uint32(Y) * 0x101;
    out := uint8(pr >> 8)`, stored three times with alpha `0xff`. -/
def grayStore (y : Nat) : P8 := ⟨u8 (y * 0x101 / 256), u8 (y * 0x101 / 256), u8 (y * 0x101 / 256), 0xff⟩

/-- The fast paths `scale_RGBA_YCbCr4xx_Src` (source `*image.YCbCr`, always opaque), one channel: "an inline version of
    image/color/ycbcr.go's YCbCr.RGBA method" — `p := v >> 8; if p < 0 { p = 0 } else if p > 0xffff { p = 0xffff };
    dst.Pix[d] = uint8(p >> 8)` (`>>` on a signed `int`: floor division). -/
def ycbcrStoreChan (v : Int) : Nat :=
  let p := v / 256
  let p := if p < 0 then 0 else if p > 0xffff then 0xffff else p
  u8 (p / 256).toNat

/-- The scaled image (an `*image.RGBA`). -/
def scale (over : Bool) (src : Img8) (dw dh : Nat) : Img8 :=
  { kind := .rgba, w := dw, h := dh,
    px := Array.ofFn (n := dh * dw) fun i => scaledPx over src dw dh (i.val % dw) (i.val / dw) }

/-- `opaque(src)`: every alpha byte is 0xff (`(*image.NRGBA).Opaque` / `(*image.RGBA).Opaque`). -/
def Img8.opaque (img : Img8) : Bool :=
  (List.range (img.w * img.h)).all fun i => (img.px.getD i ⟨0, 0, 0, 0⟩).a == 255

/-- `At(x, y).RGBA()` of one stored pixel. -/
def conv : Kind → P8 → C16
  | .nrgba, p => .ofQuad (nrgbaRGBA p.r p.g p.b p.a)
  | .rgba, p => .ofQuad (rgbaRGBA p.r p.g p.b p.a)

/-- The image as the block renderers read it (`At(x, y).RGBA()`; outside the bounds the zero colour). -/
def Img8.view (img : Img8) : Img := ⟨img.w, img.h, img.px.map (conv img.kind)⟩

/-- A source of ANY concrete type as the scaler's generic path and the block renderers see it (round 4): its size and,
    row major, what `At(x, y).RGBA()` returns for each pixel (`Bounds().Min = (0,0)`). -/
structure ImgG where
  w : Nat
  h : Nat
  px : Array C16

def ImgG.pix (img : ImgG) (x y : Nat) : C16 := img.px.getD (y * img.w + x) ⟨0, 0, 0, 0⟩

/-- A stored NRGBA / RGBA image seen that way. -/
def Img8.generic (img : Img8) : ImgG := ⟨img.w, img.h, img.px.map (conv img.kind)⟩

/-- The image scaled by the generic path (an `*image.RGBA`). -/
def scaleG (over : Bool) (src : ImgG) (dw dh : Nat) : Img8 :=
  { kind := .rgba, w := dw, h := dh,
    px := Array.ofFn (n := dh * dw) fun i => scaledPxGeneric over src.pix src.w src.h dw dh (i.val % dw) (i.val / dw) }

/-- `resizeImage` on a source of any type, as the block renderers then read the result (`At(x, y).RGBA()`): the
    source itself when it fits, else the generic nearest-neighbour scaling (`isOpaque`: what `opaque(src)` answers —
    immaterial on the fresh destination, `Props.C20Pixels.over_on_fresh_is_src`). -/
def resizeImgGWith (cfg : Cfg) (F : FloatOps) (src : ImgG) (isOpaque : Bool) (w h cellW cellH : Nat) : Except Panic Img := do
  let columns ← cells cfg.colsUp src.w cellW
  let lines ← cells cfg.linesUp src.h cellH
  if evalFit cfg.fit columns w lines h then
    return ⟨src.w, src.h, src.px⟩
  let d := runArms F cfg.arms (F.cmp w columns h lines) src.w src.h w columns h lines
  return (scaleG (!isOpaque) src d.1 d.2).view

def resizeImgG (F : FloatOps) (src : ImgG) (isOpaque : Bool) (w h cellW cellH : Nat) : Except Panic Img :=
  resizeImgGWith genCfg F src isOpaque w h cellW cellH

/-- `resizeImage(img, w, h, cellW, cellH)` on the image itself (shape of the code from `cfg`, float steps `F`):
    the image as it is when it fits, else the nearest-neighbour scaling to the computed pixel size (`draw.Over`
    unless the source is opaque). -/
def resizeImgWith (cfg : Cfg) (F : FloatOps) (src : Img8) (w h cellW cellH : Nat) : Except Panic Img8 := do
  let columns ← cells cfg.colsUp src.w cellW
  let lines ← cells cfg.linesUp src.h cellH
  if evalFit cfg.fit columns w lines h then
    return src
  let d := runArms F cfg.arms (F.cmp w columns h lines) src.w src.h w columns h lines
  return scale (!src.opaque) src d.1 d.2

def resizeImg (F : FloatOps) (src : Img8) (w h cellW cellH : Nat) : Except Panic Img8 :=
  resizeImgWith genCfg F src w h cellW cellH

/-- `HalfBlockImage.Resize(w, h)`: the cell list. -/
def halfResize (F : FloatOps) (src : Img8) (w h : Nat) : Except Panic (List (Nat × Nat × BCell)) := do
  let img ← resizeImg F src w h halfBlockGeom.1 halfBlockGeom.2
  return halfCells img.view

/-- `FullBlockImage.Resize(w, h)`: the cell list. -/
def fullResize (F : FloatOps) (src : Img8) (w h : Nat) : Except Panic (List (Nat × Nat × BCell)) := do
  let img ← resizeImg F src w h fullBlockGeom.1 fullBlockGeom.2
  return fullCells img.view

/-- What a block renderer computes (`toRGB(dst.At(x, y))`) for a translucent `*image.NRGBA` source pixel with channel
    `c`, alpha `a` after it went through the scaler (premultiplied, quantised to 8 bits, un-premultiplied again):
    (channel, alpha). -/
def scaledBack (c a : Nat) : Nat × Nat :=
  let p := storeSrc (load .nrgba ⟨c, c, c, a⟩)
  let q := toRGB (conv .rgba p)
  (q.r, q.a)

end VaxisModel.Model.Scaler
