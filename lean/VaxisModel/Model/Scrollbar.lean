/-
Model of /repo/widgets/scrollbar/scrollbar.go `Model.Draw`.  Go `int` division truncates toward
zero (`Int.tdiv`); the divisor `TotalHeight` is ≥ 1 on the path that divides (guarded by the first
`if`), so no division by zero is reachable — the model still returns `none` (nothing drawn) there.
-/
namespace VaxisModel.Model.Scrollbar

structure Bar where
  top : Int
  len : Int
deriving DecidableEq, Repr

/-- `(barTop, barH)` or `none` when `Draw` returns without drawing. -/
def bar (total view top h : Int) : Option Bar :=
  if total < 1 then none
  else if view ≥ total then none
  else
    let barH := Int.tdiv (view * h) total
    let barH := if barH < 1 then 1 else barH
    let barTop := Int.tdiv (top * h) total
    some { top := barTop, len := barH }

/-- The window rows that receive the bar character: `SetCell(0, barTop+i)` for `i < barH`, which
    `SetCell` ignores outside `0 ≤ row < h` (and for a window of width 0). -/
def rows (total view top : Int) (h : Nat) : List Nat :=
  match bar total view top h with
  | none => []
  | some b => (List.range h).filter fun r => b.top ≤ (r : Int) ∧ (r : Int) < b.top + b.len

end VaxisModel.Model.Scrollbar
