/-
Model of the SGR producers and consumers of vaxis (property C18).

Producers (Go → model), all as functions (previous style, next style) ↦ list of SGR sequences, each
sequence a `List (List Nat)` (parameters with colon sub-parameters), in emission order:
* cell.go `EncodeCells`            → `encodeDelta` / `encodeCells`
* styled_string.go `Encode`        → `ssDelta` / `ssEncode`
* vaxis.go `render` (pen delta)    → `renderDelta`, parametrised by `caps.rgb`, `caps.styledUnderlines`
The byte strings they write are the constants of sequences.go / styled_string.go; the model takes
their parsed templates from `Gen.Sequences` (regenerated every run) and instantiates the `%d` verbs
(`fmt`).  `legacy = true` models `VAXIS_FORCE_LEGACY_SGR` (quirks.go rewrites `:` to `;` in the four
format *variables*, which `EncodeCells` and `render` use).

Consumers, with checked indexing (`Panic.index` where Go would panic with index out of range):
* cell.go `parseSGR`               → `parseSGR`   = `intSgr parseCfg`
* widgets/term/sgr.go `sgr`        → `emuSgr`     = `intSgr emuCfg`
* styled_string.go `NewStyledString` (works on text split on `;` and `:`) → `ssSeq` over `SubTok`s.
The two `[][]int` consumers are the same code up to the set of handled `case` labels and accepted
sub-parameter counts; both sets come from `Gen.SgrCases` (extracted), so a removed / added `case`
changes the model. What a handled label *does* is transcribed here and validated by correspondence.

Deviations: hyperlinks are not modelled (the parsers ignore OSC 8); graphemes are opaque tokens (the
real segmentation is done by uniseg / the ansi parser: assumption A-concat, validated by running the
real functions on real strings); Go `int` parameters are `Nat` (the ansi parser only produces
negative values by overflowing 19+ digit parameters, not generated).
-/
import VaxisModel.Gen.Sequences
import VaxisModel.Gen.SgrCases
import VaxisModel.Model.Color
import VaxisModel.Spec.Sgr

namespace VaxisModel.Model.Sgr
open VaxisModel.Gen
open VaxisModel.Gen.Sequences (Piece Template)
open VaxisModel.Model.Color (Color params indexColor rgbColor asIndex)

/-- One SGR parameter with its colon sub-parameters. -/
abbrev Param := List Nat
/-- One `CSI … m` sequence: its parameter list. -/
abbrev Seq := List Param

/-! ## `fmt.Sprintf` of an SGR template -/

def ndigits (n : Nat) : Nat :=
  if n < 10 then 1 else if n < 100 then 2 else if n < 1000 then 3 else (Nat.toDigits 10 n).length

/-- Decimal value of the text of one sub-parameter after substituting the `%d` verbs. -/
def instSub : List Piece → Nat → List Nat → Option (Nat × List Nat)
  | [], acc, args => some (acc, args)
  | .d k :: ps, acc, args => instSub ps (acc * 10 + k) args
  | .hole :: ps, acc, a :: args => instSub ps (acc * 10 ^ ndigits a + a) args
  | .hole :: _, _, [] => none

def instParam : List (List Piece) → List Nat → Option (Param × List Nat)
  | [], args => some ([], args)
  | sub :: subs, args =>
    match instSub sub 0 args with
    | none => none
    | some (v, args') =>
      match instParam subs args' with
      | none => none
      | some (vs, args'') => some (v :: vs, args'')

def instSeq : Template → List Nat → Option (Seq × List Nat)
  | [], args => some ([], args)
  | p :: ps, args =>
    match instParam p args with
    | none => none
    | some (v, args') =>
      match instSeq ps args' with
      | none => none
      | some (vs, args'') => some (v :: vs, args'')

/-- A parameter value nobody handles: stands for the garbage `%!d(MISSING)` / `%!(EXTRA …)` that
    `fmt` prints when verbs and arguments do not match (unreachable: see `Lemmas.Sgr.fmt_*`). -/
def fmtError : Nat := 1000000

def fmt (t : Template) (args : List Nat) : Seq :=
  match instSeq t args with
  | some (s, []) => s
  | _ => [[fmtError]]

/-- quirks.go: `strings.ReplaceAll(x, ":", ";")` on a template: every sub-parameter becomes a parameter. -/
def legacyT (t : Template) : Template := t.flatMap (fun p => p.map (fun sub => [sub]))

/-! ## Style -/

/-- vaxis `Style` without the hyperlink fields (the codecs' parsers ignore them). -/
structure Style where
  fg : Color := 0
  bg : Color := 0
  ul : Color := 0
  ulStyle : Nat := 0
  attr : Nat := 0
  deriving DecidableEq, Repr, Inhabited

/-- `m & bit != 0` -/
def has (m bit : Nat) : Bool := m &&& bit != 0
/-- `m |= bit` -/
def setBits (m bit : Nat) : Nat := m ||| bit
/-- `m &^= bit` (and-not) -/
def clearBits (m bit : Nat) : Nat := m ^^^ (m &&& bit)

/-- What a terminal would display for a `Color` value: decided by `Color.Params()`, which is what
    every producer switches on. -/
def col (c : Color) : Spec.Col :=
  match params c with
  | [i] => .idx i
  | [r, g, b] => .rgb r g b
  | _ => .default

/-- Terminal-level meaning of a vaxis style. -/
def shown (s : Style) : Spec.TStyle :=
  { fg := col s.fg, bg := col s.bg, ul := col s.ul, ulStyle := s.ulStyle,
    bold := has s.attr SgrCases.AttrBold, dim := has s.attr SgrCases.AttrDim,
    italic := has s.attr SgrCases.AttrItalic, blink := has s.attr SgrCases.AttrBlink,
    reverse := has s.attr SgrCases.AttrReverse, hidden := has s.attr SgrCases.AttrInvisible,
    strike := has s.attr SgrCases.AttrStrikethrough }

/-- What the renderer makes a terminal with the given capabilities display for a style: without
    `rgb` direct colours fall back to the palette (`asIndex`), without `styledUnderlines` the
    underline colour is never sent and every underline style becomes a single underline. -/
def shownCaps (rgb su : Bool) (s : Style) : Spec.TStyle :=
  let f (c : Color) := if rgb then c else asIndex c
  { shown s with
    fg := col (f s.fg), bg := col (f s.bg),
    ul := if su then col (f s.ul) else .default,
    ulStyle := if su then s.ulStyle else (if s.ulStyle = SgrCases.UnderlineOff then 0 else 1) }

/-- All defined attribute bits. -/
def allAttrs : Nat :=
  SgrCases.AttrBold ||| SgrCases.AttrDim ||| SgrCases.AttrItalic ||| SgrCases.AttrBlink |||
  SgrCases.AttrReverse ||| SgrCases.AttrInvisible ||| SgrCases.AttrStrikethrough

/-- A colour built by the library's constructors: default, `IndexColor(i)`, `RGBColor(r,g,b)`. -/
def Color.wf (c : Color) : Prop :=
  c = 0 ∨ (∃ i, i < 256 ∧ c = indexColor i) ∨ (∃ r g b, r < 256 ∧ g < 256 ∧ b < 256 ∧ c = rgbColor r g b)

/-- The styles the property quantifies over: constructor-built colours, the 128 masks over the seven
    defined attribute bits, the six underline styles. -/
structure Style.wf (s : Style) : Prop where
  fg : Color.wf s.fg
  bg : Color.wf s.bg
  ul : Color.wf s.ul
  ulStyle : s.ulStyle ≤ 5
  attr : s.attr &&& allAttrs = s.attr

/-! ## Producers -/

def boldSetQ : Seq := fmt Sequences.boldSet_t []
def dimSetQ : Seq := fmt Sequences.dimSet_t []
def italicSetQ : Seq := fmt Sequences.italicSet_t []
def blinkSetQ : Seq := fmt Sequences.blinkSet_t []
def reverseSetQ : Seq := fmt Sequences.reverseSet_t []
def hiddenSetQ : Seq := fmt Sequences.hiddenSet_t []
def strikethroughSetQ : Seq := fmt Sequences.strikethroughSet_t []
def boldDimResetQ : Seq := fmt Sequences.boldDimReset_t []
def italicResetQ : Seq := fmt Sequences.italicReset_t []
def blinkResetQ : Seq := fmt Sequences.blinkReset_t []
def reverseResetQ : Seq := fmt Sequences.reverseReset_t []
def hiddenResetQ : Seq := fmt Sequences.hiddenReset_t []
def strikethroughResetQ : Seq := fmt Sequences.strikethroughReset_t []
def underlineSetQ : Seq := fmt Sequences.underlineSet_t []
def underlineResetQ : Seq := fmt Sequences.underlineReset_t []
def sgrResetQ : Seq := fmt Sequences.sgrReset_t []

def opt (c : Bool) (q : Seq) : List Seq := if c then [q] else []

/-- The body of `if cursor.Attribute != next.Attribute { … }` (identical in the three producers). -/
def attrBody (a b : Nat) : List Seq :=
  let d := a ^^^ b
  let on := d &&& b
  let off := d &&& a
  opt (has on SgrCases.AttrBold) boldSetQ ++
  (opt (has on SgrCases.AttrDim) dimSetQ ++
  (opt (has on SgrCases.AttrItalic) italicSetQ ++
  (opt (has on SgrCases.AttrBlink) blinkSetQ ++
  (opt (has on SgrCases.AttrReverse) reverseSetQ ++
  (opt (has on SgrCases.AttrInvisible) hiddenSetQ ++
  (opt (has on SgrCases.AttrStrikethrough) strikethroughSetQ ++
  ((if has off SgrCases.AttrBold then boldDimResetQ :: opt (has b SgrCases.AttrDim) dimSetQ else []) ++
  ((if has off SgrCases.AttrDim then boldDimResetQ :: opt (has b SgrCases.AttrBold) boldSetQ else []) ++
  (opt (has off SgrCases.AttrItalic) italicResetQ ++
  (opt (has off SgrCases.AttrBlink) blinkResetQ ++
  (opt (has off SgrCases.AttrReverse) reverseResetQ ++
  (opt (has off SgrCases.AttrInvisible) hiddenResetQ ++
  opt (has off SgrCases.AttrStrikethrough) strikethroughResetQ))))))))))))

def attrDelta (a b : Nat) : List Seq := if a != b then attrBody a b else []

/-- `switch len(ps)` on `Color.Params()` for foreground / background. -/
def colourSeq (resetT setT brightT idxT rgbT : Template) (c : Color) : List Seq :=
  match params c with
  | [] => [fmt resetT []]
  | [i] =>
    if i < 8 then [fmt setT [i]]
    else if i < 16 then [fmt brightT [i - 8]]
    else [fmt idxT [i]]
  | [r, g, b] => [fmt rgbT [r, g, b]]
  | _ => []

/-- Same for the underline colour (no basic / bright forms). -/
def ulColourSeq (c : Color) : List Seq :=
  match params c with
  | [] => [fmt Sequences.ulColorReset_t []]
  | [i] => [fmt Sequences.ulIndexSet_t [i]]
  | [r, g, b] => [fmt Sequences.ulRGBSet_t [r, g, b]]
  | _ => []

def q (legacy : Bool) (t : Template) : Template := if legacy then legacyT t else t

/-- cell.go `EncodeCells`: what is written between two neighbouring cells' graphemes. -/
def encodeDelta (legacy : Bool) (p n : Style) : List Seq :=
  (if p.fg != n.fg then
     colourSeq Sequences.fgReset_t Sequences.fgSet_t Sequences.fgBrightSet_t
       (q legacy Sequences.fgIndexSet_t) (q legacy Sequences.fgRGBSet_t) n.fg else []) ++
  ((if p.bg != n.bg then
     colourSeq Sequences.bgReset_t Sequences.bgSet_t Sequences.bgBrightSet_t
       (q legacy Sequences.bgIndexSet_t) (q legacy Sequences.bgRGBSet_t) n.bg else []) ++
  ((if p.ul != n.ul then ulColourSeq n.ul else []) ++
  (attrDelta p.attr n.attr ++
  (if p.ulStyle != n.ulStyle then [fmt Sequences.ulStyleSet_t [n.ulStyle]] else []))))

/-- The extended-colour format `StyledString.Encode` uses in one of its four slots: which constant it
    is, and whether it is one of the mutable variables (then the legacy quirk rewrites it), is extracted
    (`Gen.SgrCases.ssEncode…`). Currently: private constants of styled_string.go, not mutable. -/
def ssT (legacy mutable : Bool) (t : Template) : Template := q (legacy && mutable) t

/-- styled_string.go `StyledString.Encode`: same shape as `EncodeCells` with its own colour formats. -/
def ssDelta (legacy : Bool) (p n : Style) : List Seq :=
  (if p.fg != n.fg then
     colourSeq Sequences.fgReset_t Sequences.fgSet_t Sequences.fgBrightSet_t
       (ssT legacy SgrCases.ssEncodeFgIndexMutable SgrCases.ssEncodeFgIndex_t)
       (ssT legacy SgrCases.ssEncodeFgRGBMutable SgrCases.ssEncodeFgRGB_t) n.fg else []) ++
  ((if p.bg != n.bg then
     colourSeq Sequences.bgReset_t Sequences.bgSet_t Sequences.bgBrightSet_t
       (ssT legacy SgrCases.ssEncodeBgIndexMutable SgrCases.ssEncodeBgIndex_t)
       (ssT legacy SgrCases.ssEncodeBgRGBMutable SgrCases.ssEncodeBgRGB_t) n.bg else []) ++
  ((if p.ul != n.ul then ulColourSeq n.ul else []) ++
  (attrDelta p.attr n.attr ++
  (if p.ulStyle != n.ulStyle then [fmt Sequences.ulStyleSet_t [n.ulStyle]] else []))))

/-- vaxis.go `render`: the pen delta written before a changed cell. -/
def renderDelta (rgb su legacy : Bool) (p n : Style) : List Seq :=
  let f (c : Color) := if rgb then c else asIndex c
  (if p.fg != n.fg then
     colourSeq Sequences.fgReset_t Sequences.fgSet_t Sequences.fgBrightSet_t
       (q legacy Sequences.fgIndexSet_t) (q legacy Sequences.fgRGBSet_t) (f n.fg) else []) ++
  ((if p.bg != n.bg then
     colourSeq Sequences.bgReset_t Sequences.bgSet_t Sequences.bgBrightSet_t
       (q legacy Sequences.bgIndexSet_t) (q legacy Sequences.bgRGBSet_t) (f n.bg) else []) ++
  ((if su then (if p.ul != n.ul then ulColourSeq (f n.ul) else []) else []) ++
  (attrDelta p.attr n.attr ++
  (if p.ulStyle != n.ulStyle then
     (if su then [fmt Sequences.ulStyleSet_t [n.ulStyle]]
      else if n.ulStyle = SgrCases.UnderlineOff then [underlineResetQ] else [underlineSetQ])
   else []))))

/-! ### Whole strings as token lists -/

/-- An encoded string as the sequence of SGR sequences and (opaque, self-delimiting) graphemes. -/
inductive Tok (σ γ : Type) where
  | sgr (s : σ)
  | text (g : γ)
  deriving Repr, DecidableEq

structure Cell (γ : Type) where
  g : γ
  st : Style
  deriving Repr, DecidableEq

def encodeFrom {γ : Type} (delta : Style → Style → List Seq) (cursor : Style) : List (Cell γ) → List (Tok Seq γ)
  | [] => if cursor != {} then [.sgr sgrResetQ] else []
  | c :: cs => (delta cursor c.st).map .sgr ++ (.text c.g :: encodeFrom delta c.st cs)

def encodeCells {γ : Type} (legacy : Bool) (cs : List (Cell γ)) : List (Tok Seq γ) := encodeFrom (encodeDelta legacy) {} cs
def ssEncode {γ : Type} (legacy : Bool) (cs : List (Cell γ)) : List (Tok Seq γ) := encodeFrom (ssDelta legacy) {} cs

/-- One rendered frame on a fresh screen: the pen starts at default, `writer.Flush` always ends
    the frame with `sgrReset`. (Cursor movement and mode sequences are not part of this model.) -/
def renderFrom {γ : Type} (rgb su legacy : Bool) (cursor : Style) : List (Cell γ) → List (Tok Seq γ)
  | [] => [.sgr sgrResetQ]
  | c :: cs => (renderDelta rgb su legacy cursor c.st).map .sgr ++ (.text c.g :: renderFrom rgb su legacy c.st cs)

/-- `Render()` of a frame whose changed cells are `cs`: nothing at all is written (`writer.Flush`
    returns early on an empty buffer) when no cell changed. -/
def renderFrame {γ : Type} (rgb su legacy : Bool) (cs : List (Cell γ)) : List (Tok Seq γ) :=
  if cs.isEmpty then [] else renderFrom rgb su legacy {} cs

/-! ## Consumers -/

inductive Panic where
  | index
  deriving DecidableEq, Repr

def idx {α : Type} (l : List α) (i : Nat) : Except Panic α :=
  match l[i]? with
  | some x => .ok x
  | none => .error .index

/-- `params[i][j]` -/
def idx2 (l : List Param) (i j : Nat) : Except Panic Nat :=
  match idx l i with
  | .ok p => idx p j
  | .error e => .error e

def u8 (n : Nat) : Nat := n % 256

/-- The numbers in the body of `case 38 / 48 / 58` of the two `[][]int` consumers (round 4: extracted, `Gen.SgrCases.parseSGRExt` /
    `emuSgrExt`): the bounds checks of the legacy form on `len(params[i:])` (before the selector is read, and under selector 2),
    the `i += K` jumps (selector 5, selector 2), the selector each colon form (3, 5, 6 sub-parameters) insists on.
    The defaults are what the code has today. -/
structure ExtNums where
  legacyMin : Nat := 3
  rgbMin : Nat := 5
  idxSkip : Nat := 2
  rgbSkip : Nat := 4
  s3 : Nat := 5
  s5 : Nat := 2
  s6 : Nat := 2
  deriving DecidableEq, Repr

structure Cfg where
  labels : List Nat
  arities : List (Nat × List Nat × Bool)
  ulSubs : List Nat
  /-- per first parameter 38 / 48 / 58: `[legacyMin, rgbMin, idxSkip, rgbSkip, s3, s5, s6]` as extracted -/
  ext : List (Nat × List Nat)

/-- The numbers `case p` is written with (the defaults when nothing was extracted for `p`). -/
def Cfg.nums (cfg : Cfg) (p : Nat) : ExtNums :=
  match cfg.ext.find? (fun r => r.1 == p) with
  | some (_, [a, b, c, d, e, f, g]) => ⟨a, b, c, d, e, f, g⟩
  | _ => {}

def parseCfg : Cfg := ⟨SgrCases.parseSGRLabels, SgrCases.parseSGRArities, SgrCases.parseSGRUlSubs, SgrCases.parseSGRExt⟩
def emuCfg : Cfg := ⟨SgrCases.emuSgrLabels, SgrCases.emuSgrArities, SgrCases.emuSgrUlSubs, SgrCases.emuSgrExt⟩
def ssCfg : Cfg := ⟨SgrCases.ssParseLabels, SgrCases.ssParseArities, SgrCases.ssParseUlSubs, []⟩

/-- Does the `switch len(…)` under `case p` have a clause for length `n`? -/
def Cfg.accepts (cfg : Cfg) (p n : Nat) : Bool :=
  match cfg.arities.find? (fun a => a.1 == p) with
  | some (_, lens, orMore) => lens.contains n || (orMore && (match lens.getLast? with | some m => m ≤ n | none => false))
  | none => false

/-- The `UnderlineStyle` constant assigned under `case k` of the `4:k` sub-switch. -/
def ulConst (k : Nat) : Nat :=
  if k = 0 then SgrCases.UnderlineOff else if k = 1 then SgrCases.UnderlineSingle
  else if k = 2 then SgrCases.UnderlineDouble else if k = 3 then SgrCases.UnderlineCurly
  else if k = 4 then SgrCases.UnderlineDotted else SgrCases.UnderlineDashed

/-- What a handled first-parameter label does when it needs neither sub-parameters nor look-ahead. -/
def simple (p : Nat) (s : Style) : Style :=
  if p = 0 then { fg := 0, bg := 0, ul := 0, ulStyle := SgrCases.UnderlineOff, attr := 0 }
  else if p = 1 then { s with attr := setBits s.attr SgrCases.AttrBold }
  else if p = 2 then { s with attr := setBits s.attr SgrCases.AttrDim }
  else if p = 3 then { s with attr := setBits s.attr SgrCases.AttrItalic }
  else if p = 5 then { s with attr := setBits s.attr SgrCases.AttrBlink }
  else if p = 7 then { s with attr := setBits s.attr SgrCases.AttrReverse }
  else if p = 8 then { s with attr := setBits s.attr SgrCases.AttrInvisible }
  else if p = 9 then { s with attr := setBits s.attr SgrCases.AttrStrikethrough }
  else if p = 22 then { s with attr := clearBits (clearBits s.attr SgrCases.AttrBold) SgrCases.AttrDim }
  else if p = 23 then { s with attr := clearBits s.attr SgrCases.AttrItalic }
  else if p = 24 then { s with ulStyle := SgrCases.UnderlineOff }
  else if p = 25 then { s with attr := clearBits s.attr SgrCases.AttrBlink }
  else if p = 27 then { s with attr := clearBits s.attr SgrCases.AttrReverse }
  else if p = 28 then { s with attr := clearBits s.attr SgrCases.AttrInvisible }
  else if p = 29 then { s with attr := clearBits s.attr SgrCases.AttrStrikethrough }
  else if 30 ≤ p ∧ p ≤ 37 then { s with fg := indexColor (u8 (p - 30)) }
  else if p = 39 then { s with fg := 0 }
  else if 40 ≤ p ∧ p ≤ 47 then { s with bg := indexColor (u8 (p - 40)) }
  else if p = 49 then { s with bg := 0 }
  else if p = 59 then { s with ul := 0 }
  else if 90 ≤ p ∧ p ≤ 97 then { s with fg := indexColor (u8 (p - 90 + 8)) }
  else if 100 ≤ p ∧ p ≤ 107 then { s with bg := indexColor (u8 (p - 100 + 8)) }
  else s   -- 21 ("not supported") and anything else listed without a body

/-- How the `for i` loop continues after one `switch`: `i += k` more, or `return`. -/
inductive Next where
  | cont (skip : Nat)
  | stop
  deriving DecidableEq, Repr

/-- `case 38 / 48 / 58` of parseSGR and the emulator's sgr: `cur = params[i]`, `rest = params[i+1:]`; the bounds, jumps and
    selectors are the extracted numbers `cfg.nums p` (a changed bound changes the model: with `rgbMin = 4` it panics on `38;2;1;2`
    as the Go code would). -/
def extColour (cfg : Cfg) (p : Nat) (cur : Param) (rest : List Param) : Except Panic (Option Color × Next) :=
  let n := cur.length
  let N := cfg.nums p
  if !cfg.accepts p n then .ok (none, .cont 0)
  else if n = 1 then
    if rest.length + 1 < N.legacyMin then .ok (none, .stop)
    else
      match idx2 rest 0 0 with
      | .error e => .error e
      | .ok k =>
        if k = 2 then
          if rest.length + 1 < N.rgbMin then .ok (none, .stop)
          else
            match idx2 rest 1 0, idx2 rest 2 0, idx2 rest 3 0 with
            | .ok r, .ok g, .ok b => .ok (some (rgbColor (u8 r) (u8 g) (u8 b)), .cont N.rgbSkip)
            | _, _, _ => .error .index
        else if k = 5 then
          match idx2 rest 1 0 with
          | .ok v => .ok (some (indexColor (u8 v)), .cont N.idxSkip)
          | .error e => .error e
        else .ok (none, .stop)
  else if n = 3 then
    match idx cur 1, idx cur 2 with
    | .ok k, .ok v => if k ≠ N.s3 then .ok (none, .stop) else .ok (some (indexColor (u8 v)), .cont 0)
    | _, _ => .error .index
  else if n = 5 then
    match idx cur 1, idx cur 2, idx cur 3, idx cur 4 with
    | .ok k, .ok r, .ok g, .ok b =>
      if k ≠ N.s5 then .ok (none, .stop) else .ok (some (rgbColor (u8 r) (u8 g) (u8 b)), .cont 0)
    | _, _, _, _ => .error .index
  else if n = 6 then
    match idx cur 1, idx cur 3, idx cur 4, idx cur 5 with
    | .ok k, .ok r, .ok g, .ok b =>
      if k ≠ N.s6 then .ok (none, .stop) else .ok (some (rgbColor (u8 r) (u8 g) (u8 b)), .cont 0)
    | _, _, _, _ => .error .index
  else .ok (none, .cont 0)

/-- `case 4` -/
def ulCase (cfg : Cfg) (cur : Param) (s : Style) : Except Panic Style :=
  let n := cur.length
  if !cfg.accepts 4 n then .ok s
  else if n = 1 then .ok { s with ulStyle := SgrCases.UnderlineSingle }
  else
    match idx cur 1 with
    | .error e => .error e
    | .ok k => if cfg.ulSubs.contains k then .ok { s with ulStyle := ulConst k } else .ok s

/-- One iteration of the loop body of `parseSGR` / `sgr`. -/
def intOne (cfg : Cfg) (cur : Param) (rest : List Param) (s : Style) : Except Panic (Style × Next) :=
  match idx cur 0 with
  | .error e => .error e
  | .ok p =>
    if !cfg.labels.contains p then .ok (s, .cont 0)
    else if p = 38 then
      match extColour cfg 38 cur rest with
      | .error e => .error e
      | .ok (some c, nx) => .ok ({ s with fg := c }, nx)
      | .ok (none, nx) => .ok (s, nx)
    else if p = 48 then
      match extColour cfg 48 cur rest with
      | .error e => .error e
      | .ok (some c, nx) => .ok ({ s with bg := c }, nx)
      | .ok (none, nx) => .ok (s, nx)
    else if p = 58 then
      match extColour cfg 58 cur rest with
      | .error e => .error e
      | .ok (some c, nx) => .ok ({ s with ul := c }, nx)
      | .ok (none, nx) => .ok (s, nx)
    else if p = 4 then
      match ulCase cfg cur s with
      | .error e => .error e
      | .ok s' => .ok (s', .cont 0)
    else .ok (simple p s, .cont 0)

/-- `for i := 0; i < len(params); i += 1 { … }` with `i += k` jumps: `skip` more elements are passed over. -/
def intLoop (cfg : Cfg) : Nat → List Param → Style → Except Panic Style
  | _, [], s => .ok s
  | k + 1, _ :: rest, s => intLoop cfg k rest s
  | 0, cur :: rest, s =>
    match intOne cfg cur rest s with
    | .error e => .error e
    | .ok (s', .stop) => .ok s'
    | .ok (s', .cont k) => intLoop cfg k rest s'

def intSgr (cfg : Cfg) (s : Style) (ps : Seq) : Except Panic Style :=
  intLoop cfg 0 (if ps.isEmpty then [[0]] else ps) s

/-- cell.go `parseSGR(params, &style)`. -/
def parseSGR (s : Style) (ps : Seq) : Except Panic Style := intSgr parseCfg s ps
/-- widgets/term/sgr.go `(*Model).sgr(params)` on the pen `vt.cursor.Style`. -/
def emuSgr (s : Style) (ps : Seq) : Except Panic Style := intSgr emuCfg s ps

/-! ### `NewStyledString` -/

/-- What `NewStyledString` can see of the text of one sub-parameter: whether it is *exactly* the
    decimal numeral of some `n` (its `case "…"` labels are string comparisons), and what
    `strconv.Atoi` makes of it (0 on a syntax error, clamped on overflow). -/
structure SubTok where
  lab : Option Nat
  atoi : Int
  deriving DecidableEq, Repr

def tokN (n : Nat) : SubTok := ⟨some n, n⟩

/-- `uint8(int)` -/
def u8i (v : Int) : Nat := (v % 256).toNat

/-- `strconv.Atoi(params[k])` on a whole `;`-separated parameter (not split on `:`): a parameter with
    a colon in it is a syntax error, i.e. 0. -/
def rawAtoi (subs : List SubTok) : Int :=
  match subs with
  | [t] => t.atoi
  | _ => 0

/-- `params[k] == "n"` on the unsplit parameter text. -/
def rawIs (subs : List SubTok) (n : Nat) : Bool :=
  match subs with
  | [t] => t.lab == some n
  | _ => false

/-- `legacySGRColor(params[i+1:])` (since the `fix:` for F118): the parameters after a bare 38 / 48 / 58,
    `5;n` or `2;r;g;b`; the colour and the number of parameters used, `none` when malformed. -/
def ssLegacy (rest : List (List SubTok)) : Option (Color × Nat) :=
  match rest with
  | k :: a :: tl =>
    if rawIs k 5 then some (indexColor (u8i (rawAtoi a)), 2)
    else if rawIs k 2 then
      match tl with
      | b :: c :: _ => some (rgbColor (u8i (rawAtoi a)) (u8i (rawAtoi b)) (u8i (rawAtoi c)), 4)
      | _ => none
    else none
  | _ => none

/-- `case "38" / "48" / "58"`: `subs` = the current parameter split on `:`, `rest = params[i+1:]`.
    Returns the colour (if any) and how many further parameters were used (`i += n`). -/
def ssColour (cfg : Cfg) (p : Nat) (subs : List SubTok) (rest : List (List SubTok)) : Except Panic (Option Color × Nat) :=
  let n := subs.length
  if !cfg.accepts p n then .ok (none, 0)
  else if n = 1 then
    match ssLegacy rest with
    | some (c, k) => .ok (some c, k)
    | none => .ok (none, 0)
  else if n = 3 then
    match idx subs 2 with
    | .ok v => .ok (some (indexColor (u8i v.atoi)), 0)
    | .error e => .error e
  else if n = 5 then
    match idx subs 2, idx subs 3, idx subs 4 with
    | .ok r, .ok g, .ok b => .ok (some (rgbColor (u8i r.atoi) (u8i g.atoi) (u8i b.atoi)), 0)
    | _, _, _ => .error .index
  else .ok (none, 0)

/-- One iteration of `for i := 0; i < len(params); i += 1`: the new style and the extra `i += n`. -/
def ssOne (cfg : Cfg) (dflt : Style) (s : Style) (subs : List SubTok) (rest : List (List SubTok)) :
    Except Panic (Style × Nat) :=
  match idx subs 0 with
  | .error e => .error e
  | .ok h =>
    match h.lab with
    | none => .ok (s, 0)
    | some p =>
      if !cfg.labels.contains p then .ok (s, 0)
      else if p = 0 then .ok (dflt, 0)
      else if p = 38 then
        match ssColour cfg 38 subs rest with
        | .error e => .error e
        | .ok (some c, k) => .ok ({ s with fg := c }, k)
        | .ok (none, k) => .ok (s, k)
      else if p = 48 then
        match ssColour cfg 48 subs rest with
        | .error e => .error e
        | .ok (some c, k) => .ok ({ s with bg := c }, k)
        | .ok (none, k) => .ok (s, k)
      else if p = 58 then
        match ssColour cfg 58 subs rest with
        | .error e => .error e
        | .ok (some c, k) => .ok ({ s with ul := c }, k)
        | .ok (none, k) => .ok (s, k)
      else if p = 4 then
        if !cfg.accepts 4 subs.length then .ok (s, 0)
        else if subs.length > 1 then
          match idx subs 1 with
          | .error e => .error e
          | .ok k =>
            match k.lab with
            | some k => if cfg.ulSubs.contains k then .ok ({ s with ulStyle := ulConst k }, 0) else .ok (s, 0)
            | none => .ok (s, 0)
        else .ok ({ s with ulStyle := SgrCases.UnderlineSingle }, 0)
      else .ok (simple p s, 0)

/-- The parameter loop with its `i += n` jumps: `skip` more elements are passed over. -/
def ssLoopK (cfg : Cfg) (dflt : Style) : Nat → List (List SubTok) → Style → Except Panic Style
  | _, [], s => .ok s
  | k + 1, _ :: rest, s => ssLoopK cfg dflt k rest s
  | 0, subs :: rest, s =>
    match ssOne cfg dflt s subs rest with
    | .error e => .error e
    | .ok (s', k) => ssLoopK cfg dflt k rest s'

def ssLoop (cfg : Cfg) (dflt : Style) (ps : List (List SubTok)) (s : Style) : Except Panic Style :=
  ssLoopK cfg dflt 0 ps s

/-- The body of `case strings.HasPrefix(s, "\x1b[")` once the text up to `m` is cut and split:
    the empty text means `style = defaultStyle`. -/
def ssSeqTok (dflt : Style) (s : Style) (ps : List (List SubTok)) : Except Panic Style :=
  if ps.isEmpty then .ok dflt else ssLoop ssCfg dflt ps s

/-- `NewStyledString`'s SGR handling on a parameter list printed in canonical decimal. -/
def ssSeq (dflt : Style) (s : Style) (ps : Seq) : Except Panic Style :=
  ssSeqTok dflt s (ps.map (·.map tokN))

/-! ### Whole strings -/

/-- `ParseStyledString` on the token sequence the ansi parser yields (`σ` = what an SGR token carries). -/
def parseToks {σ γ : Type} (sgr : Style → σ → Except Panic Style) : Style → List (Tok σ γ) → Except Panic (List (Cell γ))
  | _, [] => .ok []
  | s, .text g :: r =>
    match parseToks sgr s r with
    | .ok cs => .ok (⟨g, s⟩ :: cs)
    | .error e => .error e
  | s, .sgr ps :: r =>
    match sgr s ps with
    | .ok s' => parseToks sgr s' r
    | .error e => .error e

def parseStyled {γ : Type} (ts : List (Tok Seq γ)) : Except Panic (List (Cell γ)) := parseToks parseSGR {} ts

/-- `NewStyledString`: an SGR sequence with nothing after it is not processed (`if s == "" { return ss }`). -/
def ssParseToks {σ γ : Type} (sgr : Style → σ → Except Panic Style) : Style → List (Tok σ γ) → Except Panic (List (Cell γ))
  | _, [] => .ok []
  | s, .text g :: r =>
    match ssParseToks sgr s r with
    | .ok cs => .ok (⟨g, s⟩ :: cs)
    | .error e => .error e
  | s, .sgr ps :: r =>
    if r.isEmpty then .ok []
    else
      match sgr s ps with
      | .ok s' => ssParseToks sgr s' r
      | .error e => .error e

def ssParse {γ : Type} (dflt : Style) (ts : List (Tok Seq γ)) : Except Panic (List (Cell γ)) :=
  ssParseToks (ssSeq dflt) dflt ts

/-- The pen after all SGR tokens (text ignored): the embedded terminal's cursor style. -/
def penAfter {σ γ : Type} (sgr : Style → σ → Except Panic Style) : Style → List (Tok σ γ) → Except Panic Style
  | s, [] => .ok s
  | s, .text _ :: r => penAfter sgr s r
  | s, .sgr ps :: r =>
    match sgr s ps with
    | .ok s' => penAfter sgr s' r
    | .error e => .error e

/-! ## The producers' range -/

/-- First parameters that a producer emits alone. -/
def soloCodes : List Nat :=
  [1, 2, 3, 4, 5, 7, 8, 9, 22, 23, 24, 25, 27, 28, 29, 39, 49, 59,
   30, 31, 32, 33, 34, 35, 36, 37, 40, 41, 42, 43, 44, 45, 46, 47,
   90, 91, 92, 93, 94, 95, 96, 97, 100, 101, 102, 103, 104, 105, 106, 107]

def isExt (p : Nat) : Bool := p == 38 || p == 48 || p == 58

/-- The SGR sequences the producers can write for well-formed styles, colon forms
    (`StyledString.Encode` always; `EncodeCells` / `render` without the legacy quirk). -/
def emittable (ps : Seq) : Bool :=
  match ps with
  | [] => true
  | [[p]] => soloCodes.contains p
  | [[4, n]] => n ≤ 5
  | [[p, 5, n]] => isExt p && n < 256
  | [[p, 2, r, g, b]] => isExt p && r < 256 && g < 256 && b < 256
  | _ => false

/-- Additionally the semicolon forms written under `VAXIS_FORCE_LEGACY_SGR` (foreground and background only). -/
def emittableLegacy (ps : Seq) : Bool :=
  emittable ps ||
  (match ps with
   | [[p], [5], [n]] => (p == 38 || p == 48) && n < 256
   | [[p], [2], [r], [g], [b]] => (p == 38 || p == 48) && r < 256 && g < 256 && b < 256
   | _ => false)

end VaxisModel.Model.Sgr
