/-
C18, round 4: the decidable class of SGR parameter lists on which `NewStyledString` takes, position by position, the same
step as the `[][]int` consumers (`parseSGR`, the embedded terminal's `sgr`) — for any pair of configurations.  Used by
`Lemmas/SgrAgree.lean` (`loop_agree`), `Props/C18Agree.lean` and the driver's `agr` oracle.  Core Lean only.
-/
import VaxisModel.Model.Sgr

namespace VaxisModel.Model.Sgr
open VaxisModel.Gen

/-- After a bare 38 / 48 / 58: a complete legacy form whose look-ahead parameters have no sub-parameters; the number of
    parameters both consumers pass over. -/
def legacyOK : Seq → Option Nat
  | [5] :: [_] :: _ => some 2
  | [2] :: [_] :: [_] :: [_] :: _ => some 4
  | _ => none

/-- `case 38 / 48 / 58` with the parameter `p :: subs`: do both consumers do the same, and how many parameters do they skip? -/
def extStepCore (ci cs : Cfg) (p : Nat) (subs : List Nat) (rest : Seq) : Option Nat :=
  let n := subs.length + 1
  let ai := ci.accepts p n
  let as := cs.accepts p n
  if n = 1 then
    if ai && as then
      match legacyOK rest with
      | some k => some k
      | none => if rest.isEmpty then some 0 else none
    else if !ai && !as then some 0 else none
  else if n = 3 then
    if ai && as then (if subs.head? = some 5 then some 0 else none)
    else if !ai && !as then some 0 else none
  else if n = 5 then
    if ai && as then (if subs.head? = some 2 then some 0 else none)
    else if !ai && !as then some 0 else none
  else if n = 6 then (if !ai then some 0 else none)
  else some 0

/-- … provided the `[][]int` consumer is written with the standard bounds / jumps / selectors (the ones `NewStyledString` has). -/
def extStep (ci cs : Cfg) (p : Nat) (subs : List Nat) (rest : Seq) : Option Nat :=
  if ci.nums p != {} then none else extStepCore ci cs p subs rest

/-- The underline style `case 4` assigns (none: style left alone). -/
def ulEff (cfg : Cfg) (subs : List Nat) : Option Nat :=
  if !cfg.accepts 4 (subs.length + 1) then none
  else match subs with
    | [] => some SgrCases.UnderlineSingle
    | k :: _ => if cfg.ulSubs.contains k then some (ulConst k) else none

/-- One position of the list: `some k` = both consumers make the same change and pass over `k` further parameters. -/
def agreeStep (ci cs : Cfg) (cur : Param) (rest : Seq) : Option Nat :=
  match cur with
  | [] => none
  | p :: subs =>
    if !ci.labels.contains p && !cs.labels.contains p then some 0
    else if p = 21 then some 0
    else if ci.labels.contains p != cs.labels.contains p then none
    else if isExt p then extStep ci cs p subs rest
    else if p = 4 then (if ulEff ci subs = ulEff cs subs then some 0 else none)
    else some 0

def agreeLoop (ci cs : Cfg) : Nat → Seq → Bool
  | _, [] => true
  | k + 1, _ :: rest => agreeLoop ci cs k rest
  | 0, cur :: rest =>
    match agreeStep ci cs cur rest with
    | some k => agreeLoop ci cs k rest
    | none => false

/-- The class for the two extracted configurations (the empty list — `ESC[m` — included). -/
def agreeClass (q : Seq) : Bool := q.isEmpty || agreeLoop parseCfg ssCfg 0 q

/-! ### the exact test (round 4): for a fixed list every consumer is a field-wise keep / constant, bit-wise keep / set / clear
transformer of the style (`Lemmas/SgrShape.lean`), so agreement from EVERY style is decided by two probes -/

def probe0 : Style := ⟨0, 0, 0, 0, 0⟩
def probe1 : Style := ⟨1, 1, 1, 7, 255⟩

/-- Both panic, or both return the same style. -/
def sameRes (a b : Except Panic Style) : Bool :=
  match a, b with
  | .ok x, .ok y => x == y
  | .error _, .error _ => true
  | _, _ => false

/-- `parseSGR` and `NewStyledString` (default = zero style) give the same result on `q` from both probes
    (⇔ from every style with an 8-bit attribute mask: `Props.C18Agree.consumers_agree_iff`). -/
def agreeExact (q : Seq) : Bool :=
  sameRes (parseSGR probe0 q) (ssSeq {} probe0 q) && sameRes (parseSGR probe1 q) (ssSeq {} probe1 q)

end VaxisModel.Model.Sgr
