/-
Byte level of the SGR codecs (property C18): the producers as the Go code writes them — format
*strings* (`Gen.Sequences.«name» : String`, regenerated every run) printed with `fmt.Fprintf`'s `%d` verb
or written raw with `WriteString` — and the consumers from a string: `ParseStyledString` = the ansi parser
(C02's model `Model.Parser.pstep`, the hand table proved equal to the regenerated one) + `parseSGR`, and
`NewStyledString` with its own `strings.HasPrefix / Cut / Split` + `strconv.Atoi` + exact-string labels.

A "string" is a `List Nat` of code units.  SGR sequences are ASCII, so bytes = runes there; text is a
list of runes for the ansi parser (which reads runes) and may be read as bytes for NewStyledString —
nothing below depends on which, because the only units inspected are ESC, `[`, `m`, `;`, `:`, digits,
signs, and those never occur inside a multi-byte UTF-8 sequence.
Grapheme clustering is a parameter: `cl s` = length (in units) of the first grapheme cluster of the
non-empty text `s` (uniseg); the harness checks the real library against it by running the real
functions on the real strings.

Deviations: only the `%d` verb with non-negative arguments is modelled (all the SGR formats use);
`%!d(MISSING)` / `%!(EXTRA …)` are marker bytes (unreachable: `Lemmas.SgrBytes.sprintf_*`);
parameters that overflowed Go's `int` into negative values are read by `parseSGR` as 0 here
(`Int.toNat`; needs ≥ 19 digits, never produced); the reader side (bufio, UTF-8 decoding, the
look-ahead of `Parser.print` inside the 4096-byte buffer) is `Model/ParserIO.lean` (C02/C08) and is
replaced here by the cluster oracle on the remaining runes.  Core Lean only.
-/
import VaxisModel.Model.Sgr
import VaxisModel.Model.Parser
import VaxisModel.Lemmas.ParserParams

namespace VaxisModel.Model.SgrBytes
open VaxisModel.Gen
open VaxisModel.Model.Sgr
open VaxisModel.Model.Color (Color params)
open VaxisModel.Model.Parser (PState pstep)
open VaxisModel.Model.ParserTable (Inp)
open VaxisModel.Lemmas.ParserParams (digitsOf encParams)

abbrev Str := List Nat

/-- A Go string constant as code units (the SGR constants are ASCII: `Props.C18Bytes.sgr_strings_ascii`). -/
def bytesOf (s : String) : Str := s.toList.map Char.toNat

/-! ## `fmt.Sprintf` with `%d` -/

def missingMark : Str := bytesOf "%!d(MISSING)"
def extraMark : Str := bytesOf "%!(EXTRA)"

/-- `fmt.Sprintf(f, args...)` / `fmt.Fprintf` / `tparm` for formats whose only verb is `%d`, `int` arguments ≥ 0. -/
def sprintf : Str → List Nat → Str
  | [], [] => []
  | [], _ :: _ => extraMark
  | 0x25 :: 0x64 :: f, a :: args => digitsOf a ++ sprintf f args
  | 0x25 :: 0x64 :: f, [] => missingMark ++ sprintf f []
  | c :: f, args => c :: sprintf f args

/-- quirks.go: `strings.ReplaceAll(x, ":", ";")`. -/
def replaceColon (s : Str) : Str := s.map (fun b => if b = 0x3A then 0x3B else b)

def qB (legacy : Bool) (s : Str) : Str := if legacy then replaceColon s else s

/-- `ESC [ params m` with the parameters printed canonically (C02's `encParams`): what an SGR sequence
    of the token-level model stands for. -/
def csiM (ps : Seq) : Str := 0x1B :: 0x5B :: (encParams ps ++ [0x6D])

def bytesOfSeqs (l : List Seq) : Str := (l.map csiM).flatten

def tokBytes : Tok Seq Str → Str
  | .sgr q => csiM q
  | .text g => g

def bytesOfToks (ts : List (Tok Seq Str)) : Str := (ts.map tokBytes).flatten

/-! ## Producers, as written -/

def optB (c : Bool) (s : Str) : Str := if c then s else []

/-- The body of `if cursor.Attribute != next.Attribute { … }`: `WriteString` of the constants. -/
def attrBodyB (a b : Nat) : Str :=
  let d := a ^^^ b
  let on := d &&& b
  let off := d &&& a
  optB (has on SgrCases.AttrBold) (bytesOf Sequences.boldSet) ++
  (optB (has on SgrCases.AttrDim) (bytesOf Sequences.dimSet) ++
  (optB (has on SgrCases.AttrItalic) (bytesOf Sequences.italicSet) ++
  (optB (has on SgrCases.AttrBlink) (bytesOf Sequences.blinkSet) ++
  (optB (has on SgrCases.AttrReverse) (bytesOf Sequences.reverseSet) ++
  (optB (has on SgrCases.AttrInvisible) (bytesOf Sequences.hiddenSet) ++
  (optB (has on SgrCases.AttrStrikethrough) (bytesOf Sequences.strikethroughSet) ++
  ((if has off SgrCases.AttrBold then bytesOf Sequences.boldDimReset ++ optB (has b SgrCases.AttrDim) (bytesOf Sequences.dimSet) else []) ++
  ((if has off SgrCases.AttrDim then bytesOf Sequences.boldDimReset ++ optB (has b SgrCases.AttrBold) (bytesOf Sequences.boldSet) else []) ++
  (optB (has off SgrCases.AttrItalic) (bytesOf Sequences.italicReset) ++
  (optB (has off SgrCases.AttrBlink) (bytesOf Sequences.blinkReset) ++
  (optB (has off SgrCases.AttrReverse) (bytesOf Sequences.reverseReset) ++
  (optB (has off SgrCases.AttrInvisible) (bytesOf Sequences.hiddenReset) ++
  optB (has off SgrCases.AttrStrikethrough) (bytesOf Sequences.strikethroughReset)))))))))))))

def attrDeltaB (a b : Nat) : Str := if a != b then attrBodyB a b else []

/-- `switch len(ps)` on `Color.Params()`: `WriteString(reset)` / `Fprintf(set, ps[0])` / … -/
def colourB (resetS setS brightS idxS rgbS : Str) (c : Color) : Str :=
  match params c with
  | [] => resetS
  | [i] =>
    if i < 8 then sprintf setS [i]
    else if i < 16 then sprintf brightS [i - 8]
    else sprintf idxS [i]
  | [r, g, b] => sprintf rgbS [r, g, b]
  | _ => []

def ulColourB (c : Color) : Str :=
  match params c with
  | [] => bytesOf Sequences.ulColorReset
  | [i] => sprintf (bytesOf Sequences.ulIndexSet) [i]
  | [r, g, b] => sprintf (bytesOf Sequences.ulRGBSet) [r, g, b]
  | _ => []

/-- cell.go `EncodeCells`, the bytes written between two neighbouring graphemes. -/
def encodeDeltaB (legacy : Bool) (p n : Style) : Str :=
  (if p.fg != n.fg then
     colourB (bytesOf Sequences.fgReset) (bytesOf Sequences.fgSet) (bytesOf Sequences.fgBrightSet)
       (qB legacy (bytesOf SgrCases.encodeCellsFgIndex_s)) (qB legacy (bytesOf SgrCases.encodeCellsFgRGB_s)) n.fg else []) ++
  ((if p.bg != n.bg then
     colourB (bytesOf Sequences.bgReset) (bytesOf Sequences.bgSet) (bytesOf Sequences.bgBrightSet)
       (qB legacy (bytesOf SgrCases.encodeCellsBgIndex_s)) (qB legacy (bytesOf SgrCases.encodeCellsBgRGB_s)) n.bg else []) ++
  ((if p.ul != n.ul then ulColourB n.ul else []) ++
  (attrDeltaB p.attr n.attr ++
  (if p.ulStyle != n.ulStyle then sprintf (bytesOf Sequences.ulStyleSet) [n.ulStyle] else []))))

/-- styled_string.go `StyledString.Encode`. -/
def ssDeltaB (legacy : Bool) (p n : Style) : Str :=
  (if p.fg != n.fg then
     colourB (bytesOf Sequences.fgReset) (bytesOf Sequences.fgSet) (bytesOf Sequences.fgBrightSet)
       (qB (legacy && SgrCases.ssEncodeFgIndexMutable) (bytesOf SgrCases.ssEncodeFgIndex_s))
       (qB (legacy && SgrCases.ssEncodeFgRGBMutable) (bytesOf SgrCases.ssEncodeFgRGB_s)) n.fg else []) ++
  ((if p.bg != n.bg then
     colourB (bytesOf Sequences.bgReset) (bytesOf Sequences.bgSet) (bytesOf Sequences.bgBrightSet)
       (qB (legacy && SgrCases.ssEncodeBgIndexMutable) (bytesOf SgrCases.ssEncodeBgIndex_s))
       (qB (legacy && SgrCases.ssEncodeBgRGBMutable) (bytesOf SgrCases.ssEncodeBgRGB_s)) n.bg else []) ++
  ((if p.ul != n.ul then ulColourB n.ul else []) ++
  (attrDeltaB p.attr n.attr ++
  (if p.ulStyle != n.ulStyle then sprintf (bytesOf Sequences.ulStyleSet) [n.ulStyle] else []))))

/-- vaxis.go `render`, the pen delta. -/
def renderDeltaB (rgb su legacy : Bool) (p n : Style) : Str :=
  let f (c : Color) := if rgb then c else VaxisModel.Model.Color.asIndex c
  (if p.fg != n.fg then
     colourB (bytesOf Sequences.fgReset) (bytesOf Sequences.fgSet) (bytesOf Sequences.fgBrightSet)
       (qB legacy (bytesOf SgrCases.renderFgIndex_s)) (qB legacy (bytesOf SgrCases.renderFgRGB_s)) (f n.fg) else []) ++
  ((if p.bg != n.bg then
     colourB (bytesOf Sequences.bgReset) (bytesOf Sequences.bgSet) (bytesOf Sequences.bgBrightSet)
       (qB legacy (bytesOf SgrCases.renderBgIndex_s)) (qB legacy (bytesOf SgrCases.renderBgRGB_s)) (f n.bg) else []) ++
  ((if su then (if p.ul != n.ul then ulColourB (f n.ul) else []) else []) ++
  (attrDeltaB p.attr n.attr ++
  (if p.ulStyle != n.ulStyle then
     (if su then sprintf (bytesOf Sequences.ulStyleSet) [n.ulStyle]
      else if n.ulStyle = SgrCases.UnderlineOff then bytesOf Sequences.underlineReset else bytesOf Sequences.underlineSet)
   else []))))

/-- The loop over the cells: delta, then the grapheme; `sgrReset` at the end unless the cursor style is zero. -/
def encodeFromB (delta : Style → Style → Str) (cursor : Style) : List (Cell Str) → Str
  | [] => if cursor != {} then bytesOf Sequences.sgrReset else []
  | c :: cs => delta cursor c.st ++ (c.g ++ encodeFromB delta c.st cs)

/-- `EncodeCells(cells)` as a string. -/
def encodeCellsB (legacy : Bool) (cs : List (Cell Str)) : Str := encodeFromB (encodeDeltaB legacy) {} cs
/-- `(&StyledString{cells}).Encode()` as a string. -/
def ssEncodeB (legacy : Bool) (cs : List (Cell Str)) : Str := encodeFromB (ssDeltaB legacy) {} cs

/-- The SGR part of one rendered frame as bytes (`Sgr.renderFrom` printed: pen deltas and graphemes of the changed cells in
    order, `sgrReset` at the end; cursor movement and mode sequences are not part of this model). -/
def renderFromB (rgb su legacy : Bool) (cursor : Style) : List (Cell Str) → Str
  | [] => bytesOf Sequences.sgrReset
  | c :: cs => renderDeltaB rgb su legacy cursor c.st ++ (c.g ++ renderFromB rgb su legacy c.st cs)

/-! ## `ParseStyledString`: the ansi parser, then `parseSGR` -/

/-- What arrives on the parser's channel: `Print` with its whole grapheme, or any other sequence. -/
inductive Item
  | text (g : Str)
  | seq (s : Parser.Seq)
  deriving DecidableEq, Repr

/-- The parser's `run` loop over the remaining runes: one transition of the C02 automaton per rune; a
    `Print` swallows the rest of its grapheme cluster (`Parser.print`), whose length is the oracle's. -/
def scan (cl : Str → Nat) : Nat → PState → Str → List Item
  | 0, _, _ => []
  | _ + 1, _, [] => []
  | fuel + 1, s, r :: w =>
    let o := pstep s (Inp.rune r)
    match o.out with
    | [.print _] =>
      let n := max 1 (cl (r :: w))
      .text ((r :: w).take n) :: scan cl fuel o.st ((r :: w).drop n)
    | out => out.map .seq ++ scan cl fuel o.st w

def tokenize (cl : Str → Nat) (s : Str) : List Item := scan cl s.length PState.init s

/-- The `for seq := range parser.Next()` loop of `ParseStyledString`. -/
def cellsOf : Style → List Item → Except Panic (List (Cell Str))
  | _, [] => .ok []
  | s, .text g :: r =>
    match cellsOf s r with
    | .ok cs => .ok (⟨g, s⟩ :: cs)
    | .error e => .error e
  | s, .seq (.csi _ ps f) :: r =>
    if f = 0x6D then
      match parseSGR s (ps.map (·.map Int.toNat)) with
      | .ok s' => cellsOf s' r
      | .error e => .error e
    else cellsOf s r
  | s, .seq _ :: r => cellsOf s r

/-- The style a consumer holds after all items (text ignored): with `sgr := emuSgr` the embedded terminal's pen after
    the string went through its parser (`widgets/term` dispatches `CSI … m` to `sgr` the same way). -/
def penOf (sgr : Style → Seq → Except Panic Style) : Style → List Item → Except Panic Style
  | s, [] => .ok s
  | s, .seq (.csi _ ps f) :: r =>
    if f = 0x6D then
      match sgr s (ps.map (·.map Int.toNat)) with
      | .ok s' => penOf sgr s' r
      | .error e => .error e
    else penOf sgr s r
  | s, _ :: r => penOf sgr s r

/-- `ParseStyledString(s)`. -/
def parseStyledB (cl : Str → Nat) (s : Str) : Except Panic (List (Cell Str)) := cellsOf {} (tokenize cl s)

/-! ## `NewStyledString` -/

/-- `strings.HasPrefix(s, "\x1b[")` -/
def hasCsiPrefix : Str → Bool
  | 0x1B :: 0x5B :: _ => true
  | _ => false

/-- `strings.Cut(s, "m")`: before and after the first `m`; no `m`: everything, and an empty rest. -/
def cutM : Str → Str × Str
  | [] => ([], [])
  | b :: r => if b = 0x6D then ([], r) else ((cutM r).1.cons b, (cutM r).2)

/-- `strings.Split(s, sep)` for a one-byte separator. -/
def splitB (sep : Nat) : Str → List Str
  | [] => [[]]
  | b :: r =>
    if b = sep then [] :: splitB sep r
    else
      match splitB sep r with
      | h :: t => (b :: h) :: t
      | [] => [[b]]

def isDigitB (b : Nat) : Bool := decide (0x30 ≤ b) && decide (b ≤ 0x39)

/-- An optional sign, then the rest (`strconv.Atoi`). -/
def signSplit : Str → Bool × Str
  | 0x2B :: r => (false, r)
  | 0x2D :: r => (true, r)
  | t => (false, t)

/-- `strconv.Atoi`, error dropped: 0 on a syntax error, clamped to the `int` range on overflow. -/
def atoiB (t : Str) : Int :=
  let sd := signSplit t
  if !sd.2.isEmpty && sd.2.all isDigitB then
    let v : Nat := Parser.decimal sd.2
    if sd.1 then (if v > 2 ^ 63 then -(2 ^ 63 : Int) else -(v : Int))
    else (if v > 2 ^ 63 - 1 then (2 ^ 63 - 1 : Int) else (v : Int))
  else 0

/-- Is the text the canonical decimal numeral of a number (digits, no leading zero)? -/
def canonB (t : Str) : Bool := !t.isEmpty && t.all isDigitB && (t.length == 1 || t.head? != some 0x30)

/-- What `NewStyledString` sees of one sub-parameter text: the number whose canonical decimal numeral it is
    (its `case "…"` labels are exact string comparisons), and `strconv.Atoi`. -/
def subTokOf (t : Str) : SubTok := ⟨if canonB t then some (Parser.decimal t) else none, atoiB t⟩

/-- `strings.Split(seq, ";")`, each split on `:`, each text as NewStyledString sees it. -/
def splitParams (seq : Str) : List (List SubTok) :=
  (splitB 0x3B seq).map (fun p => (splitB 0x3A p).map subTokOf)

/-- `strings.HasPrefix(s, "\x1b]8;")` -/
def hasOsc8Prefix : Str → Bool
  | 0x1B :: 0x5D :: 0x38 :: 0x3B :: _ => true
  | _ => false

/-- `strings.Cut(s, "\x1b\\")`: before and after the first ST; no ST: everything, and an empty rest. -/
def cutST : Str → Str × Str
  | [] => ([], [])
  | [b] => ([b], [])
  | b :: c :: r => if b = 0x1B ∧ c = 0x5C then ([], r) else ((cutST (c :: r)).1.cons b, (cutST (c :: r)).2)

/-- The `for len(s) > 0` loop of `NewStyledString` (cells in order; `.ok []` where the Go code returns what it
    has so far). -/
def nssLoop (cl : Str → Nat) (dflt : Style) : Nat → Style → Str → Except Panic (List (Cell Str))
  | 0, _, _ => .ok []
  | _ + 1, _, [] => .ok []
  | fuel + 1, st, c :: r =>
    if hasCsiPrefix (c :: r) then
      let cut := cutM ((c :: r).drop 2)
      if cut.2.isEmpty then .ok []
      else if cut.1.isEmpty then nssLoop cl dflt fuel dflt cut.2
      else
        match ssLoop ssCfg dflt (splitParams cut.1) st with
        | .error e => .error e
        | .ok st' => nssLoop cl dflt fuel st' cut.2
    else if hasOsc8Prefix (c :: r) then
      -- since the `fix:` for F119: an OSC 8 hyperlink is read (into the hyperlink fields, which this model leaves
      -- out) instead of being split into graphemes; no cell, colours and attributes untouched
      nssLoop cl dflt fuel st (cutST ((c :: r).drop 4)).2
    else
      let n := max 1 (cl (c :: r))
      match nssLoop cl dflt fuel st ((c :: r).drop n) with
      | .ok cs => .ok (⟨(c :: r).take n, st⟩ :: cs)
      | .error e => .error e

/-- `vx.NewStyledString(s, defaultStyle).Cells` (graphemes and styles). -/
def newStyledStringB (cl : Str → Nat) (dflt : Style) (s : Str) : Except Panic (List (Cell Str)) :=
  nssLoop cl dflt s.length dflt s

end VaxisModel.Model.SgrBytes
