/-
C18, hyperlinks: the codecs with cells that carry a hyperlink (`Style.Hyperlink`, `Style.HyperlinkParams`).
`EncodeCells` and `StyledString.Encode` write `tparm(osc8, linkPs, link)` (OSC 8) before a cell's grapheme when the URL
differs from the previous cell's (`cursor.Hyperlink != next.Hyperlink`; `linkPs = ""` when the URL is empty), and end
with an OSC 8 that closes a hyperlink still open (since the `fix:` for F121) and `sgrReset` unless the cursor style —
hyperlink fields included — is the zero value.  `ParseStyledString` ignores the
OSC item (`case ansi.OSC: // TODO`); `NewStyledString` (since the `fix:` for F119) reads it into the hyperlink fields.
The model's `Style` has no hyperlink fields; a cell here is a `Cell` plus its `Link`, and the consumers of
`Model/SgrBytes.lean` return the `Cell` part.  Core Lean only.
-/
import VaxisModel.Model.SgrBytes

namespace VaxisModel.Model.SgrLinks
open VaxisModel.Gen VaxisModel.Model.Sgr VaxisModel.Model.SgrBytes

structure Link where
  url : Str := []
  params : Str := []
  deriving DecidableEq, Repr

structure LCell where
  cell : Cell Str
  link : Link := {}

/-- What stands between `ESC ]` and `ESC \`: `8;<params>;<url>`, parameters dropped for the empty URL. -/
def osc8Payload (l : Link) : Str := 0x38 :: 0x3B :: ((if l.url = [] then [] else l.params) ++ 0x3B :: l.url)

/-- `fmt.Sprintf` for formats whose only verb is `%s`. -/
def sprintfS : Str → List Str → Str
  | [], _ => []
  | 0x25 :: 0x73 :: f, a :: args => a ++ sprintfS f args
  | 0x25 :: 0x73 :: f, [] => missingMark ++ sprintfS f []
  | c :: f, args => c :: sprintfS f args

/-- `tparm(osc8, linkPs, link)` with `if link == "" { linkPs = "" }`. -/
def osc8Bytes (l : Link) : Str :=
  sprintfS (bytesOf Sequences.osc8) [if l.url = [] then [] else l.params, l.url]

/-- Tokens of an encoded string when hyperlinks occur. -/
inductive LTok
  | tok (t : Tok Seq Str)
  | link (payload : Str)

def ltokBytes : LTok → Str
  | .tok t => tokBytes t
  | .link p => 0x1B :: 0x5D :: (p ++ [0x1B, 0x5C])

def bytesOfLToks (ts : List LTok) : Str := (ts.map ltokBytes).flatten

def dropLinks : List LTok → List (Tok Seq Str)
  | [] => []
  | .tok t :: r => t :: dropLinks r
  | .link _ :: r => dropLinks r

/-- Token level of `EncodeCells` / `Encode` on cells with hyperlinks. -/
def encodeFromL (delta : Style → Style → List Seq) (cursor : Style) (cur : Link) : List LCell → List LTok
  | [] =>
    (if cur.url != [] then [LTok.link (osc8Payload {})] else []) ++
    (if cursor != {} || cur != {} then [.tok (.sgr sgrResetQ)] else [])
  | c :: cs =>
    (delta cursor c.cell.st).map (fun q => LTok.tok (.sgr q)) ++
    ((if cur.url != c.link.url then [LTok.link (osc8Payload c.link)] else []) ++
     (LTok.tok (.text c.cell.g) :: encodeFromL delta c.cell.st c.link cs))

/-- Byte level. -/
def encodeFromBL (delta : Style → Style → Str) (cursor : Style) (cur : Link) : List LCell → Str
  | [] =>
    (if cur.url != [] then osc8Bytes {} else []) ++
    (if cursor != {} || cur != {} then bytesOf Sequences.sgrReset else [])
  | c :: cs =>
    delta cursor c.cell.st ++
    ((if cur.url != c.link.url then osc8Bytes c.link else []) ++
     (c.cell.g ++ encodeFromBL delta c.cell.st c.link cs))

def encodeCellsBL (legacy : Bool) (cs : List LCell) : Str := encodeFromBL (encodeDeltaB legacy) {} {} cs
def ssEncodeBL (legacy : Bool) (cs : List LCell) : Str := encodeFromBL (ssDeltaB legacy) {} {} cs

/-- Is a hyperlink open after these tokens (`ESC ] 8 ; ; ESC \` closes, any other OSC 8 opens)? -/
def linkOpen : Bool → List LTok → Bool
  | b, [] => b
  | b, .tok _ :: r => linkOpen b r
  | _, .link p :: r => linkOpen (decide (p ≠ osc8Payload {})) r

/-- `NewStyledString` on tokens with hyperlinks: a link contributes no cell and leaves the modelled style alone;
    an SGR sequence with nothing at all after it is not processed. -/
def ssParseLToks (sgr : Style → Seq → Except Panic Style) : Style → List LTok → Except Panic (List (Cell Str))
  | _, [] => .ok []
  | s, .link _ :: r => ssParseLToks sgr s r
  | s, .tok (.text g) :: r =>
    match ssParseLToks sgr s r with
    | .ok cs => .ok (⟨g, s⟩ :: cs)
    | .error e => .error e
  | s, .tok (.sgr ps) :: r =>
    if r.isEmpty then .ok []
    else
      match sgr s ps with
      | .ok s' => ssParseLToks sgr s' r
      | .error e => .error e

end VaxisModel.Model.SgrLinks
