/-
C18, hyperlinks: the codecs with cells that carry a hyperlink (`Style.Hyperlink`, `Style.HyperlinkParams`).
`EncodeCells` and `StyledString.Encode` write `tparm(osc8, linkPs, link)` (OSC 8) before a cell's grapheme when the URL
differs from the previous cell's (`cursor.Hyperlink != next.Hyperlink`; `linkPs = ""` when the URL is empty), and end
with an OSC 8 that closes a hyperlink still open (since the `fix:` for F121) and `sgrReset` unless the cursor style —
hyperlink fields included — is the zero value.  `ParseStyledString` ignores the
OSC item (`case ansi.OSC: // TODO`); `NewStyledString` (since the `fix:` for F119) reads it into the hyperlink fields.
The model's `Style` has no hyperlink fields; a cell here is a `Cell` plus its `Link`, and the consumers of
`Model/SgrBytes.lean` return the `Cell` part.  Core Lean only.
-/
import VaxisModel.Model.SgrBytes

namespace VaxisModel.Model.SgrLinks
open VaxisModel.Gen VaxisModel.Model.Sgr VaxisModel.Model.SgrBytes

structure Link where
  url : Str := []
  params : Str := []
  deriving DecidableEq, Repr

structure LCell where
  cell : Cell Str
  link : Link := {}
  deriving DecidableEq, Repr

/-- What stands between `ESC ]` and `ESC \`: `8;<params>;<url>`, parameters dropped for the empty URL. -/
def osc8Payload (l : Link) : Str := 0x38 :: 0x3B :: ((if l.url = [] then [] else l.params) ++ 0x3B :: l.url)

/-- `fmt.Sprintf` for formats whose only verb is `%s`. -/
def sprintfS : Str → List Str → Str
  | [], _ => []
  | 0x25 :: 0x73 :: f, a :: args => a ++ sprintfS f args
  | 0x25 :: 0x73 :: f, [] => missingMark ++ sprintfS f []
  | c :: f, args => c :: sprintfS f args

/-- `tparm(osc8, linkPs, link)` with `if link == "" { linkPs = "" }`. -/
def osc8Bytes (l : Link) : Str :=
  sprintfS (bytesOf Sequences.osc8) [if l.url = [] then [] else l.params, l.url]

/-- Tokens of an encoded string when hyperlinks occur. -/
inductive LTok
  | tok (t : Tok Seq Str)
  | link (payload : Str)
  deriving DecidableEq, Repr

def ltokBytes : LTok → Str
  | .tok t => tokBytes t
  | .link p => 0x1B :: 0x5D :: (p ++ [0x1B, 0x5C])

def bytesOfLToks (ts : List LTok) : Str := (ts.map ltokBytes).flatten

def dropLinks : List LTok → List (Tok Seq Str)
  | [] => []
  | .tok t :: r => t :: dropLinks r
  | .link _ :: r => dropLinks r

/-- Token level of `EncodeCells` / `Encode` on cells with hyperlinks. -/
def encodeFromL (delta : Style → Style → List Seq) (cursor : Style) (cur : Link) : List LCell → List LTok
  | [] =>
    (if cur.url != [] then [LTok.link (osc8Payload {})] else []) ++
    (if cursor != {} || cur != {} then [.tok (.sgr sgrResetQ)] else [])
  | c :: cs =>
    (delta cursor c.cell.st).map (fun q => LTok.tok (.sgr q)) ++
    ((if cur.url != c.link.url then [LTok.link (osc8Payload c.link)] else []) ++
     (LTok.tok (.text c.cell.g) :: encodeFromL delta c.cell.st c.link cs))

/-- Byte level. -/
def encodeFromBL (delta : Style → Style → Str) (cursor : Style) (cur : Link) : List LCell → Str
  | [] =>
    (if cur.url != [] then osc8Bytes {} else []) ++
    (if cursor != {} || cur != {} then bytesOf Sequences.sgrReset else [])
  | c :: cs =>
    delta cursor c.cell.st ++
    ((if cur.url != c.link.url then osc8Bytes c.link else []) ++
     (c.cell.g ++ encodeFromBL delta c.cell.st c.link cs))

def encodeCellsBL (legacy : Bool) (cs : List LCell) : Str := encodeFromBL (encodeDeltaB legacy) {} {} cs
def ssEncodeBL (legacy : Bool) (cs : List LCell) : Str := encodeFromBL (ssDeltaB legacy) {} {} cs

/-- Is a hyperlink open after these tokens (`ESC ] 8 ; ; ESC \` closes, any other OSC 8 opens)? -/
def linkOpen : Bool → List LTok → Bool
  | b, [] => b
  | b, .tok _ :: r => linkOpen b r
  | _, .link p :: r => linkOpen (decide (p ≠ osc8Payload {})) r

/-- `NewStyledString` on tokens with hyperlinks: a link contributes no cell and leaves the modelled style alone;
    an SGR sequence with nothing at all after it is not processed. -/
def ssParseLToks (sgr : Style → Seq → Except Panic Style) : Style → List LTok → Except Panic (List (Cell Str))
  | _, [] => .ok []
  | s, .link _ :: r => ssParseLToks sgr s r
  | s, .tok (.text g) :: r =>
    match ssParseLToks sgr s r with
    | .ok cs => .ok (⟨g, s⟩ :: cs)
    | .error e => .error e
  | s, .tok (.sgr ps) :: r =>
    if r.isEmpty then .ok []
    else
      match sgr s ps with
      | .ok s' => ssParseLToks sgr s' r
      | .error e => .error e

/-! ## `NewStyledString` with the hyperlink fields (since the `fix:` for F119)

`style` in the Go loop is a `Style` *with* `Hyperlink` / `HyperlinkParams`; here the pair (`Style`, `Link`).
Everything that assigns `style = defaultStyle` (`ESC [ m`, `case "0"`) also restores the default's hyperlink. -/

/-- `strings.Cut(s, sep)` for a one-byte separator: before and after the first `sep`; none: everything, and an empty rest. -/
def cutByte (sep : Nat) : Str → Str × Str
  | [] => ([], [])
  | b :: r => if b = sep then ([], r) else ((cutByte sep r).1.cons b, (cutByte sep r).2)

/-- `style.HyperlinkParams, style.Hyperlink, _ = strings.Cut(seq, ";")` -/
def linkOfSeq (seq : Str) : Link := ⟨(cutByte 0x3B seq).2, (cutByte 0x3B seq).1⟩

/-- Does the parameter loop run `case "0": style = defaultStyle` for this parameter (when it is not skipped by `i += n`)? -/
def isResetParam (cfg : Cfg) (subs : List SubTok) : Bool :=
  match subs with
  | h :: _ => h.lab == some 0 && cfg.labels.contains 0
  | [] => false

/-- `Sgr.ssLoopK` with the hyperlink carried along: the style part is `ssOne`'s, the link is left alone except by `case "0"`. -/
def ssLoopKL (cfg : Cfg) (dflt : Style) (dl : Link) :
    Nat → List (List SubTok) → Style → Link → Except Panic (Style × Link)
  | _, [], s, l => .ok (s, l)
  | k + 1, _ :: rest, s, l => ssLoopKL cfg dflt dl k rest s l
  | 0, subs :: rest, s, l =>
    match ssOne cfg dflt s subs rest with
    | .error e => .error e
    | .ok (s', k) => ssLoopKL cfg dflt dl k rest s' (if isResetParam cfg subs then dl else l)

/-- The `for len(s) > 0` loop of `NewStyledString`, hyperlink fields included (`SgrBytes.nssLoop` is its projection
    to the cells without links: `Lemmas.SgrLinksFull.nssLoopL_cells`). -/
def nssLoopL (cl : Str → Nat) (dflt : Style) (dl : Link) : Nat → Style → Link → Str → Except Panic (List LCell)
  | 0, _, _, _ => .ok []
  | _ + 1, _, _, [] => .ok []
  | fuel + 1, st, lk, c :: r =>
    if hasCsiPrefix (c :: r) then
      let cut := cutM ((c :: r).drop 2)
      if cut.2.isEmpty then .ok []
      else if cut.1.isEmpty then nssLoopL cl dflt dl fuel dflt dl cut.2
      else
        match ssLoopKL ssCfg dflt dl 0 (splitParams cut.1) st lk with
        | .error e => .error e
        | .ok (st', lk') => nssLoopL cl dflt dl fuel st' lk' cut.2
    else if hasOsc8Prefix (c :: r) then
      let cut := cutST ((c :: r).drop 4)
      nssLoopL cl dflt dl fuel st (linkOfSeq cut.1) cut.2
    else
      let n := max 1 (cl (c :: r))
      match nssLoopL cl dflt dl fuel st lk ((c :: r).drop n) with
      | .ok cs => .ok (⟨⟨(c :: r).take n, st⟩, lk⟩ :: cs)
      | .error e => .error e

/-- `vx.NewStyledString(s, defaultStyle).Cells`: graphemes, styles, hyperlinks and hyperlink parameters. -/
def newStyledStringBL (cl : Str → Nat) (dflt : Style) (dl : Link) (s : Str) : Except Panic (List LCell) :=
  nssLoopL cl dflt dl s.length dflt dl s

/-- The CSI case on a parameter list printed in canonical decimal, hyperlink carried along. -/
def ssSeqL (dflt : Style) (dl : Link) (s : Style) (l : Link) (ps : Seq) : Except Panic (Style × Link) :=
  if ps.isEmpty then .ok (dflt, dl) else ssLoopKL ssCfg dflt dl 0 (ps.map (·.map tokN)) s l

/-- `NewStyledString` on tokens, hyperlinks restored: an OSC 8 token sets the link from its payload `8;params;url`. -/
def ssParseLToksL (sgr : Style → Link → Seq → Except Panic (Style × Link)) :
    Style → Link → List LTok → Except Panic (List LCell)
  | _, _, [] => .ok []
  | s, _, .link p :: r => ssParseLToksL sgr s (linkOfSeq (p.drop 2)) r
  | s, l, .tok (.text g) :: r =>
    match ssParseLToksL sgr s l r with
    | .ok cs => .ok (⟨⟨g, s⟩, l⟩ :: cs)
    | .error e => .error e
  | s, l, .tok (.sgr ps) :: r =>
    if r.isEmpty then .ok []
    else
      match sgr s l ps with
      | .ok (s', l') => ssParseLToksL sgr s' l' r
      | .error e => .error e

/-- Can the hyperlinks of these cells come back through `Encode` / `NewStyledString` (cursor link `l`)?  Parameters without `;`,
    none for the empty URL, and the predecessor's parameters under the predecessor's URL (`Lemmas.SgrLinksFull.LinksRestorable`,
    `restorableB_iff`). The driver's `rtl` oracle judges the links only on such cell lists. -/
def restorableB : Link → List LCell → Bool
  | _, [] => true
  | l, c :: cs =>
    !c.link.params.contains 0x3B && (c.link.url != [] || c.link.params == []) &&
      (c.link.url != l.url || c.link.params == l.params) && restorableB c.link cs

end VaxisModel.Model.SgrLinks
