/-
C18: `ParseStyledString` with its reading side.  The ansi parser reads its input through a `bufio.Reader`
(`Model/ParserIO.lean`, C02/C08's model: `ReadRune` with the fill loop, `readRune`'s raw-byte fallback, `print`'s
grapheme look-ahead over what is *buffered*).  `ParseStyledString(s)` wraps `strings.NewReader(s)`:
* since the `fix:` for F122 in a `bufio.Reader` that holds the whole string — one read delivers all of it
  (`parseStyledIO`: `runChunks` with the single chunk `[s]`);
* before, in the parser's default 4096-byte reader — reads of at most the buffer size (`parseStyledIOChunked`),
  and a grapheme whose first rune ended at a read boundary was cut.
`cellsOfIO` is `SgrBytes.cellsOf` (the `for seq := range parser.Next()` loop) over ParserIO's items.  Core Lean only.
-/
import VaxisModel.Model.SgrBytes
import VaxisModel.Model.ParserIO
import VaxisModel.Model.ParserUtf8

namespace VaxisModel.Model.SgrReader
open VaxisModel.Model.Sgr VaxisModel.Model.SgrBytes
open VaxisModel.Model.Parser (handTable)

/-- The string as bytes: every rune (a Unicode scalar value) in UTF-8. -/
def utf8 (rs : Str) : List Nat := rs.flatMap ParserUtf8.encodeRune

/-- The `for seq := range parser.Next()` loop of `ParseStyledString` over the items `ParserIO` delivers. -/
def cellsOfIO : Style → List ParserIO.Item → Except Panic (List (Cell Str))
  | _, [] => .ok []
  | s, .print g :: r =>
    match cellsOfIO s r with
    | .ok cs => .ok (⟨g, s⟩ :: cs)
    | .error e => .error e
  | s, .seq (.csi _ ps f) :: r =>
    if f = 0x6D then
      match parseSGR s (ps.map (·.map Int.toNat)) with
      | .ok s' => cellsOfIO s' r
      | .error e => .error e
    else cellsOfIO s r
  | s, .seq _ :: r => cellsOfIO s r

/-- `ParseStyledString(s)`, reader side included (since the F122 repair: the whole string in one read). -/
def parseStyledIO (clusterAt : Nat → Nat) (bs : List Nat) : Except Panic (List (Cell Str)) :=
  cellsOfIO {} (ParserIO.runChunks handTable clusterAt [bs])

/-- Successive reads of at most `size` bytes (`strings.Reader.Read` into a buffer of that size). -/
def chunksOf (size : Nat) : Nat → List Nat → List (List Nat)
  | 0, _ => []
  | _, [] => []
  | fuel + 1, bs => bs.take (max 1 size) :: chunksOf size fuel (bs.drop (max 1 size))

/-- `ParseStyledString(s)` as it was before the F122 repair, for a reader buffer of `size` bytes (4096 in the code). -/
def parseStyledIOChunked (size : Nat) (clusterAt : Nat → Nat) (bs : List Nat) : Except Panic (List (Cell Str)) :=
  cellsOfIO {} (ParserIO.runChunks handTable clusterAt (chunksOf size bs.length bs))

/-- `bufio`'s `defaultBufSize`: the size of the reader `ansi.NewParser` wraps around its argument. -/
def defaultBufSize : Nat := 4096

/-- `ParseStyledString(s)` with the reader **as the source builds it** (`Gen.SgrCases.parseStyledReader`, regenerated from
    cell.go on every run): the whole string in one read, or reads of the default buffer size; `none` for a shape the
    extractor does not know. -/
def parseStyledSrc (clusterAt : Nat → Nat) (bs : List Nat) : Option (Except Panic (List (Cell Str))) :=
  if VaxisModel.Gen.SgrCases.parseStyledReader = "whole-string" then some (parseStyledIO clusterAt bs)
  else if VaxisModel.Gen.SgrCases.parseStyledReader = "default-buffer" then
    some (parseStyledIOChunked defaultBufSize clusterAt bs)
  else none

/-- An item of `SgrBytes.scan` as ParserIO delivers it. -/
def ioItem : Item → ParserIO.Item
  | .text g => .print g
  | .seq s => .seq s

end VaxisModel.Model.SgrReader
