/-
Model of /repo/widgets/list/list.go (`List`): the selection index, the scroll offset and the number
of items.  Item texts do not influence control flow, so the items are represented by their count;
`Draw` returns, for every row it prints, the item index and whether it is drawn selected.

Go `int` is `Int`.  The slice expression `m.items[m.offset:]` is a checked access: it yields
`Panic.sliceBounds` unless `0 ≤ offset ≤ len(items)`.

The right-hand sides of the `m.index = …` assignments are NOT written here: they are regenerated
from the source by the extractor (`Gen/ListFacts.lean`) and passed in as `Rhs`.
-/
namespace VaxisModel.Model.SimpleList

inductive Panic where
  | sliceBounds (lo : Int) (len : Nat)
deriving DecidableEq, Repr

/-- The index expressions of the navigation methods, as functions of
    `len(items)`, the current `m.index` and the window height. -/
structure Rhs where
  down     : (n index height : Int) → Int
  up       : (n index height : Int) → Int
  home     : (n index height : Int) → Int
  «end»    : (n index height : Int) → Int
  pageDown : (n index height : Int) → Int
  pageUp   : (n index height : Int) → Int
  setItems : (n index height : Int) → Int
  /-- `Draw` returns before touching anything when there are no items. -/
  drawEmptyGuard : Bool

structure St where
  index  : Int
  offset : Int
  n      : Nat
deriving DecidableEq, Repr

inductive Op where
  | down | up | home | «end»
  | pageDown (h : Nat) | pageUp (h : Nat)
  | setItems (k : Nat)
  | draw (h : Nat)
deriving DecidableEq, Repr

/-- `New(items)`. -/
def new (n : Nat) : St := { index := 0, offset := 0, n := n }

/-- One printed row: window row, item index, drawn selected. -/
structure Row where
  row  : Nat
  item : Int
  sel  : Bool
deriving DecidableEq, Repr

/-- The viewport-following prologue of `Draw`. -/
def follow (s : St) (h : Nat) : Int :=
  if s.index ≥ s.offset + (h : Int) then s.index - (h : Int) + 1
  else if s.index < s.offset then s.index
  else s.offset

/-- Rows printed by the loop `for i, subject := range m.items[m.offset:]`: `Println(i, …)` draws
    only when `i < height`. -/
def rows (offset index : Int) (n h : Nat) : List Row :=
  (List.range (min (n - offset.toNat) h)).map fun i =>
    { row := i, item := offset + (i : Int), sel := ((i : Int) == index - offset) }

/-- `Draw(win)` with window height `h`. -/
def draw (R : Rhs) (s : St) (h : Nat) : Except Panic (St × List Row) :=
  if R.drawEmptyGuard && s.n == 0 then .ok (s, [])
  else
    let off := follow s h
    let s' := { s with offset := off }
    if 0 ≤ off ∧ off ≤ (s.n : Int) then .ok (s', rows off s.index s.n h)
    else .error (.sliceBounds off s.n)

/-- Non-drawing operations. -/
def nav (R : Rhs) (s : St) : Op → St
  | .down       => { s with index := R.down s.n s.index 0 }
  | .up         => { s with index := R.up s.n s.index 0 }
  | .home       => { s with index := R.home s.n s.index 0 }
  | .«end»      => { s with index := R.«end» s.n s.index 0 }
  | .pageDown h => { s with index := R.pageDown s.n s.index h }
  | .pageUp h   => { s with index := R.pageUp s.n s.index h }
  | .setItems k => { s with n := k, index := R.setItems k s.index 0 }
  | .draw _     => s

def step (R : Rhs) (s : St) (op : Op) : Except Panic (St × List Row) :=
  match op with
  | .draw h => draw R s h
  | op => .ok (nav R s op, [])

/-- Run a whole history; the result is the final state or the first panic. -/
def run (R : Rhs) (s : St) : List Op → Except Panic St
  | [] => .ok s
  | op :: ops =>
    match step R s op with
    | .ok (s', _) => run R s' ops
    | .error e => .error e

/-- The code as it was before the F49 repair (kept for the witness). -/
def rhsUnfixed : Rhs where
  down n i _ := min (n - 1) (i + 1)
  up _ i _ := max 0 (i - 1)
  home _ _ _ := 0
  «end» n _ _ := n - 1
  pageDown n i h := min (n - 1) (i + h)
  pageUp _ i h := max 0 (i - h)
  setItems n i _ := min (n - 1) i
  drawEmptyGuard := false

end VaxisModel.Model.SimpleList
