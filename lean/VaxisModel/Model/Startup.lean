import VaxisModel.Model.InputLoop
import VaxisModel.Spec.Startup

/-!
# Model of the start-up of `vaxis.New()`: the capability-detection loop on top of the input LTS

Transcription of /repo/vaxis.go `New()` from `sendQueries()` to `applyQuirks()`, composed with the
input goroutine of `Model/InputLoop.lean` (which runs `handleSequence`, `Model/Input.lean`):

```
openTty                      -- input goroutine starts
sendQueries:
  COLORTERM → PostEvent(truecolor{})
  … queries …; CSI H; OSC 66 probe; Flush
  _, col := CursorPosition() -- phase `probe`: flag raised, waits for chCursorPos or 50 ms
  if col == 1 { caps.explicitWidth = true }
  … more queries …, DA1 query last; Flush
for { select { case <-ctx.Done(): break; case ev := <-vx.queue: switch ev.(type) {…} } }   -- phase `loop`
enterAltScreen; enableModes; setupSignals                                                   -- phase `done`
applyQuirks                                                                                 -- → phase `ready`
```

The two goroutines share `vx.caps` (written by `New`, read by `handleSequence`'s `t` and OSC arms),
the event queue and `chCursorPos`; every interleaving is a run of `next`.  Real time is abstracted:
the 50 ms and 3 s time-outs are labels.  Assumption: no terminal input is handled between `openTty`
and the first write of `sendQueries` (the initial state has an idle goroutine and an empty queue).

Which event type sets which field, the `DisableKittyKeyboard` guard, the `col == 1` guard, the arms
of `applyQuirks` and the statement order are read from the source (`Gen/Startup.lean`) and pinned by
`Props.C07Caps.facts_*`.
-/
namespace VaxisModel.Model.Startup
open VaxisModel.Model.Input VaxisModel.Model.InputLoop
open VaxisModel.Spec.Startup (Opts)

inductive Phase
  | probe | loop | done | ready
  deriving DecidableEq, Repr

structure St where
  sys : Sys := {}
  phase : Phase := .probe
  /-- `vx.termID`, `vx.appIDLast` -/
  termID : List Nat := []
  appIDLast : List Nat := []
  /-- what `CursorPosition()` received inside `sendQueries` (`none`: nothing yet / timed out) -/
  probeGot : Option (Int × Int) := none
  /-- the loop ended by `ctx.Done()` -/
  timedOut : Bool := false
  /-- ghost: the sequences handed to `handleSequence` so far, in order -/
  ins : List Seq := []

/-- State when `CursorPosition()` has raised its flag inside `sendQueries`. -/
def St.init (o : Opts) : St :=
  { sys := { vs := { reqCursorPos := true }, cursorWaiting := true,
             queue := if o.colorterm then [.internal .truecolor] else [] } }

inductive Label
  /-- input goroutine: the parser delivers a sequence / next effect / clipboard hand-off time-out -/
  | input (s : Seq) | step | clipTimeout
  /-- `CursorPosition()` inside `sendQueries` receives the answer / its 50 ms timer fires -/
  | probeRecv | probeTimeout
  /-- the `for`/`select` loop of `New` receives one event / its 3 s context expires -/
  | loopRecv | loopTimeout
  /-- `applyQuirks()` -/
  | quirks
  deriving DecidableEq, Repr

/-- One arm of the type switch in `New`'s loop; `none` = `break outer`. -/
def collectEv (o : Opts) (c : Caps) (tid aid : List Nat) : Event → Option (Caps × List Nat × List Nat)
  | .internal .primaryDeviceAttribute => none
  | .internal i => some (collect o.disableKitty c i, tid, aid)
  | .appID s => some ({ c with osc176 := true }, tid, s)
  | .terminalID s => some (c, s, aid)
  | _ => some (c, tid, aid)   -- no arm: keys, mouse, … typed during start-up are dropped

/-- `applyQuirks()` (quirks.go), the parts that touch `vx.caps`. -/
def applyQuirks (o : Opts) (tid : List Nat) (c : Caps) : Caps :=
  let c := if isPrefix (VaxisModel.Spec.Startup.ascii "kitty") tid then { c with noZWJ := true }
           else if tid == VaxisModel.Spec.Startup.ascii "tmux 3.4" then { c with unicodeCore := true } else c
  let c := if o.forceWcwidth then { c with unicodeCore := false, explicitWidth := false } else c
  let c := if o.forceUnicode then { c with unicodeCore := true } else c
  let c := if o.forceNoZWJ then { c with noZWJ := true, explicitWidth := false } else c
  if o.disableNoZWJ then { c with noZWJ := false } else c

def liftSys (st : St) (r : Option (Except Panic Sys)) : Option (Except Panic St) :=
  match r with
  | some (.ok sys') => some (.ok { st with sys := sys' })
  | some (.error e) => some (.error e)
  | none => none

def setCaps (sys : Sys) (c : Caps) : Sys := { sys with vs := { sys.vs with caps := c } }

def next (p : Params) (o : Opts) (st : St) : Label → Option (Except Panic St)
  | .input s =>
      match InputLoop.next p st.sys (.input s) with
      | some (.ok sys') => some (.ok { st with sys := sys', ins := st.ins ++ [s] })
      | some (.error e) => some (.error e)
      | none => none
  | .step => liftSys st (InputLoop.next p st.sys .step)
  | .clipTimeout => liftSys st (InputLoop.next p st.sys .clipTimeout)
  | .probeRecv =>
      if st.phase = .probe then
        match st.sys.cursorCh with
        | [] => none
        | v :: t =>
          -- `_, col := vx.CursorPosition()` = pos[1] - 1; `if col == 1 { vx.caps.explicitWidth = true }`
          let c := st.sys.vs.caps
          let c := if wrap64 (v.2 - 1) == 1 then { c with explicitWidth := true } else c
          some (.ok { st with sys := setCaps { st.sys with cursorCh := t, cursorWaiting := false } c,
                              probeGot := some v, phase := .loop })
      else none
  | .probeTimeout =>
      if st.phase = .probe then
        some (.ok { st with sys := { st.sys with vs := { st.sys.vs with reqCursorPos := false }, cursorWaiting := false },
                            phase := .loop })
      else none
  | .loopRecv =>
      if st.phase = .loop then
        match st.sys.queue with
        | [] => none
        | e :: q =>
          match collectEv o st.sys.vs.caps st.termID st.appIDLast e with
          | none => some (.ok { st with sys := { st.sys with queue := q }, phase := .done })
          | some (c, tid, aid) =>
            some (.ok { st with sys := setCaps { st.sys with queue := q } c, termID := tid, appIDLast := aid })
      else none
  | .loopTimeout =>
      if st.phase = .loop then some (.ok { st with phase := .done, timedOut := true }) else none
  | .quirks =>
      if st.phase = .done then
        some (.ok { st with sys := setCaps st.sys (applyQuirks o st.termID st.sys.vs.caps), phase := .ready })
      else none

def run (p : Params) (o : Opts) : St → List Label → Option St
  | st, [] => some st
  | st, l :: ls =>
    match next p o st l with
    | some (.ok st') => run p o st' ls
    | _ => none

def inputsOf : List Label → List Seq
  | [] => []
  | .input s :: r => s :: inputsOf r
  | _ :: r => inputsOf r

/-- The `Can*` accessors of vaxis.go. -/
structure Can where
  rgb : Bool
  kittyGraphics : Bool
  sixel : Bool
  reportColor : Bool
  reportFg : Bool
  reportBg : Bool
  displayGraphics : Bool
  setAppID : Bool
  unicodeCore : Bool
  explicitWidth : Bool
  deriving DecidableEq, Repr

def canOf (c : Caps) : Can :=
  { rgb := c.rgb, kittyGraphics := c.kittyGraphics, sixel := c.sixels, reportColor := c.osc4, reportFg := c.osc10,
    reportBg := c.osc11, displayGraphics := c.sixels || c.kittyGraphics, setAppID := c.osc176,
    unicodeCore := c.unicodeCore, explicitWidth := c.explicitWidth }

/-- A deterministic schedule used by the correspondence driver (the fake console answers at
once): all sequences before the probe's answer are handled with nobody reading the queue, the
answer is handed over, the loop then consumes while the goroutine handles the rest. `fuel`-bounded
helper: perform all pending effects (stops when blocked). -/
def settleSteps (p : Params) (o : Opts) : Nat → St → St
  | 0, st => st
  | n + 1, st =>
    match st.sys.pend with
    | [] => st
    | _ =>
      match next p o st .step with
      | some (.ok st') => settleSteps p o n st'
      | _ =>
        match next p o st .clipTimeout with
        | some (.ok st') => settleSteps p o n st'
        | _ => st

def drainLoop (p : Params) (o : Opts) : Nat → St → St
  | 0, st => st
  | n + 1, st =>
    match next p o st .loopRecv with
    | some (.ok st') => drainLoop p o n st'
    | _ => st

/-- Feed one sequence under the eager schedule. `none` = panic / not enabled. -/
def feed (p : Params) (o : Opts) (st : St) (s : Seq) : Option St :=
  match next p o st (.input s) with
  | some (.ok st1) =>
    let st2 := settleSteps p o 64 st1
    let st3 := if st2.phase = .probe then
        match next p o st2 .probeRecv with
        | some (.ok st') => st'
        | _ => st2
      else st2
    -- the loop keeps the queue empty; a goroutine blocked on a full queue resumes
    let st4 := drainLoop p o 4096 st3
    some (settleSteps p o 64 (drainLoop p o 4096 (settleSteps p o 64 st4)))
  | _ => none

end VaxisModel.Model.Startup
