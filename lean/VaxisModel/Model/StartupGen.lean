import VaxisModel.Model.Startup

/-!
# The type switch of `New`'s loop, *interpreted* from the regenerated table

`Gen.Caps.collect` (regenerated on every run) lists, for every arm of the type switch in the
`for`/`select` loop of `vaxis.New`, the capability fields it sets and its other statements.
`collectEvGen` executes that table: look the event's type up, end the loop on `break outer`,
skip the arm when it is guarded by `opts.DisableKittyKeyboard`, set the listed fields, store the
payload where the arm says so.  `Props.C07Caps.loop_interpreted` proves that the hand-written
`Model.Startup.collectEv` (over which `caps_exact` is proved) *is* this interpretation, for every
state and every event.
-/
namespace VaxisModel.Model.StartupGen
open VaxisModel.Model.Input VaxisModel.Model.Startup
open VaxisModel.Spec.Startup (Opts)

/-- `vx.caps.<field> = true`. Unknown names leave the record alone and are reported by `knownField`. -/
def setField (c : Caps) (f : String) : Caps :=
  if f == "synchronizedUpdate" then { c with synchronizedUpdate := true }
  else if f == "unicodeCore" then { c with unicodeCore := true }
  else if f == "noZWJ" then { c with noZWJ := true }
  else if f == "rgb" then { c with rgb := true }
  else if f == "kittyGraphics" then { c with kittyGraphics := true }
  else if f == "kittyKeyboard" then { c with kittyKeyboard := true }
  else if f == "styledUnderlines" then { c with styledUnderlines := true }
  else if f == "sixels" then { c with sixels := true }
  else if f == "colorThemeUpdates" then { c with colorThemeUpdates := true }
  else if f == "reportSizeChars" then { c with reportSizeChars := true }
  else if f == "reportSizePixels" then { c with reportSizePixels := true }
  else if f == "osc4" then { c with osc4 := true }
  else if f == "osc10" then { c with osc10 := true }
  else if f == "osc11" then { c with osc11 := true }
  else if f == "osc176" then { c with osc176 := true }
  else if f == "inBandResize" then { c with inBandResize := true }
  else if f == "explicitWidth" then { c with explicitWidth := true }
  else c

def knownField (f : String) : Bool := Caps.fieldNames.contains f

/-- Go type name of an event, and its payload if it has one. -/
def typeName : Event → Option String
  | .internal i => some i.name
  | .appID _ => some "appID"
  | .terminalID _ => some "terminalID"
  | _ => none

def payload : Event → List Nat
  | .appID s => s
  | .terminalID s => s
  | _ => []

/-- Statements of an arm the interpreter understands (anything else makes the table "not recognised"). -/
def knownStmt (s : String) : Bool :=
  ["break outer", "if opts.DisableKittyKeyboard", "continue", "vx.appIDLast = ev", "vx.termID = ev",
   "if vx.graphicsProtocol < sixelGraphics", "vx.graphicsProtocol = sixelGraphics", "if vx.graphicsProtocol < kitty",
   "vx.graphicsProtocol = kitty"].contains s

/-- Every field name and statement of the regenerated table is one the interpreter executes. -/
def recognised (t : List (String × List String × List String)) : Bool :=
  t.all fun x => x.2.1.all knownField && x.2.2.all knownStmt

def collectEvWith (t : List (String × List String × List String)) (o : Opts) (c : Caps) (tid aid : List Nat) (e : Event) :
    Option (Caps × List Nat × List Nat) :=
  match (typeName e).bind fun n => t.find? (·.1 == n) with
  | none => some (c, tid, aid)          -- no arm for this type
  | some (_, fields, stmts) =>
    if stmts.contains "break outer" then none
    else if stmts.contains "if opts.DisableKittyKeyboard" && o.disableKitty then some (c, tid, aid)
    else some (fields.foldl setField c,
               if stmts.contains "vx.termID = ev" then payload e else tid,
               if stmts.contains "vx.appIDLast = ev" then payload e else aid)

/-- The loop's type switch as the current source has it. -/
def collectEvGen := collectEvWith Gen.Caps.collect

end VaxisModel.Model.StartupGen
