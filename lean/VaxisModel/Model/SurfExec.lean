/-
An interpreter for the bodies of the vxfw Surface functions and of the built-in widgets' Draw
functions, run directly on their regenerated syntax (`Gen/SurfaceBodies.lean`, tree syntax of
`Model/SurfLang.lean`).  `Props/C14Body.lean` proves, for ALL inputs, that running each body gives
what the hand-written model (`Model/Surface.lean`, `Model/Layout.lean`) computes
(`*_body_eq_model`), so the theorems of `Props/C14.lean` are theorems about the executed source.

What the interpreter keeps of the Go values (`Val`):
  * `uint16` = `UInt16` (wrapping `+ - *`, `/` and `%` by zero = the run-time panic), `int` = `Int`
    (`/`, `%` truncate; by zero = panic); an integer literal next to a `uint16` operand is a `uint16`
    constant (Go's untyped constants); `int(x)`, `uint16(x)` convert as Go does;
  * `Surface`, `SubSurface`, `[]SubSurface` are the model's `Surface` / `Kids` (no Widget, no Cursor:
    `s.Cursor` reads `nil`, so the cursor branch of `render` is never taken — as in the model);
    `s.Buffer[i] = c` and `s.Buffer[i].Style = st` are CHECKED (`Panic.indexOutOfRange`);
  * a `vaxis.Character` is a cell whose style is not read; a string is known by the characters
    `ctx.Characters` gives for it (`strOf`);
  * the line scanners are parameters (`Ro.soft`, `Ro.hard`: the lines the real scanner yields for
    this content and `Ro.wrapW`); `for scanner.Scan() { … scanner.Text() … }` is a loop over them;
  * `sort.Slice(s.Children, less-by-ZIndex)` sorts the children IN PLACE (the model's stable
    insertion sort, see `Model/Surface.lean`);
  * the window: `win.SetCell(col,row,cell)` updates the screen through C11's `Win.setCell`,
    `win.New(col,row,w,h)` is C11's `Win.new`;
  * calls: `NewSurface`, `NewSubSurface`, `AddChild`, `WriteCell`, `Fill` are the model functions
    (each is shown equal to its own interpreted body); the recursive `child.Surface.render(…)`, the
    child's `Draw`, and calls of sibling methods are parameters (`Ro.render`, `Ro.childDraw`, `Ro.self`).
Anything outside the subset is `Err.stuck`, never a silent default.  All loops run over finite
lists: no fuel.  Core Lean only.
-/
import VaxisModel.Model.SurfLang
import VaxisModel.Model.Layout

namespace VaxisModel.Model.SurfExec
open VaxisModel.Model.SurfLang VaxisModel.Model.Window VaxisModel.Model.Surface VaxisModel.Model.Layout

inductive Val where
  | u16 (n : UInt16)
  | int (i : Int)
  | bool (b : Bool)
  | cell (c : Cell)
  | sty (st : Nat)
  | surf (s : Surface)
  | sub (col row z : Int) (s : Surface)
  | kids (k : Kids)
  | cells (l : List Cell)
  | strOf (l : List Cell)
  | strs (l : List (List Cell))
  | scanner (txt : Bool) (rest : List (List Cell)) (cur : List Cell)
  | size (w h : UInt16)
  | point (col row : Int)
  | ctx (c : Ctx)
  | win (w : Win)
  | wid (id : Nat)
  | nil
  | text
  | str (s : String)
  | lessZ
  /-- a string known by its grapheme clusters, each by the characters `ctx.Characters` gives for it (TextField's value) -/
  | clusters (l : List (List Cell))
  /-- `&vxfw.CursorState{…}` (the cursor is not modelled) -/
  | cursorV
  | tup4 (a b c d : Val)
  /-- `text.New(label)` with the style assigned to it afterwards (`l.Style = style`) -/
  | label (st : Option Nat)
  /-- `center.Center{Child: child}` -/
  | centerOf (child : Val)
  | papp (f : String) (args : List Val)
  | fld (k : String) (v : Val)
  | tup (a b : Val)
deriving Inhabited

inductive Err where
  | panic (p : Panic)
  | stuck (why : String)
deriving DecidableEq, Repr

abbrev Env := List (String × Val)

def Env.get : Env → String → Option Val
  | [], _ => none
  | (k, v) :: r, x => if k = x then some v else Env.get r x

/-- update in place; a new variable goes to the END (so that leaving a block is `take`) -/
def Env.set : Env → String → Val → Env
  | [], x, v => [(x, v)]
  | (k, w) :: r, x, v => if k = x then (k, v) :: r else (k, w) :: Env.set r x v

structure M where
  ρ : Env
  scr : Screen

inductive Ctl where
  | norm | brk | cont
  | ret (v : Val)

abbrev Res := Except Err (M × Ctl)

structure Ro where
  /-- fields of the receiver widget (`r.Softwrap`, `r.Style`, `r.Content`, `r.Child`) -/
  fields : String → Option Val
  /-- the lines `NewSoftwrapScanner(content, wrapW)` yields -/
  soft : List (List Cell)
  wrapW : UInt16
  /-- the lines `hardLines(content)` / `NewHardwrapScanner(cells)` yield -/
  hard : List (List Cell)
  /-- `r.Child.Draw(ctx)` -/
  childDraw : Ctx → Except Panic Surface
  /-- `center.Center{Child: text.New(label) with Style st}.Draw(ctx)` (Button) -/
  labelDraw : Nat → Ctx → Except Panic Surface
  /-- recursive `render` calls -/
  render : Surface → Win → Screen → Except Panic Screen
  /-- calls of the receiver's other methods -/
  self : String → List Val → Option (Except Err Val)

def getFld (k : String) : List Val → Option Val
  | [] => none
  | .fld k' v :: r => if k' = k then some v else getFld k r
  | _ :: r => getFld k r

def Kids.toVals : Kids → List Val
  | .nil => []
  | .cons c r z s rest => .sub c r z s :: Kids.toVals rest

def Kids.toL : Kids → List (Int × (Int × Int × Surface))
  | .nil => []
  | .cons c r z s rest => (z, (c, r, s)) :: Kids.toL rest

def Kids.ofL : List (Int × (Int × Int × Surface)) → Kids
  | [] => .nil
  | (z, (c, r, s)) :: rest => .cons c r z s (Kids.ofL rest)

/-- `sort.Slice(children, func(i, j) { return children[i].ZIndex < children[j].ZIndex })` -/
def Kids.sortZ (k : Kids) : Kids := Kids.ofL (sortByZ (Kids.toL k))

def u16OfLit (i : Int) : Option UInt16 := if 0 ≤ i ∧ i < 65536 then some (UInt16.ofInt i) else none

def arithU (op : String) (a b : UInt16) : Except Err Val :=
  if op = "+" then .ok (.u16 (a + b))
  else if op = "-" then .ok (.u16 (a - b))
  else if op = "*" then .ok (.u16 (a * b))
  else if op = "/" then (if b = 0 then .error (.panic .divideByZero) else .ok (.u16 (a / b)))
  else if op = "%" then (if b = 0 then .error (.panic .divideByZero) else .ok (.u16 (a % b)))
  else if op = ">" then .ok (.bool (decide (a > b)))
  else if op = ">=" then .ok (.bool (decide (a ≥ b)))
  else if op = "==" then .ok (.bool (decide (a = b)))
  else if op = "!=" then .ok (.bool (decide (a ≠ b)))
  else .error (.stuck ("uint16 operator " ++ op))

def arithI (op : String) (a b : Int) : Except Err Val :=
  if op = "+" then .ok (.int (a + b))
  else if op = "-" then .ok (.int (a - b))
  else if op = "*" then .ok (.int (a * b))
  else if op = "/" then (if b = 0 then .error (.panic .divideByZero) else .ok (.int (Int.tdiv a b)))
  else if op = "%" then (if b = 0 then .error (.panic .divideByZero) else .ok (.int (Int.tmod a b)))
  else if op = ">" then .ok (.bool (decide (a > b)))
  else if op = ">=" then .ok (.bool (decide (a ≥ b)))
  else if op = "==" then .ok (.bool (decide (a = b)))
  else if op = "!=" then .ok (.bool (decide (a ≠ b)))
  else .error (.stuck ("int operator " ++ op))

/-- A binary operator on evaluated operands (not `&&` / `||`: those are lazy, see `evalE`). `litA`,
`litB` = the operand is an integer literal (an untyped constant). -/
def binop (op : String) (a b : Val) (litA litB : Bool) : Except Err Val :=
  match a, b with
  | .u16 x, .u16 y => arithU op x y
  | .int x, .int y => arithI op x y
  | .u16 x, .int y =>
    if litB then (match u16OfLit y with | some y' => arithU op x y' | none => .error (.stuck "constant overflows uint16"))
    else .error (.stuck "uint16 with int")
  | .int x, .u16 y =>
    if litA then (match u16OfLit x with | some x' => arithU op x' y | none => .error (.stuck "constant overflows uint16"))
    else .error (.stuck "int with uint16")
  | .nil, .nil => if op = "==" then .ok (.bool true) else if op = "!=" then .ok (.bool false) else .error (.stuck "nil operator")
  | .wid x, .wid y => if op = "==" then .ok (.bool (decide (x = y))) else if op = "!=" then .ok (.bool (decide (x ≠ y))) else .error (.stuck "widget operator")
  | .wid _, .nil => if op = "==" then .ok (.bool false) else if op = "!=" then .ok (.bool true) else .error (.stuck "nil operator")
  | .surf _, .nil => .error (.stuck "surface compared with nil")
  | _, _ => .error (.stuck ("operands of " ++ op))

def isLit : Ex → Bool
  | .int _ => true
  | .con "math.MaxUint16" => true
  | _ => false

def evalSel (R : Ro) (v : Val) (f : String) : Except Err Val :=
  match v with
  | .surf s =>
    if f = "Size" then .ok (.size s.w s.h)
    else if f = "Buffer" then .ok (.cells s.buf)
    else if f = "Children" then .ok (.kids s.kids)
    else if f = "Cursor" then .ok .nil
    else if f = "Widget" then .ok (.wid 0)
    else .error (.stuck ("Surface." ++ f))
  | .size w h =>
    if f = "Width" then .ok (.u16 w) else if f = "Height" then .ok (.u16 h) else .error (.stuck ("Size." ++ f))
  | .ctx c =>
    if f = "Max" then .ok (.size c.maxW c.maxH)
    else if f = "Min" then .ok (.size c.minW c.minH)
    else if f = "Characters" then .ok .nil
    else .error (.stuck ("DrawContext." ++ f))
  | .sub c r z s =>
    if f = "Origin" then .ok (.point c r)
    else if f = "Surface" then .ok (.surf s)
    else if f = "ZIndex" then .ok (.int z)
    else .error (.stuck ("SubSurface." ++ f))
  | .point c r =>
    if f = "Col" then .ok (.int c) else if f = "Row" then .ok (.int r) else .error (.stuck ("RelativePoint." ++ f))
  | .cell c =>
    if f = "Width" then .ok (.int c.w)
    else if f = "Style" then .ok (.sty c.st)
    else if f = "Character" then .ok (.cell c)
    else .error (.stuck ("Cell." ++ f))
  | .wid _ => (match R.fields f with | some x => .ok x | none => .error (.stuck ("widget field " ++ f)))
  | _ => .error (.stuck ("selector " ++ f))

def fldU16 (k : String) (args : List Val) : Except Err UInt16 :=
  match getFld k args with
  | none => .ok 0
  | some (.u16 n) => .ok n
  | some (.int i) => (match u16OfLit i with | some n => .ok n | none => .error (.stuck "constant overflows uint16"))
  | _ => .error (.stuck ("field " ++ k))

def fldInt (k : String) (args : List Val) : Except Err Int :=
  match getFld k args with
  | none => .ok 0
  | some (.int i) => .ok i
  | _ => .error (.stuck ("field " ++ k))

/-- Pure calls, conversions and composite literals. -/
def applyFn (R : Ro) (f : String) (args : List Val) : Except Err Val :=
  if f = "int" then
    (match args with
     | [.u16 n] => .ok (.int (Int.ofNat n.toNat))
     | [.int i] => .ok (.int i)
     | _ => .error (.stuck "int()"))
  else if f = "uint16" then
    (match args with
     | [.int i] => .ok (.u16 (UInt16.ofInt i))
     | [.u16 n] => .ok (.u16 n)
     | _ => .error (.stuck "uint16()"))
  else if f = "lit:Size" ∨ f = "lit:vxfw.Size" then
    (match fldU16 "Width" args, fldU16 "Height" args with
     | .ok w, .ok h => .ok (.size w h)
     | .error e, _ => .error e
     | _, .error e => .error e)
  else if f = "lit:Surface" ∨ f = "lit:vxfw.Surface" then
    (match getFld "Size" args, getFld "Buffer" args, getFld "Children" args with
     | some (.size w h), some (.cells b), none => .ok (.surf (.mk w h b .nil))
     | none, none, none => .ok (.surf emptySurface)
     | _, _, _ => .error (.stuck "Surface literal"))
  else if f = "lit:RelativePoint" ∨ f = "lit:vxfw.RelativePoint" then
    (match fldInt "Col" args, fldInt "Row" args with
     | .ok c, .ok r => .ok (.point c r)
     | .error e, _ => .error e
     | _, .error e => .error e)
  else if f = "lit:SubSurface" ∨ f = "lit:vxfw.SubSurface" then
    (match getFld "Origin" args, getFld "Surface" args, fldInt "ZIndex" args with
     | some (.point c r), some (.surf s), .ok z => .ok (.sub c r z s)
     | _, _, _ => .error (.stuck "SubSurface literal"))
  else if f = "lit:vxfw.DrawContext" then
    (match getFld "Max" args, getFld "Min" args with
     | some (.size w h), none => .ok (.ctx { minW := 0, minH := 0, maxW := w, maxH := h })
     | _, _ => .error (.stuck "DrawContext literal"))
  else if f = "lit:vaxis.Character" then
    (match getFld "Grapheme" args, getFld "Width" args with
     | some (.str "…"), some (.int w) => .ok (.cell { g := gEllipsis, w := w, st := 0 })
     | _, _ => .error (.stuck "Character literal"))
  else if f = "lit:vaxis.Cell" then
    (match getFld "Character" args, getFld "Style" args with
     | some (.cell c), some (.sty st) => .ok (.cell { g := c.g, w := c.w, st := st })
     | _, _ => .error (.stuck "Cell literal"))
  else if f = "make:[]vaxis.Cell" then
    (match args with
     | [.int n] => if n < 0 then .error (.panic .indexOutOfRange) else .ok (.cells (List.replicate n.toNat default))
     | _ => .error (.stuck "make"))
  else if f = "NewSubSurface" ∨ f = "vxfw.NewSubSurface" then
    (match args with
     | [.int c, .int r, .surf s] => .ok (.sub c r 0 s)
     | _ => .error (.stuck "NewSubSurface"))
  else if f = "NewSurface" ∨ f = "vxfw.NewSurface" then
    (match args with
     | [.u16 w, .u16 h, _] => .ok (.surf (newSurface Surface.exact w h))
     | [.u16 w, .int h, _] => (match u16OfLit h with | some h' => .ok (.surf (newSurface Surface.exact w h')) | none => .error (.stuck "constant overflows uint16"))
     | _ => .error (.stuck "NewSurface"))
  else if f = "append" then
    (match args with
     | [.kids k, .sub c r z s] => .ok (.kids (k.snoc c r z s))
     | _ => .error (.stuck "append"))
  else if f = "meth:HasUnboundedHeight" then
    (match args with | [.size _ h] => .ok (.bool (h == unbounded)) | _ => .error (.stuck "HasUnboundedHeight"))
  else if f = "meth:HasUnboundedWidth" then
    (match args with | [.size w _] => .ok (.bool (w == unbounded)) | _ => .error (.stuck "HasUnboundedWidth"))
  else if f = "meth:Draw" then
    (match args with
     | [.wid _, .ctx c] => (match R.childDraw c with | .ok s => .ok (.tup (.surf s) .nil) | .error p => .error (.panic p))
     | [.centerOf (.label (some st)), .ctx c] =>
       (match R.labelDraw st c with | .ok s => .ok (.tup (.surf s) .nil) | .error p => .error (.panic p))
     | _ => .error (.stuck "Draw"))
  else if f = "text.New" then
    (match args with | [.text] => .ok (.label none) | _ => .error (.stuck "text.New"))
  else if f = "lit:center.Center" then
    (match getFld "Child" args with | some ch => .ok (.centerOf ch) | none => .error (.stuck "Center literal"))
  else if f = "meth:Characters" then
    (match args with | [.ctx _, .strOf l] => .ok (.cells l) | _ => .error (.stuck "Characters"))
  else if f = "meth:Text" ∨ f = "meth:Line" then
    (match args with
     | [.scanner txt _ cur] => .ok (if txt then .strOf cur else .cells cur)
     | _ => .error (.stuck "scanner.Text"))
  else if f = "NewSoftwrapScanner" then
    (match args with
     | [.text, .u16 w] => if w = R.wrapW then .ok (.scanner true R.soft []) else .error (.stuck "scanner width")
     | [.cells _, .u16 w] => if w = R.wrapW then .ok (.scanner false R.soft []) else .error (.stuck "scanner width")
     | _ => .error (.stuck "NewSoftwrapScanner"))
  else if f = "NewHardwrapScanner" then
    (match args with | [.cells _] => .ok (.scanner false R.hard []) | _ => .error (.stuck "NewHardwrapScanner"))
  else if f = "hardLines" then
    (match args with | [.text] => .ok (.strs R.hard) | _ => .error (.stuck "hardLines"))
  else if f = "meth:New" then
    (match args with
     | [.win w, .int c, .int r, .int cols, .int rows] => .ok (.win (w.new c r cols rows))
     | _ => .error (.stuck "Window.New"))
  else if f = "lit:vxfw.CursorState" then .ok .cursorV
  else if f = "len" then
    -- only compared with 0: the number of grapheme clusters (each is a non-empty string)
    (match args with | [.clusters l] => .ok (.int (Int.ofNat l.length)) | _ => .error (.stuck "len"))
  else if f = "uniseg.FirstGraphemeClusterInString" then
    (match args with
     | [.clusters (c :: r), _] => .ok (.tup4 (.strOf c) (.clusters r) (.int 0) (.int 0))
     | [.clusters [], _] => .ok (.tup4 (.strOf []) (.clusters []) (.int 0) (.int 0))
     | _ => .error (.stuck "FirstGraphemeClusterInString"))
  else if f = "less:ZIndex" then .ok .lessZ
  else match R.self f args with
    | some r => r
    | none => .error (.stuck ("call " ++ f))

def evalCon (n : String) : Except Err Val :=
  if n = "true" then .ok (.bool true)
  else if n = "false" then .ok (.bool false)
  else if n = "nil" then .ok .nil
  else if n = "math.MaxUint16" then .ok (.int 65535)
  else if n = "vaxis.CursorBlock" then .ok (.int 0)
  else .error (.stuck ("constant " ++ n))

/-- Expressions.  A curried call evaluates to a partial application `papp` that `app` closes. -/
def evalE (R : Ro) (ρ : Env) : Ex → Except Err Val
  | .var x => (match ρ.get x with | some v => .ok v | none => .error (.stuck ("unbound " ++ x)))
  | .con n => evalCon n
  | .int n => .ok (.int (Int.ofNat n))
  | .str s => .ok (.str s)
  | .sel a f => (match evalE R ρ a with | .ok v => evalSel R v f | .error e => .error e)
  | .un op a =>
    (match evalE R ρ a with
     | .ok (.bool b) => if op = "!" then .ok (.bool (!b)) else .error (.stuck ("unary " ++ op))
     | .ok (.int i) => if op = "-" then .ok (.int (-i)) else .error (.stuck ("unary " ++ op))
     | .ok .cursorV => if op = "&" then .ok .cursorV else .error (.stuck ("unary " ++ op))
     | .ok _ => .error (.stuck ("unary " ++ op))
     | .error e => .error e)
  | .bin op a b =>
    if op = "&&" then
      (match evalE R ρ a with
       | .ok (.bool false) => .ok (.bool false)
       | .ok (.bool true) => (match evalE R ρ b with | .ok (.bool y) => .ok (.bool y) | .ok _ => .error (.stuck "&&") | .error e => .error e)
       | .ok _ => .error (.stuck "&&")
       | .error e => .error e)
    else if op = "||" then
      (match evalE R ρ a with
       | .ok (.bool true) => .ok (.bool true)
       | .ok (.bool false) => (match evalE R ρ b with | .ok (.bool y) => .ok (.bool y) | .ok _ => .error (.stuck "||") | .error e => .error e)
       | .ok _ => .error (.stuck "||")
       | .error e => .error e)
    else
      (match evalE R ρ a, evalE R ρ b with
       | .ok x, .ok y => binop op x y (isLit a) (isLit b)
       | .error e, _ => .error e
       | _, .error e => .error e)
  | .idx a i =>
    (match evalE R ρ a, evalE R ρ i with
     | .ok (.cells l), .ok (.int n) =>
       if 0 ≤ n then (match l[n.toNat]? with | some c => .ok (.cell c) | none => .error (.panic .indexOutOfRange))
       else .error (.panic .indexOutOfRange)
     | .error e, _ => .error e
     | _, .error e => .error e
     | _, _ => .error (.stuck "index"))
  | .fn name => .ok (.papp name [])
  | .arg c a =>
    (match evalE R ρ c, evalE R ρ a with
     | .ok (.papp f args), .ok v => .ok (.papp f (args ++ [v]))
     | .error e, _ => .error e
     | _, .error e => .error e
     | _, _ => .error (.stuck "argument of a non-call"))
  | .fld k a => (match evalE R ρ a with | .ok v => .ok (.fld k v) | .error e => .error e)
  | .app c =>
    (match evalE R ρ c with
     | .ok (.papp f args) => applyFn R f args
     | .ok _ => .error (.stuck "call of a non-function")
     | .error e => .error e)
  | .unknown s => .error (.stuck ("unknown expression " ++ s))

def setField (v : Val) (f : String) (x : Val) : Except Err Val :=
  match v, x with
  | .surf (.mk w h b _), .kids k => if f = "Children" then .ok (.surf (.mk w h b k)) else .error (.stuck ("set Surface." ++ f))
  | .surf s, .wid _ => if f = "Widget" then .ok (.surf s) else .error (.stuck ("set Surface." ++ f))
  | .surf s, .cursorV => if f = "Cursor" then .ok (.surf s) else .error (.stuck ("set Surface." ++ f))
  | .size w h, .u16 n =>
    if f = "Width" then .ok (.size n h) else if f = "Height" then .ok (.size w n) else .error (.stuck ("set Size." ++ f))
  | .label _, .sty st => if f = "Style" then .ok (.label (some st)) else .error (.stuck ("set Text." ++ f))
  | _, _ => .error (.stuck ("set field " ++ f))

/-- `lhs = v` -/
def assignTo (R : Ro) (m : M) (lhs : Ex) (v : Val) : Except Err M :=
  match lhs with
  | .var x => .ok { m with ρ := m.ρ.set x v }
  | .sel (.sel (.var x) "Cursor") _ =>
    -- `s.Cursor.Col = col`: the cursor is not modelled
    (match m.ρ.get x, v with
     | some (.surf _), .u16 _ => .ok m
     | _, _ => .error (.stuck "cursor store"))
  | .sel (.var x) f =>
    (match m.ρ.get x with
     | some old => (match setField old f v with | .ok nv => .ok { m with ρ := m.ρ.set x nv } | .error e => .error e)
     | none => .error (.stuck ("unbound " ++ x)))
  | .idx (.sel (.var x) "Buffer") ie =>
    (match m.ρ.get x, evalE R m.ρ ie, v with
     | some (.surf s), .ok (.int i), .cell c =>
       if 0 ≤ i ∧ i.toNat < s.buf.length then .ok { m with ρ := m.ρ.set x (.surf (s.setBuf (s.buf.set i.toNat c))) }
       else .error (.panic .indexOutOfRange)
     | _, .error e, _ => .error e
     | _, _, _ => .error (.stuck "buffer store"))
  | .sel (.idx (.sel (.var x) "Buffer") ie) "Style" =>
    (match m.ρ.get x, evalE R m.ρ ie, v with
     | some (.surf s), .ok (.int i), .sty st =>
       if 0 ≤ i then
         (match s.buf[i.toNat]? with
          | some c => .ok { m with ρ := m.ρ.set x (.surf (s.setBuf (s.buf.set i.toNat { c with st := st }))) }
          | none => .error (.panic .indexOutOfRange))
       else .error (.panic .indexOutOfRange)
     | _, .error e, _ => .error e
     | _, _, _ => .error (.stuck "buffer style store"))
  | _ => .error (.stuck "assignment target")

def asU16 (v : Val) : Option UInt16 :=
  match v with
  | .u16 n => some n
  | .int i => u16OfLit i
  | _ => none

/-- A call in statement position: `recv` is the receiver expression of a method call. -/
def callStmt (R : Ro) (m : M) (f : String) (recv : Ex) (args : List Val) : Res :=
  if f = "meth:AddChild" then
    (match recv, args with
     | .var x, [.surf s, .int c, .int r, .surf ch] => .ok ({ m with ρ := m.ρ.set x (.surf (addChild s c r ch)) }, .norm)
     | _, _ => .error (.stuck "AddChild"))
  else if f = "meth:WriteCell" then
    (match recv, args with
     | .var x, [.surf s, col, row, .cell c] =>
       (match asU16 col, asU16 row with
        | some col, some row =>
          (match writeCell Surface.exact s col row c with
           | .ok s' => .ok ({ m with ρ := m.ρ.set x (.surf s') }, .norm)
           | .error p => .error (.panic p))
        | _, _ => .error (.stuck "WriteCell coordinates"))
     | _, _ => .error (.stuck "WriteCell"))
  else if f = "meth:Fill" then
    (match recv, args with
     | .var x, [.surf s, .sty st] => .ok ({ m with ρ := m.ρ.set x (.surf (fillStyle s st)) }, .norm)
     | _, _ => .error (.stuck "Fill"))
  else if f = "meth:SetCell" then
    (match args with
     | [.win w, .int col, .int row, .cell c] => .ok ({ m with scr := w.setCell m.scr col row c }, .norm)
     | _ => .error (.stuck "SetCell"))
  else if f = "sort.Slice" then
    (match recv, args with
     | .sel (.var x) "Children", [.kids _, .lessZ] =>
       (match m.ρ.get x with
        | some (.surf (.mk w h b k)) => .ok ({ m with ρ := m.ρ.set x (.surf (.mk w h b (Kids.sortZ k))) }, .norm)
        | _ => .error (.stuck "sort.Slice receiver"))
     | _, _ => .error (.stuck "sort.Slice"))
  else if f = "meth:render" then
    (match args with
     | [.surf s, .win w, _] =>
       (match R.render s w m.scr with
        | .ok scr' => .ok ({ m with scr := scr' }, .norm)
        | .error p => .error (.panic p))
     | _ => .error (.stuck "render"))
  else .error (.stuck ("call statement " ++ f))

/-- head and receiver of a curried call: `(f, first argument expression)` -/
def callHead : Ex → Option (String × Ex)
  | .arg (.fn f) a => some (f, a)
  | .arg c _ => callHead c
  | _ => none

def zeroOf (ty : String) : Except Err Val :=
  if ty = "uint16" then .ok (.u16 0)
  else if ty = "int" ∨ ty = "uint" then .ok (.int 0)
  else if ty = "vxfw.Size" ∨ ty = "Size" then .ok (.size 0 0)
  else if ty = "vaxis.Style" then .ok (.sty 0)
  else .error (.stuck ("zero value of " ++ ty))

/-- Run `f` over the items of a loop; `break` leaves it, `continue` goes on, `return` and errors propagate. -/
def loopL (f : M → Val → Nat → Res) : List Val → Nat → M → Res
  | [], _, m => .ok (m, .norm)
  | it :: rest, i, m =>
    match f m it i with
    | .ok (m', .norm) => loopL f rest (i + 1) m'
    | .ok (m', .cont) => loopL f rest (i + 1) m'
    | .ok (m', .brk) => .ok (m', .norm)
    | r => r

/-- Leaving a block: the variables declared inside go out of scope. -/
def leave (n : Nat) (r : Res) : Res :=
  match r with
  | .ok (m, c) => .ok ({ m with ρ := m.ρ.take n }, c)
  | .error e => .error e

def rangeItems (v : Val) : Option (List Val) :=
  match v with
  | .cells l => some (l.map Val.cell)
  | .kids k => some (Kids.toVals k)
  | .strs l => some (l.map Val.strOf)
  | _ => none

/-- every line with the lines after it -/
def scanPairs : List (List Cell) → List (List Cell × List (List Cell))
  | [] => []
  | l :: rest => (l, rest) :: scanPairs rest

/-- the successive states of a scanner: one per `Scan()` that returns true -/
def scanStates (txt : Bool) (ls : List (List Cell)) : List Val :=
  (scanPairs ls).map fun p => .scanner txt p.2 p.1

def bindLoopVar (ρ : Env) (x : String) (v : Val) : Env := if x = "_" then ρ else ρ.set x v

/-- how an iteration binds its item: `for k, v := range …` / `for x.Scan() { … }` (`x` = the scanner after this `Scan`) -/
inductive Bind where
  | range (k v : String)
  | scan (x : String)

def bindIt (b : Bind) (ρ : Env) (it : Val) (i : Nat) : Env :=
  match b with
  | .range k v => bindLoopVar (bindLoopVar ρ k (.int (Int.ofNat i))) v it
  | .scan x => ρ.set x it

mutual
def exec (R : Ro) : St → M → Res
  | .skip, m => .ok (m, .norm)
  | .seq a b, m =>
    (match exec R a m with
     | .ok (m', .norm) => exec R b m'
     | r => r)
  | .block a, m => leave m.ρ.length (exec R a m)
  | .assign lhs rhs, m =>
    (match evalE R m.ρ rhs with
     | .ok v => (match assignTo R m lhs v with | .ok m' => .ok (m', .norm) | .error e => .error e)
     | .error e => .error e)
  | .define x rhs, m =>
    (match evalE R m.ρ rhs with
     | .ok v => .ok ({ m with ρ := bindLoopVar m.ρ x v }, .norm)
     | .error e => .error e)
  | .define2 x y rhs, m =>
    (match evalE R m.ρ rhs with
     | .ok (.tup a b) => .ok ({ m with ρ := bindLoopVar (bindLoopVar m.ρ x a) y b }, .norm)
     | .ok _ => .error (.stuck "define2: not a pair")
     | .error e => .error e)
  | .assign4 a b c d rhs, m =>
    (match evalE R m.ρ rhs with
     | .ok (.tup4 va vb vc vd) =>
       .ok ({ m with ρ := bindLoopVar (bindLoopVar (bindLoopVar (bindLoopVar m.ρ a va) b vb) c vc) d vd }, .norm)
     | .ok _ => .error (.stuck "assign4: not four values")
     | .error e => .error e)
  | .opAssign op lhs rhs, m =>
    (match evalE R m.ρ lhs, evalE R m.ρ rhs with
     | .ok a, .ok b =>
       (match binop op a b false (isLit rhs) with
        | .ok v => (match assignTo R m lhs v with | .ok m' => .ok (m', .norm) | .error e => .error e)
        | .error e => .error e)
     | .error e, _ => .error e
     | _, .error e => .error e)
  | .varDecl x ty, m =>
    (match zeroOf ty with
     | .ok z => .ok ({ m with ρ := m.ρ.set x z }, .norm)
     | .error e => .error e)
  | .ite c t e, m =>
    (match evalE R m.ρ c with
     | .ok (.bool true) => leave m.ρ.length (exec R t m)
     | .ok (.bool false) => leave m.ρ.length (exec R e m)
     | .ok _ => .error (.stuck "condition is not a bool")
     | .error er => .error er)
  | .forCond c body, m =>
    -- only `for x.Scan(…) { … }`: a loop over the lines the scanner yields
    (match c with
     | .app cc =>
       (match callHead cc with
        | some ("meth:Scan", .var x) =>
          (match m.ρ.get x with
           | some (.scanner txt rest _) =>
             (match loopS R body m.ρ.length (.scan x) (scanStates txt rest) 0 m with
              | .ok (m', .norm) => .ok ({ m' with ρ := m'.ρ.set x (.scanner txt [] []) }, .norm)
              | r => r)
           | _ => .error (.stuck "Scan of a non-scanner"))
        | _ => .error (.stuck "for condition"))
     | .bin ">" (.app (.arg (.fn "len") (.var x))) (.int 0) =>
       -- `for len(x) > 0 { … }`: at most one iteration per grapheme cluster of `x` (more = the Go loop would not end)
       (match m.ρ.get x with
        | some (.clusters l) => loopW R body m.ρ.length c (l.length + 1) m
        | _ => .error (.stuck "for condition"))
     | _ => .error (.stuck "for condition"))
  | .range k v coll body, m =>
    (match evalE R m.ρ coll with
     | .ok cv =>
       (match rangeItems cv with
        | some items =>
          loopS R body m.ρ.length (.range k v) items 0 m
        | none => .error (.stuck "range"))
     | .error e => .error e)
  | .ret0, m => .ok (m, .ret .nil)
  | .ret e, m => (match evalE R m.ρ e with | .ok v => .ok (m, .ret v) | .error er => .error er)
  | .ret2 a b, m =>
    (match evalE R m.ρ a, evalE R m.ρ b with
     | .ok x, .ok y => .ok (m, .ret (.tup x y))
     | .error e, _ => .error e
     | _, .error e => .error e)
  | .exprS e, m =>
    (match e with
     | .app c =>
       (match callHead c, evalE R m.ρ c with
        | some (f, recv), .ok (.papp _ args) => callStmt R m f recv args
        | _, .error er => .error er
        | _, _ => .error (.stuck "expression statement"))
     | _ => .error (.stuck "expression statement"))
  | .brk, m => .ok (m, .brk)
  | .cont, m => .ok (m, .cont)
  | .panicS _, _ => .error (.panic .explicit)
  | .unknown s, _ => .error (.stuck ("unknown statement " ++ s))
termination_by st _ => (sizeOf st, 0)
decreasing_by all_goals simp_wf; all_goals (first | (apply Prod.Lex.left; simp_wf; omega) | (apply Prod.Lex.left; omega))

/-- Run `body` over the items of a loop (the variables of the body go out of scope after every iteration);
`break` leaves the loop, `continue` goes on, `return` and errors propagate. -/
def loopS (R : Ro) (body : St) (n : Nat) (b : Bind) : List Val → Nat → M → Res
  | [], _, m => .ok (m, .norm)
  | it :: rest, i, m =>
    match leave n (exec R body { m with ρ := bindIt b m.ρ it i }) with
    | .ok (m', .norm) => loopS R body n b rest (i + 1) m'
    | .ok (m', .cont) => loopS R body n b rest (i + 1) m'
    | .ok (m', .brk) => .ok (m', .norm)
    | r => r
termination_by items _ _ => (sizeOf body, items.length + 1)
decreasing_by all_goals simp_wf; all_goals (first | (apply Prod.Lex.right; omega) | (apply Prod.Lex.right; simp))

/-- `for cond { body }` with fuel: the condition is evaluated before every iteration. -/
def loopW (R : Ro) (body : St) (n : Nat) (c : Ex) : Nat → M → Res
  | 0, _ => .error (.stuck "loop does not end")
  | fuel + 1, m =>
    match evalE R m.ρ c with
    | .ok (.bool false) => .ok (m, .norm)
    | .ok (.bool true) =>
      (match leave n (exec R body m) with
       | .ok (m', .norm) => loopW R body n c fuel m'
       | .ok (m', .cont) => loopW R body n c fuel m'
       | .ok (m', .brk) => .ok (m', .norm)
       | r => r)
    | .ok _ => .error (.stuck "loop condition")
    | .error e => .error e
termination_by fuel _ => (sizeOf body, fuel + 1)
decreasing_by all_goals simp_wf; all_goals (first | (apply Prod.Lex.right; omega) | (apply Prod.Lex.right; simp))
end

/-- Bind the parameters. -/
def mkEnv : List String → List Val → Env
  | x :: xs, v :: vs => (x, v) :: mkEnv xs vs
  | _, _ => []

/-- Run a function body: its result value (`nil` when it falls off its end), the final value of the
receiver (first parameter: pointer receivers see the updates) and the screen. -/
def run (R : Ro) (body : St) (params : List String) (args : List Val) (scr : Screen) : Except Err (Val × Option Val × Screen) :=
  match exec R body { ρ := mkEnv params args, scr := scr } with
  | .ok (m, .ret v) => .ok (v, (params.head?.bind m.ρ.get), m.scr)
  | .ok (m, .norm) => .ok (.nil, (params.head?.bind m.ρ.get), m.scr)
  | .ok (_, .brk) => .error (.stuck "break outside a loop")
  | .ok (_, .cont) => .error (.stuck "continue outside a loop")
  | .error e => .error e

/-- No callee at all. -/
def noRo : Ro :=
  { fields := fun _ => none, soft := [], wrapW := 0, hard := [], childDraw := fun _ => .error .explicit,
    labelDraw := fun _ _ => .error .explicit,
    render := fun _ _ _ => .error .explicit, self := fun _ _ => none }

end VaxisModel.Model.SurfExec
