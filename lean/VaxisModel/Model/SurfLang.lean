/-
Tree syntax for the Go bodies the C14 extractor translates (`extract/cmd/C14/bodies.go` →
`Gen/SurfaceBodies.lean`): the vxfw Surface functions and the Draw functions of the built-in widgets.
`Model/SurfExec.lean` executes it.  Both types are plain inductives (calls are curried:
`f(a, b)` = `app (arg (arg (fn "f") a) b)`; a keyed composite literal `T{K: e}` =
`app (arg (fn "lit:T") (fld "K" e))`; a method call `x.M(a)` = `app (arg (arg (fn "meth:M") x) a)`).
Anything the translator does not recognise is `unknown src`.  Core Lean only.
-/
namespace VaxisModel.Model.SurfLang

inductive Ex where
  | var (n : String)                 -- a variable of the function (receiver r, v0, v1, …)
  | con (n : String)                 -- any other identifier / package-qualified name (`true`, `nil`, `math.MaxUint16`)
  | int (n : Nat)
  | str (s : String)
  | sel (a : Ex) (f : String)
  | un (op : String) (a : Ex)
  | bin (op : String) (a b : Ex)
  | idx (a i : Ex)
  | fn (name : String)
  | arg (c a : Ex)
  | fld (k : String) (a : Ex)
  | app (c : Ex)
  | unknown (src : String)
deriving Repr, Inhabited

inductive St where
  | skip
  | seq (a b : St)
  | block (a : St)
  | assign (lhs rhs : Ex)
  | define (x : String) (rhs : Ex)
  | define2 (x y : String) (rhs : Ex)
  | assign4 (a b c d : String) (rhs : Ex)        -- `a, b, c, d = f(…)` (`_` = discarded)
  | opAssign (op : String) (lhs rhs : Ex)
  | varDecl (x ty : String)
  | ite (c : Ex) (t e : St)
  | forCond (c : Ex) (body : St)
  | range (k v : String) (coll : Ex) (body : St)
  | ret0
  | ret (e : Ex)
  | ret2 (a b : Ex)
  | exprS (e : Ex)
  | brk
  | cont
  | panicS (msg : String)
  | unknown (src : String)
deriving Repr, Inhabited

def Ex.hasUnknown : Ex → Bool
  | .unknown _ => true
  | .sel a _ => a.hasUnknown
  | .un _ a => a.hasUnknown
  | .bin _ a b => a.hasUnknown || b.hasUnknown
  | .idx a i => a.hasUnknown || i.hasUnknown
  | .arg c a => c.hasUnknown || a.hasUnknown
  | .fld _ a => a.hasUnknown
  | .app c => c.hasUnknown
  | _ => false

def St.hasUnknown : St → Bool
  | .unknown _ => true
  | .seq a b => a.hasUnknown || b.hasUnknown
  | .block a => a.hasUnknown
  | .assign l r => l.hasUnknown || r.hasUnknown
  | .define _ r => r.hasUnknown
  | .define2 _ _ r => r.hasUnknown
  | .assign4 _ _ _ _ r => r.hasUnknown
  | .opAssign _ l r => l.hasUnknown || r.hasUnknown
  | .ite c t e => c.hasUnknown || t.hasUnknown || e.hasUnknown
  | .forCond c b => c.hasUnknown || b.hasUnknown
  | .range _ _ c b => c.hasUnknown || b.hasUnknown
  | .ret e => e.hasUnknown
  | .ret2 a b => a.hasUnknown || b.hasUnknown
  | .exprS e => e.hasUnknown
  | _ => false

end VaxisModel.Model.SurfLang
