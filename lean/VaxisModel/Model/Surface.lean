/-
Model of vxfw.Surface (vxfw/vxfw.go): NewSurface, AddChild, WriteCell, Fill, render.
Core Lean only.

Sizes and coordinates are Go `uint16` = Lean `UInt16` (wrap-around arithmetic); Go `int` is `Int`;
slice lengths and indices are `Nat` and every index expression is a checked access whose failure
is the value `Panic.indexOutOfRange`.

How three expressions are typed in the source is read from the source by the extractor on every
run (`Gen.SurfaceFacts`) and is a parameter `Arith` of the model, so the model follows the code:
  * `wideLen`   — NewSurface computes the buffer length in `int` (true) or in `uint16` (false);
  * `wideIdx`   — WriteCell computes the index in `int` (true) or in `uint16` (false);
  * `strictRow` — WriteCell's guard is `row >= Height` (true) or `row > Height` (false).
Findings F40–F42 are the three `false` values (Witness/F40–F42).

The Widget and Cursor fields of Surface are not modelled (they do not affect sizes, cells or
painting; the cursor is drawn through Window.ShowCursor, outside C14).
-/
import VaxisModel.Model.Window
import VaxisModel.Gen.SurfaceFacts

namespace VaxisModel.Model.Surface
open VaxisModel.Model.Window

inductive Panic where
  | indexOutOfRange
  | divideByZero
  | explicit        -- a `panic("… must have bounded constraints")` in the widget
deriving DecidableEq, Repr

structure Arith where
  wideLen : Bool
  wideIdx : Bool
  strictRow : Bool
deriving DecidableEq, Repr

/-- The arithmetic of the current source. -/
def srcArith : Arith :=
  { wideLen := Gen.SurfaceFacts.wideLen, wideIdx := Gen.SurfaceFacts.wideIdx, strictRow := Gen.SurfaceFacts.strictRow }

/-- All three computed as a reader expects. -/
def exact : Arith := { wideLen := true, wideIdx := true, strictRow := true }

mutual
/-- vxfw.Surface: Size, Buffer, Children. -/
inductive Surface where
  | mk (w h : UInt16) (buf : List Cell) (kids : Kids)
/-- []SubSurface: Origin (col,row), ZIndex, Surface. -/
inductive Kids where
  | nil
  | cons (col row z : Int) (s : Surface) (rest : Kids)
end

namespace Surface
def w : Surface → UInt16 | mk w _ _ _ => w
def h : Surface → UInt16 | mk _ h _ _ => h
def buf : Surface → List Cell | mk _ _ b _ => b
def kids : Surface → Kids | mk _ _ _ k => k
def setBuf : Surface → List Cell → Surface | mk w h _ k, b => mk w h b k
end Surface

/-- The zero Surface (`vxfw.Surface{}`). -/
def emptySurface : Surface := .mk 0 0 [] .nil

def Kids.snoc : Kids → Int → Int → Int → Surface → Kids
  | .nil, c, r, z, s => .cons c r z s .nil
  | .cons c0 r0 z0 s0 rest, c, r, z, s => .cons c0 r0 z0 s0 (rest.snoc c r z s)

def Kids.length : Kids → Nat
  | .nil => 0
  | .cons _ _ _ _ rest => rest.length + 1

/-- `make([]vaxis.Cell, height*width)`. -/
def bufLen (a : Arith) (w h : UInt16) : Nat :=
  if a.wideLen then h.toNat * w.toNat else (h * w).toNat

/-- `NewSurface(width, height, w)`. -/
def newSurface (a : Arith) (w h : UInt16) : Surface :=
  .mk w h (List.replicate (bufLen a w h) default) .nil

/-- `AddChild(col,row,child)`: appended, ZIndex 0. -/
def addChild (s : Surface) (col row : Int) (child : Surface) : Surface :=
  match s with
  | .mk w h b k => .mk w h b (k.snoc col row 0 child)

/-- The guard of WriteCell (true = return without writing). -/
def wcReject (a : Arith) (s : Surface) (col row : UInt16) : Bool :=
  col ≥ s.w || (if a.strictRow then row ≥ s.h else row > s.h)

/-- The index expression `(row * s.Size.Width) + col`. -/
def wcIndex (a : Arith) (s : Surface) (col row : UInt16) : Nat :=
  if a.wideIdx then row.toNat * s.w.toNat + col.toNat else (row * s.w + col).toNat

/-- `WriteCell(col,row,cell)`. -/
def writeCell (a : Arith) (s : Surface) (col row : UInt16) (c : Cell) : Except Panic Surface :=
  if wcReject a s col row then .ok s
  else
    let i := wcIndex a s col row
    if i < s.buf.length then .ok (s.setBuf (s.buf.set i c)) else .error .indexOutOfRange

/-- `Fill(style)`: every buffer cell gets the style. -/
def fillStyle (s : Surface) (st : Nat) : Surface :=
  s.setBuf (s.buf.map fun c => { c with st := st })

/-! ### render -/

/-- `for i, cell := range s.Buffer { row := i / int(W); col := i % int(W); win.SetCell(col,row,cell) }`
for `W ≠ 0`, from index `i` on. -/
def cellOpsFrom (w : UInt16) : Nat → List Cell → List Op
  | _, [] => []
  | i, c :: rest =>
      { col := Int.ofNat (i % w.toNat), row := Int.ofNat (i / w.toNat), cell := c } :: cellOpsFrom w (i + 1) rest

def cellOps (w : UInt16) (buf : List Cell) : List Op := cellOpsFrom w 0 buf

/-- Stable insertion by key: `sortByZ (x :: rest)` puts `x` before the already sorted later
elements of equal key.  (Go's `sort.Slice` is an insertion sort — stable — below 12 elements; for
more children with equal ZIndex the Go order is unspecified, see notes.) -/
def insertByZ {α : Type} (x : Int × α) : List (Int × α) → List (Int × α)
  | [] => [x]
  | y :: rest => if x.1 ≤ y.1 then x :: y :: rest else y :: insertByZ x rest

def sortByZ {α : Type} : List (Int × α) → List (Int × α)
  | [] => []
  | x :: rest => insertByZ x (sortByZ rest)

mutual
/-- Some surface of the tree has a non-empty buffer and width 0: `i / int(0)` panics. render visits
every surface unconditionally, so this is exactly when it panics. -/
def Surface.divZero : Surface → Bool
  | .mk w _ buf kids => (w == 0 && !buf.isEmpty) || kids.divZero
def Kids.divZero : Kids → Bool
  | .nil => false
  | .cons _ _ _ s rest => s.divZero || rest.divZero
end

mutual
/-- The `SetCell` calls of `render`, in order, each with the window it is made on: own buffer
first, then the children in ZIndex order (stable), each in `win.New(col,row,W,H)`.
Sorting the children and then painting them equals painting each and ordering the results by
ZIndex, which is how it is written here to keep the recursion structural. -/
def Surface.paint : Surface → Win → List (Win × Op)
  | .mk w _ buf kids, win =>
      (cellOps w buf).map (fun o => (win, o)) ++ ((sortByZ (kids.layers win)).flatMap (·.2))
/-- One entry per child: (ZIndex, its paint calls). -/
def Kids.layers : Kids → Win → List (Int × List (Win × Op))
  | .nil, _ => []
  | .cons col row z s rest, win =>
      (z, s.paint (win.new col row (Int.ofNat s.w.toNat) (Int.ofNat s.h.toNat))) :: rest.layers win
end

def applyPaint (scr : Screen) (calls : List (Win × Op)) : Screen :=
  calls.foldl (fun scr c => c.1.setCell scr c.2.col c.2.row c.2.cell) scr

/-- `s.render(win, focused)` without the cursor. -/
def render (s : Surface) (win : Win) (scr : Screen) : Except Panic Screen :=
  if s.divZero then .error .divideByZero else .ok (applyPaint scr (s.paint win))

/-! ### the entry point: App.Run -/

/-- The window `win.New(0, 0, int(s.Size.Width), int(s.Size.Height))` App.Run hands to `render` for
the root surface of a frame (`win` = the whole screen). -/
def rootWin (s : Surface) (win : Win) : Win := win.new 0 0 (Int.ofNat s.w.toNat) (Int.ofNat s.h.toNat)

/-- `s.render(win.New(0,0,W,H), focused)`: the root clips its children to its own rectangle like
every other surface (what `vxfw.VerifC14RenderRoot` evaluates). -/
def renderClipped (s : Surface) (win : Win) (scr : Screen) : Except Panic Screen := render s (rootWin s win) scr

/-- The render call of App.Run, `clips` = whether its window argument is `win.New(0,0,W,H)` (true)
or the bare screen window (false; the code before the fix of F114). -/
def renderRootWith (clips : Bool) (s : Surface) (win : Win) (scr : Screen) : Except Panic Screen :=
  if clips then renderClipped s win scr else render s win scr

/-- The render call of App.Run in the current source: which window it passes is read from the
source on every run (`Gen.SurfaceFacts.runRenderClipsRoot`). -/
def renderRoot (s : Surface) (win : Win) (scr : Screen) : Except Panic Screen :=
  renderRootWith Gen.SurfaceFacts.runRenderClipsRoot s win scr

/-- One frame of App.Run on the screen: `win := a.vx.Window(); win.Clear(); s.render(…)`. -/
def runFrame (s : Surface) (scr : Screen) : Except Panic Screen :=
  renderRoot s (Win.ofScreen scr) (clear (Win.ofScreen scr) scr)

end VaxisModel.Model.Surface
