/-
The bodies of `encodeXterm` (widgets/term/key.go), `handleMouse` (mouse.go) and `Model.Update`
(term.go) *as extracted on this run* (`Gen/TermBody.lean`), executed by the interpreter of
`Model/GoInterp.lean` over the regenerated tables of `Gen/TermKeys.lean`.

The C13 driver runs these against the implementation next to the hand-written model of
`Model/TermKey.lean` / `Model/TermMouse.lean`; `Props/C13Body.lean` ties the two.  `none` = the
interpreter met something it has no meaning for.  Core Lean only.
-/
import VaxisModel.Model.GoInterp
import VaxisModel.Model.KeyBody
import VaxisModel.Model.TermMouse
import VaxisModel.Gen.TermBody
import VaxisModel.Gen.TermKeys
import VaxisModel.Gen.Mouse

namespace VaxisModel.Model.TermBody
open VaxisModel.Model.GoBody VaxisModel.Model.GoInterp VaxisModel.Model.Key VaxisModel.Model.Mouse
open VaxisModel.Model.TermKey VaxisModel.Model.TermMouse VaxisModel.Gen.Keys VaxisModel.Gen.TermKeys

/-- Constants of the root package as widgets/term refers to them (`vaxis.X`). -/
def termConstEnv : Env :=
  (VaxisModel.Gen.Mouse.buttons.map fun nv => ("vaxis." ++ nv.1, V.int (nv.2 : Nat))) ++
  (VaxisModel.Model.KeyBody.keyConstEnv.map fun nv =>
    (if nv.1 = "unicode.MaxRune" then nv.1 else "vaxis." ++ nv.1, nv.2))

def strTable (t : List (Int × List Nat)) : MapTable :=
  .strs (t.map fun e => ([e.1], bytesStr e.2))

def termMaps : List (String × MapTable) :=
  [("keymap", strTable keymap),
   ("cursorKeysApplicationMode", strTable cursorKeysApplicationMode),
   ("cursorKeysNormalMode", strTable cursorKeysNormalMode),
   ("applicationKeymap", strTable applicationKeymap),
   ("numericKeymap", strTable numericKeymap),
   ("keypadApplicationMode", strTable keypadApplicationMode),
   ("keypadNumericMode", .ints (keypadNumericMode.map fun e => ([e.1], e.2))),
   ("xtermKeymap", .structs [("number", xtermKeymap.map fun e => ([e.1], e.2.1)),
                             ("final", xtermKeymap.map fun e => ([e.1], e.2.2))])]

def ctx (u : Uni) (funcs : String → List V → Option (V × Str)) : Ctx where
  u := u
  consts := termConstEnv
  maps := termMaps
  slices := []
  structs := []
  funcs := funcs
  noops := ["vt.mu.Lock", "vt.mu.Unlock", "vt.invalidate"]
  fmtD := decimal

/-- `encodeXterm(key, deckpam, decckm)` by running the extracted body. -/
def encodeXtermGen (u : Uni) (key : Key) (deckpam decckm : Bool) : Option Str :=
  (execSs (ctx u VaxisModel.Model.KeyBody.noFuncs) VaxisModel.Gen.TermBody.encodeXtermBody
      { env := bind "key" (.struct (VaxisModel.Model.KeyBody.keyFields key)) [("deckpam", .bool deckpam), ("decckm", .bool decckm)] }).retStr

def modeEnv (md : Modes) : Env :=
  [("vt.mode.deckpam", .bool md.deckpam), ("vt.mode.decckm", .bool md.decckm), ("vt.mode.paste", .bool md.paste),
   ("vt.mode.mouseButtons", .bool md.mouseButtons), ("vt.mode.mouseDrag", .bool md.mouseDrag),
   ("vt.mode.mouseMotion", .bool md.mouseMotion), ("vt.mode.mouseSGR", .bool md.mouseSGR),
   ("vt.mode.altScroll", .bool md.altScroll), ("vt.mode.smcup", .bool md.smcup)]

def mouseFields (m : Mouse) : List (String × V) :=
  [("Button", .int m.button), ("Row", .int m.row), ("Col", .int m.col), ("EventType", .int m.event),
   ("Modifiers", .int (m.mods : Nat))]

/-- `handleMouse(msg)`: (bytes it writes to the pty itself, returned string). -/
def handleMouseGen (u : Uni) (md : Modes) (m : Mouse) : Option (Str × Str) :=
  (execSs (ctx u VaxisModel.Model.KeyBody.noFuncs) VaxisModel.Gen.TermBody.handleMouseBody
      { env := bind "msg" (.struct (mouseFields m)) (modeEnv md) }).outRetStr

/-- The calls `Update` makes into the two encoders; the event is the one being forwarded, the mode
    arguments are the ones the body passes. -/
def updateCalls (u : Uni) (md : Modes) (ev : Event) : String → List V → Option (V × Str)
  | fn, args =>
    if fn = "encodeXterm" then
      match ev, args with
      | .key k, [_, .bool pam, .bool ckm] => (encodeXtermGen u k pam ckm).map fun s => (.str s, [])
      | _, _ => none
    else if fn = "vt.handleMouse" then
      match ev, args with
      | .mouse m, [_] => (handleMouseGen u md m).map fun wr => (.str wr.2, wr.1)
      | _, _ => none
    else none

def eventValue : Event → V
  | .key k => .tag "vaxis.Key" (.struct (VaxisModel.Model.KeyBody.keyFields k))
  | .pasteStart => .tag "vaxis.PasteStartEvent" .unit
  | .pasteEnd => .tag "vaxis.PasteEndEvent" .unit
  | .mouse m => .tag "vaxis.Mouse" (.struct (mouseFields m))

/-- Everything `Model.Update` writes to the child for one event. -/
def updateGen (u : Uni) (md : Modes) (ev : Event) : Option Str :=
  (execSs (ctx u (updateCalls u md ev)) VaxisModel.Gen.TermBody.updateBody { env := ("msg", eventValue ev) :: modeEnv md }).outOnly

end VaxisModel.Model.TermBody
