/-
The forwarding encoders composed with the emulator: the child's *own output* (the parsed stream the
emulator model `Model.Emu` consumes: prints, C0, ESC, CSI, OSC, DCS, APC, resizes) runs through
`Emu.runOps`; the nine input modes the forwarding code reads are projected out of the emulator's
`mode` struct (`inputModes`), and the key / paste / mouse event is then encoded by `TermMouse.update`
with exactly these modes — what `Model.Update` does with `vt.mode` after `Model.update` has consumed
the child's stream.

`modelOpOf` is the *model's* classification of one parsed sequence into a mode operation, read off the
regenerated dispatch tables of `csi()` / `esc()` (`Gen.TermModes.csiTable` / `escTable`: which case label
calls `decset`, `decrst`, `ris`, which arms are the `=` / `>` assignments).  Core Lean only.
-/
import VaxisModel.Model.Emu
import VaxisModel.Model.TermInputModes

namespace VaxisModel.Model.TermChild
open VaxisModel.Model.Key VaxisModel.Model.TermMouse VaxisModel.Model.TermInputModes
open VaxisModel.Gen.TermModes

/-- The emulator's operation seen as a `ChildSeq` (`param[0]` of every parameter, as `decset` reads it). -/
def seqOf : Emu.EOp → ChildSeq
  | .csi l pm => .csi l (pm.map (·.1))
  | .esc l => .esc l
  | _ => .other

/-- The nine input-mode fields of the emulator's `mode` struct. -/
def inputModes (m : Emu.Modes) : Modes :=
  { deckpam := m.deckpam, decckm := m.decckm, paste := m.paste, mouseButtons := m.mouseButtons,
    mouseDrag := m.mouseDrag, mouseMotion := m.mouseMotion, mouseSGR := m.mouseSGR,
    altScroll := m.altScroll, smcup := m.smcup }

/-- The mode operation behind an arm of `switch csi` (`ps` = `param[0]` of every parameter, after the
    clamp to 0…65535 that `csi()` applies before dispatch). -/
def csiArmOp (ps : List Int) : CsiArm → Option ChildOp
  | .decset => some (.set ps)
  | .decrst => some (.reset ps)
  | _ => none

/-- The mode operation behind an arm of `switch esc`. -/
def escArmOp : EscArm → Option ChildOp
  | .arm_3d => some .pam
  | .arm_3e => some .pnm
  | .ris => some .ris
  | _ => none

/-- Which mode operation the code performs for a sequence, from the regenerated dispatch tables. -/
def modelOpOf : ChildSeq → Option ChildOp
  | .csi l ps => (Emu.lookupArm csiTable l).bind (csiArmOp (ps.map Emu.clampParam))
  | .esc l => (Emu.lookupArm escTable l).bind escArmOp
  | .other => none

/-- One step of the table-driven mode model. -/
def stepModes (md : Modes) : Option ChildOp → Modes
  | some c => applyChild md c
  | none => md

/-- The modes after the child's sequences, from `md`, by the table-driven mode model. -/
def modesAfter (md : Modes) (seqs : List ChildSeq) : Modes :=
  (seqs.filterMap modelOpOf).foldl applyChild md

/-- Everything `Model.Update` writes for the event `ev` after the emulator has consumed the child's
    stream `ops` from the state `e0` (a panic / hang of the emulator is a value). -/
def forwardAfter (u : Uni) (e0 : Emu.Emu) (ops : List Emu.EOp) (ev : Event) : Emu.M Str :=
  match Emu.runOps e0 ops with
  | .ok e => .ok (update u (inputModes e.mode) ev)
  | .error p => .error p

end VaxisModel.Model.TermChild
