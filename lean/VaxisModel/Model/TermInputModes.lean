/-
Model of how the child's own output changes the input modes of the embedded terminal:
`decset` / `decrst` (widgets/term/mode.go), `ESC =` / `ESC >` / `ESC c` (esc.go, `ris`).
Entirely driven by `Gen/TermInputModes.lean` (the case tables and the mode assignments of `ris`, regenerated
from the source), restricted to the nine fields the forwarding code reads. Core Lean only.
-/
import VaxisModel.Model.TermMouse
import VaxisModel.Gen.TermInputModes

namespace VaxisModel.Model.TermInputModes
open VaxisModel.Model.Key VaxisModel.Model.TermMouse VaxisModel.Gen.TermInputModes

/-- What the child writes (the mode-relevant subset). -/
inductive ChildOp where
  | set (ns : List Int)      -- CSI ? n ; … h
  | reset (ns : List Int)    -- CSI ? n ; … l
  | pam                      -- ESC =
  | pnm                      -- ESC >
  | ris                      -- ESC c
deriving DecidableEq, Repr

/-- `vt.mode.<field i> = v` for the nine input-mode fields (other fields are not modelled). -/
def setField (md : Modes) (i : Nat) (v : Bool) : Modes :=
  match i with
  | 0 => { md with deckpam := v }
  | 1 => { md with decckm := v }
  | 2 => { md with paste := v }
  | 3 => { md with mouseButtons := v }
  | 4 => { md with mouseDrag := v }
  | 5 => { md with mouseMotion := v }
  | 6 => { md with mouseSGR := v }
  | 7 => { md with altScroll := v }
  | 8 => { md with smcup := v }
  | _ => md

def applyAssigns (md : Modes) : List (Nat × Bool) → Modes
  | [] => md
  | (i, v) :: rest => applyAssigns (setField md i v) rest

/-- One parameter of `decset` / `decrst`: the assignments of its case, nothing for an unknown number. -/
def applyParam (tbl : List (Int × List (Nat × Bool))) (md : Modes) (n : Int) : Modes :=
  match lookup n tbl with
  | some as => applyAssigns md as
  | none => md

def applyChild (md : Modes) : ChildOp → Modes
  | .set ns => ns.foldl (applyParam decset) md
  | .reset ns => ns.foldl (applyParam decrst) md
  | .pam => applyAssigns md deckpamArm
  | .pnm => applyAssigns md deckpnmArm
  | .ris => if risWhole then applyAssigns {} risAssigns else applyAssigns md risAssigns

/-- The modes after the child wrote `ops` to a freshly created terminal (`New()`: all nine false). -/
def childModes (ops : List ChildOp) : Modes := ops.foldl applyChild {}

/-- One parsed sequence of the child's output, as far as mode selection can depend on it: the label
    (intermediates ++ final) and first sub-parameters of a CSI, the label of an ESC, or anything else
    (print, C0, OSC, DCS, APC, a resize of the widget). -/
inductive ChildSeq where
  | csi (label : List Nat) (params : List Int)
  | esc (label : List Nat)
  | other
deriving DecidableEq, Repr

end VaxisModel.Model.TermInputModes
