/-
Model of /repo/widgets/term/key.go `encodeXterm(key, deckpam, decckm)`.
Tables come from `Gen/TermKeys.lean` (regenerated).  The result is the Go string as a list of code
points (every piece is either an ASCII table entry, `string(rune)` / `WriteRune(rune)` — invalid runes
become U+FFFD — or the event's own `Text`).  Core Lean only.
-/
import VaxisModel.Model.Key
import VaxisModel.Gen.TermKeys

namespace VaxisModel.Model.TermKey
open VaxisModel.Model.Key VaxisModel.Gen.Keys VaxisModel.Gen.TermKeys

/-- Decimal digits of a natural number (`%d`), structural on fuel. -/
def decimalAux : Nat → Nat → List Int → List Int
  | 0, _, acc => acc
  | fuel + 1, n, acc =>
    let acc := ((48 + n % 10 : Nat) : Int) :: acc
    if n < 10 then acc else decimalAux fuel (n / 10) acc

def decimalNat (n : Nat) : List Int := decimalAux (n + 1) n []

/-- `%d` of an `int`. -/
def decimal (x : Int) : List Int :=
  if x < 0 then 45 :: decimalNat (-x).toNat else decimalNat x.toNat

def bytesStr (l : List Nat) : Str := l.map fun (b : Nat) => Int.ofNat b

def xtermMask : Nat := ModShift ||| ModAlt ||| ModCtrl

/-- The table-driven prefix of `encodeXterm` (everything up to and including the `xtermKeymap`
    lookup): depends only on the key code, the xterm modifiers and the two key modes. `none` = fall
    through to the text / character part.  `text` (the event's `Text`) is only read by the last step
    of the `xtermMods == 0` block (character keys). -/
def encodeTables (kc : Int) (xtermMods : Nat) (deckpam decckm : Bool) (text : Str := []) : Option Str :=
  let plain : Option Str :=
    if xtermMods = 0 then
      match lookup kc keymap with
      | some v => some (bytesStr v)
      | none =>
      match lookup kc (if decckm then cursorKeysApplicationMode else cursorKeysNormalMode) with
      | some v => some (bytesStr v)
      | none =>
      match lookup kc (if deckpam then applicationKeymap else numericKeymap) with
      | some v => some (bytesStr v)
      | none =>
        -- Unicode keys: `if key.Text != "" { return key.Text }; return string(key.Keycode)`
        if kc < maxRune then some (if text ≠ [] then text else strOfRune kc) else none
    else none
  match plain with
  | some s => some s
  | none =>
  if kc = KeyTab ∧ xtermMods = ModShift then some [27, 91, 90]   -- backtab
  else
  match lookup kc xtermKeymap with
  | some (number, final) => some ([27, 91] ++ decimal number ++ [59] ++ decimal ((xtermMods : Int) + 1) ++ strOfRune final)
  | none => none

/-- `encodeXterm` after its keypad block (the body from `xtermMods := …` on). -/
def encodeXtermCore (u : Uni) (key : Key) (deckpam decckm : Bool) : Str :=
  -- `key.Modifiers & ModShift | key.Modifiers & ModAlt | key.Modifiers & ModCtrl`
  let xtermMods := (key.mods &&& ModShift) ||| (key.mods &&& ModAlt) ||| (key.mods &&& ModCtrl)
  let kc := key.keycode
  match encodeTables kc xtermMods deckpam decckm key.text with
  | some s => s
  | none =>
  if key.text ≠ [] ∧ key.mods &&& ModCtrl = 0 ∧ key.mods &&& ModAlt = 0 then key.text
  else if kc < maxRune then
    let esc : Str := if xtermMods &&& ModAlt ≠ 0 then [27] else []
    if xtermMods &&& ModCtrl ≠ 0 then
      -- `key.Keycode >= 'a' && key.Keycode <= 'z'` (no longer `unicode.IsLower`)
      if 97 ≤ kc ∧ kc ≤ 122 then esc ++ strOfRune (kc - 0x60)
      else match lookup kc ctrlCases with
        | some out => esc ++ (out.map fun r => if validRune r then r else 0xFFFD)
        | none =>
          -- default arm: the control code for `lo ≤ kc < hi`, else the key itself
          if ctrlDefaultRange.1 ≤ kc ∧ kc < ctrlDefaultRange.2 then esc ++ strOfRune (kc - 0x40)
          else esc ++ strOfRune kc
    else if xtermMods &&& ModShift ≠ 0 then
      if key.shifted > 0 then esc ++ strOfRune key.shifted else esc ++ strOfRune (u.toUpper kc)
    else esc ++ strOfRune kc
  else []

/-- `ModShift|ModAlt|ModCtrl|ModNumLock`: an application-mode keypad code is sent only when none of them is set. -/
def keypadMask : Nat := ModShift ||| ModAlt ||| ModCtrl ||| ModNumLock

/-- `if val, ok := keypadNumericMode[key.Keycode]; ok { key.Keycode = val }`: the key a keypad key stands for
    (the character of its legend, Enter, the cursor / editing key); any other key is itself. -/
def keypadLegend (kc : Int) : Int := (lookup kc keypadNumericMode).getD kc

/-- `encodeXterm`: the keypad block (F413 fixed), then the rest on the key the keypad key stands for. -/
def encodeXterm (u : Uni) (key : Key) (deckpam decckm : Bool) : Str :=
  -- `if val, ok := keypadApplicationMode[key.Keycode]; ok && deckpam && key.Modifiers&(Shift|Alt|Ctrl|NumLock) == 0 { return val }`
  match (if deckpam = true ∧ key.mods &&& keypadMask = 0 then lookup key.keycode keypadApplicationMode else none) with
  | some v => bytesStr v
  | none => encodeXtermCore u { key with keycode := keypadLegend key.keycode } deckpam decckm

end VaxisModel.Model.TermKey
