/-
Model of /repo/widgets/term/mouse.go `handleMouse` and of the paste / mouse arms of
`Model.Update` (widgets/term/term.go).  Core Lean only.
-/
import VaxisModel.Model.Mouse
import VaxisModel.Model.TermKey

namespace VaxisModel.Model.TermMouse
open VaxisModel.Model.Key VaxisModel.Model.Mouse VaxisModel.Model.TermKey
open VaxisModel.Gen.Mouse VaxisModel.Gen.Keys

/-- The child-selected input modes (`mode` in widgets/term/mode.go). -/
structure Modes where
  deckpam : Bool := false
  decckm : Bool := false
  paste : Bool := false
  mouseButtons : Bool := false
  mouseDrag : Bool := false
  mouseMotion : Bool := false
  mouseSGR : Bool := false
  altScroll : Bool := false
  smcup : Bool := false
deriving DecidableEq, Repr

/-- `handleMouse`: (bytes written to the pty by `handleMouse` itself, returned string). -/
def handleMouse (md : Modes) (msg : Mouse) : Str × Str :=
  if !md.mouseButtons && !md.mouseDrag && !md.mouseMotion then
    if md.altScroll && md.smcup then
      -- wheel → three cursor keys, in the form the cursor key mode selects
      let up : Str := if md.decckm then [27, 79, 65] else [27, 91, 65]
      let down : Str := if md.decckm then [27, 79, 66] else [27, 91, 66]
      let w1 : Str := if msg.button = (MouseWheelUp : Nat) then up ++ up ++ up else []
      let w2 : Str := if msg.button = (MouseWheelDown : Nat) then down ++ down ++ down else []
      (w1 ++ w2, [])
    else ([], [])
  else if !md.mouseMotion && msg.event = EventMotion && msg.button = (MouseNoButton : Nat) then ([], [])
  else if !md.mouseDrag && !md.mouseMotion && msg.event = EventMotion then ([], [])
  else if md.mouseSGR then
    let body (b : Int) (fin : Int) : Str :=
      [27, 91, 60] ++ decimal b ++ [59] ++ decimal (msg.col + 1) ++ [59] ++ decimal (msg.row + 1) ++ [fin]
    if msg.event = EventMotion then ([], body (msg.button + 32) 77)
    else if msg.event = EventPress then ([], body msg.button 77)
    else if msg.event = EventRelease then ([], body msg.button 109)
    else ([], [])
  else
    -- legacy encoding: `%c` of three ints
    ([], [27, 91, 77] ++ strOfRune (msg.button + 32) ++ strOfRune (32 + msg.col + 1) ++ strOfRune (32 + msg.row + 1))

/-- Events `Update` forwards. -/
inductive Event where
  | key (k : Key)
  | pasteStart
  | pasteEnd
  | mouse (m : Mouse)

/-- Everything `Model.Update` writes to the child for one event. -/
def update (u : Uni) (md : Modes) : Event → Str
  | .key k => if k.event = EventRelease then [] else encodeXterm u k md.deckpam md.decckm
  | .pasteStart => if md.paste then [27, 91, 50, 48, 48, 126] else []
  | .pasteEnd => if md.paste then [27, 91, 50, 48, 49, 126] else []
  | .mouse m => let (w, r) := handleMouse md m; w ++ r

end VaxisModel.Model.TermMouse
