/-
Model of `/repo/vxfw/textfield/textfield.go` (core Lean only).

`Value` is modelled as the list of its grapheme clusters (assumption A-concat, DESIGN §3.1: the
clustering of a concatenation is the concatenation of the clusterings; the harness screens every
case with the real uniseg).  Every `for len(rest) > 0 { cluster, rest = FirstGraphemeCluster… }`
loop is a structural recursion over that list with the same counter `i`.
`cursor` and `n` are Go `uint`; the model uses `Nat` (the only subtraction, `tf.cursor -= 1` /
`tf.cursor - 1`, is guarded by `tf.cursor == 0` in the code and in the model).
-/
namespace VaxisModel.Model.TextField

structure TF (G : Type) where
  value : List G
  cursor : Nat
  /-- cached grapheme count `tf.n` -/
  n : Nat
  deriving Repr, DecidableEq

/-- Callback log: OnChange(value) / OnSubmit(value). -/
inductive Call (G : Type) where
  | change (v : List G)
  | submit (v : List G)
  deriving Repr, DecidableEq

def new {G : Type} : TF G := ⟨[], 0, 0⟩

/-- `graphemeCountInString` -/
def count {G : Type} (v : List G) : Nat := v.length

/-- `Reset` -/
def reset {G : Type} (_ : TF G) : TF G := ⟨[], 0, 0⟩

/-- The loop of `insertStringAtCursor`: copies clusters while `len(rest) > 0 && i < tf.cursor`,
then writes `s`.  Result: the builder `next` at the moment the cursor is set (clusters copied so far
followed by `s`) and the remainder `rest` that is written after it. -/
def insertLoop {G : Type} (s : List G) (cursor : Nat) : List G → Nat → List G → List G × List G
  | [], _, next => (next ++ s, [])
  | c :: rest, i, next =>
    if i < cursor then insertLoop s cursor rest (i + 1) (next ++ [c])
    else (next ++ s, c :: rest)

/-- `InsertStringAtCursor` (= `insertStringAtCursor` + `tf.n = graphemeCountInString(tf.Value)`).
With the F217 fix the cursor is `graphemeCountInString(next.String())` taken right after `s` is
written (before: `tf.cursor += graphemeCountInString(s)`). -/
def insertString {G : Type} (tf : TF G) (s : List G) : TF G :=
  let r := insertLoop s tf.cursor tf.value 0 []
  let v := r.1 ++ r.2
  ⟨v, count r.1, count v⟩

/-- `CursorTo`: returns the new state and whether a redraw command was returned. -/
def cursorTo {G : Type} (tf : TF G) (i : Nat) : TF G × Bool :=
  let i := if i > tf.n then tf.n else i
  if i = tf.cursor then (tf, false) else ({ tf with cursor := i }, true)

/-- Loop of `DeleteCharRightOfCursor`: `if i == tf.cursor { i += 1; continue }; i += 1; write`. -/
def delRightLoop {G : Type} (cursor : Nat) : List G → Nat → List G → List G
  | [], _, next => next
  | c :: rest, i, next =>
    if i = cursor then delRightLoop cursor rest (i + 1) next
    else delRightLoop cursor rest (i + 1) (next ++ [c])

/-- `DeleteCharRightOfCursor` (with the F46 fix: `tf.n` is recomputed). -/
def deleteRight {G : Type} (tf : TF G) : TF G × Bool :=
  if tf.n = tf.cursor then (tf, false)
  else
    let v := delRightLoop tf.cursor tf.value 0 []
    (⟨v, tf.cursor, count v⟩, true)

/-- Loop of `DeleteCharLeftOfCursor`: `i += 1; if i == tf.cursor { continue }; write`. -/
def delLeftLoop {G : Type} (cursor : Nat) : List G → Nat → List G → List G
  | [], _, next => next
  | c :: rest, i, next =>
    if i + 1 = cursor then delLeftLoop cursor rest (i + 1) next
    else delLeftLoop cursor rest (i + 1) (next ++ [c])

/-- `DeleteCharLeftOfCursor` (with the F46 fix). -/
def deleteLeft {G : Type} (tf : TF G) : TF G × Bool :=
  if tf.cursor = 0 then (tf, false)
  else
    let v := delLeftLoop tf.cursor tf.value 0 []
    (⟨v, tf.cursor - 1, count v⟩, true)

/-- Loop of `DeleteCursorToEndOfLine`: `if i == tf.cursor { break }; i += 1; write`. -/
def killLoop {G : Type} (cursor : Nat) : List G → Nat → List G → List G
  | [], _, next => next
  | c :: rest, i, next =>
    if i = cursor then next
    else killLoop cursor rest (i + 1) (next ++ [c])

/-- `DeleteCursorToEndOfLine` (with the F46 fix). -/
def killToEnd {G : Type} (tf : TF G) : TF G × Bool :=
  if tf.cursor = tf.n then (tf, false)
  else
    let v := killLoop tf.cursor tf.value 0 []
    (⟨v, tf.cursor, count v⟩, true)

/-- Which binding of `HandleEvent` an event matches: the harness evaluates the real
`ev.Matches(…)` calls in source order (C09 owns `Matches`); the model receives the verdicts. -/
structure KeyEv (G : Type) where
  release : Bool
  /-- `ev.Text` as clusters -/
  text : List G
  home : Bool      -- Matches('a', ModCtrl) || Matches(KeyHome)
  toEnd : Bool     -- Matches('e', ModCtrl) || Matches(KeyEnd)
  right : Bool     -- Matches('f', ModCtrl) || Matches(KeyRight)
  left : Bool      -- Matches('b', ModCtrl) || Matches(KeyLeft)
  delRight : Bool  -- Matches('d', ModCtrl) || Matches(KeyDelete)
  delLeft : Bool   -- Matches('h', ModCtrl) || Matches(KeyBackspace)
  kill : Bool      -- Matches('k', ModCtrl)
  enter : Bool     -- Matches(KeyEnter)
  deriving Repr

/-- `checkChanged`: OnChange(tf.Value) iff the value differs from `pre`. -/
def checkChanged {G : Type} [DecidableEq G] (pre : List G) (tf : TF G) : List (Call G) :=
  if tf.value = pre then [] else [.change tf.value]

/-- `HandleEvent` for a `vaxis.Key` with both callbacks installed: new state and the callbacks. -/
def handleKey {G : Type} [DecidableEq G] (tf : TF G) (ev : KeyEv G) : TF G × List (Call G) :=
  if ev.release then (tf, [])
  else if ev.text.length > 0 then
    let tf' := insertString tf ev.text
    (tf', checkChanged tf.value tf')
  else if ev.home then ((cursorTo tf 0).1, [])
  else if ev.toEnd then ((cursorTo tf tf.n).1, [])
  else if ev.right then ((cursorTo tf (tf.cursor + 1)).1, [])
  else if ev.left then
    if tf.cursor = 0 then (tf, []) else ((cursorTo tf (tf.cursor - 1)).1, [])
  else if ev.delRight then
    let tf' := (deleteRight tf).1
    (tf', checkChanged tf.value tf')
  else if ev.delLeft then
    let tf' := (deleteLeft tf).1
    (tf', checkChanged tf.value tf')
  else if ev.kill then
    let tf' := (killToEnd tf).1
    (tf', checkChanged tf.value tf')
  else if ev.enter then
    -- `defer tf.Reset()`; `return tf.OnSubmit(tf.Value)`
    (reset tf, [.submit tf.value])
  else (tf, [])

/-- The inner loop of `Draw`: `for _, char := range ctx.Characters(cluster) { WriteCell; col += uint16(char.Width) }`
over the widths of the characters one grapheme is drawn as (one character, except a tab: 8 blanks). -/
def drawChars (ws : List Nat) (col : UInt16) : UInt16 := ws.foldl (fun c w => c + UInt16.ofNat w) col

/-- The cursor column computed by `Draw` (for `Max.Width > 0 && Max.Height > 0`; F417 fix): the loop
walks `tf.Value` grapheme by grapheme, draws `ctx.Characters(cluster)` (`chars g` = their widths) with
`col += uint16(char.Width)`, then `i += 1; if i == tf.cursor { s.Cursor.Col = col }`. -/
def drawLoop {G : Type} (chars : G → List Nat) (cursor : Nat) : List G → Nat → UInt16 → UInt16 → Nat × UInt16 × UInt16
  | [], i, col, cur => (i, col, cur)
  | g :: gs, i, col, cur =>
    let col := drawChars (chars g) col
    let i := i + 1
    drawLoop chars cursor gs i col (if i = cursor then col else cur)

def drawCursorCol {G : Type} (chars : G → List Nat) (tf : TF G) : UInt16 :=
  let r := drawLoop chars tf.cursor tf.value 0 0 0
  if r.1 < tf.cursor then r.2.1 else r.2.2

end VaxisModel.Model.TextField
