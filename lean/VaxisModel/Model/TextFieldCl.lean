import VaxisModel.Model.TextField

/-!
Model of `/repo/vxfw/textfield/textfield.go` over texts whose graphemes can merge (core Lean only).

`Value` is a list of atoms `A` (code points); `cl` is `uniseg`'s segmentation of a string into
grapheme clusters, a parameter.  Every loop of the Go code walks `tf.Value` cluster by cluster
(`FirstGraphemeClusterInString` with the state threaded through yields the clusters of the whole
string): the loops are the ones of `Model.TextField`, run on `cl tf.value`; the `strings.Builder`
they fill holds a string, so the result is flattened and every `graphemeCountInString(x)` is
`(cl x).length`.  `Model.TextField` is this model for a segmentation that never merges.
-/
namespace VaxisModel.Model.TextFieldCl
open VaxisModel.Model.TextField (insertLoop delRightLoop delLeftLoop killLoop KeyEv)

structure TF (A : Type) where
  value : List A
  cursor : Nat
  /-- cached grapheme count `tf.n` -/
  n : Nat
  deriving Repr, DecidableEq

/-- Callback log: OnChange(value) / OnSubmit(value). -/
inductive Call (A : Type) where
  | change (v : List A)
  | submit (v : List A)
  deriving Repr, DecidableEq

def new {A : Type} : TF A := ⟨[], 0, 0⟩

variable {A : Type} (cl : List A → List (List A))

/-- `graphemeCountInString` -/
def count (v : List A) : Nat := (cl v).length

/-- `Reset` -/
def reset (_ : TF A) : TF A := ⟨[], 0, 0⟩

/-- `InsertStringAtCursor`: the loop copies whole clusters of `Value` while `i < tf.cursor`, writes
the string `s` (one `WriteString`, whatever its clusters), sets
`tf.cursor = graphemeCountInString(next.String())` (F217 fix), writes the rest; then
`tf.n = graphemeCountInString(tf.Value)`. -/
def insertString (tf : TF A) (s : List A) : TF A :=
  let r := insertLoop [s] tf.cursor (cl tf.value) 0 []
  let v := r.1.flatten ++ r.2.flatten
  ⟨v, count cl r.1.flatten, count cl v⟩

/-- `CursorTo` -/
def cursorTo (tf : TF A) (i : Nat) : TF A × Bool :=
  let i := if i > tf.n then tf.n else i
  if i = tf.cursor then (tf, false) else ({ tf with cursor := i }, true)

/-- `DeleteCharRightOfCursor` -/
def deleteRight (tf : TF A) : TF A × Bool :=
  if tf.n = tf.cursor then (tf, false)
  else
    let v := (delRightLoop tf.cursor (cl tf.value) 0 []).flatten
    (⟨v, tf.cursor, count cl v⟩, true)

/-- `DeleteCharLeftOfCursor` -/
def deleteLeft (tf : TF A) : TF A × Bool :=
  if tf.cursor = 0 then (tf, false)
  else
    let v := (delLeftLoop tf.cursor (cl tf.value) 0 []).flatten
    (⟨v, tf.cursor - 1, count cl v⟩, true)

/-- `DeleteCursorToEndOfLine` -/
def killToEnd (tf : TF A) : TF A × Bool :=
  if tf.cursor = tf.n then (tf, false)
  else
    let v := (killLoop tf.cursor (cl tf.value) 0 []).flatten
    (⟨v, tf.cursor, count cl v⟩, true)

/-- `checkChanged`: OnChange(tf.Value) iff the value (a string) differs from `pre`. -/
def checkChanged [DecidableEq A] (pre : List A) (tf : TF A) : List (Call A) :=
  if tf.value = pre then [] else [.change tf.value]

/-- `HandleEvent` for a `vaxis.Key` with both callbacks installed (`ev.text` = `ev.Text` as atoms;
the eight `Matches` verdicts as in `Model.TextField.KeyEv`). -/
def handleKey [DecidableEq A] (tf : TF A) (ev : KeyEv A) : TF A × List (Call A) :=
  if ev.release then (tf, [])
  else if ev.text.length > 0 then
    let tf' := insertString cl tf ev.text
    (tf', checkChanged tf.value tf')
  else if ev.home then ((cursorTo tf 0).1, [])
  else if ev.toEnd then ((cursorTo tf tf.n).1, [])
  else if ev.right then ((cursorTo tf (tf.cursor + 1)).1, [])
  else if ev.left then
    if tf.cursor = 0 then (tf, []) else ((cursorTo tf (tf.cursor - 1)).1, [])
  else if ev.delRight then
    let tf' := (deleteRight cl tf).1
    (tf', checkChanged tf.value tf')
  else if ev.delLeft then
    let tf' := (deleteLeft cl tf).1
    (tf', checkChanged tf.value tf')
  else if ev.kill then
    let tf' := (killToEnd cl tf).1
    (tf', checkChanged tf.value tf')
  else if ev.enter then
    (reset tf, [.submit tf.value])
  else (tf, [])

/-- The cursor column of `Draw`: the loop over the clusters of `tf.Value`, each drawn as the
characters `ctx.Characters(cluster)` (`chars` = their widths). -/
def drawCursorCol (chars : List A → List Nat) (tf : TF A) : UInt16 :=
  VaxisModel.Model.TextField.drawCursorCol chars ⟨cl tf.value, tf.cursor, tf.n⟩

end VaxisModel.Model.TextFieldCl
