/-
Model of `/repo/widgets/textinput/textinput.go` (core Lean only).

`content` is a slice of `vaxis.Character`; the model keeps the list of grapheme ids (`G`), with the
width and `isAlphaNumeric` of a grapheme as parameters.  `cursor` and `offset` are Go `int` → `Int`.
Slice expressions and index expressions are checked: an out-of-range access is the value `none`
(panic).  The scroll loop of `Draw` takes fuel; fuel exhaustion is `hang`.
-/
namespace VaxisModel.Model.TextInput

structure TI (G : Type) where
  content : List G
  cursor : Int
  offset : Int
  /-- paste buffer (`[]rune`), as clusters (A-concat) -/
  paste : List G
  deriving Repr, DecidableEq

def new {G : Type} : TI G := ⟨[], 0, 0, []⟩

/-- `SetContent` -/
def setContent {G : Type} (m : TI G) (s : List G) : TI G :=
  { m with content := s, cursor := s.length }

/-- `0 ≤ i ≤ len`: the condition for `content[:i]`, `content[i:]`, `slices.Insert(content, i, …)`. -/
def inRange {G : Type} (l : List G) (i : Int) : Bool := 0 ≤ i && i ≤ l.length

/-- `for i := m.cursor; i < len(m.content); i++ { if p(content[i]) { m.cursor++; continue }; break }`
run over `content[cursor:]`. -/
def fwdLoop {G : Type} (p : G → Bool) : List G → Int → Int
  | [], c => c
  | g :: gs, c => if p g then fwdLoop p gs (c + 1) else c

/-- `for i := start; i >= 0; i-- { if p(content[i]) { m.cursor--; continue }; break }`
run over `reverse(content[:start+1])`. -/
def bwdLoop {G : Type} (p : G → Bool) : List G → Int → Int
  | [], c => c
  | g :: gs, c => if p g then bwdLoop p gs (c - 1) else c

/-- second loop of "Alt+b": `if isAlnum { cursor--; continue }; cursor += 1; break`. -/
def bwdLoop2 {G : Type} (p : G → Bool) : List G → Int → Int
  | [], c => c
  | g :: gs, c => if p g then bwdLoop2 p gs (c - 1) else c + 1

/-- The final clamping of `Update`. -/
def clamp {G : Type} (m : TI G) : TI G :=
  let c := if m.cursor > m.content.length then (m.content.length : Int) else m.cursor
  let c := if c < 0 then 0 else c
  { m with cursor := c }

/-- `slices.Insert(m.content, m.cursor, chars...)` one at a time with `m.cursor += 1` (default arm). -/
def insertChars {G : Type} : TI G → List G → Option (TI G)
  | m, [] => some m
  | m, g :: gs =>
    if inRange m.content m.cursor then
      insertChars { m with content := m.content.take m.cursor.toNat ++ [g] ++ m.content.drop m.cursor.toNat,
                           cursor := m.cursor + 1 } gs
    else none

/-- The `switch msg.String()` of `Update` for a key press (not release, not paste), *before* the
final clamping.  Result: `none` = panic; `some (m, ret)` with `ret` = the arm executed `return`
(so the clamping is skipped). -/
def keySwitch {G : Type} (isAlnum : G → Bool) (m : TI G) (key : String) (ctrl alt super : Bool)
    (text : List G) : Option (TI G × Bool) :=
  let len : Int := m.content.length
  if key = "Ctrl+a" ∨ key = "Home" then some ({ m with cursor := 0 }, false)
  else if key = "Ctrl+e" ∨ key = "End" then some ({ m with cursor := len }, false)
  else if key = "Ctrl+f" ∨ key = "Right" then some ({ m with cursor := m.cursor + 1 }, false)
  else if key = "Ctrl+b" ∨ key = "Left" then some ({ m with cursor := m.cursor - 1 }, false)
  else if key = "Alt+f" ∨ key = "Ctrl+Right" then
    -- content[i] for i ≥ cursor: needs cursor ≥ 0 when something is left to read
    if m.cursor < 0 ∧ m.cursor < len then none else
    let c1 := fwdLoop (fun g => !isAlnum g) (m.content.drop m.cursor.toNat) m.cursor
    let c2 := fwdLoop isAlnum (m.content.drop c1.toNat) c1
    some ({ m with cursor := c2 }, false)
  else if key = "Alt+b" ∨ key = "Ctrl+Left" then
    let c0 := m.cursor - 1
    let c0 := if c0 ≥ len then len - 1 else c0
    let c1 := bwdLoop (fun g => !isAlnum g) (m.content.take (c0 + 1).toNat).reverse c0
    let c2 := bwdLoop2 isAlnum (m.content.take (c1 + 1).toNat).reverse c1
    some ({ m with cursor := c2 }, false)
  else if key = "Ctrl+d" ∨ key = "Delete" then
    if m.cursor = len then some (m, false)   -- `m.content[:m.cursor]`
    else if 0 ≤ m.cursor ∧ m.cursor + 1 ≤ len then
      some ({ m with content := m.content.take m.cursor.toNat ++ m.content.drop (m.cursor.toNat + 1) }, false)
    else none
  else if key = "Ctrl+k" then
    if inRange m.content m.cursor then some ({ m with content := m.content.take m.cursor.toNat }, false) else none
  else if key = "Ctrl+u" then
    if inRange m.content m.cursor then some ({ m with content := m.content.drop m.cursor.toNat, cursor := 0 }, false) else none
  else if key = "Ctrl+h" ∨ key = "BackSpace" then
    if m.cursor = 0 then some (m, true)
    else if m.cursor = len then
      if 0 ≤ m.cursor - 1 then some ({ m with content := m.content.take (m.cursor - 1).toNat, cursor := m.cursor - 1 }, false) else none
    else if 0 ≤ m.cursor - 1 ∧ m.cursor ≤ len then
      some ({ m with content := m.content.take (m.cursor - 1).toNat ++ m.content.drop m.cursor.toNat,
                     cursor := m.cursor - 1 }, false)
    else none
  else if key = "Ctrl+w" then
    if m.cursor = 0 then some (m, true)
    else if !(inRange m.content m.cursor) then none
    else
      let orig := m.cursor
      let c1 := bwdLoop (fun g => !isAlnum g) (m.content.take m.cursor.toNat).reverse m.cursor
      let c2 := bwdLoop isAlnum (m.content.take c1.toNat).reverse c1
      some ({ m with content := m.content.take c2.toNat ++ m.content.drop orig.toNat, cursor := c2 }, false)
  else
    if ctrl then some (m, true)
    else if alt then some (m, true)
    else if super then some (m, true)
    else if text ≠ [] then (insertChars m text).map (·, false)
    else some (m, false)

inductive Ev (G : Type) where
  | pasteEnd
  | release
  | pasteKey (text : List G)
  | key (str : String) (ctrl alt super : Bool) (text : List G)
  /-- any other event type -/
  | other

/-- `Update` -/
def update {G : Type} (isAlnum : G → Bool) (m : TI G) : Ev G → Option (TI G)
  | .pasteEnd =>
    if inRange m.content m.cursor then
      some (clamp { m with content := m.content.take m.cursor.toNat ++ m.paste ++ m.content.drop m.cursor.toNat,
                           cursor := m.cursor + m.paste.length, paste := [] })
    else none
  | .release => some m
  | .pasteKey t => some { m with paste := m.paste ++ t }
  | .key s c a sup t =>
    match keySwitch isAlnum m s c a sup t with
    | none => none
    | some (m', true) => some m'
    | some (m', false) => some (clamp m')
  | .other => some (clamp m)

/-- `widthToCursor(chars, cursor, offset)` -/
def widthToCursor {G : Type} (width : G → Int) (cursor offset : Int) : List G → Int → Int → Int
  | [], _, w => w
  | g :: gs, i, w =>
    if i < offset then widthToCursor width cursor offset gs (i + 1) w
    else
      let w := w + width g
      if i = cursor then w else widthToCursor width cursor offset gs (i + 1) w

/-- The first scroll loop of `Draw` (with the F47 fix `m.offset < m.cursor &&`):
`for m.offset < m.cursor && widthToCursor(chars, m.cursor, m.offset)+col+scrolloff >= winW { m.offset += 1 }`.
`none` = fuel exhausted (hang). -/
def scrollLoop {G : Type} (width : G → Int) (content : List G) (cursor col winW : Int) : Nat → Int → Option Int
  | 0, _ => none
  | fuel + 1, offset =>
    if offset < cursor ∧ widthToCursor width cursor offset content 0 0 + col + 4 ≥ winW then
      scrollLoop width content cursor col winW fuel (offset + 1)
    else some offset

/-- The prompt loop: `none` = returned early (`col >= winW`). -/
def promptLoop {G : Type} (width : G → Int) (winW : Int) : List G → Int → Option Int
  | [], col => some col
  | g :: gs, col =>
    let col := col + width g
    if col ≥ winW then none else promptLoop width winW gs col

/-- The drawing loop, reduced to the cursor column it computes. -/
def cursorLoop {G : Type} (width : G → Int) (cursorIdx offset winW : Int) : List G → Int → Int → Int → Int
  | [], _, _, cur => cur
  | g :: gs, i, col, cur =>
    if i < offset then cursorLoop width cursorIdx offset winW gs (i + 1) col cur
    else
      let cur := if i + 1 = cursorIdx then col + width g else cur
      let col := col + width g
      if col ≥ winW then cur else cursorLoop width cursorIdx offset winW gs (i + 1) col cur

inductive DrawRes (G : Type) where
  | hang
  /-- returned before `ShowCursor` (zero width window or prompt fills it) -/
  | early (m : TI G)
  | shown (m : TI G) (cursorCol : Int)

/-- `Draw(win)` for a window of width `winW` (fuel: the scroll loop runs at most `cursor - offset`
times; `content.length + 1` is enough after the F47 fix). -/
def draw {G : Type} (width : G → Int) (m : TI G) (prompt : List G) (winW : Int) : DrawRes G :=
  if winW = 0 then .early m
  else match promptLoop width winW prompt 0 with
  | none => .early m
  | some col =>
    -- F117 fix: `if widthToCursor(chars, len(chars), 0)+col+scrolloff < winW { m.offset = 0 }`
    let off0 := if widthToCursor width m.content.length 0 m.content 0 0 + col + 4 < winW then 0 else m.offset
    match scrollLoop width m.content m.cursor col winW (m.content.length + 2) off0 with
    | none => .hang
    | some off =>
      let off := if m.cursor - 4 - off < 0 then m.cursor - 4 else off
      let off := if off < 0 then 0 else off
      let m' := { m with offset := off }
      .shown m' (cursorLoop width m.cursor off winW m.content 0 col col)

end VaxisModel.Model.TextInput
