import VaxisModel.Model.TextInput

/-!
The cells `textinput.Draw` writes (core Lean only): the `win.SetCell(col, 0, …)` calls after the
`win.Fill` that blanks the window, in order.  A cell shows the character, the truncator `…`, or the
`invisibleChar` (password mode).
-/
namespace VaxisModel.Model.TextInput

/-- what a drawn cell shows -/
inductive Glyph (G : Type) where
  | g (x : G)      -- the character itself
  | trunc          -- `truncator`
  | mask           -- `m.invisibleChar`
  deriving Repr, DecidableEq

/-- The prompt loop of `Draw` as its `SetCell` calls: the cell is written before
`col += char.Width; if col >= winW { return }`. -/
def promptCells {G : Type} (width : G → Int) (winW : Int) : List G → Int → List (Int × Glyph G)
  | [], _ => []
  | g :: gs, col => (col, .g g) :: (if col + width g ≥ winW then [] else promptCells width winW gs (col + width g))

/-- The content loop of `Draw` (`for i, char := range m.content`) as its `SetCell` calls:
`if i < m.offset { continue }`; `cell.Character = char`;
`if m.invisibleChar.Grapheme != "" { cell.Character = m.invisibleChar }`;
`if m.offset > 0 && i == m.offset { cell.Character = truncator }`;
`if col+char.Width >= winW { cell.Character = truncator }`; `SetCell(col, 0, cell)`;
`col += char.Width`; `if col >= winW { break }`. -/
def cellLoop {G : Type} (width : G → Int) (masked : Bool) (offset winW : Int) : List G → Int → Int → List (Int × Glyph G)
  | [], _, _ => []
  | g :: gs, i, col =>
    if i < offset then cellLoop width masked offset winW gs (i + 1) col
    else
      let ch : Glyph G := if masked then .mask else .g g
      let ch := if offset > 0 ∧ i = offset then .trunc else ch
      let ch := if col + width g ≥ winW then .trunc else ch
      (col, ch) :: (if col + width g ≥ winW then [] else cellLoop width masked offset winW gs (i + 1) (col + width g))

/-- All `SetCell` calls of `Draw` after the `Fill`, for the state before the call: `none` = hang;
`winW = 0`: nothing (returns before the `Fill`); the prompt fills the window: the prompt cells only. -/
def drawCells {G : Type} (width : G → Int) (masked : Bool) (m : TI G) (prompt : List G) (winW : Int) :
    Option (List (Int × Glyph G)) :=
  match draw width m prompt winW with
  | .hang => none
  | .early _ => some (if winW = 0 then [] else promptCells width winW prompt 0)
  | .shown m' _ =>
    match promptLoop width winW prompt 0 with
    | none => some (promptCells width winW prompt 0)
    | some col => some (promptCells width winW prompt 0 ++ cellLoop width masked m'.offset winW m.content 0 col)

/-- `l` laid out from column `c`: each element at the column `c` + display width of the elements
before it. -/
def placed {G : Type} (width : G → Int) (f : G → Glyph G) : List G → Int → List (Int × Glyph G)
  | [], _ => []
  | g :: gs, c => (c, f g) :: placed width f gs (c + width g)

/-- The row of the window after `Draw`: `Fill` puts `blank` in every column, then the `SetCell` calls
in order (`Window.SetCell` drops a cell outside `0 ≤ col < winW`). -/
def renderRow {X : Type} (blank : X) (winW : Nat) (cells : List (Int × X)) : List X :=
  cells.foldl (fun row c => if 0 ≤ c.1 ∧ c.1 < (winW : Int) then row.set c.1.toNat c.2 else row) (List.replicate winW blank)

end VaxisModel.Model.TextInput
