import VaxisModel.Model.TextInput

/-!
Model of `/repo/widgets/textinput/textinput.go` over texts whose graphemes can merge (core Lean only).

`content` is a `[]vaxis.Character`: a list of strings (`List A`, `A` = code points), not
necessarily the segmentation of their concatenation.  `cl` is `vaxis.Characters` (uniseg's
segmentation), a parameter.  `Update` is `Model.TextInput.keySwitch`/`update` on that list — typed
text enters as `Characters(msg.Text)`, the paste buffer (`[]rune`) as `Characters(string(m.paste))`
— followed, since the F317 fix, by `m.resegment()` after the final clamping (not on the arms that
`return`).  `Model.TextInput` is this model for a segmentation that never merges.
-/
namespace VaxisModel.Model.TextInputCl
open VaxisModel.Model.TextInput (TI keySwitch clamp inRange)

structure TIC (A : Type) where
  content : List (List A)
  cursor : Int
  offset : Int
  /-- paste buffer (`[]rune`) -/
  paste : List A
  deriving Repr, DecidableEq

def new {A : Type} : TIC A := ⟨[], 0, 0, []⟩

variable {A : Type} (cl : List A → List (List A))

/-- The widget without its paste buffer, as a `Model.TextInput.TI` over characters. -/
def toG (m : TIC A) : TI (List A) := ⟨m.content, m.cursor, m.offset, []⟩
def ofG (g : TI (List A)) (paste : List A) : TIC A := ⟨g.content, g.cursor, g.offset, paste⟩

/-- `SetContent`: `vaxis.Characters(s)`, cursor at the end. -/
def setContent (m : TIC A) (s : List A) : TIC A :=
  { m with content := cl s, cursor := (cl s).length }

/-- `resegment` (F317 fix): `before := content[:cursor]`; `content = Characters(String())`;
`cursor = len(Characters(before.String()))`.  `none` = the slice expression panics. -/
def resegment (m : TIC A) : Option (TIC A) :=
  if inRange m.content m.cursor then
    some { m with content := cl m.content.flatten,
                  cursor := (cl (m.content.take m.cursor.toNat).flatten).length }
  else none

inductive Ev (A : Type) where
  | pasteEnd
  | release
  | pasteKey (text : List A)
  | key (str : String) (ctrl alt super : Bool) (text : List A)
  | other

/-- `Update` -/
def update (isAlnum : List A → Bool) (m : TIC A) : Ev A → Option (TIC A)
  | .pasteEnd =>
    let chars := cl m.paste
    if inRange m.content m.cursor then
      resegment cl (ofG (clamp { toG m with
        content := m.content.take m.cursor.toNat ++ chars ++ m.content.drop m.cursor.toNat,
        cursor := m.cursor + chars.length }) [])
    else none
  | .release => some m
  | .pasteKey t => some { m with paste := m.paste ++ t }
  | .key s c a sup t =>
    match keySwitch isAlnum (toG m) s c a sup (cl t) with
    | none => none
    | some (g, true) => some (ofG g m.paste)
    | some (g, false) => resegment cl (ofG (clamp g) m.paste)
  | .other => resegment cl (ofG (clamp (toG m)) m.paste)

end VaxisModel.Model.TextInputCl
