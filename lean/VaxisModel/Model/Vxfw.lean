/-!
# Model of `vxfw/vxfw.go`: event routing, focus and hover (property C15)

Widgets are identifiers.  What a widget *does* is an arbitrary oracle
`h : Id → Ev → Phase → Nat → Cmd` (the `Nat` is the global index of the handler call, so an
answer may depend on the whole history) together with `captures : Id → Bool` (does the widget
implement `EventCapturer`).  All theorems quantify over the oracle.

Transcribed Go functions (file `vxfw/vxfw.go`):
`App.handleCommand`, `focusHandler.focusWidget`, `focusHandler.handleEvent`,
`focusHandler.updatePath` / `findPath` / `childHasFocus`, `hitTest`, `SubSurface.containsPoint`,
`mouseHandler.handleEvent` / `update` / `mouseExit` / `mouseEnter`, the child sort in `Surface.render`,
and the event switch / frame step of `App.Run`.

Deviations (all argued in notes/C15.md):
* handlers never return an `error` (an error aborts `Run`; not part of the property);
* `handleCommand`'s recursion over `BatchCmd` / `[]Command` is `Cmd.flatten` (pre-order), the
  re-entrancy `handleCommand → focusWidget → HandleEvent → handleCommand` takes fuel
  (= maximal nesting depth; running out sets `stuck`, in Go that is a stack overflow);
* `SetMouseShape`/`SetTitle`/`CopyToClipboard`/`SendNotification` are one command `other k`
  whose effect is an entry of the trace;
* `sort.Slice` on ≤ 12 children is Go's insertion sort (stable).
Core Lean only.
-/
namespace VaxisModel.Model.Vxfw

abbrev Id := Nat

inductive Phase where
  | capture | target | bubble
  deriving DecidableEq, Repr, Inhabited

/-- Events as seen by widgets. `key`/`custom`/`init` are dispatched by the focus handler
(`vaxis.Key`, anything in the `default:` arm, `vxfw.Init`), `mouse` by the mouse handler. -/
inductive Ev where
  | key (k : Nat) | custom (k : Nat) | init | mouse (col row : Int)
  | focusIn | focusOut | mouseEnter | mouseLeave
  deriving DecidableEq, Repr, Inhabited

/-- `vxfw.Command` values. -/
inductive Cmd where
  | nil | redraw | refresh | quit | consume | focus (w : Id) | debug | other (k : Nat)
  | batch (l : List Cmd) | slice (l : List Cmd)
  deriving Repr, Inhabited

/-- Non-batch commands. -/
inductive Atom where
  | redraw | refresh | quit | consume | focus (w : Id) | debug | other (k : Nat)
  deriving DecidableEq, Repr, Inhabited

mutual
/-- The order in which `handleCommand` reaches the non-batch commands of a command value. -/
def Cmd.flatten : Cmd → List Atom
  | .nil => []
  | .redraw => [.redraw]
  | .refresh => [.refresh]
  | .quit => [.quit]
  | .consume => [.consume]
  | .focus w => [.focus w]
  | .debug => [.debug]
  | .other k => [.other k]
  | .batch l => Cmd.flattenL l
  | .slice l => Cmd.flattenL l
def Cmd.flattenL : List Cmd → List Atom
  | [] => []
  | c :: r => Cmd.flatten c ++ Cmd.flattenL r
end

/-- Observable effects of commands (assignments to `App`/`focusHandler` fields, calls into vaxis). -/
inductive Eff where
  | redraw | refresh | quit | consume | debug | other (k : Nat) | focusSet (w : Id)
  deriving DecidableEq, Repr, Inhabited

/-- Trace entries: handler calls, command effects, `Draw` calls of the root widget. -/
inductive Entry where
  | call (w : Id) (ev : Ev) (ph : Phase)
  | eff (e : Eff)
  | draw
  deriving DecidableEq, Repr, Inhabited

/-- A `Surface` with its `Children` (`SubSurface`: origin col,row, z-index, surface). -/
inductive STree where
  | node (id : Id) (w h : Nat) (ch : List (Int × Int × Int × STree))
  deriving Repr, Inhabited

abbrev Kid := Int × Int × Int × STree

namespace STree
def id : STree → Id | node i _ _ _ => i
def w : STree → Nat | node _ w _ _ => w
def h : STree → Nat | node _ _ h _ => h
def ch : STree → List Kid | node _ _ _ c => c
end STree

structure Hit where
  col : Int
  row : Int
  w : Id
  deriving DecidableEq, Repr, Inhabited

structure Oracle where
  h : Id → Ev → Phase → Nat → Cmd
  captures : Id → Bool

/-- `App` + `focusHandler` + `mouseHandler` + the observation trace. -/
structure St where
  redraw : Bool := false
  refresh : Bool := false
  quit : Bool := false
  consume : Bool := false
  debug : Bool := false
  focused : Id
  root : Id
  path : List Id
  /-- `focusHandler.lastFrame`: the surface the path is computed from (`none` = the zero `Surface`
  before the first frame: no widget, no children). -/
  fhFrame : Option STree := none
  lastFrame : STree := .node 0 0 0 []
  lastHits : List Hit := []
  mouse : Option (Int × Int) := none
  calls : Nat := 0
  trace : List Entry := []
  stuck : Bool := false
  deriving Repr, Inhabited

/-- State at the top of `App.Run`. -/
def St.init (root : Id) : St := { focused := root, root := root, path := [root] }

def St.log (s : St) (e : Entry) : St := { s with trace := s.trace ++ [e] }

/-- One `HandleEvent` / `CaptureEvent` call. -/
def call (o : Oracle) (s : St) (w : Id) (ev : Ev) (ph : Phase) : St × Cmd :=
  ({ s with calls := s.calls + 1, trace := s.trace ++ [.call w ev ph] }, o.h w ev ph s.calls)

/-! ### `findPath` / `childHasFocus` -/

mutual
/-- `childHasFocus`: the elements appended to `f.path` (target first), or `none` for `false`. -/
def childHasFocus (f : Id) : STree → Option (List Id)
  | .node i _ _ ch => if i = f then some [i] else (childHasFocusL f ch).map (· ++ [i])
def childHasFocusL (f : Id) : List Kid → Option (List Id)
  | [] => none
  | (_, _, _, t) :: r =>
    match childHasFocus f t with
    | some p => some p
    | none => childHasFocusL f r
end

/-- `childHasFocus(f.lastFrame)` (the zero `Surface` has a nil widget and no children). -/
def frameHasFocus (s : St) : Option (List Id) :=
  match s.fhFrame with
  | none => none
  | some t => childHasFocus s.focused t

/-- Is the root surface of the last frame the root widget's (`f.root != f.lastFrame.Widget`)? -/
def frameRootIsRoot (s : St) : Bool :=
  match s.fhFrame with
  | none => false
  | some t => decide (s.root = t.id)

/-- The value `focusHandler.findPath` leaves in `f.path`: what `childHasFocus` appended (target
first), the root widget appended if the root surface is another widget's or nothing was found,
reversed. -/
def foundPath (s : St) : List Id :=
  let p := (frameHasFocus s).getD []
  (if !frameRootIsRoot s || p.isEmpty then p ++ [s.root] else p).reverse

/-- `focusHandler.findPath`: new path and whether the focused widget is in the last frame. -/
def findPath (s : St) : St × Bool :=
  ({ s with path := foundPath s }, (frameHasFocus s).isSome)

/-- `focusHandler.focusWidget`, with the re-entrant `app.handleCommand` abstracted as `hc`. -/
def focusWidgetWith (hc : St → Cmd → St) (o : Oracle) (s : St) (w : Id) : St :=
  if s.focused = w then s else
  let r1 := call o s s.focused .focusOut .target
  let s2 := (findPath { r1.1 with focused := w, trace := r1.1.trace ++ [.eff (.focusSet w)] }).1
  let r3 := call o s2 w .focusIn .target
  hc (hc r3.1 r1.2) r3.2

/-- One arm of the type switch in `App.handleCommand`. -/
def execAtom (hc : St → Cmd → St) (o : Oracle) (s : St) : Atom → St
  | .redraw => { s with redraw := true, trace := s.trace ++ [.eff .redraw] }
  | .refresh => { s with refresh := true, trace := s.trace ++ [.eff .refresh] }
  | .quit => { s with quit := true, trace := s.trace ++ [.eff .quit] }
  | .consume => { s with consume := true, trace := s.trace ++ [.eff .consume] }
  | .debug => { s with debug := true, redraw := true, trace := s.trace ++ [.eff .debug] }
  | .other k => { s with trace := s.trace ++ [.eff (.other k)] }
  | .focus w => focusWidgetWith hc o s w

/-- `App.handleCommand`. `fuel` bounds the nesting `handleCommand → focusWidget → handler →
handleCommand`; at 0 the model gives up (`stuck`). -/
def handleCommand (o : Oracle) : Nat → St → Cmd → St
  | 0, s, _ => { s with stuck := true }
  | fuel + 1, s, c => c.flatten.foldl (execAtom (handleCommand o fuel) o) s

/-- `focusHandler.focusWidget` as called from `updatePath` (same depth as a `handleCommand`). -/
def focusWidget (o : Oracle) : Nat → St → Id → St
  | 0, s, _ => { s with stuck := true }
  | fuel + 1, s, w => focusWidgetWith (handleCommand o fuel) o s w

/-- Call a handler, run its command, test-and-clear `consumeEvent`. Returns `true` if consumed. -/
def offer (o : Oracle) (fuel : Nat) (s : St) (w : Id) (ev : Ev) (ph : Phase) : St × Bool :=
  let r := call o s w ev ph
  let s2 := handleCommand o fuel r.1 r.2
  if s2.consume then ({ s2 with consume := false }, true) else (s2, false)

/-- Capture loop: `for _, w := range path { c, ok := w.(EventCapturer); … }`. -/
def capturePhase (o : Oracle) (fuel : Nat) (ev : Ev) : List Id → St → St × Bool
  | [], s => (s, false)
  | w :: ws, s =>
    if o.captures w then
      let r := offer o fuel s w ev .capture
      if r.2 then r else capturePhase o fuel ev ws r.1
    else capturePhase o fuel ev ws s

/-- Bubble loop over `path[len-2], …, path[0]` (the argument is already in that order). -/
def bubblePhase (o : Oracle) (fuel : Nat) (ev : Ev) : List Id → St → St
  | [], s => s
  | w :: ws, s =>
    let r := offer o fuel s w ev .bubble
    if r.2 then r.1 else bubblePhase o fuel ev ws r.1

/-- The three-phase dispatch shared (textually duplicated in Go) by `focusHandler.handleEvent`
and `mouseHandler.handleEvent`. `tgt` reads the target when the target phase starts. -/
def dispatch (o : Oracle) (fuel : Nat) (chain : List Id) (tgt : St → Id) (ev : Ev) (s : St) : St :=
  let s0 := { s with consume := false }
  let r := capturePhase o fuel ev chain s0
  if r.2 then r.1 else
  let r2 := offer o fuel r.1 (tgt r.1) ev .target
  if r2.2 then r2.1 else
  bubblePhase o fuel ev chain.dropLast.reverse r2.1

/-- `focusHandler.handleEvent`. -/
def handleEvent (o : Oracle) (fuel : Nat) (s : St) (ev : Ev) : St :=
  dispatch o fuel s.path (fun s => s.focused) ev s

/-! ### `updatePath` -/

/-- `focusHandler.updatePath`. -/
def updatePath (o : Oracle) (fuel : Nat) (s : St) (t : STree) : St :=
  let r := findPath { s with fhFrame := some t }
  if r.2 then r.1 else focusWidget o fuel r.1 s.root

/-! ### hit testing -/

/-- `SubSurface.containsPoint`. -/
def containsPoint (oc or_ : Int) (w h : Nat) (col row : Int) : Bool :=
  decide (col ≥ oc) && decide (col < oc + (w : Int)) && decide (row ≥ or_) && decide (row < or_ + (h : Int))

/-- Go's `uint16(x)` conversion / `uint16` subtraction. -/
def u16 (x : Int) : Int := x % 65536

mutual
/-- `hitTest` (the appended hit results). -/
def hitTest : STree → Int → Int → List Hit
  | .node i _ _ ch, col, row => ⟨col, row, i⟩ :: hitKids ch col row
def hitKids : List Kid → Int → Int → List Hit
  | [], _, _ => []
  | (oc, or_, _, t) :: rest, col, row =>
    (if containsPoint oc or_ t.w t.h col row
      then hitTest t (u16 (col - u16 oc)) (u16 (row - u16 or_)) else []) ++ hitKids rest col row
end

/-- A handler call whose command is run without looking at `consumeEvent`. -/
def notify (o : Oracle) (fuel : Nat) (s : St) (w : Id) (ev : Ev) : St :=
  let r := call o s w ev .target
  handleCommand o fuel r.1 r.2

/-- The hit list computed at the top of `mouseHandler.update`. -/
def hitsAt (t : STree) (col row : Int) : List Hit :=
  if containsPoint 0 0 t.w t.h col row then hitTest t (u16 col) (u16 row) else []

/-- `mouseHandler.update`. -/
def mouseUpdate (o : Oracle) (fuel : Nat) (s : St) (t : STree) : St :=
  match s.mouse with
  | none => s
  | some (col, row) =>
    let hits := hitsAt t col row
    let old := s.lastHits
    let s1 := old.foldl (fun s h1 => if hits.contains h1 then s else notify o fuel s h1.w .mouseLeave) s
    let s2 := hits.foldl (fun s h1 => if old.contains h1 then s else notify o fuel s h1.w .mouseEnter) s1
    { s2 with lastHits := hits }

/-- `mouseHandler.mouseExit`. -/
def mouseExit (o : Oracle) (fuel : Nat) (s : St) : St :=
  let s1 := s.lastHits.foldl (fun s h => notify o fuel s h.w .mouseLeave) s
  { s1 with lastHits := [] }

/-- `mouseHandler.mouseEnter` (the `vaxis.FocusIn` arm of `Run` calls it with the root widget):
nothing if the widget is in the hit list, else it is recorded (zero coordinates) and notified. -/
def mouseEnter (o : Oracle) (fuel : Nat) (s : St) (w : Id) : St :=
  if s.lastHits.any (fun h => h.w == w) then s
  else notify o fuel { s with lastHits := s.lastHits ++ [⟨0, 0, w⟩] } w .mouseEnter

/-- `mouseHandler.handleEvent`. -/
def mouseHandleEvent (o : Oracle) (fuel : Nat) (s : St) (col row : Int) : St :=
  let s1 := mouseUpdate o fuel { s with mouse := some (col, row) } s.lastFrame
  match s1.lastHits.getLast? with
  | none => s1
  | some tg => dispatch o fuel (s1.lastHits.map (·.w)) (fun _ => tg.w) (.mouse col row) s1

/-! ### `Surface.render`: only its side effect on the children order -/

/-- Insert into a z-sorted list behind all elements that are not greater (Go's insertion sort). -/
def insertKid (x : Kid) : List Kid → List Kid
  | [] => [x]
  | y :: ys => if x.2.2.1 < y.2.2.1 then x :: y :: ys else y :: insertKid x ys

def sortKids (l : List Kid) : List Kid := l.foldl (fun acc x => insertKid x acc) []

mutual
def sortTree : STree → STree
  | .node i w h ch => .node i w h (sortKids (sortTreeL ch))
def sortTreeL : List Kid → List Kid
  | [] => []
  | (c, r, z, t) :: rest => (c, r, z, sortTree t) :: sortTreeL rest
end

/-! ### `App.Run` -/

/-- The events the `Run` loop's type switch distinguishes. -/
inductive RunEv where
  | resize | mouse (col row : Int) | focusIn | focusOut | key (k : Nat) | redraw | other (k : Nat)
  deriving DecidableEq, Repr, Inhabited

/-- One arm of the event switch (the `shouldQuit` test is in `runEvents`). -/
def runEvent (o : Oracle) (fuel : Nat) (s : St) : RunEv → St
  | .resize => { s with redraw := true }
  | .mouse c r => mouseHandleEvent o fuel s c r
  | .focusIn => mouseEnter o fuel s s.root
  | .focusOut => mouseExit o fuel { s with mouse := none }
  | .key k => handleEvent o fuel s (.key k)
  | .redraw => { s with redraw := true }
  | .other k => handleEvent o fuel s (.custom k)

/-- The timer arm: `t1` is what the first `layout` returns, `t2` what a second one would. -/
def runFrame (o : Oracle) (fuel : Nat) (s : St) (t1 t2 : STree) : St :=
  if !s.redraw then s else
  let s := { s with redraw := false, trace := s.trace ++ [.draw] }
  let s := mouseUpdate o fuel s t1
  let r : St × STree :=
    if s.redraw then ({ s with redraw := false, trace := s.trace ++ [.draw] }, t2) else (s, t1)
  let t := sortTree r.2
  let s := { r.1 with refresh := false, debug := false }
  let s := updatePath o fuel s t
  { s with lastFrame := t }

/-- Start of `Run`: focus handler initialised, `Init{}` dispatched, first layout kept as
`lastFrame` (not rendered, so not sorted). -/
def runInit (o : Oracle) (fuel : Nat) (root : Id) (t : STree) : St :=
  let s := handleEvent o fuel (St.init root) .init
  { s with trace := s.trace ++ [.draw], lastFrame := t }

/-- Steps of a history: an event from the queue or a timer tick with the layouts it would see. -/
inductive Step where
  | ev (e : RunEv)
  | frame (t1 t2 : STree)
  deriving Repr, Inhabited

def runStep (o : Oracle) (fuel : Nat) (s : St) : Step → St
  | .ev e => runEvent o fuel s e
  | .frame t1 t2 => runFrame o fuel s t1 t2

/-- The loop: stops (returns) as soon as `shouldQuit` is seen after an event. -/
def runSteps (o : Oracle) (fuel : Nat) : St → List Step → St
  | s, [] => s
  | s, st :: rest =>
    let s' := runStep o fuel s st
    match st with
    | .ev _ => if s'.quit then s' else runSteps o fuel s' rest
    | .frame _ _ => runSteps o fuel s' rest

end VaxisModel.Model.Vxfw
