import VaxisModel.Model.Vxfw

/-!
# Handlers that return a Go `error` (property C15, extension of `Model/Vxfw.lean`)

`HandleEvent` / `CaptureEvent` return `(Command, error)`. Every call site in `vxfw/vxfw.go` has the
shape `cmd, err := H(…); if err != nil { return err }; app.handleCommand(cmd)` and every caller
passes the error on up to `App.Run`, which returns it — with two exceptions: the
`FocusWidgetCmd` arm of `handleCommand` logs the error of `focusWidget` and goes on, and
`updatePath` drops it (`_ = f.focusWidget(…)`).

An `EOracle` adds to the oracle which calls fail (`fails w ev phase k` for the `k`-th call); the
command answered by a failing call is ignored, as in Go. The functions below are the ones of
`Model/Vxfw.lean` with that plumbing; `Bool` results are `err != nil`. With `fails = false` they
are the plain functions (`Props/C15Err.lean`, `*_noerr`). Core Lean only.
-/
namespace VaxisModel.Model.Vxfw

structure EOracle where
  o : Oracle
  fails : Id → Ev → Phase → Nat → Bool

/-- Does the call about to be made from `s` fail? -/
def EOracle.failsAt (e : EOracle) (s : St) (w : Id) (ev : Ev) (ph : Phase) : Bool := e.fails w ev ph s.calls

/-- `focusHandler.focusWidget` with errors: a failing FocusOut handler leaves the focus where it
is; a failing FocusIn handler: focus and path are changed, the FocusOut handler's command is
handled, the FocusIn handler's command is dropped. -/
def eFocusWidgetWith (hc : St → Cmd → St) (e : EOracle) (s : St) (w : Id) : St × Bool :=
  if s.focused = w then (s, false) else
  let r1 := call e.o s s.focused .focusOut .target
  if e.failsAt s s.focused .focusOut .target then (r1.1, true) else
  let s2 := (findPath { r1.1 with focused := w, trace := r1.1.trace ++ [.eff (.focusSet w)] }).1
  let r3 := call e.o s2 w .focusIn .target
  let s4 := hc r3.1 r1.2
  if e.failsAt s2 w .focusIn .target then (s4, true) else (hc s4 r3.2, false)

/-- `handleCommand`'s arms; the `FocusWidgetCmd` arm logs and drops the error. -/
def eExecAtom (hc : St → Cmd → St) (e : EOracle) (s : St) : Atom → St
  | .focus w => (eFocusWidgetWith hc e s w).1
  | a => execAtom hc e.o s a

def eHandleCommand (e : EOracle) : Nat → St → Cmd → St
  | 0, s, _ => { s with stuck := true }
  | fuel + 1, s, c => c.flatten.foldl (eExecAtom (eHandleCommand e fuel) e) s

/-- `focusWidget` as called from `updatePath`. -/
def eFocusWidget (e : EOracle) : Nat → St → Id → St × Bool
  | 0, s, _ => ({ s with stuck := true }, false)
  | fuel + 1, s, w => eFocusWidgetWith (eHandleCommand e fuel) e s w

/-- Outcome of one offer: go on, stop (consumed), or fail. -/
inductive Outcome where
  | next | stop | fail
  deriving DecidableEq, Repr, Inhabited

def eOffer (e : EOracle) (fuel : Nat) (s : St) (w : Id) (ev : Ev) (ph : Phase) : St × Outcome :=
  let r := call e.o s w ev ph
  if e.failsAt s w ev ph then (r.1, .fail) else
  let s2 := eHandleCommand e fuel r.1 r.2
  if s2.consume then ({ s2 with consume := false }, .stop) else (s2, .next)

def eCapturePhase (e : EOracle) (fuel : Nat) (ev : Ev) : List Id → St → St × Outcome
  | [], s => (s, .next)
  | w :: ws, s =>
    if e.o.captures w then
      let r := eOffer e fuel s w ev .capture
      if r.2 = .next then eCapturePhase e fuel ev ws r.1 else r
    else eCapturePhase e fuel ev ws s

def eBubblePhase (e : EOracle) (fuel : Nat) (ev : Ev) : List Id → St → St × Outcome
  | [], s => (s, .next)
  | w :: ws, s =>
    let r := eOffer e fuel s w ev .bubble
    if r.2 = .next then eBubblePhase e fuel ev ws r.1 else r

/-- Three-phase dispatch; the `Bool` is the returned error. -/
def eDispatch (e : EOracle) (fuel : Nat) (chain : List Id) (tgt : St → Id) (ev : Ev) (s : St) : St × Bool :=
  let s0 := { s with consume := false }
  let r := eCapturePhase e fuel ev chain s0
  if r.2 ≠ .next then (r.1, r.2 = .fail) else
  let r2 := eOffer e fuel r.1 (tgt r.1) ev .target
  if r2.2 ≠ .next then (r2.1, r2.2 = .fail) else
  let r3 := eBubblePhase e fuel ev chain.dropLast.reverse r2.1
  (r3.1, r3.2 = .fail)

def eHandleEvent (e : EOracle) (fuel : Nat) (s : St) (ev : Ev) : St × Bool :=
  eDispatch e fuel s.path (fun s => s.focused) ev s

/-- `updatePath`: the error of the best-effort refocus is dropped. -/
def eUpdatePath (e : EOracle) (fuel : Nat) (s : St) (t : STree) : St :=
  let r := findPath { s with fhFrame := some t }
  if r.2 then r.1 else (eFocusWidget e fuel r.1 s.root).1

def eNotify (e : EOracle) (fuel : Nat) (s : St) (w : Id) (ev : Ev) : St × Bool :=
  let r := call e.o s w ev .target
  if e.failsAt s w ev .target then (r.1, true) else (eHandleCommand e fuel r.1 r.2, false)

/-- A notification loop of `mouseHandler.update` / `mouseExit`: returns at the first error. -/
def eNotifyLoop (e : EOracle) (fuel : Nat) (ev : Ev) (skip : Hit → Bool) : List Hit → St → St × Bool
  | [], s => (s, false)
  | h :: r, s =>
    if skip h then eNotifyLoop e fuel ev skip r s else
    let x := eNotify e fuel s h.w ev
    if x.2 then x else eNotifyLoop e fuel ev skip r x.1

/-- `mouseHandler.update`: on an error the hit list is not replaced (and `Run` returns). -/
def eMouseUpdate (e : EOracle) (fuel : Nat) (s : St) (t : STree) : St × Bool :=
  match s.mouse with
  | none => (s, false)
  | some (col, row) =>
    let hits := hitsAt t col row
    let old := s.lastHits
    let r1 := eNotifyLoop e fuel .mouseLeave (fun h => hits.contains h) old s
    if r1.2 then r1 else
    let r2 := eNotifyLoop e fuel .mouseEnter (fun h => old.contains h) hits r1.1
    if r2.2 then r2 else ({ r2.1 with lastHits := hits }, false)

def eMouseExit (e : EOracle) (fuel : Nat) (s : St) : St × Bool :=
  let r := eNotifyLoop e fuel .mouseLeave (fun _ => false) s.lastHits s
  if r.2 then r else ({ r.1 with lastHits := [] }, false)

def eMouseEnter (e : EOracle) (fuel : Nat) (s : St) (w : Id) : St × Bool :=
  if s.lastHits.any (fun h => h.w == w) then (s, false)
  else eNotify e fuel { s with lastHits := s.lastHits ++ [⟨0, 0, w⟩] } w .mouseEnter

def eMouseHandleEvent (e : EOracle) (fuel : Nat) (s : St) (col row : Int) : St × Bool :=
  let r := eMouseUpdate e fuel { s with mouse := some (col, row) } s.lastFrame
  if r.2 then r else
  match r.1.lastHits.getLast? with
  | none => r
  | some tg => eDispatch e fuel (r.1.lastHits.map (·.w)) (fun _ => tg.w) (.mouse col row) r.1

def eRunEvent (e : EOracle) (fuel : Nat) (s : St) : RunEv → St × Bool
  | .resize => ({ s with redraw := true }, false)
  | .mouse c r => eMouseHandleEvent e fuel s c r
  | .focusIn => eMouseEnter e fuel s s.root
  | .focusOut => eMouseExit e fuel { s with mouse := none }
  | .key k => eHandleEvent e fuel s (.key k)
  | .redraw => ({ s with redraw := true }, false)
  | .other k => eHandleEvent e fuel s (.custom k)

def eRunFrame (e : EOracle) (fuel : Nat) (s : St) (t1 t2 : STree) : St × Bool :=
  if !s.redraw then (s, false) else
  let s := { s with redraw := false, trace := s.trace ++ [.draw] }
  let x := eMouseUpdate e fuel s t1
  if x.2 then x else
  let s := x.1
  let r : St × STree :=
    if s.redraw then ({ s with redraw := false, trace := s.trace ++ [.draw] }, t2) else (s, t1)
  let t := sortTree r.2
  let s := { r.1 with refresh := false, debug := false }
  let s := eUpdatePath e fuel s t
  ({ s with lastFrame := t }, false)

/-- Start of `Run`: an error of the `Init` dispatch is returned before the first layout. -/
def eRunInit (e : EOracle) (fuel : Nat) (root : Id) (t : STree) : St × Bool :=
  let r := eHandleEvent e fuel (St.init root) .init
  if r.2 then r else ({ r.1 with trace := r.1.trace ++ [.draw], lastFrame := t }, false)

def eRunStep (e : EOracle) (fuel : Nat) (s : St) : Step → St × Bool
  | .ev ev => eRunEvent e fuel s ev
  | .frame t1 t2 => eRunFrame e fuel s t1 t2

/-- The loop: returns at the first error, or when `shouldQuit` is seen after an event. -/
def eRunSteps (e : EOracle) (fuel : Nat) : St → List Step → St × Bool
  | s, [] => (s, false)
  | s, st :: rest =>
    let r := eRunStep e fuel s st
    if r.2 then r else
    match st with
    | .ev _ => if r.1.quit then r else eRunSteps e fuel r.1 rest
    | .frame _ _ => eRunSteps e fuel r.1 rest

/-- `App.Run` from the start. -/
def eRun (e : EOracle) (fuel : Nat) (root : Id) (t0 : STree) (steps : List Step) : St × Bool :=
  let r := eRunInit e fuel root t0
  if r.2 then r else eRunSteps e fuel r.1 steps

end VaxisModel.Model.Vxfw
