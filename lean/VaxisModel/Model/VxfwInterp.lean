/-
An interpreter for the body of `focusHandler.handleEvent` (vxfw/vxfw.go), run directly on its
regenerated syntax (`Gen/VxfwBodies.lean`, translated by `extract/cmd/C15/skel.go` into the syntax
of `Model/GoSyn.lean`, parsed into a statement tree by `Model/DynExec.parseBody`).

It executes what the body says: the assignment `app.consumeEvent = false`, the snapshot
`path := f.path`, the `range` loop over the snapshot with the type assertion
`c, ok := w.(EventCapturer)` and `continue`, the calls `c.CaptureEvent(ev)` /
`f.focused.HandleEvent(ev, TargetPhase)` / `w.HandleEvent(ev, BubblePhase)` (the widget's answer and
whether it fails come from the oracle of `Model/VxfwErr.lean`; the receiver `f.focused` is read when
the call is made), `if err != nil { return err }`, `app.handleCommand(cmd)` (the model's
`eHandleCommand`), `if app.consumeEvent { app.consumeEvent = false; return nil }`, and the index loop
`for i := len(path) - 2; i >= 0; i -= 1 { w := path[i] … }` with a CHECKED index expression.  The
value a `return` returns is part of the result (`true` = a non-nil error).
`Props/C15Body.lean` proves that the result is `eHandleEvent` — the function the routing theorems
are about — for every oracle, state and event.  Anything outside the subset is `none`.
-/
import VaxisModel.Model.GoSyn
import VaxisModel.Model.DynExec
import VaxisModel.Model.VxfwErr

namespace VaxisModel.Model.VxfwInterp
open VaxisModel.Model.GoSyn VaxisModel.Model.Vxfw
open VaxisModel.Model.DynExec (Stmt)

/-- Locals by type. -/
structure VM where
  s     : St
  ints  : List (String × Int)
  ids   : List (String × Id)
  cmds  : List (String × Cmd)
  flags : List (String × Bool)        -- `ok` of a type assertion; an `error` (true = non-nil)
  lists : List (String × List Id)

inductive Ctl where
  | norm | brk | cont
  | ret (err : Bool)
deriving DecidableEq, Repr

abbrev Res := Option (VM × Ctl)

def find {α : Type} (l : List (String × α)) (n : String) : Option α :=
  match l with
  | [] => none
  | (k, v) :: r => if k = n then some v else find r n

/-- The widget a call's receiver denotes (`x.M` for a widget local `x`; `r.focused.M` = the widget
    focused now). -/
def recv (vm : VM) (fn meth : String) : Option Id :=
  if fn = "r.focused." ++ meth then some vm.s.focused else find vm.ids fn

def bindId (vm : VM) (x : String) (w : Id) : VM :=
  { vm with ids := (x, w) :: (x ++ ".CaptureEvent", w) :: (x ++ ".HandleEvent", w) ::
      (x ++ ".w", w) :: (x ++ ".w.CaptureEvent", w) :: (x ++ ".w.HandleEvent", w) :: vm.ids }

/-- A list of widgets: a local (the path snapshot), or the mouse handler's hit list `r.lastHits`, read
    when the expression is evaluated (a hit result is represented by its widget `.w`; its coordinates
    play no role in the dispatch). -/
def evList (vm : VM) (n : String) : Option (List Id) :=
  if n = "r.lastHits" then some (vm.s.lastHits.map (·.w)) else find vm.lists n

def phaseOf : Expr → Option Phase
  | .var "TargetPhase" => some .target
  | .var "BubblePhase" => some .bubble
  | .var "CapturePhase" => some .capture
  | _ => none

def evInt (vm : VM) : Expr → Option Int
  | .var n => find vm.ints n
  | .int n => some (n : Int)
  | .bin "-" a b => do let x ← evInt vm a; let y ← evInt vm b; pure (x - y)
  | .bin "+" a b => do let x ← evInt vm a; let y ← evInt vm b; pure (x + y)
  | .arg (.call (.var "len")) (.var l) => (evList vm l).map (fun x => (x.length : Int))
  | _ => none

def evOfLit : Expr → Option Ev
  | .lit "vaxis.FocusOut{}" => some .focusOut
  | .lit "vaxis.FocusIn{}" => some .focusIn
  | .lit "MouseEnter{}" => some .mouseEnter
  | .lit "MouseLeave{}" => some .mouseLeave
  | _ => none

def evBool (vm : VM) : Expr → Option Bool
  | .var "v0.consumeEvent" => some vm.s.consume
  | .bin "==" (.var "r.focused") (.var x) => (find vm.ids x).map (fun w => decide (vm.s.focused = w))
  | .var "true" => some true
  | .var "false" => some false
  | .var n => find vm.flags n
  | .un "!" a => (evBool vm a).map (fun x => !x)
  | .bin "!=" (.var x) (.var "nil") => find vm.flags x
  | .bin "==" (.var x) (.var "nil") => (find vm.flags x).map (fun b => !b)
  | .bin "==" (.var a) (.var b) =>
      match find vm.ids a, find vm.ids b with
      | some x, some y => some (decide (x = y))              -- two widgets
      | _, _ => do let x ← evInt vm (.var a); let y ← evInt vm (.var b); pure (decide (x = y))
  | .bin "==" a b => do let x ← evInt vm a; let y ← evInt vm b; pure (decide (x = y))
  | .bin ">=" a b => do let x ← evInt vm a; let y ← evInt vm b; pure (decide (x ≥ y))
  | .bin ">" a b => do let x ← evInt vm a; let y ← evInt vm b; pure (decide (x > y))
  | .bin "<" a b => do let x ← evInt vm a; let y ← evInt vm b; pure (decide (x < y))
  | _ => none

/-- One handler call: the trace entry and the call counter are the model's `call`; the error is the
    oracle's `failsAt` on the state before the call. -/
def doCall (e : EOracle) (vm : VM) (cmd err : String) (w : Id) (ev : Ev) (ph : Phase) : VM :=
  let r := call e.o vm.s w ev ph
  { vm with s := r.1, cmds := (cmd, r.2) :: vm.cmds, flags := (err, e.failsAt vm.s w ev ph) :: vm.flags }

def atom (e : EOracle) (fuel : Nat) (ev : Ev) (vm : VM) (l : Line) : Res :=
  match l.kind, l.e1, l.e2 with
  | .breakS, _, _ => some (vm, .brk)
  | .continueS, _, _ => some (vm, .cont)
  | .returnS, .var "nil", _ => some (vm, .ret false)
  | .returnS, .var x, _ => (find vm.flags x).map (fun b => (vm, .ret b))
  | .assign, .var "v0.consumeEvent", b => (evBool vm b).map (fun v => ({ vm with s := { vm.s with consume := v } }, .norm))
  | .define, .var x, .var "r.path" => some ({ vm with lists := (x, vm.s.path) :: vm.lists }, .norm)
  | .define, .pair (.var c) (.var ok), .arg (.arg (.call (.var "assert")) (.var w)) (.var "EventCapturer") =>
    (find vm.ids w).map (fun i => ({ (bindId vm c i) with flags := (ok, e.o.captures i) :: vm.flags }, .norm))
  | .define, .pair (.var cmd) (.var err), .arg (.call (.var fn)) (.var "v1") =>
    (recv vm fn "CaptureEvent").map (fun w => (doCall e vm cmd err w ev .capture, .norm))
  | .define, .pair (.var cmd) (.var err), .arg (.arg (.call (.var fn)) (.lit l)) ph =>
    match recv vm fn "HandleEvent", evOfLit (.lit l), phaseOf ph with
    | some w, some ev', some p => some (doCall e vm cmd err w ev' p, .norm)
    | _, _, _ => none
  | .assign, .var "r.focused", .var x =>
    (find vm.ids x).map (fun w => ({ vm with s := { vm.s with focused := w, trace := vm.s.trace ++ [.eff (.focusSet w)] } }, .norm))
  | .exprS, .call (.var "r.findPath"), _ => some ({ vm with s := (findPath vm.s).1 }, .norm)
  | .define, .pair (.var cmd) (.var err), .arg (.arg (.call (.var fn)) (.var "v1")) ph =>
    match recv vm fn "HandleEvent", phaseOf ph with
    | some w, some p => some (doCall e vm cmd err w ev p, .norm)
    | _, _ => none
  | .exprS, .arg (.call (.var "v0.handleCommand")) (.var c), _ =>
    (find vm.cmds c).map (fun cmd => ({ vm with s := eHandleCommand e fuel vm.s cmd }, .norm))
  | .assign, .var "r.lastHits", .lit "[]hitResult{}" => some ({ vm with s := { vm.s with lastHits := [] } }, .norm)
  | .assign, .var "r.lastHits", .arg (.arg (.call (.var "append")) (.var "r.lastHits")) (.lit "hitResult{v1:v1}") =>
    (find vm.ids "v1").map (fun w => ({ vm with s := { vm.s with lastHits := vm.s.lastHits ++ [⟨0, 0, w⟩] } }, .norm))
  | .assign, .var "r.mouse", .un "&" (.var "v1") =>
    match ev with
    | .mouse col row => some ({ vm with s := { vm.s with mouse := some (col, row) } }, .norm)
    | _ => none
  | .define, .var x, .arg (.arg (.call (.var "r.update")) (.var "v0")) (.var "r.lastFrame") =>
    let r := eMouseUpdate e fuel vm.s vm.s.lastFrame
    some ({ vm with s := r.1, flags := (x, r.2) :: vm.flags }, .norm)
  | .define, .var x, .index (.var l) i =>
    match evList vm l, evInt vm i with
    | some p, some iv => if iv < 0 then none else (p[iv.toNat]?).map (fun w => (bindId vm x w, .norm))
    | _, _ => none
  | .define, .var x, a => (evInt vm a).map (fun v => ({ vm with ints := (x, v) :: vm.ints }, .norm))
  | .subAssign, .var x, a =>
    match find vm.ints x, evInt vm a with
    | some c, some v => some ({ vm with ints := (x, c - v) :: vm.ints }, .norm)
    | _, _ => none
  | _, _, _ => none

def loopN (c : VM → Option Bool) (body post : Nat → VM → Res) : Nat → VM → Res
  | 0, _ => none
  | f + 1, vm =>
    match c vm with
    | none => none
    | some false => some (vm, .norm)
    | some true =>
      match body f vm with
      | none => none
      | some (vm', .brk) => some (vm', .norm)
      | some (vm', .ret b) => some (vm', .ret b)
      | some (vm', _) =>
        match post f vm' with
        | none => none
        | some (vm'', _) => loopN c body post f vm''

/-- `for _, v := range <list of widgets>`. -/
def rangeIds (v : String) (body : VM → Res) : List Id → VM → Res
  | [], vm => some (vm, .norm)
  | w :: ws, vm =>
    match body (bindId vm v w) with
    | none => none
    | some (vm', .brk) => some (vm', .norm)
    | some (vm', .ret b) => some (vm', .ret b)
    | some (vm', _) => rangeIds v body ws vm'

def exec (e : EOracle) (fuel : Nat) (ev : Ev) : Stmt → Nat → VM → Res
  | .skip, _, vm => some (vm, .norm)
  | .atom l, _, vm => atom e fuel ev vm l
  | .seq a b, f, vm =>
    match exec e fuel ev a f vm with
    | some (vm', .norm) => exec e fuel ev b f vm'
    | r => r
  | .ite c t el, f, vm =>
    match evBool vm c with
    | none => none
    | some true => exec e fuel ev t f vm
    | some false => exec e fuel ev el f vm
  | .loop c body post, f, vm => loopN (fun vm => evBool vm c) (exec e fuel ev body) (exec e fuel ev post) f vm
  | .rangeOver _ v (.var l) body, f, vm =>
    match evList vm l with
    | none => none
    | some ws => rangeIds v (exec e fuel ev body f) ws vm
  | _, _, _ => none

/-- `focusHandler.handleEvent(app, ev)` run from its body: the new state and the returned error
    (`lf` = fuel of the index loop). -/
def runFocusHandleEvent (body : Stmt) (e : EOracle) (fuel : Nat) (s : St) (ev : Ev) (lf : Nat) : Option (St × Bool) :=
  match exec e fuel ev body lf ⟨s, [], [], [], [], []⟩ with
  | some (vm, .ret b) => some (vm.s, b)
  | some (vm, _) => some (vm.s, false)
  | none => none

/-- `focusHandler.focusWidget(app, w)` run from its body (parameter `v1 = w`); `fuel` = the nesting budget of the
    `app.handleCommand` calls inside. -/
def runFocusWidget (body : Stmt) (e : EOracle) (fuel : Nat) (s : St) (w : Id) : Option (St × Bool) :=
  match exec e fuel .init body 1 (bindId ⟨s, [], [], [], [], []⟩ "v1" w) with
  | some (vm, .ret b) => some (vm.s, b)
  | some (vm, _) => some (vm.s, false)
  | none => none

/-- `mouseHandler.mouseExit(app)` run from its body (`lf` unused: no index loop). -/
def runMouseExit (body : Stmt) (e : EOracle) (fuel : Nat) (s : St) : Option (St × Bool) :=
  match exec e fuel .init body 1 ⟨s, [], [], [], [], []⟩ with
  | some (vm, .ret b) => some (vm.s, b)
  | some (vm, _) => some (vm.s, false)
  | none => none

/-- `mouseHandler.mouseEnter(app, w)` run from its body (parameter `v1 = w`). -/
def runMouseEnter (body : Stmt) (e : EOracle) (fuel : Nat) (s : St) (w : Id) : Option (St × Bool) :=
  runFocusWidget body e fuel s w

/-- `mouseHandler.handleEvent(app, mouse)` run from its body. -/
def runMouseHandleEvent (body : Stmt) (e : EOracle) (fuel : Nat) (s : St) (col row : Int) (lf : Nat) : Option (St × Bool) :=
  runFocusHandleEvent body e fuel s (.mouse col row) lf

end VaxisModel.Model.VxfwInterp
