/-
An interpreter for the body of `focusHandler.handleEvent` (vxfw/vxfw.go), run directly on its
regenerated syntax (`Gen/VxfwBodies.lean`, translated by `extract/cmd/C15/skel.go` into the syntax
of `Model/GoSyn.lean`, parsed into a statement tree by `Model/DynExec.parseBody`).

It executes what the body says: the assignment `app.consumeEvent = false`, the snapshot
`path := f.path`, the `range` loop over the snapshot with the type assertion
`c, ok := w.(EventCapturer)` and `continue`, the calls `c.CaptureEvent(ev)` /
`f.focused.HandleEvent(ev, TargetPhase)` / `w.HandleEvent(ev, BubblePhase)` (the widget's answer and
whether it fails come from the oracle of `Model/VxfwErr.lean`; the receiver `f.focused` is read when
the call is made), `if err != nil { return err }`, `app.handleCommand(cmd)` (the model's
`eHandleCommand`), `if app.consumeEvent { app.consumeEvent = false; return nil }`, and the index loop
`for i := len(path) - 2; i >= 0; i -= 1 { w := path[i] … }` with a CHECKED index expression.  The
value a `return` returns is part of the result (`true` = a non-nil error).
`Props/C15Body.lean` proves that the result is `eHandleEvent` — the function the routing theorems
are about — for every oracle, state and event.  Anything outside the subset is `none`.

Round 3 added the bodies of `mouseHandler.handleEvent`, `focusHandler.focusWidget`, `mouseHandler.mouseExit` /
`mouseEnter` to this first layer (`exec` / `atom`).  Round 4 adds a SECOND layer (`execX` / `atomX`, end of the file)
for `mouseHandler.update` (hit results as structs, nested `range` loops with a labelled `continue`),
`focusHandler.updatePath` and `App.handleCommand` (type switch, recursion on batches), and `bRun`: the `Run` loop
calling the interpreted bodies.
-/
import VaxisModel.Model.GoSyn
import VaxisModel.Model.DynExec
import VaxisModel.Model.VxfwErr

namespace VaxisModel.Model.VxfwInterp
open VaxisModel.Model.GoSyn VaxisModel.Model.Vxfw
open VaxisModel.Model.DynExec (Stmt)

/-- Locals by type. -/
structure VM where
  s     : St
  ints  : List (String × Int)
  ids   : List (String × Id)
  cmds  : List (String × Cmd)
  flags : List (String × Bool)        -- `ok` of a type assertion; an `error` (true = non-nil)
  lists : List (String × List Id)

inductive Ctl where
  | norm | brk | cont
  | ret (err : Bool)
deriving DecidableEq, Repr

abbrev Res := Option (VM × Ctl)

def find {α : Type} (l : List (String × α)) (n : String) : Option α :=
  match l with
  | [] => none
  | (k, v) :: r => if k = n then some v else find r n

/-- The widget a call's receiver denotes (`x.M` for a widget local `x`; `r.focused.M` = the widget
    focused now). -/
def recv (vm : VM) (fn meth : String) : Option Id :=
  if fn = "r.focused." ++ meth then some vm.s.focused else find vm.ids fn

def bindId (vm : VM) (x : String) (w : Id) : VM :=
  { vm with ids := (x, w) :: (x ++ ".CaptureEvent", w) :: (x ++ ".HandleEvent", w) ::
      (x ++ ".w", w) :: (x ++ ".w.CaptureEvent", w) :: (x ++ ".w.HandleEvent", w) :: vm.ids }

/-- A list of widgets: a local (the path snapshot), or the mouse handler's hit list `r.lastHits`, read
    when the expression is evaluated (a hit result is represented by its widget `.w`; its coordinates
    play no role in the dispatch). -/
def evList (vm : VM) (n : String) : Option (List Id) :=
  if n = "r.lastHits" then some (vm.s.lastHits.map (·.w)) else find vm.lists n

def phaseOf : Expr → Option Phase
  | .var "TargetPhase" => some .target
  | .var "BubblePhase" => some .bubble
  | .var "CapturePhase" => some .capture
  | _ => none

def evInt (vm : VM) : Expr → Option Int
  | .var n => find vm.ints n
  | .int n => some (n : Int)
  | .bin "-" a b => do let x ← evInt vm a; let y ← evInt vm b; pure (x - y)
  | .bin "+" a b => do let x ← evInt vm a; let y ← evInt vm b; pure (x + y)
  | .arg (.call (.var "len")) (.var l) => (evList vm l).map (fun x => (x.length : Int))
  | _ => none

def evOfLit : Expr → Option Ev
  | .lit "vaxis.FocusOut{}" => some .focusOut
  | .lit "vaxis.FocusIn{}" => some .focusIn
  | .lit "MouseEnter{}" => some .mouseEnter
  | .lit "MouseLeave{}" => some .mouseLeave
  | _ => none

def evBool (vm : VM) : Expr → Option Bool
  | .var "v0.consumeEvent" => some vm.s.consume
  | .bin "==" (.var "r.focused") (.var x) => (find vm.ids x).map (fun w => decide (vm.s.focused = w))
  | .var "true" => some true
  | .var "false" => some false
  | .var n => find vm.flags n
  | .un "!" a => (evBool vm a).map (fun x => !x)
  | .bin "!=" (.var x) (.var "nil") => find vm.flags x
  | .bin "==" (.var x) (.var "nil") => (find vm.flags x).map (fun b => !b)
  | .bin "==" (.var a) (.var b) =>
      match find vm.ids a, find vm.ids b with
      | some x, some y => some (decide (x = y))              -- two widgets
      | _, _ => do let x ← evInt vm (.var a); let y ← evInt vm (.var b); pure (decide (x = y))
  | .bin "==" a b => do let x ← evInt vm a; let y ← evInt vm b; pure (decide (x = y))
  | .bin ">=" a b => do let x ← evInt vm a; let y ← evInt vm b; pure (decide (x ≥ y))
  | .bin ">" a b => do let x ← evInt vm a; let y ← evInt vm b; pure (decide (x > y))
  | .bin "<" a b => do let x ← evInt vm a; let y ← evInt vm b; pure (decide (x < y))
  | _ => none

/-- One handler call: the trace entry and the call counter are the model's `call`; the error is the
    oracle's `failsAt` on the state before the call. -/
def doCall (e : EOracle) (vm : VM) (cmd err : String) (w : Id) (ev : Ev) (ph : Phase) : VM :=
  let r := call e.o vm.s w ev ph
  { vm with s := r.1, cmds := (cmd, r.2) :: vm.cmds, flags := (err, e.failsAt vm.s w ev ph) :: vm.flags }

def atom (e : EOracle) (fuel : Nat) (ev : Ev) (vm : VM) (l : Line) : Res :=
  match l.kind, l.e1, l.e2 with
  | .breakS, _, _ => some (vm, .brk)
  | .continueS, _, _ => some (vm, .cont)
  | .returnS, .var "nil", _ => some (vm, .ret false)
  | .returnS, .var x, _ => (find vm.flags x).map (fun b => (vm, .ret b))
  | .assign, .var "v0.consumeEvent", b => (evBool vm b).map (fun v => ({ vm with s := { vm.s with consume := v } }, .norm))
  | .define, .var x, .var "r.path" => some ({ vm with lists := (x, vm.s.path) :: vm.lists }, .norm)
  | .define, .pair (.var c) (.var ok), .arg (.arg (.call (.var "assert")) (.var w)) (.var "EventCapturer") =>
    (find vm.ids w).map (fun i => ({ (bindId vm c i) with flags := (ok, e.o.captures i) :: vm.flags }, .norm))
  | .define, .pair (.var cmd) (.var err), .arg (.call (.var fn)) (.var "v1") =>
    (recv vm fn "CaptureEvent").map (fun w => (doCall e vm cmd err w ev .capture, .norm))
  | .define, .pair (.var cmd) (.var err), .arg (.arg (.call (.var fn)) (.lit l)) ph =>
    match recv vm fn "HandleEvent", evOfLit (.lit l), phaseOf ph with
    | some w, some ev', some p => some (doCall e vm cmd err w ev' p, .norm)
    | _, _, _ => none
  | .assign, .var "r.focused", .var x =>
    (find vm.ids x).map (fun w => ({ vm with s := { vm.s with focused := w, trace := vm.s.trace ++ [.eff (.focusSet w)] } }, .norm))
  | .exprS, .call (.var "r.findPath"), _ => some ({ vm with s := (findPath vm.s).1 }, .norm)
  | .define, .pair (.var cmd) (.var err), .arg (.arg (.call (.var fn)) (.var "v1")) ph =>
    match recv vm fn "HandleEvent", phaseOf ph with
    | some w, some p => some (doCall e vm cmd err w ev p, .norm)
    | _, _ => none
  | .exprS, .arg (.call (.var "v0.handleCommand")) (.var c), _ =>
    (find vm.cmds c).map (fun cmd => ({ vm with s := eHandleCommand e fuel vm.s cmd }, .norm))
  | .assign, .var "r.lastHits", .lit "[]hitResult{}" => some ({ vm with s := { vm.s with lastHits := [] } }, .norm)
  | .assign, .var "r.lastHits", .arg (.arg (.call (.var "append")) (.var "r.lastHits")) (.lit "hitResult{v1:v1}") =>
    (find vm.ids "v1").map (fun w => ({ vm with s := { vm.s with lastHits := vm.s.lastHits ++ [⟨0, 0, w⟩] } }, .norm))
  | .assign, .var "r.mouse", .un "&" (.var "v1") =>
    match ev with
    | .mouse col row => some ({ vm with s := { vm.s with mouse := some (col, row) } }, .norm)
    | _ => none
  | .define, .var x, .arg (.arg (.call (.var "r.update")) (.var "v0")) (.var "r.lastFrame") =>
    let r := eMouseUpdate e fuel vm.s vm.s.lastFrame
    some ({ vm with s := r.1, flags := (x, r.2) :: vm.flags }, .norm)
  | .define, .var x, .index (.var l) i =>
    match evList vm l, evInt vm i with
    | some p, some iv => if iv < 0 then none else (p[iv.toNat]?).map (fun w => (bindId vm x w, .norm))
    | _, _ => none
  | .define, .var x, a => (evInt vm a).map (fun v => ({ vm with ints := (x, v) :: vm.ints }, .norm))
  | .subAssign, .var x, a =>
    match find vm.ints x, evInt vm a with
    | some c, some v => some ({ vm with ints := (x, c - v) :: vm.ints }, .norm)
    | _, _ => none
  | _, _, _ => none

def loopN (c : VM → Option Bool) (body post : Nat → VM → Res) : Nat → VM → Res
  | 0, _ => none
  | f + 1, vm =>
    match c vm with
    | none => none
    | some false => some (vm, .norm)
    | some true =>
      match body f vm with
      | none => none
      | some (vm', .brk) => some (vm', .norm)
      | some (vm', .ret b) => some (vm', .ret b)
      | some (vm', _) =>
        match post f vm' with
        | none => none
        | some (vm'', _) => loopN c body post f vm''

/-- `for _, v := range <list of widgets>`. -/
def rangeIds (v : String) (body : VM → Res) : List Id → VM → Res
  | [], vm => some (vm, .norm)
  | w :: ws, vm =>
    match body (bindId vm v w) with
    | none => none
    | some (vm', .brk) => some (vm', .norm)
    | some (vm', .ret b) => some (vm', .ret b)
    | some (vm', _) => rangeIds v body ws vm'

def exec (e : EOracle) (fuel : Nat) (ev : Ev) : Stmt → Nat → VM → Res
  | .skip, _, vm => some (vm, .norm)
  | .atom l, _, vm => atom e fuel ev vm l
  | .seq a b, f, vm =>
    match exec e fuel ev a f vm with
    | some (vm', .norm) => exec e fuel ev b f vm'
    | r => r
  | .ite c t el, f, vm =>
    match evBool vm c with
    | none => none
    | some true => exec e fuel ev t f vm
    | some false => exec e fuel ev el f vm
  | .loop c body post, f, vm => loopN (fun vm => evBool vm c) (exec e fuel ev body) (exec e fuel ev post) f vm
  | .rangeOver _ v (.var l) body, f, vm =>
    match evList vm l with
    | none => none
    | some ws => rangeIds v (exec e fuel ev body f) ws vm
  | _, _, _ => none

/-- `focusHandler.handleEvent(app, ev)` run from its body: the new state and the returned error
    (`lf` = fuel of the index loop). -/
def runFocusHandleEvent (body : Stmt) (e : EOracle) (fuel : Nat) (s : St) (ev : Ev) (lf : Nat) : Option (St × Bool) :=
  match exec e fuel ev body lf ⟨s, [], [], [], [], []⟩ with
  | some (vm, .ret b) => some (vm.s, b)
  | some (vm, _) => some (vm.s, false)
  | none => none

/-- `focusHandler.focusWidget(app, w)` run from its body (parameter `v1 = w`); `fuel` = the nesting budget of the
    `app.handleCommand` calls inside. -/
def runFocusWidget (body : Stmt) (e : EOracle) (fuel : Nat) (s : St) (w : Id) : Option (St × Bool) :=
  match exec e fuel .init body 1 (bindId ⟨s, [], [], [], [], []⟩ "v1" w) with
  | some (vm, .ret b) => some (vm.s, b)
  | some (vm, _) => some (vm.s, false)
  | none => none

/-- `mouseHandler.mouseExit(app)` run from its body (`lf` unused: no index loop). -/
def runMouseExit (body : Stmt) (e : EOracle) (fuel : Nat) (s : St) : Option (St × Bool) :=
  match exec e fuel .init body 1 ⟨s, [], [], [], [], []⟩ with
  | some (vm, .ret b) => some (vm.s, b)
  | some (vm, _) => some (vm.s, false)
  | none => none

/-- `mouseHandler.mouseEnter(app, w)` run from its body (parameter `v1 = w`). -/
def runMouseEnter (body : Stmt) (e : EOracle) (fuel : Nat) (s : St) (w : Id) : Option (St × Bool) :=
  runFocusWidget body e fuel s w

/-- `mouseHandler.handleEvent(app, mouse)` run from its body. -/
def runMouseHandleEvent (body : Stmt) (e : EOracle) (fuel : Nat) (s : St) (col row : Int) (lf : Nat) : Option (St × Bool) :=
  runFocusHandleEvent body e fuel s (.mouse col row) lf

/-! ## Round 4: `mouseHandler.update`, `focusHandler.updatePath`, `App.handleCommand`

A second layer over the interpreter above (which is left as it is: the execution lemmas of the five
dispatcher bodies are about it).  It adds what these three bodies need and falls back to `atom` /
`evBool` for everything else (handler calls, `if err != nil { return err }`, `app.handleCommand(cmd)`,
`return`):

* hit results as whole STRUCTS — `h1 == h2` in `update` compares column, row and widget —, lists of them
  (`hits := []hitResult{}`, `hits = hitTest(s, hits, uint16(m.mouse.Col), uint16(m.mouse.Row))` = the model's
  `hitTest` appended, `m.lastHits = hits`), surfaces (`ss := NewSubSurface(0, 0, s)`,
  `ss.containsPoint(m.mouse.Col, m.mouse.Row)` = the model's `containsPoint 0 0 w h`), `m.mouse == nil`;
* nested `range` loops with a LABELLED `continue L` (the translator resolves the label to the number of
  loops to leave: `Ctl`-value `contOut n`);
* `f.lastFrame = root` (in `updatePath` the receiver is the focus handler: the model's `fhFrame`),
  `if !f.findPath() { … }` (the call sets `f.path`), `_ = f.focusWidget(app, f.root)` (the model's
  `eFocusWidget`, error dropped);
* the type switch `switch cmd := cmd.(type)` over the dynamic type of a command value, `range cmd` over a
  `BatchCmd` / `[]Command`, the RECURSIVE call `a.handleCommand(c)` (runs the body again), the flag
  assignments, `a.fh.focusWidget(a, cmd)` with `if err != nil { log.Error(…); return }`, the calls into
  vaxis (`a.vx.SetTitle(string(cmd))` …: the effect `other k`).
-/

/-- The additional locals. -/
structure VX where
  hitl : List (String × List Hit) := []
  hit  : List (String × Hit) := []
  tree : List (String × STree) := []
  /-- what a recursive `a.handleCommand(c)` does -/
  self : St → Cmd → Option St := fun _ _ => none
  /-- the callees `f.findPath()`, `hitTest(s, hits, col, row)`, `ss.containsPoint(col, row)` (for `ss` = the surface at the
      origin), `f.focusWidget(app, w)`: by default the MODEL functions (`none` = `eFocusWidget e (fuel + 1)`); `Model/VxfwInterpAll.lean`
      plugs in the interpreters run on the callees' own bodies -/
  findPathF : St → Option (St × Bool) := fun s => some (findPath s)
  hitTestF : STree → List Hit → Int → Int → Option (List Hit) := fun t hs c r => some (hs ++ hitTest t c r)
  cpF : STree → Int → Int → Option Bool := fun t c r => some (containsPoint 0 0 t.w t.h c r)
  fwF : Option (St → Id → Option (St × Bool)) := none

structure VMX where
  vm : VM
  x  : VX

inductive CtlX where
  | norm | brk | cont
  | ret (err : Bool)
  | contOut (n : Nat)         -- a labelled `continue L` that still has to leave `n` loops
deriving DecidableEq, Repr

def liftCtl : Ctl → CtlX
  | .norm => .norm
  | .brk => .brk
  | .cont => .cont
  | .ret b => .ret b

abbrev ResX := Option (VMX × CtlX)

/-- Run a statement of the first layer. -/
def liftRes (m : VMX) (r : Res) : ResX := r.map (fun r => ({ m with vm := r.1 }, liftCtl r.2))

/-- A list of hit results as structs: `r.lastHits`, or a local (`hits`). -/
def evHits (m : VMX) (n : String) : Option (List Hit) :=
  if n = "r.lastHits" then some m.vm.s.lastHits else find m.x.hitl n

/-- Bind a hit-result local `x`: the struct, and its widget `x.w` as the receiver of a handler call. -/
def bindHit (m : VMX) (x : String) (h : Hit) : VMX :=
  { vm := { m.vm with ids := (x ++ ".w.HandleEvent", h.w) :: m.vm.ids },
    x := { m.x with hit := (x, h) :: m.x.hit } }

/-- Bind a surface local `x` (a `SubSurface` at origin (0,0) is its surface). -/
def bindTree (m : VMX) (x : String) (t : STree) : VMX :=
  { m with x := { m.x with tree := (x, t) :: (x ++ ".containsPoint", t) :: m.x.tree } }

/-- The dynamic type of a command value, as the `case` labels of `handleCommand`'s type switch spell it (the
    model's `other k` stands for the four commands that only call into vaxis). -/
def cmdType : Cmd → String
  | .nil => "nil"
  | .redraw => "RedrawCmd"
  | .refresh => "RefreshCmd"
  | .quit => "QuitCmd"
  | .consume => "ConsumeEventCmd"
  | .focus _ => "FocusWidgetCmd"
  | .debug => "DebugCmd"
  | .other k => if k % 4 = 0 then "SetTitleCmd" else if k % 4 = 1 then "SetMouseShapeCmd"
                else if k % 4 = 2 then "CopyToClipboardCmd" else "SendNotificationCmd"
  | .batch _ => "BatchCmd"
  | .slice _ => "[]Command"

def labelTok : Expr → String
  | .var s => s
  | .lit s => s
  | _ => "?"

/-- The observation recorded when the arm of a flag command is entered (`Model.Vxfw.execAtom` records one
    entry per command; the `DebugCmd` arm sets two flags). -/
def armEff : Cmd → List Entry
  | .redraw => [.eff .redraw]
  | .refresh => [.eff .refresh]
  | .quit => [.eff .quit]
  | .consume => [.eff .consume]
  | .debug => [.eff .debug]
  | _ => []

mutual
/-- Nesting depth of batches (= the recursion depth of `handleCommand` on itself). -/
def cmdDepth : Cmd → Nat
  | .batch l => cmdDepthL l + 1
  | .slice l => cmdDepthL l + 1
  | _ => 0
def cmdDepthL : List Cmd → Nat
  | [] => 0
  | c :: r => max (cmdDepth c) (cmdDepthL r)
end

def evBoolX (m : VMX) : Expr → Option Bool
  | .bin "==" (.var "r.mouse") (.var "nil") => some m.vm.s.mouse.isNone
  | .arg (.arg (.call (.var fn)) (.var "r.mouse.Col")) (.var "r.mouse.Row") =>      -- `ss.containsPoint(m.mouse.Col, m.mouse.Row)`
      match m.vm.s.mouse, find m.x.tree fn with
      | some (col, row), some t => m.x.cpF t col row
      | _, _ => none
  | .bin "==" (.var a) (.var b) =>
      match find m.x.hit a, find m.x.hit b with
      | some x, some y => some (decide (x = y))            -- two hit results (structs)
      | _, _ => evBool m.vm (.bin "==" (.var a) (.var b))
  | c => evBool m.vm c

def setS (m : VMX) (s : St) : VMX := { m with vm := { m.vm with s := s } }

/-- A call into vaxis with the payload of the command `c` (`SetTitle(string(cmd))` …): the effect `other k`. -/
def vxCall (m : VMX) (c : String) : ResX :=
  match find m.vm.cmds c with
  | some (.other k) => some (setS m { m.vm.s with trace := m.vm.s.trace ++ [.eff (.other k)] }, .norm)
  | _ => none

/-- `f.focusWidget(app, w)`: the plugged-in callee, or the model's `eFocusWidget e (fuel + 1)`. -/
def callFw (e : EOracle) (fuel : Nat) (fwF : Option (St → Id → Option (St × Bool))) (s : St) (w : Id) : Option (St × Bool) :=
  match fwF with
  | some f => f s w
  | none => some (eFocusWidget e (fuel + 1) s w)

def atomX (e : EOracle) (fuel : Nat) (ev : Ev) (m : VMX) (l : Line) : ResX :=
  match l.kind, l.e1, l.e2 with
  | .continueS, .var _, .int n => some (m, .contOut n)            -- `continue L`, `n` loops further out
  | .returnS, .none, _ => some (m, .ret false)
  -- `mouseHandler.update`
  | .define, .var x, .lit "[]hitResult{}" => some ({ m with x := { m.x with hitl := (x, []) :: m.x.hitl } }, .norm)
  | .define, .var x, .arg (.arg (.arg (.call (.var "NewSubSurface")) (.int 0)) (.int 0)) (.var t) =>
    (find m.x.tree t).map (fun tr => (bindTree m x tr, .norm))
  | .assign, .var x, .arg (.arg (.arg (.arg (.call (.var "hitTest")) (.var t)) (.var x'))
        (.arg (.call (.var "uint16")) (.var "r.mouse.Col"))) (.arg (.call (.var "uint16")) (.var "r.mouse.Row")) =>
    match find m.x.tree t, find m.x.hitl x', m.vm.s.mouse with
    | some tr, some hs, some (col, row) =>
      (m.x.hitTestF tr hs (u16 col) (u16 row)).map (fun hs' => ({ m with x := { m.x with hitl := (x, hs') :: m.x.hitl } }, .norm))
    | _, _, _ => none
  | .assign, .var "r.lastHits", .var x => (find m.x.hitl x).map (fun hs => (setS m { m.vm.s with lastHits := hs }, .norm))
  -- `focusHandler.updatePath` (`r.lastFrame` is the focus handler's frame there)
  | .assign, .var "r.lastFrame", .var t => (find m.x.tree t).map (fun tr => (setS m { m.vm.s with fhFrame := some tr }, .norm))
  | .assign, .var "_", .arg (.arg (.call (.var "r.focusWidget")) (.var "v0")) (.var "r.root") =>
    (callFw e fuel m.x.fwF m.vm.s m.vm.s.root).map (fun r => (setS m r.1, .norm))
  -- `App.handleCommand` (receiver `r` = the App)
  | .exprS, .arg (.call (.var "r.handleCommand")) (.var c), _ =>
    match find m.vm.cmds c with
    | some cmd => (m.x.self m.vm.s cmd).map (fun s' => (setS m s', .norm))
    | none => none
  | .assign, .var "r.redraw", .var "true" => some (setS m { m.vm.s with redraw := true }, .norm)
  | .assign, .var "r.refresh", .var "true" => some (setS m { m.vm.s with refresh := true }, .norm)
  | .assign, .var "r.shouldQuit", .var "true" => some (setS m { m.vm.s with quit := true }, .norm)
  | .assign, .var "r.consumeEvent", .var "true" => some (setS m { m.vm.s with consume := true }, .norm)
  | .assign, .var "r.debug", .var "true" => some (setS m { m.vm.s with debug := true }, .norm)
  | .define, .var x, .arg (.arg (.call (.var "r.fh.focusWidget")) (.var "r")) (.var c) =>
    match find m.vm.cmds c with
    | some (.focus w) =>
      (callFw e fuel m.x.fwF m.vm.s w).map (fun r => ({ m with vm := { m.vm with s := r.1, flags := (x, r.2) :: m.vm.flags } }, .norm))
    | _ => none
  | .exprS, .arg (.arg (.call (.var "log.Error")) _) _, _ => some (m, .norm)
  | .exprS, .arg (.call (.var "r.vx.SetMouseShape")) (.arg (.call (.var "vaxis.MouseShape")) (.var c)), _ => vxCall m c
  | .exprS, .arg (.call (.var "r.vx.SetTitle")) (.arg (.call (.var "string")) (.var c)), _ => vxCall m c
  | .exprS, .arg (.call (.var "r.vx.ClipboardPush")) (.arg (.call (.var "string")) (.var c)), _ => vxCall m c
  | .exprS, .arg (.arg (.call (.var "r.vx.Notify")) (.var "v1.Title")) (.var "v1.Body"), _ => vxCall m "v1"
  | _, _, _ => liftRes m (atom e fuel ev m.vm l)

/-- `for _, v := range <list of hit results>`, binding the whole struct. -/
def rangeHits (v : String) (body : VMX → ResX) : List Hit → VMX → ResX
  | [], m => some (m, .norm)
  | h :: hs, m =>
    match body (bindHit m v h) with
    | none => none
    | some (m', .brk) => some (m', .norm)
    | some (m', .ret b) => some (m', .ret b)
    | some (m', .contOut (n + 1)) => some (m', .contOut n)
    | some (m', _) => rangeHits v body hs m'

/-- `for _, v := range cmd` over the elements of a `BatchCmd` / `[]Command`. -/
def rangeCmds (v : String) (body : VMX → ResX) : List Cmd → VMX → ResX
  | [], m => some (m, .norm)
  | c :: cs, m =>
    match body { m with vm := { m.vm with cmds := (v, c) :: m.vm.cmds } } with
    | none => none
    | some (m', .brk) => some (m', .norm)
    | some (m', .ret b) => some (m', .ret b)
    | some (m', .contOut (n + 1)) => some (m', .contOut n)
    | some (m', _) => rangeCmds v body cs m'

def execX (e : EOracle) (fuel : Nat) (ev : Ev) : Stmt → VMX → ResX
  | .skip, m => some (m, .norm)
  | .atom l, m => atomX e fuel ev m l
  | .seq a b, m =>
    match execX e fuel ev a m with
    | some (m', .norm) => execX e fuel ev b m'
    | r => r
  | .ite (.un "!" (.call (.var "r.findPath"))) t el, m =>        -- `if !f.findPath() { … }`: the call sets `f.path`
    match m.x.findPathF m.vm.s with
    | none => none
    | some r => if r.2 then execX e fuel ev el (setS m r.1) else execX e fuel ev t (setS m r.1)
  | .ite c t el, m =>
    match evBoolX m c with
    | none => none
    | some true => execX e fuel ev t m
    | some false => execX e fuel ev el m
  | .rangeOver _ v (.var l) body, m =>
    match evHits m l with
    | some hs => rangeHits v (execX e fuel ev body) hs m
    | none =>
      match find m.vm.cmds l with
      | some (.batch cs) => rangeCmds v (execX e fuel ev body) cs m
      | some (.slice cs) => rangeCmds v (execX e fuel ev body) cs m
      | _ => none
  | .sw true (.lit "v1 := v0.(type)") cases, m =>               -- `switch cmd := cmd.(type)`
    match find m.vm.cmds "v0" with
    | none => none
    | some c =>
      match execX e fuel ev cases { m with vm := { m.vm with cmds := ("v1", c) :: m.vm.cmds } } with
      | some (m', .brk) => some (m', .norm)
      | r => r
  | .case label body rest, m =>
    match find m.vm.cmds "v1" with
    | none => none
    | some c =>
      if labelTok label = cmdType c then
        execX e fuel ev body (setS m { m.vm.s with trace := m.vm.s.trace ++ armEff c })
      else execX e fuel ev rest m
  | _, _ => none

def vm0 (s : St) : VM := ⟨s, [], [], [], [], []⟩

/-- `mouseHandler.update(app, s)` run from its body (parameter `v1 = s`, the surface). -/
def runMouseUpdate (body : Stmt) (e : EOracle) (fuel : Nat) (s : St) (t : STree) : Option (St × Bool) :=
  match execX e fuel .init body (bindTree ⟨vm0 s, {}⟩ "v1" t) with
  | some (m, .ret b) => some (m.vm.s, b)
  | some (m, _) => some (m.vm.s, false)
  | none => none

/-- `focusHandler.updatePath(app, root)` run from its body (parameter `v1 = root`, the surface); `fuel` = the nesting
    budget of the `app.handleCommand` calls inside the best-effort `focusWidget`. -/
def runUpdatePath (body : Stmt) (e : EOracle) (fuel : Nat) (s : St) (t : STree) : Option St :=
  match execX e fuel .init body (bindTree ⟨vm0 s, {}⟩ "v1" t) with
  | some (m, _) => some m.vm.s
  | none => none

/-- `App.handleCommand(cmd)` run from its body (parameter `v0 = cmd`); the recursive `a.handleCommand(c)` of the two
    batch arms runs the body again (`d` bounds that recursion; `runHandleCommand` gives it the nesting depth of the
    command); `a.fh.focusWidget(a, cmd)` is the model's `eFocusWidget e (fuel + 1)` (the `handleCommand`s nested in it
    have budget `fuel`). -/
def runHandleCommandD (body : Stmt) (e : EOracle) (fuel : Nat) : Nat → St → Cmd → Option St
  | 0, _, _ => none
  | d + 1, s, c =>
    match execX e fuel .init body ⟨⟨s, [], [], [("v0", c)], [], []⟩, { self := runHandleCommandD body e fuel d }⟩ with
    | some (m, _) => some m.vm.s
    | none => none

def runHandleCommand (body : Stmt) (e : EOracle) (fuel : Nat) (s : St) (c : Cmd) : Option St :=
  runHandleCommandD body e fuel (cmdDepth c + 1) s c

/-! ## The `Run` loop over the interpreted bodies

`Model.Vxfw.eRun` with every handler function it calls replaced by the interpreter run on that function's body:
the event switch and the frame step of `App.Run` stay transcribed (`Model/VxfwErr.lean`), the seven functions they
call are executed from syntax (inside them `app.handleCommand` / `m.update` / `f.focusWidget` are the model functions,
which the body theorems of `handleCommand`, `update`, `focusWidget` identify with their bodies one level down). -/

structure Bodies where
  focusHandleEvent : Stmt
  mouseHandleEvent : Stmt
  mouseUpdate : Stmt
  mouseExit : Stmt
  mouseEnter : Stmt
  updatePath : Stmt

/-- Loop fuel for the index loop of `mouseHandler.handleEvent`: the hit list after `update` is the old one or the new one. -/
def mouseLoopFuel (s : St) (c r : Int) : Nat := s.lastHits.length + (hitsAt s.lastFrame c r).length + 1

/-- The event switch; nesting budget `fuel + 1`. -/
def bRunEvent (B : Bodies) (e : EOracle) (fuel : Nat) (s : St) : RunEv → Option (St × Bool)
  | .resize => some ({ s with redraw := true }, false)
  | .mouse c r => runMouseHandleEvent B.mouseHandleEvent e (fuel + 1) s c r (mouseLoopFuel s c r)
  | .focusIn => runMouseEnter B.mouseEnter e (fuel + 1) s s.root
  | .focusOut => runMouseExit B.mouseExit e (fuel + 1) { s with mouse := none }
  | .key k => runFocusHandleEvent B.focusHandleEvent e (fuel + 1) s (.key k) (s.path.length + 1)
  | .redraw => some ({ s with redraw := true }, false)
  | .other k => runFocusHandleEvent B.focusHandleEvent e (fuel + 1) s (.custom k) (s.path.length + 1)

/-- The timer arm (`eRunFrame`) with `mh.update` and `a.fh.updatePath` run from their bodies. -/
def bRunFrame (B : Bodies) (e : EOracle) (fuel : Nat) (s : St) (t1 t2 : STree) : Option (St × Bool) :=
  if !s.redraw then some (s, false) else
  let s := { s with redraw := false, trace := s.trace ++ [.draw] }
  match runMouseUpdate B.mouseUpdate e (fuel + 1) s t1 with
  | none => none
  | some x =>
    if x.2 then some x else
    let s := x.1
    let r : St × STree :=
      if s.redraw then ({ s with redraw := false, trace := s.trace ++ [.draw] }, t2) else (s, t1)
    let t := sortTree r.2
    let s := { r.1 with refresh := false, debug := false }
    match runUpdatePath B.updatePath e fuel s t with
    | none => none
    | some s => some ({ s with lastFrame := t }, false)

def bRunInit (B : Bodies) (e : EOracle) (fuel : Nat) (root : Id) (t : STree) : Option (St × Bool) :=
  match runFocusHandleEvent B.focusHandleEvent e (fuel + 1) (St.init root) .init 2 with
  | none => none
  | some r => if r.2 then some r else some ({ r.1 with trace := r.1.trace ++ [.draw], lastFrame := t }, false)

def bRunStep (B : Bodies) (e : EOracle) (fuel : Nat) (s : St) : Step → Option (St × Bool)
  | .ev ev => bRunEvent B e fuel s ev
  | .frame t1 t2 => bRunFrame B e fuel s t1 t2

def bRunSteps (B : Bodies) (e : EOracle) (fuel : Nat) : St → List Step → Option (St × Bool)
  | s, [] => some (s, false)
  | s, st :: rest =>
    match bRunStep B e fuel s st with
    | none => none
    | some r =>
      if r.2 then some r else
      match st with
      | .ev _ => if r.1.quit then some r else bRunSteps B e fuel r.1 rest
      | .frame _ _ => bRunSteps B e fuel r.1 rest

/-- `App.Run` over the interpreted bodies. -/
def bRun (B : Bodies) (e : EOracle) (fuel : Nat) (root : Id) (t0 : STree) (steps : List Step) : Option (St × Bool) :=
  match bRunInit B e fuel root t0 with
  | none => none
  | some r => if r.2 then some r else bRunSteps B e fuel r.1 steps

end VaxisModel.Model.VxfwInterp
