/-
C15, round 4: the second interpreter layer of `Model/VxfwInterp.lean` with its callees INTERPRETED too.

`runMouseUpdateAll`  — `mouseHandler.update` from its body, with `hitTest(…)` and `ss.containsPoint(…)` run from THEIR bodies
                        (`Model/VxfwInterpTree.lean`);
`runUpdatePathAll`   — `focusHandler.updatePath` from its body, with `f.findPath()` run from its body (which runs `childHasFocus` from
                        its body) and `f.focusWidget(app, f.root)` run from its body (first layer of `Model/VxfwInterp.lean`);
`runHandleCommandAll` — `App.handleCommand` from its body, recursive on batches, with `a.fh.focusWidget(a, cmd)` run from its body.
Inside the `focusWidget` body the two `app.handleCommand(cmd)` calls are the model's `eHandleCommand e fuel` — by
`handle_command_bodies_eq_model` at the next lower budget that is again the interpreted body, and so on down to budget 0.
Core Lean only.
-/
import VaxisModel.Model.VxfwInterp
import VaxisModel.Model.VxfwInterpTree

namespace VaxisModel.Model.VxfwInterp
open VaxisModel.Model.GoSyn VaxisModel.Model.Vxfw
open VaxisModel.Model.DynExec (Stmt)

/-- The bodies of the callees. -/
structure Callees where
  hitTest : Stmt
  containsPoint : List Line
  findPath : Stmt
  childHasFocus : Stmt
  focusWidget : Stmt

/-- The plugged-in callees: every one of them an interpreter run on the callee's own body. -/
def calleesVX (C : Callees) (e : EOracle) (fuel : Nat) : VX :=
  { findPathF := fun s => (VxfwInterpTree.runFindPath C.findPath C.childHasFocus s.focused s.root s.fhFrame).map
      (fun r => ({ s with path := r.1 }, r.2)),
    hitTestF := VxfwInterpTree.runHitTest C.hitTest C.containsPoint,
    cpF := fun t c r => VxfwInterpTree.runContainsPoint C.containsPoint (0, 0, 0, t) c r,
    fwF := some (runFocusWidget C.focusWidget e fuel) }

/-- The run functions of the second layer with arbitrary plugged-in callees `x0`. -/
def runMouseUpdateX (body : Stmt) (x0 : VX) (e : EOracle) (fuel : Nat) (s : St) (t : STree) : Option (St × Bool) :=
  match execX e fuel .init body (bindTree ⟨vm0 s, x0⟩ "v1" t) with
  | some (m, .ret b) => some (m.vm.s, b)
  | some (m, _) => some (m.vm.s, false)
  | none => none

def runUpdatePathX (body : Stmt) (x0 : VX) (e : EOracle) (fuel : Nat) (s : St) (t : STree) : Option St :=
  match execX e fuel .init body (bindTree ⟨vm0 s, x0⟩ "v1" t) with
  | some (m, _) => some m.vm.s
  | none => none

def runHandleCommandXD (body : Stmt) (x0 : VX) (e : EOracle) (fuel : Nat) : Nat → St → Cmd → Option St
  | 0, _, _ => none
  | d + 1, s, c =>
    match execX e fuel .init body ⟨⟨s, [], [], [("v0", c)], [], []⟩, { x0 with self := runHandleCommandXD body x0 e fuel d }⟩ with
    | some (m, _) => some m.vm.s
    | none => none

def runMouseUpdateAll (body : Stmt) (C : Callees) (e : EOracle) (fuel : Nat) (s : St) (t : STree) : Option (St × Bool) :=
  runMouseUpdateX body (calleesVX C e fuel) e fuel s t

def runUpdatePathAll (body : Stmt) (C : Callees) (e : EOracle) (fuel : Nat) (s : St) (t : STree) : Option St :=
  runUpdatePathX body (calleesVX C e fuel) e fuel s t

def runHandleCommandAll (body : Stmt) (C : Callees) (e : EOracle) (fuel : Nat) (s : St) (c : Cmd) : Option St :=
  runHandleCommandXD body (calleesVX C e fuel) e fuel (cmdDepth c + 1) s c

/-! ### the `Run` loop with the frame step's callees interpreted down to the handler calls -/

/-- `bRunFrame` with `mh.update` and `a.fh.updatePath` run from their bodies WITH their callees run from theirs. -/
def bRunFrameAll (B : Bodies) (C : Callees) (e : EOracle) (fuel : Nat) (s : St) (t1 t2 : STree) : Option (St × Bool) :=
  if !s.redraw then some (s, false) else
  let s := { s with redraw := false, trace := s.trace ++ [.draw] }
  match runMouseUpdateAll B.mouseUpdate C e (fuel + 1) s t1 with
  | none => none
  | some x =>
    if x.2 then some x else
    let s := x.1
    let r : St × STree :=
      if s.redraw then ({ s with redraw := false, trace := s.trace ++ [.draw] }, t2) else (s, t1)
    let t := sortTree r.2
    let s := { r.1 with refresh := false, debug := false }
    match runUpdatePathAll B.updatePath C e fuel s t with
    | none => none
    | some s => some ({ s with lastFrame := t }, false)

def bRunStepAll (B : Bodies) (C : Callees) (e : EOracle) (fuel : Nat) (s : St) : Step → Option (St × Bool)
  | .ev ev => bRunEvent B e fuel s ev
  | .frame t1 t2 => bRunFrameAll B C e fuel s t1 t2

def bRunStepsAll (B : Bodies) (C : Callees) (e : EOracle) (fuel : Nat) : St → List Step → Option (St × Bool)
  | s, [] => some (s, false)
  | s, st :: rest =>
    match bRunStepAll B C e fuel s st with
    | none => none
    | some r =>
      if r.2 then some r else
      match st with
      | .ev _ => if r.1.quit then some r else bRunStepsAll B C e fuel r.1 rest
      | .frame _ _ => bRunStepsAll B C e fuel r.1 rest

/-- `App.Run` over the interpreted bodies, the frame step's callees (`hitTest`, `containsPoint`, `findPath`, `childHasFocus`,
    `focusWidget`) interpreted too. -/
def bRunAll (B : Bodies) (C : Callees) (e : EOracle) (fuel : Nat) (root : Id) (t0 : STree) (steps : List Step) : Option (St × Bool) :=
  match bRunInit B e fuel root t0 with
  | none => none
  | some r => if r.2 then some r else bRunStepsAll B C e fuel r.1 steps

end VaxisModel.Model.VxfwInterp
