/-
C15, round 4: the second interpreter layer of `Model/VxfwInterp.lean` with its callees INTERPRETED too.

`runMouseUpdateAll`  — `mouseHandler.update` from its body, with `hitTest(…)` and `ss.containsPoint(…)` run from THEIR bodies
                        (`Model/VxfwInterpTree.lean`);
`runUpdatePathAll`   — `focusHandler.updatePath` from its body, with `f.findPath()` run from its body (which runs `childHasFocus` from
                        its body) and `f.focusWidget(app, f.root)` run from its body (first layer of `Model/VxfwInterp.lean`);
`runHandleCommandAll` — `App.handleCommand` from its body, recursive on batches, with `a.fh.focusWidget(a, cmd)` run from its body.
Inside the `focusWidget` body the two `app.handleCommand(cmd)` calls are the model's `eHandleCommand e fuel` — by
`handle_command_bodies_eq_model` at the next lower budget that is again the interpreted body, and so on down to budget 0.
Core Lean only.
-/
import VaxisModel.Model.VxfwInterp
import VaxisModel.Model.VxfwInterpTree

namespace VaxisModel.Model.VxfwInterp
open VaxisModel.Model.GoSyn VaxisModel.Model.Vxfw
open VaxisModel.Model.DynExec (Stmt)

/-- The bodies of the callees. -/
structure Callees where
  hitTest : Stmt
  containsPoint : List Line
  findPath : Stmt
  childHasFocus : Stmt
  focusWidget : Stmt

/-- The plugged-in callees: every one of them an interpreter run on the callee's own body. -/
def calleesVX (C : Callees) (e : EOracle) (fuel : Nat) : VX :=
  { findPathF := fun s => (VxfwInterpTree.runFindPath C.findPath C.childHasFocus s.focused s.root s.fhFrame).map
      (fun r => ({ s with path := r.1 }, r.2)),
    hitTestF := VxfwInterpTree.runHitTest C.hitTest C.containsPoint,
    cpF := fun t c r => VxfwInterpTree.runContainsPoint C.containsPoint (0, 0, 0, t) c r,
    fwF := some (runFocusWidget C.focusWidget e fuel) }

/-- The run functions of the second layer with arbitrary plugged-in callees `x0`. -/
def runMouseUpdateX (body : Stmt) (x0 : VX) (e : EOracle) (fuel : Nat) (s : St) (t : STree) : Option (St × Bool) :=
  match execX e fuel .init body (bindTree ⟨vm0 s, x0⟩ "v1" t) with
  | some (m, .ret b) => some (m.vm.s, b)
  | some (m, _) => some (m.vm.s, false)
  | none => none

def runUpdatePathX (body : Stmt) (x0 : VX) (e : EOracle) (fuel : Nat) (s : St) (t : STree) : Option St :=
  match execX e fuel .init body (bindTree ⟨vm0 s, x0⟩ "v1" t) with
  | some (m, _) => some m.vm.s
  | none => none

def runHandleCommandXD (body : Stmt) (x0 : VX) (e : EOracle) (fuel : Nat) : Nat → St → Cmd → Option St
  | 0, _, _ => none
  | d + 1, s, c =>
    match execX e fuel .init body ⟨⟨s, [], [], [("v0", c)], [], []⟩, { x0 with self := runHandleCommandXD body x0 e fuel d }⟩ with
    | some (m, _) => some m.vm.s
    | none => none

def runMouseUpdateAll (body : Stmt) (C : Callees) (e : EOracle) (fuel : Nat) (s : St) (t : STree) : Option (St × Bool) :=
  runMouseUpdateX body (calleesVX C e fuel) e fuel s t

def runUpdatePathAll (body : Stmt) (C : Callees) (e : EOracle) (fuel : Nat) (s : St) (t : STree) : Option St :=
  runUpdatePathX body (calleesVX C e fuel) e fuel s t

def runHandleCommandAll (body : Stmt) (C : Callees) (e : EOracle) (fuel : Nat) (s : St) (c : Cmd) : Option St :=
  runHandleCommandXD body (calleesVX C e fuel) e fuel (cmdDepth c + 1) s c

end VaxisModel.Model.VxfwInterp
