/-
C15, round 4: closing the knot.  The first interpreter layer of `Model/VxfwInterp.lean` (`exec` / `atom`: the bodies of
`focusHandler.handleEvent`, `mouseHandler.handleEvent`, `focusWidget`, `mouseExit`, `mouseEnter`) calls the MODEL functions for
`app.handleCommand(cmd)`, `m.update(app, m.lastFrame)` and `f.findPath()`.  `exec1` is the same interpreter with these three callees
as PARAMETERS (`K1`); every other statement is executed by `atom` unchanged.  `kHandleCommand` / `kFocusWidget` then tie the knot
`handleCommand → focusWidget → handler → handleCommand` by recursion on the nesting budget: at budget `n + 1` the body of
`App.handleCommand` runs with `a.fh.focusWidget(a, cmd)` = the body of `focusWidget` run with `app.handleCommand(cmd)` = the knot at
budget `n` and `f.findPath()` = the body of `findPath` (→ `childHasFocus`); at budget 0 the model gives up (`stuck`; in Go the
recursion is bounded by the stack only).  No model function of the dispatch is left inside.  Core Lean only.
-/
import VaxisModel.Model.VxfwInterpRun

namespace VaxisModel.Model.VxfwInterp
open VaxisModel.Model.GoSyn VaxisModel.Model.Vxfw
open VaxisModel.Model.DynExec (Stmt)

/-- The callees of the first layer. -/
structure K1 where
  hc  : St → Cmd → Option St
  upd : St → STree → Option (St × Bool)
  fp  : St → Option (St × Bool)

def atom1 (K : K1) (e : EOracle) (fuel : Nat) (ev : Ev) (vm : VM) (l : Line) : Res :=
  match l.kind, l.e1, l.e2 with
  | .exprS, .arg (.call (.var "v0.handleCommand")) (.var c), _ =>
    match find vm.cmds c with
    | some cmd => (K.hc vm.s cmd).map (fun s' => ({ vm with s := s' }, .norm))
    | none => none
  | .define, .var x, .arg (.arg (.call (.var "r.update")) (.var "v0")) (.var "r.lastFrame") =>
    (K.upd vm.s vm.s.lastFrame).map (fun r => ({ vm with s := r.1, flags := (x, r.2) :: vm.flags }, .norm))
  | .exprS, .call (.var "r.findPath"), _ => (K.fp vm.s).map (fun r => ({ vm with s := r.1 }, .norm))
  | _, _, _ => atom e fuel ev vm l

/-- `exec` with `atom1`. -/
def exec1 (K : K1) (e : EOracle) (fuel : Nat) (ev : Ev) : Stmt → Nat → VM → Res
  | .skip, _, vm => some (vm, .norm)
  | .atom l, _, vm => atom1 K e fuel ev vm l
  | .seq a b, f, vm =>
    match exec1 K e fuel ev a f vm with
    | some (vm', .norm) => exec1 K e fuel ev b f vm'
    | r => r
  | .ite c t el, f, vm =>
    match evBool vm c with
    | none => none
    | some true => exec1 K e fuel ev t f vm
    | some false => exec1 K e fuel ev el f vm
  | .loop c body post, f, vm => loopN (fun vm => evBool vm c) (exec1 K e fuel ev body) (exec1 K e fuel ev post) f vm
  | .rangeOver _ v (.var l) body, f, vm =>
    match evList vm l with
    | none => none
    | some ws => rangeIds v (exec1 K e fuel ev body f) ws vm
  | _, _, _ => none

def fin (r : Res) : Option (St × Bool) :=
  match r with
  | some (vm, .ret b) => some (vm.s, b)
  | some (vm, _) => some (vm.s, false)
  | none => none

def runFocusHandleEvent1 (K : K1) (body : Stmt) (e : EOracle) (fuel : Nat) (s : St) (ev : Ev) (lf : Nat) : Option (St × Bool) :=
  fin (exec1 K e fuel ev body lf ⟨s, [], [], [], [], []⟩)

def runFocusWidget1 (K : K1) (body : Stmt) (e : EOracle) (fuel : Nat) (s : St) (w : Id) : Option (St × Bool) :=
  fin (exec1 K e fuel .init body 1 (bindId ⟨s, [], [], [], [], []⟩ "v1" w))

def runMouseExit1 (K : K1) (body : Stmt) (e : EOracle) (fuel : Nat) (s : St) : Option (St × Bool) :=
  fin (exec1 K e fuel .init body 1 ⟨s, [], [], [], [], []⟩)

def runMouseEnter1 (K : K1) (body : Stmt) (e : EOracle) (fuel : Nat) (s : St) (w : Id) : Option (St × Bool) :=
  runFocusWidget1 K body e fuel s w

def runMouseHandleEvent1 (K : K1) (body : Stmt) (e : EOracle) (fuel : Nat) (s : St) (col row : Int) (lf : Nat) : Option (St × Bool) :=
  runFocusHandleEvent1 K body e fuel s (.mouse col row) lf

/-- All the bodies. -/
structure AllBodies where
  B : Bodies
  C : Callees
  handleCommand : Stmt
  evArm : Stmt
  frArm : Stmt

/-- `f.findPath()` from its body, as a state transformer. -/
def iFindPath (A : AllBodies) (s : St) : Option (St × Bool) :=
  (VxfwInterpTree.runFindPath A.C.findPath A.C.childHasFocus s.focused s.root s.fhFrame).map (fun r => ({ s with path := r.1 }, r.2))

/-- **The knot**: `App.handleCommand` at nesting budget `n`, nothing but executed bodies inside.  At budget `n + 1` the callee
    `a.fh.focusWidget(a, cmd)` is the body of `focusWidget` whose `app.handleCommand(cmd)` calls are the knot at budget `n`. -/
def kHandleCommand (A : AllBodies) (e : EOracle) : Nat → St → Cmd → Option St
  | 0, s, _ => some { s with stuck := true }
  | n + 1, s, c =>
    runHandleCommandXD A.handleCommand
      { fwF := some (fun s w => runFocusWidget1 ⟨kHandleCommand A e n, fun _ _ => none, iFindPath A⟩ A.C.focusWidget e n s w),
        findPathF := iFindPath A } e n (cmdDepth c + 1) s c

/-- `focusHandler.focusWidget` whose nested `handleCommand` calls have budget `n`. -/
def kFocusWidget (A : AllBodies) (e : EOracle) (n : Nat) (s : St) (w : Id) : Option (St × Bool) :=
  runFocusWidget1 ⟨kHandleCommand A e n, fun _ _ => none, iFindPath A⟩ A.C.focusWidget e n s w

/-- The second layer with `app.handleCommand(cmd)` as a PARAMETER (in `mouseHandler.update` the two hover-notification loops call
    it); every other statement is executed by `atomX` unchanged. -/
def atomX1 (hc : St → Cmd → Option St) (e : EOracle) (fuel : Nat) (ev : Ev) (m : VMX) (l : Line) : ResX :=
  match l.kind, l.e1, l.e2 with
  | .exprS, .arg (.call (.var "v0.handleCommand")) (.var c), _ =>
    match find m.vm.cmds c with
    | some cmd => (hc m.vm.s cmd).map (fun s' => (setS m s', .norm))
    | none => none
  | _, _, _ => atomX e fuel ev m l

/-- `execX` with `atomX1`. -/
def execX1 (hc : St → Cmd → Option St) (e : EOracle) (fuel : Nat) (ev : Ev) : Stmt → VMX → ResX
  | .skip, m => some (m, .norm)
  | .atom l, m => atomX1 hc e fuel ev m l
  | .seq a b, m =>
    match execX1 hc e fuel ev a m with
    | some (m', .norm) => execX1 hc e fuel ev b m'
    | r => r
  | .ite (.un "!" (.call (.var "r.findPath"))) t el, m =>
    match m.x.findPathF m.vm.s with
    | none => none
    | some r => if r.2 then execX1 hc e fuel ev el (setS m r.1) else execX1 hc e fuel ev t (setS m r.1)
  | .ite c t el, m =>
    match evBoolX m c with
    | none => none
    | some true => execX1 hc e fuel ev t m
    | some false => execX1 hc e fuel ev el m
  | .rangeOver _ v (.var l) body, m =>
    match evHits m l with
    | some hs => rangeHits v (execX1 hc e fuel ev body) hs m
    | none =>
      match find m.vm.cmds l with
      | some (.batch cs) => rangeCmds v (execX1 hc e fuel ev body) cs m
      | some (.slice cs) => rangeCmds v (execX1 hc e fuel ev body) cs m
      | _ => none
  | .sw true (.lit "v1 := v0.(type)") cases, m =>
    match find m.vm.cmds "v0" with
    | none => none
    | some c =>
      match execX1 hc e fuel ev cases { m with vm := { m.vm with cmds := ("v1", c) :: m.vm.cmds } } with
      | some (m', .brk) => some (m', .norm)
      | r => r
  | .case label body rest, m =>
    match find m.vm.cmds "v1" with
    | none => none
    | some c =>
      if labelTok label = cmdType c then
        execX1 hc e fuel ev body (setS m { m.vm.s with trace := m.vm.s.trace ++ armEff c })
      else execX1 hc e fuel ev rest m
  | _, _ => none

/-- `mouseHandler.update` from its body with `hitTest` / `containsPoint` from theirs and `app.handleCommand` = `hc`. -/
def runMouseUpdateK (hc : St → Cmd → Option St) (body : Stmt) (C : Callees) (e : EOracle) (fuel : Nat) (s : St) (t : STree) :
    Option (St × Bool) :=
  match execX1 hc e fuel .init body (bindTree ⟨vm0 s, calleesVX C e fuel⟩ "v1" t) with
  | some (m, .ret b) => some (m.vm.s, b)
  | some (m, _) => some (m.vm.s, false)
  | none => none

/-- The callees of the first layer at nesting budget `F`: the knot, `m.update` from its body (with `hitTest` / `containsPoint` from
    theirs and `app.handleCommand` = the knot), `f.findPath` from its body. -/
def kK1 (A : AllBodies) (e : EOracle) (F : Nat) : K1 :=
  ⟨kHandleCommand A e F, fun s t => runMouseUpdateK (kHandleCommand A e F) A.B.mouseUpdate A.C e F s t, iFindPath A⟩

/-- What the two arms of `Run` call, with the knot inside (budget `fuel + 1`). -/
def kCallees (A : AllBodies) (e : EOracle) (fuel : Nat) : RCallees :=
  { mouseHE := fun s c r => runMouseHandleEvent1 (kK1 A e (fuel + 1)) A.B.mouseHandleEvent e (fuel + 1) s c r (mouseLoopFuel s c r),
    mouseEnter := fun s w => runMouseEnter1 (kK1 A e (fuel + 1)) A.B.mouseEnter e (fuel + 1) s w,
    mouseExit := fun s => runMouseExit1 (kK1 A e (fuel + 1)) A.B.mouseExit e (fuel + 1) s,
    focusHE := fun s ev => runFocusHandleEvent1 (kK1 A e (fuel + 1)) A.B.focusHandleEvent e (fuel + 1) s ev (s.path.length + 1),
    update := fun s t => runMouseUpdateK (kHandleCommand A e (fuel + 1)) A.B.mouseUpdate A.C e (fuel + 1) s t,
    updatePath := fun s t => runUpdatePathX A.B.updatePath { fwF := some (kFocusWidget A e fuel), findPathF := iFindPath A } e fuel s t }

/-- The prologue of `Run` (transcribed): focus handler initialised, `Init{}` dispatched by the executed `handleEvent` body with the
    knot inside, first layout. -/
def kRunInit (A : AllBodies) (e : EOracle) (fuel : Nat) (root : Id) (t : STree) : Option (St × Bool) :=
  match runFocusHandleEvent1 (kK1 A e (fuel + 1)) A.B.focusHandleEvent e (fuel + 1) (St.init root) .init 2 with
  | none => none
  | some r => if r.2 then some r else some ({ r.1 with trace := r.1.trace ++ [.draw], lastFrame := t }, false)

/-- **`App.Run` with no model function of the dispatch inside**: the prologue, then the loop over the two executed arms of the
    `select`, every function they reach executed from its regenerated body (the knot `handleCommand ↔ focusWidget` unrolled to the
    nesting budget).  What is not executed syntax: the `select` / channel / timer, the prologue's three statements, the widgets'
    `Draw` (oracle trees) and `sort.Slice` (`sortTree`). -/
def kRun (A : AllBodies) (e : EOracle) (fuel : Nat) (root : Id) (t0 : STree) (steps : List Step) : Option (St × Bool) :=
  match kRunInit A e fuel root t0 with
  | none => none
  | some r => if r.2 then some r else rRunSteps A.evArm A.frArm (kCallees A e fuel) r.1 steps

end VaxisModel.Model.VxfwInterp
