/-
C15, round 4: an interpreter for the two arms of the `select` in `App.Run` (vxfw/vxfw.go), run on their regenerated statement
lists (`Gen/VxfwBodies.lean`: `runEventBlock` = the body of `case ev := <-a.vx.Events()`, i.e. the type switch over the event
and the `shouldQuit` test; `runFrameBlock` = the body of `case <-time.After(8ms)`, the frame step).  The `select`, the channel
receive, the timer, `defer a.vx.Close()` and the prologue of `Run` are NOT in the translated subset (the prologue stays the
transcribed `bRunInit`).

What it executes: the type switch over the dynamic type of the event (`default` = no other arm matches), the flag assignments,
`mh.mouse = nil`, the calls `mh.handleEvent(a, ev)`, `mh.mouseEnter(a, w)`, `mh.mouseExit(a)`, `a.fh.handleEvent(a, ev)`,
`mh.update(a, s)`, `a.fh.updatePath(a, s)` (callee PARAMETERS: the interpreters run on those functions' own bodies), every
`if err != nil { return err }`, `if a.shouldQuit { return nil }`, `if !a.redraw { continue }`, `s, err := a.layout(w)` (the
widget's `Draw` is an oracle: the next tree of the list `layouts`, error nil — Draw errors are outside the model — and the
observation `draw`), `s.render(…)` (its only effect on the state: the children are sorted in place, `sortTree`), the value
switch `switch a.refresh`, `if a.debug { …; a.debug = false }`, `mh.lastFrame = s`.  Calls into vaxis (`Window`, `Clear`,
`HideCursor`, `Refresh`, `Render`) and `debugPrintWidget` do nothing to the modelled state.  Anything else is `none`.
Core Lean only.
-/
import VaxisModel.Model.VxfwInterpAll

namespace VaxisModel.Model.VxfwInterp
open VaxisModel.Model.GoSyn VaxisModel.Model.Vxfw
open VaxisModel.Model.DynExec (Stmt)

/-- The functions the two arms call. -/
structure RCallees where
  mouseHE : St → Int → Int → Option (St × Bool)
  mouseEnter : St → Id → Option (St × Bool)
  mouseExit : St → Option (St × Bool)
  focusHE : St → Ev → Option (St × Bool)
  update : St → STree → Option (St × Bool)
  updatePath : St → STree → Option St

structure RM where
  s : St
  flags : List (String × Bool) := []
  trees : List (String × STree) := []
  /-- what the next calls of `a.layout(w)` return -/
  layouts : List STree := []

abbrev RRes := Option (RM × Ctl)

/-- The dynamic type of an event, as the `case` labels spell it (`""` = none of them: the `default` arm). -/
def evType : RunEv → String
  | .resize => "vaxis.Resize"
  | .mouse _ _ => "vaxis.Mouse"
  | .focusIn => "vaxis.FocusIn"
  | .focusOut => "vaxis.FocusOut"
  | .key _ => "vaxis.Key"
  | .redraw => "vaxis.Redraw"
  | .other _ => ""

def boolTok (b : Bool) : String := if b then "true" else "false"

def hasCase (tag : String) : Stmt → Bool
  | .case label _ rest => labelTok label == tag || hasCase tag rest
  | _ => false

def revBool (m : RM) : Expr → Option Bool
  | .var "r.redraw" => some m.s.redraw
  | .var "r.shouldQuit" => some m.s.quit
  | .var "r.debug" => some m.s.debug
  | .un "!" a => (revBool m a).map (fun b => !b)
  | .bin "!=" (.var x) (.var "nil") => find m.flags x
  | _ => none

def setR (m : RM) (s : St) : RM := { m with s := s }

/-- A callee returning `(state, error)`, the error stored in the local `x`. -/
def callErr (m : RM) (x : String) (r : Option (St × Bool)) : RRes :=
  r.map (fun r => ({ m with s := r.1, flags := (x, r.2) :: m.flags }, .norm))

/-- `s, err := a.layout(w)` / `s, err = a.layout(w)`. -/
def doLayout (m : RM) (x er : String) : RRes :=
  match m.layouts with
  | [] => none
  | t :: rest =>
    some ({ m with s := { m.s with trace := m.s.trace ++ [.draw] }, trees := (x, t) :: m.trees, flags := (er, false) :: m.flags,
                   layouts := rest }, .norm)

def ratom (C : RCallees) (ev : RunEv) (m : RM) (l : Line) : RRes :=
  match l.kind, l.e1, l.e2 with
  | .continueS, _, _ => some (m, .cont)
  | .returnS, .var "nil", _ => some (m, .ret false)
  | .returnS, .var x, _ => (find m.flags x).map (fun b => (m, .ret b))
  | .assign, .var "r.redraw", .var "true" => some (setR m { m.s with redraw := true }, .norm)
  | .assign, .var "r.redraw", .var "false" => some (setR m { m.s with redraw := false }, .norm)
  | .assign, .var "r.refresh", .var "false" => some (setR m { m.s with refresh := false }, .norm)
  | .assign, .var "r.debug", .var "false" => some (setR m { m.s with debug := false }, .norm)
  | .assign, .var "v3.mouse", .var "nil" => some (setR m { m.s with mouse := none }, .norm)
  | .define, .var x, .arg (.arg (.call (.var "v3.handleEvent")) (.var "r")) (.var "v5") =>
    match ev with
    | .mouse c r => callErr m x (C.mouseHE m.s c r)
    | _ => none
  | .define, .var x, .arg (.arg (.call (.var "v3.mouseEnter")) (.var "r")) (.var "v0") => callErr m x (C.mouseEnter m.s m.s.root)
  | .define, .var x, .arg (.call (.var "v3.mouseExit")) (.var "r") => callErr m x (C.mouseExit m.s)
  | .define, .var x, .arg (.arg (.call (.var "r.fh.handleEvent")) (.var "r")) (.var "v5") =>
    match ev with
    | .key k => callErr m x (C.focusHE m.s (.key k))
    | .other k => callErr m x (C.focusHE m.s (.custom k))
    | _ => none
  | .define, .pair (.var x) (.var er), .arg (.call (.var "r.layout")) (.var "v0") => doLayout m x er
  | .assign, .pair (.var x) (.var er), .arg (.call (.var "r.layout")) (.var "v0") => doLayout m x er
  | .assign, .var er, .arg (.arg (.call (.var "v3.update")) (.var "r")) (.var x) =>
    match find m.trees x with
    | some t => callErr m er (C.update m.s t)
    | none => none
  | .define, .var _, .call (.var "r.vx.Window") => some (m, .norm)
  | .exprS, .call (.var "v13.Clear"), _ => some (m, .norm)
  | .exprS, .call (.var "r.vx.HideCursor"), _ => some (m, .norm)
  | .exprS, .call (.var "r.vx.Refresh"), _ => some (m, .norm)
  | .exprS, .call (.var "r.vx.Render"), _ => some (m, .norm)
  | .exprS, .arg (.arg (.arg (.call (.var "debugPrintWidget")) _) _) _, _ => some (m, .norm)
  | .exprS, .arg (.arg (.call (.var fn)) (.arg (.arg (.arg (.arg (.call (.var "v13.New")) _) _) _) _)) (.var "r.fh.focused"), _ =>
    -- `s.render(win.New(…), a.fh.focused)`: sorts the children of `s` (all levels) in place
    match find m.trees "v11" with
    | some t => if fn = "v11.render" then some ({ m with trees := ("v11", sortTree t) :: m.trees }, .norm) else none
    | none => none
  | .exprS, .arg (.arg (.call (.var "r.fh.updatePath")) (.var "r")) (.var x), _ =>
    match find m.trees x with
    | some t => (C.updatePath m.s t).map (fun s' => (setR m s', .norm))
    | none => none
  | .assign, .var "v3.lastFrame", .var x => (find m.trees x).map (fun t => (setR m { m.s with lastFrame := t }, .norm))
  | _, _, _ => none

def rexec (C : RCallees) (ev : RunEv) : Stmt → String → RM → RRes
  | .skip, _, m => some (m, .norm)
  | .atom l, _, m => ratom C ev m l
  | .seq a b, tag, m =>
    match rexec C ev a tag m with
    | some (m', .norm) => rexec C ev b tag m'
    | r => r
  | .ite c t el, tag, m =>
    match revBool m c with
    | none => none
    | some true => rexec C ev t tag m
    | some false => rexec C ev el tag m
  | .sw true (.lit "v5 := v4.(type)") cases, _, m => rexec C ev cases (evType ev) m       -- `switch ev := ev.(type)`
  | .sw false (.var "r.refresh") cases, _, m => rexec C ev cases (boolTok m.s.refresh) m   -- `switch a.refresh`
  | .case label body rest, tag, m =>
    if labelTok label = tag then rexec C ev body tag m
    else if labelTok label = "default" then (if hasCase tag rest then rexec C ev rest tag m else rexec C ev body tag m)
    else rexec C ev rest tag m
  | _, _, _ => none

/-- The event arm: new state and how the arm ends (`ret true` = a handler's error is returned, `ret false` = `shouldQuit`,
    `norm` = the loop goes on). -/
def runEventBlock (body : Stmt) (C : RCallees) (s : St) (ev : RunEv) : Option (St × Ctl) :=
  (rexec C ev body "" { s := s }).map (fun r => (r.1.s, r.2))

/-- The frame arm; `t1`, `t2` = what the first / a second `layout` returns. -/
def runFrameBlock (body : Stmt) (C : RCallees) (s : St) (t1 t2 : STree) : Option (St × Ctl) :=
  (rexec C .resize body "" { s := s, layouts := [t1, t2] }).map (fun r => (r.1.s, r.2))

/-- The callees as interpreters run on the functions' own bodies (budget `fuel + 1`, as in `bRunEvent` / `bRunFrameAll`). -/
def rCallees (B : Bodies) (Cc : Callees) (e : EOracle) (fuel : Nat) : RCallees :=
  { mouseHE := fun s c r => runMouseHandleEvent B.mouseHandleEvent e (fuel + 1) s c r (mouseLoopFuel s c r),
    mouseEnter := fun s w => runMouseEnter B.mouseEnter e (fuel + 1) s w,
    mouseExit := fun s => runMouseExit B.mouseExit e (fuel + 1) s,
    focusHE := fun s ev => runFocusHandleEvent B.focusHandleEvent e (fuel + 1) s ev (s.path.length + 1),
    update := fun s t => runMouseUpdateAll B.mouseUpdate Cc e (fuel + 1) s t,
    updatePath := fun s t => runUpdatePathAll B.updatePath Cc e fuel s t }

/-- The loop of `Run` over the two interpreted arms. -/
def rRunSteps (evB frB : Stmt) (C : RCallees) : St → List Step → Option (St × Bool)
  | s, [] => some (s, false)
  | s, .ev e :: rest =>
    match runEventBlock evB C s e with
    | none => none
    | some (s', .ret b) => some (s', b)
    | some (s', _) => rRunSteps evB frB C s' rest
  | s, .frame t1 t2 :: rest =>
    match runFrameBlock frB C s t1 t2 with
    | none => none
    | some (s', .ret b) => some (s', b)
    | some (s', _) => rRunSteps evB frB C s' rest

/-- `App.Run`: the transcribed prologue (`bRunInit`), then the loop over the interpreted arms. -/
def rRun (evB frB : Stmt) (B : Bodies) (Cc : Callees) (e : EOracle) (fuel : Nat) (root : Id) (t0 : STree) (steps : List Step) :
    Option (St × Bool) :=
  match bRunInit B e fuel root t0 with
  | none => none
  | some r => if r.2 then some r else rRunSteps evB frB (rCallees B Cc e fuel) r.1 steps

end VaxisModel.Model.VxfwInterp
