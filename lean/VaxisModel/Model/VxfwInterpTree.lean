/-
C15, round 4: an interpreter for the three pure tree walks of vxfw/vxfw.go — `hitTest`, `SubSurface.containsPoint`,
`focusHandler.childHasFocus` — run on their regenerated bodies (`Gen/VxfwBodies.lean`, parsed by
`Model/DynExec.parseBody`).  `Props/C15Body.lean` proves the results equal to `Model.Vxfw.hitTest` (appended to the
`hits` argument), `containsPoint` and `childHasFocus` (appended to `f.path`, with the returned bool).

What it executes: the composite literal `hitResult{col: col, row: row, w: s.Widget}`, `hits = append(hits, r)`, the `range`
loop over `s.Children` binding a sub-surface, `if !ss.containsPoint(int(col), int(row)) { continue }` (the callee is the
interpreted body of `containsPoint`: one boolean expression, evaluated by `GoSyn.evalB` over the receiver's fields and the two
arguments), the `uint16` subtractions `col - uint16(ss.Origin.Col)` (wrap-around at 65536: `u16`), the RECURSIVE calls
`hitTest(ss.Surface, hits, local_col, local_row)` and `f.childHasFocus(c.Surface)` (the body again; fuel = depth of the
surface tree), `s.Widget == f.focused`, `f.path = append(f.path, s.Widget)`, `return`; and `focusHandler.findPath`: `f.path = []Widget{}`,
`ok := f.childHasFocus(f.lastFrame)` (the interpreted callee; the zero `Surface` before the first frame has a nil widget and no
children), the test `f.root != f.lastFrame.Widget || len(f.path) == 0`, `append(f.path, f.root)`, and the in-place reversal loop
`for i := 0; i < len(f.path)/2; i++ { f.path[i], f.path[len(f.path)-1-i] = f.path[len(f.path)-1-i], f.path[i] }` with CHECKED
index expressions.  Anything else is `none`.  Core Lean only.
-/
import VaxisModel.Model.GoSyn
import VaxisModel.Model.DynExec
import VaxisModel.Model.Vxfw

namespace VaxisModel.Model.VxfwInterpTree
open VaxisModel.Model.GoSyn VaxisModel.Model.Vxfw
open VaxisModel.Model.DynExec (Stmt)

structure TM where
  trees : List (String × STree) := []
  kids  : List (String × Kid) := []
  ints  : List (String × Int) := []
  ids   : List (String × Id) := []
  hitl  : List (String × List Hit) := []
  hit   : List (String × Hit) := []
  focused : Id := 0
  path  : List Id := []
  /-- `findPath`: the root widget, `f.lastFrame` (`none` = the zero `Surface`: nil widget, no children), bool locals -/
  root  : Id := 0
  frame : Option STree := none
  flags : List (String × Bool) := []

inductive TCtl where
  | norm | cont
  | retH (h : List Hit)
  | retB (b : Bool)

abbrev TRes := Option (TM × TCtl)

/-- The callees: `ss.containsPoint(col, row)`, `hitTest(s, hits, col, row)`, `f.childHasFocus(s)` (path ↦ new path, result). -/
structure TEnv where
  cp    : Kid → Int → Int → Option Bool
  selfH : STree → List Hit → Int → Int → Option (List Hit)
  selfC : Id → List Id → STree → Option (List Id × Bool)

def find {α : Type} (l : List (String × α)) (n : String) : Option α :=
  match l with
  | [] => none
  | (k, v) :: r => if k = n then some v else find r n

/-- Bind a surface local `x`: `x`, `x.Widget`, `x.Children`. -/
def bindTree (m : TM) (x : String) (t : STree) : TM :=
  { m with trees := (x, t) :: (x ++ ".Children", t) :: m.trees, ids := (x ++ ".Widget", t.id) :: m.ids }

/-- Bind a sub-surface local `x`: `x.Origin.Col`, `x.Origin.Row`, `x.Surface`, and `x` as the receiver of `containsPoint`. -/
def bindKid (m : TM) (x : String) (k : Kid) : TM :=
  { m with kids := (x ++ ".containsPoint", k) :: m.kids,
           ints := (x ++ ".Origin.Col", k.1) :: (x ++ ".Origin.Row", k.2.1) :: m.ints,
           trees := (x ++ ".Surface", k.2.2.2) :: m.trees }

def tevBool (env : TEnv) (m : TM) : Expr → Option Bool
  | .un "!" a => (tevBool env m a).map (fun b => !b)
  | .arg (.arg (.call (.var fn)) (.arg (.call (.var "int")) (.var a))) (.arg (.call (.var "int")) (.var b)) =>
    match find m.kids fn, find m.ints a, find m.ints b with
    | some k, some x, some y => env.cp k x y
    | _, _, _ => none
  | .bin "==" (.var a) (.var "r.focused") => (find m.ids a).map (fun w => decide (w = m.focused))
  | .bin "||" (.bin "!=" (.var "r.root") (.var "r.lastFrame.Widget")) (.bin "==" (.arg (.call (.var "len")) (.var "r.path")) (.int 0)) =>
    some ((match m.frame with | none => true | some t => decide (m.root ≠ t.id)) || decide (m.path.length = 0))
  | .bin "<" (.var i) (.bin "/" (.arg (.call (.var "len")) (.var "r.path")) (.int 2)) =>
    (find m.ints i).map (fun v => decide (v < ((m.path.length / 2 : Nat) : Int)))
  | _ => none

/-- `l[i], l[j] = l[j], l[i]` with checked indices. -/
def swapIdx (l : List Id) (i j : Nat) : Option (List Id) :=
  match l[i]?, l[j]? with
  | some a, some b => some ((l.set i b).set j a)
  | _, _ => none

/-- The index expressions of `findPath`'s reversal loop: `i` and `len(f.path) - 1 - i`. -/
def isSwap (i : String) (e1 e2 : Expr) : Bool :=
  e1 == .pair (.index (.var "r.path") (.var i)) (.index (.var "r.path") (.bin "-" (.bin "-" (.arg (.call (.var "len")) (.var "r.path")) (.int 1)) (.var i))) &&
  e2 == .pair (.index (.var "r.path") (.bin "-" (.bin "-" (.arg (.call (.var "len")) (.var "r.path")) (.int 1)) (.var i))) (.index (.var "r.path") (.var i))

def tatom (env : TEnv) (m : TM) (l : Line) : TRes :=
  match l.kind, l.e1, l.e2 with
  | .continueS, _, _ => some (m, .cont)
  -- `findPath`
  | .assign, .var "r.path", .lit "[]Widget{}" => some ({ m with path := [] }, .norm)
  | .define, .var x, .arg (.call (.var "r.childHasFocus")) (.var "r.lastFrame") =>
    match m.frame with
    | none => some ({ m with flags := (x, false) :: m.flags }, .norm)      -- the zero Surface: nil widget, no children
    | some t => (env.selfC m.focused m.path t).map (fun r => ({ m with path := r.1, flags := (x, r.2) :: m.flags }, .norm))
  | .assign, .var "r.path", .arg (.arg (.call (.var "append")) (.var "r.path")) (.var "r.root") =>
    some ({ m with path := m.path ++ [m.root] }, .norm)
  | .define, .var x, .int n => some ({ m with ints := (x, (n : Int)) :: m.ints }, .norm)
  | .addAssign, .var x, .int n => (find m.ints x).map (fun v => ({ m with ints := (x, v + (n : Int)) :: m.ints }, .norm))
  | .assign, .pair (.index (.var "r.path") (.var i)) b, e2 =>
    if isSwap i (.pair (.index (.var "r.path") (.var i)) b) e2 then
      match find m.ints i with
      | some v => if v < 0 then none else (swapIdx m.path v.toNat (m.path.length - 1 - v.toNat)).map (fun p => ({ m with path := p }, .norm))
      | none => none
    else none
  | .define, .var x, .lit "hitResult{v2:v2,v3:v3,w:v0.Widget}" =>
    match find m.ints "v2", find m.ints "v3", find m.ids "v0.Widget" with
    | some c, some r, some w => some ({ m with hit := (x, ⟨c, r, w⟩) :: m.hit }, .norm)
    | _, _, _ => none
  | .assign, .var "r.path", .arg (.arg (.call (.var "append")) (.var "r.path")) (.var w) =>
    (find m.ids w).map (fun i => ({ m with path := m.path ++ [i] }, .norm))
  | .assign, .var x, .arg (.arg (.call (.var "append")) (.var x')) (.var h) =>
    match find m.hitl x', find m.hit h with
    | some hs, some r => some ({ m with hitl := (x, hs ++ [r]) :: m.hitl }, .norm)
    | _, _ => none
  | .define, .var x, .bin "-" (.var a) (.arg (.call (.var "uint16")) (.var b)) =>      -- uint16 - uint16(int)
    match find m.ints a, find m.ints b with
    | some u, some v => some ({ m with ints := (x, u16 (u - u16 v)) :: m.ints }, .norm)
    | _, _ => none
  | .assign, .var x, .arg (.arg (.arg (.arg (.call (.var "hitTest")) (.var t)) (.var x')) (.var a)) (.var b) =>
    match find m.trees t, find m.hitl x', find m.ints a, find m.ints b with
    | some tr, some hs, some c, some r => (env.selfH tr hs c r).map (fun hs' => ({ m with hitl := (x, hs') :: m.hitl }, .norm))
    | _, _, _, _ => none
  | .returnS, .var "true", _ => some (m, .retB true)
  | .returnS, .var "false", _ => some (m, .retB false)
  | .returnS, .var x, _ =>
    match find m.hitl x with
    | some hs => some (m, .retH hs)
    | none => (find m.flags x).map (fun b => (m, .retB b))
  | _, _, _ => none

def rangeKids (v : String) (body : TM → TRes) : List Kid → TM → TRes
  | [], m => some (m, .norm)
  | k :: ks, m =>
    match body (bindKid m v k) with
    | none => none
    | some (m', .retH h) => some (m', .retH h)
    | some (m', .retB b) => some (m', .retB b)
    | some (m', _) => rangeKids v body ks m'

/-- `for cond { body; post }`, one unit of fuel per iteration. -/
def tloop (c : TM → Option Bool) (body post : TM → TRes) : Nat → TM → TRes
  | 0, _ => none
  | f + 1, m =>
    match c m with
    | none => none
    | some false => some (m, .norm)
    | some true =>
      match body m with
      | none => none
      | some (m', .retH h) => some (m', .retH h)
      | some (m', .retB b) => some (m', .retB b)
      | some (m', _) =>
        match post m' with
        | none => none
        | some (m'', _) => tloop c body post f m''

def texec (env : TEnv) : Stmt → TM → TRes
  | .skip, m => some (m, .norm)
  | .atom l, m => tatom env m l
  | .seq a b, m =>
    match texec env a m with
    | some (m', .norm) => texec env b m'
    | r => r
  | .ite (.un "!" (.arg (.call (.var "r.childHasFocus")) (.var t))) th el, m =>   -- the call appends to `f.path`
    match find m.trees t with
    | none => none
    | some tr =>
      match env.selfC m.focused m.path tr with
      | none => none
      | some (p, b) => if b then texec env el { m with path := p } else texec env th { m with path := p }
  | .ite c th el, m =>
    match tevBool env m c with
    | none => none
    | some true => texec env th m
    | some false => texec env el m
  | .rangeOver _ v (.var l) body, m =>
    match find m.trees l with
    | none => none
    | some t => rangeKids v (texec env body) t.ch m
  | .loop c body post, m => tloop (fun m => tevBool env m c) (texec env body) (texec env post) (m.path.length + 1) m
  | _, _ => none

/-- `SubSurface.containsPoint(col, row)` run from its body: the single `return <expr>`. -/
def runContainsPoint (body : List Line) (k : Kid) (col row : Int) : Option Bool :=
  match body with
  | [⟨0, .returnS, e, .none⟩] =>
    evalB [("v0", col), ("v1", row), ("r.Origin.Col", k.1), ("r.Origin.Row", k.2.1),
           ("r.Surface.Size.Width", (k.2.2.2.w : Int)), ("r.Surface.Size.Height", (k.2.2.2.h : Int))] e
  | _ => none

mutual
def treeDepth : STree → Nat
  | .node _ _ _ ch => kidsDepth ch + 1
def kidsDepth : List Kid → Nat
  | [] => 0
  | (_, _, _, t) :: r => max (treeDepth t) (kidsDepth r)
end

/-- `hitTest(s, hits, col, row)` run from its body (parameters `v0 … v3`). -/
def runHitTestD (body : Stmt) (cp : List Line) : Nat → STree → List Hit → Int → Int → Option (List Hit)
  | 0, _, _, _, _ => none
  | d + 1, t, hits, col, row =>
    let env : TEnv := ⟨runContainsPoint cp, runHitTestD body cp d, fun _ _ _ => none⟩
    match texec env body (bindTree { hitl := [("v1", hits)], ints := [("v2", col), ("v3", row)] } "v0" t) with
    | some (_, .retH h) => some h
    | _ => none

def runHitTest (body : Stmt) (cp : List Line) (t : STree) (hits : List Hit) (col row : Int) : Option (List Hit) :=
  runHitTestD body cp (treeDepth t + 1) t hits col row

/-- `f.childHasFocus(s)` run from its body (parameter `v0 = s`): the new `f.path` and the result. -/
def runChildHasFocusD (body : Stmt) : Nat → Id → List Id → STree → Option (List Id × Bool)
  | 0, _, _, _ => none
  | d + 1, f, path, t =>
    let env : TEnv := ⟨fun _ _ _ => none, fun _ _ _ _ => none, runChildHasFocusD body d⟩
    match texec env body (bindTree { focused := f, path := path } "v0" t) with
    | some (m, .retB b) => some (m.path, b)
    | _ => none

/-- `f.findPath()` run from its body (the callee `f.childHasFocus` from ITS body): the new `f.path` and the result. -/
def runFindPath (body chBody : Stmt) (focused root : Id) (frame : Option STree) : Option (List Id × Bool) :=
  let depth := match frame with | none => 0 | some t => treeDepth t
  let env : TEnv := ⟨fun _ _ _ => none, fun _ _ _ _ => none, runChildHasFocusD chBody (depth + 1)⟩
  match texec env body { focused := focused, root := root, frame := frame } with
  | some (m, .retB b) => some (m.path, b)
  | _ => none

def runChildHasFocus (body : Stmt) (f : Id) (path : List Id) (t : STree) : Option (List Id × Bool) :=
  runChildHasFocusD body (treeDepth t + 1) f path t

end VaxisModel.Model.VxfwInterpTree
