/-
An interpreter for the bodies of widgets/list `List`, widgets/pager `Model` and widgets/scrollbar
`Model`, run directly on their regenerated syntax (`Gen/WidSkel.lean`, flat lines of
`Model/GoSyn.lean`, parsed into trees by `Model/DynExec.parseBody`).  Statement trees, control
(`break`/`continue`/`return`) and the error values are `DynExec`'s; the machine is different:

  * `int` fields of the receiver (`d.index`, `d.offset`, `d.Offset`, `d.width`, `d.TotalHeight`, …,
    and `#d.items` = `len(d.items)`) live in `φ`, `int` locals in `ρ` (a slice of strings is its
    length: `#x`); `/` is Go's truncating division (division by zero: not evaluable = stuck);
    `min`/`max` are list.go's own helpers: a call `max(a, b)` is a call into the callee's interpreted body
    (`Ro.fn2`; `Props/C19Wid.minmax_body_eq_model`: they compute `min`/`max`);
  * characters and cells (`vaxis.Character`, `vaxis.Cell`: bytes + width, the style is dropped) live
    in `χ`; a cell literal `vaxis.Cell{Character: c, …}` is its character;
  * a style is its `Attribute` (`vaxis.Style{}` = 0);
  * the pager's `d.lines` is a list of lines; the local that points to the line under construction
    (`l := &line{}`) is `lv` with contents `cur`.  Pointer aliasing is modelled EXACTLY without a heap:
    `alias` lists the positions of `d.lines` that hold the very line object `lv` points to (they are
    recorded by `d.lines = append(d.lines, l)` and forgotten when `l` is replaced by a fresh line), and
    `l.append(…)` updates `cur` AND those positions — there is one pointer local and one list of
    pointers, so this is the whole sharing structure;
  * the window: `v0.Size()` = (W, H); `v0.Fill(…)` blanks it; `v0.SetCell(col, row, cell)` sets the
    cell when it lies inside (C11's clipping: `Props.C19.setcell_outside_ignored`);
    `v0.Println(i, vaxis.Segment{Text: item, Style: st})` records a row when `0 ≤ i < H`
    (`Props.C19.simple_list_println_rows`);
  * `range` over `d.items[lo:]` (CHECKED slice expression → `Err.panic`), `d.Segments`,
    `vaxis.Characters(seg.Text)`, `d.lines`, `l.characters`: the elements are read when the loop
    starts;
  * `return List{items: y}` (the constructor `New`) is a fresh receiver with zero index and offset;
  * `d.Layout()` and `l.append(cell)` are calls into the callees' interpreted bodies (fresh locals, shared fields and
    lines; a callee's assignments to character-valued fields are not propagated — `Layout` has none).
Anything outside the subset is `Err.stuck`, never a silent default.
-/
import VaxisModel.Model.GoSyn
import VaxisModel.Model.DynExec
import VaxisModel.Model.SimpleList
import VaxisModel.Model.Pager
import VaxisModel.Model.Scrollbar

namespace VaxisModel.Model.WidExec
open VaxisModel.Model.GoSyn
open VaxisModel.Model.DynExec (Stmt Ctl Err parseBody)
open VaxisModel.Model.Pager (Ch)

abbrev PLine := VaxisModel.Model.Pager.Line
open VaxisModel.Model.SimpleList (Row)

abbrev Win := List (List (Option Ch))

structure M where
  φ      : List (String × Int)
  ρ      : List (String × Int)
  χ      : List (String × Ch)
  ls     : List (String × PLine)
  lines  : List PLine
  lv     : String
  cur    : PLine
  alias  : List Nat
  win    : Win
  rows   : List Row

abbrev Res := Except Err (M × Ctl)

structure Ro where
  W    : Nat
  H    : Nat
  segs : List (List Ch)
  call : String → Option (M → Res)
  /-- the package's own functions of two `int` parameters (`min`, `max`): name ↦ the value their interpreted body returns -/
  fn2  : String → Option (Int → Int → Option Int)

def consts : List (String × Int) := [("nil", 0), ("true", 1), ("false", 0), ("vaxis.AttrReverse", 1)]

def fieldNames : List String :=
  ["d.index", "d.offset", "#d.items", "d.Offset", "d.width", "d.TotalHeight", "d.ViewHeight", "d.Top"]

def look (m : M) (n : String) : Option Int := lookup (m.ρ ++ m.φ ++ consts) n

def lookupC : List (String × Ch) → String → Option Ch
  | [], _ => none
  | (k, v) :: r, n => if k = n then some v else lookupC r n

def lookupL : List (String × PLine) → String → Option PLine
  | [], _ => none
  | (k, v) :: r, n => if k = n then some v else lookupL r n

/-- The value of field `key` in a structured composite literal `T{}(K1, e1)(K2, e2)…`. -/
def fieldOf (key : String) : Expr → Option Expr
  | .arg c (.pair (.var k) e) => if k = key then some e else fieldOf key c
  | _ => none

def evI (F2 : String → Option (Int → Int → Option Int)) (m : M) : Expr → Option Int
  | .var n => look m n
  | .int n => some (n : Int)
  | .lit "vaxis.Style{}" => some 0
  | .arg (.call (.lit "vaxis.Style{}")) (.pair (.var "Attribute") a) => evI F2 m a
  | .un "-" a => (evI F2 m a).map (fun x => - x)
  | .bin "+" a b => do let x ← evI F2 m a; let y ← evI F2 m b; pure (x + y)
  | .bin "-" a b => do let x ← evI F2 m a; let y ← evI F2 m b; pure (x - y)
  | .bin "*" a b => do let x ← evI F2 m a; let y ← evI F2 m b; pure (x * y)
  | .bin "/" a b => do
      let x ← evI F2 m a; let y ← evI F2 m b
      if y = 0 then Option.none else pure (Int.tdiv x y)
  | .arg (.call (.var "len")) (.var x) =>
      if x = "d.lines" then some (m.lines.length : Int)
      else if x = m.lv ++ ".characters" then some (m.cur.length : Int)
      else look m ("#" ++ x)
  -- a call of one of the package's own functions of two `int`s (`min`, `max`): the value its interpreted body returns
  | .arg (.arg (.call (.var f)) a) b =>
      match F2 f with
      | some g => do let x ← evI F2 m a; let y ← evI F2 m b; g x y
      | Option.none => Option.none
  | _ => Option.none

def evB (F2 : String → Option (Int → Int → Option Int)) (m : M) : Expr → Option Bool
  | .var n => (look m n).map (fun x => x != 0)
  | .un "!" a => (evB F2 m a).map (fun x => !x)
  | .bin "&&" a b => do
      let x ← evB F2 m a
      if x then evB F2 m b else pure false
  | .bin "||" a b => do
      let x ← evB F2 m a
      if x then pure true else evB F2 m b
  | .bin "<" a b => do let x ← evI F2 m a; let y ← evI F2 m b; pure (decide (x < y))
  | .bin "<=" a b => do let x ← evI F2 m a; let y ← evI F2 m b; pure (decide (x ≤ y))
  | .bin ">" a b => do let x ← evI F2 m a; let y ← evI F2 m b; pure (decide (x > y))
  | .bin ">=" a b => do let x ← evI F2 m a; let y ← evI F2 m b; pure (decide (x ≥ y))
  | .bin "==" (.var g) (.lit "\"\"") => (lookupC m.χ g).map (fun c => c.bytes.isEmpty)
  | .bin "==" a b => do let x ← evI F2 m a; let y ← evI F2 m b; pure (decide (x = y))
  | .bin "!=" a b => do let x ← evI F2 m a; let y ← evI F2 m b; pure (decide (x ≠ y))
  | .arg (.arg (.call (.var "strings.ContainsRune")) (.var g)) (.lit "'\\n'") => (lookupC m.χ g).map Ch.isNl
  | _ => Option.none

/-- Store into an `int` field of the receiver or a local. -/
def store (m : M) (t : String) (v : Int) : M :=
  if fieldNames.contains t then { m with φ := (t, v) :: m.φ } else { m with ρ := (t, v) :: m.ρ }

def bind (m : M) (t : String) (v : Int) : M := if t = "_" then m else { m with ρ := (t, v) :: m.ρ }

/-- Bind a character / cell variable (also used for character-valued fields). -/
def bindC (m : M) (t : String) (c : Ch) : M :=
  if t = "_" then m
  else { m with χ := (t, c) :: (t ++ ".Grapheme", c) :: m.χ, ρ := (t ++ ".Width", c.width) :: m.ρ }

inductive Elem where
  | int (n : Int)
  | seg (cs : List Ch)
  | ch (c : Ch)
  | line (l : PLine)

def bindE (m : M) (v : String) : Elem → M
  | .int n => bind m v n
  | .seg cs => { m with ls := (v ++ ".Text", cs) :: m.ls }
  | .ch c => bindC m v c
  | .line l => { m with ls := (v ++ ".characters", l) :: m.ls }

/-- The elements a `range` loop runs over. -/
def collOf (R : Ro) (m : M) : Expr → Except Err (List Elem)
  | .var x =>
      if x = "d.Segments" then .ok (R.segs.map .seg)
      else if x = "d.lines" then .ok (m.lines.map .line)
      else if x = m.lv ++ ".characters" then .ok (m.cur.map .ch)
      else match lookupL m.ls x with
        | some l => .ok (l.map .ch)
        | Option.none => .error (.stuck "range")
  | .arg (.call (.var "vaxis.Characters")) (.var t) =>
      match lookupL m.ls t with
      | some cs => .ok (cs.map .ch)
      | Option.none => .error (.stuck "segment")
  | .bin "[:]" (.var x) (.pair lo .none) =>
      match evI R.fn2 m lo, look m ("#" ++ x) with
      | some l, some n =>
        if 0 ≤ l ∧ l ≤ n then .ok ((List.range (n - l).toNat).map fun (i : Nat) => Elem.int (l + (i : Int)))
        else .error .panic
      | _, _ => .error (.stuck "slice")
  | _ => .error (.stuck "range")

def blank (W H : Nat) : Win := List.replicate H (List.replicate W Option.none)

/-- `SetCell(col, row, c)`: nothing outside the window. -/
def setCell (win : Win) (col row : Int) (c : Ch) : Win :=
  if 0 ≤ col ∧ 0 ≤ row then
    match win[row.toNat]? with
    | some r => win.set row.toNat (r.set col.toNat (some c))
    | Option.none => win
  else win

def ok (m : M) : Res := .ok (m, .norm)

/-- One simple statement. -/
def atom (R : Ro) (m : M) (l : GoSyn.Line) : Res :=
  match l.kind, l.e1, l.e2 with
  | .breakS, _, _ => .ok (m, .brk)
  | .continueS, _, _ => .ok (m, .cont)
  | .returnS, .none, _ => .ok (m, .ret [])
  -- `return List{items: y}`: a fresh `List` (zero index and offset) holding the `y` items
  | .returnS, .arg (.call (.lit "List{}")) (.pair (.var "items") (.var y)), _ =>
    match look m ("#" ++ y) with
    | some n => .ok ({ m with φ := [("d.index", 0), ("d.offset", 0), ("#d.items", n)] }, .ret [])
    | Option.none => .error (.stuck "items")
  | .returnS, e, _ =>
    match evI R.fn2 m e with
    | some v => .ok (m, .ret [v])
    | Option.none => .error (.stuck "return")
  | .varS, .var x, _ => ok (bind m x 0)
  | .define, .pair (.var a) (.var b), .call (.var "v0.Size") => ok (bind (bind m a (R.W : Int)) b (R.H : Int))
  | .exprS, .call (.var fn), _ =>
    match R.call fn with
    | Option.none => .error (.stuck ("call " ++ fn))
    | some g =>
      match g { m with ρ := [], ls := [], lv := "", cur := [], alias := [] } with
      | .error e => .error e
      | .ok (m', _) => ok { m' with ρ := m.ρ, χ := m.χ, ls := m.ls, lv := m.lv, cur := m.cur, alias := m.alias }
  | .exprS, .arg (.call (.var "v0.Fill")) _, _ => ok { m with win := blank R.W R.H }
  | .exprS, .arg (.arg (.arg (.call (.var "v0.SetCell")) c) r) (.var x), _ =>
    match evI R.fn2 m c, evI R.fn2 m r, lookupC m.χ x with
    | some cv, some rv, some ch => ok { m with win := setCell m.win cv rv ch }
    | _, _, _ => .error (.stuck "SetCell")
  | .exprS, .arg (.arg (.call (.var "v0.Println")) i) seg, _ =>
    match evI R.fn2 m i, (fieldOf "Text" seg).bind (evI R.fn2 m), (fieldOf "Style" seg).bind (evI R.fn2 m) with
    | some iv, some item, some st =>
      ok { m with rows := if 0 ≤ iv ∧ iv < (R.H : Int) then m.rows ++ [⟨iv.toNat, item, st != 0⟩] else m.rows }
    | _, _, _ => .error (.stuck "Println")
  -- `l.append(cell)`: a call into the body of `line.append` (receiver = the line `l` points to, parameter `v0` = the cell)
  | .exprS, .arg (.call (.var f)) (.var x), _ =>
    if f = m.lv ++ ".append" then
      match lookupC m.χ x, R.call "line.append" with
      | some c, some g =>
        match g { m with ρ := [], χ := [("v0", c)], ls := [] } with
        | .error e => .error e
        | .ok (m', _) => ok { m' with ρ := m.ρ, χ := m.χ, ls := m.ls }
      | Option.none, _ => .error (.stuck "append")
      | _, Option.none => .error (.stuck "call line.append")
    else .error (.stuck "call")
  -- inside `line.append`: `l.characters = append(l.characters, t)` on the receiver line (and every position of `d.lines`
  -- holding the same object)
  | .assign, .var "d.characters", .arg (.arg (.call (.var "append")) (.var "d.characters")) (.var y) =>
    match lookupC m.χ y with
    | some c => ok { m with cur := m.cur ++ [c], lines := m.alias.foldl (fun ls i => ls.set i (m.cur ++ [c])) m.lines }
    | Option.none => .error (.stuck "append")
  | .assign, .var "d.lines", .lit "[]*line{}" => ok { m with lines := [], alias := [] }
  | .assign, .var "d.lines", .arg (.arg (.call (.var "append")) (.var "d.lines")) (.var x) =>
    if x = m.lv then ok { m with lines := m.lines ++ [m.cur], alias := m.alias ++ [m.lines.length] } else .error (.stuck "append to lines")
  | .define, .var x, .un "&" (.lit "line{}") => ok { m with lv := x, cur := [], alias := [] }
  | .assign, .var x, .un "&" (.lit "line{}") =>
    if x = m.lv then ok { m with cur := [], alias := [] } else .error (.stuck "line pointer")
  | .assign, .var "d.items", .var y =>
    match look m ("#" ++ y) with
    | some n => ok (store m "#d.items" n)
    | Option.none => .error (.stuck "items")
  | .define, .var x, .arg (.arg (.call (.lit "vaxis.Cell{}")) (.pair (.var "Character") (.var y))) _ =>
    match lookupC m.χ y with
    | some c => ok (bindC m x c)
    | Option.none => .error (.stuck "cell")
  | .define, .var x, e =>
    match evI R.fn2 m e with
    | some v => ok (bind m x v)
    | Option.none => .error (.stuck "define")
  | .assign, .var x, .var y =>
    match lookupC m.χ y with
    | some c => ok (bindC m x c)
    | Option.none =>
      match look m y with
      | some v => ok (store m x v)
      | Option.none => .error (.stuck "assign")
  | .assign, .var x, e =>
    match evI R.fn2 m e with
    | some v => ok (store m x v)
    | Option.none => .error (.stuck "assign")
  | .addAssign, .var x, e =>
    match look m x, evI R.fn2 m e with
    | some cur, some v => ok (store m x (cur + v))
    | _, _ => .error (.stuck "+=")
  | .subAssign, .var x, e =>
    match look m x, evI R.fn2 m e with
    | some cur, some v => ok (store m x (cur - v))
    | _, _ => .error (.stuck "-=")
  | _, _, _ => .error (.stuck "statement")

/-- `for cond { body; post }`: one unit of fuel per iteration. -/
def loopN (c : M → Option Bool) (body post : Nat → M → Res) : Nat → M → Res
  | 0, _ => .error .oof
  | f + 1, m =>
    match c m with
    | Option.none => .error (.stuck "loop condition")
    | some false => .ok (m, .norm)
    | some true =>
      match body f m with
      | .error e => .error e
      | .ok (m', .brk) => .ok (m', .norm)
      | .ok (m', .ret vs) => .ok (m', .ret vs)
      | .ok (m', _) =>
        match post f m' with
        | .error e => .error e
        | .ok (m'', _) => loopN c body post f m''

/-- `for k, v := range coll` over the elements read when the loop started. -/
def rangeE (k v : String) (body : M → Res) : List Elem → Nat → M → Res
  | [], _, m => .ok (m, .norm)
  | e :: es, i, m =>
    match body (bindE (bind m k (i : Int)) v e) with
    | .error e => .error e
    | .ok (m', .brk) => .ok (m', .norm)
    | .ok (m', .ret vs) => .ok (m', .ret vs)
    | .ok (m', _) => rangeE k v body es (i + 1) m'

def exec (R : Ro) : Stmt → Nat → M → Res
  | .skip, _, m => .ok (m, .norm)
  | .bad, _, _ => .error (.stuck "unparsed")
  | .atom l, _, m => atom R m l
  | .seq a b, f, m =>
    match exec R a f m with
    | .ok (m', .norm) => exec R b f m'
    | r => r
  | .ite c t e, f, m =>
    match evB R.fn2 m c with
    | Option.none => .error (.stuck "if condition")
    | some true => exec R t f m
    | some false => exec R e f m
  | .loop c body post, f, m => loopN (fun m => evB R.fn2 m c) (exec R body) (exec R post) f m
  | .rangeOver k v coll body, f, m =>
    match collOf R m coll with
    | .error e => .error e
    | .ok es => rangeE k v (exec R body f) es 0 m
  | .range _ _ _, _, _ => .error (.stuck "range over children")
  | .sw _ _ _, _, _ => .error (.stuck "switch")
  | .case _ _ _, _, _ => .error (.stuck "case")

/-! ### running the methods -/

def noCall : String → Option (M → Res) := fun _ => Option.none
def noFn : String → Option (Int → Int → Option Int) := fun _ => Option.none

def m0 : M := ⟨[], [], [], [], [], "", [], [], [], []⟩

/-- The parsed bodies (regenerated: `Gen.WidSkel`; or the expected copy). -/
structure Bodies where
  listMin : Stmt
  listMax : Stmt
  listNew : Stmt
  listIndex : Stmt
  listDraw : Stmt
  listDown : Stmt
  listUp : Stmt
  listHome : Stmt
  listEnd : Stmt
  listPageDown : Stmt
  listPageUp : Stmt
  listSetItems : Stmt
  pagerDraw : Stmt
  pagerLayout : Stmt
  pagerScrollDown : Stmt
  pagerScrollUp : Stmt
  lineAppend : Stmt
  barDraw : Stmt

/-- A function of two `int` parameters (`min`, `max`): the value returned. -/
def runFun2 (body : Stmt) (a b : Int) : Except Err (Option Int) :=
  match exec ⟨0, 0, [], noCall, noFn⟩ body 0 { m0 with ρ := [("v0", a), ("v1", b)] } with
  | .error e => .error e
  | .ok (_, .ret [v]) => .ok (some v)
  | .ok _ => .ok Option.none

/-- The value an interpreted function of two `int`s returns (`none`: it panicked, got stuck or returned nothing). -/
def fun2 (body : Stmt) (a b : Int) : Option Int :=
  match runFun2 body a b with
  | .ok (some v) => some v
  | _ => Option.none

/-! #### widgets/list -/

/-- list.go's own `min` and `max`, as callees. -/
def listFns (B : Bodies) : String → Option (Int → Int → Option Int) :=
  fun n => if n = "min" then some (fun2 B.listMin) else if n = "max" then some (fun2 B.listMax) else Option.none

def listRo (B : Bodies) (h : Nat) : Ro := ⟨0, h, [], noCall, listFns B⟩

def listM (s : SimpleList.St) (k : Nat) : M :=
  { m0 with φ := [("d.index", s.index), ("d.offset", s.offset), ("#d.items", (s.n : Int))], ρ := [("#v0", (k : Int))] }

def listSt (m : M) : Option SimpleList.St :=
  match lookup m.φ "d.index", lookup m.φ "d.offset", lookup m.φ "#d.items" with
  | some i, some o, some n => some { index := i, offset := o, n := n.toNat }
  | _, _, _ => Option.none

/-- A method of `List` with window height `h` (and, for `SetItems`, `k` new items): the new state and the
    rows printed, or the panic; `none` = the interpreter got stuck. -/
def runList (B : Bodies) (body : Stmt) (s : SimpleList.St) (h k : Nat) : Option (Except Unit (SimpleList.St × List Row)) :=
  match exec (listRo B h) body 0 (listM s k) with
  | .error .panic => some (.error ())
  | .error _ => Option.none
  | .ok (m, _) => (listSt m).map fun s' => .ok (s', m.rows)

/-- `New(items)` with `k` items: the `List` returned. -/
def runListNew (body : Stmt) (k : Nat) : Option SimpleList.St :=
  match exec ⟨0, 0, [], noCall, noFn⟩ body 0 { m0 with ρ := [("#v0", (k : Int))] } with
  | .ok (m, .ret []) => listSt m
  | _ => Option.none

/-- `Index()`. -/
def runListIndex (body : Stmt) (s : SimpleList.St) : Option Int :=
  match exec ⟨0, 0, [], noCall, noFn⟩ body 0 (listM s 0) with
  | .ok (_, .ret [v]) => some v
  | _ => Option.none

/-! #### widgets/pager -/

def fillCh : Ch := ⟨[32], 1⟩

def pagerM (s : Pager.St) (w h : Nat) (fillEmpty : Bool) : M :=
  { m0 with φ := [("d.Offset", s.offset), ("d.width", s.width)], lines := s.lines, win := blank w h,
            χ := [("d.Fill.Grapheme", if fillEmpty then ⟨[], 0⟩ else fillCh), ("defaultFill", fillCh)] }

def pagerSt (text : List Ch) (m : M) : Option Pager.St :=
  match lookup m.φ "d.Offset", lookup m.φ "d.width" with
  | some o, some w => some { text := text, lines := m.lines, offset := o, width := w }
  | _, _ => Option.none

/-- `line.append` as a callee. -/
def appendCallee (B : Bodies) : M → Res :=
  fun m => exec ⟨0, 0, [], noCall, noFn⟩ B.lineAppend 0 m

def lineCalls (B : Bodies) : String → Option (M → Res) :=
  fun n => if n = "line.append" then some (appendCallee B) else Option.none

def layoutCallee (B : Bodies) (segs : List (List Ch)) : M → Res :=
  fun m => exec ⟨0, 0, segs, lineCalls B, noFn⟩ B.pagerLayout 0 m

def pagerRo (B : Bodies) (segs : List (List Ch)) (w h : Nat) : Ro :=
  ⟨w, h, segs, fun n => if n = "d.Layout" then some (layoutCallee B segs) else if n = "line.append" then some (appendCallee B) else Option.none, noFn⟩

/-- A method of the pager (`Draw` with a `w × h` window, `Layout`, `ScrollDown`, `ScrollUp`) on the
    `Segments` whose characters are `segs`: the new state and the window. -/
def runPager (B : Bodies) (body : Stmt) (segs : List (List Ch)) (s : Pager.St) (w h : Nat) (fillEmpty : Bool) :
    Option (Pager.St × Win) :=
  match exec (pagerRo B segs w h) body 0 (pagerM s w h fillEmpty) with
  | .error _ => Option.none
  | .ok (m, _) => (pagerSt segs.flatten m).map fun s' => (s', m.win)

/-! #### widgets/scrollbar -/

def barCh : Ch := ⟨[226, 150, 144], 1⟩

def barM (total view top : Int) (w h : Nat) (charEmpty : Bool) : M :=
  { m0 with φ := [("d.TotalHeight", total), ("d.ViewHeight", view), ("d.Top", top)], win := blank w h,
            χ := [("d.Character", if charEmpty then ⟨[], 0⟩ else barCh), ("d.Character.Grapheme", if charEmpty then ⟨[], 0⟩ else barCh),
                  ("defaultChar", barCh)] }

/-- The rows of the window whose first cell received a character. -/
def barRows (win : Win) : List Nat :=
  (List.range win.length).filter fun r => match win[r]? with
    | some (some _ :: _) => true
    | _ => false

/-- `Draw` of the scrollbar into a `w × h` window: the rows that received the bar. -/
def runBar (body : Stmt) (total view top : Int) (w h fuel : Nat) (charEmpty : Bool) : Option (List Nat) :=
  match exec ⟨w, h, [], noCall, noFn⟩ body fuel (barM total view top w h charEmpty) with
  | .error _ => Option.none
  | .ok (m, _) => some (barRows m.win)

end VaxisModel.Model.WidExec
