/-
The regenerated bodies of the widgets (`Gen/WidSkel.lean`), parsed: what the driver runs and what
`Props/C19Wid.lean` speaks about.
-/
import VaxisModel.Model.WidExec
import VaxisModel.Gen.WidSkel

namespace VaxisModel.Model.WidExec
open VaxisModel.Model.DynExec (parseBody)
open VaxisModel.Gen

def genB : Bodies :=
  ⟨parseBody WidSkel.listMin, parseBody WidSkel.listMax, parseBody WidSkel.listNew, parseBody WidSkel.listIndex, parseBody WidSkel.listDraw,
   parseBody WidSkel.listDown, parseBody WidSkel.listUp, parseBody WidSkel.listHome, parseBody WidSkel.listEnd,
   parseBody WidSkel.listPageDown, parseBody WidSkel.listPageUp, parseBody WidSkel.listSetItems,
   parseBody WidSkel.pagerDraw, parseBody WidSkel.pagerLayout, parseBody WidSkel.pagerScrollDown,
   parseBody WidSkel.pagerScrollUp, parseBody WidSkel.lineAppend, parseBody WidSkel.barDraw⟩

/-- All the regenerated widget bodies (also the ones pinned only syntactically: `New`, `line.append`). -/
def allBodies : List (List GoSyn.Line) :=
  [WidSkel.listMin, WidSkel.listMax, WidSkel.listNew, WidSkel.listIndex, WidSkel.listDraw, WidSkel.listDown, WidSkel.listUp,
   WidSkel.listHome, WidSkel.listEnd, WidSkel.listPageDown, WidSkel.listPageUp, WidSkel.listSetItems, WidSkel.pagerDraw,
   WidSkel.pagerLayout, WidSkel.pagerScrollDown, WidSkel.pagerScrollUp, WidSkel.lineAppend, WidSkel.barDraw]

end VaxisModel.Model.WidExec
