/-
Model of `Vaxis.RenderedWidth`'s choice of measuring method (vaxis.go / gwidth.go). The three
measurements themselves (uniseg.StringWidth, the ZWJ-stripped variant, the runewidth sum) are
library functions: parameters, supplied by the harness.
-/
namespace VaxisModel.Model.Width

/-- The three measuring methods of gwidth.go. -/
inductive WidthMethod | wcwidth | noZWJ | unicodeStd
  deriving DecidableEq, Repr

/-- `RenderedWidth`: `unicodeStd` if unicodeCore or explicitWidth, else `noZWJ` if the quirk, else `wcwidth`. -/
def widthMethod (unicodeCore explicitWidth noZWJ : Bool) : WidthMethod :=
  if unicodeCore || explicitWidth then .unicodeStd else if noZWJ then .noZWJ else .wcwidth

end VaxisModel.Model.Width
