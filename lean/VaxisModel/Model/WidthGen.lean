import VaxisModel.Model.Width
import VaxisModel.Gen.WidthSel

/-!
Interpreter of the statement chain of `Vaxis.RenderedWidth` as the extractor `C07sel` regenerates it
from vaxis.go (`Gen/WidthSel.lean`): the conditions are evaluated in source order over the three
capability fields the function reads; the first statement whose condition holds returns the method
constant it hands to `gwidth`.  Anything the extractor did not recognise (a `?…` atom or method, a
field other than the three, a chain that falls off its end) is `none`.  Core Lean only.
-/
namespace VaxisModel.Model.WidthGen
open VaxisModel.Model.Width

/-- The fields of `vx.caps` that `RenderedWidth` may read. -/
def field (u e z : Bool) (name : String) : Option Bool :=
  if name = "unicodeCore" then some u
  else if name = "explicitWidth" then some e
  else if name = "noZWJ" then some z
  else none

/-- A literal `(positive?, field)`. -/
def evalLit (u e z : Bool) (l : Bool × String) : Option Bool :=
  (field u e z l.2).map fun b => if l.1 then b else !b

/-- A conjunction (Go's `&&`, left to right; an unknown operand makes the whole value unknown). -/
def evalConj (u e z : Bool) : List (Bool × String) → Option Bool
  | [] => some true
  | l :: r => match evalLit u e z l, evalConj u e z r with
    | some a, some b => some (a && b)
    | _, _ => none

/-- A disjunction of conjunctions (Go's `||`). -/
def evalDnf (u e z : Bool) : List (List (Bool × String)) → Option Bool
  | [] => some false
  | k :: r => match evalConj u e z k, evalDnf u e z r with
    | some a, some b => some (a || b)
    | _, _ => none

/-- The constants of `graphemeWidthMethod`. -/
def methodOf (name : String) : Option WidthMethod :=
  if name = "wcwidth" then some .wcwidth
  else if name = "noZWJ" then some .noZWJ
  else if name = "unicodeStd" then some .unicodeStd
  else none

/-- Run the chain: the first statement whose condition holds returns. -/
def interp (u e z : Bool) : List (List (List (Bool × String)) × String) → Option WidthMethod
  | [] => none
  | (c, m) :: r => match evalDnf u e z c with
    | some true => methodOf m
    | some false => interp u e z r
    | none => none

/-- `RenderedWidth`'s choice as the current source makes it. -/
def widthMethodGen (u e z : Bool) : Option WidthMethod := interp u e z VaxisModel.Gen.WidthSel.renderedWidth

end VaxisModel.Model.WidthGen
