/-
Model of /repo/window.go, /repo/screen.go (setCell/setStyle) and /repo/character.go (Characters).
Core Lean only.

Go `int` is `Int`.  A `Window` is its geometry plus the parent chain.  Go's `Parent *Window`
(nil or a pointer) is the `Option`-valued accessor `Win.parent`; the type itself is written with
two constructors (`root` = Parent nil, `child` = Parent non-nil) instead of a structure with an
`Option Win` field, because Lean's `induction` does not work on nested inductives.  The two
presentations are isomorphic.

Everything about Unicode is a parameter (DESIGN §3.1): a raw grapheme cluster arrives with the
width uniseg measured (`uw`) and the flag "is exactly a TAB"; `Lib` holds the functions of the
grapheme string that window.go calls (`characterWidth`, `strings.ContainsRune(·,'\n')`,
`uniseg.HasTrailingLineBreakInString`).  Theorems quantify over all of them.
-/
import VaxisModel.Gen.WindowFacts

namespace VaxisModel.Model.Window

/-- vaxis.Cell: Character{Grapheme, Width} + Style.  Grapheme strings and styles are opaque ids. -/
structure Cell where
  g : Nat
  w : Int
  st : Nat
deriving DecidableEq, Repr, Inhabited

/-- Reserved grapheme ids used by the code itself. -/
def gEmpty : Nat := 0      -- "" (zero Cell)
def gSpace : Nat := 1      -- " "
def gEllipsis : Nat := 2   -- "…"

/-! ## screen.go -/

structure Screen where
  cols : Int
  rows : Int
  buf : List (List Cell)
deriving Repr

/-- `resize`: `rows` rows of `cols` zero cells. -/
def Screen.resize (cols rows : Int) : Screen :=
  { cols := cols, rows := rows, buf := List.replicate rows.toNat (List.replicate cols.toNat default) }

/-- What `resize` establishes and every method preserves: the slices have the recorded sizes. -/
def Screen.WF (s : Screen) : Prop :=
  0 ≤ s.cols ∧ 0 ≤ s.rows ∧ s.buf.length = s.rows.toNat ∧ ∀ l ∈ s.buf, l.length = s.cols.toNat

/-- Read a cell (none = outside the allocated buffer). -/
def Screen.get (s : Screen) (x y : Int) : Option Cell :=
  if x < 0 ∨ y < 0 then none else
  match s.buf[y.toNat]? with
  | some l => l[x.toNat]?
  | none => none

/-- The guards of `screen.setCell` / `screen.setStyle`, in source order. -/
def Screen.guard (s : Screen) (col row : Int) : Bool :=
  if col < 0 ∨ row < 0 then false
  else if col ≥ s.cols then false
  else if row ≥ s.rows then false
  else true

/-- `s.buf[row][col] = f(s.buf[row][col])`.  An index outside the buffer would be a Go panic;
`Props.C11.screen_index_ok` shows it cannot happen under `WF`, so the total `modify` is faithful. -/
def Screen.update (s : Screen) (col row : Int) (f : Cell → Cell) : Screen :=
  { s with buf := s.buf.modify row.toNat (fun l => l.modify col.toNat f) }

def Screen.setCell (s : Screen) (col row : Int) (c : Cell) : Screen :=
  if s.guard col row then s.update col row (fun _ => c) else s

def Screen.setStyle (s : Screen) (col row : Int) (st : Nat) : Screen :=
  if s.guard col row then s.update col row (fun c => { c with st := st }) else s

/-! ## window.go -/

inductive Win where
  | root (col row w h : Int)
  | child (col row w h : Int) (parent : Win)
deriving Repr

namespace Win

def col : Win → Int | root c _ _ _ => c | child c _ _ _ _ => c
def row : Win → Int | root _ r _ _ => r | child _ r _ _ _ => r
def width : Win → Int | root _ _ w _ => w | child _ _ w _ _ => w
def height : Win → Int | root _ _ _ h => h | child _ _ _ h _ => h
def parent : Win → Option Win | root .. => none | child _ _ _ _ p => some p

/-- `vx.Window()`: the full screen. -/
def ofScreen (s : Screen) : Win := root 0 0 s.cols s.rows

/-- `win.New(col,row,cols,rows)` with its two clamping switches. -/
def new (win : Win) (col row cols rows : Int) : Win :=
  let w := win.width
  let h := win.height
  let width := if cols < 0 then w - col else if cols + col > w then w - col else cols
  let height := if rows < 0 then h - row else if rows + row > h then h - row else rows
  child col row width height win

/-- A window built as a struct literal with a parent pointer (no clamping). -/
def direct (win : Win) (col row cols rows : Int) : Win := child col row cols rows win

/-- The two guards at the top of `SetCell` / `SetStyle`. -/
def guard (win : Win) (col row : Int) : Bool :=
  if row ≥ win.height ∨ col ≥ win.width then false
  else if row < 0 ∨ col < 0 then false
  else true

/-- One primitive write: a whole cell or just the style. -/
inductive Put where
  | cell (c : Cell)
  | style (st : Nat)
deriving Repr, DecidableEq

def Put.apply : Put → Cell → Cell
  | .cell c, _ => c
  | .style st, old => { old with st := st }

def screenPut (s : Screen) (col row : Int) (p : Put) : Screen :=
  match p with
  | .cell c => s.setCell col row c
  | .style st => s.setStyle col row st

/-- `SetCell` and `SetStyle` (identical control flow): guard, then delegate to the parent or, at
the root, to the screen. -/
def put : Win → Screen → Int → Int → Put → Screen
  | root c0 r0 w h, s, col, row, p =>
      if (root c0 r0 w h).guard col row then screenPut s (col + c0) (row + r0) p else s
  | child c0 r0 w h par, s, col, row, p =>
      if (child c0 r0 w h par).guard col row then par.put s (col + c0) (row + r0) p else s

def setCell (win : Win) (s : Screen) (col row : Int) (c : Cell) : Screen := win.put s col row (.cell c)
def setStyle (win : Win) (s : Screen) (col row : Int) (st : Nat) : Screen := win.put s col row (.style st)

/-- `Origin()`: sum of the offsets along the parent chain. -/
def origin : Win → Int × Int
  | root c r _ _ => (c, r)
  | child c r _ _ p => ((p.origin).1 + c, (p.origin).2 + r)

end Win

/-- A `SetCell` call: window-relative column, row and the cell. -/
structure Op where
  col : Int
  row : Int
  cell : Cell
deriving Repr, DecidableEq

/-- Run a sequence of `SetCell` calls in order. -/
def applyOps (win : Win) (s : Screen) (ops : List Op) : Screen :=
  ops.foldl (fun s o => win.setCell s o.col o.row o.cell) s

/-- `for i := 0; i < n; i++` over Go ints: no iteration when `n ≤ 0`. -/
def upTo (n : Int) : List Int := (List.range n.toNat).map Int.ofNat

/-- `Fill`: rows outer, columns inner. -/
def fillOps (win : Win) (c : Cell) : List Op :=
  (upTo win.height).flatMap fun row => (upTo win.width).map fun col => { col := col, row := row, cell := c }

def fill (win : Win) (s : Screen) (c : Cell) : Screen := applyOps win s (fillOps win c)

/-- `Clear`: fill with `Cell{Character{" ",1}}` (the reset of `graphicsNext` is outside this model). -/
def clearCell : Cell := { g := gSpace, w := 1, st := 0 }
def clear (win : Win) (s : Screen) : Screen := fill win s clearCell

/-! ## character.go -/

/-- A grapheme cluster as uniseg returns it: id, uniseg width, and whether it is exactly "\t". -/
structure Raw where
  g : Nat
  uw : Int
  tab : Bool
deriving Repr, DecidableEq

/-- vaxis.Character. -/
structure Chr where
  g : Nat
  w : Int
deriving Repr, DecidableEq

/-- `Characters`: a TAB becomes eight `{" ",1}` (count and cell pinned to the source by
`Props.C11.facts_characters_tab`). -/
def characters : List Raw → List Chr
  | [] => []
  | r :: rest =>
      if r.tab then List.replicate 8 { g := gSpace, w := 1 } ++ characters rest
      else { g := r.g, w := r.uw } :: characters rest

/-- Functions of the grapheme string that window.go calls (library parameters). -/
structure Lib where
  cw : Nat → Int          -- vx.characterWidth under the current capabilities
  hasNL : Nat → Bool      -- strings.ContainsRune(g, '\n')
  trailBrk : Nat → Bool   -- uniseg.HasTrailingLineBreakInString(g)

/-- `!win.Vx.caps.unicodeCore || !win.Vx.caps.explicitWidth`. -/
def remeasure (unicodeCore explicitWidth : Bool) : Bool := !unicodeCore || !explicitWidth

/-- `if <remeasure> { char.Width = characterWidth(char.Grapheme) }`. -/
def measured (lib : Lib) (rm : Bool) (ch : Chr) : Chr :=
  if rm then { ch with w := lib.cw ch.g } else ch

/-- A Segment after `Characters(seg.Text)`: style tag and characters. -/
abbrev Styled := Nat × Chr

def flatten (segs : List (Nat × List Raw)) : List Styled :=
  segs.flatMap fun seg => (characters seg.2).map fun ch => (seg.1, ch)

/-- `Print`: the nested loops over segments and characters flattened into one list (the only
non-local exit, `return col, row`, leaves both loops).  Returns the `SetCell` calls in order and
the returned `(col,row)`.  After the re-measure comes the fit test (F111 repair): a cluster that
does not fit in the rest of the row goes on the next row, or nowhere (`continue`) if it is wider
than the window. -/
def printGo (lib : Lib) (rm : Bool) (cols rows : Int) : List Styled → Int → Int → List Op × Int × Int
  | [], col, row => ([], col, row)
  | (st, ch0) :: rest, col, row =>
      if lib.hasNL ch0.g then printGo lib rm cols rows rest 0 (row + 1)
      else if row > rows then ([], col, row)
      else
        let ch := measured lib rm ch0
        if col + ch.w > cols ∧ ch.w > cols then printGo lib rm cols rows rest col row
        else
          let p : Int × Int := if col + ch.w > cols then (0, row + 1) else (col, row)
          let op : Op := { col := p.1, row := p.2, cell := { g := ch.g, w := ch.w, st := st } }
          let col' := p.1 + ch.w
          let r := if col' ≥ cols then printGo lib rm cols rows rest 0 (p.2 + 1)
                   else printGo lib rm cols rows rest col' p.2
          (op :: r.1, r.2)

def printOps (lib : Lib) (rm : Bool) (win : Win) (segs : List (Nat × List Raw)) : List Op × Int × Int :=
  printGo lib rm win.width win.height (flatten segs) 0 0

def print (lib : Lib) (rm : Bool) (win : Win) (s : Screen) (segs : List (Nat × List Raw)) : Screen × Int × Int :=
  let r := printOps lib rm win segs
  (applyOps win s r.1, r.2)

/-- `PrintTruncate` after the `row >= rows` test. -/
def truncGo (lib : Lib) (rm : Bool) (cols row : Int) : List Styled → Int → List Op
  | [], _ => []
  | (st, ch0) :: rest, col =>
      let ch := measured lib rm ch0
      let w := ch.w
      if col + 1 + w > cols then
        [{ col := col, row := row, cell := { g := gEllipsis, w := 1, st := st } }]
      else
        { col := col, row := row, cell := { g := ch.g, w := ch.w, st := st } } :: truncGo lib rm cols row rest (col + w)

def printTruncateOps (lib : Lib) (rm : Bool) (win : Win) (row : Int) (segs : List (Nat × List Raw)) : List Op :=
  if row ≥ win.height then [] else truncGo lib rm win.width row (flatten segs) 0

def printTruncate (lib : Lib) (rm : Bool) (win : Win) (s : Screen) (row : Int) (segs : List (Nat × List Raw)) : Screen :=
  applyOps win s (printTruncateOps lib rm win row segs)

/-- `Println` after the `row >= rows` test. -/
def lnGo (lib : Lib) (rm : Bool) (cols row : Int) : List Styled → Int → List Op
  | [], _ => []
  | (st, ch0) :: rest, col =>
      let ch := measured lib rm ch0
      let w := ch.w
      if col + w > cols then []
      else { col := col, row := row, cell := { g := ch.g, w := ch.w, st := st } } :: lnGo lib rm cols row rest (col + w)

def printlnOps (lib : Lib) (rm : Bool) (win : Win) (row : Int) (segs : List (Nat × List Raw)) : List Op :=
  if row ≥ win.height then [] else lnGo lib rm win.width row (flatten segs) 0

def println (lib : Lib) (rm : Bool) (win : Win) (s : Screen) (row : Int) (segs : List (Nat × List Raw)) : Screen :=
  applyOps win s (printlnOps lib rm win row segs)

/-! ### Wrap

`wrapRemeasured` says whether the width measured in Wrap's first loop is stored back into `chars`
(so that the second loop advances by it).  It mirrors the source: `false` while the first loop
assigns to its loop-local copy (finding F34), `true` once it assigns to `chars[i]`. -/

/-- Second loop of Wrap over one line segment (with the same fit test as `Print`). -/
def wrapChars (lib : Lib) (cols : Int) (st : Nat) : List Chr → Int → Int → List Op × Int × Int
  | [], col, row => ([], col, row)
  | ch :: rest, col, row =>
      if lib.trailBrk ch.g then wrapChars lib cols st rest 0 (row + 1)
      else if col + ch.w > cols ∧ ch.w > cols then wrapChars lib cols st rest col row
      else
        let p : Int × Int := if col + ch.w > cols then (0, row + 1) else (col, row)
        let op : Op := { col := p.1, row := p.2, cell := { g := ch.g, w := ch.w, st := st } }
        let col' := p.1 + ch.w
        let r := if col' ≥ cols then wrapChars lib cols st rest 0 (p.2 + 1)
                 else wrapChars lib cols st rest col' p.2
        (op :: r.1, r.2)

def sumW : List Chr → Int
  | [] => 0
  | c :: r => c.w + sumW r

/-- Inner `for len(rest) > 0` loop over the line segments of one Segment. -/
def wrapSegs (lib : Lib) (rm stored : Bool) (cols rows : Int) (st : Nat) : List (List Raw) → Int → Int → List Op × Int × Int
  | [], col, row => ([], col, row)
  | seg :: rest, col, row =>
      if row ≥ rows then ([], col, row)
      else
        let chars := characters seg
        let meas := chars.map (measured lib rm)
        let total := sumW meas
        let chars2 := if stored then meas else chars
        let (col1, row1) := if total > cols then (col, row)
                            else if total + col > cols then (0, row + 1)
                            else (col, row)
        let a := wrapChars lib cols st chars2 col1 row1
        let b := wrapSegs lib rm stored cols rows st rest a.2.1 a.2.2
        (a.1 ++ b.1, b.2)

/-- Outer loop over Segments; each is `(style, line segments)`. -/
def wrapGo (lib : Lib) (rm stored : Bool) (cols rows : Int) : List (Nat × List (List Raw)) → Int → Int → List Op × Int × Int
  | [], col, row => ([], col, row)
  | (st, lsegs) :: rest, col, row =>
      let a := wrapSegs lib rm stored cols rows st lsegs col row
      let b := wrapGo lib rm stored cols rows rest a.2.1 a.2.2
      (a.1 ++ b.1, b.2)

/-- Does Wrap's measuring loop write the width back (see above)?  Read from the source by the
extractor on every run. -/
def wrapRemeasured : Bool := Gen.WindowFacts.wrapStoresWidth

def wrapOps (lib : Lib) (rm : Bool) (win : Win) (segs : List (Nat × List (List Raw))) : List Op × Int × Int :=
  wrapGo lib rm wrapRemeasured win.width win.height segs 0 0

def wrap (lib : Lib) (rm : Bool) (win : Win) (s : Screen) (segs : List (Nat × List (List Raw))) : Screen × Int × Int :=
  let r := wrapOps lib rm win segs
  (applyOps win s r.1, r.2)

end VaxisModel.Model.Window
