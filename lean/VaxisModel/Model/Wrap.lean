/-
Model of the soft-wrap / hard-wrap scanners and the row loops of the text widgets
(`/repo/vxfw/text/text.go`, `/repo/vxfw/richtext/richtext.go`).  Core Lean only.

A text is a list of cells.  Unicode facts are *parameters* (DESIGN §3.1): each cell carries the
values the Go code obtains from uniseg / unicode for its grapheme cluster
(`w` = `Character.Width`, `sp` = `unicode.IsSpace` of the cluster, `term` =
`uniseg.HasTrailingLineBreak`, `nl` = `Grapheme == "\n"`), and line segmentation is an oracle:

* rich text: `firstLineSegment` is transcribed; its pairwise `uniseg.FirstLineSegmentInString(g₁+g₂)`
  call is the parameter `lb : Nat → Nat → Bool` (over grapheme ids);
* plain text: `uniseg.FirstLineSegment(rest, state)` is the parameter
  `seg : σ → List Cell → Nat × Bool × σ` (length in cells of the first segment, must-break flag, new
  state).

Both `SoftwrapScanner.Scan` functions have the same body up to the segmentation call; the model has
one loop `scanLoop`, instantiated twice (`richScan`, `plainScan`).  Differences of the two Go
functions that are invisible at the level of cells are listed in notes/C16.md.

Since the F45 fix the scanners sum widths as Go `int` (`width := int(s.width)`, `wordLen += char.Width`);
widths are never negative, so the model uses `Nat` (an `int` cannot overflow here: a text of 2^63
columns does not exist).  The row loops of Draw still count columns in `uint16`, modelled as `UInt16`.
Loops that are not structurally terminating take fuel; fuel exhaustion is the value `hang`.
-/
namespace VaxisModel.Model.Wrap

structure Cell where
  /-- grapheme id (an index into the harness' table of distinct clusters) -/
  g : Nat
  /-- `Character.Width` (Go `int`, never negative) -/
  w : Nat
  style : Nat
  /-- whitespace: `unicode.IsSpace` of the cluster's last rune (richtext "TrimRight") / of all its
      runes (`bytes.TrimRightFunc` in text.go) -/
  sp : Bool
  /-- `uniseg.HasTrailingLineBreakInString(Grapheme)` -/
  term : Bool
  /-- the cell test of HardwrapScanner: `uniseg.HasTrailingLineBreakInString(Grapheme)` since the F516
      fix (`Grapheme == "\n"` before); kept as a flag of its own -/
  nl : Bool
  deriving DecidableEq, Repr, Inhabited

/-- `uint16(char.Width)` -/
def Cell.w16 (c : Cell) : UInt16 := UInt16.ofNat c.w

/-- `for _, ch := range l { n += uint16(ch.Width) }` (findContainerSize) -/
def sum16 (l : List Cell) : UInt16 := l.foldl (fun a c => a + c.w16) 0

/-- `for _, ch := range l { n += ch.Width }` (Scan, `int`) -/
def sumW : List Cell → Nat
  | [] => 0
  | c :: cs => c.w + sumW cs

/-- `bytes.TrimRightFunc(seg, unicode.IsSpace)` / the "TrimRight" loop of richtext. -/
def trimRight (seg : List Cell) : List Cell := (seg.reverse.dropWhile (·.sp)).reverse

/-- The long-word loop (after the F44 fix):
```
for _, char := range word {
    if len(s.token) > 0 && w+char.Width > width { w = width }
    if w >= width { s.rest = append(s.rest, char); continue }
    s.token = append(s.token, char); w += char.Width
}
```
`ne` is `len(s.token) > 0`; returns (appended to token, appended to rest). -/
def splitLong (width : Nat) : Bool → Nat → List Cell → List Cell × List Cell
  | _, _, [] => ([], [])
  | ne, w, c :: cs =>
    let w := if ne && w + c.w > width then width else w
    if w ≥ width then
      let r := splitLong width ne w cs
      (r.1, c :: r.2)
    else
      let r := splitLong width true (w + c.w) cs
      (c :: r.1, r.2)

/-- Result of one `Scan()` call. -/
inductive Scan (σ : Type) where
  /-- returned false -/
  | stop
  /-- never returns (fuel exhausted) -/
  | hang
  /-- returned true: new `rest`, new segmentation state, `token` -/
  | line (rest : List Cell) (st : σ) (tok : List Cell)
  deriving Repr

/-- Strip the hard break: `if HasTrailingLineBreak(last) { seg = seg[:len(seg)-1] }`. -/
def stripBreak (seg : List Cell) : List Cell :=
  match seg.getLast? with
  | some l => if l.term then seg.dropLast else seg
  | none => seg

/-- The `for { … }` loop of `SoftwrapScanner.Scan` (both packages).  `o st rest` is the segmentation
call; `k` is clamped by `take`/`drop` exactly as Go slicing of the returned prefix.  `ini` is the state
`-1` ("unknown") that text.go stores after a long-word split; richtext has no state. -/
def scanLoop {σ : Type} (o : σ → List Cell → Nat × Bool × σ) (ini : σ) (width : Nat) :
    Nat → List Cell → σ → List Cell → Nat → Scan σ
  | 0, _, _, _, _ => .hang
  | fuel + 1, rest, st, token, w =>
    let r := o st rest
    let seg := rest.take r.1
    let rest' := rest.drop r.1
    let br := r.2.1
    let word := trimRight seg
    let trSpace := seg.drop word.length
    let wordLen := sumW word
    let spaceLen := sumW trSpace
    if wordLen > width then
      let sp := splitLong width (!token.isEmpty) w word
      -- `s.state = -1` (F116 fix): after a split `rest` no longer starts where `state` belongs
      .line (sp.2 ++ trSpace ++ rest') ini (token ++ sp.1)
    else if w + wordLen > width then
      .line rest st token
    else if br then
      .line rest' r.2.2 (token ++ stripBreak seg)
    else
      let token := token ++ word
      let w := w + wordLen
      if w + spaceLen > width then
        .line rest' r.2.2 token
      else
        scanLoop o ini width fuel rest' r.2.2 (token ++ trSpace) (w + spaceLen)

/-- `SoftwrapScanner.Scan`. The fuel `rest.length` suffices for every oracle returning non-empty
prefixes (theorem `scan_terminates`); a smaller progress would be a hang of the Go loop. -/
def scan {σ : Type} (o : σ → List Cell → Nat × Bool × σ) (ini : σ) (width : Nat)
    (rest : List Cell) (st : σ) : Scan σ :=
  if rest.isEmpty || width == 0 then .stop
  else scanLoop o ini width rest.length rest st [] 0

/-- Outcome of `for scanner.Scan() { lines = append(lines, scanner.Text()) }`. -/
inductive Lines where
  | hang
  | ok (ls : List (List Cell))
  deriving Repr, DecidableEq

def scanAll {σ : Type} (o : σ → List Cell → Nat × Bool × σ) (ini : σ) (width : Nat) :
    Nat → List Cell → σ → Lines
  | 0, _, _ => .hang
  | fuel + 1, rest, st =>
    match scan o ini width rest st with
    | .stop => .ok []
    | .hang => .hang
    | .line rest' st' tok =>
      match scanAll o ini width fuel rest' st' with
      | .ok ls => .ok (tok :: ls)
      | .hang => .hang

/-- All lines of a text (fuel: one more `Scan` than there are cells). -/
def lines {σ : Type} (o : σ → List Cell → Nat × Bool × σ) (ini : σ) (width : Nat)
    (cells : List Cell) (st0 : σ) : Lines :=
  scanAll o ini width (cells.length + 1) cells st0

/-! ### richtext.firstLineSegment -/

/-- `firstLineSegment(cells)`: length of the returned prefix and the break flag.  `first` is
`i == 0`.  The final `return cells, false` is reached for the empty slice only. -/
def firstLineSegment (lb : Nat → Nat → Bool) : Bool → List Cell → Nat × Bool
  | _, [] => (0, false)
  | _, [_] => (1, true)
  | first, c :: n :: rest =>
    if first && c.term then (1, true)
    else if n.term then (2, true)
    else if lb c.g n.g then (1, false)
    else
      let r := firstLineSegment lb false (n :: rest)
      (r.1 + 1, r.2)

def richOracle (lb : Nat → Nat → Bool) : Unit → List Cell → Nat × Bool × Unit :=
  fun _ rest => let r := firstLineSegment lb true rest; (r.1, r.2, ())

def richScan (lb : Nat → Nat → Bool) (width : Nat) (rest : List Cell) : Scan Unit :=
  scan (richOracle lb) () width rest ()

def richLines (lb : Nat → Nat → Bool) (width : Nat) (cells : List Cell) : Lines :=
  lines (richOracle lb) () width cells ()

/-! ### text.SoftwrapScanner: `uniseg.FirstLineSegment(rest, state)` is the oracle itself. -/

def plainLines {σ : Type} (seg : σ → List Cell → Nat × Bool × σ) (width : Nat)
    (cells : List Cell) (st0 : σ) : Lines :=
  lines seg st0 width cells st0

/-! ### richtext.HardwrapScanner -/

/-- The `for i, cell := range h.cells` loop: returns (line, remaining cells). -/
def hardLoop : List Cell → List Cell → List Cell × List Cell
  | line, [] => (line, [])
  | line, c :: cs =>
    if c.nl then
      if cs.isEmpty then (line, [])      -- `if i == len(h.cells)-1 { break }`
      else (line, cs)                    -- `h.cells = h.cells[i+1:]; return true`
    else hardLoop (line ++ [c]) cs

/-- `HardwrapScanner.Scan`: `none` = false. -/
def hardScan (cells : List Cell) : Option (List Cell × List Cell) :=
  if cells.isEmpty then none else some (hardLoop [] cells)

def hardAll : Nat → List Cell → Lines
  | 0, _ => .hang
  | fuel + 1, cells =>
    match hardScan cells with
    | none => .ok []
    | some (line, rest) =>
      match hardAll fuel rest with
      | .ok ls => .ok (line :: ls)
      | .hang => .hang

def hardLines (cells : List Cell) : Lines := hardAll (cells.length + 1) cells

/-! ### text.hardLines (the lines of a `Text` that is not soft-wrapped; /repo 3fa26b1, finding F616) -/

/-- The loop of `hardLines(s)` over the grapheme clusters of `s` (`cur` = the clusters since `start`, latest first):
```
for len(rest) > 0 {
    cluster, rest, _, state = uniseg.FirstGraphemeClusterInString(rest, state)
    if uniseg.HasTrailingLineBreakInString(cluster) { lines = append(lines, s[start:pos]); start = pos + len(cluster) }
    pos += len(cluster)
}
if start < len(s) { lines = append(lines, s[start:]) }
```
`nl` is the cluster test (`HasTrailingLineBreakInString`, the one `HardwrapScanner` uses). -/
def textHardLoop : List Cell → List Cell → List (List Cell)
  | cur, [] => if cur.isEmpty then [] else [cur.reverse]
  | cur, c :: cs => if c.nl then cur.reverse :: textHardLoop [] cs else textHardLoop (c :: cur) cs

def textHardLines (cells : List Cell) : List (List Cell) := textHardLoop [] cells

/-! ### The row loops of `Text.drawSoftwrap` / `RichText.drawSoftwrap` and `findContainerSize` -/

/-- `for _, char := range chars { if col >= Max.Width { break }; WriteCell(col,row,cell); col += uint16(char.Width) }`:
the list of (column, cell) writes of one row. -/
def drawRow (maxW : UInt16) : UInt16 → List Cell → List (UInt16 × Cell)
  | _, [] => []
  | col, c :: cs => if col ≥ maxW then [] else (col, c) :: drawRow maxW (col + c.w16) cs

/-- `for scanner.Scan() { if row >= Max.Height { return }; …; row += 1 }` (`>=` since /repo 39d6880). -/
def drawRows (maxW maxH : UInt16) : UInt16 → List (List Cell) → List (UInt16 × List (UInt16 × Cell))
  | _, [] => []
  | row, l :: ls =>
    if row ≥ maxH then [] else (row, drawRow maxW 0 l) :: drawRows maxW maxH (row + 1) ls

/-- `findContainerSize` (soft-wrap branch): (width, height). -/
def containerSize (maxW maxH : UInt16) : UInt16 × UInt16 → List (List Cell) → UInt16 × UInt16
  | sz, [] => sz
  | (sw, sh), l :: ls =>
    if sh ≥ maxH then (sw, sh)   -- `size.Height >= ctx.Max.Height` (C14's F39 fix)
    else
      let w := sum16 l
      let sw := if sw < w then w else sw
      let sw := if sw > maxW then maxW else sw
      containerSize maxW maxH (sw, sh + 1) ls

/-- The surface after the writes: `WriteCell` ignores `col >= Size.Width || row >= Size.Height`
(C14's F42 fix).  Result: for each row `< height`, the last cell written
at every column. -/
def surfaceRow (width : Nat) (writes : List (UInt16 × Cell)) : List (Option Cell) :=
  (List.range width).map fun col =>
    (writes.reverse.find? (fun p => p.1.toNat == col)).map (·.2)

def surface (maxW maxH : UInt16) (ls : List (List Cell)) : (UInt16 × UInt16) × List (List (Option Cell)) :=
  let sz := containerSize maxW maxH (0, 0) ls
  let rows := drawRows maxW maxH 0 ls
  (sz, (List.range sz.2.toNat).map fun r =>
    match rows.find? (fun p => p.1.toNat == r) with
    | some (_, ws) => surfaceRow sz.1.toNat ws
    | none => surfaceRow sz.1.toNat [])

end VaxisModel.Model.Wrap
