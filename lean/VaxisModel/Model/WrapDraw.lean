/-
Model of `Text.Draw` / `RichText.Draw` (vxfw/text/text.go, vxfw/richtext/richtext.go) as the
composition of the scanner model (`Model.Wrap`: `plainLines`, `richLines`, `hardLines`) with C14's
model of the drawing loops on a `vxfw.Surface` (`Model.Layout.drawText`: `findContainerSize`,
`NewSurface`, `Fill`, the row loop, `WriteCell`, the ellipsis branch of the hard-wrap mode), whose
arithmetic and guards are read from the source on every run (`Gen.SurfaceFacts` through
`Surface.srcArith`, `Layout.textMode`, `Layout.richMode`).  Core Lean only.
-/
import VaxisModel.Model.Wrap
import VaxisModel.Model.Layout

namespace VaxisModel.Model.WrapDraw
open VaxisModel.Model
open VaxisModel.Model.Wrap (Cell Lines)

/-- Graphemes of a text never are the reserved ids of `Model.Window` (`gEmpty` = the zero cell,
`gSpace`, `gEllipsis` = the "…" the hard-wrap branch writes): ids are shifted by 3. -/
def gShift : Nat := 3

/-- richtext: `vaxis.Cell{Character: char, Style: seg.Style}` — the cell keeps its own style. -/
def toWin (c : Cell) : Window.Cell := { g := c.g + gShift, w := Int.ofNat c.w, st := c.style }

/-- text: `vaxis.Cell{Character: char, Style: t.Style}` — every cell gets the widget's style. -/
def toWinSt (st : Nat) (c : Cell) : Window.Cell := { g := c.g + gShift, w := Int.ofNat c.w, st := st }

def ctxOf (maxW maxH : UInt16) : Layout.Ctx := { minW := 0, minH := 0, maxW := maxW, maxH := maxH }

/-- Result of a `Draw` call. -/
inductive Drawn where
  | hang                                   -- the scanner does not terminate
  | panic (p : Surface.Panic)
  | ok (s : Surface.Surface)

def ofExcept : Except Surface.Panic Surface.Surface → Drawn
  | .ok s => .ok s
  | .error p => .panic p

/-- `RichText.Draw` with `Softwrap = true` (`drawSoftwrap`): the scanner runs at `Max.Width`. -/
def richDraw (lb : Nat → Nat → Bool) (maxW maxH : UInt16) (cells : List Cell) : Drawn :=
  match Wrap.richLines lb maxW.toNat cells with
  | .hang => .hang
  | .ok ls => ofExcept (Layout.drawText Surface.srcArith (Layout.richMode false) (ctxOf maxW maxH) (ls.map (·.map toWin)))

/-- `RichText.Draw` with `Softwrap = false`: `HardwrapScanner` lines, ellipsis branch. -/
def richHardDraw (maxW maxH : UInt16) (cells : List Cell) : Drawn :=
  match Wrap.hardLines cells with
  | .hang => .hang
  | .ok ls => ofExcept (Layout.drawText Surface.srcArith (Layout.richMode true) (ctxOf maxW maxH) (ls.map (·.map toWin)))

/-- `Text.Draw` with `Softwrap = false`: the lines of `text.hardLines`, every cell in `Text.Style`,
`Fill`, the ellipsis branch in the widget's style (a tab is 8 spaces: `expand`). -/
def textHardDraw (expand : Cell → List Cell) (style : Nat) (maxW maxH : UInt16) (cells : List Cell) : Drawn :=
  ofExcept (Layout.drawText Surface.srcArith (Layout.textMode true style) (ctxOf maxW maxH)
    ((Wrap.textHardLines cells).map fun l => (l.flatMap expand).map (toWinSt style)))

/-- `Text.Draw` with `Softwrap = true`: `ctx.Characters(scanner.Text())` re-clusters each line —
under A-concat the same cells, except that a tab becomes 8 spaces (`expand`, supplied per case). -/
def textDraw {σ : Type} (seg : σ → List Cell → Nat × Bool × σ) (st0 : σ) (expand : Cell → List Cell)
    (style : Nat) (maxW maxH : UInt16) (cells : List Cell) : Drawn :=
  match Wrap.plainLines seg maxW.toNat cells st0 with
  | .hang => .hang
  | .ok ls =>
    ofExcept (Layout.drawText Surface.srcArith (Layout.textMode false style) (ctxOf maxW maxH)
      (ls.map fun l => (l.flatMap expand).map (toWinSt style)))

end VaxisModel.Model.WrapDraw
