/-
A heap-level model of `richtext.SoftwrapScanner.Scan` (round 3): the same loop as `Model.Wrap.scanLoop`,
but over Go *slices* — (backing array, offset, length, capacity) into a heap of arrays — with Go's
`append` (in place behind `len` when the capacity allows, else a new array), sub-slicing `s[a:b]`
(shares the array) and `[]vaxis.Cell{}` (no capacity).  The value-level model `Model.Wrap` cannot see
whether the scanner writes into the caller's cells or into a line it has already returned; this one
can (`Props.C16Heap`): every write of a `Scan` goes to an array allocated during that `Scan`.

Transcribed from /repo/vxfw/richtext/richtext.go (`Scan`, lines "Clear token" … the `for {` loop);
where the value-level model has `take`/`drop`, this one has `sub`; where it has `++`, this one has
`append`.  `for _, char := range word` reads `word[i]` from the heap *at iteration i* (Go evaluates
the slice header once and loads each element when its turn comes), so a rewrite that appends into
the array it is ranging over is modelled faithfully.  `grow` is the runtime's growth policy for
`append` (any function; the capacity is at least what is needed).  Core Lean only.
-/
import VaxisModel.Model.Wrap

namespace VaxisModel.Model.WrapHeap
open VaxisModel.Model.Wrap

/-- A slice header. `cap` counts from `off`. -/
structure Slice where
  arr : Nat
  off : Nat
  len : Nat
  cap : Nat
deriving Repr, DecidableEq

/-- Backing arrays by id; allocation appends a new one. -/
abbrev Heap := List (List Cell)

def arrOf (h : Heap) (i : Nat) : List Cell := h.getD i []

/-- The cells a slice denotes. -/
def read (h : Heap) (s : Slice) : List Cell := ((arrOf h s.arr).drop s.off).take s.len

/-- `[]vaxis.Cell{}`: no capacity, so the first `append` allocates. -/
def emptySlice : Slice := ⟨0, 0, 0, 0⟩

/-- `s[a:b]` (shares the backing array; the capacity reaches as far as `s`'s). -/
def sub (s : Slice) (a b : Nat) : Slice := ⟨s.arr, s.off + a, b - a, s.cap - a⟩

/-- Overwrite `l[pos .. pos+|xs|)`. -/
def writeAt (l : List Cell) (pos : Nat) (xs : List Cell) : List Cell :=
  l.take pos ++ xs ++ l.drop (pos + xs.length)

/-- `append(s, xs...)`. -/
def append (grow : Nat → Nat → Nat) (h : Heap) (s : Slice) (xs : List Cell) : Heap × Slice :=
  if xs.isEmpty then (h, s)
  else if s.len + xs.length ≤ s.cap then
    (h.set s.arr (writeAt (arrOf h s.arr) (s.off + s.len) xs), { s with len := s.len + xs.length })
  else
    let need := s.len + xs.length
    let newCap := max need (grow s.cap need)
    (h ++ [read h s ++ xs ++ List.replicate (newCap - need) default], ⟨h.length, 0, need, newCap⟩)

/-- The fields of the scanner the loop touches. -/
structure St where
  rest : Slice
  token : Slice
deriving Repr

/-- `if len(s.token) > 0 && w+char.Width > width { w = width }` -/
def longW (tokLen w cw width : Nat) : Nat :=
  if decide (tokLen > 0) && decide (w + cw > width) then width else w

/-- The long-word loop; `i` = index into `word`, `n` = iterations left. -/
def splitLongH (grow : Nat → Nat → Nat) (width : Nat) (word : Slice) :
    Nat → Nat → Heap → Slice → Slice → Nat → Heap × Slice × Slice
  | _, 0, h, rest, token, _ => (h, rest, token)
  | i, n + 1, h, rest, token, w =>
    let c := (arrOf h word.arr).getD (word.off + i) default
    let w := longW token.len w c.w width
    if w ≥ width then
      let r := append grow h rest [c]
      splitLongH grow width word (i + 1) n r.1 r.2 token w
    else
      let r := append grow h token [c]
      splitLongH grow width word (i + 1) n r.1 rest r.2 (w + c.w)

/-- The `for { … }` loop of `Scan`; `none` = fuel exhausted. -/
def scanLoopH (grow : Nat → Nat → Nat) (o : List Cell → Nat × Bool) (width : Nat) :
    Nat → Heap → St → Nat → Option (Heap × St)
  | 0, _, _, _ => none
  | fuel + 1, h, st, w =>
    let r := o (read h st.rest)
    let k := min r.1 st.rest.len
    let seg := sub st.rest 0 k                                     -- seg = s.rest[:k]
    let rest := if k < st.rest.len then sub st.rest k st.rest.len else emptySlice
    let word := sub seg 0 (trimRight (read h seg)).length            -- word = seg[:i+1]
    let trSpace := sub seg word.len seg.len                          -- trSpace = seg[len(word):]
    let wordLen := sumW (read h word)
    let spaceLen := sumW (read h trSpace)
    if wordLen > width then
      let a := splitLongH grow width word 0 word.len h emptySlice st.token w   -- s.rest = []vaxis.Cell{}; for …
      let b := append grow a.1 a.2.1 (read a.1 trSpace)            -- s.rest = append(s.rest, trSpace...)
      let c := append grow b.1 b.2 (read b.1 rest)                  -- s.rest = append(s.rest, rest...)
      some (c.1, ⟨c.2, a.2.2⟩)
    else if w + wordLen > width then some (h, st)
    else if r.2 then
      -- s.rest = rest; strip the hard break; s.token = append(s.token, seg...)
      let seg' := match (read h seg).getLast? with
        | some l => if l.term then sub seg 0 (seg.len - 1) else seg
        | none => seg
      let t := append grow h st.token (read h seg')
      some (t.1, ⟨rest, t.2⟩)
    else
      let t := append grow h st.token (read h word)                 -- s.token = append(s.token, word...)
      let w := w + wordLen
      if w + spaceLen > width then some (t.1, ⟨rest, t.2⟩)
      else
        let t2 := append grow t.1 t.2 (read t.1 trSpace)            -- s.token = append(s.token, trSpace...)
        scanLoopH grow o width fuel t2.1 ⟨rest, t2.2⟩ (w + spaceLen)

/-- Result of `Scan` on the heap. -/
inductive ScanH where
  | stop
  | hang
  | line (h : Heap) (st : St)

/-- `Scan()`: `s.token = []vaxis.Cell{}` then the loop. -/
def scanH (grow : Nat → Nat → Nat) (o : List Cell → Nat × Bool) (width : Nat) (h : Heap) (st : St) : ScanH :=
  if st.rest.len == 0 || width == 0 then .stop
  else match scanLoopH grow o width st.rest.len h ⟨st.rest, emptySlice⟩ 0 with
    | none => .hang
    | some r => .line r.1 r.2

/-- `for scanner.Scan() { lines = append(lines, scanner.Text()) }` keeping the returned *slices*
(not copies), as a caller that does not copy would, each with the cells it denoted when returned. -/
def linesH (grow : Nat → Nat → Nat) (o : List Cell → Nat × Bool) (width : Nat) :
    Nat → Heap → St → List (Slice × List Cell) → Option (Heap × List (Slice × List Cell))
  | 0, _, _, _ => none
  | fuel + 1, h, st, acc =>
    match scanH grow o width h st with
    | .stop => some (h, acc.reverse)
    | .hang => none
    | .line h' st' => linesH grow o width fuel h' st' ((st'.token, read h' st'.token) :: acc)

/-- The caller's heap: `cells` in array 0 with `spare` cells of capacity behind them; the scanner is
created on `cells[:len]` (`NewSoftwrapScanner(s, width)`: `rest: s`). -/
def callerHeap (cells spare : List Cell) : Heap := [cells ++ spare]
def callerSlice (cells spare : List Cell) : Slice := ⟨0, 0, cells.length, cells.length + spare.length⟩

/-- Run the whole iteration; returns the lines *as read at the end* (after all Scans) and the
caller's array at the end. -/
def runH (grow : Nat → Nat → Nat) (o : List Cell → Nat × Bool) (width : Nat) (cells spare : List Cell) :
    Option (List (List Cell) × List Cell) :=
  match linesH grow o width (cells.length + 1) (callerHeap cells spare) ⟨callerSlice cells spare, emptySlice⟩ [] with
  | none => none
  | some (h, ls) => some (ls.map (fun p => read h p.1), arrOf h 0)

/-- The pairwise segmentation `richtext.firstLineSegment` as the heap model's segmentation function. -/
def richSeg (lb : Nat → Nat → Bool) : List Cell → Nat × Bool :=
  fun l => ((richOracle lb () l).1, (richOracle lb () l).2.1)

/-! ### richtext.HardwrapScanner on the heap -/

/-- The fields of `HardwrapScanner`. -/
structure HSt where
  cells : Slice
  line : Slice
deriving Repr

/-- `for i, cell := range h.cells { if HasTrailingLineBreak(cell) { if i == len-1 { break }; h.cells = h.cells[i+1:];
return true }; h.line = append(h.line, cell) }; h.cells = []vaxis.Cell{}; return true` — `i` = index, `n` = iterations
left; `cell` is loaded from the heap at iteration `i`. -/
def hardLoopH (grow : Nat → Nat → Nat) (cells : Slice) : Nat → Nat → Heap → Slice → Heap × HSt
  | _, 0, h, line => (h, ⟨emptySlice, line⟩)
  | i, n + 1, h, line =>
    let c := (arrOf h cells.arr).getD (cells.off + i) default
    if c.nl then
      if i + 1 == cells.len then (h, ⟨emptySlice, line⟩)          -- break; h.cells = []vaxis.Cell{}
      else (h, ⟨sub cells (i + 1) cells.len, line⟩)               -- h.cells = h.cells[i+1:]
    else
      let r := append grow h line [c]
      hardLoopH grow cells (i + 1) n r.1 r.2

/-- `HardwrapScanner.Scan()`; `none` = returned false. -/
def hardScanH (grow : Nat → Nat → Nat) (h : Heap) (st : HSt) : Option (Heap × HSt) :=
  if st.cells.len == 0 then none
  else some (hardLoopH grow st.cells 0 st.cells.len h emptySlice)   -- h.line = []vaxis.Cell{}

end VaxisModel.Model.WrapHeap
