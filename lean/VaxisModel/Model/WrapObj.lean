/-
The PLAIN soft-wrap scanner as an OBJECT (round 4): `text.SoftwrapScanner{state, rest, token, width}` with
`Scan` transcribed statement by statement from /repo/vxfw/text/text.go — the fields are stored where the
source stores them, so that what a `Scan` call leaves behind for the next one is visible:

    seg, rest, br, state := uniseg.FirstLineSegment(s.rest, s.state)
    …                                   ← (early)  `s.state = state` here = seeded change C16-m5
    if wordLen > width { …; s.rest = …; s.state = -1; return true }
    if w+wordLen > width { return true }            -- the segment is DEFERRED: neither field is touched
    s.rest = rest
    s.state = state                     ← where the source has it (`Gen.WrapFacts.textLoopFull`, step 3)
    …

`early` says which of the two places holds `s.state = state`; `stateEarly` reads it from the regenerated facts
(the assignment appears in `textPrelude` iff it directly follows the segmentation call).  The value-level model
`Model.Wrap.scanLoop` threads `rest` / `st` as loop variables and returns them; `Props/C16Obj` proves that the
object with `early = false` is exactly that (`plain_scanner_object_refines`), that the pair (rest, state) it carries
across calls is always the segmenter's own state at `rest` or the reset value (`scan_state_coherent`,
`scan_state_is_function_of_consumed_text`), and that `early = true` breaks both.

`[]byte` values are value-level lists: `Text()` copies (`string(s.token)`), `s.token = []byte{}` and
`s.rest = []byte{}` allocate, and `s.rest = rest` re-slices the caller-invisible copy `[]byte(s)` made by
`NewSoftwrapScanner` — no caller-visible aliasing exists for the plain scanner (unlike richtext: `Model/WrapHeap`).
Core Lean only.
-/
import VaxisModel.Model.Wrap
import VaxisModel.Gen.WrapFacts

namespace VaxisModel.Model.WrapObj
open VaxisModel.Model.Wrap

/-- The fields `Scan` reads and writes. -/
structure Obj (σ : Type) where
  state : σ
  rest : List Cell
  token : List Cell

/-- Result of one `Scan()` on the object. -/
inductive Res (σ : Type) where
  | stop (s : Obj σ)       -- returned false
  | hang
  | line (s : Obj σ)       -- returned true; `Text()` = `s.token`

/-- Is `s.state = state` stored right after the segmentation call (true) or together with `s.rest = rest` (false)?
Read from the source. -/
def stateEarly : Bool := Gen.WrapFacts.textPrelude.contains "R.state=state"

/-- The `for { … }` loop of `Scan`, on the object. -/
def scanObjLoop {σ : Type} (early : Bool) (o : σ → List Cell → Nat × Bool × σ) (ini : σ) (width : Nat) :
    Nat → Obj σ → Nat → Res σ
  | 0, _, _ => .hang
  | fuel + 1, s, w =>
    let r := o s.state s.rest
    let seg := s.rest.take r.1
    let rest' := s.rest.drop r.1
    let br := r.2.1
    let s := if early then { s with state := r.2.2 } else s
    let word := trimRight seg
    let trSpace := seg.drop word.length
    let wordLen := sumW word
    let spaceLen := sumW trSpace
    if wordLen > width then
      let sp := splitLong width (!s.token.isEmpty) w word
      .line { state := ini, rest := sp.2 ++ trSpace ++ rest', token := s.token ++ sp.1 }
    else if w + wordLen > width then
      .line s
    else
      let s := { s with rest := rest' }
      let s := if early then s else { s with state := r.2.2 }
      if br then
        .line { s with token := s.token ++ stripBreak seg }
      else
        let s := { s with token := s.token ++ word }
        let w := w + wordLen
        if w + spaceLen > width then .line s
        else scanObjLoop early o ini width fuel { s with token := s.token ++ trSpace } (w + spaceLen)

/-- `Scan`: the entry test, `s.token = []byte{}`, the loop. -/
def scanObj {σ : Type} (early : Bool) (o : σ → List Cell → Nat × Bool × σ) (ini : σ) (width : Nat) (s : Obj σ) : Res σ :=
  if s.rest.isEmpty || width == 0 then .stop s
  else scanObjLoop early o ini width s.rest.length { s with token := [] } 0

/-- `for scanner.Scan() { lines = append(lines, scanner.Text()) }` on the object; also the object at the end. -/
def runObj {σ : Type} (early : Bool) (o : σ → List Cell → Nat × Bool × σ) (ini : σ) (width : Nat) :
    Nat → Obj σ → Option (List (List Cell) × Obj σ)
  | 0, _ => none
  | fuel + 1, s =>
    match scanObj early o ini width s with
    | .stop s' => some ([], s')
    | .hang => none
    | .line s' =>
      match runObj early o ini width fuel s' with
      | some (ls, e) => some (s'.token :: ls, e)
      | none => none

/-- `NewSoftwrapScanner(s, width)`: state −1 (`ini`), rest = the text. -/
def newObj {σ : Type} (ini : σ) (cells : List Cell) : Obj σ := { state := ini, rest := cells, token := [] }

/-- The scanner of the current source. -/
def srcLines {σ : Type} (o : σ → List Cell → Nat × Bool × σ) (ini : σ) (width : Nat) (cells : List Cell) :
    Option (List (List Cell) × Obj σ) :=
  runObj stateEarly o ini width (cells.length + 1) (newObj ini cells)

/-- The (rest, state) pairs the segmenter itself visits from `(rest, st)`: `k` calls of the oracle, each continuing
where the previous segment ended with the state it returned. -/
def chain {σ : Type} (o : σ → List Cell → Nat × Bool × σ) : Nat → List Cell → σ → List Cell × σ
  | 0, rest, st => (rest, st)
  | k + 1, rest, st => chain o k (rest.drop (o st rest).1) (o st rest).2.2

end VaxisModel.Model.WrapObj
