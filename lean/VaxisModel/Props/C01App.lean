/-
C01 ∘ C11 — the application-level end-to-end theorem.

A run is any sequence of drawing calls (`SetCell`, `SetStyle`, `Fill`, `Clear`, `Print`,
`PrintTruncate`, `Println`, `Wrap` on arbitrary windows — any chain, any integer geometry —,
`ShowCursor` through a window, `HideCursor`, `SetMouseShape`) interleaved with `Render`, `Refresh`
and size changes of the terminal.  The buffer the renderer is given is the one the C11 window
model computes (`Model.App.draw`), the renderer is the transcription of the repaired `render()`
(`Model.RenderClip`), the terminal is `Spec.Display`.

* `app_history_displays` — after **every** frame of **every** admissible run the reference terminal
  shows exactly the application's screen (`Shows`), nothing terminal-specific was relied on, pen
  reset / hyperlink closed / sync balanced.  The hypotheses of `C01Display.frame_displays_partial`
  about the grid are discharged: its shape from `Screen.WF` (C11 `screen_wf_put`), "glyph fits"
  by the F02 repair, non-negative and correct explicit widths of the cells the *text helpers*
  write from what the helpers compute.  What remains (`OpOk`) is the application's or the
  terminal's: cells handed to `SetCell`/`Fill` have admissible widths; uniseg's width is the
  terminal's when the helpers do not re-measure; the ellipsis has width 1 when `PrintTruncate` is
  used; a visible cursor is inside the screen at `Render`; after a size change the terminal shows
  a well-formed grid of the new size — whatever it is.
* `app_first_frame_after_resize` — the size-change path: buffers reallocated, `refresh` set, and the
  next frame shows the screen whatever the terminal displayed.
* `app_screen_is_last_write`, `app_never_written_blank` — that screen, in the property's own terms:
  each cell holds the fold of the writes (`Spec.Window`: clip region, origin + offset, reading-order
  layouts) that hit it since the buffers were allocated, in call order; a never-hit cell shows blank
  in the default style.
* `app_cursor`, `app_cursor_always`, `showCursor_position`, `showCursor_in_screen` — the cursor clause
  (through size changes too: the first refresh of a non-empty screen puts the cursor right whatever
  the terminal did with it); `Window.ShowCursor` is origin + offset with **no clipping**
  (`Witness/C11ShowCursor.lean`).
-/
import VaxisModel.Lemmas.AppSys
import VaxisModel.Lemmas.AppSpec

namespace VaxisModel.Props.C01App
open VaxisModel.Model.Window VaxisModel.Model.Render VaxisModel.Model.App
open VaxisModel.Spec VaxisModel.Spec.Display VaxisModel.Spec.Window
open VaxisModel.Lemmas.Window VaxisModel.Lemmas.App VaxisModel.Lemmas.AppSys VaxisModel.Lemmas.AppSpec
open VaxisModel.Lemmas.RenderDisplay
open VaxisModel.Props.C01 VaxisModel.Props.C01Display

/-- **One step**: the invariant is re-established and a frame leaves the terminal showing the
    application's screen. -/
theorem app_step (X : Ctx) (hX : X.Ok) (s : Sys) (hi : Inv X s) (op : SysOp) (hok : OpOk X s op) :
    Inv X (sysStep X s op) ∧ (isFrame s op = true → Shows X (sysStep X s op)) := sys_step X hX s hi op hok

/-- **After every frame of every admissible run** — from any state satisfying the invariant — the
    terminal shows exactly the application's screen, nothing terminal-specific was relied on, and
    the terminal is at rest (pen reset, hyperlink closed, synchronized update balanced). -/
theorem app_history_displays (X : Ctx) (hX : X.Ok) (s : Sys) (hi : Inv X s) (pre : List SysOp) (op : SysOp)
    (post : List SysOp) (hok : RunOk X s (pre ++ op :: post)) (hf : isFrame (sysRun X s pre) op = true) :
    Shows X (sysRun X s (pre ++ [op])) ∧ Rest (sysRun X s (pre ++ [op])).t := by
  obtain ⟨h1, h2⟩ := (runOk_append X pre (op :: post) s).1 hok
  have hpre := run_inv X hX pre s hi h1
  have hst := sys_step X hX (sysRun X s pre) hpre op h2.1
  have e : sysRun X s (pre ++ [op]) = sysStep X (sysRun X s pre) op := by simp [sysRun, List.foldl_append]
  rw [e]
  exact ⟨hst.2 hf, hst.1.ready.rest⟩

/-- … in particular from start-up (blank terminal, buffers just allocated, refresh pending). -/
theorem app_from_start (X : Ctx) (hX : X.Ok) (cols rows : Nat) (pre : List SysOp) (op : SysOp) (post : List SysOp)
    (hok : RunOk X (Sys.init cols rows) (pre ++ op :: post)) (hf : isFrame (sysRun X (Sys.init cols rows) pre) op = true) :
    Shows X (sysRun X (Sys.init cols rows) (pre ++ [op])) ∧ Rest (sysRun X (Sys.init cols rows) (pre ++ [op])).t :=
  app_history_displays X hX _ (init_inv X cols rows) pre op post hok hf

/-- **The size-change path**: `Render` with the resize flag set and a new size reallocates both
    buffers and sets `refresh` without writing; then, whatever (well-formed) content `g` the terminal
    shows, after any drawing calls the next `Render` makes it show the application's screen. -/
theorem app_first_frame_after_resize (X : Ctx) (hX : X.Ok) (s : Sys) (hi : Inv X s) (cols rows : Nat)
    (g : List (List DCell)) (hsz : sameSize s.v cols rows = false) (ds : List DrawOp)
    (hok : RunOk X s (.resize cols rows g :: ds.map .draw ++ [.render])) :
    (sysStep X s (.resize cols rows g)).v.refresh = true ∧
    (sysStep X s (.resize cols rows g)).v.scr = Screen.resize cols rows ∧
    (sysStep X s (.resize cols rows g)).v.last = blankGrid cols rows ∧
    (sysStep X s (.resize cols rows g)).t.grid = g ∧
    Shows X (sysRun X s (.resize cols rows g :: ds.map .draw ++ [.render])) := by
  refine ⟨by simp [sysStep, endFrame, hsz], by simp [sysStep, endFrame, hsz], by simp [sysStep, endFrame, hsz],
    by simp [sysStep, endFrame, hsz, run, resizedTerm], ?_⟩
  have := app_history_displays X hX s hi (.resize cols rows g :: ds.map .draw) .render [] (by simpa using hok) rfl
  simpa using this.1

/-- **What the application's screen is**, in the property's terms: starting from freshly allocated
    buffers, after any drawing calls each screen cell holds the fold — in call order — of the
    writes that hit it (`specWrites`: origin + offset inside the window, every ancestor and the
    screen; the text helpers' writes are the reading-order layouts of `Spec.Window`), starting from
    the zero cell. -/
theorem app_screen_is_last_write (lib : Lib) (rm : Bool) (v : Vx) (cols rows : Nat) (hv : v.scr = Screen.resize cols rows)
    (ds : List DrawOp) (x y : Int) (hin : inScreen v.scr x y) :
    (runDraws lib rm v ds).scr.get x y = some (foldHits v.scr x y default (ds.flatMap (specWrites lib rm))) := by
  rw [draws_read]
  have hwf : v.scr.WF := by rw [hv]; exact wf_resize _ _ (by omega) (by omega)
  obtain ⟨c, hc⟩ := get_some_of_inScreen v.scr hwf x y hin
  have : c = default := get_resize cols rows x y c (by rw [← hv]; exact hc)
  rw [hc, this]; rfl

/-- The same from any buffer: cells keep what they held unless a write hits them. -/
theorem app_screen_read (lib : Lib) (rm : Bool) (v : Vx) (ds : List DrawOp) (x y : Int) :
    (runDraws lib rm v ds).scr.get x y =
      (v.scr.get x y).map (fun c0 => foldHits v.scr x y c0 (ds.flatMap (specWrites lib rm))) := draws_read lib rm v ds x y

/-- A never-written cell shows as a blank in the default style. -/
theorem app_never_written_blank (X : Ctx) (hX : X.Ok) (h0 : X.cw "" = 0) :
    Expected.expectedCell X.cw X.caps (X.I.cell default) = DCell.blank := by
  have hg : X.I.gOf 0 = "" := hX.std.empty
  have hs : X.I.stOf 0 = {} := hX.std.style0
  have hsh : ∀ caps : Caps, Expected.shown caps {} = {} := fun caps => VaxisModel.Lemmas.RenderPen.shown_default caps
  have hd : (default : VaxisModel.Model.Window.Cell) = ⟨0, 0, 0⟩ := rfl
  rw [hd]
  simp only [Interp.cell, Expected.expectedCell, Expected.cellWidth, DCell.blank, hg, h0, hs, hsh]
  decide

/-! ### the cursor -/

/-- `Window.ShowCursor(col,row)` requests the window's absolute origin plus the offset — for every
    chain and geometry, with no bounds check at any level. -/
theorem showCursor_position (win : Win) (col row : Int) :
    cursorPos win col row = ((win.origin).1 + col, (win.origin).2 + row) := by
  induction win generalizing col row with
  | root c r w h => simp only [cursorPos, Win.origin]; ext <;> simp <;> omega
  | child c r w h p ih => simp only [cursorPos, Win.origin, ih]; ext <;> simp <;> omega

/-- If the offset addresses a cell of the window's clip region (the cell a `SetCell` with the same
    offset would change), the cursor request is inside the screen: the application's obligation at
    the next `Render` is met (until the size changes). -/
theorem showCursor_in_screen (lib : Lib) (rm : Bool) (v : Vx) (win : Win) (col row : Int) (st : Nat)
    (hv : visible win v.scr ((win.origin).1 + col) ((win.origin).2 + row)) :
    CursorIn (draw lib rm v (.showCursor win col row st)) := by
  intro _
  simp only [draw, showCursor_position]
  obtain ⟨_, h1, h2, h3, h4⟩ := hv
  exact ⟨⟨h3, h4⟩, ⟨h1, h2⟩⟩

/-- **The cursor clause along a run**: through every step that does not change the size the
    terminal shows the hardware cursor as last rendered; after a frame that is "as last requested:
    hidden, or visible at the requested position and shape". -/
theorem app_cursor (X : Ctx) (s : Sys) (hi : Inv X s) (hc : CursorAs s.t s.v.cursorLast) (op : SysOp)
    (hok : OpOk X s op) (hns : sizeChange s op = false) :
    CursorAs (sysStep X s op).t (sysStep X s op).v.cursorLast ∧
    (isFrame s op = true → (sysStep X s op).v.cursorLast = s.v.cursorNext) := by
  refine ⟨cursor_step X s hi hc op hok hns, ?_⟩
  intro hf
  cases op with
  | draw d => simp [isFrame] at hf
  | render => rfl
  | refresh => rfl
  | resize cols rows g =>
    have hs : sameSize s.v cols rows = true := by simpa [isFrame] using hf
    simp only [sysStep, endFrame, hs, if_true]; rfl

/-- **The cursor clause through every step, size changes included — to any size.**  `CurInv` = the
    terminal shows the cursor as last rendered, or a refresh is pending and only the cursor's
    visibility is known (the terminal may have moved it when its size changed).  Every step keeps
    `CurInv`, and after every frame — in particular after the first frame that follows a size change,
    whatever the terminal did with the cursor, and also when the new screen is empty (0 columns or
    0 rows: then a visible cursor cannot be inside it, `CursorIn` asks for a hidden one, and the frame
    hides it through the writer's cursor-only branch) — the cursor is exactly as last requested. -/
theorem app_cursor_always (X : Ctx) (s : Sys) (hi : Inv X s) (hc : CurInv s) (op : SysOp) (hok : OpOk X s op) :
    CurInv (sysStep X s op) ∧
    (isFrame s op = true → CursorAs (sysStep X s op).t (sysStep X s op).v.cursorLast ∧
                           (sysStep X s op).v.cursorLast = s.v.cursorNext) := by
  obtain ⟨h1, h2⟩ := cursor_step_all X s hi hc op hok
  refine ⟨h1, fun hf => ⟨h2 hf, ?_⟩⟩
  cases op with
  | draw d => simp [isFrame] at hf
  | render => rfl
  | refresh => rfl
  | resize cols rows g =>
    have hs : sameSize s.v cols rows = true := by simpa [isFrame] using hf
    simp only [sysStep, endFrame, hs, if_true]; rfl

/-- At start-up the cursor invariant holds (terminal cursor hidden, nothing requested yet). -/
theorem init_curInv (cols rows : Nat) : CurInv (Sys.init cols rows) := Or.inl (by simp [CursorAs, Sys.init, Vx.init])

/-! ### Non-vacuity: a concrete run meets every hypothesis -/

def exCw : String → Nat := fun g => if g = "e4b896" then 2 else if g = "" then 0 else 1
def exI : Interp :=
  { gOf := fun n => if n = 0 then "" else if n = 1 then "20" else if n = 2 then "e280a6" else if n = 5 then "61" else "e4b896"
    stOf := fun n => if n = 0 then {} else { fg := 16777217 } }
def exX : Ctx :=
  { cw := exCw, caps := {}, I := exI, rm := true
    lib := { cw := fun n => (exCw (exI.gOf n) : Int), hasNL := fun _ => false, trailBrk := fun _ => false } }

theorem exX_ok : exX.Ok := ⟨rfl, ⟨rfl, rfl, rfl, rfl⟩, fun _ => rfl⟩

/-- A child window at (1,0) of a 3×1 screen; print "a世" (the wide glyph does not fit in the rest of the window's row and there is no next row:
    since the F111 repair it is not written), put the
    cursor in the window, render; the terminal shrinks to 2×1 showing junk; print again; render. -/
def exWin : Win := (Win.root 0 0 3 1).new 1 0 (-1) (-1)
def exText : List (Nat × List Raw) := [(1, [⟨5, 1, false⟩, ⟨6, 2, false⟩])]
def exJunk : List (List DCell) := [[.glyph "58" 1 { bold := true } "" "", .glyph "59" 1 {} "" ""]]
def exRun : List SysOp :=
  [.draw (.print exWin exText), .draw (.showCursor exWin 0 0 2), .render,
   .resize 2 1 exJunk, .draw (.hideCursor), .draw (.print (Win.root 0 0 2 1) exText), .render]

example : (sysRun exX (Sys.init 3 1) exRun).t.grid = [[.glyph "61" 1 { fg := .idx 1 } "" "", DCell.blank]] ∧
    (sysRun exX (Sys.init 3 1) (exRun.take 3)).t.grid =
      [[DCell.blank, .glyph "61" 1 { fg := .idx 1 } "" "", DCell.blank]] ∧
    (sysRun exX (Sys.init 3 1) (exRun.take 3)).t.bad = none := by decide

/-- … and the run is admissible: every hypothesis of `app_from_start` holds of it. -/
example : RunOk exX (Sys.init 3 1) exRun := by
  have htext : TextOk exX exText := fun _ _ _ _ h => absurd h (by decide)
  refine ⟨htext, trivial, ?_, ?_, trivial, htext, ?_, trivial⟩
  · intro _; decide
  · simp only [OpOk]
    rw [if_neg (by decide)]
    refine ⟨rfl, ?_⟩
    intro r hr
    simp only [exJunk, List.mem_singleton] at hr
    subst hr
    exact ⟨rfl, by simp [WFRow]⟩
  · intro h; exact absurd h (by decide)

/-- The cursor clause on an empty screen: the cursor is visible, the terminal shrinks to 0×1, the
    application hides the cursor (a visible one cannot be inside), `Render`: hidden on the terminal. -/
example :
    let run0 : List SysOp := [.draw (.showCursor (Win.root 0 0 3 1) 1 0 2), .render, .resize 0 1 [[]], .draw .hideCursor, .render]
    (sysRun exX (Sys.init 3 1) (run0.take 2)).t.cursorVisible = true ∧
    (sysRun exX (Sys.init 3 1) run0).t.cursorVisible = false ∧
    (sysRun exX (Sys.init 3 1) run0).t.bad = none ∧ (sysRun exX (Sys.init 3 1) run0).v.scr.cols = 0 := by decide

end VaxisModel.Props.C01App
