/-
C01 ∘ C11 on a terminal that clusters graphemes: `app_history_displays` with `Spec.Display.runC`
in place of `run`.

`sysStepC joins` is `Lemmas.AppSys.sysStep` with the clustering reference terminal.  If at every
frame of a run no two horizontally consecutive shown cells of the application's screen join
(`RunNoJoin`: `NoJoinNeighbours` of the buffer handed to the renderer), the clustering system goes
through exactly the states of the plain one (`sysRunC_eq`), hence after every frame of every
admissible run the clustering terminal shows the application's screen (`app_history_displays_clustering`).
The hypothesis is the application's (finding F112d; necessity: `Props.C01Cluster.no_join_needed`;
`Wrap` can violate it by itself: finding F111c).
-/
import VaxisModel.Props.C01App
import VaxisModel.Props.C01Cluster

namespace VaxisModel.Props.C01AppCluster
open VaxisModel.Model.Window VaxisModel.Model.Render VaxisModel.Model.App
open VaxisModel.Spec VaxisModel.Spec.Display
open VaxisModel.Lemmas.AppSys VaxisModel.Lemmas.RenderDisplay VaxisModel.Lemmas.RenderCluster
open VaxisModel.Props.C01 VaxisModel.Props.C01Display VaxisModel.Props.C01Cluster VaxisModel.Props.C01App

/-- `sysStep` with the clustering terminal. -/
def sysStepC (joins : String → String → Bool) (X : Ctx) (s : Sys) : SysOp → Sys
  | .draw d => { s with v := draw X.lib X.rm s.v d }
  | .render => { v := (endFrame X.cw X.caps X.I s.v .render).1, t := runC joins X.cw s.t (endFrame X.cw X.caps X.I s.v .render).2 }
  | .refresh => { v := (endFrame X.cw X.caps X.I s.v .refresh).1, t := runC joins X.cw s.t (endFrame X.cw X.caps X.I s.v .refresh).2 }
  | .resize cols rows g =>
      { v := (endFrame X.cw X.caps X.I s.v (.resize cols rows)).1,
        t := runC joins X.cw (if sameSize s.v cols rows then s.t else resizedTerm s.t cols rows g)
               (endFrame X.cw X.caps X.I s.v (.resize cols rows)).2 }

def sysRunC (joins : String → String → Bool) (X : Ctx) (s : Sys) (ops : List SysOp) : Sys := ops.foldl (sysStepC joins X) s

/-- At a frame, no two horizontally consecutive shown cells of the screen handed to the renderer join. -/
def NoJoinAt (joins : String → String → Bool) (X : Ctx) (s : Sys) : SysOp → Prop
  | .draw _ => True
  | _ => NoJoinNeighbours joins X.cw X.caps (X.I.grid s.v.scr.buf)

def RunNoJoin (joins : String → String → Bool) (X : Ctx) : Sys → List SysOp → Prop
  | _, [] => True
  | s, op :: rest => NoJoinAt joins X s op ∧ RunNoJoin joins X (sysStep X s op) rest

theorem doRender_adjOk (joins : String → String → Bool) (X : Ctx) (v : Vx)
    (h : NoJoinNeighbours joins X.cw X.caps (X.I.grid v.scr.buf)) :
    adjOk joins none (doRender X.cw X.caps X.I v).2 = true :=
  render_no_adjacent_join_tight joins X.cw (frameOf X.caps X.I v) h

/-- One step: with `NoJoinAt` the clustering system does what the plain one does. -/
theorem sysStepC_eq (joins : String → String → Bool) (X : Ctx) (s : Sys) (op : SysOp) (h : NoJoinAt joins X s op) :
    sysStepC joins X s op = sysStep X s op := by
  cases op with
  | draw d => rfl
  | render =>
    simp only [sysStepC, sysStep, endFrame]
    rw [clustering_terminal_agrees joins X.cw s.t _ (doRender_adjOk joins X s.v h)]
  | refresh =>
    simp only [sysStepC, sysStep, endFrame]
    rw [clustering_terminal_agrees joins X.cw s.t _ (doRender_adjOk joins X { s.v with refresh := true } h)]
  | resize cols rows g =>
    simp only [sysStepC, sysStep, endFrame]
    by_cases hs : sameSize s.v cols rows = true
    · simp only [hs, if_true]
      rw [clustering_terminal_agrees joins X.cw s.t _ (doRender_adjOk joins X s.v h)]
    · simp only [hs]
      rfl

theorem sysRunC_eq (joins : String → String → Bool) (X : Ctx) (ops : List SysOp) :
    ∀ (s : Sys), RunNoJoin joins X s ops → sysRunC joins X s ops = sysRun X s ops := by
  induction ops with
  | nil => intro s _; rfl
  | cons op rest ih =>
    intro s h
    simp only [sysRunC, sysRun, List.foldl_cons]
    rw [sysStepC_eq joins X s op h.1]
    exact ih _ h.2

/-- **After every frame of every admissible run whose screens are free of joining neighbours, the
    clustering terminal shows exactly the application's screen**, nothing terminal-specific relied
    on, terminal at rest. -/
theorem app_history_displays_clustering (joins : String → String → Bool) (X : Ctx) (hX : X.Ok) (s : Sys) (hi : Inv X s)
    (pre : List SysOp) (op : SysOp) (post : List SysOp) (hok : RunOk X s (pre ++ op :: post))
    (hjoin : RunNoJoin joins X s (pre ++ [op]))
    (hf : isFrame (sysRun X s pre) op = true) :
    Shows X (sysRunC joins X s (pre ++ [op])) ∧ Rest (sysRunC joins X s (pre ++ [op])).t := by
  rw [sysRunC_eq joins X _ s hjoin]
  exact app_history_displays X hX s hi pre op post hok hf

/-- Non-vacuity: draw "a世" through a window, then render, with a `joins` that only joins D|E. -/
example : RunNoJoin (fun a b => a == "D" && b == "E") exX (Sys.init 3 1) [.draw (.print exWin exText), .render] := by
  refine ⟨trivial, ?_, trivial⟩
  intro r hr
  have hg : exX.I.grid (sysStep exX (Sys.init 3 1) (.draw (.print exWin exText))).v.scr.buf =
      [[({} : VaxisModel.Model.Render.Cell), { g := "61", w := 1, style := { fg := 16777217 } }, {}]] := by decide
  rw [hg] at hr
  simp only [List.mem_singleton] at hr
  subst hr
  decide

end VaxisModel.Props.C01AppCluster
