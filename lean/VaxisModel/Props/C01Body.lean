/-
C01 — the straight-line blocks of `render()`'s cell loop, `advance()` and `showCursor()` EXECUTED from
the statement skeletons regenerated from vaxis.go on every run (`Gen/RenderFacts.lean`) by the small
interpreter `Model/RenderInterp.lean`, and proved equal — for all inputs — to the building blocks of the
renderer model (`Model/Render*.lean`):

  advance_body_eq_model        advance()                                   = `advance`
  showCursor_body_eq_model     showCursor()                                = `showCursorToks`
  sixel_body_eq_model          `if next.sixel { … continue }`              = the image-cell branch of `renderCellsS`
  clip_body_eq_model           `if col+vx.advance(next) >= len(row) { … }` = `clipCell`            (F02 repair)
  reposition_body_eq_model     `if reposition { … }`                       = `pre` / the pen's link reset
  hyperlink_body_eq_model      `if cursor.Hyperlink != next.Hyperlink …`   = the OSC 8 part of `penDelta` with `lpField` (F112b repair)
  glyph_body_eq_model          width resolution + the write `switch`       = `glyphTok`
  (the writer: `Props.C01Facts.flush_from_source`; attribute tables / delta order: `attrToks_from_source`, `penDelta_order`)

A source change in one of these blocks changes the regenerated text, hence the atoms the interpreter
reads (`Atom.unknown` for a text it does not know) and breaks exactly the theorem of that block.  The
frame around the blocks — `for col`, `continue`, `col += skip` and the two nulling loops — stays pinned
(`Props.C01Facts.facts_render`), as do the colour `switch`es.
-/
import VaxisModel.Model.RenderInterp
import VaxisModel.Model.RenderSixel
import VaxisModel.Gen.RenderFacts
import VaxisModel.Lemmas.RenderDisplay

namespace VaxisModel.Props.C01Body
open VaxisModel.Model.Render VaxisModel.Model.RenderInterp

abbrev G := VaxisModel.Gen.RenderFacts.render

/-! ### advance() -/

theorem advance_prog : prog VaxisModel.Gen.RenderFacts.advance =
    [(0, .if_, .cellWidth0), (1, .stmt, .setCellWidth), (0, .stmt, .wAssign), (0, .if_, .wNeg), (1, .stmt, .ret0),
     (0, .stmt, .retW)] := by
  decide +kernel

/-- **advance_body_eq_model**: running the body of `Vaxis.advance` as extracted on this run returns
    the model's `advance` for every cell and width oracle; every line was understood. -/
theorem advance_body_eq_model (cw : String → Nat) (caps : Caps) (c : Cell) :
    (run cw caps VaxisModel.Gen.RenderFacts.advance { next := c }).ret = some (advance cw c : Int) ∧
    (run cw caps VaxisModel.Gen.RenderFacts.advance { next := c }).unknown = false := by
  have hl : VaxisModel.Gen.RenderFacts.advance.length = 6 := by decide +kernel
  unfold run
  rw [advance_prog, hl]
  by_cases hw : c.w = 0
  · by_cases h2 : ((cw c.g : Int) - 1 < 0)
    · simp [exec, evalG, evalS, List.dropWhile, hw, h2, advance, resolvedW]
    · simp [exec, evalG, evalS, List.dropWhile, hw, h2, advance, resolvedW]
      omega
  · by_cases h2 : (c.w - 1 < 0)
    · simp [exec, evalG, evalS, List.dropWhile, hw, h2, advance, resolvedW]
    · simp [exec, evalG, evalS, List.dropWhile, hw, h2, advance, resolvedW]
      omega

/-! ### showCursor() -/

theorem showCursor_prog : prog VaxisModel.Gen.RenderFacts.showCursor =
    [(0, .stmt, .newBuf), (0, .stmt, .wrCursorStyle), (0, .stmt, .wrCursorCup), (0, .stmt, .wrCursorShow), (0, .stmt, .retBuf)] := by
  decide +kernel

/-- **showCursor_body_eq_model**: cursor style, CUP (row+1, col+1), DECSET 25 — `showCursorToks`. -/
theorem showCursor_body_eq_model (cw : String → Nat) (caps : Caps) (c : CursorState) (o : List Tok) :
    (run cw caps VaxisModel.Gen.RenderFacts.showCursor { cn := c, out := o }).out = showCursorToks c ∧
    (run cw caps VaxisModel.Gen.RenderFacts.showCursor { cn := c, out := o }).unknown = false := by
  have hl : VaxisModel.Gen.RenderFacts.showCursor.length = 5 := by decide +kernel
  unfold run
  rw [showCursor_prog, hl]
  simp [exec, evalS, List.dropWhile, List.takeWhile, showCursorToks]

/-! ### the image-cell branch -/

def sixelBlock : List Line := blockAt G 2 "if" "next.sixel"

theorem sixel_prog : prog sixelBlock =
    [(2, .if_, .nextSixel), (3, .if_, .endLastDirty), (4, .stmt, .dirtyEnd), (3, .stmt, .lastNext), (3, .stmt, .repTrue),
     (3, .stmt, .continue_)] := by
  decide +kernel

/-- **sixel_body_eq_model**: on an image cell the block extends `dirty` by the glyph the cell used to
    hold (F113 repair), records the cell in `last`, sets `reposition`, writes nothing and `continue`s —
    the image-cell branch of `renderCellsS`; on any other cell it does nothing. -/
theorem sixel_body_eq_model (cw : String → Nat) (caps : Caps) (n l : Cell) (col dirty : Nat) (rep : Bool) (o : List Tok) :
    let e := run cw caps sixelBlock { next := n, last := l, col := col, dirty := dirty, reposition := rep, out := o }
    e.unknown = false ∧ e.out = o ∧
    (n.sixel = true → e.cont = true ∧ e.reposition = true ∧ e.lastSet = some n ∧
      e.dirty = (if col + advance cw l + 1 > dirty then col + advance cw l + 1 else dirty)) ∧
    (n.sixel = false → e.cont = false ∧ e.reposition = rep ∧ e.lastSet = none ∧ e.dirty = dirty) := by
  have hl : sixelBlock.length = 6 := by decide +kernel
  intro e
  simp only [e]
  unfold run
  rw [sixel_prog, hl]
  by_cases hs : n.sixel = true
  · by_cases hd : col + advance cw l + 1 > dirty
    · simp [exec, evalG, evalS, List.dropWhile, List.takeWhile, hs, hd]
    · simp [exec, evalG, evalS, List.dropWhile, List.takeWhile, hs, hd]
  · have hs' : n.sixel = false := by simpa using hs
    simp [exec, evalG, evalS, List.dropWhile, List.takeWhile, hs']

/-! ### the clip (F02 repair) -/

def clipBlock : List Line := blockAt G 2 "if" "col+vx.advance(next)>=len(vx.screenNext.buf[row])"

theorem clip_prog : prog clipBlock = [(2, .if_, .nextTooWide), (3, .stmt, .nextBlank)] := by decide +kernel

/-- **clip_body_eq_model**: the block replaces `next` by `clipCell` (a blank in the cell's style when
    the glyph is wider than the rest of the row; `rem` = cells from this one to the end of the row). -/
theorem clip_body_eq_model (cw : String → Nat) (caps : Caps) (n : Cell) (col rem : Nat) :
    (run cw caps clipBlock { next := n, col := col, len := col + rem }).next = clipCell cw rem n ∧
    (run cw caps clipBlock { next := n, col := col, len := col + rem }).unknown = false := by
  have hl : clipBlock.length = 2 := by decide +kernel
  unfold run
  rw [clip_prog, hl]
  by_cases h : rem ≤ advance cw n
  · have h' : col + advance cw n ≥ col + rem := by omega
    simp [exec, evalG, evalS, List.dropWhile, List.takeWhile, h, h', clipCell]
  · have h' : ¬ (col + advance cw n ≥ col + rem) := by omega
    simp [exec, evalG, evalS, List.dropWhile, List.takeWhile, h, h', clipCell]

/-! ### reposition -/

def repositionBlock : List Line := blockAt G 2 "if" "reposition"

theorem reposition_prog : prog repositionBlock =
    [(2, .if_, .reposition), (3, .if_, .cursorLinked), (4, .stmt, .wrLinkClose), (4, .stmt, .cursorLinkClear),
     (4, .stmt, .cursorParamsClear), (3, .stmt, .wrCup), (3, .stmt, .repFalse)] := by
  decide +kernel

/-- **reposition_body_eq_model**: with `reposition` set the block closes an open hyperlink (OSC 8 with
    empty fields, the tracked pen forgets the link), writes CUP (row+1, col+1) and clears the flag —
    `pre` and `pen` of the model's written-cell branch. -/
theorem reposition_body_eq_model (cw : String → Nat) (caps : Caps) (pen : Style) (rep : Bool) (row col : Nat) (o : List Tok) :
    let e := run cw caps repositionBlock { cursor := pen, reposition := rep, row := row, col := col, out := o }
    e.unknown = false ∧ e.reposition = false ∧
    e.out = o ++ (if rep then (if pen.link ≠ "" then [Tok.osc8 "" ""] else []) ++ [Tok.cup (row + 1) (col + 1)] else []) ∧
    e.cursor = (if rep ∧ pen.link ≠ "" then { pen with link := "", linkParams := "" } else pen) := by
  have hl : repositionBlock.length = 7 := by decide +kernel
  intro e
  simp only [e]
  unfold run
  rw [reposition_prog, hl]
  cases rep
  · simp [exec, evalG, evalS, List.dropWhile, List.takeWhile]
  · by_cases hk : pen.link = ""
    · simp [exec, evalG, evalS, List.dropWhile, List.takeWhile, hk]
    · simp [exec, evalG, evalS, List.dropWhile, List.takeWhile, hk]

/-! ### the hyperlink (F101 / F102 / F112b repairs) -/

def hyperlinkBlock : List Line :=
  blockAt G 2 "if" "cursor.Hyperlink!=next.Hyperlink||(next.Hyperlink!=\"\"&&cursor.HyperlinkParams!=next.HyperlinkParams)"

theorem hyperlink_prog : prog hyperlinkBlock =
    [(2, .if_, .linkChanged), (3, .stmt, .linkAssign), (3, .stmt, .paramsAssign), (3, .if_, .linkEmpty), (4, .stmt, .paramsClear),
     (3, .if_, .semiIndex), (4, .stmt, .paramsCut), (3, .stmt, .wrLink)] := by
  decide +kernel

/-- `s[:strings.IndexByte(s, ';')]` (when the index is ≥ 0) is the model's `lpField`. -/
theorem lpFieldL_take : ∀ (n : Nat) (l : List Char), l.length ≤ n →
    lpFieldL l = (match semiIndexL l with | some i => l.take (2 * i) | none => l) := by
  intro n
  induction n with
  | zero => intro l h; cases l with
    | nil => rfl
    | cons a r => simp at h
  | succ n ih =>
    intro l h
    match l with
    | [] => rfl
    | [a] => rfl
    | a :: b :: r =>
      have hr : r.length ≤ n := by simp at h; omega
      by_cases hab : a = '3' ∧ b = 'b'
      · simp [lpFieldL, semiIndexL, hab]
      · simp only [lpFieldL, semiIndexL, hab, if_false, ih r hr]
        cases semiIndexL r with
        | none => rfl
        | some i =>
          simp only [Option.map_some]
          have : 2 * (i + 1) = (2 * i + 1) + 1 := by omega
          rw [this, List.take_succ_cons, List.take_succ_cons]

theorem lpField_cut (s : String) :
    lpField s = (match semiIndexL s.toList with | some i => takeBytes i s | none => s) := by
  unfold lpField takeBytes
  rw [lpFieldL_take _ _ (Nat.le_refl _)]
  cases semiIndexL s.toList with
  | none => simp
  | some i => rfl

/-- **hyperlink_body_eq_model**: the block writes OSC 8 exactly when the link (or, for a non-empty
    link, its parameter string) differs from the tracked pen's, with the parameters cut before their
    first `;` — the last part of `penDelta`. -/
theorem hyperlink_body_eq_model (cw : String → Nat) (caps : Caps) (pen : Style) (n : Cell) (o : List Tok) :
    let e := run cw caps hyperlinkBlock { cursor := pen, next := n, out := o }
    e.unknown = false ∧
    e.out = o ++ (if pen.link ≠ n.style.link ∨ (n.style.link ≠ "" ∧ pen.linkParams ≠ n.style.linkParams) then
                    [Tok.osc8 (lpField (if n.style.link = "" then "" else n.style.linkParams)) n.style.link] else []) := by
  have hl : hyperlinkBlock.length = 8 := by decide +kernel
  intro e
  simp only [e]
  unfold run
  rw [hyperlink_prog, hl]
  by_cases hc : pen.link ≠ n.style.link ∨ (n.style.link ≠ "" ∧ pen.linkParams ≠ n.style.linkParams)
  · by_cases hk : n.style.link = ""
    · have h0 : semiIndexL [] = none := rfl
      have hc' : ¬ pen.link = "" := by simpa [hk] using hc
      simp [exec, evalG, evalS, List.dropWhile, List.takeWhile, hk, h0, hc', VaxisModel.Lemmas.RenderDisplay.lpField_empty]
    · have hc2 : ¬ pen.link = n.style.link ∨ ¬ pen.linkParams = n.style.linkParams := by
        rcases hc with h | ⟨_, h⟩
        · exact Or.inl h
        · exact Or.inr h
      rw [if_pos hc, if_neg hk, lpField_cut]
      cases hi : semiIndexL n.style.linkParams.toList with
      | none => simp [exec, evalG, evalS, List.dropWhile, List.takeWhile, hk, hi, hc2]
      | some i => simp [exec, evalG, evalS, List.dropWhile, List.takeWhile, hk, hi, hc2]
  · simp [exec, evalG, evalS, List.dropWhile, List.takeWhile, hc]

/-! ### the glyph -/

def glyphBlock : List Line := blockAt G 2 "if" "next.Width==0" ++ blockAt G 2 "switch" ""

theorem glyph_prog : prog glyphBlock =
    [(2, .if_, .nextWidth0), (3, .stmt, .setNextWidth), (2, .switch_, .none_), (3, .case_, .nextWidth0), (4, .stmt, .wrSpace),
     (3, .case_, .nextWide), (4, .stmt, .wrExplicit), (3, .default_, .none_), (4, .stmt, .wrGrapheme)] := by
  decide +kernel

/-- **glyph_body_eq_model**: width resolution (`characterWidth` for an unset width) and the write
    `switch` (space for width 0, OSC 66 for a wide glyph under the explicit-width protocol, the raw
    grapheme otherwise) write `glyphTok`. -/
theorem glyph_body_eq_model (cw : String → Nat) (caps : Caps) (n : Cell) (o : List Tok) :
    (run cw caps glyphBlock { next := n, out := o }).out = o ++ [glyphTok cw caps n] ∧
    (run cw caps glyphBlock { next := n, out := o }).unknown = false := by
  have hl : glyphBlock.length = 9 := by decide +kernel
  unfold run
  rw [glyph_prog, hl]
  by_cases hw : n.w = 0
  · by_cases h0 : cw n.g = 0
    · simp [exec, execArms, evalG, evalS, List.dropWhile, List.takeWhile, hw, h0, glyphTok, glyphTokW, resolvedW]
    · by_cases h1 : 1 < cw n.g
      · have h1i : (1 : Int) < (cw n.g : Int) := by omega
        cases hew : caps.explicitWidth <;>
          simp [exec, execArms, evalG, evalS, List.dropWhile, List.takeWhile, hw, h0, h1i, hew, glyphTok, glyphTokW, resolvedW]
      · have h1i : ¬ (1 : Int) < (cw n.g : Int) := by omega
        simp [exec, execArms, evalG, evalS, List.dropWhile, List.takeWhile, hw, h0, h1i, glyphTok, glyphTokW, resolvedW]
  · by_cases h1 : 1 < n.w
    · cases hew : caps.explicitWidth <;>
        simp [exec, execArms, evalG, evalS, List.dropWhile, List.takeWhile, hw, h1, hew, glyphTok, glyphTokW, resolvedW]
    · simp [exec, execArms, evalG, evalS, List.dropWhile, List.takeWhile, hw, h1, glyphTok, glyphTokW, resolvedW]

end VaxisModel.Props.C01Body
