/-
C01 — the straight-line blocks of `render()`'s cell loop, `advance()` and `showCursor()` EXECUTED from
the statement skeletons regenerated from vaxis.go on every run (`Gen/RenderFacts.lean`) by the small
interpreter `Model/RenderInterp.lean`, and proved equal — for all inputs — to the building blocks of the
renderer model (`Model/Render*.lean`):

  advance_body_eq_model        advance()                                   = `advance`
  showCursor_body_eq_model     showCursor()                                = `showCursorToks`
  sixel_body_eq_model          `if next.sixel { … continue }`              = the image-cell branch of `renderCellsS`
  clip_body_eq_model           `if col+vx.advance(next) >= len(row) { … }` = `clipCell`            (F02 repair)
  reposition_body_eq_model     `if reposition { … }`                       = `pre` / the pen's link reset
  hyperlink_body_eq_model      `if cursor.Hyperlink != next.Hyperlink …`   = the OSC 8 part of `penDelta` with `lpField` (F112b repair)
  glyph_body_eq_model          width resolution + the write `switch`       = `glyphTok`
  written_cell_body_eq_model   the WHOLE written-cell path (dirty … switch)  = tokens / pen / flags / dirty / last of the written-cell branch
  unchanged_body_eq_model      `if next == last && !refresh && col >= dirty { … continue }` = the unchanged branch
  render_frame_body_eq_model   pointer shape / trailing OSC 8 close / cursor show  = `pre` / `close` / `show_` of `renderBodyS`
  render_body_eq_model         `render()` as a whole (pointer shape, row loop, cell loop, trailing close, cursor show) = `renderBodyS`;
  render_frame_eq_interp       one `Render()` = the writer (`flush`, interpreted by `C01Facts.flush_from_source`) over the interpreted body
  render_row_body_eq_model     the WHOLE cell loop of one row: the interpreted blocks glued in source order and iterated with the
                               loop's `col += 1` = `renderCellsS` (with `Lemmas/RenderLoop.goRow_eq`: index loop with `col += skip` and
                               nulling loops = list recursion with `skip` / `track`)
  render_written_branch_eq_interp, render_sixel_branch_eq_interp, render_unchanged_branch_eq_interp
                               each of the three branches of `renderCellsS` at a non-skipped cell continues with the
                               state the interpreted statements compute
  (the writer: `Props.C01Facts.flush_from_source`; attribute tables / delta order: `attrToks_from_source`, `penDelta_order`)

  nullLoop_body_eq_model       the two nulling loops `for i := 1; i < skip+1; i += 1 { … }` (executed with `break`, the `dirty`
                               extension and `last[col+i] = Cell{}`) = `Lemmas/RenderLoop.nullLoop`

A source change in one of these blocks changes the regenerated text, hence the atoms the interpreter
reads (`Atom.unknown` for a text it does not know) and breaks exactly the theorem of that block.
Hand-written: the ORDER in which the blocks follow each other in the loop body and in `render()` (`iterI`,
`rowsI`, `renderBodyI` glue the interpreted blocks in source order; the loop headers `for col := 0; col <
len(row); col += 1` and `for row := range …` with `reposition = true; dirty := 0` are in that glue) — tied to
the source by `cell_loop_order` (the top-level statements of the loop body, read by the interpreter, are exactly
that sequence, and the five blocks concatenated ARE the loop body) and by `Props.C01Facts.facts_render`.  Inside the
written-cell path the colour / underline blocks run as single statements (`prune`); `fg_body_eq_model`, `bg_body_eq_model`,
`ul_body_eq_model`, `ulStyle_body_eq_model`, `macro_atoms_are_blocks` show those statements ARE the blocks executed line
by line (`switch len(ps)` …); the attribute block is interpreted through its tables (`attrToks_from_source`).
-/
import VaxisModel.Model.RenderInterp
import VaxisModel.Model.RenderSixel
import VaxisModel.Gen.RenderFacts
import VaxisModel.Lemmas.RenderDisplay
import VaxisModel.Lemmas.RenderImages
import VaxisModel.Lemmas.RenderLoop
import VaxisModel.Props.C01Facts

namespace VaxisModel.Props.C01Body
open VaxisModel.Model.Render VaxisModel.Model.RenderInterp

abbrev G := VaxisModel.Gen.RenderFacts.render

/-! ### advance() -/

theorem advance_prog : prog VaxisModel.Gen.RenderFacts.advance =
    [(0, .if_, .cellWidth0), (1, .stmt, .setCellWidth), (0, .stmt, .wAssign), (0, .if_, .wNeg), (1, .stmt, .ret0),
     (0, .stmt, .retW)] := by
  decide +kernel

/-- **advance_body_eq_model**: running the body of `Vaxis.advance` as extracted on this run returns
    the model's `advance` for every cell and width oracle; every line was understood. -/
theorem advance_body_eq_model (cw : String → Nat) (caps : Caps) (c : Cell) :
    (run cw caps VaxisModel.Gen.RenderFacts.advance { next := c }).ret = some (advance cw c : Int) ∧
    (run cw caps VaxisModel.Gen.RenderFacts.advance { next := c }).unknown = false := by
  have hl : VaxisModel.Gen.RenderFacts.advance.length = 6 := by decide +kernel
  unfold run
  rw [advance_prog, hl]
  by_cases hw : c.w = 0
  · by_cases h2 : ((cw c.g : Int) - 1 < 0)
    · simp [exec, evalG, evalS, List.dropWhile, hw, h2, advance, resolvedW]
    · simp [exec, evalG, evalS, List.dropWhile, hw, h2, advance, resolvedW]
      omega
  · by_cases h2 : (c.w - 1 < 0)
    · simp [exec, evalG, evalS, List.dropWhile, hw, h2, advance, resolvedW]
    · simp [exec, evalG, evalS, List.dropWhile, hw, h2, advance, resolvedW]
      omega

/-! ### showCursor() -/

theorem showCursor_prog : prog VaxisModel.Gen.RenderFacts.showCursor =
    [(0, .stmt, .newBuf), (0, .stmt, .wrCursorStyle), (0, .stmt, .wrCursorCup), (0, .stmt, .wrCursorShow), (0, .stmt, .retBuf)] := by
  decide +kernel

/-- **showCursor_body_eq_model**: cursor style, CUP (row+1, col+1), DECSET 25 — `showCursorToks`. -/
theorem showCursor_body_eq_model (cw : String → Nat) (caps : Caps) (c : CursorState) (o : List Tok) :
    (run cw caps VaxisModel.Gen.RenderFacts.showCursor { cn := c, out := o }).out = showCursorToks c ∧
    (run cw caps VaxisModel.Gen.RenderFacts.showCursor { cn := c, out := o }).unknown = false := by
  have hl : VaxisModel.Gen.RenderFacts.showCursor.length = 5 := by decide +kernel
  unfold run
  rw [showCursor_prog, hl]
  simp [exec, evalS, List.dropWhile, List.takeWhile, showCursorToks]

/-! ### the image-cell branch -/

def sixelBlock : List Line := blockAt G 2 "if" "next.sixel"

theorem sixel_prog : prog sixelBlock =
    [(2, .if_, .nextSixel), (3, .if_, .endLastDirty), (4, .stmt, .dirtyEnd), (3, .stmt, .lastNext), (3, .stmt, .repTrue),
     (3, .stmt, .continue_)] := by
  decide +kernel

/-- **sixel_body_eq_model**: on an image cell the block extends `dirty` by the glyph the cell used to
    hold (F113 repair), records the cell in `last`, sets `reposition`, writes nothing and `continue`s —
    the image-cell branch of `renderCellsS`; on any other cell it does nothing. -/
theorem sixel_body_eq_model (cw : String → Nat) (caps : Caps) (n l : Cell) (col dirty : Nat) (rep : Bool) (o : List Tok) :
    let e := run cw caps sixelBlock { next := n, last := l, col := col, dirty := dirty, reposition := rep, out := o }
    e.unknown = false ∧ e.out = o ∧
    (n.sixel = true → e.cont = true ∧ e.reposition = true ∧ e.lastSet = some n ∧
      e.dirty = (if col + advance cw l + 1 > dirty then col + advance cw l + 1 else dirty)) ∧
    (n.sixel = false → e.cont = false ∧ e.reposition = rep ∧ e.lastSet = none ∧ e.dirty = dirty) := by
  have hl : sixelBlock.length = 6 := by decide +kernel
  intro e
  simp only [e]
  unfold run
  rw [sixel_prog, hl]
  by_cases hs : n.sixel = true
  · by_cases hd : col + advance cw l + 1 > dirty
    · simp [exec, evalG, evalS, List.dropWhile, List.takeWhile, hs, hd]
    · simp [exec, evalG, evalS, List.dropWhile, List.takeWhile, hs, hd]
  · have hs' : n.sixel = false := by simpa using hs
    simp [exec, evalG, evalS, List.dropWhile, List.takeWhile, hs']

/-! ### the clip (F02 repair) -/

def clipBlock : List Line := blockAt G 2 "if" "col+vx.advance(next)>=len(vx.screenNext.buf[row])"

theorem clip_prog : prog clipBlock = [(2, .if_, .nextTooWide), (3, .stmt, .nextBlank)] := by decide +kernel

/-- **clip_body_eq_model**: the block replaces `next` by `clipCell` (a blank in the cell's style when
    the glyph is wider than the rest of the row; `rem` = cells from this one to the end of the row). -/
theorem clip_body_eq_model (cw : String → Nat) (caps : Caps) (n : Cell) (col rem : Nat) :
    (run cw caps clipBlock { next := n, col := col, len := col + rem }).next = clipCell cw rem n ∧
    (run cw caps clipBlock { next := n, col := col, len := col + rem }).unknown = false := by
  have hl : clipBlock.length = 2 := by decide +kernel
  unfold run
  rw [clip_prog, hl]
  by_cases h : rem ≤ advance cw n
  · have h' : col + advance cw n ≥ col + rem := by omega
    simp [exec, evalG, evalS, List.dropWhile, List.takeWhile, h, h', clipCell]
  · have h' : ¬ (col + advance cw n ≥ col + rem) := by omega
    simp [exec, evalG, evalS, List.dropWhile, List.takeWhile, h, h', clipCell]

/-! ### reposition -/

def repositionBlock : List Line := blockAt G 2 "if" "reposition"

theorem reposition_prog : prog repositionBlock =
    [(2, .if_, .reposition), (3, .if_, .cursorLinked), (4, .stmt, .wrLinkClose), (4, .stmt, .cursorLinkClear),
     (4, .stmt, .cursorParamsClear), (3, .stmt, .wrCup), (3, .stmt, .repFalse)] := by
  decide +kernel

/-- **reposition_body_eq_model**: with `reposition` set the block closes an open hyperlink (OSC 8 with
    empty fields, the tracked pen forgets the link), writes CUP (row+1, col+1) and clears the flag —
    `pre` and `pen` of the model's written-cell branch. -/
theorem reposition_body_eq_model (cw : String → Nat) (caps : Caps) (pen : Style) (rep : Bool) (row col : Nat) (o : List Tok) :
    let e := run cw caps repositionBlock { cursor := pen, reposition := rep, row := row, col := col, out := o }
    e.unknown = false ∧ e.reposition = false ∧
    e.out = o ++ (if rep then (if pen.link ≠ "" then [Tok.osc8 "" ""] else []) ++ [Tok.cup (row + 1) (col + 1)] else []) ∧
    e.cursor = (if rep ∧ pen.link ≠ "" then { pen with link := "", linkParams := "" } else pen) := by
  have hl : repositionBlock.length = 7 := by decide +kernel
  intro e
  simp only [e]
  unfold run
  rw [reposition_prog, hl]
  cases rep
  · simp [exec, evalG, evalS, List.dropWhile, List.takeWhile]
  · by_cases hk : pen.link = ""
    · simp [exec, evalG, evalS, List.dropWhile, List.takeWhile, hk]
    · simp [exec, evalG, evalS, List.dropWhile, List.takeWhile, hk]

/-! ### the hyperlink (F101 / F102 / F112b repairs) -/

def hyperlinkBlock : List Line :=
  blockAt G 2 "if" "cursor.Hyperlink!=next.Hyperlink||(next.Hyperlink!=\"\"&&cursor.HyperlinkParams!=next.HyperlinkParams)"

theorem hyperlink_prog : prog hyperlinkBlock =
    [(2, .if_, .linkChanged), (3, .stmt, .linkAssign), (3, .stmt, .paramsAssign), (3, .if_, .linkEmpty), (4, .stmt, .paramsClear),
     (3, .if_, .semiIndex), (4, .stmt, .paramsCut), (3, .stmt, .wrLink)] := by
  decide +kernel

/-- `s[:strings.IndexByte(s, ';')]` (when the index is ≥ 0) is the model's `lpField`. -/
theorem lpFieldL_take : ∀ (n : Nat) (l : List Char), l.length ≤ n →
    lpFieldL l = (match semiIndexL l with | some i => l.take (2 * i) | none => l) := by
  intro n
  induction n with
  | zero => intro l h; cases l with
    | nil => rfl
    | cons a r => simp at h
  | succ n ih =>
    intro l h
    match l with
    | [] => rfl
    | [a] => rfl
    | a :: b :: r =>
      have hr : r.length ≤ n := by simp at h; omega
      by_cases hab : a = '3' ∧ b = 'b'
      · simp [lpFieldL, semiIndexL, hab]
      · simp only [lpFieldL, semiIndexL, hab, if_false, ih r hr]
        cases semiIndexL r with
        | none => rfl
        | some i =>
          simp only [Option.map_some]
          have : 2 * (i + 1) = (2 * i + 1) + 1 := by omega
          rw [this, List.take_succ_cons, List.take_succ_cons]

theorem lpField_cut (s : String) :
    lpField s = (match semiIndexL s.toList with | some i => takeBytes i s | none => s) := by
  unfold lpField takeBytes
  rw [lpFieldL_take _ _ (Nat.le_refl _)]
  cases semiIndexL s.toList with
  | none => simp
  | some i => rfl

/-- **hyperlink_body_eq_model**: the block writes OSC 8 exactly when the link (or, for a non-empty
    link, its parameter string) differs from the tracked pen's, with the parameters cut before their
    first `;` — the last part of `penDelta`. -/
theorem hyperlink_body_eq_model (cw : String → Nat) (caps : Caps) (pen : Style) (n : Cell) (o : List Tok) :
    let e := run cw caps hyperlinkBlock { cursor := pen, next := n, out := o }
    e.unknown = false ∧
    e.out = o ++ (if pen.link ≠ n.style.link ∨ (n.style.link ≠ "" ∧ pen.linkParams ≠ n.style.linkParams) then
                    [Tok.osc8 (lpField (if n.style.link = "" then "" else n.style.linkParams)) n.style.link] else []) := by
  have hl : hyperlinkBlock.length = 8 := by decide +kernel
  intro e
  simp only [e]
  unfold run
  rw [hyperlink_prog, hl]
  by_cases hc : pen.link ≠ n.style.link ∨ (n.style.link ≠ "" ∧ pen.linkParams ≠ n.style.linkParams)
  · by_cases hk : n.style.link = ""
    · have h0 : semiIndexL [] = none := rfl
      have hc' : ¬ pen.link = "" := by simpa [hk] using hc
      simp [exec, evalG, evalS, List.dropWhile, List.takeWhile, hk, h0, hc', VaxisModel.Lemmas.RenderDisplay.lpField_empty]
    · have hc2 : ¬ pen.link = n.style.link ∨ ¬ pen.linkParams = n.style.linkParams := by
        rcases hc with h | ⟨_, h⟩
        · exact Or.inl h
        · exact Or.inr h
      rw [if_pos hc, if_neg hk, lpField_cut]
      cases hi : semiIndexL n.style.linkParams.toList with
      | none => simp [exec, evalG, evalS, List.dropWhile, List.takeWhile, hk, hi, hc2]
      | some i => simp [exec, evalG, evalS, List.dropWhile, List.takeWhile, hk, hi, hc2]
  · simp [exec, evalG, evalS, List.dropWhile, List.takeWhile, hc]

/-! ### the glyph -/

def glyphBlock : List Line := blockAt G 2 "if" "next.Width==0" ++ blockAt G 2 "switch" ""

theorem glyph_prog : prog glyphBlock =
    [(2, .if_, .nextWidth0), (3, .stmt, .setNextWidth), (2, .switch_, .none_), (3, .case_, .nextWidth0), (4, .stmt, .wrSpace),
     (3, .case_, .nextWide), (4, .stmt, .wrExplicit), (3, .default_, .none_), (4, .stmt, .wrGrapheme)] := by
  decide +kernel

/-- **glyph_body_eq_model**: width resolution (`characterWidth` for an unset width) and the write
    `switch` (space for width 0, OSC 66 for a wide glyph under the explicit-width protocol, the raw
    grapheme otherwise) write `glyphTok`. -/
theorem glyph_body_eq_model (cw : String → Nat) (caps : Caps) (n : Cell) (o : List Tok) :
    (run cw caps glyphBlock { next := n, out := o }).out = o ++ [glyphTok cw caps n] ∧
    (run cw caps glyphBlock { next := n, out := o }).unknown = false := by
  have hl : glyphBlock.length = 9 := by decide +kernel
  unfold run
  rw [glyph_prog, hl]
  by_cases hw : n.w = 0
  · by_cases h0 : cw n.g = 0
    · simp [exec, execArms, evalG, evalS, List.dropWhile, List.takeWhile, hw, h0, glyphTok, glyphTokW, resolvedW]
    · by_cases h1 : 1 < cw n.g
      · have h1i : (1 : Int) < (cw n.g : Int) := by omega
        cases hew : caps.explicitWidth <;>
          simp [exec, execArms, evalG, evalS, List.dropWhile, List.takeWhile, hw, h0, h1i, hew, glyphTok, glyphTokW, resolvedW]
      · have h1i : ¬ (1 : Int) < (cw n.g : Int) := by omega
        simp [exec, execArms, evalG, evalS, List.dropWhile, List.takeWhile, hw, h0, h1i, glyphTok, glyphTokW, resolvedW]
  · by_cases h1 : 1 < n.w
    · cases hew : caps.explicitWidth <;>
        simp [exec, execArms, evalG, evalS, List.dropWhile, List.takeWhile, hw, h1, hew, glyphTok, glyphTokW, resolvedW]
    · simp [exec, execArms, evalG, evalS, List.dropWhile, List.takeWhile, hw, h1, glyphTok, glyphTokW, resolvedW]

/-! ### the whole written-cell path -/

/-- From the `dirty` extension to the write `switch`: everything `render()` does for a cell it writes,
    between the early exits (image cell, clip, unchanged) and the skipping of the covered cells. -/
def writtenPath : List Line :=
  (G.dropWhile (fun l => !(l.1 == 2 && l.2.1 == "if" && l.2.2 == "end:=col+vx.advance(vx.screenLast.buf[row][col])+1;end>dirty"))).takeWhile
    (fun l => !(l.1 == 2 && l.2.1 == "assign" && l.2.2 == "skip:=vx.advance(next)"))

theorem written_prog : prune (prog writtenPath) =
    [(2, .if_, .endLastDirty), (3, .stmt, .dirtyEnd), (2, .stmt, .lastNext),
     (2, .if_, .reposition), (3, .if_, .cursorLinked), (4, .stmt, .wrLinkClose), (4, .stmt, .cursorLinkClear),
     (4, .stmt, .cursorParamsClear), (3, .stmt, .wrCup), (3, .stmt, .repFalse),
     (2, .stmt, .fgDelta), (2, .stmt, .bgDelta), (2, .stmt, .ulDelta), (2, .stmt, .attrDelta), (2, .stmt, .ulStyleDelta),
     (2, .if_, .linkChanged), (3, .stmt, .linkAssign), (3, .stmt, .paramsAssign), (3, .if_, .linkEmpty), (4, .stmt, .paramsClear),
     (3, .if_, .semiIndex), (4, .stmt, .paramsCut), (3, .stmt, .wrLink),
     (2, .stmt, .cursorNextStyle),
     (2, .if_, .nextWidth0), (3, .stmt, .setNextWidth),
     (2, .switch_, .none_), (3, .case_, .nextWidth0), (4, .stmt, .wrSpace), (3, .case_, .nextWide), (4, .stmt, .wrExplicit),
     (3, .default_, .none_), (4, .stmt, .wrGrapheme)] := by
  decide +kernel

theorem lpField_cut_if (s : String) :
    lpField s = (if (semiIndexL s.toList).isSome = true then takeBytes ((semiIndexL s.toList).getD 0) s else s) := by
  rw [lpField_cut]
  cases semiIndexL s.toList with
  | none => simp
  | some i => simp

theorem ite_append_right {α : Type} (c : Prop) [Decidable c] (X a b : List α) :
    (if c then X ++ a else X ++ b) = X ++ (if c then a else b) := by split <;> rfl
theorem ite_singleton {α : Type} (c : Prop) [Decidable c] (a b : α) :
    (if c then [a] else [b]) = [if c then a else b] := by split <;> rfl
theorem ite_cons_right {α : Type} (c : Prop) [Decidable c] (x : α) (a b : List α) :
    (if c then x :: a else x :: b) = x :: (if c then a else b) := by split <;> rfl

/-- The environment in which the written-cell path runs: the loop state `st`, the (clipped) cell `m`,
    the cell `l` the previous frame recorded here. -/
def writtenEnv (st : RSt) (m l : Cell) (row col dirty : Nat) : Env :=
  { cursor := st.pen, reposition := st.reposition, next := m, last := l, row := row, col := col, dirty := dirty, out := st.out }

set_option maxHeartbeats 400000 in
theorem written_state (cw : String → Nat) (caps : Caps) (st : RSt) (m l : Cell) (row col dirty : Nat) :
    let e := runP cw caps writtenPath (writtenEnv st m l row col dirty)
    e.unknown = false ∧ e.reposition = false ∧ e.lastSet = some m ∧
    e.dirty = (if col + advance cw l + 1 > dirty then col + advance cw l + 1 else dirty) := by
  have hl : writtenPath.length = 125 := by decide +kernel
  intro e
  simp only [e, writtenEnv]
  unfold runP
  rw [written_prog, hl]
  simp [exec, execArms, evalG, evalS, List.dropWhile, List.takeWhile, apply_ite Env.cont, apply_ite Env.ret, apply_ite Env.brk, apply_ite Env.unknown,
    apply_ite Env.reposition, apply_ite Env.lastSet, apply_ite Env.dirty, apply_ite Env.out, apply_ite Env.cursor, apply_ite Env.next,
    apply_ite Env.link, apply_ite Env.linkPs, apply_ite Env.idx, apply_ite Env.endv, apply_ite Env.col, apply_ite Env.row]

set_option maxHeartbeats 400000 in
theorem written_out (cw : String → Nat) (caps : Caps) (st : RSt) (m l : Cell) (row col dirty : Nat) :
    let e := runP cw caps writtenPath (writtenEnv st m l row col dirty)
    e.cursor = m.style ∧ e.out = st.out ++ VaxisModel.Lemmas.RenderDisplay.cellToks cw caps st row col m := by
  have hl : writtenPath.length = 125 := by decide +kernel
  intro e
  simp only [e, writtenEnv]
  unfold runP
  rw [written_prog, hl]
  cases hrep : st.reposition <;> by_cases hk : st.pen.link = "" <;> by_cases hw : m.w = 0
  all_goals
    simp [exec, execArms, evalG, evalS, List.dropWhile, List.takeWhile, apply_ite Env.cont, apply_ite Env.ret, apply_ite Env.brk, apply_ite Env.unknown,
      apply_ite Env.reposition, apply_ite Env.lastSet, apply_ite Env.dirty, apply_ite Env.out, apply_ite Env.cursor, apply_ite Env.next,
      apply_ite Env.link, apply_ite Env.linkPs, apply_ite Env.idx, apply_ite Env.endv, apply_ite Env.col, apply_ite Env.row,
      hrep, hk, hw, VaxisModel.Lemmas.RenderDisplay.cellToks, penDelta, glyphTok, glyphTokW, resolvedW, lpField_cut_if, ite_append_right,
      ite_singleton, ite_cons_right]
  all_goals (split <;> simp)

/-- **written_cell_body_eq_model**: running everything `render()` does for a written cell — `dirty`
    extension, copy into `last`, reposition (OSC 8 close + CUP), the six style deltas (colours, attributes
    and underline as whole blocks), the hyperlink with its parameter cut, `cursor = next.Style`, width
    resolution and the write `switch` — from the text extracted on this run gives exactly the tokens,
    the tracked pen, the flags, `dirty` and the `last` cell of the model's written-cell branch. -/
theorem written_cell_body_eq_model (cw : String → Nat) (caps : Caps) (st : RSt) (m l : Cell) (row col dirty : Nat) :
    let e := runP cw caps writtenPath (writtenEnv st m l row col dirty)
    e.unknown = false ∧ e.lastSet = some m ∧
    e.dirty = (if col + advance cw l + 1 > dirty then col + advance cw l + 1 else dirty) ∧
    ({ reposition := e.reposition, pen := e.cursor, out := e.out } : RSt) =
      { reposition := false, pen := m.style, out := st.out ++ VaxisModel.Lemmas.RenderDisplay.cellToks cw caps st row col m } := by
  intro e
  obtain ⟨h1, h2, h3, h4⟩ := written_state cw caps st m l row col dirty
  obtain ⟨h5, h6⟩ := written_out cw caps st m l row col dirty
  exact ⟨h1, h3, h4, by simp only [e]; rw [h2, h5, h6]⟩

/-- **The written-cell branch of the model's loop is the interpreted source**: for a cell that is neither
    an image cell nor unchanged, `renderCellsS` continues with exactly the state the extracted statements
    compute (`e`), the cell the clip block computes, and skips `advance` cells. -/
theorem render_written_branch_eq_interp (cw : String → Nat) (caps : Caps) (refresh : Bool) (row col : Nat) (track : Bool)
    (dirty : Nat) (n0 l : Cell) (ns ls : List Cell) (st : RSt) (h : n0.sixel = false)
    (hc : ¬ (clipCell cw (ns.length + 1) n0 = l ∧ ¬ refresh ∧ col ≥ dirty)) :
    let m := (run cw caps clipBlock { next := n0, col := col, len := col + (ns.length + 1) }).next
    let e := runP cw caps writtenPath (writtenEnv st m l row col dirty)
    renderCellsS cw caps refresh row col 0 track dirty (n0 :: ns) (l :: ls) st =
      (m :: (renderCellsS cw caps refresh row (col + 1) (advance cw m) true e.dirty ns ls
              { reposition := e.reposition, pen := e.cursor, out := e.out }).1,
       (renderCellsS cw caps refresh row (col + 1) (advance cw m) true e.dirty ns ls
              { reposition := e.reposition, pen := e.cursor, out := e.out }).2) := by
  intro m e
  have hm : m = clipCell cw (ns.length + 1) n0 := (clip_body_eq_model cw caps n0 col (ns.length + 1)).1
  obtain ⟨_, _, hd, hst⟩ := written_cell_body_eq_model cw caps st m l row col dirty
  simp only [e]
  rw [hd, hst, hm]
  exact VaxisModel.Lemmas.RenderImages.renderCellsS_write_eq cw caps refresh row col track dirty n0 l ns ls st h hc

/-- **The image-cell branch of the model's loop is the interpreted source.** -/
theorem render_sixel_branch_eq_interp (cw : String → Nat) (caps : Caps) (refresh : Bool) (row col : Nat) (track : Bool)
    (dirty : Nat) (n l : Cell) (ns ls : List Cell) (st : RSt) (h : n.sixel = true) :
    let e := run cw caps sixelBlock { next := n, last := l, col := col, dirty := dirty, reposition := st.reposition, out := st.out }
    e.cont = true ∧
    renderCellsS cw caps refresh row col 0 track dirty (n :: ns) (l :: ls) st =
      (e.lastSet.getD l :: (renderCellsS cw caps refresh row (col + 1) 0 false e.dirty ns ls
              { st with reposition := e.reposition }).1,
       (renderCellsS cw caps refresh row (col + 1) 0 false e.dirty ns ls { st with reposition := e.reposition }).2) := by
  intro e
  obtain ⟨_, _, h1, _⟩ := sixel_body_eq_model cw caps n l col dirty st.reposition st.out
  obtain ⟨c1, c2, c3, c4⟩ := h1 h
  refine ⟨c1, ?_⟩
  simp only [e]
  rw [c2, c3, c4]
  exact VaxisModel.Lemmas.RenderImages.renderCellsS_sixel_eq cw caps refresh row col track dirty n l ns ls st h


/-! ### the unchanged cell -/

def unchangedBlock : List Line := blockAt G 2 "if" "next==vx.screenLast.buf[row][col]&&!vx.refresh&&col>=dirty"

theorem unchanged_prog : prune (prog unchangedBlock) =
    [(2, .if_, .unchanged), (3, .stmt, .repTrue), (3, .stmt, .skipAdvance), (3, .stmt, .nullLoop), (3, .stmt, .colSkip),
     (3, .stmt, .continue_)] := by
  decide +kernel

/-- **unchanged_body_eq_model**: a cell equal to what the previous frame recorded — outside a refresh and
    the `dirty` range — is not written: `reposition` is set, the `advance(next)` cells it covers are handed
    to the nulling loop and jumped over, `continue`.  Otherwise the block does nothing. -/
theorem unchanged_body_eq_model (cw : String → Nat) (caps : Caps) (m l : Cell) (col dirty : Nat) (refresh rep : Bool) (o : List Tok) :
    let e := runP cw caps unchangedBlock { next := m, last := l, col := col, dirty := dirty, refresh := refresh, reposition := rep, out := o }
    e.unknown = false ∧ e.out = o ∧ e.dirty = dirty ∧
    ((m = l ∧ ¬ refresh ∧ col ≥ dirty) → e.cont = true ∧ e.reposition = true ∧ e.skipv = advance cw m ∧ e.nulled = advance cw m ∧
      e.col = col + advance cw m) ∧
    (¬ (m = l ∧ ¬ refresh ∧ col ≥ dirty) → e.cont = false ∧ e.reposition = rep ∧ e.col = col) := by
  have hl : unchangedBlock.length = 9 := by decide +kernel
  intro e
  simp only [e]
  unfold runP
  rw [unchanged_prog, hl]
  by_cases hc : m = l ∧ ¬ refresh ∧ col ≥ dirty
  · obtain ⟨h1, h2, h3⟩ := hc
    have h2' : refresh = false := by simpa using h2
    simp [exec, evalG, evalS, List.dropWhile, List.takeWhile, h1, h2', h3]
  · have hg : (decide (m = l) && !refresh && decide (col ≥ dirty)) = false := by
      by_cases a : m = l <;> cases hr : refresh <;> by_cases b : col ≥ dirty <;> simp_all
    simp [exec, evalG, evalS, List.dropWhile, List.takeWhile, hg, hc]
    intro a b
    by_cases c : col ≥ dirty
    · exact absurd ⟨a, by simpa using b, c⟩ hc
    · omega

/-- **The unchanged branch of the model's loop is the interpreted source.** -/
theorem render_unchanged_branch_eq_interp (cw : String → Nat) (caps : Caps) (refresh : Bool) (row col : Nat) (track : Bool)
    (dirty : Nat) (n0 l : Cell) (ns ls : List Cell) (st : RSt) (h : n0.sixel = false)
    (hc : clipCell cw (ns.length + 1) n0 = l ∧ ¬ refresh ∧ col ≥ dirty) :
    let m := (run cw caps clipBlock { next := n0, col := col, len := col + (ns.length + 1) }).next
    let e := runP cw caps unchangedBlock
      ({ next := m, last := l, col := col, dirty := dirty, refresh := refresh, reposition := st.reposition, out := st.out } : Env)
    e.cont = true ∧
    renderCellsS cw caps refresh row col 0 track dirty (n0 :: ns) (l :: ls) st =
      (l :: (renderCellsS cw caps refresh row (col + 1) e.skipv false e.dirty ns ls { st with reposition := e.reposition }).1,
       (renderCellsS cw caps refresh row (col + 1) e.skipv false e.dirty ns ls { st with reposition := e.reposition }).2) := by
  intro m e
  have hm : m = clipCell cw (ns.length + 1) n0 := (clip_body_eq_model cw caps n0 col (ns.length + 1)).1
  obtain ⟨_, _, hd, h1, _⟩ := unchanged_body_eq_model cw caps m l col dirty refresh st.reposition st.out
  obtain ⟨c1, c2, c3, _, _⟩ := h1 (by rw [hm]; exact hc)
  refine ⟨c1, ?_⟩
  simp only [e]
  rw [hd, c2, c3, hm]
  exact VaxisModel.Lemmas.RenderImages.renderCellsS_equal_eq cw caps refresh row col track dirty n0 l ns ls st h hc


/-! ### the frame of `render()` around the row loop: pointer shape, trailing hyperlink close, cursor show -/

def shapeBlock : List Line := blockAt G 0 "if" "vx.mouseShapeLast!=vx.mouseShapeNext"
def closeBlock : List Line := blockAt G 0 "if" "cursor.Hyperlink!=\"\""
def showBlock : List Line := blockAt G 0 "if" "vx.cursorNext.visible&&!vx.cursorLast.visible"

theorem tail_progs :
    prog shapeBlock = [(0, .if_, .shapeChanged), (1, .stmt, .wrShape), (1, .stmt, .shapeAssign)] ∧
    prog closeBlock = [(0, .if_, .cursorLinked), (1, .stmt, .wrLinkClose)] ∧
    prog showBlock = [(0, .if_, .cursorAppears), (1, .stmt, .wrShowCursor)] := by
  decide +kernel

/-- **render_frame_body_eq_model**: the statements of `render()` before and after the row loop — OSC 22
    when the pointer shape changed, OSC 8 close when the tracked pen still has a hyperlink open,
    `showCursor()` when the cursor becomes visible — write `pre`, `close`, `show_` of `renderBodyS`. -/
theorem render_frame_body_eq_model (cw : String → Nat) (f : Frame) (pen : Style) (o : List Tok) :
    (run cw f.caps shapeBlock { shapeNext := f.shapeNext, shapeLast := f.shapeLast, out := o }).out =
      o ++ (if f.shapeLast ≠ f.shapeNext then [Tok.pointer f.shapeNext] else []) ∧
    (run cw f.caps closeBlock { cursor := pen, out := o }).out = o ++ (if pen.link ≠ "" then [Tok.osc8 "" ""] else []) ∧
    (run cw f.caps showBlock { cn := f.cursorNext, cl := f.cursorLast, out := o }).out =
      o ++ (if f.cursorNext.visible ∧ ¬ f.cursorLast.visible then showCursorToks f.cursorNext else []) ∧
    (run cw f.caps shapeBlock { shapeNext := f.shapeNext, shapeLast := f.shapeLast, out := o }).unknown = false ∧
    (run cw f.caps closeBlock { cursor := pen, out := o }).unknown = false ∧
    (run cw f.caps showBlock { cn := f.cursorNext, cl := f.cursorLast, out := o }).unknown = false := by
  obtain ⟨p1, p2, p3⟩ := tail_progs
  have l1 : shapeBlock.length = 3 := by decide +kernel
  have l2 : closeBlock.length = 2 := by decide +kernel
  have l3 : showBlock.length = 2 := by decide +kernel
  unfold run
  rw [p1, p2, p3, l1, l2, l3]
  refine ⟨?_, ?_, ?_, ?_, ?_, ?_⟩
  · by_cases h : f.shapeLast = f.shapeNext <;> simp [exec, evalG, evalS, List.dropWhile, List.takeWhile, h]
  · by_cases h : pen.link = "" <;> simp [exec, evalG, evalS, List.dropWhile, List.takeWhile, h]
  · cases h1 : f.cursorNext.visible <;> cases h2 : f.cursorLast.visible <;>
      simp [exec, evalG, evalS, List.dropWhile, List.takeWhile, h1, h2]
  · by_cases h : f.shapeLast = f.shapeNext <;> simp [exec, evalG, evalS, List.dropWhile, List.takeWhile, h]
  · by_cases h : pen.link = "" <;> simp [exec, evalG, evalS, List.dropWhile, List.takeWhile, h]
  · cases h1 : f.cursorNext.visible <;> cases h2 : f.cursorLast.visible <;>
      simp [exec, evalG, evalS, List.dropWhile, List.takeWhile, h1, h2]


/-! ### the two nulling loops -/

open VaxisModel.Lemmas.RenderLoop

def nullBlock1 : List Line := blockAt G 3 "for" "i:=1;i<skip+1;i+=1"
def nullBlock2 : List Line := blockAt G 2 "for" "i:=1;i<skip+1;i+=1"

theorem null_progs :
    prog nullBlock1 = [(3, .for_, .nullLoop), (4, .if_, .colIBeyond), (5, .stmt, .break_), (4, .stmt, .lastINull)] ∧
    prog nullBlock2 = [(2, .for_, .nullLoop), (3, .if_, .colIBeyond), (4, .stmt, .break_), (3, .if_, .endLastIDirty),
      (4, .stmt, .dirtyEnd), (3, .stmt, .lastINull)] := by
  decide +kernel

def body2 : List (Nat × Kind × Atom) :=
  [(3, .if_, .colIBeyond), (4, .stmt, .break_), (3, .if_, .endLastIDirty), (4, .stmt, .dirtyEnd), (3, .stmt, .lastINull)]

theorem loopI_succ (cw : String → Nat) (caps : Caps) (f : Nat) (body : List (Nat × Kind × Atom)) (e : Env) :
    loopI cw caps (f + 1) body e =
      if e.i < e.skipv + 1 then
        (if (exec cw caps f body e).brk then { exec cw caps f body e with brk := false }
         else loopI cw caps f body { exec cw caps f body e with i := (exec cw caps f body e).i + 1 })
      else e := by
  rw [loopI]

def body1 : List (Nat × Kind × Atom) := [(4, .if_, .colIBeyond), (5, .stmt, .break_), (4, .stmt, .lastINull)]

/-- The second nulling loop, from iteration `i` on, with `r` iterations left. -/
theorem loop2_eq (cw : String → Nat) (caps : Caps) (col skip : Nat) :
    ∀ (r : Nat) (e : Env), e.col = col → e.skipv = skip → e.len = e.lastRow.length → e.i + r = skip + 1 → 1 ≤ e.i →
      e.brk = false → e.cont = false → e.ret = none → e.unknown = false →
      let e' := loopI cw caps (r + 6) body2 e
      e'.lastRow = (nullLoop cw true r (col + e.i) e.lastRow e.dirty).1 ∧
      e'.dirty = (nullLoop cw true r (col + e.i) e.lastRow e.dirty).2 ∧
      e'.unknown = false ∧ e'.brk = false ∧ e'.cont = false ∧ e'.ret = none ∧ e'.out = e.out ∧ e'.col = col ∧ e'.skipv = skip := by
  intro r
  induction r with
  | zero =>
    intro e hc hs hlen hi h1 hb hco hr hu e'
    have : ¬ (e.i < e.skipv + 1) := by omega
    simp only [e']
    rw [show (0 : Nat) + 6 = 5 + 1 from rfl, loopI_succ, if_neg this]
    simp [nullLoop, hu, hb, hco, hr, hc, hs]
  | succ r ih =>
    intro e hc hs hlen hi h1 hb hco hr hu e'
    have hlt : e.i < e.skipv + 1 := by omega
    simp only [e']
    rw [show r + 1 + 6 = (r + 6) + 1 from by omega, loopI_succ, if_pos hlt]
    cases hget : e.lastRow[col + e.i]? with
    | none =>
      have hbey : e.len ≤ col + e.i := by
        rw [hlen]
        rcases Nat.lt_or_ge (col + e.i) e.lastRow.length with h | h
        · rw [List.getElem?_eq_getElem h] at hget; cases hget
        · exact h
      simp [body2, exec, evalG, evalS, List.takeWhile, List.dropWhile, hb, hco, hr, hbey, nullLoop, hget, hu, hc, hs]
    | some l =>
      have hin : ¬ (e.len ≤ col + e.i) := by
        rw [hlen]
        rcases Nat.lt_or_ge (col + e.i) e.lastRow.length with h | h
        · omega
        · rw [List.getElem?_eq_none h] at hget; cases hget
      by_cases hd : col + e.i + advance cw l + 1 > e.dirty
      · have hstep : exec cw caps (r + 6) body2 e =
            { e with endv := col + e.i + advance cw l + 1, dirty := col + e.i + advance cw l + 1, lastRow := e.lastRow.set (col + e.i) {} } := by
          simp [body2, exec, evalG, evalS, List.takeWhile, List.dropWhile, hb, hco, hr, hin, hget, hc, hd]
        rw [hstep]
        simp only [hb, Bool.false_eq_true, if_false]
        have := ih { e with endv := col + e.i + advance cw l + 1, dirty := col + e.i + advance cw l + 1,
                            lastRow := e.lastRow.set (col + e.i) {}, i := e.i + 1 } hc hs (by simp [hlen]) (by simp; omega) (by simp)
          hb hco hr hu
        simp only at this
        simp only [nullLoop, hget, hd, and_true, if_true]
        have e1 : col + (e.i + 1) = col + e.i + 1 := by omega
        rw [e1] at this
        simp only [hb] at this
        exact this
      · have hstep : exec cw caps (r + 6) body2 e =
            { e with endv := col + e.i + advance cw l + 1, lastRow := e.lastRow.set (col + e.i) {} } := by
          simp [body2, exec, evalG, evalS, List.takeWhile, List.dropWhile, hb, hco, hr, hin, hget, hc, hd]
        rw [hstep]
        simp only [hb, Bool.false_eq_true, if_false]
        have := ih { e with endv := col + e.i + advance cw l + 1,
                            lastRow := e.lastRow.set (col + e.i) {}, i := e.i + 1 } hc hs (by simp [hlen]) (by simp; omega) (by simp)
          hb hco hr hu
        simp only at this
        simp only [nullLoop, hget, hd, and_false, if_false]
        have e1 : col + (e.i + 1) = col + e.i + 1 := by omega
        rw [e1] at this
        simp only [hb] at this
        exact this

/-- The first nulling loop (in the unchanged branch: no `dirty` extension), from iteration `i` on. -/
theorem loop1_eq (cw : String → Nat) (caps : Caps) (col skip : Nat) :
    ∀ (r : Nat) (e : Env), e.col = col → e.skipv = skip → e.len = e.lastRow.length → e.i + r = skip + 1 → 1 ≤ e.i →
      e.brk = false → e.cont = false → e.ret = none → e.unknown = false →
      let e' := loopI cw caps (r + 6) body1 e
      e'.lastRow = (nullLoop cw false r (col + e.i) e.lastRow e.dirty).1 ∧
      e'.dirty = (nullLoop cw false r (col + e.i) e.lastRow e.dirty).2 ∧
      e'.unknown = false ∧ e'.brk = false ∧ e'.cont = false ∧ e'.ret = none ∧ e'.out = e.out ∧ e'.col = col ∧ e'.skipv = skip := by
  intro r
  induction r with
  | zero =>
    intro e hc hs hlen hi h1 hb hco hr hu e'
    have : ¬ (e.i < e.skipv + 1) := by omega
    simp only [e']
    rw [show (0 : Nat) + 6 = 5 + 1 from rfl, loopI_succ, if_neg this]
    simp [nullLoop, hu, hb, hco, hr, hc, hs]
  | succ r ih =>
    intro e hc hs hlen hi h1 hb hco hr hu e'
    have hlt : e.i < e.skipv + 1 := by omega
    simp only [e']
    rw [show r + 1 + 6 = (r + 6) + 1 from by omega, loopI_succ, if_pos hlt]
    cases hget : e.lastRow[col + e.i]? with
    | none =>
      have hbey : e.len ≤ col + e.i := by
        rw [hlen]
        rcases Nat.lt_or_ge (col + e.i) e.lastRow.length with h | h
        · rw [List.getElem?_eq_getElem h] at hget; cases hget
        · exact h
      simp [body1, exec, evalG, evalS, List.takeWhile, List.dropWhile, hb, hco, hr, hbey, nullLoop, hget, hu, hc, hs]
    | some l =>
      have hin : ¬ (e.len ≤ col + e.i) := by
        rw [hlen]
        rcases Nat.lt_or_ge (col + e.i) e.lastRow.length with h | h
        · omega
        · rw [List.getElem?_eq_none h] at hget; cases hget
      have hstep : exec cw caps (r + 6) body1 e = { e with lastRow := e.lastRow.set (col + e.i) {} } := by
        simp [body1, exec, evalG, evalS, List.takeWhile, List.dropWhile, hb, hco, hr, hin, hc]
      rw [hstep]
      simp only [hb, Bool.false_eq_true, if_false]
      have := ih { e with lastRow := e.lastRow.set (col + e.i) {}, i := e.i + 1 } hc hs (by simp [hlen]) (by simp; omega) (by simp)
        hb hco hr hu
      simp only at this
      simp only [nullLoop, hget, Bool.false_eq_true, false_and, if_false]
      have e1 : col + (e.i + 1) = col + e.i + 1 := by omega
      rw [e1] at this
      simp only [hb] at this
      exact this

/-- **nullLoop_body_eq_model**: the two nulling loops `for i := 1; i < skip+1; i += 1 { … }` executed from the
    extracted text — `break` at the end of the row, in the second loop the `dirty` extension by the glyph each
    cleared cell used to hold, `last[col+i] = Cell{}` — compute `Lemmas/RenderLoop.nullLoop` (the row and
    `dirty`), for every row, column, `skip` and `dirty`. -/
theorem nullLoop_body_eq_model (cw : String → Nat) (caps : Caps) (L : List Cell) (col skip d : Nat) :
    let e1 := runF cw caps (skip + 7) nullBlock1 { col := col, len := L.length, skipv := skip, lastRow := L, dirty := d }
    let e2 := runF cw caps (skip + 7) nullBlock2 { col := col, len := L.length, skipv := skip, lastRow := L, dirty := d }
    (e1.lastRow, e1.dirty) = nullLoop cw false skip (col + 1) L d ∧ e1.unknown = false ∧
    (e2.lastRow, e2.dirty) = nullLoop cw true skip (col + 1) L d ∧ e2.unknown = false := by
  obtain ⟨p1, p2⟩ := null_progs
  intro e1 e2
  simp only [e1, e2]
  unfold runF
  rw [p1, p2]
  have h1 := loop1_eq cw caps col skip skip { col := col, len := L.length, skipv := skip, lastRow := L, dirty := d, i := 1 }
    rfl rfl rfl (by simp; omega) (by simp) rfl rfl rfl rfl
  have h2 := loop2_eq cw caps col skip skip { col := col, len := L.length, skipv := skip, lastRow := L, dirty := d, i := 1 }
    rfl rfl rfl (by simp; omega) (by simp) rfl rfl rfl rfl
  simp only [body1, body2] at h1 h2
  obtain ⟨a1, a2, a3, a4, a5, a6, _⟩ := h1
  obtain ⟨b1, b2, b3, b4, b5, b6, _⟩ := h2
  rw [show skip + 7 = (skip + 6) + 1 from rfl]
  have hx1 : ∀ (e : Env), exec cw caps (skip + 6) [] e = e := fun e => by
    rw [show skip + 6 = (skip + 5) + 1 from rfl]; simp [exec]
  simp [exec, List.takeWhile, List.dropWhile, hx1, a1, a2, a3, a4, a5, a6, b1, b2, b3, b4, b5, b6]

/-! ### the colour and underline blocks, line by line -/

open VaxisModel.Model.Color

def fgBlock : List Line := blockAt G 2 "if" "cursor.Foreground!=next.Foreground"
def bgBlock : List Line := blockAt G 2 "if" "cursor.Background!=next.Background"
def ulBlock : List Line := blockAt G 2 "if" "vx.caps.styledUnderlines"
def ulStyleBlock : List Line := blockAt G 2 "if" "cursor.UnderlineStyle!=next.UnderlineStyle"

theorem colour_progs :
    prog fgBlock = [(2, .if_, .fgDelta), (3, .stmt, .colAssign), (3, .stmt, .psParams), (3, .if_, .notRgb), (4, .stmt, .psAsIndex),
      (3, .switch_, .lenPs), (4, .case_, .ret0), (5, .stmt, .wrFgReset), (4, .case_, .lit1), (5, .switch_, .none_), (6, .case_, .ps0lt8),
      (7, .stmt, .wrFgSet), (6, .case_, .ps0lt16), (7, .stmt, .wrFgBright), (6, .default_, .none_), (7, .stmt, .wrFgIndex),
      (4, .case_, .lit3), (5, .stmt, .wrFgRGB)] ∧
    prog bgBlock = [(2, .if_, .bgDelta), (3, .stmt, .colAssign), (3, .stmt, .psParams), (3, .if_, .notRgb), (4, .stmt, .psAsIndex),
      (3, .switch_, .lenPs), (4, .case_, .ret0), (5, .stmt, .wrBgReset), (4, .case_, .lit1), (5, .switch_, .none_), (6, .case_, .ps0lt8),
      (7, .stmt, .wrBgSet), (6, .case_, .ps0lt16), (7, .stmt, .wrBgBright), (6, .default_, .none_), (7, .stmt, .wrBgIndex),
      (4, .case_, .lit3), (5, .stmt, .wrBgRGB)] ∧
    prog ulBlock = [(2, .if_, .ulDelta), (3, .if_, .ulChanged), (4, .stmt, .colAssign), (4, .stmt, .psParams), (4, .if_, .notRgb),
      (5, .stmt, .psAsIndex), (4, .switch_, .lenPs), (5, .case_, .ret0), (6, .stmt, .wrUlReset), (5, .case_, .lit1), (6, .stmt, .wrUlIndex),
      (5, .case_, .lit3), (6, .stmt, .wrUlRGB)] ∧
    prog ulStyleBlock = [(2, .if_, .ulStyleDelta), (3, .stmt, .ulStyleAssign), (3, .switch_, .ulDelta), (4, .case_, .litTrue),
      (5, .stmt, .wrUlStyleSet), (4, .case_, .litFalse), (5, .switch_, .ulStyleVar), (6, .case_, .litUnderlineOff),
      (7, .stmt, .wrUnderlineReset), (6, .default_, .none_), (7, .stmt, .wrUnderlineSet)] := by
  decide +kernel

/-- **fg_body_eq_model / bg_body_eq_model / ul_body_eq_model / ulStyle_body_eq_model**: the colour and underline
    blocks executed line by line from the extracted text — `ps := c.Params()` (through `asIndex` without RGB), the
    `switch len(ps)` with its inner `switch` on `ps[0]`, the writes by sequence name — write exactly what the
    statement the written-cell path runs in their place (`prune`) writes: the macro atoms are the interpretation of
    their blocks.  (The attribute block: `Props.C01Facts.attrToks_from_source`.) -/
theorem fg_body_eq_model (cw : String → Nat) (caps : Caps) (pen : Style) (n : Cell) (o : List Tok) :
    (run cw caps fgBlock { cursor := pen, next := n, out := o, colSel := 0 }).out = o ++ (if pen.fg ≠ n.style.fg then colorToks caps 30 n.style.fg else []) ∧
    (run cw caps fgBlock { cursor := pen, next := n, out := o, colSel := 0 }).unknown = false := by
  have hl : fgBlock.length = 18 := by decide +kernel
  unfold run
  rw [colour_progs.1, hl]
  by_cases hne : pen.fg = n.style.fg
  · simp [exec, evalG, List.takeWhile, List.dropWhile, hne]
  · unfold colorToks effParams
    cases hrgb : caps.rgb
    · generalize hps : params (asIndex n.style.fg) = ps
      rcases ps with _ | ⟨a, _ | ⟨b, _ | ⟨c, _ | ⟨d, r⟩⟩⟩⟩
      · simp [exec, execArms, evalG, evalS, tagMatch, List.takeWhile, List.dropWhile, hne, hrgb, hps, colorToksP, ulColorToksP]
      · by_cases h8 : a < 8
        · simp [exec, execArms, evalG, evalS, tagMatch, List.takeWhile, List.dropWhile, hne, hrgb, hps, colorToksP, ulColorToksP, h8]
        · by_cases h16 : a < 16
          · simp [exec, execArms, evalG, evalS, tagMatch, List.takeWhile, List.dropWhile, hne, hrgb, hps, colorToksP, ulColorToksP, h8, h16]
          · simp [exec, execArms, evalG, evalS, tagMatch, List.takeWhile, List.dropWhile, hne, hrgb, hps, colorToksP, ulColorToksP, h8, h16]
      · simp [exec, execArms, evalG, evalS, tagMatch, List.takeWhile, List.dropWhile, hne, hrgb, hps, colorToksP, ulColorToksP]
      · simp [exec, execArms, evalG, evalS, tagMatch, List.takeWhile, List.dropWhile, hne, hrgb, hps, colorToksP, ulColorToksP]
      · simp [exec, execArms, evalG, evalS, tagMatch, List.takeWhile, List.dropWhile, hne, hrgb, hps, colorToksP, ulColorToksP]
    · generalize hps : params n.style.fg = ps
      rcases ps with _ | ⟨a, _ | ⟨b, _ | ⟨c, _ | ⟨d, r⟩⟩⟩⟩
      · simp [exec, execArms, evalG, evalS, tagMatch, List.takeWhile, List.dropWhile, hne, hrgb, hps, colorToksP, ulColorToksP]
      · by_cases h8 : a < 8
        · simp [exec, execArms, evalG, evalS, tagMatch, List.takeWhile, List.dropWhile, hne, hrgb, hps, colorToksP, ulColorToksP, h8]
        · by_cases h16 : a < 16
          · simp [exec, execArms, evalG, evalS, tagMatch, List.takeWhile, List.dropWhile, hne, hrgb, hps, colorToksP, ulColorToksP, h8, h16]
          · simp [exec, execArms, evalG, evalS, tagMatch, List.takeWhile, List.dropWhile, hne, hrgb, hps, colorToksP, ulColorToksP, h8, h16]
      · simp [exec, execArms, evalG, evalS, tagMatch, List.takeWhile, List.dropWhile, hne, hrgb, hps, colorToksP, ulColorToksP]
      · simp [exec, execArms, evalG, evalS, tagMatch, List.takeWhile, List.dropWhile, hne, hrgb, hps, colorToksP, ulColorToksP]
      · simp [exec, execArms, evalG, evalS, tagMatch, List.takeWhile, List.dropWhile, hne, hrgb, hps, colorToksP, ulColorToksP]

theorem bg_body_eq_model (cw : String → Nat) (caps : Caps) (pen : Style) (n : Cell) (o : List Tok) :
    (run cw caps bgBlock { cursor := pen, next := n, out := o, colSel := 1 }).out = o ++ (if pen.bg ≠ n.style.bg then colorToks caps 40 n.style.bg else []) ∧
    (run cw caps bgBlock { cursor := pen, next := n, out := o, colSel := 1 }).unknown = false := by
  have hl : bgBlock.length = 18 := by decide +kernel
  unfold run
  rw [colour_progs.2.1, hl]
  by_cases hne : pen.bg = n.style.bg
  · simp [exec, evalG, List.takeWhile, List.dropWhile, hne]
  · unfold colorToks effParams
    cases hrgb : caps.rgb
    · generalize hps : params (asIndex n.style.bg) = ps
      rcases ps with _ | ⟨a, _ | ⟨b, _ | ⟨c, _ | ⟨d, r⟩⟩⟩⟩
      · simp [exec, execArms, evalG, evalS, tagMatch, List.takeWhile, List.dropWhile, hne, hrgb, hps, colorToksP, ulColorToksP]
      · by_cases h8 : a < 8
        · simp [exec, execArms, evalG, evalS, tagMatch, List.takeWhile, List.dropWhile, hne, hrgb, hps, colorToksP, ulColorToksP, h8]
        · by_cases h16 : a < 16
          · simp [exec, execArms, evalG, evalS, tagMatch, List.takeWhile, List.dropWhile, hne, hrgb, hps, colorToksP, ulColorToksP, h8, h16]
          · simp [exec, execArms, evalG, evalS, tagMatch, List.takeWhile, List.dropWhile, hne, hrgb, hps, colorToksP, ulColorToksP, h8, h16]
      · simp [exec, execArms, evalG, evalS, tagMatch, List.takeWhile, List.dropWhile, hne, hrgb, hps, colorToksP, ulColorToksP]
      · simp [exec, execArms, evalG, evalS, tagMatch, List.takeWhile, List.dropWhile, hne, hrgb, hps, colorToksP, ulColorToksP]
      · simp [exec, execArms, evalG, evalS, tagMatch, List.takeWhile, List.dropWhile, hne, hrgb, hps, colorToksP, ulColorToksP]
    · generalize hps : params n.style.bg = ps
      rcases ps with _ | ⟨a, _ | ⟨b, _ | ⟨c, _ | ⟨d, r⟩⟩⟩⟩
      · simp [exec, execArms, evalG, evalS, tagMatch, List.takeWhile, List.dropWhile, hne, hrgb, hps, colorToksP, ulColorToksP]
      · by_cases h8 : a < 8
        · simp [exec, execArms, evalG, evalS, tagMatch, List.takeWhile, List.dropWhile, hne, hrgb, hps, colorToksP, ulColorToksP, h8]
        · by_cases h16 : a < 16
          · simp [exec, execArms, evalG, evalS, tagMatch, List.takeWhile, List.dropWhile, hne, hrgb, hps, colorToksP, ulColorToksP, h8, h16]
          · simp [exec, execArms, evalG, evalS, tagMatch, List.takeWhile, List.dropWhile, hne, hrgb, hps, colorToksP, ulColorToksP, h8, h16]
      · simp [exec, execArms, evalG, evalS, tagMatch, List.takeWhile, List.dropWhile, hne, hrgb, hps, colorToksP, ulColorToksP]
      · simp [exec, execArms, evalG, evalS, tagMatch, List.takeWhile, List.dropWhile, hne, hrgb, hps, colorToksP, ulColorToksP]
      · simp [exec, execArms, evalG, evalS, tagMatch, List.takeWhile, List.dropWhile, hne, hrgb, hps, colorToksP, ulColorToksP]

theorem ul_body_eq_model (cw : String → Nat) (caps : Caps) (pen : Style) (n : Cell) (o : List Tok) :
    (run cw caps ulBlock { cursor := pen, next := n, out := o, colSel := 2 }).out = o ++ (if caps.styledUnderlines ∧ pen.ul ≠ n.style.ul then ulColorToks caps n.style.ul else []) ∧
    (run cw caps ulBlock { cursor := pen, next := n, out := o, colSel := 2 }).unknown = false := by
  have hl : ulBlock.length = 13 := by decide +kernel
  unfold run
  rw [colour_progs.2.2.1, hl]
  cases hsu : caps.styledUnderlines
  · simp [exec, evalG, List.takeWhile, List.dropWhile, hsu]
  · by_cases hne : pen.ul = n.style.ul
    · simp [exec, evalG, List.takeWhile, List.dropWhile, hsu, hne]
    · unfold ulColorToks effParams
      cases hrgb : caps.rgb
      · generalize hps : params (asIndex n.style.ul) = ps
        rcases ps with _ | ⟨a, _ | ⟨b, _ | ⟨c, _ | ⟨d, r⟩⟩⟩⟩ <;>
          simp [exec, execArms, evalG, evalS, tagMatch, List.takeWhile, List.dropWhile, hne, hrgb, hps, colorToksP, ulColorToksP, hsu]
      · generalize hps : params n.style.ul = ps
        rcases ps with _ | ⟨a, _ | ⟨b, _ | ⟨c, _ | ⟨d, r⟩⟩⟩⟩ <;>
          simp [exec, execArms, evalG, evalS, tagMatch, List.takeWhile, List.dropWhile, hne, hrgb, hps, colorToksP, ulColorToksP, hsu]

theorem ulStyle_body_eq_model (cw : String → Nat) (caps : Caps) (pen : Style) (n : Cell) (o : List Tok) :
    (run cw caps ulStyleBlock { cursor := pen, next := n, out := o }).out =
      o ++ (if pen.ulStyle ≠ n.style.ulStyle then
              (if caps.styledUnderlines then [Tok.sgr [[4, n.style.ulStyle]]]
               else if n.style.ulStyle = 0 then [Tok.sgr [[24]]] else [Tok.sgr [[4]]])
            else []) ∧
    (run cw caps ulStyleBlock { cursor := pen, next := n, out := o }).unknown = false := by
  have hl : ulStyleBlock.length = 11 := by decide +kernel
  unfold run
  rw [colour_progs.2.2.2, hl]
  by_cases hne : pen.ulStyle = n.style.ulStyle
  · simp [exec, evalG, List.takeWhile, List.dropWhile, hne]
  · cases hsu : caps.styledUnderlines
    · by_cases h0 : n.style.ulStyle = 0
      · have hne' : ¬ pen.ulStyle = 0 := by rw [h0] at hne; exact hne
        simp [exec, execArms, evalG, evalS, tagMatch, List.takeWhile, List.dropWhile, hne', hsu, h0]
      · simp [exec, execArms, evalG, evalS, tagMatch, List.takeWhile, List.dropWhile, hne, hsu, h0]
    · simp [exec, execArms, evalG, evalS, tagMatch, List.takeWhile, List.dropWhile, hne, hsu]

/-- The statements `prune` puts in place of the four blocks are these blocks, executed. -/
theorem macro_atoms_are_blocks (cw : String → Nat) (caps : Caps) (pen : Style) (n : Cell) (o : List Tok) :
    (evalS cw caps .fgDelta { cursor := pen, next := n, out := o }).out = (run cw caps fgBlock { cursor := pen, next := n, out := o, colSel := 0 }).out ∧
    (evalS cw caps .bgDelta { cursor := pen, next := n, out := o }).out = (run cw caps bgBlock { cursor := pen, next := n, out := o, colSel := 1 }).out ∧
    (evalS cw caps .ulDelta { cursor := pen, next := n, out := o }).out = (run cw caps ulBlock { cursor := pen, next := n, out := o, colSel := 2 }).out ∧
    (evalS cw caps .ulStyleDelta { cursor := pen, next := n, out := o }).out = (run cw caps ulStyleBlock { cursor := pen, next := n, out := o }).out := by
  rw [(fg_body_eq_model cw caps pen n o).1, (bg_body_eq_model cw caps pen n o).1, (ul_body_eq_model cw caps pen n o).1,
    (ulStyle_body_eq_model cw caps pen n o).1]
  simp [evalS]


/-! ### the order of the blocks -/

/-- The body of `for col := 0; col < len(row); col += 1 { … }`. -/
def loopBody : List Line := (blockAt G 1 "for" "col:=0;col<len(vx.screenNext.buf[row]);col+=1").drop 1

/-- **cell_loop_order**: the top-level statements of the cell loop's body, as the interpreter reads them on
    this run, are — in this order — the blocks `iterI` glues: load `next`; image cell?; clip; unchanged?;
    `dirty` extension; copy into `last`; reposition; the five colour / attribute / underline blocks; hyperlink;
    `cursor = next.Style`; width resolution; the write `switch`; `skip := advance(next)`; nulling loop;
    `col += skip`.  And the row loop is `for row := range … { reposition = true; dirty := 0; for col … }`
    (`rowsI`).  (The order is what `iterI` / `rowsI` hand-code; this theorem ties it to the source.) -/
theorem cell_loop_order :
    ((prune (prog loopBody)).filter (fun l => l.1 == 2)).map (fun l => (l.2.1, l.2.2)) =
      [(Kind.stmt, Atom.loadNext), (Kind.if_, Atom.nextSixel), (Kind.if_, Atom.nextTooWide), (Kind.if_, Atom.unchanged),
       (Kind.if_, Atom.endLastDirty), (Kind.stmt, Atom.lastNext), (Kind.if_, Atom.reposition), (Kind.stmt, Atom.fgDelta),
       (Kind.stmt, Atom.bgDelta), (Kind.stmt, Atom.ulDelta), (Kind.stmt, Atom.attrDelta), (Kind.stmt, Atom.ulStyleDelta),
       (Kind.if_, Atom.linkChanged), (Kind.stmt, Atom.cursorNextStyle), (Kind.if_, Atom.nextWidth0), (Kind.switch_, Atom.none_),
       (Kind.stmt, Atom.skipAdvance), (Kind.stmt, Atom.nullLoop), (Kind.stmt, Atom.colSkip)] := by
  decide +kernel

theorem row_loop_order :
    (prog (blockAt G 0 "range" "row:=range vx.screenNext.buf")).filter (fun l => l.1 ≤ 1) =
      [(0, Kind.for_, Atom.rowRange), (1, Kind.stmt, Atom.repTrue), (1, Kind.stmt, Atom.dirtyZero), (1, Kind.for_, Atom.colLoop)] := by
  decide +kernel

/-! ### the whole row loop -/

/-- After the write `switch`: `skip := vx.advance(next)`, the second nulling loop, `col += skip`. -/
def tailBlock : List Line :=
  (G.dropWhile (fun l => !(l.1 == 2 && l.2.1 == "assign" && l.2.2 == "skip:=vx.advance(next)"))).takeWhile (fun l => decide (2 ≤ l.1))

theorem tail_prog : prune (prog tailBlock) = [(2, .stmt, .skipAdvance), (2, .stmt, .nullLoop), (2, .stmt, .colSkip)] := by
  decide +kernel

/-- Every block the theorems above run is cut out of the loop body: concatenated they ARE the body (after `next := …`). -/
theorem blocks_are_the_loop_body :
    sixelBlock ++ clipBlock ++ unchangedBlock ++ writtenPath ++ tailBlock = loopBody.drop 1 := by
  decide +kernel

theorem tail_body_eq_model (cw : String → Nat) (caps : Caps) (m : Cell) (col : Nat) :
    let e := runP cw caps tailBlock { next := m, col := col }
    e.unknown = false ∧ e.skipv = advance cw m ∧ e.nulled = advance cw m ∧ e.col = col + advance cw m := by
  have hl : tailBlock.length = 8 := by decide +kernel
  intro e
  simp only [e]
  unfold runP
  rw [tail_prog, hl]
  simp [exec, evalS, List.dropWhile, List.takeWhile]

open VaxisModel.Lemmas.RenderLoop in
/-- One iteration of `for col := 0; col < len(row); col += 1 { … }`: the blocks of the loop body run from the
    extracted text, glued in source order — image cell?  `continue`; clip; unchanged?  nulling loop,
    `col += skip`, `continue`; else the written-cell path, `skip := advance(next)`, nulling loop with `dirty`
    extension, `col += skip` — then the loop's `col += 1`.  Result: next column, `dirty`, loop state, `last` row. -/
def iterI (cw : String → Nat) (caps : Caps) (refresh : Bool) (row : Nat) (ns : List Cell)
    (col dirty : Nat) (st : RSt) (L : List Cell) : Option (Nat × Nat × RSt × List Cell) :=
  match ns[col]?, L[col]? with
  | some n0, some l =>
    let es := run cw caps sixelBlock { next := n0, last := l, col := col, dirty := dirty, reposition := st.reposition, out := st.out }
    if es.cont then some (col + 1, es.dirty, { st with reposition := es.reposition }, L.set col (es.lastSet.getD l))
    else
      let m := (run cw caps clipBlock { next := n0, col := col, len := col + (ns.length - col) }).next
      let eu := runP cw caps unchangedBlock
        ({ next := m, last := l, col := col, dirty := dirty, refresh := refresh, reposition := st.reposition, out := st.out } : Env)
      if eu.cont then
        let r := nullLoop cw false eu.nulled (col + 1) L eu.dirty
        some (eu.col + 1, r.2, { st with reposition := eu.reposition }, r.1)
      else
        let ew := runP cw caps writtenPath (writtenEnv st m l row col dirty)
        let et := runP cw caps tailBlock { next := m, col := col }
        let r := nullLoop cw true et.nulled (col + 1) (L.set col (ew.lastSet.getD m)) ew.dirty
        some (et.col + 1, r.2, { reposition := ew.reposition, pen := ew.cursor, out := ew.out }, r.1)
  | _, _ => none

/-- The row loop over the interpreted iteration (fuel: one unit per iteration). -/
def rowLoopI (cw : String → Nat) (caps : Caps) (refresh : Bool) (row : Nat) (ns : List Cell) :
    Nat → Nat → Nat → RSt → List Cell → List Cell × RSt
  | 0, _, _, st, L => (L, st)
  | f + 1, col, dirty, st, L =>
    match iterI cw caps refresh row ns col dirty st L with
    | some (col', dirty', st', L') => rowLoopI cw caps refresh row ns f col' dirty' st' L'
    | none => (L, st)

open VaxisModel.Lemmas.RenderLoop in
theorem rowLoopI_eq_goRow (cw : String → Nat) (caps : Caps) (refresh : Bool) (row : Nat) (ns : List Cell) :
    ∀ (f col dirty : Nat) (st : RSt) (L : List Cell),
      rowLoopI cw caps refresh row ns f col dirty st L = goRow cw caps refresh row ns f col dirty st L := by
  intro f
  induction f with
  | zero => intro col dirty st L; rfl
  | succ f ih =>
    intro col dirty st L
    simp only [rowLoopI, goRow, iterI]
    cases hn : ns[col]? with
    | none => rfl
    | some n0 =>
      cases hl : L[col]? with
      | none => rfl
      | some l =>
        simp only
        obtain ⟨_, _, hs1, hs2⟩ := sixel_body_eq_model cw caps n0 l col dirty st.reposition st.out
        by_cases hsx : n0.sixel = true
        · obtain ⟨c1, c2, c3, c4⟩ := hs1 hsx
          simp only [c1, c2, c3, c4, if_true, hsx, Option.getD_some, ih]
        · have hsx' : n0.sixel = false := by simpa using hsx
          obtain ⟨c1, _, _, _⟩ := hs2 hsx'
          simp only [c1, Bool.false_eq_true, if_false, hsx']
          have hm := (clip_body_eq_model cw caps n0 col (ns.length - col)).1
          rw [hm]
          generalize clipCell cw (ns.length - col) n0 = m
          obtain ⟨_, _, hud, hu1, hu2⟩ := unchanged_body_eq_model cw caps m l col dirty refresh st.reposition st.out
          by_cases hc : m = l ∧ ¬ refresh ∧ col ≥ dirty
          · obtain ⟨d1, d2, _, d4, d5⟩ := hu1 hc
            simp only [d1, d2, d4, d5, hud, if_true, if_pos hc, ih]
          · obtain ⟨d1, _, _⟩ := hu2 hc
            obtain ⟨_, w2, w3, w4⟩ := written_cell_body_eq_model cw caps st m l row col dirty
            obtain ⟨_, _, t3, t4⟩ := tail_body_eq_model cw caps m col
            have w4' := RSt.mk.inj w4
            simp only [d1, Bool.false_eq_true, if_false, if_neg hc, w2, w3, t3, t4, Option.getD_some, w4'.1, w4'.2.1, w4'.2.2, ih]

open VaxisModel.Lemmas.RenderLoop in
/-- **render_row_body_eq_model**: the cell loop of `render()` for one row — every statement of the loop body
    executed from the text extracted on this run (`iterI`), iterated with the loop's own `col += 1` — computes
    the `last` row and the loop state (tokens, tracked pen, `reposition`) of the model's `renderCellsS`, for all
    rows, previous rows, loop states, width oracles and capability sets.  (Hand-written in `iterI` / `nullLoop`:
    the order in which the blocks follow each other, and what the two nulling loops do; both are pinned by
    `facts_render`.) -/
theorem render_row_body_eq_model (cw : String → Nat) (caps : Caps) (refresh : Bool) (row : Nat) (ns ls : List Cell) (st : RSt)
    (hl : ns.length = ls.length) :
    rowLoopI cw caps refresh row ns (ns.length + 1) 0 0 st ls = renderCellsS cw caps refresh row 0 0 false 0 ns ls st := by
  rw [rowLoopI_eq_goRow, goRow_eq cw caps refresh row ns ls st hl]


/-! ### `render()` as a whole (without the graphics placement loops, which are C20's) -/

/-- `for row := range vx.screenNext.buf { reposition = true; dirty := 0; for col … }` over the interpreted cell loop. -/
def rowsI (cw : String → Nat) (caps : Caps) (refresh : Bool) : Nat → Grid → Grid → RSt → Grid × RSt
  | _, [], _, st => ([], st)
  | _, _ :: _, [], st => ([], st)
  | row, n :: ns, l :: ls, st =>
      let r := rowLoopI cw caps refresh row n (n.length + 1) 0 0 { st with reposition := true } l
      let rest := rowsI cw caps refresh (row + 1) ns ls r.2
      (r.1 :: rest.1, rest.2)

/-- Rows of the two buffers have pairwise the same length (what `resize` establishes). -/
def SameShape : Grid → Grid → Prop
  | n :: ns, l :: ls => n.length = l.length ∧ SameShape ns ls
  | _, _ => True

theorem rowsI_eq (cw : String → Nat) (caps : Caps) (refresh : Bool) :
    ∀ (ns ls : Grid) (row : Nat) (st : RSt), SameShape ns ls →
      rowsI cw caps refresh row ns ls st = renderRowsS cw caps refresh row ns ls st := by
  intro ns
  induction ns with
  | nil => intro ls row st _; simp [rowsI, renderRowsS]
  | cons n ns ih =>
    intro ls row st h
    cases ls with
    | nil => simp [rowsI, renderRowsS]
    | cons l ls =>
      simp only [rowsI, renderRowsS]
      rw [render_row_body_eq_model cw caps refresh row n l _ h.1, ih ls (row + 1) _ h.2]

/-- The body of `render()`: pointer-shape block, row loop, trailing close, cursor show — each piece run
    from the extracted text. -/
def renderBodyI (cw : String → Nat) (f : Frame) : Grid × List Tok :=
  let e0 := run cw f.caps shapeBlock { shapeNext := f.shapeNext, shapeLast := f.shapeLast, out := [] }
  let r := rowsI cw f.caps f.refresh 0 f.next f.last { out := e0.out }
  let e1 := run cw f.caps closeBlock { cursor := r.2.pen, out := r.2.out }
  let e2 := run cw f.caps showBlock { cn := f.cursorNext, cl := f.cursorLast, out := e1.out }
  (r.1, e2.out)

/-- **render_body_eq_model**: `render()` — pointer shape, the row loop with the whole cell loop, the trailing
    hyperlink close and the cursor show, every statement executed from the text extracted on this run
    (block order and the two nulling loops pinned) — computes the `last` buffer and the tokens of the
    model's `renderBodyS`, for all frames. -/
theorem render_body_eq_model (cw : String → Nat) (f : Frame) (h : SameShape f.next f.last) :
    renderBodyI cw f = renderBodyS cw f := by
  unfold renderBodyI renderBodyS
  obtain ⟨a1, _, _, _, _, _⟩ := render_frame_body_eq_model cw f {} []
  simp only [a1, List.nil_append, rowsI_eq cw f.caps f.refresh f.next f.last 0 _ h]
  generalize renderRowsS cw f.caps f.refresh 0 f.next f.last
    { out := if f.shapeLast ≠ f.shapeNext then [Tok.pointer f.shapeNext] else [] } = rr
  obtain ⟨last', st⟩ := rr
  obtain ⟨_, a2, _, _, _, _⟩ := render_frame_body_eq_model cw f st.pen st.out
  simp only [a2]
  obtain ⟨_, _, a3, _, _, _⟩ := render_frame_body_eq_model cw f st.pen
    (st.out ++ if st.pen.link ≠ "" then [Tok.osc8 "" ""] else [])
  simp only [a3]

/-- **flush_body_eq_model**: the writer (`Write` / `WriteString` / `Flush`) as the interpretation of the
    guarded writes extracted from writer.go (`Props.C01Facts.flush_from_source`, round 3) — restated here so
    that the pair `render_body_eq_model` / `flush_body_eq_model` stands together: one `Render()` without a
    pending resize is `flushOf … (renderBodyI …)`. -/
theorem render_frame_eq_interp (cw : String → Nat) (f : Frame) (h : SameShape f.next f.last) :
    renderFrameS cw f = ((renderBodyI cw f).1, flush f.caps f.cursorNext f.cursorLast (renderBodyI cw f).2) := by
  rw [render_body_eq_model cw f h]
  rfl


/-- **flush_body_eq_model** (= `Props.C01Facts.flush_from_source`): the writer model is the interpretation
    of the guarded writes extracted from writer.go on this run. -/
theorem flush_body_eq_model (caps : Caps) (cn cl : CursorState) (body : List Tok) :
    flush caps cn cl body =
      VaxisModel.Lemmas.RenderFacts.flushOf VaxisModel.Gen.RenderFacts.wsPrologue VaxisModel.Gen.RenderFacts.flushCursorOnly
        VaxisModel.Gen.RenderFacts.flushEpilogue caps cn cl body :=
  VaxisModel.Props.C01Facts.flush_from_source caps cn cl body


end VaxisModel.Props.C01Body
