/-
C01 — the cell-content clause for the renderer after the F02 repair (/repo 990e1a4): the
"glyphs fit their row" hypothesis of `C01Display.frame_displays_partial` is gone.

`renderFrameC` (`Model/RenderClip.lean`) is the transcription of the repaired `render()`; it equals
the old `renderFrame` on the clipped grid (`render_clip_is_render`), the clipped grid always fits,
and it means `Spec.Expected.expectedC` (the application's screen with a glyph that does not fit in
the rest of its row shown as a blank in its style; `= expected` when everything fits).
-/
import VaxisModel.Props.C01Display
import VaxisModel.Lemmas.RenderClip

namespace VaxisModel.Props.C01Clip
open VaxisModel.Model.Render VaxisModel.Spec VaxisModel.Spec.Display
open VaxisModel.Props.C01 VaxisModel.Props.C01Display VaxisModel.Lemmas.RenderDisplay VaxisModel.Lemmas.RenderClip

/-- The repaired renderer is the old renderer run on the clipped grid. -/
theorem render_clip_is_render (cw : String → Nat) (f : Frame) :
    renderFrameC cw f = renderFrame cw { f with next := clipGrid cw f.next } := renderFrameC_eq cw f

/-- Nothing changes for a screen whose glyphs all fit: the spec is `expected`. -/
theorem expectedC_fits (cw : String → Nat) (caps : Caps) (g : Grid) (h : Fits cw g) :
    Expected.expectedC cw caps g = Expected.expected cw caps g := expectedC_of_fits cw caps g h

/-- **After every frame the terminal shows exactly the application's screen** (a glyph that cannot
    be shown because it is wider than the rest of its row shows as a blank in its style), nothing
    terminal-specific was relied on, and the new `last` buffer again describes the terminal.
    No hypothesis about glyphs fitting. -/
theorem frame_displays (cw : String → Nat) (f : Frame) (t : Term)
    (hrest : Rest t) (hbad : t.bad = none)
    (hlen : t.grid.length = f.next.length) (hlast : f.last.length = f.next.length)
    (hgc : ∀ r ∈ t.grid, r.length = t.cols) (hnc : ∀ r ∈ f.next, r.length = t.cols)
    (hlc : ∀ r ∈ f.last, r.length = t.cols) (hrows : t.rows = f.next.length)
    (hcells : ∀ r ∈ f.next, ∀ c ∈ r, c.sixel = false ∧ 0 ≤ c.w ∧ WidthOk cw f.caps c)
    (hagree : f.refresh = false → Agree cw f.caps t f.last)
    (hsp : cw "20" = 1)
    (hwf : f.refresh = true → ∀ r ∈ t.grid, WFRow 0 r)
    (hcur : f.cursorNext.visible = true →
      (0 ≤ f.cursorNext.row ∧ f.cursorNext.row < t.rows) ∧ (0 ≤ f.cursorNext.col ∧ f.cursorNext.col < t.cols))
    (hlp : t.linkParams = "") :
    (run cw t (renderFrameC cw f).2).bad = none ∧
    (run cw t (renderFrameC cw f).2).grid = Expected.expectedC cw f.caps f.next ∧
    Agree cw f.caps (run cw t (renderFrameC cw f).2) (renderFrameC cw f).1 := by
  rw [renderFrameC_eq, expectedC_eq]
  have hd := clipGrid_dims cw f.next t.cols hnc
  have hc := clipGrid_cells cw f.caps hsp f.next hcells
  exact frame_displays_partial cw { f with next := clipGrid cw f.next } t hrest hbad
    (by rw [hlen]; exact hd.1.symm) (by rw [hlast]; exact hd.1.symm) hgc hd.2 hlc (by rw [hrows]; exact hd.1.symm)
    (clipGrid_fits cw f.next) (fun r hr c hc' => ⟨(hc r hr c hc').1, (hc r hr c hc').2.1⟩) hagree hsp
    (fun r hr c hc' => (hc r hr c hc').2.2) hwf hcur hlp

/-! ### Histories -/

/-- Side conditions on the application's frame for a `rows × cols` screen — `FrameInOk` without
    the fit condition. -/
def FrameInOkC (cw : String → Nat) (caps : Caps) (rows cols : Nat) (fi : FrameIn) : Prop :=
  fi.next.length = rows ∧ (∀ r ∈ fi.next, r.length = cols) ∧
  (∀ r ∈ fi.next, ∀ c ∈ r, c.sixel = false ∧ 0 ≤ c.w ∧ WidthOk cw caps c) ∧
  (fi.cursor.visible = true →
    (0 ≤ fi.cursor.row ∧ fi.cursor.row < rows) ∧ (0 ≤ fi.cursor.col ∧ fi.cursor.col < cols))

def clipIn (cw : String → Nat) (fi : FrameIn) : FrameIn := { fi with next := clipGrid cw fi.next }

/-- One `Render()` of the repaired renderer. -/
def stepHC (cw : String → Nat) (caps : Caps) (s : HState) (fi : FrameIn) : HState :=
  { t := run cw s.t (renderFrameC cw (mkFrame caps s fi)).2, last := (renderFrameC cw (mkFrame caps s fi)).1,
    cursor := fi.cursor, shape := fi.shape }

theorem stepHC_eq (cw : String → Nat) (caps : Caps) (s : HState) (fi : FrameIn) :
    stepHC cw caps s fi = stepH cw caps s (clipIn cw fi) := by
  simp only [stepHC, stepH, renderFrameC_eq]; rfl

theorem clipIn_ok (cw : String → Nat) (caps : Caps) (hsp : cw "20" = 1) (rows cols : Nat) (fi : FrameIn)
    (h : FrameInOkC cw caps rows cols fi) : FrameInOk cw caps rows cols (clipIn cw fi) := by
  obtain ⟨h1, h2, h3, h4⟩ := h
  have hd := clipGrid_dims cw fi.next cols h2
  exact ⟨hd.1.trans h1, hd.2, clipGrid_fits cw fi.next, clipGrid_cells cw caps hsp fi.next h3, h4⟩

/-- **One frame re-establishes everything the next frame needs**, and the terminal shows the
    application's screen. -/
theorem frame_step_clip (cw : String → Nat) (caps : Caps) (hsp : cw "20" = 1) (rows cols : Nat) (s : HState)
    (fi : FrameIn) (hr : Ready s.t s.last rows cols) (hag : fi.refresh = false → Agree cw caps s.t s.last)
    (hok : FrameInOkC cw caps rows cols fi) :
    Ready (stepHC cw caps s fi).t (stepHC cw caps s fi).last rows cols ∧
    Agree cw caps (stepHC cw caps s fi).t (stepHC cw caps s fi).last ∧
    (stepHC cw caps s fi).t.grid = Expected.expectedC cw caps fi.next ∧ (stepHC cw caps s fi).t.bad = none := by
  rw [stepHC_eq, expectedC_eq]
  exact frame_step cw caps hsp rows cols s (clipIn cw fi) hr hag (clipIn_ok cw caps hsp rows cols fi hok)

/-- **C01, cell-content clause, over whole histories, repaired renderer**: from the blank terminal,
    after *every* frame of *any* sequence of frames (diff frames and refreshes in any order) the
    reference terminal shows exactly the application's screen and nothing terminal-specific was
    relied on — whether or not the glyphs fit their rows. -/
theorem history_displays_clip (cw : String → Nat) (caps : Caps) (hsp : cw "20" = 1) (rows cols : Nat)
    (fi0 : FrameIn) (fis : List FrameIn) (h0 : fi0.refresh = true)
    (hok : ∀ fi ∈ fi0 :: fis, FrameInOkC cw caps rows cols fi) (fi : FrameIn)
    (hlast : (fi0 :: fis).getLast? = some fi) :
    ((fi0 :: fis).foldl (stepHC cw caps) ⟨Term.init cols rows, blankGrid cols rows, {}, ""⟩).t.grid
      = Expected.expectedC cw caps fi.next ∧
    ((fi0 :: fis).foldl (stepHC cw caps) ⟨Term.init cols rows, blankGrid cols rows, {}, ""⟩).t.bad = none := by
  have hfold : ∀ (l : List FrameIn) (s : HState), l.foldl (stepHC cw caps) s = (l.map (clipIn cw)).foldl (stepH cw caps) s := by
    intro l
    induction l with
    | nil => intro s; rfl
    | cons a l ih => intro s; simp only [List.foldl_cons, List.map_cons, stepHC_eq, ih]
  rw [hfold, expectedC_eq]
  have := history_displays cw caps hsp rows cols (clipIn cw fi0) (fis.map (clipIn cw)) h0
    (by
      intro x hx
      simp only [← List.map_cons, List.mem_map] at hx
      obtain ⟨y, hy, rfl⟩ := hx
      exact clipIn_ok cw caps hsp rows cols y (hok y hy))
    (clipIn cw fi)
    (by rw [← List.map_cons, List.getLast?_map, hlast]; rfl)
  simpa [List.map_cons, clipIn] using this

/-! Non-vacuity, and the F02 input itself: a wide glyph in the last column of a 1×2 screen. -/

def cwEx : String → Nat := fun g => if g = "e4b896" then 2 else 1
def f02Frame : Frame :=
  { caps := {}, refresh := true,
    next := [[({ g := "61" } : Cell), { g := "e4b896", style := { fg := 16777217 } }]],
    last := [[({} : Cell), {}]], cursorNext := {}, cursorLast := {} }

/-- The repaired renderer shows a blank in the glyph's style, deterministically … -/
example : (run cwEx (Term.init 2 1) (renderFrameC cwEx f02Frame).2).bad = none ∧
    (run cwEx (Term.init 2 1) (renderFrameC cwEx f02Frame).2).grid
      = [[.glyph "61" 1 {} "" "", .glyph "20" 1 { fg := .idx 1 } "" ""]] := by decide
/-- … and that is what `expectedC` says. -/
example : Expected.expectedC cwEx {} f02Frame.next = [[.glyph "61" 1 {} "" "", .glyph "20" 1 { fg := .idx 1 } "" ""]] := by
  decide

end VaxisModel.Props.C01Clip
