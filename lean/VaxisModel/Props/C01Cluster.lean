/-
C01 on a terminal that clusters graphemes (mode 2027, which Vaxis enables when it is available;
finding F112d, seen by C12 on the embedded emulator).

`render()` writes the graphemes of consecutive written cells back to back (no CUP while
`reposition` is false, no SGR when the style is the same).  A terminal that segments incoming
printable bytes into grapheme clusters sees ONE cluster where the application set two cells whose
graphemes join (regional indicator D | regional indicator E, Hangul L | V, emoji | ZWJ emoji …).
`Spec.Display.run` — the terminal of all other C01 theorems — takes one text token as one grapheme,
i.e. it silently assumes that no such pair occurs.  Here the assumption is explicit:

* `Spec.Display.runC joins` is the clustering terminal (`joins a b` = "`a` directly followed by `b`
  is one cluster": a parameter, uniseg is not modelled);
* `clustering_terminal_agrees` — on a token list without a joining adjacent pair of raw text
  writes (`adjOk`) it behaves exactly like `run`;
* `render_no_adjacent_join` — the frame `render(); Flush()` writes has no such pair when in no row
  of the screen a grapheme joins a later one of the same row (`NoJoinRows`; graphemes as they are
  written: blank for a zero-width or non-fitting cell, none for an OSC 66 write): text writes of
  different rows are separated by a CUP, and within a row they are written in column order;
* `frame_displays_clustering` — hence the display clause holds on the clustering terminal;
* `NoJoinNeighbours` / `render_no_adjacent_join_tight` / `frame_displays_clustering_tight` — the tight
  form: only horizontally consecutive *shown* cells must not join (`neighbours_of_rows`: it follows from
  `NoJoinRows`);
* `no_join_needed` — and without the hypothesis it fails (decide): D|E on a 4×1 screen.

Repair evaluated, not made: `render()` could force `reposition` before a cell whose grapheme joins
the previously written one.  (a) It needs `uniseg` on the concatenation of every pair of consecutive
written cells in the hot loop; (b) a CUP only separates the two for terminals that cluster in the
parser (the embedded emulator); terminals that cluster against the cell left of the cursor
(ghostty, kitty) join them all the same.  So the condition stays with the application: do not put
the halves of one cluster into neighbouring cells.  `Characters` segments a whole string, so
`Print`/`Println`/`PrintTruncate` never do; `Wrap` can: it segments each *line segment*, and with the
line-break state carried across Segments uniseg v0.4.4 returns the two regional indicators of a flag
that begins a Segment as separate line segments (finding F111c, found by the op-level stream).
-/
import VaxisModel.Props.C01Sixel
import VaxisModel.Lemmas.RenderCluster

namespace VaxisModel.Props.C01Cluster
open VaxisModel.Model.Render VaxisModel.Spec VaxisModel.Spec.Display
open VaxisModel.Props.C01 VaxisModel.Props.C01Display VaxisModel.Lemmas.RenderDisplay
open VaxisModel.Lemmas.RenderCluster

/-- In no row does a grapheme, as written, join a later one of the same row. -/
def NoJoinRows (joins : String → String → Bool) (cw : String → Nat) (caps : Caps) (g : Grid) : Prop :=
  ∀ r ∈ g, (texts (shownRow cw caps r)).Pairwise (fun a b => joins a b = false)

/-- The clustering terminal is the plain one when no raw text write directly follows one it joins. -/
theorem clustering_terminal_agrees (joins : String → String → Bool) (tw : String → Nat) (t : Term) (toks : List Tok)
    (h : adjOk joins none toks = true) : runC joins tw t toks = run tw t toks :=
  runC_eq_run joins tw t toks h

/-- What `render(); Flush()` writes contains no joining adjacent pair, for every frame (diff or
    refresh, image cells or not, any previous frame), given `NoJoinRows` of the screen. -/
theorem render_no_adjacent_join (joins : String → String → Bool) (cw : String → Nat) (f : Frame)
    (h : NoJoinRows joins cw f.caps f.next) : adjOk joins none (renderFrameS cw f).2 = true :=
  renderFrameS_adjOk joins cw f h

/-- **The display clause on a clustering terminal**, hypothesis explicit. -/
theorem frame_displays_clustering (joins : String → String → Bool) (cw : String → Nat) (f : Frame) (t : Term)
    (hjoin : NoJoinRows joins cw f.caps f.next)
    (hrest : Rest t) (hbad : t.bad = none)
    (hlen : t.grid.length = f.next.length) (hlast : f.last.length = f.next.length)
    (hgc : ∀ r ∈ t.grid, r.length = t.cols) (hnc : ∀ r ∈ f.next, r.length = t.cols)
    (hlc : ∀ r ∈ f.last, r.length = t.cols) (hrows : t.rows = f.next.length)
    (hcells : ∀ r ∈ f.next, ∀ c ∈ r, c.sixel = false ∧ 0 ≤ c.w ∧ WidthOk cw f.caps c)
    (hagree : f.refresh = false → Agree cw f.caps t f.last)
    (hsp : cw "20" = 1)
    (hwf : f.refresh = true → ∀ r ∈ t.grid, WFRow 0 r)
    (hcur : f.cursorNext.visible = true →
      (0 ≤ f.cursorNext.row ∧ f.cursorNext.row < t.rows) ∧ (0 ≤ f.cursorNext.col ∧ f.cursorNext.col < t.cols))
    (hlp : t.linkParams = "") :
    (runC joins cw t (renderFrameS cw f).2).bad = none ∧
    (runC joins cw t (renderFrameS cw f).2).grid = Expected.expectedC cw f.caps f.next ∧
    Agree cw f.caps (runC joins cw t (renderFrameS cw f).2) (renderFrameS cw f).1 := by
  rw [clustering_terminal_agrees joins cw t _ (render_no_adjacent_join joins cw f hjoin)]
  exact VaxisModel.Props.C01Sixel.frame_displays_current cw f t hrest hbad hlen hlast hgc hnc hlc hrows hcells hagree hsp hwf hcur hlp

/-! ### The tight form of the hypothesis -/

/-- No two horizontally consecutive *shown* cells of a row join: `headToks` lists, per row, the glyph
    tokens of the cells the terminal shows (a cell covered by a wide glyph to its left is not one; an
    image cell is a separator), and `adjOk` says no raw text write in that list directly follows one
    it joins.  This is exactly the situation the finding is about. -/
def NoJoinNeighbours (joins : String → String → Bool) (cw : String → Nat) (caps : Caps) (g : Grid) : Prop :=
  ∀ r ∈ g, adjOk joins none (headToks cw caps 0 r) = true

/-- It is weaker than `NoJoinRows`. -/
theorem neighbours_of_rows (joins : String → String → Bool) (cw : String → Nat) (caps : Caps) (g : Grid)
    (h : NoJoinRows joins cw caps g) : NoJoinNeighbours joins cw caps g :=
  fun r hr => tight_of_pairwise joins cw caps r (h r hr)

/-- Every frame is free of joining adjacent text writes under the tight hypothesis: two raw text
    writes are adjacent on the wire only if they are the glyphs of consecutive shown cells of one row
    (a skipped cell in between forces a CUP; rows begin with a CUP). -/
theorem render_no_adjacent_join_tight (joins : String → String → Bool) (cw : String → Nat) (f : Frame)
    (h : NoJoinNeighbours joins cw f.caps f.next) : adjOk joins none (renderFrameS cw f).2 = true :=
  renderFrameS_adjOk_tight joins cw f h

/-- **The display clause on a clustering terminal, tight hypothesis.** -/
theorem frame_displays_clustering_tight (joins : String → String → Bool) (cw : String → Nat) (f : Frame) (t : Term)
    (hjoin : NoJoinNeighbours joins cw f.caps f.next)
    (hrest : Rest t) (hbad : t.bad = none)
    (hlen : t.grid.length = f.next.length) (hlast : f.last.length = f.next.length)
    (hgc : ∀ r ∈ t.grid, r.length = t.cols) (hnc : ∀ r ∈ f.next, r.length = t.cols)
    (hlc : ∀ r ∈ f.last, r.length = t.cols) (hrows : t.rows = f.next.length)
    (hcells : ∀ r ∈ f.next, ∀ c ∈ r, c.sixel = false ∧ 0 ≤ c.w ∧ WidthOk cw f.caps c)
    (hagree : f.refresh = false → Agree cw f.caps t f.last)
    (hsp : cw "20" = 1)
    (hwf : f.refresh = true → ∀ r ∈ t.grid, WFRow 0 r)
    (hcur : f.cursorNext.visible = true →
      (0 ≤ f.cursorNext.row ∧ f.cursorNext.row < t.rows) ∧ (0 ≤ f.cursorNext.col ∧ f.cursorNext.col < t.cols))
    (hlp : t.linkParams = "") :
    (runC joins cw t (renderFrameS cw f).2).bad = none ∧
    (runC joins cw t (renderFrameS cw f).2).grid = Expected.expectedC cw f.caps f.next ∧
    Agree cw f.caps (runC joins cw t (renderFrameS cw f).2) (renderFrameS cw f).1 := by
  rw [clustering_terminal_agrees joins cw t _ (render_no_adjacent_join_tight joins cw f hjoin)]
  exact VaxisModel.Props.C01Sixel.frame_displays_current cw f t hrest hbad hlen hlast hgc hnc hlc hrows hcells hagree hsp hwf hcur hlp

/-! ### The hypothesis is needed (F112d) -/

def cwEx : String → Nat := fun g => if g = "" then 0 else if g = "D" ∨ g = "E" then 2 else 1
def joinsEx : String → String → Bool := fun a b => a == "D" && b == "E"
/-- 4×1: D (width 2) at column 0, E (width 2) at column 2; first frame (refresh). -/
def frameDE : Frame :=
  { caps := {}, refresh := true, next := [[({ g := "D" } : Cell), {}, { g := "E" }, {}]],
    last := [[({} : Cell), {}, {}, {}]], cursorNext := {}, cursorLast := {} }
/-- The same two cells in the other order do not join. -/
def frameED : Frame := { frameDE with next := [[({ g := "E" } : Cell), {}, { g := "D" }, {}]] }

/-- The tight hypothesis separates what the row-pairwise one cannot: D, a, E (D and E not neighbours)
    is admitted by the tight form and not by the pairwise one; the clustering terminal shows it. -/
example :
    let row : List Cell := [{ g := "D" }, {}, { g := "61" }, { g := "E" }, {}]
    adjOk joinsEx none (headToks cwEx {} 0 row) = true ∧
    ¬ (texts (shownRow cwEx {} row)).Pairwise (fun a b => joinsEx a b = false) := by decide

/-- On the plain terminal the frame shows the screen; on the clustering terminal the E joins the D:
    nothing is drawn in column 2 and the result is terminal specific — the display clause fails.
    The frame violates `NoJoinRows`, and the tokens do contain the adjacent pair. -/
theorem no_join_needed :
    (run cwEx (Term.init 4 1) (renderFrameS cwEx frameDE).2).grid = Expected.expectedC cwEx {} frameDE.next ∧
    (run cwEx (Term.init 4 1) (renderFrameS cwEx frameDE).2).bad = none ∧
    (runC joinsEx cwEx (Term.init 4 1) (renderFrameS cwEx frameDE).2).grid ≠ Expected.expectedC cwEx {} frameDE.next ∧
    (runC joinsEx cwEx (Term.init 4 1) (renderFrameS cwEx frameDE).2).bad ≠ none ∧
    adjOk joinsEx none (renderFrameS cwEx frameDE).2 = false ∧
    adjOk joinsEx none (headToks cwEx {} 0 [({ g := "D" } : Cell), {}, { g := "E" }, {}]) = false ∧
    texts (shownRow cwEx {} [({ g := "D" } : Cell), {}, { g := "E" }, {}]) = ["D", "20", "E", "20"] := by
  decide

/-- Non-vacuity: E then D meets `NoJoinRows`, and the clustering terminal shows the screen. -/
example : NoJoinRows joinsEx cwEx {} frameED.next ∧
    (runC joinsEx cwEx (Term.init 4 1) (renderFrameS cwEx frameED).2).grid = Expected.expectedC cwEx {} frameED.next ∧
    (runC joinsEx cwEx (Term.init 4 1) (renderFrameS cwEx frameED).2).bad = none := by
  refine ⟨?_, by decide, by decide⟩
  intro r hr
  simp only [frameED, frameDE, List.mem_singleton] at hr
  subst hr
  decide

end VaxisModel.Props.C01Cluster
