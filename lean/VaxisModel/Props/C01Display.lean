/-
C01 — the cell-content clause: after every frame the reference terminal shows exactly the
application's screen.

`Props.C01.frame_displays_full` (the statement as first written) is FALSE of the model: it omits
five side conditions, each of which is individually necessary (concrete `decide`-checked
counterexamples in `Witness/C01Display.lean`).  `frame_displays_partial` below keeps the
conclusion of `frame_displays_full` verbatim and adds exactly these hypotheses:

  (hsp)  `cw "20" = 1` — the terminal gives a single space the width 1.  A zero-width grapheme is
         written as " " and `cw` is also the terminal's width function in the statement.
  (hw)   `WidthOk` for every cell of `next`: an explicit cell width agrees with the terminal's own
         width of the grapheme, unless it is > 1 and the explicit-width protocol (OSC 66) is on.
         Otherwise the terminal advances by its own width and the screen differs from `expected`
         (an application error / the F02 family, not a renderer defect).
  (hwf)  on a refresh the terminal's grid is *well formed* (`WFRow`: every continuation cell is
         owned by a glyph).  The full statement allowed any grid; a stray continuation cell makes
         the reference terminal poison a freshly written glyph.  Every grid the reference terminal
         can reach from `Term.init` through frames is well formed (`expected_wf`: the grid after a
         frame is `expected …`, which is well formed), so this is an invariant, not a restriction.
  (hcur) a visible cursor is requested inside the screen (as in `cursor_as_requested`); otherwise
         the CUP of `showCursor()` addresses a position outside the screen.
  (hlp)  `t.linkParams = ""` — `Rest t` only says that no hyperlink is open; the reference
         terminal stores the parameters separately.  Re-established by every frame
         (`frame_linkParams`).

Everything else is as in the full statement: any grid pair, any styles, any capability set, any
width oracle, refresh or not; no bound on sizes.
-/
import VaxisModel.Props.C01
import VaxisModel.Lemmas.RenderDisplay

namespace VaxisModel.Props.C01Display
open VaxisModel.Model.Render VaxisModel.Spec VaxisModel.Spec.Display
open VaxisModel.Props.C01 VaxisModel.Lemmas.RenderDisplay

/-- **After every frame the terminal shows exactly the application's screen**, nothing
    terminal-specific was relied on, and the new `last` buffer again describes the terminal. -/
theorem frame_displays_partial (cw : String → Nat) (f : Frame) (t : Term)
    (hrest : Rest t) (hbad : t.bad = none)
    (hlen : t.grid.length = f.next.length) (hlast : f.last.length = f.next.length)
    (hgc : ∀ r ∈ t.grid, r.length = t.cols) (hnc : ∀ r ∈ f.next, r.length = t.cols)
    (hlc : ∀ r ∈ f.last, r.length = t.cols) (hrows : t.rows = f.next.length)
    (hfits : Fits cw f.next) (hcells : ∀ r ∈ f.next, ∀ c ∈ r, c.sixel = false ∧ 0 ≤ c.w)
    (hagree : f.refresh = false → Agree cw f.caps t f.last)
    -- added hypotheses
    (hsp : cw "20" = 1)
    (hw : ∀ r ∈ f.next, ∀ c ∈ r, WidthOk cw f.caps c)
    (hwf : f.refresh = true → ∀ r ∈ t.grid, WFRow 0 r)
    (hcur : f.cursorNext.visible = true →
      (0 ≤ f.cursorNext.row ∧ f.cursorNext.row < t.rows) ∧ (0 ≤ f.cursorNext.col ∧ f.cursorNext.col < t.cols))
    (hlp : t.linkParams = "") :
    (run cw t (renderFrame cw f).2).bad = none ∧
    (run cw t (renderFrame cw f).2).grid = Expected.expected cw f.caps f.next ∧
    Agree cw f.caps (run cw t (renderFrame cw f).2) (renderFrame cw f).1 := by
  obtain ⟨pre, X, Y, hpre, h1, h2, hX, hY, _⟩ := frame_shape cw f t.rows t.cols hcur
  obtain ⟨c1, c2, c3, _⟩ := frame_core cw hsp f t X Y pre hX hY hpre hrest.1 hrest.2.1 hlp hbad hlen hlast hgc hnc hlc
    hrows hfits (fun r hr c hc => ⟨(hcells r hr c hc).1, (hcells r hr c hc).2, hw r hr c hc⟩) hagree hwf
  rw [h2]
  refine ⟨c1, c2, ?_⟩
  unfold Agree
  rw [c2, h1, c3]

/-- Every frame leaves no hyperlink parameters behind (side condition `hlp` of
    `frame_displays_partial` is an invariant). -/
theorem frame_linkParams (cw : String → Nat) (f : Frame) (t : Term)
    (hrest : Rest t) (hbad : t.bad = none)
    (hlen : t.grid.length = f.next.length) (hlast : f.last.length = f.next.length)
    (hgc : ∀ r ∈ t.grid, r.length = t.cols) (hnc : ∀ r ∈ f.next, r.length = t.cols)
    (hlc : ∀ r ∈ f.last, r.length = t.cols) (hrows : t.rows = f.next.length)
    (hfits : Fits cw f.next) (hcells : ∀ r ∈ f.next, ∀ c ∈ r, c.sixel = false ∧ 0 ≤ c.w)
    (hagree : f.refresh = false → Agree cw f.caps t f.last)
    (hsp : cw "20" = 1)
    (hw : ∀ r ∈ f.next, ∀ c ∈ r, WidthOk cw f.caps c)
    (hwf : f.refresh = true → ∀ r ∈ t.grid, WFRow 0 r)
    (hcur : f.cursorNext.visible = true →
      (0 ≤ f.cursorNext.row ∧ f.cursorNext.row < t.rows) ∧ (0 ≤ f.cursorNext.col ∧ f.cursorNext.col < t.cols))
    (hlp : t.linkParams = "") :
    (run cw t (renderFrame cw f).2).linkParams = "" := by
  obtain ⟨pre, X, Y, hpre, h1, h2, hX, hY, hlpY⟩ := frame_shape cw f t.rows t.cols hcur
  obtain ⟨_, _, _, c4⟩ := frame_core cw hsp f t X Y pre hX hY hpre hrest.1 hrest.2.1 hlp hbad hlen hlast hgc hnc hlc
    hrows hfits (fun r hr c hc => ⟨(hcells r hr c hc).1, (hcells r hr c hc).2, hw r hr c hc⟩) hagree hwf
  rw [h2, c4, hlpY]

/-- What the application's screen means is a well-formed terminal grid: together with
    `frame_displays_partial` (grid after a frame = `expected …`) side condition `hwf` is an
    invariant of the terminal from frame to frame. -/
theorem expected_wf (cw : String → Nat) (caps : Caps) (g : Grid) :
    ∀ r ∈ Expected.expected cw caps g, WFRow 0 r := by
  intro r hr
  obtain ⟨l, _, rfl⟩ := List.mem_map.mp hr
  exact expectedRow_wf cw caps l

/-- The blank initial terminal is well formed too. -/
theorem init_wf (cols rows : Nat) : ∀ r ∈ (Term.init cols rows).grid, WFRow 0 r := by
  intro r hr
  simp only [Term.init, List.mem_replicate] at hr
  obtain ⟨_, rfl⟩ := hr
  induction cols with
  | zero => simp [WFRow]
  | succ n ih => simp only [List.replicate_succ, DCell.blank, WFRow]; exact ⟨Nat.le_refl _, ih⟩

/-! Non-vacuity: a concrete two-frame history meets all hypotheses (first a refresh onto the blank
    terminal, then a diff frame that replaces a wide glyph by narrow ones). -/

def cwEx : String → Nat := fun g => if g = "57" then 2 else 1
def frame1 : Frame :=
  { caps := {}, refresh := true,
    next := [[({ g := "57" } : Cell), {}, { g := "61", style := { fg := 16777217, attr := 2 } }]],
    last := [[({} : Cell), {}, {}]], cursorNext := {}, cursorLast := {} }
def frame2 : Frame :=
  { caps := {}, refresh := false,
    next := [[({ g := "62" } : Cell), { g := "63" }, { g := "61", style := { fg := 16777217, attr := 2 } }]],
    last := (renderFrame cwEx frame1).1, cursorNext := { visible := true, col := 1 }, cursorLast := {} }

example : (run cwEx (Term.init 3 1) (renderFrame cwEx frame1).2).grid = Expected.expected cwEx {} frame1.next := by
  decide
example : (run cwEx (run cwEx (Term.init 3 1) (renderFrame cwEx frame1).2) (renderFrame cwEx frame2).2).grid
    = Expected.expected cwEx {} frame2.next := by decide
example : Agree cwEx frame2.caps (run cwEx (Term.init 3 1) (renderFrame cwEx frame1).2) frame2.last := by
  unfold Agree; decide
example : ∀ r ∈ frame2.next, ∀ c ∈ r, WidthOk cwEx frame2.caps c := by
  intro r hr c hc
  simp only [frame2, List.mem_cons, List.not_mem_nil, or_false] at hr
  subst hr
  simp only [List.mem_cons, List.not_mem_nil, or_false] at hc
  rcases hc with rfl | rfl | rfl <;> exact Or.inl rfl

/-- All hypotheses of `frame_displays_partial` hold for the second frame on the terminal left by
    the first one: the theorem applies to a concrete non-trivial state. -/
example :
    let t1 := run cwEx (Term.init 3 1) (renderFrame cwEx frame1).2
    (run cwEx t1 (renderFrame cwEx frame2).2).bad = none ∧
    (run cwEx t1 (renderFrame cwEx frame2).2).grid = Expected.expected cwEx frame2.caps frame2.next ∧
    Agree cwEx frame2.caps (run cwEx t1 (renderFrame cwEx frame2).2) (renderFrame cwEx frame2).1 := by
  intro t1
  apply frame_displays_partial cwEx frame2 t1
  · exact ⟨by decide, by decide, by decide⟩
  · decide
  · decide
  · decide
  · decide
  · decide
  · decide
  · decide
  · intro r hr
    simp only [frame2, List.mem_cons, List.not_mem_nil, or_false] at hr
    subst hr
    simp [FitsRow, Expected.cellWidth, cwEx]
  · decide
  · intro _; unfold Agree; decide
  · decide
  · intro r hr c hc
    simp only [frame2, List.mem_cons, List.not_mem_nil, or_false] at hr
    subst hr
    simp only [List.mem_cons, List.not_mem_nil, or_false] at hc
    rcases hc with rfl | rfl | rfl <;> exact Or.inl rfl
  · intro h; exact absurd h (by decide)
  · intro _; decide
  · decide

end VaxisModel.Props.C01Display
