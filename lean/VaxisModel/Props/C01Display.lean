/-
C01 — the cell-content clause: after every frame the reference terminal shows exactly the
application's screen.

`Props.C01.frame_displays_full` (the statement as first written) is FALSE of the model: it omits
five side conditions, each of which is individually necessary (concrete `decide`-checked
counterexamples in `Witness/C01Display.lean`).  `frame_displays_partial` below keeps the
conclusion of `frame_displays_full` verbatim and adds exactly these hypotheses:

  (hsp)  `cw "20" = 1` — the terminal gives a single space the width 1.  A zero-width grapheme is
         written as " " and `cw` is also the terminal's width function in the statement.
  (hw)   `WidthOk` for every cell of `next`: an explicit cell width agrees with the terminal's own
         width of the grapheme, unless it is > 1 and the explicit-width protocol (OSC 66) is on.
         Otherwise the terminal advances by its own width and the screen differs from `expected`
         (an application error / the F02 family, not a renderer defect).
  (hwf)  on a refresh the terminal's grid is *well formed* (`WFRow`: every continuation cell is
         owned by a glyph).  The full statement allowed any grid; a stray continuation cell makes
         the reference terminal poison a freshly written glyph.  Every grid the reference terminal
         can reach from `Term.init` through frames is well formed (`expected_wf`: the grid after a
         frame is `expected …`, which is well formed), so this is an invariant, not a restriction.
  (hcur) a visible cursor is requested inside the screen (as in `cursor_as_requested`); otherwise
         the CUP of `showCursor()` addresses a position outside the screen.
  (hlp)  `t.linkParams = ""` — `Rest t` only says that no hyperlink is open; the reference
         terminal stores the parameters separately.  Re-established by every frame
         (`frame_linkParams`).

Everything else is as in the full statement: any grid pair, any styles, any capability set, any
width oracle, refresh or not; no bound on sizes.

Further theorems here: `frame_linkParams`, `expected_wf`, `init_wf`, `frame_dims` (the added side
conditions and the dimension premises are re-established by every frame), `frame_step` (one frame
takes a `Ready` terminal to a `Ready` terminal that shows the screen) and `history_displays`
(from the blank terminal, after every frame of any admissible history — refreshes and diff frames in
any order — the terminal shows exactly the application's screen and `bad = none`).
-/
import VaxisModel.Props.C01
import VaxisModel.Lemmas.RenderDisplay

namespace VaxisModel.Props.C01Display
open VaxisModel.Model.Render VaxisModel.Spec VaxisModel.Spec.Display
open VaxisModel.Props.C01 VaxisModel.Lemmas.RenderDisplay

/-- **After every frame the terminal shows exactly the application's screen**, nothing
    terminal-specific was relied on, and the new `last` buffer again describes the terminal. -/
theorem frame_displays_partial (cw : String → Nat) (f : Frame) (t : Term)
    (hrest : Rest t) (hbad : t.bad = none)
    (hlen : t.grid.length = f.next.length) (hlast : f.last.length = f.next.length)
    (hgc : ∀ r ∈ t.grid, r.length = t.cols) (hnc : ∀ r ∈ f.next, r.length = t.cols)
    (hlc : ∀ r ∈ f.last, r.length = t.cols) (hrows : t.rows = f.next.length)
    (hfits : Fits cw f.next) (hcells : ∀ r ∈ f.next, ∀ c ∈ r, c.sixel = false ∧ 0 ≤ c.w)
    (hagree : f.refresh = false → Agree cw f.caps t f.last)
    -- added hypotheses
    (hsp : cw "20" = 1)
    (hw : ∀ r ∈ f.next, ∀ c ∈ r, WidthOk cw f.caps c)
    (hwf : f.refresh = true → ∀ r ∈ t.grid, WFRow 0 r)
    (hcur : f.cursorNext.visible = true →
      (0 ≤ f.cursorNext.row ∧ f.cursorNext.row < t.rows) ∧ (0 ≤ f.cursorNext.col ∧ f.cursorNext.col < t.cols))
    (hlp : t.linkParams = "") :
    (run cw t (renderFrame cw f).2).bad = none ∧
    (run cw t (renderFrame cw f).2).grid = Expected.expected cw f.caps f.next ∧
    Agree cw f.caps (run cw t (renderFrame cw f).2) (renderFrame cw f).1 := by
  obtain ⟨pre, X, Y, hpre, h1, h2, hX, hY, _⟩ := frame_shape cw f t.rows t.cols hcur
  obtain ⟨c1, c2, c3, _, _, _⟩ := frame_core cw hsp f t X Y pre hX hY hpre hrest.1 hrest.2.1 hlp hbad hlen hlast hgc hnc hlc
    hrows hfits (fun r hr c hc => ⟨(hcells r hr c hc).1, (hcells r hr c hc).2, hw r hr c hc⟩) hagree hwf
  rw [h2]
  refine ⟨c1, c2, ?_⟩
  unfold Agree
  rw [c2, h1, c3]

/-- Every frame leaves no hyperlink parameters behind (side condition `hlp` of
    `frame_displays_partial` is an invariant). -/
theorem frame_linkParams (cw : String → Nat) (f : Frame) (t : Term)
    (hrest : Rest t) (hbad : t.bad = none)
    (hlen : t.grid.length = f.next.length) (hlast : f.last.length = f.next.length)
    (hgc : ∀ r ∈ t.grid, r.length = t.cols) (hnc : ∀ r ∈ f.next, r.length = t.cols)
    (hlc : ∀ r ∈ f.last, r.length = t.cols) (hrows : t.rows = f.next.length)
    (hfits : Fits cw f.next) (hcells : ∀ r ∈ f.next, ∀ c ∈ r, c.sixel = false ∧ 0 ≤ c.w)
    (hagree : f.refresh = false → Agree cw f.caps t f.last)
    (hsp : cw "20" = 1)
    (hw : ∀ r ∈ f.next, ∀ c ∈ r, WidthOk cw f.caps c)
    (hwf : f.refresh = true → ∀ r ∈ t.grid, WFRow 0 r)
    (hcur : f.cursorNext.visible = true →
      (0 ≤ f.cursorNext.row ∧ f.cursorNext.row < t.rows) ∧ (0 ≤ f.cursorNext.col ∧ f.cursorNext.col < t.cols))
    (hlp : t.linkParams = "") :
    (run cw t (renderFrame cw f).2).linkParams = "" := by
  obtain ⟨pre, X, Y, hpre, h1, h2, hX, hY, hlpY⟩ := frame_shape cw f t.rows t.cols hcur
  obtain ⟨_, _, _, c4, _, _⟩ := frame_core cw hsp f t X Y pre hX hY hpre hrest.1 hrest.2.1 hlp hbad hlen hlast hgc hnc hlc
    hrows hfits (fun r hr c hc => ⟨(hcells r hr c hc).1, (hcells r hr c hc).2, hw r hr c hc⟩) hagree hwf
  rw [h2, c4, hlpY]

/-- What the application's screen means is a well-formed terminal grid: together with
    `frame_displays_partial` (grid after a frame = `expected …`) side condition `hwf` is an
    invariant of the terminal from frame to frame. -/
theorem expected_wf (cw : String → Nat) (caps : Caps) (g : Grid) :
    ∀ r ∈ Expected.expected cw caps g, WFRow 0 r := by
  intro r hr
  obtain ⟨l, _, rfl⟩ := List.mem_map.mp hr
  exact expectedRow_wf cw caps l

/-- The blank initial terminal is well formed too. -/
theorem init_wf (cols rows : Nat) : ∀ r ∈ (Term.init cols rows).grid, WFRow 0 r := by
  intro r hr
  simp only [Term.init, List.mem_replicate] at hr
  obtain ⟨_, rfl⟩ := hr
  induction cols with
  | zero => simp [WFRow]
  | succ n ih => simp only [List.replicate_succ, DCell.blank, WFRow]; exact ⟨Nat.le_refl _, ih⟩

/-- Dimensions are not changed by a frame. -/
theorem frame_dims (cw : String → Nat) (f : Frame) (t : Term)
    (hrest : Rest t) (hbad : t.bad = none)
    (hlen : t.grid.length = f.next.length) (hlast : f.last.length = f.next.length)
    (hgc : ∀ r ∈ t.grid, r.length = t.cols) (hnc : ∀ r ∈ f.next, r.length = t.cols)
    (hlc : ∀ r ∈ f.last, r.length = t.cols) (hrows : t.rows = f.next.length)
    (hfits : Fits cw f.next) (hcells : ∀ r ∈ f.next, ∀ c ∈ r, c.sixel = false ∧ 0 ≤ c.w)
    (hagree : f.refresh = false → Agree cw f.caps t f.last)
    (hsp : cw "20" = 1)
    (hw : ∀ r ∈ f.next, ∀ c ∈ r, WidthOk cw f.caps c)
    (hwf : f.refresh = true → ∀ r ∈ t.grid, WFRow 0 r)
    (hcur : f.cursorNext.visible = true →
      (0 ≤ f.cursorNext.row ∧ f.cursorNext.row < t.rows) ∧ (0 ≤ f.cursorNext.col ∧ f.cursorNext.col < t.cols))
    (hlp : t.linkParams = "") :
    (run cw t (renderFrame cw f).2).rows = t.rows ∧ (run cw t (renderFrame cw f).2).cols = t.cols := by
  obtain ⟨pre, X, Y, hpre, h1, h2, hX, hY, _⟩ := frame_shape cw f t.rows t.cols hcur
  obtain ⟨_, _, _, _, c5, c6⟩ := frame_core cw hsp f t X Y pre hX hY hpre hrest.1 hrest.2.1 hlp hbad hlen hlast hgc hnc hlc
    hrows hfits (fun r hr c hc => ⟨(hcells r hr c hc).1, (hcells r hr c hc).2, hw r hr c hc⟩) hagree hwf
  rw [h2]; exact ⟨c5, c6⟩

/-! ### Histories: after *every* frame of a run -/

/-- What the application asks for in one frame. -/
structure FrameIn where
  refresh : Bool
  next : Grid
  cursor : CursorState
  shape : String

/-- Terminal plus the renderer's memory between frames. -/
structure HState where
  t : Term
  last : Grid
  cursor : CursorState
  shape : String

def mkFrame (caps : Caps) (s : HState) (fi : FrameIn) : Frame :=
  { caps := caps, refresh := fi.refresh, next := fi.next, last := s.last, cursorNext := fi.cursor,
    cursorLast := s.cursor, shapeNext := fi.shape, shapeLast := s.shape }

/-- One `Render()`: the tokens reach the terminal, `last`/cursor/shape are remembered. -/
def stepH (cw : String → Nat) (caps : Caps) (s : HState) (fi : FrameIn) : HState :=
  { t := run cw s.t (renderFrame cw (mkFrame caps s fi)).2, last := (renderFrame cw (mkFrame caps s fi)).1,
    cursor := fi.cursor, shape := fi.shape }

/-- Side conditions on the application's frame for a `rows × cols` screen. -/
def FrameInOk (cw : String → Nat) (caps : Caps) (rows cols : Nat) (fi : FrameIn) : Prop :=
  fi.next.length = rows ∧ (∀ r ∈ fi.next, r.length = cols) ∧ Fits cw fi.next ∧
  (∀ r ∈ fi.next, ∀ c ∈ r, c.sixel = false ∧ 0 ≤ c.w ∧ WidthOk cw caps c) ∧
  (fi.cursor.visible = true →
    (0 ≤ fi.cursor.row ∧ fi.cursor.row < rows) ∧ (0 ≤ fi.cursor.col ∧ fi.cursor.col < cols))

/-- The terminal is ready for a frame: at rest, nothing terminal-specific relied on so far, a
    well-formed `rows × cols` grid, and a `last` buffer of the same shape. -/
structure Ready (t : Term) (last : Grid) (rows cols : Nat) : Prop where
  rest : Rest t
  bad : t.bad = none
  lp : t.linkParams = ""
  trows : t.rows = rows
  tcols : t.cols = cols
  glen : t.grid.length = rows
  llen : last.length = rows
  gcols : ∀ r ∈ t.grid, r.length = cols
  lcols : ∀ r ∈ last, r.length = cols
  wf : ∀ r ∈ t.grid, WFRow 0 r

/-- **One frame re-establishes everything the next frame needs**, and the terminal shows the
    application's screen. -/
theorem frame_step (cw : String → Nat) (caps : Caps) (hsp : cw "20" = 1) (rows cols : Nat) (s : HState)
    (fi : FrameIn) (hr : Ready s.t s.last rows cols) (hag : fi.refresh = false → Agree cw caps s.t s.last)
    (hok : FrameInOk cw caps rows cols fi) :
    Ready (stepH cw caps s fi).t (stepH cw caps s fi).last rows cols ∧
    Agree cw caps (stepH cw caps s fi).t (stepH cw caps s fi).last ∧
    (stepH cw caps s fi).t.grid = Expected.expected cw caps fi.next ∧ (stepH cw caps s fi).t.bad = none := by
  obtain ⟨o1, o2, o3, o4, o5⟩ := hok
  have hnc : ∀ r ∈ (mkFrame caps s fi).next, r.length = s.t.cols := by rw [hr.tcols]; exact o2
  have hlc : ∀ r ∈ (mkFrame caps s fi).last, r.length = s.t.cols := by rw [hr.tcols]; exact hr.lcols
  have hgc : ∀ r ∈ s.t.grid, r.length = s.t.cols := by rw [hr.tcols]; exact hr.gcols
  have hcells : ∀ r ∈ (mkFrame caps s fi).next, ∀ c ∈ r, c.sixel = false ∧ 0 ≤ c.w :=
    fun r h c hc => ⟨(o4 r h c hc).1, (o4 r h c hc).2.1⟩
  have hw : ∀ r ∈ (mkFrame caps s fi).next, ∀ c ∈ r, WidthOk cw (mkFrame caps s fi).caps c :=
    fun r h c hc => (o4 r h c hc).2.2
  have hcur : (mkFrame caps s fi).cursorNext.visible = true →
      (0 ≤ (mkFrame caps s fi).cursorNext.row ∧ (mkFrame caps s fi).cursorNext.row < s.t.rows) ∧
      (0 ≤ (mkFrame caps s fi).cursorNext.col ∧ (mkFrame caps s fi).cursorNext.col < s.t.cols) := by
    rw [hr.trows, hr.tcols]; exact o5
  have hlen : s.t.grid.length = (mkFrame caps s fi).next.length := by rw [hr.glen]; exact o1.symm
  have hlast : (mkFrame caps s fi).last.length = (mkFrame caps s fi).next.length := by
    show s.last.length = fi.next.length
    rw [hr.llen, o1]
  have hrows : s.t.rows = (mkFrame caps s fi).next.length := by rw [hr.trows]; exact o1.symm
  obtain ⟨d1, d2, d3⟩ := frame_displays_partial cw (mkFrame caps s fi) s.t hr.rest hr.bad hlen hlast hgc hnc hlc hrows
    o3 hcells hag hsp hw (fun _ => hr.wf) hcur hr.lp
  have d4 := frame_linkParams cw (mkFrame caps s fi) s.t hr.rest hr.bad hlen hlast hgc hnc hlc hrows
    o3 hcells hag hsp hw (fun _ => hr.wf) hcur hr.lp
  obtain ⟨d5, d6⟩ := frame_dims cw (mkFrame caps s fi) s.t hr.rest hr.bad hlen hlast hgc hnc hlc hrows
    o3 hcells hag hsp hw (fun _ => hr.wf) hcur hr.lp
  have d7 := flush_epilogue cw cw (mkFrame caps s fi) s.t hr.rest
  have hex : Expected.expected cw caps (renderFrame cw (mkFrame caps s fi)).1 = Expected.expected cw caps fi.next := by
    unfold Agree at d3; exact d3.symm.trans d2
  obtain ⟨e1, e2⟩ := expected_dims cw caps cols _ _ hex o2
  refine ⟨⟨d7, d1, d4, d5.trans hr.trows, d6.trans hr.tcols, ?_, e1.trans o1, ?_, e2, ?_⟩, d3, d2, d1⟩
  · show (run cw s.t (renderFrame cw (mkFrame caps s fi)).2).grid.length = rows
    rw [d2]; simp [Expected.expected]; exact o1
  · show ∀ r ∈ (run cw s.t (renderFrame cw (mkFrame caps s fi)).2).grid, r.length = cols
    rw [d2]
    intro r hr'
    obtain ⟨l, hl, rfl⟩ := List.mem_map.mp hr'
    rw [expectedRow_length]; exact o2 l hl
  · show ∀ r ∈ (run cw s.t (renderFrame cw (mkFrame caps s fi)).2).grid, WFRow 0 r
    rw [d2]; exact expected_wf cw caps _

/-- From a synchronized state, after any non-empty sequence of admissible frames the terminal
    shows the screen of the last one. -/
theorem history_step (cw : String → Nat) (caps : Caps) (hsp : cw "20" = 1) (rows cols : Nat) :
    ∀ (fis : List FrameIn) (s : HState), Ready s.t s.last rows cols → Agree cw caps s.t s.last →
      (∀ fi ∈ fis, FrameInOk cw caps rows cols fi) → ∀ fi, fis.getLast? = some fi →
      (fis.foldl (stepH cw caps) s).t.grid = Expected.expected cw caps fi.next ∧
      (fis.foldl (stepH cw caps) s).t.bad = none := by
  intro fis
  induction fis with
  | nil => intro s _ _ _ fi h; simp at h
  | cons a rest ih =>
    intro s hr hag hok fi hlast
    obtain ⟨r1, a1, g1, b1⟩ := frame_step cw caps hsp rows cols s a hr (fun _ => hag) (hok a (by simp))
    cases rest with
    | nil =>
      simp only [List.getLast?_singleton, Option.some.injEq] at hlast
      subst hlast
      exact ⟨g1, b1⟩
    | cons b rest' =>
      rw [List.getLast?_cons_cons] at hlast
      exact ih (stepH cw caps s a) r1 a1 (fun fi h => hok fi (by simp [h])) fi hlast

theorem init_ready (cols rows : Nat) : Ready (Term.init cols rows) (blankGrid cols rows) rows cols := by
  refine ⟨⟨rfl, rfl, rfl⟩, rfl, rfl, rfl, rfl, by simp [Term.init], by simp [blankGrid], ?_, ?_, init_wf cols rows⟩
  · intro r hr; simp only [Term.init, List.mem_replicate] at hr; rw [hr.2]; simp
  · intro r hr; simp only [blankGrid, List.mem_replicate] at hr; rw [hr.2]; simp

/-- **C01, cell-content clause, over whole histories**: start from the blank terminal (as after
    `resize`, where vaxis forces the first frame to be a refresh); after *every* frame of *any*
    sequence of admissible frames — diff frames and refreshes in any order — the reference terminal
    shows exactly the application's screen and nothing terminal-specific was relied on. -/
theorem history_displays (cw : String → Nat) (caps : Caps) (hsp : cw "20" = 1) (rows cols : Nat)
    (fi0 : FrameIn) (fis : List FrameIn) (h0 : fi0.refresh = true)
    (hok : ∀ fi ∈ fi0 :: fis, FrameInOk cw caps rows cols fi) (fi : FrameIn)
    (hlast : (fi0 :: fis).getLast? = some fi) :
    ((fi0 :: fis).foldl (stepH cw caps) ⟨Term.init cols rows, blankGrid cols rows, {}, ""⟩).t.grid
      = Expected.expected cw caps fi.next ∧
    ((fi0 :: fis).foldl (stepH cw caps) ⟨Term.init cols rows, blankGrid cols rows, {}, ""⟩).t.bad = none := by
  obtain ⟨r1, a1, g1, b1⟩ := frame_step cw caps hsp rows cols ⟨Term.init cols rows, blankGrid cols rows, {}, ""⟩ fi0
    (init_ready cols rows) (fun h => by rw [h0] at h; exact absurd h (by simp)) (hok fi0 (by simp))
  cases fis with
  | nil =>
    simp only [List.getLast?_singleton, Option.some.injEq] at hlast
    subst hlast
    exact ⟨g1, b1⟩
  | cons b rest =>
    rw [List.getLast?_cons_cons] at hlast
    exact history_step cw caps hsp rows cols (b :: rest) _ r1 a1 (fun fi h => hok fi (by simp [h])) fi hlast

/-! Non-vacuity: a concrete two-frame history meets all hypotheses (first a refresh onto the blank
    terminal, then a diff frame that replaces a wide glyph by narrow ones). -/

def cwEx : String → Nat := fun g => if g = "57" then 2 else 1
def frame1 : Frame :=
  { caps := {}, refresh := true,
    next := [[({ g := "57" } : Cell), {}, { g := "61", style := { fg := 16777217, attr := 2 } }]],
    last := [[({} : Cell), {}, {}]], cursorNext := {}, cursorLast := {} }
def frame2 : Frame :=
  { caps := {}, refresh := false,
    next := [[({ g := "62" } : Cell), { g := "63" }, { g := "61", style := { fg := 16777217, attr := 2 } }]],
    last := (renderFrame cwEx frame1).1, cursorNext := { visible := true, col := 1 }, cursorLast := {} }

example : (run cwEx (Term.init 3 1) (renderFrame cwEx frame1).2).grid = Expected.expected cwEx {} frame1.next := by
  decide
example : (run cwEx (run cwEx (Term.init 3 1) (renderFrame cwEx frame1).2) (renderFrame cwEx frame2).2).grid
    = Expected.expected cwEx {} frame2.next := by decide
example : Agree cwEx frame2.caps (run cwEx (Term.init 3 1) (renderFrame cwEx frame1).2) frame2.last := by
  unfold Agree; decide
example : ∀ r ∈ frame2.next, ∀ c ∈ r, WidthOk cwEx frame2.caps c := by
  intro r hr c hc
  simp only [frame2, List.mem_cons, List.not_mem_nil, or_false] at hr
  subst hr
  simp only [List.mem_cons, List.not_mem_nil, or_false] at hc
  rcases hc with rfl | rfl | rfl <;> exact Or.inl rfl

/-- All hypotheses of `frame_displays_partial` hold for the second frame on the terminal left by
    the first one: the theorem applies to a concrete non-trivial state. -/
example :
    let t1 := run cwEx (Term.init 3 1) (renderFrame cwEx frame1).2
    (run cwEx t1 (renderFrame cwEx frame2).2).bad = none ∧
    (run cwEx t1 (renderFrame cwEx frame2).2).grid = Expected.expected cwEx frame2.caps frame2.next ∧
    Agree cwEx frame2.caps (run cwEx t1 (renderFrame cwEx frame2).2) (renderFrame cwEx frame2).1 := by
  intro t1
  apply frame_displays_partial cwEx frame2 t1
  · exact ⟨by decide, by decide, by decide⟩
  · decide
  · decide
  · decide
  · decide
  · decide
  · decide
  · decide
  · intro r hr
    simp only [frame2, List.mem_cons, List.not_mem_nil, or_false] at hr
    subst hr
    simp [FitsRow, Expected.cellWidth, cwEx]
  · decide
  · intro _; unfold Agree; decide
  · decide
  · intro r hr c hc
    simp only [frame2, List.mem_cons, List.not_mem_nil, or_false] at hr
    subst hr
    simp only [List.mem_cons, List.not_mem_nil, or_false] at hc
    rcases hc with rfl | rfl | rfl <;> exact Or.inl rfl
  · intro h; exact absurd h (by decide)
  · intro _; decide
  · decide

/-- Non-vacuity of `history_displays`: the two frames above form an admissible history. -/
example :
    let fi0 : FrameIn := ⟨true, frame1.next, {}, ""⟩
    let fi1 : FrameIn := ⟨false, frame2.next, { visible := true, col := 1 }, "text"⟩
    ([fi0, fi1].foldl (stepH cwEx {}) ⟨Term.init 3 1, blankGrid 3 1, {}, ""⟩).t.grid
      = Expected.expected cwEx {} fi1.next ∧
    ([fi0, fi1].foldl (stepH cwEx {}) ⟨Term.init 3 1, blankGrid 3 1, {}, ""⟩).t.bad = none := by
  intro fi0 fi1
  have hcells : ∀ (g : Grid), (g = frame1.next ∨ g = frame2.next) →
      ∀ r ∈ g, ∀ c ∈ r, c.sixel = false ∧ 0 ≤ c.w ∧ WidthOk cwEx {} c := by
    intro g hg r hr c hc
    rcases hg with rfl | rfl <;>
    · simp only [frame1, frame2, List.mem_cons, List.not_mem_nil, or_false] at hr
      subst hr
      simp only [List.mem_cons, List.not_mem_nil, or_false] at hc
      rcases hc with rfl | rfl | rfl <;> exact ⟨rfl, by decide, Or.inl rfl⟩
  have hfits : ∀ (g : Grid), (g = frame1.next ∨ g = frame2.next) → Fits cwEx g := by
    intro g hg r hr
    rcases hg with rfl | rfl <;>
    · simp only [frame1, frame2, List.mem_cons, List.not_mem_nil, or_false] at hr
      subst hr
      simp [FitsRow, Expected.cellWidth, cwEx]
  apply history_displays cwEx {} rfl 1 3 fi0 [fi1] rfl
  · intro fi hfi
    simp only [List.mem_cons, List.not_mem_nil, or_false] at hfi
    rcases hfi with rfl | rfl
    · exact ⟨rfl, by decide, hfits _ (Or.inl rfl), hcells _ (Or.inl rfl), fun h => absurd h (by decide)⟩
    · exact ⟨rfl, by decide, hfits _ (Or.inr rfl), hcells _ (Or.inr rfl), fun _ => by decide⟩
  · rfl

end VaxisModel.Props.C01Display
