/-
C01 (structural tie to vaxis.go / writer.go): the statement structure of `render()`,
`showCursor()`, `advance()`, `writer.Write`, `writer.WriteString`, `writer.Flush` regenerated from
the source on every run (`Gen/RenderFacts.lean`, extractor `extract/cmd/C01`) is the structure the
model transcribes (`Lemmas/RenderFactsPinned.lean`), every statement form was recognised, and the
model's attribute delta and the order of its style-field deltas are the *interpretation* of the
tables extracted from the source.  Any change of a guard, of the order of the guards, of a loop
bound, of a write or of where it stands makes one of these theorems fail to compile.
-/
import VaxisModel.Lemmas.RenderFacts

namespace VaxisModel.Props.C01Facts
open VaxisModel.Model.Render VaxisModel.Lemmas.RenderFacts
open VaxisModel.Gen.RenderFacts

/-- Every statement of the six functions has a form the extractor knows (no `unknown` line), and
    the table extraction met no unknown shape. -/
theorem render_fully_recognised :
    (render ++ showCursor ++ VaxisModel.Gen.RenderFacts.advance ++ writerWrite ++ writerWriteString ++ writerFlush).all (fun l => l.2.1 != "unknown") = true ∧
    extractErrors = [] := by
  decide +kernel

/-- `render()` statement by statement: graphics loops, pointer shape, the row loop and the cell
    loop (guards in order: sixel, clip (F02), unchanged → reposition + nulling loop + skip, `dirty`,
    copy to `last`, reposition → OSC 8 close + CUP; the six deltas; `cursor = next.Style`; width
    resolution; the write switch; the second nulling loop with its `dirty` extension; skip), the
    trailing hyperlink close and cursor show. -/
theorem facts_render : render = VaxisModel.Lemmas.RenderFactsPinned.render := by decide +kernel

/-- `showCursor()` = cursor style, CUP (row+1, col+1), DECSET 25; `advance()` = max(width−1, 0)
    with the width resolved through `characterWidth` when 0. -/
theorem facts_showCursor_advance :
    showCursor = VaxisModel.Lemmas.RenderFactsPinned.showCursor ∧ VaxisModel.Gen.RenderFacts.advance = VaxisModel.Lemmas.RenderFactsPinned.advance := by
  decide +kernel

/-- The writer: the two different prologues (`Write`: sync first, cursor hidden only if it stays
    visible; `WriteString`: cursor hidden whenever it was visible, then sync), the cursor-only
    branch of `Flush` with its five cases in order, and the epilogue (SGR reset, cursor restore,
    sync end). -/
theorem facts_writer :
    writerWrite = VaxisModel.Lemmas.RenderFactsPinned.writerWrite ∧
    writerWriteString = VaxisModel.Lemmas.RenderFactsPinned.writerWriteString ∧
    writerFlush = VaxisModel.Lemmas.RenderFactsPinned.writerFlush := by
  decide +kernel

/-- The guards of the cell loop, in source order (readable projection of `facts_render`). -/
theorem facts_cell_loop_guards :
    linesAt (cellLoop render) 2 ["if", "switch", "for"] =
      ["next.sixel",
       "col+vx.advance(next)>=len(vx.screenNext.buf[row])",
       "next==vx.screenLast.buf[row][col]&&!vx.refresh&&col>=dirty",
       "end:=col+vx.advance(vx.screenLast.buf[row][col])+1;end>dirty",
       "reposition",
       "cursor.Foreground!=next.Foreground",
       "cursor.Background!=next.Background",
       "vx.caps.styledUnderlines",
       "cursor.Attribute!=next.Attribute",
       "cursor.UnderlineStyle!=next.UnderlineStyle",
       "cursor.Hyperlink!=next.Hyperlink||(next.Hyperlink!=\"\"&&cursor.HyperlinkParams!=next.HyperlinkParams)",
       "next.Width==0",
       "",
       "i:=1;i<skip+1;i+=1"] := by
  decide +kernel

/-- The extracted attribute tables resolve (names → bits via style.go, names → strings via
    sequences.go, strings → tokens via the lexer) to the codes the model uses — including the shared
    bold/dim reset 22 with re-instatement of the other one. -/
theorem facts_attr_tables : attrOn.map resolveOn = litOn ∧ attrOff.map resolveOff = litOff := by
  decide +kernel

/-- **The model's attribute delta is the interpretation of the extracted tables.** -/
theorem attrToks_from_source (a b : Nat) :
    attrToks a b = attrToksOf (attrOn.map resolveOn) (attrOff.map resolveOff) a b := by
  rw [facts_attr_tables.1, facts_attr_tables.2]
  exact attrToks_lit a b

/-- **The pen delta emits the style-field deltas in the order the source compares them.** -/
theorem penDelta_order (caps : Caps) (pen next : Style) :
    penDelta caps pen next = deltaOrder.flatMap (deltaPart caps pen next) := by
  have h : deltaOrder = ["Foreground", "Background", "UnderlineColor", "Attribute", "UnderlineStyle", "Hyperlink"] := by
    decide +kernel
  rw [h]
  simp [penDelta, deltaPart, List.flatMap]

private theorem ea1 (caps : Caps) (cn cl : CursorState) : evalAtom caps cn cl "cursorLast.visible" = cl.visible := rfl
private theorem ea2 (caps : Caps) (cn cl : CursorState) : evalAtom caps cn cl "cursorNext.visible" = cn.visible := rfl
private theorem ea3 (caps : Caps) (cn cl : CursorState) : evalAtom caps cn cl "caps.synchronizedUpdate" = caps.sync := rfl
private theorem ea4 (caps : Caps) (cn cl : CursorState) :
    evalAtom caps cn cl "cursorNext.row!=cursorLast.row" = decide (cn.row ≠ cl.row) := rfl
private theorem ea5 (caps : Caps) (cn cl : CursorState) :
    evalAtom caps cn cl "cursorNext.col!=cursorLast.col" = decide (cn.col ≠ cl.col) := rfl
private theorem ea6 (caps : Caps) (cn cl : CursorState) :
    evalAtom caps cn cl "cursorNext.style!=cursorLast.style" = decide (cn.style ≠ cl.style) := rfl
private theorem wt0 (cn : CursorState) : writeToks cn "" = [] := rfl
private theorem wt1 (cn : CursorState) : writeToks cn "decrst(cursorVisibility)" = [.decrst 25] := rfl
private theorem wt2 (cn : CursorState) : writeToks cn "decset(synchronizedUpdate)" = [.decset 2026] := rfl
private theorem wt3 (cn : CursorState) : writeToks cn "decrst(synchronizedUpdate)" = [.decrst 2026] := rfl
private theorem wt4 (cn : CursorState) : writeToks cn "sgrReset" = [.sgr []] := rfl
private theorem wt5 (cn : CursorState) : writeToks cn "showCursor()" = showCursorToks cn := rfl

/-- **The writer model is the interpretation of writer.go's guarded writes**: `flush` = the prologue of
    `WriteString` (every frame's first write is a `WriteString`), the body, the epilogue of `Flush`; or,
    with nothing buffered, the first matching case of `Flush`'s cursor-only switch — guards, order and
    written sequences as extracted from the source on this run. -/
theorem flush_from_source (caps : Caps) (cn cl : CursorState) (body : List Tok) :
    flush caps cn cl body = flushOf wsPrologue flushCursorOnly flushEpilogue caps cn cl body := by
  have h1 : wsPrologue = [([(false, "cursorLast.visible")], "decrst(cursorVisibility)"),
      ([(false, "caps.synchronizedUpdate")], "decset(synchronizedUpdate)")] := by decide +kernel
  have h2 : flushCursorOnly = [([(true, "cursorNext.visible"), (false, "cursorLast.visible")], "decrst(cursorVisibility)"),
      ([(true, "cursorNext.visible")], ""), ([(false, "cursorNext.row!=cursorLast.row")], "showCursor()"),
      ([(false, "cursorNext.col!=cursorLast.col")], "showCursor()"), ([(false, "cursorNext.style!=cursorLast.style")], "showCursor()"),
      ([], "")] := by decide +kernel
  have h3 : flushEpilogue = [([], "sgrReset"), ([(false, "cursorNext.visible"), (false, "cursorLast.visible")], "showCursor()"),
      ([(false, "caps.synchronizedUpdate")], "decrst(synchronizedUpdate)")] := by decide +kernel
  rw [h1, h2, h3]
  unfold flush flushOf
  simp only [firstCase, runGuarded, evalGuard, List.flatMap_cons, List.flatMap_nil, List.all_cons, List.all_nil,
    ea1, ea2, ea3, ea4, ea5, ea6, wt0, wt1, wt2, wt3, wt4, wt5, Bool.and_true, Bool.false_eq_true, if_false, if_true]
  cases hcv : cn.visible <;> cases hlv : cl.visible <;> cases hs : caps.sync <;> simp

end VaxisModel.Props.C01Facts
