/-
C01, hyperlink parameters (F112b, fixed): `OSC 8 ; params ; URI ST` ends its parameter field at the
first `;`, so a `;` inside `Style.HyperlinkParams`, written verbatim, moved the rest of the
parameter string into the URL on every terminal (cell with URL `http://d`, params `a;b` showed the
URL `b;http://d`).  `render()` now writes the parameters up to the first `;`; the model
(`Model.Render.lpField`) follows, and the display theorems (`frame_displays` … `app_history_displays`)
show every cell with exactly the URL the application set and with the parameter field
`Spec.Expected.paramField` of its parameters — the whole parameter string whenever that is a valid
OSC 8 parameter field.
-/
import VaxisModel.Lemmas.RenderDisplay
import VaxisModel.Lemmas.RenderLink

namespace VaxisModel.Props.C01Link
open VaxisModel.Model.Render VaxisModel.Spec.Expected VaxisModel.Lemmas.RenderLink
open VaxisModel.Lemmas.RenderDisplay (penDelta_split lpField_eq)

/-- **No OSC 8 the pen delta writes carries a `;` in its parameter field**, whatever the
    application put into `HyperlinkParams` (bytes of the hex string; 59 = `;`). -/
theorem osc8_params_no_semicolon (caps : Caps) (pen next : Style) (p u : String)
    (h : Tok.osc8 p u ∈ penDelta caps pen next) : 59 ∉ hexDec p ∧ u = next.link := by
  obtain ⟨sg, hsg, he⟩ := penDelta_split caps pen next
  rw [he] at h
  rcases List.mem_append.mp h with h | h
  · obtain ⟨ps, hps⟩ := hsg _ h; cases hps
  · split at h
    · simp only [List.mem_singleton] at h
      injection h with h1 h2
      subst h1 h2
      exact ⟨lpField_no_semicolon _, rfl⟩
    · simp at h

/-- The model's field (transcribed from `render()`) is the one the spec derives from the OSC 8 syntax. -/
theorem model_field_is_spec_field (s : String) : lpField s = paramField s := lpField_eq s

/-- Nothing is lost for a parameter string without `;`: the terminal is shown the whole string. -/
theorem valid_params_shown_whole (s : String) (h : 59 ∉ hexDec s) : paramField s = s := by
  rw [← lpField_eq]; exact lpField_id s h

/-- The F112b input: params `a;b`, URL `h`.  Before the repair the token was `osc8 "613b62" "68"`
    (Witness/F112b: the emulator stores URL `b;h`); now the field is `a`. -/
example : penDelta {} {} { link := "68", linkParams := "613b62" } = [Tok.osc8 "61" "68"] := by decide

end VaxisModel.Props.C01Link
