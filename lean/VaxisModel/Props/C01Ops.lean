/-
C01 — the op-level stream (`Driver/C01Ops.lean`, `harness/cmd/C01Ops`) runs the functions the
app-level theorems are about.

* `stream_draw_is_sysStep`, `stream_frame_is_sysStep`, `stream_resize_is_sysStep` — on a `d` line
  the driver's model state moves exactly as `Lemmas.AppSys.sysStep … (.draw d)` moves it, on
  `render` / `refresh` / `resize` exactly as the corresponding `sysStep` (buffers, flags and the
  tokens fed to the terminal): so `Props.C01App.app_history_displays` is a statement about the
  very runs the correspondence stream compares with the real code, token for token.
* `oracle_screen_is_model_screen` — the reference screen the stream's oracle judges the REAL bytes
  against (fold of the `Spec.Window` writes, computed by the driver without the window model's
  `put`) is, cell for cell, the model's next-frame buffer: the oracle demands of the implementation
  exactly what `app_history_displays` proves of the model.
-/
import VaxisModel.Props.C01App
import VaxisModel.Driver.C01Ops

namespace VaxisModel.Props.C01Ops
open VaxisModel.Model.Window VaxisModel.Model.Render VaxisModel.Model.App VaxisModel.Spec.Display
open VaxisModel.Lemmas.AppSys VaxisModel.Lemmas.App VaxisModel.Lemmas.AppSpec VaxisModel.Driver.C01Ops

/-- The run context of a driver state: tables → `Interp` / `Lib` / `characterWidth`. -/
def ctxOf (s : St) : Ctx :=
  { cw := VaxisModel.Driver.C01.cwOf s.dict, caps := s.caps, I := s.interp, lib := s.lib, rm := s.rm }

theorem stream_draw_is_sysStep (s : St) (t : Term) (d : DrawOp) :
    (sysStep (ctxOf s) ⟨s.v, t⟩ (.draw d)).v = draw s.lib s.rm s.v d ∧
    (sysStep (ctxOf s) ⟨s.v, t⟩ (.draw d)).t = t := ⟨rfl, rfl⟩

theorem stream_frame_is_sysStep (s : St) (t : Term) :
    sysStep (ctxOf s) ⟨s.v, t⟩ .render =
      ⟨(endFrame (ctxOf s).cw s.caps s.interp s.v .render).1,
       run (ctxOf s).cw t (endFrame (ctxOf s).cw s.caps s.interp s.v .render).2⟩ ∧
    sysStep (ctxOf s) ⟨s.v, t⟩ .refresh =
      ⟨(endFrame (ctxOf s).cw s.caps s.interp s.v .refresh).1,
       run (ctxOf s).cw t (endFrame (ctxOf s).cw s.caps s.interp s.v .refresh).2⟩ := ⟨rfl, rfl⟩

theorem stream_resize_is_sysStep (s : St) (t : Term) (cols rows : Nat) (g : List (List DCell)) :
    (sysStep (ctxOf s) ⟨s.v, t⟩ (.resize cols rows g)).v =
      (endFrame (ctxOf s).cw s.caps s.interp s.v (.resize cols rows)).1 := rfl

/-- One cell of the oracle's reference screen after a drawing call (`specDraw` computes this fold
    for every cell of the screen, on a screen value that only carries the dimensions). -/
def oracleCell (s : St) (d : DrawOp) (x y : Int) (c0 : VaxisModel.Model.Window.Cell) : VaxisModel.Model.Window.Cell :=
  foldHits { cols := s.v.scr.cols, rows := s.v.scr.rows, buf := [] } x y c0 (specWrites s.lib s.rm d)

/-- **The oracle's reference screen is the model's buffer**: if a cell of the model's next-frame
    buffer holds `c0` before a drawing call, afterwards it holds the fold of the `Spec.Window`
    writes of that call that hit it — what the driver's oracle computes. -/
theorem oracle_screen_is_model_screen (s : St) (d : DrawOp) (x y : Int) (c0 : VaxisModel.Model.Window.Cell)
    (h : s.v.scr.get x y = some c0) :
    (draw s.lib s.rm s.v d).scr.get x y = some (oracleCell s d x y c0) := by
  have := draws_read s.lib s.rm s.v [d] x y
  simp only [runDraws, List.foldl_cons, List.foldl_nil, List.flatMap_cons, List.flatMap_nil, List.append_nil] at this
  rw [this, h]
  simp only [Option.map_some, oracleCell]
  rw [foldHits_congr s.v.scr { cols := s.v.scr.cols, rows := s.v.scr.rows, buf := [] } rfl rfl x y _ c0]

/-- `specDraw` is that fold at every position (definitional unfolding, stated for one row/column). -/
example (s : St) (d : DrawOp) :
    specDraw s d = (List.range s.spec.length).zipWith (fun (y : Nat) row =>
      (List.range row.length).zipWith (fun (x : Nat) c => oracleCell s d (Int.ofNat x) (Int.ofNat y) c) row) s.spec := rfl

end VaxisModel.Props.C01Ops
