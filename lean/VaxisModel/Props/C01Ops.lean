/-
C01 — the op-level stream (`Driver/C01Ops.lean`, `harness/cmd/C01Ops`) runs the functions the
app-level theorems are about.

* `stream_draw_is_sysStep`, `stream_frame_is_sysStep`, `stream_resize_is_sysStep` — on a `d` line
  the driver's model state moves exactly as `Lemmas.AppSys.sysStep … (.draw d)` moves it, on
  `render` / `refresh` / `resize` exactly as the corresponding `sysStep` (buffers, flags and the
  tokens fed to the terminal): so `Props.C01App.app_history_displays` is a statement about the
  very runs the correspondence stream compares with the real code, token for token.
* `oracle_screen_is_model_screen` — the reference screen the stream's oracle judges the REAL bytes
  against (fold of the `Spec.Window` writes, computed by the driver without the window model's
  `put`) is, cell for cell, the model's next-frame buffer: the oracle demands of the implementation
  exactly what `app_history_displays` proves of the model.
-/
import VaxisModel.Props.C01App
import VaxisModel.Driver.C01Ops

namespace VaxisModel.Props.C01Ops
open VaxisModel.Model.Window VaxisModel.Model.Render VaxisModel.Model.App VaxisModel.Spec.Display
open VaxisModel.Lemmas.AppSys VaxisModel.Lemmas.App VaxisModel.Lemmas.AppSpec VaxisModel.Driver.C01Ops

/-- The run context of a driver state: tables → `Interp` / `Lib` / `characterWidth`. -/
def ctxOf (s : St) : Ctx :=
  { cw := VaxisModel.Driver.C01.cwOf s.dict, caps := s.caps, I := s.interp, lib := s.lib, rm := s.rm }

theorem stream_draw_is_sysStep (s : St) (t : Term) (d : DrawOp) :
    (sysStep (ctxOf s) ⟨s.v, t⟩ (.draw d)).v = draw s.lib s.rm s.v d ∧
    (sysStep (ctxOf s) ⟨s.v, t⟩ (.draw d)).t = t := ⟨rfl, rfl⟩

theorem stream_frame_is_sysStep (s : St) (t : Term) :
    sysStep (ctxOf s) ⟨s.v, t⟩ .render =
      ⟨(endFrame (ctxOf s).cw s.caps s.interp s.v .render).1,
       run (ctxOf s).cw t (endFrame (ctxOf s).cw s.caps s.interp s.v .render).2⟩ ∧
    sysStep (ctxOf s) ⟨s.v, t⟩ .refresh =
      ⟨(endFrame (ctxOf s).cw s.caps s.interp s.v .refresh).1,
       run (ctxOf s).cw t (endFrame (ctxOf s).cw s.caps s.interp s.v .refresh).2⟩ := ⟨rfl, rfl⟩

theorem stream_resize_is_sysStep (s : St) (t : Term) (cols rows : Nat) (g : List (List DCell)) :
    (sysStep (ctxOf s) ⟨s.v, t⟩ (.resize cols rows g)).v =
      (endFrame (ctxOf s).cw s.caps s.interp s.v (.resize cols rows)).1 := rfl

/-- One cell of the oracle's reference screen after a drawing call (`specDraw` computes this fold
    for every cell of the screen, on a screen value that only carries the dimensions). -/
def oracleCell (s : St) (d : DrawOp) (x y : Int) (c0 : VaxisModel.Model.Window.Cell) : VaxisModel.Model.Window.Cell :=
  foldHits { cols := s.v.scr.cols, rows := s.v.scr.rows, buf := [] } x y c0 (specWrites s.lib s.rm d)

/-- **The oracle's reference screen is the model's buffer**: if a cell of the model's next-frame
    buffer holds `c0` before a drawing call, afterwards it holds the fold of the `Spec.Window`
    writes of that call that hit it — what the driver's oracle computes. -/
theorem oracle_screen_is_model_screen (s : St) (d : DrawOp) (x y : Int) (c0 : VaxisModel.Model.Window.Cell)
    (h : s.v.scr.get x y = some c0) :
    (draw s.lib s.rm s.v d).scr.get x y = some (oracleCell s d x y c0) := by
  have := draws_read s.lib s.rm s.v [d] x y
  simp only [runDraws, List.foldl_cons, List.foldl_nil, List.flatMap_cons, List.flatMap_nil, List.append_nil] at this
  rw [this, h]
  simp only [Option.map_some, oracleCell]
  rw [foldHits_congr s.v.scr { cols := s.v.scr.cols, rows := s.v.scr.rows, buf := [] } rfl rfl x y _ c0]

/-- `specDraw` is that fold at every position (definitional unfolding, stated for one row/column). -/
example (s : St) (d : DrawOp) :
    specDraw s d = (List.range s.spec.length).zipWith (fun (y : Nat) row =>
      (List.range row.length).zipWith (fun (x : Nat) c => oracleCell s d (Int.ofNat x) (Int.ofNat y) c) row) s.spec := rfl

end VaxisModel.Props.C01Ops

namespace VaxisModel.Props.C01Ops
open VaxisModel.Model.Window VaxisModel.Model.Render VaxisModel.Model.App VaxisModel.Spec.Display
open VaxisModel.Lemmas.AppSys VaxisModel.Lemmas.App VaxisModel.Lemmas.AppSpec VaxisModel.Driver.C01Ops
open VaxisModel.Lemmas.Window

theorem buf_get (s : Screen) (x y : Nat) :
    s.get (x : Int) (y : Int) = (s.buf[y]?).bind (·[x]?) := by
  have hneg : ¬ ((x : Int) < 0 ∨ (y : Int) < 0) := by omega
  simp only [Screen.get, hneg, if_false, Int.toNat_natCast]
  cases s.buf[y]? <;> simp

theorem draw_wf (lib : Lib) (rm : Bool) (v : Vx) (d : DrawOp) (h : v.scr.WF) : (draw lib rm v d).scr.WF ∧
    (draw lib rm v d).scr.cols = v.scr.cols ∧ (draw lib rm v d).scr.rows = v.scr.rows := by
  have hs := runDraws_scr lib rm [d] v
  simp only [runDraws, List.foldl_cons, List.foldl_nil, List.flatMap_cons, List.flatMap_nil, List.append_nil] at hs
  rw [hs]
  exact ⟨applyPuts_wf _ _ h, (applyPuts_dims _ _).1, (applyPuts_dims _ _).2⟩

/-- **The oracle's reference screen is the model's buffer, as lists**: if the driver's `spec` equals the
    model's next-frame buffer (well formed) before a `d` line, it does afterwards.  Both start as
    `resize`d buffers on `size` / `resize` lines, so along every run of the stream the screen the
    real bytes are judged against is the screen `app_history_displays` is about. -/
theorem oracle_screen_tracks_model (s : St) (d : DrawOp) (hwf : s.v.scr.WF) (heq : s.spec = s.v.scr.buf) :
    specDraw s d = (draw s.lib s.rm s.v d).scr.buf := by
  obtain ⟨hwf', hc', hr'⟩ := draw_wf s.lib s.rm s.v d hwf
  obtain ⟨hc0, hr0, hlen, hrows⟩ := hwf
  obtain ⟨_, _, hlen', hrows'⟩ := hwf'
  apply List.ext_getElem?
  intro y
  simp only [specDraw, heq]
  rw [VaxisModel.Lemmas.RenderRow.getElem?_zipRange]
  by_cases hy : y < s.v.scr.buf.length
  · have hy' : y < (draw s.lib s.rm s.v d).scr.buf.length := by rw [hlen', hr', ← hlen]; exact hy
    rw [List.getElem?_eq_getElem hy', List.getElem?_eq_getElem hy]
    simp only [Option.map_some, Option.some.injEq]
    have hrow : (s.v.scr.buf[y]).length = s.v.scr.cols.toNat := hrows _ (List.getElem_mem hy)
    have hrow' : ((draw s.lib s.rm s.v d).scr.buf[y]).length = s.v.scr.cols.toNat := by
      rw [hrows' _ (List.getElem_mem hy'), hc']
    apply List.ext_getElem?
    intro x
    rw [VaxisModel.Lemmas.RenderRow.getElem?_zipRange]
    by_cases hx : x < s.v.scr.cols.toNat
    · have hx0 : x < (s.v.scr.buf[y]).length := by omega
      rw [List.getElem?_eq_getElem hx0]
      simp only [Option.map_some]
      have hget : s.v.scr.get (x : Int) (y : Int) = some (s.v.scr.buf[y][x]) := by
        rw [buf_get, List.getElem?_eq_getElem hy]; simp [List.getElem?_eq_getElem hx0]
      have := oracle_screen_is_model_screen s d (x : Int) (y : Int) _ hget
      rw [buf_get, List.getElem?_eq_getElem hy'] at this
      simp only [Option.bind_some] at this
      rw [this]
      rfl
    · have h1 : (s.v.scr.buf[y]).length ≤ x := by omega
      have h2 : ((draw s.lib s.rm s.v d).scr.buf[y]).length ≤ x := by omega
      rw [List.getElem?_eq_none h1, List.getElem?_eq_none h2]; rfl
  · have hy1 : s.v.scr.buf.length ≤ y := by omega
    have hy2 : (draw s.lib s.rm s.v d).scr.buf.length ≤ y := by rw [hlen', hr', ← hlen]; exact hy1
    rw [List.getElem?_eq_none hy1, List.getElem?_eq_none hy2]; rfl

end VaxisModel.Props.C01Ops
