/-
C01 (tie to sequences.go): every escape string the renderer and the writer use, as regenerated
from the source on every run (`Gen/Sequences.lean`, extractor C18), formats and lexes to exactly
the token the render model (`Model/Render.lean`) emits at that point.  `fmt.Sprintf` is
`Model.Lifecycle.sprintf` (verbs %d and %s) and the lexer is `Spec.Tokenize` — so an edit of any
of these strings in sequences.go makes the corresponding theorem fail to compile.
Parametric strings are checked on every value of their small domains (colour indices 0..7 / 8..15,
underline styles 0..5, cursor styles 0..6) and on boundary samples of the unbounded ones.
-/
import VaxisModel.Gen.Sequences
import VaxisModel.Model.Lifecycle

namespace VaxisModel.Props.C01Seq
open VaxisModel.Model.Render VaxisModel.Model.Lifecycle
open VaxisModel.Gen.Sequences

/-- `tparm(fmt, args…)` then the lexer. -/
def fmtToks (f : String) (args : List Nat) : List Tok :=
  toksOf (String.ofList (sprintf f.toList (args.map toString)))

def fmtToksS (f : String) (args : List String) : List Tok :=
  toksOf (String.ofList (sprintf f.toList args))

/-- The attribute on/off strings are the single-parameter SGR codes the model emits. -/
theorem attr_strings :
    [boldSet, dimSet, italicSet, underlineSet, blinkSet, reverseSet, hiddenSet, strikethroughSet,
     boldDimReset, italicReset, underlineReset, blinkReset, reverseReset, hiddenReset, strikethroughReset,
     fgReset, bgReset, ulColorReset].map toksOf
    = [1, 2, 3, 4, 5, 7, 8, 9, 22, 23, 24, 25, 27, 28, 29, 39, 49, 59].map (fun n => [Tok.sgr [[n]]]) := by
  decide +kernel

theorem sgr_reset_string : toksOf sgrReset = [Tok.sgr []] := by decide +kernel

/-- Basic and bright colours: `3x`/`4x`/`9x`/`10x` for x = 0..7, as `colorToksP` emits them. -/
theorem basic_colour_strings :
    ∀ i < 8, fmtToks fgSet [i] = [Tok.sgr [[30 + i]]] ∧ fmtToks bgSet [i] = [Tok.sgr [[40 + i]]] ∧
             fmtToks fgBrightSet [i] = [Tok.sgr [[30 + 60 + i]]] ∧ fmtToks bgBrightSet [i] = [Tok.sgr [[40 + 60 + i]]] := by
  decide +kernel

/-- 256-colour and direct-colour strings (colon sub-parameters), on boundary samples. -/
theorem extended_colour_strings :
    ∀ i ∈ [0, 9, 16, 99, 100, 255],
      fmtToks fgIndexSet [i] = [Tok.sgr [[38, 5, i]]] ∧ fmtToks bgIndexSet [i] = [Tok.sgr [[48, 5, i]]] ∧
      fmtToks ulIndexSet [i] = [Tok.sgr [[58, 5, i]]] ∧
      fmtToks fgRGBSet [i, 255 - i, 7] = [Tok.sgr [[38, 2, i, 255 - i, 7]]] ∧
      fmtToks bgRGBSet [i, 255 - i, 7] = [Tok.sgr [[48, 2, i, 255 - i, 7]]] ∧
      fmtToks ulRGBSet [i, 255 - i, 7] = [Tok.sgr [[58, 2, i, 255 - i, 7]]] := by
  decide +kernel

theorem underline_style_string : ∀ n < 6, fmtToks ulStyleSet [n] = [Tok.sgr [[4, n]]] := by decide +kernel

theorem cursor_style_string : ∀ n < 7, fmtToks cursorStyleSet [n] = [Tok.cursorStyle n] := by decide +kernel

/-- Cursor addressing, on boundary samples of rows and columns. -/
theorem cup_string :
    ∀ r ∈ [1, 2, 9, 10, 99, 100, 1000], ∀ c ∈ [1, 2, 9, 10, 99, 100, 1000],
      fmtToks cup [r, c] = [Tok.cup r c] := by
  decide +kernel

/-- Hyperlink open/close and explicit-width text. -/
theorem osc_strings :
    fmtToksS osc8 ["", ""] = [Tok.osc8 "" ""] ∧
    fmtToksS osc8 ["id=1", "http://a"] = [Tok.osc8 "69643d31" "687474703a2f2f61"] ∧
    fmtToksS explicitWidth ["2", "世"] = [Tok.textW 2 "e4b896"] ∧
    fmtToksS mouseShape ["text"] = [Tok.pointer "74657874"] := by
  decide +kernel

/-- The mode numbers the writer and `showCursor` use. -/
theorem mode_numbers : cursorVisibility = 25 ∧ synchronizedUpdate = 2026 := by decide

end VaxisModel.Props.C01Seq
