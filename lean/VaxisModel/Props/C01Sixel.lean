/-
C01 — the cell-level part of graphics in `render()`: cells flagged `sixel` (what `Sixel.Draw` puts
under an image) in the renderer as it is now (`Model.RenderSixel`, F02 and F113 repaired).

* `render_current_is_clip` / `frame_displays_current` — on a screen without image cells the current
  renderer is `renderFrameC`, so the display theorem holds of the code as it is.
* `sixel_cell_not_drawn` — an image cell is never drawn by the cell loop: no token, `last` records
  it, the next written cell is re-addressed, and the `dirty` range is extended by the glyph the cell
  used to hold (the F113 repair: that glyph's other columns are rewritten).
* `dropped_image_rewritten` — "the re-render after an image is dropped": a cell that was under an
  image in the previous frame is written in this frame whatever it holds (even if the application
  set it to exactly what it held before the image) — diff frame or refresh.
The placement loop itself (delete / transmit, `samePlacement`) is C20's (`Model/Placements.lean`).
-/
import VaxisModel.Props.C01Clip
import VaxisModel.Lemmas.RenderSixel
import VaxisModel.Lemmas.RenderImagesFrame

namespace VaxisModel.Props.C01Sixel
open VaxisModel.Model.Render VaxisModel.Spec VaxisModel.Spec.Display
open VaxisModel.Props.C01 VaxisModel.Props.C01Display VaxisModel.Lemmas.RenderDisplay VaxisModel.Lemmas.RenderClip
open VaxisModel.Lemmas.RenderSixel

/-- Without image cells the current renderer is the renderer of `Props.C01Clip`. -/
theorem render_current_is_clip (cw : String → Nat) (f : Frame) (h : ∀ r ∈ f.next, ∀ c ∈ r, c.sixel = false) :
    renderFrameS cw f = renderFrameC cw f := renderFrameS_eq cw f h

/-- **The display clause for the code as it is** (`C01Clip.frame_displays` over `renderFrameS`). -/
theorem frame_displays_current (cw : String → Nat) (f : Frame) (t : Term)
    (hrest : Rest t) (hbad : t.bad = none)
    (hlen : t.grid.length = f.next.length) (hlast : f.last.length = f.next.length)
    (hgc : ∀ r ∈ t.grid, r.length = t.cols) (hnc : ∀ r ∈ f.next, r.length = t.cols)
    (hlc : ∀ r ∈ f.last, r.length = t.cols) (hrows : t.rows = f.next.length)
    (hcells : ∀ r ∈ f.next, ∀ c ∈ r, c.sixel = false ∧ 0 ≤ c.w ∧ WidthOk cw f.caps c)
    (hagree : f.refresh = false → Agree cw f.caps t f.last)
    (hsp : cw "20" = 1)
    (hwf : f.refresh = true → ∀ r ∈ t.grid, WFRow 0 r)
    (hcur : f.cursorNext.visible = true →
      (0 ≤ f.cursorNext.row ∧ f.cursorNext.row < t.rows) ∧ (0 ≤ f.cursorNext.col ∧ f.cursorNext.col < t.cols))
    (hlp : t.linkParams = "") :
    (run cw t (renderFrameS cw f).2).bad = none ∧
    (run cw t (renderFrameS cw f).2).grid = Expected.expectedC cw f.caps f.next ∧
    Agree cw f.caps (run cw t (renderFrameS cw f).2) (renderFrameS cw f).1 := by
  rw [renderFrameS_eq cw f (fun r hr c hc => (hcells r hr c hc).1)]
  exact VaxisModel.Props.C01Clip.frame_displays cw f t hrest hbad hlen hlast hgc hnc hlc hrows hcells hagree hsp hwf hcur hlp

/-- An image cell is not drawn: the output is untouched by it, `last` records the image cell, the
    next write re-addresses the cursor, and the cells the previously held glyph covered become dirty. -/
theorem sixel_cell_not_drawn (cw : String → Nat) (caps : Caps) (refresh : Bool) (row col : Nat) (track : Bool)
    (dirty : Nat) (n l : Cell) (ns ls : List Cell) (st : RSt) (h : n.sixel = true) :
    renderCellsS cw caps refresh row col 0 track dirty (n :: ns) (l :: ls) st =
      (n :: (renderCellsS cw caps refresh row (col + 1) 0 false
              (if col + advance cw l + 1 > dirty then col + advance cw l + 1 else dirty) ns ls { st with reposition := true }).1,
       (renderCellsS cw caps refresh row (col + 1) 0 false
              (if col + advance cw l + 1 > dirty then col + advance cw l + 1 else dirty) ns ls { st with reposition := true }).2) := by
  simp only [renderCellsS, h, if_true]

/-- **The re-render after an image is dropped**: a cell that was under an image (`l.sixel`) and is
    not any more is written — CUP if needed, pen delta, glyph — whatever it holds, refresh or not. -/
theorem dropped_image_rewritten (cw : String → Nat) (caps : Caps) (refresh : Bool) (row col : Nat) (track : Bool)
    (dirty : Nat) (n0 l : Cell) (ns ls : List Cell) (st : RSt) (hl : l.sixel = true) (hn : n0.sixel = false) :
    let n := clipCell cw (ns.length + 1) n0
    let st' : RSt := { reposition := false, pen := n.style, out := st.out ++ cellToks cw caps st row col n }
    let dirty' := if col + advance cw l + 1 > dirty then col + advance cw l + 1 else dirty
    renderCellsS cw caps refresh row col 0 track dirty (n0 :: ns) (l :: ls) st =
      (n :: (renderCellsS cw caps refresh row (col + 1) (advance cw n) true dirty' ns ls st').1,
       (renderCellsS cw caps refresh row (col + 1) (advance cw n) true dirty' ns ls st').2) := by
  intro n st' dirty'
  have hne : ¬ (n = l ∧ ¬ refresh ∧ col ≥ dirty) := by
    intro h
    have : n.sixel = l.sixel := by rw [h.1]
    rw [clipCell_sixel, hn, hl] at this
    cases this
  simp only [renderCellsS, hn, Bool.false_eq_true, if_false]
  rw [if_neg hne]
  rfl

/-! ### F113 (repaired, /repo 631e12a): the witness -/

def cwEx : String → Nat := fun g => if g = "f09f94a5" then 2 else if g = "" then 0 else 1
/-- Frame 1: a wide glyph at column 0 of a 2×1 screen (column 1 never written). -/
def frameA : Frame :=
  { caps := {}, refresh := true, next := [[({ g := "f09f94a5" } : Cell), {}]], last := [[({} : Cell), {}]],
    cursorNext := {}, cursorLast := {} }
/-- Frame 2: an image cell comes over column 0 (column 1 still never written). -/
def frameB (last : Grid) : Frame :=
  { caps := {}, refresh := false, next := [[({ sixel := true } : Cell), {}]], last := last,
    cursorNext := {}, cursorLast := {} }

/-- Before the repair (`renderFrameC` has the old sixel branch) the right half of the wide glyph
    stayed on the terminal in column 1 beside the image … -/
theorem F113_before :
    let t1 := run cwEx (Term.init 2 1) (renderFrameC cwEx frameA).2
    ((run cwEx t1 (renderFrameC cwEx (frameB (renderFrameC cwEx frameA).1)).2).grid.map (·[1]?)) = [some DCell.cont] := by
  decide

/-- … now column 1 is rewritten and shows the never-written cell as a blank. -/
theorem F113_after :
    let t1 := run cwEx (Term.init 2 1) (renderFrameS cwEx frameA).2
    ((run cwEx t1 (renderFrameS cwEx (frameB (renderFrameS cwEx frameA).1)).2).grid.map (·[1]?)) = [some DCell.blank] ∧
    (run cwEx t1 (renderFrameS cwEx (frameB (renderFrameS cwEx frameA).1)).2).bad = none := by
  decide

/-! ### Screens WITH image cells: the full statement (open) and what is proved

A cell flagged `sixel` lies under an image: the cell loop does not draw it and what the terminal
shows there is painted by the image bytes, which this renderer model does not have — "unknown
pixels".  The display clause for such screens can therefore only speak about the other positions.
`frame_displays_images_full` is that statement (it is what the correspondence oracle evaluates on
the real bytes for every frame with image cells: `Driver.C01.sixelDontCare`).  Round 4: PROVED
(`frame_displays_images`, `frame_displays_images_full_holds`) once the statement says what an image
cell is (`ImageCellsAsPlaced`; without it the statement is false, `images_need_placed_cells`). -/

/-- "Unknown pixels": the positions of image cells that are not covered by a wide glyph to their
    left (a covered one is expected to show that glyph's continuation, as everywhere). -/
def unknownPixels (cw : String → Nat) (caps : Caps) (next : Grid) (r c : Nat) : Bool :=
  match next[r]? with
  | some row =>
    (match row[c]? with | some cell => cell.sixel | none => false) &&
    (match (Expected.expectedRowC cw caps 0 row)[c]? with | some DCell.cont => false | _ => true)
  | none => false

/-- The terminal shows the application's screen wherever the pixels are not the image's. -/
def ShowsOutsideImages (cw : String → Nat) (caps : Caps) (next : Grid) (grid : List (List DCell)) : Prop :=
  ∀ r c, unknownPixels cw caps next r c = false →
    (grid[r]?.bind (·[c]?)) = ((Expected.expectedC cw caps next)[r]?.bind (·[c]?))

instance (cw : String → Nat) (caps : Caps) (next : Grid) (grid : List (List DCell)) (R C : Nat) :
    Decidable (∀ r, r < R → ∀ c, c < C → unknownPixels cw caps next r c = false →
      (grid[r]?.bind (·[c]?)) = ((Expected.expectedC cw caps next)[r]?.bind (·[c]?))) := by
  infer_instance

/-- Image cells are what `Sixel.Draw` places (`Cell{sixel: true}`, possibly restyled by `SetStyle`):
    no grapheme of width > 1 in them.  The loop does not skip anything after an image cell, so a
    *wide* image cell — which no call of the API can produce, the flag is unexported — would be
    expected to shadow its right neighbour while the loop draws that neighbour
    (`images_need_placed_cells`). -/
def ImageCellsAsPlaced (cw : String → Nat) (next : Grid) : Prop :=
  ∀ r ∈ next, ∀ c ∈ r, c.sixel = true → advance cw c = 0

/-- **The display clause for screens with image cells — full statement** (proved below). -/
def frame_displays_images_full : Prop :=
  ∀ (cw : String → Nat) (f : Frame) (t : Term),
    ImageCellsAsPlaced cw f.next →
    Rest t → t.bad = none →
    t.grid.length = f.next.length → f.last.length = f.next.length →
    (∀ r ∈ t.grid, r.length = t.cols) → (∀ r ∈ f.next, r.length = t.cols) →
    (∀ r ∈ f.last, r.length = t.cols) → t.rows = f.next.length →
    (∀ r ∈ f.next, ∀ c ∈ r, 0 ≤ c.w ∧ WidthOk cw f.caps c) →
    (f.refresh = false → Agree cw f.caps t f.last) →
    cw "20" = 1 →
    (f.refresh = true → ∀ r ∈ t.grid, WFRow 0 r) →
    (f.cursorNext.visible = true →
      (0 ≤ f.cursorNext.row ∧ f.cursorNext.row < t.rows) ∧ (0 ≤ f.cursorNext.col ∧ f.cursorNext.col < t.cols)) →
    t.linkParams = "" →
    (run cw t (renderFrameS cw f).2).bad = none ∧
    ShowsOutsideImages cw f.caps f.next (run cw t (renderFrameS cw f).2).grid

/-- The statement without `ImageCellsAsPlaced` (as it was written down in round 3). -/
def frame_displays_images_unrestricted : Prop :=
  ∀ (cw : String → Nat) (f : Frame) (t : Term),
    Rest t → t.bad = none →
    t.grid.length = f.next.length → f.last.length = f.next.length →
    (∀ r ∈ t.grid, r.length = t.cols) → (∀ r ∈ f.next, r.length = t.cols) →
    (∀ r ∈ f.last, r.length = t.cols) → t.rows = f.next.length →
    (∀ r ∈ f.next, ∀ c ∈ r, 0 ≤ c.w ∧ WidthOk cw f.caps c) →
    (f.refresh = false → Agree cw f.caps t f.last) →
    cw "20" = 1 →
    (f.refresh = true → ∀ r ∈ t.grid, WFRow 0 r) →
    (f.cursorNext.visible = true →
      (0 ≤ f.cursorNext.row ∧ f.cursorNext.row < t.rows) ∧ (0 ≤ f.cursorNext.col ∧ f.cursorNext.col < t.cols)) →
    t.linkParams = "" →
    (run cw t (renderFrameS cw f).2).bad = none ∧
    ShowsOutsideImages cw f.caps f.next (run cw t (renderFrameS cw f).2).grid

/-- A model cell with the image flag AND a wide grapheme (2×1: such a cell, then `a`). -/
def frameWideImage : Frame :=
  { caps := {}, refresh := true, next := [[({ g := "f09f94a5", sixel := true } : Cell), { g := "61" }]],
    last := [[({} : Cell), {}]], cursorNext := {}, cursorLast := {} }

/-- **`ImageCellsAsPlaced` is necessary**: the unrestricted statement is false of the model — the
    wide image cell is expected to shadow column 1 (`cont`, not "unknown pixels"), the loop draws `a` there. -/
theorem images_need_placed_cells : ¬ frame_displays_images_unrestricted := by
  intro h
  have := (h cwEx frameWideImage (Term.init 2 1) ⟨by decide, by decide, by decide⟩ (by decide) (by decide) (by decide)
    (by decide) (by decide) (by decide) (by decide)
    (by intro r hr c hc
        simp only [frameWideImage, List.mem_singleton] at hr; subst hr
        simp only [List.mem_cons, List.not_mem_nil, or_false] at hc
        rcases hc with rfl | rfl <;> exact ⟨by decide, Or.inl rfl⟩)
    (fun h => absurd h (by decide)) (by decide)
    (fun _ => VaxisModel.Props.C01Display.init_wf 2 1) (fun h => absurd h (by decide)) (by decide)).2 0 1 (by decide)
  revert this
  decide

/-- **The display clause for screens with image cells** — every capability set, width oracle, grid,
    diff frame or refresh, any number of image cells anywhere (also over wide glyphs the terminal still
    shows — the F113 situation — and over their continuation columns): nothing terminal-specific is
    relied on and the terminal shows the application's screen at every position that is not "unknown
    pixels".  Proof: `Lemmas/RenderImages` (the row invariant of the display proof with a don't-care
    mask at image positions and the "stale" state for a glyph whose head is hidden under an image). -/
theorem frame_displays_images (cw : String → Nat) (f : Frame) (t : Term)
    (himg : ImageCellsAsPlaced cw f.next)
    (hrest : Rest t) (hbad : t.bad = none)
    (hlen : t.grid.length = f.next.length) (hlast : f.last.length = f.next.length)
    (hgc : ∀ r ∈ t.grid, r.length = t.cols) (hnc : ∀ r ∈ f.next, r.length = t.cols)
    (hlc : ∀ r ∈ f.last, r.length = t.cols) (hrows : t.rows = f.next.length)
    (hcells : ∀ r ∈ f.next, ∀ c ∈ r, 0 ≤ c.w ∧ WidthOk cw f.caps c)
    (hagree : f.refresh = false → Agree cw f.caps t f.last)
    (hsp : cw "20" = 1)
    (hwf : f.refresh = true → ∀ r ∈ t.grid, WFRow 0 r)
    (hcur : f.cursorNext.visible = true →
      (0 ≤ f.cursorNext.row ∧ f.cursorNext.row < t.rows) ∧ (0 ≤ f.cursorNext.col ∧ f.cursorNext.col < t.cols))
    (hlp : t.linkParams = "") :
    (run cw t (renderFrameS cw f).2).bad = none ∧
    ShowsOutsideImages cw f.caps f.next (run cw t (renderFrameS cw f).2).grid := by
  obtain ⟨pre, X, Y, hpre, _, h2, hX, hY, _⟩ := VaxisModel.Lemmas.RenderImages.frame_shapeS cw f t.rows t.cols hcur
  have hok := VaxisModel.Lemmas.RenderImages.rowsOkM_of cw f.caps f.refresh t.cols t.grid f.last f.next
    (by rw [hlen, hlast]) hlast hgc hlc hagree hwf
  obtain ⟨c1, c2⟩ := VaxisModel.Lemmas.RenderImages.frame_coreS cw hsp f t X Y pre hX hY hpre hrest.1 hrest.2.1 hlp hbad
    hlast hnc hlc hrows hcells hok
  rw [h2]
  refine ⟨c1, ?_⟩
  intro r c hu
  exact VaxisModel.Lemmas.RenderImages.maskedRows_shows cw f.caps f.next _ c2 himg r c hu

/-- **`frame_displays_images_full` holds.** -/
theorem frame_displays_images_full_holds : frame_displays_images_full :=
  fun cw f t himg hrest hbad hlen hlast hgc hnc hlc hrows hcells hagree hsp hwf hcur hlp =>
    frame_displays_images cw f t himg hrest hbad hlen hlast hgc hnc hlc hrows hcells hagree hsp hwf hcur hlp

/-- Non-vacuity: a refresh of `a`, an image cell, a wide glyph and a never-written cell on a blank
    4×1 terminal meets every hypothesis of `frame_displays_images`. -/
def frameImg : Frame :=
  { caps := {}, refresh := true, next := [[({ g := "61" } : Cell), { sixel := true }, { g := "f09f94a5" }, {}]],
    last := [[({} : Cell), {}, {}, {}]], cursorNext := {}, cursorLast := {} }

example : (run cwEx (Term.init 4 1) (renderFrameS cwEx frameImg).2).bad = none ∧
    ShowsOutsideImages cwEx {} frameImg.next (run cwEx (Term.init 4 1) (renderFrameS cwEx frameImg).2).grid := by
  refine frame_displays_images cwEx frameImg (Term.init 4 1) (by unfold ImageCellsAsPlaced; decide) ⟨by decide, by decide, by decide⟩ (by decide) (by decide)
    (by decide) (by decide) (by decide) (by decide) (by decide) ?_ (fun h => absurd h (by decide)) (by decide)
    (fun _ => VaxisModel.Props.C01Display.init_wf 4 1) (fun h => absurd h (by decide)) (by decide)
  intro r hr c hc
  simp only [frameImg, List.mem_singleton] at hr; subst hr
  simp only [List.mem_cons, List.not_mem_nil, or_false] at hc
  rcases hc with rfl | rfl | rfl | rfl <;> exact ⟨by decide, Or.inl rfl⟩

/-- The F113 frames as an instance of the theorem (an image cell over the HEAD of a wide glyph the
    terminal still shows — the "stale" path of the proof): every hypothesis is met. -/
example :
    let t1 := run cwEx (Term.init 2 1) (renderFrameS cwEx frameA).2
    let fB := frameB (renderFrameS cwEx frameA).1
    (run cwEx t1 (renderFrameS cwEx fB).2).bad = none ∧
    ShowsOutsideImages cwEx {} fB.next (run cwEx t1 (renderFrameS cwEx fB).2).grid := by
  intro t1 fB
  refine frame_displays_images cwEx fB t1 (by unfold ImageCellsAsPlaced; decide) ⟨by decide, by decide, by decide⟩ (by decide) (by decide)
    (by decide) (by decide) (by decide) (by decide) (by decide) ?_ (fun _ => by unfold Agree; decide) (by decide)
    (fun h => absurd h (by decide)) (fun h => absurd h (by decide)) (by decide)
  intro r hr c hc
  have hr' : r = [({ sixel := true } : Cell), {}] := by simpa [fB, frameB] using hr
  subst hr'
  simp only [List.mem_cons, List.not_mem_nil, or_false] at hc
  rcases hc with rfl | rfl <;> exact ⟨by decide, Or.inl rfl⟩

/-- The proved part: without image cells `ShowsOutsideImages` is `grid = expectedC` and holds. -/
theorem frame_displays_images_partial (cw : String → Nat) (f : Frame) (t : Term)
    (hrest : Rest t) (hbad : t.bad = none)
    (hlen : t.grid.length = f.next.length) (hlast : f.last.length = f.next.length)
    (hgc : ∀ r ∈ t.grid, r.length = t.cols) (hnc : ∀ r ∈ f.next, r.length = t.cols)
    (hlc : ∀ r ∈ f.last, r.length = t.cols) (hrows : t.rows = f.next.length)
    (hcells : ∀ r ∈ f.next, ∀ c ∈ r, c.sixel = false ∧ 0 ≤ c.w ∧ WidthOk cw f.caps c)
    (hagree : f.refresh = false → Agree cw f.caps t f.last)
    (hsp : cw "20" = 1)
    (hwf : f.refresh = true → ∀ r ∈ t.grid, WFRow 0 r)
    (hcur : f.cursorNext.visible = true →
      (0 ≤ f.cursorNext.row ∧ f.cursorNext.row < t.rows) ∧ (0 ≤ f.cursorNext.col ∧ f.cursorNext.col < t.cols))
    (hlp : t.linkParams = "") :
    (run cw t (renderFrameS cw f).2).bad = none ∧
    ShowsOutsideImages cw f.caps f.next (run cw t (renderFrameS cw f).2).grid := by
  obtain ⟨h1, h2, _⟩ := frame_displays_current cw f t hrest hbad hlen hlast hgc hnc hlc hrows hcells hagree hsp hwf hcur hlp
  exact ⟨h1, fun r c _ => by rw [h2]⟩

/-- Concrete instances of the full statement's conclusion with image cells (decide): the F113
    frames (a wide glyph, then an image cell over its left half), and an image cell between two
    glyphs on a refresh — the positions outside the image show the application's screen. -/
example :
    let t1 := run cwEx (Term.init 2 1) (renderFrameS cwEx frameA).2
    let fB := frameB (renderFrameS cwEx frameA).1
    let t2 := run cwEx t1 (renderFrameS cwEx fB).2
    t2.bad = none ∧ unknownPixels cwEx {} fB.next 0 0 = true ∧ unknownPixels cwEx {} fB.next 0 1 = false ∧
    (∀ r, r < 1 → ∀ c, c < 2 → unknownPixels cwEx {} fB.next r c = false →
      (t2.grid[r]?.bind (·[c]?)) = ((Expected.expectedC cwEx {} fB.next)[r]?.bind (·[c]?))) := by decide

example :
    let f : Frame := { caps := {}, refresh := true, next := [[({ g := "61" } : Cell), { sixel := true }, { g := "f09f94a5" }, {}]],
                       last := [[({} : Cell), {}, {}, {}]], cursorNext := {}, cursorLast := {} }
    let t := run cwEx (Term.init 4 1) (renderFrameS cwEx f).2
    t.bad = none ∧
    (∀ r, r < 1 → ∀ c, c < 4 → unknownPixels cwEx {} f.next r c = false →
      (t.grid[r]?.bind (·[c]?)) = ((Expected.expectedC cwEx {} f.next)[r]?.bind (·[c]?))) := by decide

end VaxisModel.Props.C01Sixel
