/-
C01 — the "at rest" and cursor clauses for the renderer as it is now (`renderFrameS`), for ALL frames:
image cells included.  (`Props.C01.flush_epilogue`, `flush_resets_pen`, `cursor_as_requested` are
stated over the round-1 loop; through `renderFrameS_eq` they reached the current code only for
screens without image cells.)  The proofs are those of `Props/C01.lean` over the shape of the body
the current cell loop writes (`Lemmas.RenderSixel.renderBodyS_shape`: pointer shape, cell tokens,
OSC 8 close, showCursor — an image cell contributes no token).

* `flush_epilogue_current` — every flush leaves the pen reset, any hyperlink closed and
  synchronized-update mode balanced;
* `flush_resets_pen_current` — a frame that writes anything resets the pen whatever it was;
* `cursor_as_requested_current` — the hardware cursor is exactly as last requested.
Only the grid clause of screens with image cells remains open (`Props.C01Sixel.frame_displays_images_full`).
-/
import VaxisModel.Props.C01
import VaxisModel.Lemmas.RenderSixel

namespace VaxisModel.Props.C01SixelRest
open VaxisModel.Model.Render VaxisModel.Spec VaxisModel.Spec.Display VaxisModel.Lemmas.RenderToks
open VaxisModel.Props.C01

private theorem show_link (c : CursorState) (l : String) : linkRun l (showCursorToks c) = l := by
  simp [showCursorToks, linkRun, linkStep]
private theorem show_pen (c : CursorState) (p : TStyle) : penRun p (showCursorToks c) = p := by
  simp [showCursorToks, penRun, penStep]
private theorem show_sync (c : CursorState) (n : Int) : syncRun n (showCursorToks c) = n := by
  simp [showCursorToks, syncRun, syncStep]

private theorem body_link (cw : String → Nat) (f : Frame) : linkRun "" (renderBodyS cw f).2 = "" := by
  obtain ⟨pre, extra, close, show_, hb, _, _, _, hl, hs⟩ := VaxisModel.Lemmas.RenderSixel.renderBodyS_shape cw f
  rw [hb, linkRun_append, hl, hs]
  split
  · exact show_link _ _
  · rfl

private theorem body_sync (cw : String → Nat) (f : Frame) (n : Int) : syncRun n (renderBodyS cw f).2 = n := by
  obtain ⟨pre, extra, close, show_, hb, hpre, hvoc, hclose, _, hs⟩ := VaxisModel.Lemmas.RenderSixel.renderBodyS_shape cw f
  have hq : ∀ k ∈ pre ++ extra ++ close, CellTok k ∨ Quiet k := by
    intro k hk
    simp only [List.mem_append] at hk
    rcases hk with (hk | hk) | hk
    · rcases hpre with h | ⟨s, h⟩ <;> subst h <;> simp at hk
      subst hk; exact Or.inr trivial
    · exact Or.inl (hvoc k hk)
    · rcases hclose with h | h <;> subst h <;> simp at hk
      subst hk; exact Or.inr trivial
  rw [hb, syncRun_append, (run_cellToks _ hq n true 0).1, hs]
  split
  · exact show_sync _ _
  · rfl

/-- **Every flush leaves the pen reset, any hyperlink closed and synchronized-update mode
    balanced** — as an invariant of the terminal between frames, for every frame. -/
theorem flush_epilogue_current (tw cw : String → Nat) (f : Frame) (t : Term) (h : Rest t) :
    Rest (run tw t (renderFrameS cw f).2) := by
  obtain ⟨hp, hl, hs⟩ := h
  obtain ⟨r1, r2, r3, _, _⟩ := run_fields tw (renderFrameS cw f).2 t
  unfold Rest
  rw [r1, r2, r3, hp, hl, hs]
  unfold renderFrameS flush
  have hbl := body_link cw f
  have hbs := body_sync cw f
  simp only
  split
  · -- cursor-only branch
    repeat' split
    all_goals simp [linkRun, linkStep, penRun, penStep, syncRun, syncStep, showCursorToks, TStyle.reset]
  · refine ⟨?_, ?_, ?_⟩
    · -- pen
      simp only [penRun_append]
      have : ∀ p, penRun p [Tok.sgr []] = TStyle.reset := by intro p; simp [penRun, penStep, sgr]
      rw [this]
      split <;> split <;> simp [penRun, penStep, showCursorToks]
    · -- link
      simp only [linkRun_append]
      have h1 : linkRun "" (if f.cursorLast.visible = true then [Tok.decrst 25] else []) = "" := by
        split <;> simp [linkRun, linkStep]
      have h2 : linkRun "" (if f.caps.sync = true then [Tok.decset 2026] else []) = "" := by
        split <;> simp [linkRun, linkStep]
      rw [h1, h2, hbl]
      split <;> split <;> simp [linkRun, linkStep, showCursorToks]
    · -- sync
      simp only [syncRun_append]
      have h1 : syncRun 0 (if f.cursorLast.visible = true then [Tok.decrst 25] else []) = 0 := by
        split <;> simp [syncRun, syncStep]
      rw [h1]
      by_cases hsy : f.caps.sync = true
      · simp only [hsy, if_true]
        have : syncRun 0 [Tok.decset 2026] = 1 := by simp [syncRun, syncStep]
        rw [this, hbs]
        split <;> simp [syncRun, syncStep, showCursorToks]
      · simp only [hsy]
        have : syncRun 0 ([] : List Tok) = 0 := rfl
        simp only [if_false, Bool.false_eq_true]
        rw [this, hbs]
        split <;> simp [syncRun, syncStep, showCursorToks]

/-- A frame that writes at least one cell (or any other buffered output) resets the pen whatever
    the terminal's pen was before. -/
theorem flush_resets_pen_current (tw cw : String → Nat) (f : Frame) (t : Term)
    (hne : (renderBodyS cw f).2 ≠ []) : (run tw t (renderFrameS cw f).2).pen = TStyle.reset := by
  obtain ⟨_, r2, _, _, _⟩ := run_fields tw (renderFrameS cw f).2 t
  rw [r2]
  unfold renderFrameS flush
  have : (renderBodyS cw f).2.isEmpty = false := by
    cases h : (renderBodyS cw f).2 with
    | nil => exact absurd h hne
    | cons _ _ => rfl
  simp only [this, Bool.false_eq_true, if_false]
  simp only [penRun_append]
  have : ∀ p, penRun p [Tok.sgr []] = TStyle.reset := by intro p; simp [penRun, penStep, sgr]
  rw [this]
  split <;> split <;> simp [penRun, penStep, showCursorToks]

/-! ### The hardware cursor -/

private theorem step_dims (tw : String → Nat) (t : Term) (k : Tok) :
    (step tw t k).rows = t.rows ∧ (step tw t k).cols = t.cols := by
  cases k <;> simp only [step]
  case cup r c => unfold markBad; repeat' split
                  all_goals simp
  case text g => have := putGlyph_fields t g (tw g); simp [this]
  case textW w g =>
    split
    · unfold markBad; split <;> simp
    · have := putGlyph_fields t g w.toNat; simp [this]
  case osc8 p u => split <;> simp
  case decset n => repeat' split
                   all_goals simp
  case decrst n => repeat' split
                   all_goals simp
  all_goals simp

private theorem run_dims (tw : String → Nat) (toks : List Tok) : ∀ t : Term,
    (run tw t toks).rows = t.rows ∧ (run tw t toks).cols = t.cols := by
  induction toks with
  | nil => intro t; simp [run]
  | cons k ks ih =>
    intro t
    have h1 := step_dims tw t k
    have h2 := ih (step tw t k)
    simp only [run, List.foldl_cons] at *
    exact ⟨h2.1.trans h1.1, h2.2.trans h1.2⟩

private theorem run_append (tw : String → Nat) (t : Term) (a b : List Tok) :
    run tw t (a ++ b) = run tw (run tw t a) b := by simp [run, List.foldl_append]

/-- `showCursor()` on any terminal puts the cursor where it was asked, visible, in the asked shape. -/
private theorem show_sets (tw : String → Nat) (t : Term) (c : CursorState) (hv : c.visible = true)
    (hr : 0 ≤ c.row ∧ c.row < t.rows) (hc : 0 ≤ c.col ∧ c.col < t.cols) :
    CursorAs (run tw t (showCursorToks c)) c := by
  simp only [CursorAs, hv, if_true, showCursorToks, run, List.foldl_cons, List.foldl_nil, step]
  have h1 : ¬ (c.row + 1 < 1 ∨ c.col + 1 < 1 ∨ c.row + 1 > (t.rows : Int) ∨ c.col + 1 > (t.cols : Int)) := by omega
  simp only [h1, if_false]
  simp
  omega

/-- Tokens that follow `showCursor()` in a flush: SGR reset and the end of synchronized update. -/
private def Tail : Tok → Prop
  | .sgr _ => True
  | .decrst n => n = 2026
  | _ => False

private theorem tail_keeps (tw : String → Nat) (c : CursorState) (toks : List Tok) (h : ∀ k ∈ toks, Tail k) :
    ∀ t : Term, CursorAs t c → CursorAs (run tw t toks) c := by
  induction toks with
  | nil => intro t ht; simpa [run] using ht
  | cons k ks ih =>
    intro t ht
    have hk := h k (by simp)
    simp only [run, List.foldl_cons]
    apply ih (fun k' hk' => h k' (by simp [hk']))
    cases k <;> simp [Tail] at hk
    · simpa [step, CursorAs] using ht
    · subst hk; simpa [step, CursorAs] using ht

/-- **The hardware cursor is shown exactly as last requested** after every frame: hidden, or
    visible at the requested position and shape — given that the terminal showed the previously
    requested cursor before the frame and that a visible cursor is requested inside the screen. -/
theorem cursor_as_requested_current (tw cw : String → Nat) (f : Frame) (t : Term)
    (hin : f.cursorNext.visible = true →
      (0 ≤ f.cursorNext.row ∧ f.cursorNext.row < t.rows) ∧ (0 ≤ f.cursorNext.col ∧ f.cursorNext.col < t.cols))
    (hprev : CursorAs t f.cursorLast) :
    CursorAs (run tw t (renderFrameS cw f).2) f.cursorNext := by
  obtain ⟨pre, extra, close, show_, hb, hpre, hvoc, hclose, _, hs⟩ := VaxisModel.Lemmas.RenderSixel.renderBodyS_shape cw f
  have hq : ∀ k ∈ pre ++ extra ++ close, CellTok k ∨ Quiet k := by
    intro k hk
    simp only [List.mem_append] at hk
    rcases hk with (hk | hk) | hk
    · rcases hpre with h | ⟨s, h⟩ <;> subst h <;> simp at hk
      subst hk; exact Or.inr trivial
    · exact Or.inl (hvoc k hk)
    · rcases hclose with h | h <;> subst h <;> simp at hk
      subst hk; exact Or.inr trivial
  by_cases hv : f.cursorNext.visible = true
  · -- visible requested
    obtain ⟨hr, hc⟩ := hin hv
    unfold renderFrameS flush
    simp only
    split
    · -- nothing buffered: cursor-only branch
      rename_i hemp
      have hcl : f.cursorLast.visible = true := by
        by_cases h : f.cursorLast.visible = true
        · exact h
        · have : show_ = showCursorToks f.cursorNext := by rw [hs]; simp [hv, h]
          rw [hb, this] at hemp
          simp [showCursorToks] at hemp
      simp only [hv, hcl, not_true_eq_false, false_and, if_false]
      repeat' split
      all_goals first
        | exact show_sets tw t _ hv hr hc
        | (rename_i h1 h2 h3
           simp only [ne_eq, Decidable.not_not] at h1 h2 h3
           simp only [run, List.foldl_nil]
           simp only [CursorAs, hcl, if_true] at hprev
           simp only [CursorAs, hv, if_true]
           rw [h1, h2, h3]; exact hprev)
    · by_cases hcl : f.cursorLast.visible = true
      · -- hide … show again in the epilogue
        simp only [hv, hcl, and_self, if_true]
        rw [run_append]
        apply tail_keeps
        · intro k hk; split at hk <;> simp at hk
          subst hk; rfl
        · rw [run_append]
          exact show_sets tw _ _ hv (by rw [(run_dims tw _ t).1]; exact hr) (by rw [(run_dims tw _ t).2]; exact hc)
      · -- shown at the end of render(), then SGR reset and sync end
        have hsh : show_ = showCursorToks f.cursorNext := by rw [hs]; simp [hv, hcl]
        simp only [hcl, Bool.false_eq_true, if_false, and_false, List.nil_append, List.append_nil]
        rw [hb, hsh]
        have : (((if f.caps.sync = true then [Tok.decset 2026] else []) ++ (pre ++ extra ++ close ++ showCursorToks f.cursorNext)) ++ [Tok.sgr []]) ++ (if f.caps.sync = true then [Tok.decrst 2026] else [])
            = ((if f.caps.sync = true then [Tok.decset 2026] else []) ++ (pre ++ extra ++ close)) ++ showCursorToks f.cursorNext ++ ([Tok.sgr []] ++ (if f.caps.sync = true then [Tok.decrst 2026] else [])) := by
          simp [List.append_assoc]
        rw [this, run_append]
        apply tail_keeps
        · intro k hk
          simp only [List.mem_append, List.mem_singleton] at hk
          rcases hk with hk | hk
          · subst hk; trivial
          · split at hk <;> simp at hk
            subst hk; rfl
        · rw [run_append]
          have hd := run_dims tw ((if f.caps.sync = true then [Tok.decset 2026] else []) ++ (pre ++ extra ++ close)) t
          exact show_sets tw _ _ hv (by rw [hd.1]; exact hr) (by rw [hd.2]; exact hc)
  · -- hidden requested: only visibility matters
    have hv' : f.cursorNext.visible = false := by simpa using hv
    simp only [CursorAs, hv', Bool.false_eq_true, if_false]
    obtain ⟨_, _, _, r4, _⟩ := run_fields tw (renderFrameS cw f).2 t
    rw [r4]
    have hsh : show_ = [] := by rw [hs]; simp [hv']
    have hbq : ∀ v, visRun v (renderBodyS cw f).2 = v := by
      intro v; rw [hb, hsh, List.append_nil]; exact (run_cellToks _ hq 0 v 0).2.1
    unfold renderFrameS flush
    simp only [hv', Bool.false_eq_true, not_false_eq_true, true_and, false_and, if_false]
    by_cases hcl : f.cursorLast.visible = true
    · simp only [hcl, if_true]
      split
      · simp [visRun, visStep]
      · simp only [visRun_append]
        have : visRun t.cursorVisible [Tok.decrst 25] = false := by simp [visRun, visStep]
        rw [this]
        have h2 : ∀ v, visRun v (if f.caps.sync = true then [Tok.decset 2026] else []) = v := by
          intro v; split <;> simp [visRun, visStep]
        have h3 : ∀ v, visRun v (if f.caps.sync = true then [Tok.decrst 2026] else []) = v := by
          intro v; split <;> simp [visRun, visStep]
        rw [h2, hbq, h3]; simp [visRun, visStep]
    · have ht : t.cursorVisible = false := by simpa [CursorAs, hcl] using hprev
      simp only [hcl, Bool.false_eq_true, if_false]
      split
      · simpa [visRun] using ht
      · simp only [visRun_append, List.nil_append]
        have h2 : ∀ v, visRun v (if f.caps.sync = true then [Tok.decset 2026] else []) = v := by
          intro v; split <;> simp [visRun, visStep]
        have h3 : ∀ v, visRun v (if f.caps.sync = true then [Tok.decrst 2026] else []) = v := by
          intro v; split <;> simp [visRun, visStep]
        rw [h2, hbq, h3]; simpa [visRun, visStep] using ht


/-- Non-vacuity: a frame with an image cell, a hyperlinked cell and a visible cursor; afterwards
    the terminal is at rest and the cursor is where it was requested (decide). -/
example :
    let f : Frame := { caps := { sync := true }, refresh := true,
                       next := [[({ g := "61", style := { link := "687474703a2f2f61", attr := 2 } } : Cell), { sixel := true }, { g := "62" }]],
                       last := [[({} : Cell), {}, {}]], cursorNext := { row := 0, col := 2, style := 4, visible := true }, cursorLast := {} }
    let t := run (fun _ => 1) { Term.init 3 1 with cursorVisible := false } (renderFrameS (fun _ => 1) f).2
    t.pen = TStyle.reset ∧ t.link = "" ∧ t.sync = 0 ∧ t.cursorVisible = true ∧ t.col = 2 ∧ t.cursorShape = 4 ∧ t.bad = none := by decide

end VaxisModel.Props.C01SixelRest
