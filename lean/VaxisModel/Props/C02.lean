/-
C02 — Input parser conforms to the VT500 state machine plus documented extensions.
Property theorems only (helper lemmas live in Lemmas/Parser*.lean).
-/
import VaxisModel.Model.Parser
import VaxisModel.Spec.VT500
import VaxisModel.Lemmas.ParserConform
import VaxisModel.Lemmas.ParserParams
import VaxisModel.Lemmas.Parser
import VaxisModel.Lemmas.ParserAbs
import VaxisModel.Lemmas.ParserDcs
import VaxisModel.Lemmas.ParserText
import VaxisModel.Lemmas.ParserLeak
import VaxisModel.Lemmas.ParserOut

namespace VaxisModel.Props.C02
open VaxisModel.Model.ParserTable VaxisModel.Model.Parser
open VaxisModel.Lemmas.ParserConform VaxisModel.Lemmas.ParserParams VaxisModel.Lemmas.Parser
open VaxisModel.Lemmas.ParserAbs VaxisModel.Lemmas.ParserDcs VaxisModel.Lemmas.ParserText
open VaxisModel.Model.ParserIO

/-! ## The table -/

/-- The hand-written transition table of the model has the same rows as the table regenerated from
    ansi/parser.go on this run: for every state function (and `anywhere`) and every input, the same
    statements in the same order and the same returned state.  (Row-wise, so that reordering disjoint
    `case` arms or splitting a guard is not a difference.) -/
theorem hand_table_eq_gen : sameRows handTable genTable = true := by decide +kernel

/-- The hand model and the interpreter of the regenerated table are the same function. -/
theorem pstep_eq_pstepGen (s : PState) (i : Inp) : pstep s i = pstepGen s i :=
  step_congr handTable genTable (by decide +kernel) (by decide +kernel) hand_table_eq_gen s i

/-- **Table conformance.** For every state function of ansi/parser.go and every rune (and for the
    end of input), the statements of the arm that `anywhere` + the state function execute — read as
    Williams actions: exit-function calls as the exit action of the current state, flag and timer
    bookkeeping dropped — and the returned state are exactly the exit/transition/entry actions and
    target state that the published VT500 table with the documented extensions (Spec/VT500.lean)
    prescribes.  All 16 states × all runes: runes ≤ 256 by kernel evaluation, the rest by the
    interval lemma (no guard constant lies above 256). -/
theorem table_conforms (st : StateId) (i : Inp) : implRow genTable st i = specRow st i :=
  conforms_of_below genTable (by decide +kernel) (by decide +kernel) st i

/-- The Spec table is total on 00–7F: every state has a row for every 7-bit code. -/
theorem spec_table_total :
    ∀ s ∈ [Spec.VT500.S.ground, .escape, .escapeIntermediate, .csiEntry, .csiParam, .csiIntermediate,
           .csiIgnore, .dcsEntry, .dcsParam, .dcsIntermediate, .dcsPassthrough, .dcsIgnore, .oscString,
           .sosPmApcString, .apcString, .ss3],
      ∀ c ∈ List.range 128,
        (Spec.VT500.findRow Spec.VT500.anywhereRows c).isSome ∨
        (Spec.VT500.findRow (Spec.VT500.overrides s ++ Spec.VT500.williams s) c).isSome := by
  decide +kernel

/-- Every statement in the arms and prologues of the state functions is in the model's vocabulary
    (an unknown one would be a silent no-op of the model). -/
theorem gen_fully_recognised : Gen.ParserTable.unrecognised = [] := by decide

/-- The constants the action bodies of the model hard-code are those of the source. -/
theorem gen_constants :
    Gen.ParserTable.csiParamSep = 0x3B ∧ Gen.ParserTable.csiSubSep = 0x3A ∧ Gen.ParserTable.csiBase = 10 ∧
    Gen.ParserTable.csiDigit0 = 0x30 ∧ Gen.ParserTable.executeGuard = .range 0x00 0x1F ∧
    Gen.ParserTable.initialState = .ground := by decide

/-! ## Parameters -/

/-- **Parameter decoding.** `csiDispatch`'s loop inverts the printed form of every parameter list:
    any number of parameters, each with any positive number of `:`-separated sub-parameters, every
    value below 2^63 (Go `int`); the empty list is the nil slice. -/
theorem decode_encode_params (ps : List (List Nat)) (hok : ParamsOk ps) :
    decodeParams (encParams ps) = ps.map (·.map Int.ofNat) :=
  decodeParams_encParams ps hok

example : ParamsOk [[38, 2, 0, 255, 128, 0], [1], [0], [9223372036854775807]] := by
  intro p hp; simp at hp; rcases hp with h | h | h | h <;> subst h <;> constructor <;> simp

/-! ## Round trips -/

/-- **CSI round trip.** From *any* parser state whose exit function is unset (in particular ground,
    and any half-read escape/control sequence, which is thereby cancelled), the bytes
    `ESC [ <private>? <params> <intermediates> <final>` of a well-formed value deliver exactly one
    item — that CSI, with its exact intermediates (private marker first), parameters, sub-parameters
    and final — and leave the parser in ground with no collected intermediates. -/
theorem csi_roundtrip (s : PState) (he : s.exit = none) (v : CsiVal) (hv : v.WF) :
    run s (encodeCsi v) =
      ({ s with state := .ground, inter := [], params := encParams v.params, ignoreST := false },
       [.csi (v.priv.toList ++ v.inters) (v.params.map (·.map Int.ofNat)) v.final]) := by
  obtain ⟨hp, hps, hi, hf1, hf2⟩ := hv
  have hpb := encParams_bytes v.params
  unfold encodeCsi
  simp only [run, pstep_esc s he]
  rw [escape_csi _ rfl]
  simp only [List.nil_append]
  cases hpriv : v.priv with
  | none =>
    simp only [Option.toList, List.nil_append]
    rw [csi_tail _ (Or.inl rfl) _ _ _ hpb hi hf1 hf2]
    simp [decodeParams_encParams v.params hps]
  | some p =>
    have hp' := hp p (by simp [hpriv])
    simp only [Option.toList, List.cons_append, List.nil_append, run]
    rw [csi_private _ rfl p hp'.1 hp'.2]
    simp only []
    rw [csi_tail _ (Or.inr rfl) _ _ _ hpb hi hf1 hf2]
    simp [decodeParams_encParams v.params hps]

-- non-vacuity: SGR with colon sub-parameters, a private mode set, a sequence with intermediates
example : (⟨none, [[38, 2, 0, 255, 128, 0], [1]], [], 0x6D⟩ : CsiVal).WF := by
  refine ⟨by simp, ?_, by simp, by decide, by decide⟩
  intro p hp; simp at hp; rcases hp with h | h <;> subst h <;> constructor <;> simp
example : (⟨some 0x3F, [[2026]], [0x24], 0x70⟩ : CsiVal).WF := by
  refine ⟨by simp, ?_, by simp, by decide, by decide⟩
  intro p hp; simp at hp; subst hp; constructor <;> simp

/-- **ESC round trip.** `ESC <intermediates> <final>`: without intermediates for every final the
    escape state dispatches (30–7F except the introducers `O P X [ \ ] ^ _`; 7F is Alt+Backspace),
    with intermediates for every final 30–7E — exactly one ESC item with the exact intermediates. -/
theorem esc_roundtrip (s : PState) (he : s.exit = none) (inters : List Nat) (final : Nat)
    (hi : ∀ b ∈ inters, 0x20 ≤ b ∧ b ≤ 0x2F)
    (hf : if inters = [] then EscFinal final else 0x30 ≤ final ∧ final ≤ 0x7E) :
    run s (0x1B :: (inters ++ [final])) =
      ({ s with state := .ground, inter := [], params := [], ignoreST := false }, [.esc inters final]) := by
  simp only [run, pstep_esc s he]
  cases inters with
  | nil =>
    simp only [if_true] at hf
    simp only [List.nil_append, run]
    rw [escape_final _ rfl final hf]
    simp
  | cons b w =>
    simp only [List.cons_ne_nil, if_false] at hf
    have hb := hi b (by simp)
    simp only [List.cons_append, run]
    rw [escape_inter _ rfl b hb.1 hb.2]
    simp only []
    rw [run_append, run_escInters w (fun b' hb' => hi b' (by simp [hb'])) _ rfl]
    simp only [run]
    rw [escInt_final _ rfl final hf.1 hf.2]
    simp

/-- `ESC \` typed as a key (no control string open) is delivered as an escape sequence. -/
theorem esc_backslash_roundtrip (s : PState) (he : s.exit = none) (hi : s.ignoreST = false) :
    run s [0x1B, 0x5C] = ({ s with state := .ground, inter := [], params := [] }, [.esc [] 0x5C]) := by
  simp only [run, pstep_esc s he]
  rw [escape_backslash _ rfl (by exact hi)]
  simp

/-- **SS3 round trip.** `ESC O c` for every rune `c ≥ 0x20` other than DEL (DEL is skipped). -/
theorem ss3_roundtrip (s : PState) (he : s.exit = none) (c : Nat) (h1 : 0x20 ≤ c) (h2 : c ≠ 0x7F) :
    run s [0x1B, 0x4F, c] =
      ({ s with state := .ground, inter := [], params := [], ignoreST := false }, [.ss3 c]) := by
  simp only [run, pstep_esc s he]
  rw [escape_ss3 _ rfl]
  simp only []
  rw [ss3_final _ rfl c h1 h2]
  simp

/-- **OSC round trip, BEL-terminated.** Every payload of runes ≥ 0x20 (any length, including
    non-ASCII) is delivered exactly once, exactly, and the accumulator is left empty. -/
theorem osc_roundtrip_bel (s : PState) (he : s.exit = none) (ho : s.osc = []) (p : List Nat)
    (hp : ∀ b ∈ p, 0x20 ≤ b) :
    run s (0x1B :: 0x5D :: (p ++ [0x07])) =
      ({ s with state := .ground, inter := [], params := [], ignoreST := false, osc := [], exit := none },
       [.osc p]) := by
  simp only [run, pstep_esc s he]
  rw [escape_osc _ rfl]
  simp only []
  rw [run_append, run_osc p hp _ rfl]
  simp only [run]
  rw [osc_bel _ rfl rfl]
  simp [ho]

/-- **OSC round trip, ST-terminated**, for a non-empty payload: the OSC is delivered when the ESC
    arrives and the `\` that completes the ST delivers nothing.  (For the empty payload see
    `Witness.F102`.) -/
theorem osc_roundtrip_st (s : PState) (he : s.exit = none) (ho : s.osc = []) (p : List Nat)
    (hp : ∀ b ∈ p, 0x20 ≤ b) (hne : p ≠ []) :
    run s (0x1B :: 0x5D :: (p ++ [0x1B, 0x5C])) =
      ({ s with state := .ground, inter := [], params := [], ignoreST := false, osc := [], exit := none },
       [.osc p]) := by
  simp only [run, pstep_esc s he]
  rw [escape_osc _ rfl]
  simp only []
  rw [run_append, run_osc p hp _ rfl]
  simp only [run]
  rw [pstep_esc_exit _ .oscEnd rfl]
  simp only [runExitFn]
  rw [escape_st _ rfl (by cases p <;> simp_all)]
  simp [ho]

/-- **APC round trip** (ST-terminated, non-empty payload of runes ≥ 0x20). -/
theorem apc_roundtrip (s : PState) (he : s.exit = none) (ha : s.apc = []) (p : List Nat)
    (hp : ∀ b ∈ p, 0x20 ≤ b) (hne : p ≠ []) :
    run s (0x1B :: 0x5F :: (p ++ [0x1B, 0x5C])) =
      ({ s with state := .ground, inter := [], params := [], ignoreST := false, apc := [], exit := none },
       [.apc p]) := by
  simp only [run, pstep_esc s he]
  rw [escape_apc _ rfl]
  simp only []
  rw [run_append, run_apc p hp _ rfl]
  simp only [run]
  rw [pstep_esc_exit _ .apcUnhook rfl]
  simp only [runExitFn]
  rw [escape_st _ rfl (by cases p <;> simp_all)]
  simp [ha]

/-- After a BEL-terminated OSC a genuine `ESC \` is delivered (the repaired F05: `ignoreST` no
    longer survives the string). -/
theorem st_after_bel_terminated_osc (s : PState) (he : s.exit = none) (ho : s.osc = []) (p : List Nat)
    (hp : ∀ b ∈ p, 0x20 ≤ b) :
    (run s (0x1B :: 0x5D :: (p ++ [0x07]) ++ [0x1B, 0x5C])).2 = [.osc p, .esc [] 0x5C] := by
  rw [run_append, osc_roundtrip_bel s he ho p hp]
  simp only []
  rw [esc_backslash_roundtrip _ rfl rfl]
  simp

example : EscFinal 0x7F := by unfold EscFinal; omega   -- Alt+Backspace
example : EscFinal 0x37 := by unfold EscFinal; omega   -- DECSC

/-! ## Invariants: exit action, ST flag, no panic -/

/-- The invariant of the run loop: `p.exit` is exactly the exit function of the current state
    (`oscEnd` in oscString, `unhook` in dcsPassthrough, `apcUnhook` in apc, nil elsewhere) and
    `ignoreST` is only set inside a control string or in the escape state. -/
def Inv (s : PState) : Prop := invB (α s) = true

theorem inv_init : Inv PState.init := by unfold Inv; decide

/-- **The invariant is preserved, nothing panics, only eof stops the loop** — for every state
    satisfying the invariant and every input (all runes, and eof).  In particular the unguarded
    `p.exit()` on BEL in oscString is never a nil call, and the private `eof` arm of
    csiIntermediate (F08) is dead code: `anywhere` has already returned nil. -/
theorem invariant_step (s : PState) (h : Inv s) (i : Inp) :
    (isEof i = false → Inv (pstep s i).st) ∧ Seq.panic ∉ (pstep s i).out ∧ (pstep s i).stop = isEof i :=
  hand_inv_step s h i

/-- … hence along every run from the initial state. -/
theorem run_invariant (s : PState) (h : Inv s) (w : List Nat) :
    Inv (run s w).1 ∧ Seq.panic ∉ (run s w).2 := by
  induction w generalizing s with
  | nil => exact ⟨h, by simp [run]⟩
  | cons r w ih =>
    obtain ⟨h1, h2, _⟩ := invariant_step s h (.rune r)
    obtain ⟨g1, g2⟩ := ih _ (h1 rfl)
    simp only [run]
    exact ⟨g1, by simp [h2, g2]⟩

/-- Reachable states: the exit function matches the state, and outside control strings and the
    escape state the ST-suppression flag is clear (so a later `ESC \` is delivered). -/
theorem reachable_exit_and_flag (w : List Nat) :
    (run PState.init w).1.exit = implExit (run PState.init w).1.state ∧
    ((run PState.init w).1.state = .ground → (run PState.init w).1.ignoreST = false) := by
  have h := (invB_spec _).mp (run_invariant PState.init inv_init w).1
  simp only [α] at h
  refine ⟨h.1, fun hg => ?_⟩
  cases hi : (run PState.init w).1.ignoreST with
  | false => rfl
  | true =>
    rcases h.2 hi with h2 | h2
    · rw [hg] at h2; exact absurd h2 (by decide)
    · rw [hg] at h2; exact absurd h2 (by decide)

/-! ## Malformed sequences, text -/

/-- **A malformed sequence delivers nothing.** In csiIgnore, dcsIgnore and sosPm every rune other
    than CAN/SUB/ESC emits at most C0 items (the controls that csiIgnore still executes); no
    sequence item is ever delivered from these states. -/
theorem malformed_delivers_nothing (s : PState)
    (hs : s.state = .csiIgnore ∨ s.state = .dcsIgnore ∨ s.state = .sosPm)
    (r : Nat) (h1 : r ≠ 0x18) (h2 : r ≠ 0x1A) (h3 : r ≠ 0x1B) :
    ∀ x ∈ (pstep s (.rune r)).out, ∃ c, x = Seq.c0 c := by
  have hq : quietRow ((handFn s.state).row (.rune r)) = true := by
    rcases hs with h | h | h <;> rw [h] <;>
      exact row_forall _ (fun row => quietRow row = true) (by decide) (by decide +kernel) r
  rw [pstep_plain s r h1 h2 h3]
  simp only [quietRow, Bool.and_eq_true, bne_iff_ne, ne_eq] at hq
  have hq' : ∀ a ∈ ((handFn s.state).row (.rune r)).1, a = .execute ∨ a = .setIgnoreST := by
    intro a ha
    have := (List.all_eq_true.mp hq.1) a ha
    simpa using this
  obtain ⟨hout, hnext⟩ := runActs_quiet _ hq' r s [] ((handFn s.state).row (.rune r)).2 (by simp)
  intro x hx
  apply hout
  generalize runActs ((handFn s.state).row (.rune r)).1 (.rune r) s [] ((handFn s.state).row (.rune r)).2 = res
    at hx hnext ⊢
  obtain ⟨s', o, n⟩ := res
  simp only at hnext
  have hnd := hq.2
  rw [← hnext] at hnd
  cases n <;> simp_all [finish]

/-- … and they stay there (or, for csiIgnore, return to ground on the final byte). -/
theorem malformed_stays (s : PState)
    (hs : s.state = .csiIgnore ∨ s.state = .dcsIgnore ∨ s.state = .sosPm)
    (r : Nat) (h1 : r ≠ 0x18) (h2 : r ≠ 0x1A) (h3 : r ≠ 0x1B) :
    (pstep s (.rune r)).st.state = s.state ∨
    (s.state = .csiIgnore ∧ 0x40 ≤ r ∧ r ≤ 0x7E ∧ (pstep s (.rune r)).st.state = .ground) := by
  have key : ∀ a : AS, (a.state = .csiIgnore ∨ a.state = .dcsIgnore ∨ a.state = .sosPm) →
      ∀ c, (c ≠ 0x18 ∧ c ≠ 0x1A ∧ c ≠ 0x1B) → ((aStep handTable a (.rune c)).1.state = a.state ∨
        (a.state = .csiIgnore ∧ 0x40 ≤ c ∧ c ≤ 0x7E ∧ (aStep handTable a (.rune c)).1.state = .ground)) := by
    intro a ha c hne
    by_cases hc : c ≤ cut
    · have : ∀ a ∈ ([.csiIgnore, .dcsIgnore, .sosPm] : List StateId).flatMap
          (fun st => [none, some ExitFn.oscEnd, some .unhook, some .apcUnhook].flatMap
            fun e => [(⟨st, e, false⟩ : AS), ⟨st, e, true⟩]),
          ∀ c ∈ List.range (cut + 1), (c ≠ 0x18 ∧ c ≠ 0x1A ∧ c ≠ 0x1B) →
            ((aStep handTable a (.rune c)).1.state = a.state ∨
            (a.state = .csiIgnore ∧ 0x40 ≤ c ∧ c ≤ 0x7E ∧ (aStep handTable a (.rune c)).1.state = .ground)) := by
        decide +kernel
      apply this a _ c (List.mem_range.mpr (by omega)) hne
      obtain ⟨st, e, g⟩ := a
      simp only at ha
      rcases ha with h | h | h <;> subst h <;> cases g <;> rcases e with _ | e <;> try cases e
      all_goals simp
    · have habove := aStep_above handTable (by decide +kernel) a c (by omega)
      rw [habove]
      have : ∀ a ∈ ([.csiIgnore, .dcsIgnore, .sosPm] : List StateId).flatMap
          (fun st => [none, some ExitFn.oscEnd, some .unhook, some .apcUnhook].flatMap
            fun e => [(⟨st, e, false⟩ : AS), ⟨st, e, true⟩]),
            (aStep handTable a (.rune cut)).1.state = a.state := by
        decide +kernel
      left
      apply this a
      obtain ⟨st, e, g⟩ := a
      simp only at ha
      rcases ha with h | h | h <;> subst h <;> cases g <;> rcases e with _ | e <;> try cases e
      all_goals simp
  have h := (step_abs handTable s (.rune r)).1
  have := key (α s) hs r ⟨h1, h2, h3⟩
  simp only [α] at h this
  have hst : (pstep s (.rune r)).st.state = (aStep handTable ⟨s.state, s.exit, s.ignoreST⟩ (.rune r)).1.state := by
    have := congrArg AS.state h
    simpa [pstep] using this
  rw [hst]
  exact this

/-- **Text is delivered in order** (rune level): from ground, a run of runes ≥ 0x20 (every
    printable ASCII character, DEL, and every rune ≥ 0x80 — valid scalars and raw invalid bytes
    alike) is delivered as one print each, in order, nothing lost, duplicated or altered.
    (Grouping into grapheme clusters is the reader's job: `Model/ParserIO.lean`.) -/
theorem text_in_order (s : PState) (hs : s.state = .ground) (w : List Nat) (hw : ∀ b ∈ w, 0x20 ≤ b) :
    run s w = (s, w.map .print) :=
  run_ground_text w hw s hs

/-- **DCS round trip.** `ESC P <private>? <params> <intermediates> <final> <data> ESC \` for every
    parameter list (values < 2^63), intermediates, final 40–7E and non-empty data of runes ≥ 0x20
    other than DEL: exactly one DCS item with the exact final, intermediates (private marker first),
    parameters and data, delivered when the ESC arrives; the `\` delivers nothing; the accumulator
    is left empty.  From any state with the exit function unset and no DCS pending. -/
theorem dcs_roundtrip (s : PState) (he : s.exit = none) (hd : s.dcs = {}) (priv : Option Nat) (ps inters : List Nat)
    (final : Nat) (data : List Nat)
    (hp : ∀ p ∈ priv, 0x3C ≤ p ∧ p ≤ 0x3F) (hok : ∀ x ∈ ps, x < 9223372036854775808)
    (hi : ∀ b ∈ inters, 0x20 ≤ b ∧ b ≤ 0x2F) (hf1 : 0x40 ≤ final) (hf2 : final ≤ 0x7E)
    (hdata : ∀ b ∈ data, 0x20 ≤ b ∧ b ≠ 0x7F) (hne : data ≠ []) :
    run s (0x1B :: 0x50 :: (priv.toList ++ (encDcs ps ++ (inters ++ (final :: (data ++ [0x1B, 0x5C])))))) =
      ({ s with state := .ground, inter := [], params := [], exit := none, ignoreST := false, dcs := {} },
       [.dcs final (priv.toList ++ inters) (ps.map Int.ofNat) data]) := by
  simp only [run, pstep_esc s he]
  rw [escape_dcs _ rfl]
  simp only [List.nil_append]
  cases hpriv : priv with
  | none =>
    simp only [Option.toList, List.nil_append]
    rw [dcs_tail _ (Or.inl rfl) (by rfl) (by exact hd) ps inters final data hok hi hf1 hf2 hdata hne]
    simp
  | some p =>
    have hp' := hp p (by simp [hpriv])
    simp only [Option.toList, List.cons_append, List.nil_append, run]
    rw [dcs_private _ rfl p hp'.1 hp'.2]
    simp only []
    rw [dcs_tail _ (Or.inr rfl) (by rfl) (by exact hd) ps inters final data hok hi hf1 hf2 hdata hne]
    simp

/-- **Text conservation through the reading side, printable ASCII.**  For every way of splitting
    the text into reads and *every* cluster oracle (whatever uniseg reports — no hypothesis on it),
    the parser with bufio's fill loop, `readRune` and `print`'s look-ahead/unread delivers only
    Prints followed by the end marker; no grapheme is empty and the graphemes concatenate to the
    input: nothing lost, duplicated, altered or reordered. -/
theorem text_conserved_ascii (clusterAt : Nat → Nat) (chunks : List (List Nat))
    (h : ∀ c ∈ chunks, ∀ b ∈ c, 0x20 ≤ b ∧ b < 0x80) :
    ∃ gs : List (List Nat), runChunks handTable clusterAt chunks = gs.map Item.print ++ [.seq .eof] ∧
      gs.flatten = chunks.flatten ∧ ∀ g ∈ gs, g ≠ [] := by
  have hflat : (chunks.filter (!·.isEmpty)).flatten = chunks.flatten := by
    induction chunks with
    | nil => rfl
    | cons c cs ih =>
      have := ih (fun c' hc' => h c' (by simp [hc']))
      cases c with
      | nil => simpa [List.filter] using this
      | cons b r => simp [List.filter, this]
  have ha : Ascii (bytesOf { buf := [], chunks := chunks.filter (!·.isEmpty) }) := by
    intro b hb
    simp only [bytesOf, List.nil_append, hflat, List.mem_flatten] at hb
    obtain ⟨c, hc, hbc⟩ := hb
    exact h c hc b hbc
  obtain ⟨gs, h1, h2, h3⟩ := runLoop_ascii clusterAt
    (({ buf := [], chunks := chunks.filter (!·.isEmpty) } : Rd).remaining + 2) PState.init rfl rfl
    { buf := [], chunks := chunks.filter (!·.isEmpty) } ha (by rw [remaining_eq]; omega)
  refine ⟨gs, h1, ?_, h3⟩
  rw [h2]; simp [bytesOf, hflat]

/-- **Chunk independence (printable ASCII)**: two ways of splitting the same text into reads, under
    any two cluster oracles, deliver the same text once adjacent Prints are merged. -/
theorem chunk_independent_ascii (cl1 cl2 : Nat → Nat) (c1 c2 : List (List Nat)) (hsame : c1.flatten = c2.flatten)
    (h1 : ∀ c ∈ c1, ∀ b ∈ c, 0x20 ≤ b ∧ b < 0x80) (h2 : ∀ c ∈ c2, ∀ b ∈ c, 0x20 ≤ b ∧ b < 0x80) :
    ∃ g1 g2 : List (List Nat),
      runChunks handTable cl1 c1 = g1.map Item.print ++ [.seq .eof] ∧
      runChunks handTable cl2 c2 = g2.map Item.print ++ [.seq .eof] ∧ g1.flatten = g2.flatten := by
  obtain ⟨g1, a1, a2, _⟩ := text_conserved_ascii cl1 c1 h1
  obtain ⟨g2, b1, b2, _⟩ := text_conserved_ascii cl2 c2 h2
  exact ⟨g1, g2, a1, b1, by rw [a2, b2, hsame]⟩

/-! ## No leak -/

/-- **No leak.**  Whatever intermediates and parameter bytes are left over in the parser from an
    earlier sequence — finished, cancelled or malformed — they never influence what is delivered
    afterwards: from any state in which no sequence header is being collected (ground, ss3, the
    control-string states, the ignore states), replacing the leftovers by anything else changes
    nothing in the items delivered for any following input.  (Table check: in those states every arm
    either does not touch `intermediate`/`params` or clears them first — decided for all runes — then
    a simulation along the run.) -/
theorem no_leak (s : PState) (hd : VaxisModel.Lemmas.ParserLeak.dead s.state = true)
    (inter params : List Nat) (w : List Nat) :
    (run s w).2 = (run { s with inter := inter, params := params } w).2 := by
  have key : ∀ (w : List Nat) (a b : PState), VaxisModel.Lemmas.ParserLeak.Rel a b → (run a w).2 = (run b w).2 := by
    intro w
    induction w with
    | nil => intro a b _; rfl
    | cons c w ih =>
      intro a b hab
      obtain ⟨h1, _, h3⟩ := VaxisModel.Lemmas.ParserLeak.step_rel handTable hand_boundsOk
        (by decide +kernel) a b hab c
      simp only [run, pstep]
      rw [h1, ih _ _ h3]
  exact key w _ _ (Or.inr ⟨hd, rfl, rfl, rfl, rfl, rfl, rfl⟩)

-- non-vacuity: ground with stale parameter bytes and intermediates from `ESC [ 3 ; 1 $` + CAN
example : VaxisModel.Lemmas.ParserLeak.dead (run PState.init [0x1B, 0x5B, 0x33, 0x3B, 0x31, 0x24, 0x18]).1.state = true ∧
    (run PState.init [0x1B, 0x5B, 0x33, 0x3B, 0x31, 0x24, 0x18]).1.params = [0x33, 0x3B, 0x31] := by decide

/-- **Every parameter of every delivered CSI has at least one element** (so `p[0]` in the handlers
    of C03/C05/C18 cannot be out of range) — for every table, state and input. -/
theorem params_nonempty (T : Table) (s : PState) (i : Inp) (inter : List Nat) (params : List (List Int))
    (final : Nat) (h : Seq.csi inter params final ∈ (step T s i).out) : ∀ q ∈ params, q ≠ [] :=
  VaxisModel.Lemmas.ParserOut.step_forall VaxisModel.Lemmas.ParserOut.CsiOk
    VaxisModel.Lemmas.ParserOut.applyAct_csiOk (by intro i p f h; cases h) T s i _ h inter params final rfl

end VaxisModel.Props.C02
