/-
C02 — Input parser conforms to the VT500 state machine plus documented extensions.
Property theorems only (helper lemmas live in Lemmas/Parser*.lean).
-/
import VaxisModel.Model.Parser
import VaxisModel.Spec.VT500

namespace VaxisModel.Props.C02
open VaxisModel.Model.ParserTable VaxisModel.Model.Parser

/-- The hand-written transition table of the model equals the table regenerated from
    ansi/parser.go on this run (so `pstep = pstepGen`). -/
theorem hand_table_eq_gen :
    handTable.anywhere = genTable.anywhere ∧ ∀ s, handTable.fn s = genTable.fn s := by
  refine ⟨by decide, fun s => ?_⟩
  cases s <;> decide

/-- The hand model and the interpreter of the regenerated table are the same function. -/
theorem pstep_eq_pstepGen (s : PState) (i : Inp) : pstep s i = pstepGen s i := by
  have h := hand_table_eq_gen
  simp only [pstep, pstepGen, step, h.1, h.2]

end VaxisModel.Props.C02
