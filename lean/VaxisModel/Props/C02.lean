/-
C02 — Input parser conforms to the VT500 state machine plus documented extensions.
Property theorems only (helper lemmas live in Lemmas/Parser*.lean).
-/
import VaxisModel.Model.Parser
import VaxisModel.Spec.VT500
import VaxisModel.Lemmas.ParserConform
import VaxisModel.Lemmas.ParserParams
import VaxisModel.Lemmas.Parser

namespace VaxisModel.Props.C02
open VaxisModel.Model.ParserTable VaxisModel.Model.Parser
open VaxisModel.Lemmas.ParserConform VaxisModel.Lemmas.ParserParams VaxisModel.Lemmas.Parser

/-! ## The table -/

/-- The hand-written transition table of the model equals the table regenerated from
    ansi/parser.go on this run. -/
theorem hand_table_eq_gen :
    handTable.anywhere = genTable.anywhere ∧ ∀ s, handTable.fn s = genTable.fn s := by
  refine ⟨by decide, fun s => ?_⟩
  cases s <;> decide

/-- The hand model and the interpreter of the regenerated table are the same function. -/
theorem pstep_eq_pstepGen (s : PState) (i : Inp) : pstep s i = pstepGen s i := by
  have h := hand_table_eq_gen
  simp only [pstep, pstepGen, step, h.1, h.2]

/-- **Table conformance.** For every state function of ansi/parser.go and every rune (and for the
    end of input), the statements of the arm that `anywhere` + the state function execute — read as
    Williams actions: exit-function calls as the exit action of the current state, flag and timer
    bookkeeping dropped — and the returned state are exactly the exit/transition/entry actions and
    target state that the published VT500 table with the documented extensions (Spec/VT500.lean)
    prescribes.  All 16 states × all runes: runes ≤ 256 by kernel evaluation, the rest by the
    interval lemma (no guard constant lies above 256). -/
theorem table_conforms (st : StateId) (i : Inp) : implRow genTable st i = specRow st i :=
  conforms_of_below genTable (by decide +kernel) (by decide +kernel) st i

/-- The Spec table is total on 00–7F: every state has a row for every 7-bit code. -/
theorem spec_table_total :
    ∀ s ∈ [Spec.VT500.S.ground, .escape, .escapeIntermediate, .csiEntry, .csiParam, .csiIntermediate,
           .csiIgnore, .dcsEntry, .dcsParam, .dcsIntermediate, .dcsPassthrough, .dcsIgnore, .oscString,
           .sosPmApcString, .apcString, .ss3],
      ∀ c ∈ List.range 128,
        (Spec.VT500.findRow Spec.VT500.anywhereRows c).isSome ∨
        (Spec.VT500.findRow (Spec.VT500.overrides s ++ Spec.VT500.williams s) c).isSome := by
  decide +kernel

/-- The constants the action bodies of the model hard-code are those of the source. -/
theorem gen_constants :
    Gen.ParserTable.csiParamSep = 0x3B ∧ Gen.ParserTable.csiSubSep = 0x3A ∧ Gen.ParserTable.csiBase = 10 ∧
    Gen.ParserTable.csiDigit0 = 0x30 ∧ Gen.ParserTable.executeGuard = .range 0x00 0x1F ∧
    Gen.ParserTable.initialState = .ground := by decide

/-! ## Parameters -/

/-- **Parameter decoding.** `csiDispatch`'s loop inverts the printed form of every parameter list:
    any number of parameters, each with any positive number of `:`-separated sub-parameters, every
    value below 2^63 (Go `int`); the empty list is the nil slice. -/
theorem decode_encode_params (ps : List (List Nat)) (hok : ParamsOk ps) :
    decodeParams (encParams ps) = ps.map (·.map Int.ofNat) :=
  decodeParams_encParams ps hok

example : ParamsOk [[38, 2, 0, 255, 128, 0], [1], [0], [9223372036854775807]] := by
  intro p hp; simp at hp; rcases hp with h | h | h | h <;> subst h <;> constructor <;> simp

/-! ## Round trips -/

/-- **CSI round trip.** From *any* parser state whose exit function is unset (in particular ground,
    and any half-read escape/control sequence, which is thereby cancelled), the bytes
    `ESC [ <private>? <params> <intermediates> <final>` of a well-formed value deliver exactly one
    item — that CSI, with its exact intermediates (private marker first), parameters, sub-parameters
    and final — and leave the parser in ground with no collected intermediates. -/
theorem csi_roundtrip (s : PState) (he : s.exit = none) (v : CsiVal) (hv : v.WF) :
    run s (encodeCsi v) =
      ({ s with state := .ground, inter := [], params := encParams v.params, ignoreST := false },
       [.csi (v.priv.toList ++ v.inters) (v.params.map (·.map Int.ofNat)) v.final]) := by
  obtain ⟨hp, hps, hi, hf1, hf2⟩ := hv
  have hpb := encParams_bytes v.params
  unfold encodeCsi
  simp only [run, pstep_esc s he]
  rw [escape_csi _ rfl]
  simp only [List.nil_append]
  cases hpriv : v.priv with
  | none =>
    simp only [Option.toList, List.nil_append]
    rw [csi_tail _ (Or.inl rfl) _ _ _ hpb hi hf1 hf2]
    simp [decodeParams_encParams v.params hps]
  | some p =>
    have hp' := hp p (by simp [hpriv])
    simp only [Option.toList, List.cons_append, List.nil_append, run]
    rw [csi_private _ rfl p hp'.1 hp'.2]
    simp only []
    rw [csi_tail _ (Or.inr rfl) _ _ _ hpb hi hf1 hf2]
    simp [decodeParams_encParams v.params hps]

-- non-vacuity: SGR with colon sub-parameters, a private mode set, a sequence with intermediates
example : (⟨none, [[38, 2, 0, 255, 128, 0], [1]], [], 0x6D⟩ : CsiVal).WF := by
  refine ⟨by simp, ?_, by simp, by decide, by decide⟩
  intro p hp; simp at hp; rcases hp with h | h <;> subst h <;> constructor <;> simp
example : (⟨some 0x3F, [[2026]], [0x24], 0x70⟩ : CsiVal).WF := by
  refine ⟨by simp, ?_, by simp, by decide, by decide⟩
  intro p hp; simp at hp; subst hp; constructor <;> simp

end VaxisModel.Props.C02
