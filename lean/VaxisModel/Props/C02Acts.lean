/-
C02, goal 3: the bodies of the parser's action methods are tied to the source.

`Gen/ParserActs.lean` is regenerated from ansi/parser.go on every run: one statement skeleton
(`List BStmt`) per action method.  The theorems below say that *interpreting the regenerated skeleton*
(`Model/ParserActs.lean: interpBody`) gives, for every rune and every parser state, exactly what the
hand-written model (`Model/Parser.lean: applyAct`, `runExitFn`, `decodeLoop`, `hookParams`) gives.
A change of a body in the source (append to another field, a reset dropped, statements swapped,
another C0 bound, another separator/base/offset, an added statement) changes the skeleton and breaks
the corresponding theorem here.

The last section states what the model (hence, by the above, the source) does with over-long digit
strings: csiDispatch wraps silently (Go `int`), hook reports an error.
-/
import VaxisModel.Gen.ParserActs
import VaxisModel.Lemmas.ParserActs

namespace VaxisModel.Props.C02Acts
open VaxisModel.Model.Parser VaxisModel.Model.ParserActs VaxisModel.Model.ParserTable
open VaxisModel.Lemmas.ParserActs
open VaxisModel

/-- Every statement of every action body is in the extractor's vocabulary (no `.unknown`). -/
theorem acts_fully_recognised : Gen.ParserActs.unrecognised = [] := by decide

/-! ### the one-line bodies -/

/-- `collect(r)` as written in the source = `applyAct .collect`: appends `r` to `p.intermediate`. -/
theorem collect_body (r : Rune) (s : PState) :
    interpBody Gen.ParserActs.collectBody r s = applyAct .collect r s := rfl

/-- `param(r)` as written in the source = `applyAct .param`: appends `r` to `p.params`. -/
theorem param_body (r : Rune) (s : PState) :
    interpBody Gen.ParserActs.paramBody r s = applyAct .param r s := rfl

/-- `put(r)` as written in the source = `applyAct .put`: appends `r` to `p.dcs.Data`. -/
theorem put_body (r : Rune) (s : PState) :
    interpBody Gen.ParserActs.putBody r s = applyAct .put r s := rfl

/-- `oscPut(r)` as written in the source = `applyAct .oscPut`: appends `r` to `p.oscData`. -/
theorem oscPut_body (r : Rune) (s : PState) :
    interpBody Gen.ParserActs.oscPutBody r s = applyAct .oscPut r s := rfl

/-- `clear()` as written in the source = `applyAct .clear`: truncates `p.intermediate` and `p.params`
    (and writes the unused `p.final`), nothing else. -/
theorem clear_body (r : Rune) (s : PState) :
    interpBody Gen.ParserActs.clearBody r s = applyAct .clear r s := rfl

/-- `oscStart()` as written in the source = `applyAct .oscStart`: `p.exit = p.oscEnd`. -/
theorem oscStart_body (r : Rune) (s : PState) :
    interpBody Gen.ParserActs.oscStartBody r s = applyAct .oscStart r s := rfl

/-- `execute(r)` as written in the source = `applyAct .execute`: one `C0(r)` exactly for `r ≤ 0x1F`. -/
theorem execute_body (r : Rune) (s : PState) :
    interpBody Gen.ParserActs.executeBody r s = applyAct .execute r s := by
  by_cases h : r ≤ 0x1F <;>
    simp [interpBody, Gen.ParserActs.executeBody, interpStmts, interpStmt, applyAct, h]

/-- `escapeDispatch(r)` as written in the source = `applyAct .escapeDispatch`: one `ESC` with final `r`
    and the collected intermediates, which are moved out of the parser. -/
theorem escapeDispatch_body (r : Rune) (s : PState) :
    interpBody Gen.ParserActs.escapeDispatchBody r s = applyAct .escapeDispatch r s := by
  obtain ⟨state, inter, params, exit, ignoreST, osc, apc, dcs⟩ := s
  cases inter <;>
    simp [interpBody, Gen.ParserActs.escapeDispatchBody, interpStmts, interpStmt, emitSeq, applyAct]

/-! ### the exit functions -/

/-- `oscEnd()` as written in the source = `runExitFn · .oscEnd`: emit `OSC{p.oscData}`, then reset it. -/
theorem oscEnd_body (r : Rune) (s : PState) :
    interpBody Gen.ParserActs.oscEndBody r s = runExitFn s .oscEnd := rfl

/-- `unhook()` as written in the source = `runExitFn · .unhook`: emit `p.dcs`, then `p.dcs = DCS{}`. -/
theorem unhook_body (r : Rune) (s : PState) :
    interpBody Gen.ParserActs.unhookBody r s = runExitFn s .unhook := rfl

/-- `apcUnhook()` as written in the source = `runExitFn · .apcUnhook`: emit `APC{p.apcData}`, then reset it. -/
theorem apcUnhook_body (r : Rune) (s : PState) :
    interpBody Gen.ParserActs.apcUnhookBody r s = runExitFn s .apcUnhook := rfl

/-! ### csiDispatch -/

/-- The regenerated skeleton of `csiDispatch` is the one `Lemmas/ParserActs.lean` reasons about:
    `csi := CSI{Final: r}`; move the intermediates; no parameter bytes ⇒ emit and return;
    `csi.Parameters`, `ps := 0`, `param` initialised; the loop with `case ';'`
    (`param += ps; Parameters += param; new param; ps = 0`), `case ':'` (`param += ps; ps = 0`),
    `default` (`ps *= 10; ps += int(b) - 0x30`); then `param += ps; Parameters += param; emit`. -/
theorem csiDispatch_skeleton : Gen.ParserActs.csiDispatchBody = csiBody := by decide

/-- The `for` loop of `csiDispatch` as written in the source, run over **any** parameter bytes from
    **any** loop state `(ps, param, csi.Parameters)` and followed by the two statements after the loop,
    computes `decodeLoop` (with Go `int` wrap-around on `*=` and `+=`). -/
theorem csiDispatch_loop_eq_decodeLoop (cases : List (Nat × List LoopOp)) (dflt : List LoopOp)
    (h : BStmt.paramLoop cases dflt ∈ Gen.ParserActs.csiDispatchBody) (bs : List Rune) (st : LoopSt) :
    (loopRun cases dflt bs st).acc ++ [(loopRun cases dflt bs st).param ++ [(loopRun cases dflt bs st).ps]]
      = decodeLoop bs st.ps st.param st.acc := by
  rw [csiDispatch_skeleton] at h
  simp [csiBody] at h
  obtain ⟨h1, h2⟩ := h
  subst h1 h2
  exact loopRun_csi bs st

/-- `csiDispatch(r)` as written in the source = `applyAct .csiDispatch`: one `CSI` with final `r`, the
    collected intermediates (moved out of the parser) and `decodeParams p.params` (nil when empty). -/
theorem csiDispatch_body (r : Rune) (s : PState) :
    interpBody Gen.ParserActs.csiDispatchBody r s = applyAct .csiDispatch r s := by
  rw [csiDispatch_skeleton]; exact interp_csiBody r s

example : BStmt.paramLoop csiCases csiDflt ∈ Gen.ParserActs.csiDispatchBody := by decide

/-! ### hook -/

/-- The regenerated skeleton of `hook`: `p.exit = p.unhook` first; `p.dcs = DCS{Final: r, Data: make(…)}`;
    intermediates moved into `p.dcs`; `len(p.params) == 0` ⇒ return (Parameters nil);
    `strings.Split(string(p.params), ";")` (separator 0x3B); per field: empty ⇒ append 0 and continue,
    `strconv.Atoi`, error ⇒ `emit(err); return`, else append the value; finally
    `p.dcs.Parameters = params`. -/
theorem facts_hook : Gen.ParserActs.hookBody =
    [.setExit .unhook, .declSeq .dcs, .takeInter .dcs, .retIfNoParams, .splitParams 0x3B, .hookNewParams,
     .hookLoop [.ifEmptyAppendContinue 0, .atoi, .ifErrEmitReturn, .appendVal], .assignDcsParams] := by
  decide

/-- The `range` loop of `hook` as written in the source, over any fields and from any `params`:
    without an Atoi error it appends exactly `hookParams fields`, emits nothing and falls through;
    with one it emits exactly one `err` item and returns from `hook`. -/
theorem hook_loop_eq_hookParams (ops : List HookOp) (h : BStmt.hookLoop ops ∈ Gen.ParserActs.hookBody)
    (fs : List (List Rune)) (acc : List Int) :
    (∀ l, hookParams fs = some l → hookLoopRun ops fs acc = (acc ++ l, [], false)) ∧
    (hookParams fs = none → ∃ ps, hookLoopRun ops fs acc = (ps, [.err], true)) := by
  rw [facts_hook] at h
  simp at h
  subst h
  exact ⟨fun l hl => hookLoop_some fs acc l hl, fun hn => hookLoop_none fs acc hn⟩

/-- `hook(r)` as written in the source = `applyAct .hook` (exit function, fresh `p.dcs`, intermediates
    moved, Split + Atoi parameters, error ⇒ one `err` item and Parameters left nil). -/
theorem hook_body (r : Rune) (s : PState) :
    interpBody Gen.ParserActs.hookBody r s = applyAct .hook r s := by
  rw [facts_hook]; exact interp_hookBody r s

/-! ### Go `int` overflow: over-long digit strings -/

/-- `wrap64 x` is the representative of `x` mod 2^64 in the signed 64-bit range (what Go `int`
    arithmetic delivers), and it is the identity on that range. -/
theorem wrap64_spec (x : Int) :
    -9223372036854775808 ≤ wrap64 x ∧ wrap64 x < 9223372036854775808 ∧
    wrap64 x % 18446744073709551616 = x % 18446744073709551616 ∧
    (-9223372036854775808 ≤ x → x < 9223372036854775808 → wrap64 x = x) :=
  ⟨(wrap64_range x).1, (wrap64_range x).2, wrap64_emod x, wrap64_id x⟩

/-- `wrap64` commutes with one digit step (`ps *= 10; ps += d`): wrapping after every operation, as
    the machine does, equals wrapping the exact result once. -/
theorem wrap64_digit_step (a d : Int) :
    wrap64 (wrap64 (a * 10) + d) = wrap64 (a * 10 + d) ∧ wrap64 (wrap64 a * 10 + d) = wrap64 (a * 10 + d) :=
  ⟨wrap64_mul_add a d, wrap64_step a d⟩

/-- A parameter string of digits only, of **any** length, decodes to the single parameter
    `wrap64 (decimal ds)`: its decimal value reduced mod 2^64 into the signed range.  No error, no
    saturation: an over-long number is delivered silently wrapped (possibly negative). -/
theorem decodeLoop_digits (ds : List Rune) (h : ds.all isDigit = true) :
    decodeLoop ds 0 [] [] = [[wrap64 (decimal ds)]] :=
  Lemmas.ParserActs.decodeLoop_digits ds h

/-- … and when the number fits (`< 2^63`) the delivered value is exact. -/
theorem decodeLoop_digits_exact (ds : List Rune) (h : ds.all isDigit = true)
    (hfit : decimal ds < 9223372036854775808) :
    decodeLoop ds 0 [] [] = [[(decimal ds : Int)]] := by
  rw [decodeLoop_digits ds h, wrap64_id] <;> omega

/-- The same through the source's skeleton: `csiDispatch` on a non-empty all-digit `p.params` emits
    one CSI whose only parameter is `wrap64 (decimal p.params)`. -/
theorem csiDispatch_overlong_wraps (r : Rune) (s : PState) (h : s.params.all isDigit = true)
    (hne : s.params ≠ []) :
    (interpBody Gen.ParserActs.csiDispatchBody r s).2 = [.csi s.inter [[wrap64 (decimal s.params)]] r] := by
  rw [csiDispatch_body]
  have : s.params.isEmpty = false := by cases hp : s.params <;> simp_all
  simp [applyAct, decodeParams, this, decodeLoop_digits s.params h]

/-- Non-vacuity and a concrete value: the 30-digit parameter `123456789012345678901234567890` is
    delivered as `-4362896299872285998` — the number real Go computes with `ps *= 10; ps += d`
    (checked with a stand-alone Go program, see notes/C02.md). -/
example : digits30.all isDigit = true ∧ decimal digits30 = 123456789012345678901234567890 ∧
    decodeLoop digits30 0 [] [] = [[-4362896299872285998]] ∧
    (interpBody Gen.ParserActs.csiDispatchBody 0x6D { params := digits30 }).2
      = [.csi [] [[-4362896299872285998]] 0x6D] := by decide +kernel

/-- `hook` does **not** wrap: an all-digit `p.params` whose value is ≥ 2^63 makes `strconv.Atoi` fail, so
    `hook` (as written in the source) emits exactly one `err` item and leaves `p.dcs.Parameters` nil;
    the exit function, final and intermediates are already set. -/
theorem hook_overflow_err (r : Rune) (s : PState) (h : s.params.all isDigit = true)
    (hbig : 9223372036854775808 ≤ decimal s.params) :
    interpBody Gen.ParserActs.hookBody r s
      = ({ s with exit := some .unhook, dcs := { final := r, inter := s.inter }, inter := [] }, [.err]) := by
  rw [hook_body]
  have hne : s.params.isEmpty = false := by
    cases hp : s.params with
    | nil => rw [hp] at hbig; simp [decimal] at hbig
    | cons _ _ => rfl
  have hat : atoi s.params = none := by
    have : ¬ decimal s.params < 9223372036854775808 := by omega
    simp [atoi, this]
  simp [applyAct, hne, splitOn_digits s.params h, hookParams, hat]

/-- … and a value `< 2^63` is delivered exactly as the single DCS parameter. -/
theorem hook_in_range_ok (r : Rune) (s : PState) (h : s.params.all isDigit = true)
    (hne : s.params ≠ []) (hfit : decimal s.params < 9223372036854775808) :
    interpBody Gen.ParserActs.hookBody r s
      = ({ s with exit := some .unhook,
                  dcs := { final := r, inter := s.inter, params := [(decimal s.params : Int)] },
                  inter := [] }, []) := by
  rw [hook_body]
  have hne' : s.params.isEmpty = false := by cases hp : s.params <;> simp_all
  have hat : atoi s.params = some (decimal s.params : Int) := by simp [atoi, h, hfit]
  simp [applyAct, hne', splitOn_digits s.params h, hookParams, hat]

/-- Non-vacuity: 2^63 itself (`9223372036854775808`) is an all-digit parameter at the error boundary;
    the 30-digit number is far beyond it. -/
example : digitsTwo63.all isDigit = true ∧ decimal digitsTwo63 = 9223372036854775808 ∧
    (interpBody Gen.ParserActs.hookBody 0x71 { params := digitsTwo63 }).2 = [.err] ∧
    (interpBody Gen.ParserActs.hookBody 0x71 { params := digits30 }).2 = [.err] ∧
    (interpBody Gen.ParserActs.hookBody 0x71 { params := digits30 }).1.dcs.params = [] := by decide +kernel

end VaxisModel.Props.C02Acts
