/-
C02, goal 3: the bodies of the parser's action methods are tied to the source.

`Gen/ParserActs.lean` is regenerated from ansi/parser.go on every run: one statement skeleton
(`List BStmt`) per action method.  The theorems below say that *interpreting the regenerated skeleton*
(`Model/ParserActs.lean: interpBody`) gives, for every rune and every parser state, exactly what the
hand-written model (`Model/Parser.lean: applyAct`, `runExitFn`, `decodeLoop`, `hookParams`) gives.
A change of a body in the source that changes what it computes (append to another field, a reset
dropped, statements swapped that do not commute, another C0 bound, another separator/base/offset, an
added statement with an effect) breaks the corresponding `_body` theorem here; the proofs evaluate the
interpreter on whatever was regenerated — no copy of a statement list is compared — so a reordering the
interpreter evaluates to the same function keeps them.

The last section states what the model (hence, by the above, the source) does with over-long digit
strings: csiDispatch wraps silently (Go `int`), hook reports an error.
-/
import VaxisModel.Gen.ParserActs
import VaxisModel.Lemmas.ParserActs

namespace VaxisModel.Props.C02Acts
open VaxisModel.Model.Parser VaxisModel.Model.ParserActs VaxisModel.Model.ParserTable
open VaxisModel.Lemmas.ParserActs
open VaxisModel

/-- Every statement of every action body is in the extractor's vocabulary (no `.unknown`). -/
theorem acts_fully_recognised : Gen.ParserActs.unrecognised = [] := by decide

/-! ### the one-line bodies -/

/-- `collect(r)` as written in the source = `applyAct .collect`: appends `r` to `p.intermediate`. -/
theorem collect_body (r : Rune) (s : PState) :
    interpBody Gen.ParserActs.collectBody r s = applyAct .collect r s := rfl

/-- `param(r)` as written in the source = `applyAct .param`: appends `r` to `p.params`. -/
theorem param_body (r : Rune) (s : PState) :
    interpBody Gen.ParserActs.paramBody r s = applyAct .param r s := rfl

/-- `put(r)` as written in the source = `applyAct .put`: appends `r` to `p.dcs.Data`. -/
theorem put_body (r : Rune) (s : PState) :
    interpBody Gen.ParserActs.putBody r s = applyAct .put r s := rfl

/-- `oscPut(r)` as written in the source = `applyAct .oscPut`: appends `r` to `p.oscData`. -/
theorem oscPut_body (r : Rune) (s : PState) :
    interpBody Gen.ParserActs.oscPutBody r s = applyAct .oscPut r s := rfl

/-- `clear()` as written in the source = `applyAct .clear`: truncates `p.intermediate` and `p.params`
    (and writes the unused `p.final`), nothing else. -/
theorem clear_body (r : Rune) (s : PState) :
    interpBody Gen.ParserActs.clearBody r s = applyAct .clear r s := rfl

/-- `oscStart()` as written in the source = `applyAct .oscStart`: `p.exit = p.oscEnd`. -/
theorem oscStart_body (r : Rune) (s : PState) :
    interpBody Gen.ParserActs.oscStartBody r s = applyAct .oscStart r s := rfl

/-- `execute(r)` as written in the source = `applyAct .execute`: one `C0(r)` exactly for `r ≤ 0x1F`. -/
theorem execute_body (r : Rune) (s : PState) :
    interpBody Gen.ParserActs.executeBody r s = applyAct .execute r s := by
  by_cases h : r ≤ 0x1F <;>
    simp [interpBody, Gen.ParserActs.executeBody, interpStmts, interpStmt, applyAct, h]

/-- `escapeDispatch(r)` as written in the source = `applyAct .escapeDispatch`: one `ESC` with final `r`
    and the collected intermediates, which are moved out of the parser. -/
theorem escapeDispatch_body (r : Rune) (s : PState) :
    interpBody Gen.ParserActs.escapeDispatchBody r s = applyAct .escapeDispatch r s := by
  obtain ⟨state, inter, params, exit, ignoreST, osc, apc, dcs⟩ := s
  cases inter <;>
    simp [interpBody, Gen.ParserActs.escapeDispatchBody, interpStmts, interpStmt, emitSeq, applyAct]

/-! ### the exit functions -/

/-- `oscEnd()` as written in the source = `runExitFn · .oscEnd`: emit `OSC{p.oscData}`, then reset it. -/
theorem oscEnd_body (r : Rune) (s : PState) :
    interpBody Gen.ParserActs.oscEndBody r s = runExitFn s .oscEnd := rfl

/-- `unhook()` as written in the source = `runExitFn · .unhook`: emit `p.dcs`, then `p.dcs = DCS{}`. -/
theorem unhook_body (r : Rune) (s : PState) :
    interpBody Gen.ParserActs.unhookBody r s = runExitFn s .unhook := rfl

/-- `apcUnhook()` as written in the source = `runExitFn · .apcUnhook`: emit `APC{p.apcData}`, then reset it. -/
theorem apcUnhook_body (r : Rune) (s : PState) :
    interpBody Gen.ParserActs.apcUnhookBody r s = runExitFn s .apcUnhook := rfl

/-! ### csiDispatch -/

/-- What was recognised in `csiDispatch`: the body has a `for i := 0; i < len(p.params); i += 1 { b := p.params[i];
    switch b {…} }` loop; **every** such loop in it switches on exactly the separators `;` (0x3B) and `:`
    (0x3A) and its `default` clause multiplies by 10 and subtracts the digit offset 0x30.  (What the
    statements *compute* is `csiDispatch_loop_eq_decodeLoop` / `csiDispatch_body`, proved by evaluating
    the interpreter on the regenerated body — not by comparing it with a copy.) -/
theorem csiDispatch_skeleton :
    (∃ cases dflt, BStmt.paramLoop cases dflt ∈ Gen.ParserActs.csiDispatchBody) ∧
    ∀ cases dflt, BStmt.paramLoop cases dflt ∈ Gen.ParserActs.csiDispatchBody →
      (∀ c, c ∈ cases.map Prod.fst ↔ (c = 0x3B ∨ c = 0x3A)) ∧
      LoopOp.psMulConst 10 ∈ dflt ∧ LoopOp.psAddDigit 0x30 ∈ dflt := by
  refine ⟨⟨_, _, by simp [Gen.ParserActs.csiDispatchBody]; exact ⟨rfl, rfl⟩⟩, ?_⟩
  intro cases dflt h
  simp [Gen.ParserActs.csiDispatchBody] at h
  obtain ⟨rfl, rfl⟩ := h
  simp

/-- One iteration of the loop of `csiDispatch` as written in the source (`switch b`: `case ';'`,
    `case ':'`, `default`), on **any** byte and **any** loop state. -/
theorem csiDispatch_step (cases : List (Nat × List LoopOp)) (dflt : List LoopOp)
    (h : BStmt.paramLoop cases dflt ∈ Gen.ParserActs.csiDispatchBody) : CsiStep cases dflt := by
  simp [Gen.ParserActs.csiDispatchBody] at h
  obtain ⟨rfl, rfl⟩ := h
  intro b st
  by_cases h1 : b = 0x3B
  · subst h1; simp [findCase, runOps, LoopOp.run]
  · by_cases h2 : b = 0x3A
    · subst h2; simp [findCase, runOps, LoopOp.run]
    · simp [findCase, h1, h2, runOps, LoopOp.run, wrap64_mul_add]

/-- The `for` loop of `csiDispatch` as written in the source, run over **any** parameter bytes from
    **any** loop state `(ps, param, csi.Parameters)` and followed by the two statements after the loop,
    computes `decodeLoop` (with Go `int` wrap-around on `*=` and `+=`). -/
theorem csiDispatch_loop_eq_decodeLoop (cases : List (Nat × List LoopOp)) (dflt : List LoopOp)
    (h : BStmt.paramLoop cases dflt ∈ Gen.ParserActs.csiDispatchBody) (bs : List Rune) (st : LoopSt) :
    (loopRun cases dflt bs st).acc ++ [(loopRun cases dflt bs st).param ++ [(loopRun cases dflt bs st).ps]]
      = decodeLoop bs st.ps st.param st.acc :=
  loopRun_sem cases dflt (csiDispatch_step cases dflt h) bs st

/-- `csiDispatch(r)` as written in the source = `applyAct .csiDispatch`: one `CSI` with final `r`, the
    collected intermediates (moved out of the parser) and `decodeParams p.params` (nil when empty).
    Proved by evaluating the interpreter on the regenerated statement list (the loop through
    `csiDispatch_loop_eq_decodeLoop`). -/
theorem csiDispatch_body (r : Rune) (s : PState) :
    interpBody Gen.ParserActs.csiDispatchBody r s = applyAct .csiDispatch r s := by
  obtain ⟨state, inter, params, exit, ignoreST, osc, apc, dcs⟩ := s
  have key := fun cs d h => csiDispatch_loop_eq_decodeLoop cs d h params {}
  cases inter <;> cases params <;>
    simp [interpBody, Gen.ParserActs.csiDispatchBody, interpStmts, interpStmt, emitSeq, applyAct, decodeParams,
      LoopOp.run] <;>
    exact key _ _ (by simp [Gen.ParserActs.csiDispatchBody])

/-! ### hook -/

/-- What was recognised in `hook`: the body splits `p.params` at `;` (0x3B) — and at nothing else —
    and has a `for _, param := range paramStr` loop.  (What the statements compute is
    `hook_loop_eq_hookParams` / `hook_body`, by evaluating the interpreter on the regenerated body.) -/
theorem facts_hook :
    BStmt.splitParams 0x3B ∈ Gen.ParserActs.hookBody ∧
    (∀ sep, BStmt.splitParams sep ∈ Gen.ParserActs.hookBody → sep = 0x3B) ∧
    ∃ ops, BStmt.hookLoop ops ∈ Gen.ParserActs.hookBody := by
  refine ⟨by decide, ?_, ⟨_, by simp [Gen.ParserActs.hookBody]; rfl⟩⟩
  intro sep h
  simpa [Gen.ParserActs.hookBody] using h

/-- The body of hook's `range` loop as written in the source, on **any** field: empty ⇒ append 0 and
    continue; `strconv.Atoi` fails ⇒ one `err` item and `return`; else append the value. -/
theorem hook_field (ops : List HookOp) (h : BStmt.hookLoop ops ∈ Gen.ParserActs.hookBody) : HookFieldOk ops := by
  simp [Gen.ParserActs.hookBody] at h
  subst h
  intro f ps
  by_cases he : f.isEmpty = true
  · simp [hookField, he]
  · cases ha : atoi f <;> simp [hookField, he, ha]

/-- The `range` loop of `hook` as written in the source, over any fields and from any `params`:
    without an Atoi error it appends exactly `hookParams fields`, emits nothing and falls through;
    with one it emits exactly one `err` item and returns from `hook`. -/
theorem hook_loop_eq_hookParams (ops : List HookOp) (h : BStmt.hookLoop ops ∈ Gen.ParserActs.hookBody)
    (fs : List (List Rune)) (acc : List Int) :
    (∀ l, hookParams fs = some l → hookLoopRun ops fs acc = (acc ++ l, [], false)) ∧
    (hookParams fs = none → ∃ ps, hookLoopRun ops fs acc = (ps, [.err], true)) :=
  ⟨fun l hl => hookLoop_some ops (hook_field ops h) fs acc l hl,
   fun hn => hookLoop_none ops (hook_field ops h) fs acc hn⟩

/-- `hook(r)` as written in the source = `applyAct .hook` (exit function, fresh `p.dcs`, intermediates
    moved, Split + Atoi parameters, error ⇒ one `err` item and Parameters left nil).  Proved by
    evaluating the interpreter on the regenerated statement list. -/
theorem hook_body (r : Rune) (s : PState) :
    interpBody Gen.ParserActs.hookBody r s = applyAct .hook r s := by
  obtain ⟨state, inter, params, exit, ignoreST, osc, apc, dcs⟩ := s
  have hmem : ∀ ops, BStmt.hookLoop ops ∈ Gen.ParserActs.hookBody →
      ∀ fs acc, (∀ l, hookParams fs = some l → hookLoopRun ops fs acc = (acc ++ l, [], false)) ∧
        (hookParams fs = none → ∃ ps, hookLoopRun ops fs acc = (ps, [.err], true)) :=
    fun ops h fs acc => hook_loop_eq_hookParams ops h fs acc
  cases hh : hookParams (splitOn 0x3B params []) with
  | none =>
    obtain ⟨ps, hps⟩ := (hmem _ (by simp [Gen.ParserActs.hookBody]; rfl) (splitOn 0x3B params []) []).2 hh
    cases inter <;> cases params <;>
      simp_all [interpBody, Gen.ParserActs.hookBody, interpStmts, interpStmt, applyAct]
  | some l =>
    have := (hmem _ (by simp [Gen.ParserActs.hookBody]; rfl) (splitOn 0x3B params []) []).1 l hh
    cases inter <;> cases params <;>
      simp_all [interpBody, Gen.ParserActs.hookBody, interpStmts, interpStmt, applyAct]

/-! ### Go `int` overflow: over-long digit strings -/

/-- `wrap64 x` is the representative of `x` mod 2^64 in the signed 64-bit range (what Go `int`
    arithmetic delivers), and it is the identity on that range. -/
theorem wrap64_spec (x : Int) :
    -9223372036854775808 ≤ wrap64 x ∧ wrap64 x < 9223372036854775808 ∧
    wrap64 x % 18446744073709551616 = x % 18446744073709551616 ∧
    (-9223372036854775808 ≤ x → x < 9223372036854775808 → wrap64 x = x) :=
  ⟨(wrap64_range x).1, (wrap64_range x).2, wrap64_emod x, wrap64_id x⟩

/-- `wrap64` commutes with one digit step (`ps *= 10; ps += d`): wrapping after every operation, as
    the machine does, equals wrapping the exact result once. -/
theorem wrap64_digit_step (a d : Int) :
    wrap64 (wrap64 (a * 10) + d) = wrap64 (a * 10 + d) ∧ wrap64 (wrap64 a * 10 + d) = wrap64 (a * 10 + d) :=
  ⟨wrap64_mul_add a d, wrap64_step a d⟩

/-- A parameter string of digits only, of **any** length, decodes to the single parameter
    `wrap64 (decimal ds)`: its decimal value reduced mod 2^64 into the signed range.  No error, no
    saturation: an over-long number is delivered silently wrapped (possibly negative). -/
theorem decodeLoop_digits (ds : List Rune) (h : ds.all isDigit = true) :
    decodeLoop ds 0 [] [] = [[wrap64 (decimal ds)]] :=
  Lemmas.ParserActs.decodeLoop_digits ds h

/-- … and when the number fits (`< 2^63`) the delivered value is exact. -/
theorem decodeLoop_digits_exact (ds : List Rune) (h : ds.all isDigit = true)
    (hfit : decimal ds < 9223372036854775808) :
    decodeLoop ds 0 [] [] = [[(decimal ds : Int)]] := by
  rw [decodeLoop_digits ds h, wrap64_id] <;> omega

/-- The same through the source's skeleton: `csiDispatch` on a non-empty all-digit `p.params` emits
    one CSI whose only parameter is `wrap64 (decimal p.params)`. -/
theorem csiDispatch_overlong_wraps (r : Rune) (s : PState) (h : s.params.all isDigit = true)
    (hne : s.params ≠ []) :
    (interpBody Gen.ParserActs.csiDispatchBody r s).2 = [.csi s.inter [[wrap64 (decimal s.params)]] r] := by
  rw [csiDispatch_body]
  have : s.params.isEmpty = false := by cases hp : s.params <;> simp_all
  simp [applyAct, decodeParams, this, decodeLoop_digits s.params h]

/-- Non-vacuity and a concrete value: the 30-digit parameter `123456789012345678901234567890` is
    delivered as `-4362896299872285998` — the number real Go computes with `ps *= 10; ps += d`
    (checked with a stand-alone Go program, see notes/C02.md). -/
example : digits30.all isDigit = true ∧ decimal digits30 = 123456789012345678901234567890 ∧
    decodeLoop digits30 0 [] [] = [[-4362896299872285998]] ∧
    (interpBody Gen.ParserActs.csiDispatchBody 0x6D { params := digits30 }).2
      = [.csi [] [[-4362896299872285998]] 0x6D] := by decide +kernel

/-- `hook` does **not** wrap: an all-digit `p.params` whose value is ≥ 2^63 makes `strconv.Atoi` fail, so
    `hook` (as written in the source) emits exactly one `err` item and leaves `p.dcs.Parameters` nil;
    the exit function, final and intermediates are already set. -/
theorem hook_overflow_err (r : Rune) (s : PState) (h : s.params.all isDigit = true)
    (hbig : 9223372036854775808 ≤ decimal s.params) :
    interpBody Gen.ParserActs.hookBody r s
      = ({ s with exit := some .unhook, dcs := { final := r, inter := s.inter }, inter := [] }, [.err]) := by
  rw [hook_body]
  have hne : s.params.isEmpty = false := by
    cases hp : s.params with
    | nil => rw [hp] at hbig; simp [decimal] at hbig
    | cons _ _ => rfl
  have hat : atoi s.params = none := by
    have : ¬ decimal s.params < 9223372036854775808 := by omega
    simp [atoi, this]
  simp [applyAct, hne, splitOn_digits s.params h, hookParams, hat]

/-- … and a value `< 2^63` is delivered exactly as the single DCS parameter. -/
theorem hook_in_range_ok (r : Rune) (s : PState) (h : s.params.all isDigit = true)
    (hne : s.params ≠ []) (hfit : decimal s.params < 9223372036854775808) :
    interpBody Gen.ParserActs.hookBody r s
      = ({ s with exit := some .unhook,
                  dcs := { final := r, inter := s.inter, params := [(decimal s.params : Int)] },
                  inter := [] }, []) := by
  rw [hook_body]
  have hne' : s.params.isEmpty = false := by cases hp : s.params <;> simp_all
  have hat : atoi s.params = some (decimal s.params : Int) := by simp [atoi, h, hfit]
  simp [applyAct, hne', splitOn_digits s.params h, hookParams, hat]

/-- Non-vacuity: 2^63 itself (`9223372036854775808`) is an all-digit parameter at the error boundary;
    the 30-digit number is far beyond it. -/
example : digitsTwo63.all isDigit = true ∧ decimal digitsTwo63 = 9223372036854775808 ∧
    (interpBody Gen.ParserActs.hookBody 0x71 { params := digitsTwo63 }).2 = [.err] ∧
    (interpBody Gen.ParserActs.hookBody 0x71 { params := digits30 }).2 = [.err] ∧
    (interpBody Gen.ParserActs.hookBody 0x71 { params := digits30 }).1.dcs.params = [] := by decide +kernel

end VaxisModel.Props.C02Acts
