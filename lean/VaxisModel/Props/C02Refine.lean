/-
C02 — whole-stream refinement  model ⊑ Spec.VT500  (round 2; round 3: F102c and F102d repaired in
the code, their exclusions are gone).  For every byte stream and every split into reads, the list
of delivered sequences is what the reference machine of Spec/VT500.lean (Williams' table + the
documented extensions) prescribes — modulo exactly the one recorded deviation
  F102 : the reference machine runs with `devAll` = `{ lazyST := true }` (pinned by a baseline test);
the cluster oracle is only assumed never to join a C0 control (`Respects`: uniseg GB4/GB5),
and with numbers rendered as Go delivers them (`specSeq`: CSI values wrap in a 64-bit `int`, a DCS
with a value ≥ 2^63 has nil parameters), `error` reports dropped, adjacent Prints merged (`flat`).
Property theorems only (lemmas: Lemmas/ParserRefine*.lean).
-/
import VaxisModel.Lemmas.ParserRefineRun
import VaxisModel.Lemmas.ParserCodec
import VaxisModel.Lemmas.ParserUtf8Spec
import VaxisModel.Props.C02Text

namespace VaxisModel.Props.C02Refine
open VaxisModel.Model.ParserTable VaxisModel.Model.Parser VaxisModel.Model.ParserIO VaxisModel.Model.ParserUtf8
open VaxisModel.Lemmas.ParserRefine VaxisModel.Lemmas.ParserRefineCheck VaxisModel.Lemmas.ParserRefineConf VaxisModel.Lemmas.ParserRefineStep VaxisModel.Lemmas.ParserRefineRun
open VaxisModel.Lemmas.ParserRead VaxisModel.Lemmas.ParserCodec

/-- What the Spec prescribes for a rune stream under the deviations `d`: the items that must be
    delivered, then those of the control string still open at the end of input. -/
def specItems (d : Spec.VT500.Dev) (rs : List Nat) : List Spec.VT500.Item :=
  (Spec.VT500.runD d rs).1 ++ (Spec.VT500.runD d rs).2

/-- **The table-wide check behind the simulation** holds for every state, every value of the
    Spec's control flags and every rune: each row of `anywhere` and of the state functions, pushed
    through the abstract interpreter, meets the requirements of its statements (what is dispatched
    was collected on both sides, exit functions match the state, `execute` only on C0, `param` only
    on 30–3B, …) and establishes the relation of the target state, including `ignoreST` = the Spec's
    ST-suppression flag with F102 switched on (F102c is repaired: a C0 executed in `escape` keeps it).  (Kernel-decided for runes ≤ 256, interval
    lemma above.) -/
theorem step_check (st : StateId) (after fresh : Bool) (c : Nat) : stepCheck st after fresh c = true :=
  stepCheck_all st after fresh c

/-- **One step of the automaton refines one step of the reference machine** (any related states,
    any rune). -/
theorem step_refines (s : PState) (m : Spec.VT500.M) (hR : R s m) (c : Nat) :
    R (pstep s (.rune c)).st (Spec.VT500.stepRuneD devAll m c).1 ∧
    noErr (pstep s (.rune c)).out = (Spec.VT500.stepRuneD devAll m c).2.map specSeq ∧
    (pstep s (.rune c)).stop = false :=
  sim_step codec s m hR c

/-- **Rune level, whole streams**: the automaton from its initial state over any list of runes, then
    end of input, delivers exactly the Spec's items (under `devAll`), then `EOF{}`. -/
theorem runes_refine_spec (rs : List Nat) :
    noErr (runRunes handTable PState.init rs) = (specItems devAll rs).map specSeq ++ [.eof] := by
  have := sim_run codec rs PState.init {} R_init
  simpa [specItems, Spec.VT500.runD] using this

/-- **Parameter decoders agree — including Go `int` overflow.**  For any parameter bytes that can be
    collected (30–3B), `csiDispatch`'s loop delivers the Spec's parameters and sub-parameters
    (`;` / `:` split, empty field = 0) with every number reduced mod 2^64 into the signed range
    (`goInt`: exact below 2^63; a 30-digit parameter wraps, as the real code does). -/
theorem codec_csi_holds (ps : List Nat) (hps : ∀ b ∈ ps, 0x30 ≤ b ∧ b ≤ 0x3B) :
    decodeParams ps = (Spec.VT500.parseParams ps).map (·.map goInt) :=
  codec_csi ps hps

/-- … and `hook` (`strings.Split` + `strconv.Atoi`) delivers the Spec's DCS parameters, or reports an
    error and delivers none exactly when one of them does not fit a Go `int` (≥ 2^63). -/
theorem codec_dcs_holds (ps : List Nat) (hne : ps ≠ []) (hps : ∀ b ∈ ps, 0x30 ≤ b ∧ b ≤ 0x3B ∧ b ≠ 0x3A) :
    hookParams (splitOn 0x3B ps []) =
      (if (Spec.VT500.parseDcsParams ps).all (fun p => decide (p < 9223372036854775808))
       then some ((Spec.VT500.parseDcsParams ps).map Int.ofNat) else none) :=
  codec_dcs ps hne hps

/-- **model ⊑ Spec, whole byte streams, every read splitting**, modulo exactly the one recorded
    deviation: the reference machine runs with F102 switched on (`devAll`).  The oracle is only
    assumed never to join a C0 control (a property of uniseg, not of the code).  `_partial` because
    of F102 only; the exclusions for F102c (`c0ClearsST`) and F102d (oracle off invalid bytes) of
    round 2 are gone. -/
theorem model_refines_spec_partial (cl : Nat → Nat) (chunks : List (List UInt8))
    (hR : Respects cl 0 (units (streamOf chunks))) :
    noErr (flat (runChunks handTable cl (natChunks chunks))) =
      (specItems devAll (decodeRunes (streamOf chunks))).map specSeq ++ [.eof] := by
  rw [runChunks_flat cl (natChunks chunks) hR]
  exact runes_refine_spec _

/-- **… and against the Spec proper** (`Dev.none`) for every stream that never gets into the
    situation in which F102 can show (`Avoids`: no ESC into a control string that has no payload
    yet).  A C0 control between the ESC and the `\` of a string terminator is no longer excluded. -/
theorem model_refines_spec_clean (cl : Nat → Nat) (chunks : List (List UInt8))
    (hR : Respects cl 0 (units (streamOf chunks)))
    (hA : Avoids {} (decodeRunes (streamOf chunks)) = true) :
    noErr (flat (runChunks handTable cl (natChunks chunks))) =
      (specItems Spec.VT500.Dev.none (decodeRunes (streamOf chunks))).map specSeq ++ [.eof] := by
  rw [model_refines_spec_partial cl chunks hR]
  simp only [specItems, Spec.VT500.runD, runFromD_eq devAll rfl {} _ hA, runFromD_eq Spec.VT500.Dev.none rfl {} _ hA]

/-- The same for the interpreter of the table **regenerated from ansi/parser.go on this run** (what the
    correspondence driver executes): a change to any `case`, statement or `return` of a state
    function changes `genTable` and this theorem is re-checked against it. -/
theorem gen_model_refines_spec_partial (cl : Nat → Nat) (chunks : List (List UInt8))
    (hR : Respects cl 0 (units (streamOf chunks))) :
    noErr (flat (runChunks genTable cl (natChunks chunks))) =
      (specItems devAll (decodeRunes (streamOf chunks))).map specSeq ++ [.eof] := by
  have hstep : ∀ s i, step genTable s i = step handTable s i := fun s i =>
    (VaxisModel.Lemmas.ParserConform.step_congr handTable genTable (by decide +kernel) (by decide +kernel)
      (by decide +kernel) s i).symm
  have : runChunks genTable cl (natChunks chunks) = runChunks handTable cl (natChunks chunks) := by
    unfold runChunks
    rw [runLoop_table_congr genTable handTable hstep]
  rw [this]
  exact model_refines_spec_partial cl chunks hR

open VaxisModel.Model.ParserReaderInterp in
/-- **… and for everything regenerated at once**: the transition table regenerated from the state
    functions *and* the bodies of `readRune` and `print` regenerated as statement skeletons and
    interpreted (`runChunksI` — what the correspondence driver runs): every byte stream, every read
    splitting, any oracle that never joins a C0 control ⇒ exactly the Spec's items (F102 on), `EOF{}`. -/
theorem gen_interpreted_refines_spec (cl : Nat → Nat) (chunks : List (List UInt8))
    (hR : Respects cl 0 (units (streamOf chunks))) :
    (runChunksI Gen.ParserReader.readRuneBody Gen.ParserReader.printBody genTable cl (natChunks chunks)).map
        (fun items => noErr (flat items)) =
      some ((specItems devAll (decodeRunes (streamOf chunks))).map specSeq ++ [.eof]) := by
  rw [VaxisModel.Props.C02Text.reader_interpreted_eq_model]
  simp only [Option.map_some]
  rw [gen_model_refines_spec_partial cl chunks hR]

/-- **The model's UTF-8 decoding is the Spec's** (`Spec.VT500.decode`: Table 3-7 of the Unicode
    standard, every byte that does not start a well-formed sequence delivered raw) — every byte list. -/
theorem decoder_is_spec (bs : List Nat) : Spec.VT500.decode bs = decodeRunes bs :=
  VaxisModel.Lemmas.ParserUtf8Spec.decode_eq bs

/-- **The refinement theorem entirely in Spec terms**: bytes → `Spec.VT500.decode` → `Spec.VT500.runD`
    — what the driver's oracle computes for every case of the correspondence run — equals what the
    model of the code delivers, for every byte stream and every read splitting (same exclusions). -/
theorem model_refines_spec_bytes (cl : Nat → Nat) (chunks : List (List UInt8))
    (hR : Respects cl 0 (units (streamOf chunks))) :
    noErr (flat (runChunks handTable cl (natChunks chunks))) =
      (specItems devAll (Spec.VT500.decode (streamOf chunks))).map specSeq ++ [.eof] := by
  rw [decoder_is_spec]
  exact model_refines_spec_partial cl chunks hR

/-- **The former F102d region — exactly.**  (Round 2 stated: "the items are the Spec's for a rune
    list that is the decoded stream except that an invalid byte may read as U+FFFD".)  Now: with an
    oracle that joins invalid bytes to what precedes them at will (as uniseg does after a Prepend
    character), every byte stream and every read splitting delivers exactly the Spec's items for the
    decoded stream itself — no alteration is left.  Same statement as `model_refines_spec_partial`;
    kept under the round-2 name, with the F102d witness oracle as the example below. -/
theorem model_refines_spec_exact (cl : Nat → Nat) (chunks : List (List UInt8))
    (hR : Respects cl 0 (units (streamOf chunks))) :
    noErr (flat (runChunks handTable cl (natChunks chunks))) =
      (specItems devAll (Spec.VT500.decode (streamOf chunks))).map specSeq ++ [.eof] :=
  model_refines_spec_bytes cl chunks hR

-- the oracle of the F102d witness is admitted (it joins the invalid byte FF to U+0600) …
example : Respects (fun p => if p = 0 then 2 else 1) 0 (units [0xD8, 0x80, 0xFF]) := by decide
-- … and the stream is delivered unaltered
example : noErr (flat (runChunks handTable (fun p => if p = 0 then 2 else 1) (natChunks [[0xD8, 0x80, 0xFF]]))) =
    [.print 0x600, .print 0xFF, .eof] := by decide

/-- The full statement: the Spec proper (`Dev.none`), any oracle.  False of the code (F102:
    `Witness/F102.lean`). -/
def model_refines_spec_full : Prop :=
  ∀ (cl : Nat → Nat) (chunks : List (List UInt8)),
    noErr (flat (runChunks handTable cl (natChunks chunks))) =
      (specItems Spec.VT500.Dev.none (decodeRunes (streamOf chunks))).map specSeq ++ [.eof]

-- non-vacuity of `Avoids`: a stream with CSI, a BEL-terminated and an ST-terminated OSC, text
example : Avoids {} [0x1B, 0x5B, 0x31, 0x6D, 0x1B, 0x5D, 0x78, 0x07, 0x1B, 0x5D, 0x79, 0x1B, 0x5C, 0x41] = true := by decide
-- … the recorded F102 input is exactly outside it; the former F102c input is inside now
example : Avoids {} [0x1B, 0x5D, 0x1B, 0x5C] = false ∧ Avoids {} [0x1B, 0x5D, 0x30, 0x1B, 0x0A, 0x5C] = true := by decide

-- non-vacuity: the relation holds initially; a stream through CSI with sub-parameters, OSC, text
example : R PState.init {} := R_init
example : noErr (flat (runChunks handTable (fun _ => 1)
      (natChunks [[0x1B, 0x5B, 0x33, 0x38, 0x3A, 0x35], [0x3B, 0x31, 0x6D, 0xC3], [0xA9, 0x1B, 0x5D, 0x78, 0x07]]))) =
    (specItems devAll (decodeRunes (streamOf [[0x1B, 0x5B, 0x33, 0x38, 0x3A, 0x35, 0x3B, 0x31, 0x6D, 0xC3, 0xA9,
      0x1B, 0x5D, 0x78, 0x07]]))).map specSeq ++ [.eof] := by decide +kernel

end VaxisModel.Props.C02Refine
