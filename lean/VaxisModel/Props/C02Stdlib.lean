/-
C02 — the standard library the reading side stands on, as an explicit contract
(`Model/ParserStdlib.lean : StdlibContract`): the reader model meets it, and it leaves no freedom —
any `utf8.DecodeRune` / `utf8.FullRune` / `bufio.Reader` meeting the clauses *is* the model's, on
every input.  So checking the clauses against the real library (the harness does, on the reads of
every case: counters `stdlib-contract-checked` / `stdlib-contract-broken`) checks the transcription
in `Model/ParserIO.lean` / `Model/ParserReaderInterp.lean`.  Theorems only.
-/
import VaxisModel.Model.ParserStdlib
import VaxisModel.Lemmas.ParserReaderInterp

namespace VaxisModel.Props.C02Stdlib
open VaxisModel.Model.Parser VaxisModel.Model.ParserIO VaxisModel.Model.ParserUtf8
open VaxisModel.Model.ParserReaderInterp VaxisModel.Model.ParserStdlib
open VaxisModel.Lemmas.ParserUtf8 VaxisModel.Lemmas.ParserReaderInterp

/-- **The reader model meets the contract**: `ParserIO.decodeRune` / `fullRune` / `fillLoop` and
    the interpreter's `ReadRune` / `UnreadRune` / `ReadByte` / `Buffered` satisfy every clause of
    `StdlibContract` — the documented behaviour of `utf8.DecodeRune` (empty ⇒ (RuneError, 0); ASCII;
    the shortest-form encoding of a scalar value ⇒ that value and its length; anything else ⇒
    (RuneError, 1)), of `utf8.FullRune` (false exactly for the empty slice and a proper prefix of an
    encoding) and of bufio (`ReadRune` fills while fewer than 4 bytes are buffered, they are not a full
    rune and reads are left, one read per fill; decodes the head of the buffer; `UnreadRune` restores
    exactly the last `ReadRune`, once). -/
theorem model_meets_stdlib_contract : StdlibContract modelStdlib where
  dec_empty := rfl
  dec_ascii := fun b t h => by simp [modelStdlib, decodeRune, h]
  dec_valid := fun r rest hs => decodeRune_encode r hs rest
  dec_invalid := fun b t h => by
    show decodeRune (b :: t) = (runeError, 1)
    by_cases hv : (decodeRune (b :: t)).1 = runeError ∧ (decodeRune (b :: t)).2 = 1
    · exact Prod.ext hv.1 hv.2
    · obtain ⟨hs, he⟩ := decodeRune_valid b t hv
      exact absurd (he ▸ List.take_prefix _ _) (h _ hs)
  full_iff := fun bs => by
    show fullRune bs = false ↔ _
    constructor
    · intro h
      by_cases hne : bs = []
      · exact Or.inl hne
      · exact Or.inr (fullRune_false_proper bs h hne)
    · rintro (rfl | h)
      · rfl
      · by_cases hne : bs = []
        · subst hne; rfl
        · exact proper_fullRune_false bs hne h
  fill_stop := fun buf cs h => by
    show fillLoop buf cs = (buf, cs)
    cases cs with
    | nil => rfl
    | cons c cs =>
      rcases h with h | h | h
      · have : ¬ buf.length < 4 := by omega
        simp [fillLoop, this]
      · have h' : fullRune buf = true := h
        simp [fillLoop, h']
      · cases h
  fill_step := fun buf c cs h1 h2 => by
    show fillLoop buf (c :: cs) = fillLoop (buf ++ c) cs
    have h2' : fullRune buf = false := h2
    simp [fillLoop, h1, h2']
  read_eof := fun b h => by
    show readRuneB b = _
    have h' : b.rd.fill.buf = [] := h
    rw [readRuneB_nil b h']
    simp only [modelStdlib, Rd.fill] at h ⊢
    rw [← h]
  read_rune := fun b h => by
    show readRuneB b = _
    have h' : b.rd.fill.buf ≠ [] := h
    cases hb : b.rd.fill.buf with
    | nil => exact absurd hb h'
    | cons b0 t =>
      rw [readRuneB_cons b b0 t hb, ← hb]
      rfl
  unread := fun _ => rfl
  byte_cons := fun b x t h => by simp [modelStdlib, readByteB, h]
  buffered_len := fun _ => rfl

/-- **The contract determines `utf8.DecodeRune`**: whatever function meets the four `dec_*` clauses
    returns, on **every** byte slice, exactly what the model's `decodeRune` returns.  (Either an
    encoding of a scalar value begins the slice — then `dec_valid` fixes the result — or none does —
    then `dec_empty` / `dec_invalid` do.) -/
theorem stdlib_contract_determines_decodeRune (F : StdlibFns) (h : StdlibContract F) :
    F.decodeRune = decodeRune := by
  have hm := model_meets_stdlib_contract
  funext bs
  cases bs with
  | nil => rw [h.dec_empty]; rfl
  | cons b t =>
    by_cases hex : ∃ r, IsScalar r ∧ encodeRune r <+: b :: t
    · obtain ⟨r, hs, ⟨rest, hr⟩⟩ := hex
      rw [← hr, h.dec_valid r rest hs]
      exact (hm.dec_valid r rest hs).symm
    · have hno : ∀ r, IsScalar r → ¬ (encodeRune r <+: b :: t) := fun r hs hp => hex ⟨r, hs, hp⟩
      rw [h.dec_invalid b t hno]
      exact (hm.dec_invalid b t hno).symm

/-- **The contract determines `utf8.FullRune`** on every byte slice. -/
theorem stdlib_contract_determines_fullRune (F : StdlibFns) (h : StdlibContract F) :
    F.fullRune = fullRune := by
  have hm := model_meets_stdlib_contract
  funext bs
  have h1 := h.full_iff bs
  have h2 : fullRune bs = false ↔ _ := hm.full_iff bs
  cases hf : F.fullRune bs <;> cases hg : fullRune bs <;> simp_all

/-- **The contract determines bufio** as the reading side uses it: the fill loop of `ReadRune` on every
    buffer and every sequence of reads still to come, and `ReadRune` / `UnreadRune` / `Buffered` in every
    reader state, `ReadByte` in every state with something buffered, are the model's. -/
theorem stdlib_contract_determines_bufio (F : StdlibFns) (h : StdlibContract F) :
    F.fill = fillLoop ∧ F.readRune = readRuneB ∧ F.unreadRune = unreadRuneB ∧
    (∀ b : BR, b.rd.buf ≠ [] → F.readByte b = readByteB b) ∧
    ∀ b : BR, F.buffered b = b.rd.buf.length := by
  have hm := model_meets_stdlib_contract
  have hfull := stdlib_contract_determines_fullRune F h
  have hdec := stdlib_contract_determines_decodeRune F h
  have hfill : F.fill = fillLoop := by
    funext buf cs
    induction cs generalizing buf with
    | nil => rw [h.fill_stop buf [] (Or.inr (Or.inr rfl))]; rfl
    | cons c cs ih =>
      by_cases hc : buf.length < 4 ∧ fullRune buf = false
      · rw [h.fill_step buf c cs hc.1 (by rw [hfull]; exact hc.2), ih]
        exact (hm.fill_step buf c cs hc.1 hc.2).symm
      · have hstop : 4 ≤ buf.length ∨ fullRune buf = true ∨ c :: cs = [] := by
          by_cases h4 : buf.length < 4
          · right; left
            cases hf : fullRune buf
            · exact absurd ⟨h4, hf⟩ hc
            · rfl
          · left; omega
        rw [h.fill_stop buf (c :: cs) (by rw [hfull]; exact hstop)]
        exact (hm.fill_stop buf (c :: cs) hstop).symm
  refine ⟨hfill, ?_, ?_, ?_, h.buffered_len⟩
  · funext b
    by_cases hb : (F.fill b.rd.buf b.rd.chunks).1 = []
    · rw [h.read_eof b hb]
      have hb' : (modelStdlib.fill b.rd.buf b.rd.chunks).1 = [] := by
        show (fillLoop b.rd.buf b.rd.chunks).1 = []; rw [← hfill]; exact hb
      rw [show readRuneB b = modelStdlib.readRune b from rfl, hm.read_eof b hb', hfill]
      rfl
    · rw [h.read_rune b hb]
      have hb' : (modelStdlib.fill b.rd.buf b.rd.chunks).1 ≠ [] := by
        show (fillLoop b.rd.buf b.rd.chunks).1 ≠ []; rw [← hfill]; exact hb
      rw [show readRuneB b = modelStdlib.readRune b from rfl, hm.read_rune b hb', hfill, hdec]
      rfl
  · funext b; rw [h.unread b]; rfl
  · intro b hne
    cases hb : b.rd.buf with
    | nil => exact absurd hb hne
    | cons x t => rw [h.byte_cons b x t hb]; simp [readByteB, hb]

/-- **`ReadByte` is only ever called with something buffered.**  The reading side calls `ReadByte` in one
    place — `readRune`'s fallback, right after `UnreadRune` succeeded, which it does only after a
    `ReadRune` that returned a rune: the reader restored by that `UnreadRune` has a non-empty buffer (the
    rune's bytes).  So the contract's silence about `ReadByte` on an empty buffer (the real one would go
    on reading) costs nothing. -/
theorem readByte_only_with_buffer (b b1 : BR) (h : unreadRuneB (readRuneB b).2 = some b1) : b1.rd.buf ≠ [] := by
  cases hb : b.rd.fill.buf with
  | nil => rw [readRuneB_nil b hb] at h; simp [unreadRuneB] at h
  | cons b0 t =>
    rw [readRuneB_cons b b0 t hb] at h
    simp only [unreadRuneB, Option.map_some, Option.some.injEq] at h
    subst h
    simp [hb]

-- non-vacuity of the clauses' hypotheses: a scalar encoding, an invalid start, a proper prefix
example : IsScalar 0x20AC ∧ encodeRune 0x20AC = [0xE2, 0x82, 0xAC] ∧
    modelStdlib.decodeRune ([0xE2, 0x82, 0xAC] ++ [0x41]) = (0x20AC, 3) ∧
    modelStdlib.decodeRune [0xC0, 0x80] = (runeError, 1) ∧ modelStdlib.decodeRune [0xED, 0xA0, 0x80] = (runeError, 1) ∧
    modelStdlib.fullRune [0xE2, 0x82] = false ∧ modelStdlib.fullRune [0xE0, 0x80] = true ∧
    modelStdlib.fullRune [0xF0, 0x90, 0x41] = true := by decide
example : ProperPrefixOfEncoding [0xE2, 0x82] := ⟨0x20AC, by decide, ⟨[0xAC], by decide⟩, by decide⟩

end VaxisModel.Props.C02Stdlib
