/-
C02 — text and read splitting for **arbitrary byte streams** (round 2): the UTF-8 level
(`utf8.DecodeRune`/`FullRune`, `readRune`'s raw-byte fallback), bufio's fill loop over any split
into reads at any byte offset, and `print`'s grapheme look-ahead with any cluster oracle.
Property theorems only (lemmas: Lemmas/ParserUtf8.lean, ParserTextU.lean, ParserRead.lean).
-/
import VaxisModel.Lemmas.ParserRead
import VaxisModel.Lemmas.ParserConform
import VaxisModel.Gen.ParserReader
import VaxisModel.Lemmas.ParserReaderInterp

namespace VaxisModel.Props.C02Text
open VaxisModel.Model.ParserTable VaxisModel.Model.Parser VaxisModel.Model.ParserIO VaxisModel.Model.ParserUtf8
open VaxisModel.Lemmas.ParserUtf8 VaxisModel.Lemmas.ParserTextU VaxisModel.Lemmas.ParserRead
open VaxisModel.Lemmas.ParserConform VaxisModel.Lemmas.ParserText

/-! ## UTF-8 -/

/-- **decode ∘ encode.**  For every Unicode scalar value `r` (0–D7FF, E000–10FFFF) and whatever
    follows it in the stream, the parser's decoding (`utf8.DecodeRune` + the `size == 1` fallback of
    `readRune`) of `EncodeRune(r) ++ rest` is `r` followed by the decoding of `rest`. -/
theorem utf8_decode_encode (r : Nat) (hr : IsScalar r) (rest : List Nat) :
    decodeRunes (encodeRune r ++ rest) = r :: decodeRunes rest :=
  decodeRunes_encode r hr rest

/-- … hence `decode (encode r) = [r]` and, for every list of scalar values, `decode (encode rs) = rs`. -/
theorem utf8_roundtrip (rs : List Nat) (h : ∀ r ∈ rs, IsScalar r) : decodeRunes (rs.flatMap encodeRune) = rs :=
  decodeRunes_encodeAll rs h

example : IsScalar 0x1F600 ∧ IsScalar 0xFFFD ∧ IsScalar 0x10FFFF ∧ ¬ IsScalar 0xD800 ∧ ¬ IsScalar 0x110000 := by decide

/-- **encode ∘ decode.**  Whenever `utf8.DecodeRune` does not report an invalid byte the rune is a
    scalar value and the bytes consumed are exactly its (shortest) encoding: overlong forms,
    surrogates, values above U+10FFFF and truncated sequences are never accepted. -/
theorem utf8_valid_is_encoding (b : Nat) (t : List Nat)
    (h : ¬((decodeRune (b :: t)).1 = runeError ∧ (decodeRune (b :: t)).2 = 1)) :
    IsScalar (decodeRune (b :: t)).1 ∧ encodeRune (decodeRune (b :: t)).1 = (b :: t).take (decodeRune (b :: t)).2 :=
  decodeRune_valid b t h

/-- **Invalid bytes are delivered as themselves**: a byte at which no encoding of a scalar value
    starts is one rune — its own value — and decoding resumes at the next byte. -/
theorem utf8_invalid_raw (b : Nat) (t : List Nat) (h : ∀ r, IsScalar r → ¬ (encodeRune r <+: b :: t)) :
    decodeRunes (b :: t) = b :: decodeRunes t :=
  decodeRunes_invalid b t h

-- overlong C0 80, surrogate ED A0 80, F5, truncated E2 82, stray continuation: raw bytes
example : decodeRunes [0xC0, 0x80, 0xED, 0xA0, 0x80, 0xF5, 0x41, 0xE2, 0x82, 0xAC, 0x80, 0xE2, 0x82] =
    [0xC0, 0x80, 0xED, 0xA0, 0x80, 0xF5, 0x41, 0x20AC, 0x80, 0xE2, 0x82] := by decide

/-- **Nothing lost at the byte level**: the units of a stream (one per well-formed scalar, one per
    other byte), written back as bytes, are the stream; every valid unit is a scalar value. -/
theorem utf8_units_partition (bs : List Nat) :
    (units bs).flatMap U.bytes = bs ∧ ∀ u ∈ units bs, u.inv = false → IsScalar u.raw :=
  units_bytes bs

/-! ## The reading side of the source -/

/-- **Every statement of `readRune`, `print` and `emit` in ansi/parser.go was recognised** by the
    extractor on this run: nothing outside the vocabulary of `Model/ParserReaderSk.lean` (no `.unknown`
    statement in a regenerated body, nothing listed as unrecognised); `emit` is exactly one channel
    send; the raw-byte fallback of `readRune` is under `r == ReplacementChar && size == 1` and the
    look-ahead of `print` stops in front of an invalid byte (the two flags the model's `readRune` /
    `printLoop` read).  *What the bodies compute* is not pinned here against a copy of the statement
    lists — `readRune_body_eq_model` and `print_body_eq_model` prove it by interpreting them. -/
theorem reader_skeleton_recognised :
    Gen.ParserReader.unrecognised = [] ∧
    Gen.ParserReader.readRuneBody.all Model.ParserReaderSk.RStmt.known = true ∧
    Gen.ParserReader.printBody.all Model.ParserReaderSk.RStmt.known = true ∧
    Gen.ParserReader.emitBody = [.sendSeq] ∧
    Gen.ParserTable.fallbackOnlyInvalid = true ∧
    Gen.ParserTable.lookaheadStopsAtInvalid = true := by decide

/-! ## The regenerated bodies, executed -/

open VaxisModel.Model.ParserReaderInterp VaxisModel.Lemmas.ParserReaderInterp in
/-- **`readRune` as the source says it = the model's `readRune`** — the body regenerated from
    ansi/parser.go on this run, *interpreted* statement by statement over the reader model
    (`ReadRune` = fill loop + `utf8.DecodeRune`; stop the timer; `if r == ReplacementChar && size == 1
    { UnreadRune; ReadByte; r = rune(b) }` with both error returns; `if err != nil { return eof }`;
    `return r`), gives for **every** reader state (any buffer contents, any reads still to come)
    exactly what `ParserIO.readRune` — the function all theorems about the reading side are stated
    over — gives.  The proof evaluates the interpreter on whatever statement list was regenerated
    (no copy of the list is compared): a reordering that the interpreter evaluates to the same
    function keeps it, a change of meaning — a changed condition, a missing `UnreadRune` — breaks it. -/
theorem readRune_body_eq_model (rd : Rd) :
    readRuneI Gen.ParserReader.readRuneBody rd = some (readRune rd) := by
  cases hb : rd.fill.buf with
  | nil =>
    simp only [readRuneI, Gen.ParserReader.readRuneBody, interpRead, readRuneB_nil ⟨rd, none⟩ hb, readRune, hb]
    simp [runeError]
  | cons b0 brest =>
    simp only [readRuneI, Gen.ParserReader.readRuneBody, interpRead, readRuneB_cons ⟨rd, none⟩ b0 brest hb, readRune, hb,
      fallback_flag]
    by_cases hc : (decodeRune (b0 :: brest)).1 = runeError ∧ (decodeRune (b0 :: brest)).2 = 1
    · simp [hc.1, hc.2, unreadRuneB, readByteB, hb]
    · have hc' : (decodeRune (b0 :: brest)).1 = runeError → ¬ (decodeRune (b0 :: brest)).2 = 1 := fun h1 h2 => hc ⟨h1, h2⟩
      by_cases h1 : (decodeRune (b0 :: brest)).1 = runeError
      · simp [h1, hc' h1]
      · simp [h1]

open VaxisModel.Model.ParserReaderInterp VaxisModel.Lemmas.ParserReaderInterp in
/-- **`print` as the source says it = the model's `printLoop`, with its width.**  The regenerated
    body of `print(r)` interpreted over the reader model — builder, `for p.r.Buffered() > 0 { ReadRune;
    invalid byte ⇒ UnreadRune, break; WriteRune; FirstGraphemeClusterInString; rest ≠ "" ⇒ UnreadRune,
    break }`, `if w == 0 { w = StringWidth(grapheme) }`, `emit(Print{grapheme, w})` — for every reader
    state, every rune, every cluster length `cl ≥ 1` the oracle reports and any width functions:
    the grapheme emitted and the reader afterwards are `printLoop cl fuel rd [r]`, and the width is
    either `StringWidth` of that grapheme or the non-zero width `FirstGraphemeClusterInString`
    reported for exactly that grapheme.  The proof evaluates the interpreter on the three parts of
    whatever was regenerated (statements before the loop, one pass through the loop body in each of
    its three outcomes, statements after the loop) and hands the results to the generic induction
    `interpPrint_sem`; no copy of the statement list is compared. -/
theorem print_body_eq_model (cl : Nat) (hcl : 1 ≤ cl) (wd sw : List Rune → Nat) (fuel : Nat) (r : Rune) (rd : Rd) :
    ∃ w, interpPrint cl wd sw fuel r Gen.ParserReader.printBody rd =
        some ((printLoop cl fuel rd [r]).1, w, (printLoop cl fuel rd [r]).2) ∧
      (w = sw (printLoop cl fuel rd [r]).1 ∨ (w = wd (printLoop cl fuel rd [r]).1 ∧ w ≠ 0)) := by
  -- the body has a `for p.r.Buffered() > 0 { … }`
  have hs : (splitWhile Gen.ParserReader.printBody).isNone = false := by decide
  -- the statements in front of the loop
  have hpre : PreOk (preOf Gen.ParserReader.printBody) := by
    intro r rd
    simp [preOf, splitWhile, splitAtStmt, Gen.ParserReader.printBody, prePhase]
  -- one pass through the loop body
  have hloop : LoopPass cl wd (loopOf Gen.ParserReader.printBody) := by
    intro st b0 t hfb hacc hlen
    have hrb := readRuneB_cons st.b b0 t hfb
    generalize (decodeRune (b0 :: t)).1 = r' at hrb ⊢
    generalize (decodeRune (b0 :: t)).2 = sz at hrb ⊢
    by_cases hinv : r' = runeError ∧ sz = 1
    · simp [loopOf, splitWhile, splitAtStmt, Gen.ParserReader.printBody, loopBody, hrb, hinv.1, hinv.2, unreadRuneB]
    · simp only [if_neg hinv]
      by_cases hcl' : st.grapheme.length + 1 > cl
      · have heq : cl = st.grapheme.length := by omega
        have htake : (st.grapheme ++ [r']).take cl = st.grapheme := by
          rw [heq]; exact List.take_left' rfl
        simp only [if_pos hcl']
        simp [loopOf, splitWhile, splitAtStmt, Gen.ParserReader.printBody, loopBody, hrb, hinv, unreadRuneB, hacc, htake, hcl']
      · have htake : (st.grapheme ++ [r']).take cl = st.grapheme ++ [r'] := by
          apply List.take_of_length_le; simp; omega
        simp only [if_neg hcl']
        simp [loopOf, splitWhile, splitAtStmt, Gen.ParserReader.printBody, loopBody, hrb, hinv, hacc, htake, hcl']
  -- the statements after the loop
  have hpost : PostOk sw (postOf Gen.ParserReader.printBody) := by
    intro st
    by_cases hw : st.w = 0 <;>
      simp [postOf, splitWhile, splitAtStmt, Gen.ParserReader.printBody, postPhase, hw]
  exact interpPrint_sem Gen.ParserReader.printBody cl hcl wd sw hs hpre hloop hpost fuel r rd

open VaxisModel.Model.ParserReaderInterp in
/-- **Each Print carries the display width of its grapheme.**  If the width uniseg reports for a
    first cluster is the `StringWidth` of that cluster whenever it is not 0 (`StringWidth` is the sum
    of exactly these widths; checked on every Print of the correspondence run: verdict `W!`), the
    width `print` emits is `StringWidth(grapheme)` — for the grapheme it emits, whatever the reads,
    the buffer and the look-ahead did (cut at a read boundary, stopped by an invalid byte, …). -/
theorem print_width (cl : Nat) (hcl : 1 ≤ cl) (wd sw : List Rune → Nat) (hw : ∀ g, wd g ≠ 0 → wd g = sw g)
    (fuel : Nat) (r : Rune) (rd : Rd) :
    interpPrint cl wd sw fuel r Gen.ParserReader.printBody rd =
      some ((printLoop cl fuel rd [r]).1, sw (printLoop cl fuel rd [r]).1, (printLoop cl fuel rd [r]).2) := by
  obtain ⟨w, h1, h2⟩ := print_body_eq_model cl hcl wd sw fuel r rd
  rcases h2 with h2 | ⟨h2, h3⟩
  · rw [h1, h2]
  · rw [h1, h2, hw _ (by rw [← h2]; exact h3)]

open VaxisModel.Model.ParserReaderInterp VaxisModel.Lemmas.ParserReaderInterp in
/-- **The whole reading side, executed from the regenerated bodies, is the model's run loop.**  The
    loop of `run` (read, transition, deliver; `EOF{}` at the end) with `readRune` and `print`
    *interpreted from the statement skeletons regenerated on this run* — this is what the
    correspondence driver executes, with the regenerated transition table — delivers, for every table,
    every cluster oracle and every list of reads, exactly `ParserIO.runChunks`, the function that
    `reads_disappear`, `chunk_independent`, `text_blocks`, `text_conserved` and the refinement theorems
    of `Props/C02Refine.lean` are stated over.  So those theorems are theorems about the interpreter of
    the extracted code. -/
theorem reader_interpreted_eq_model (T : Table) (cl : Nat → Nat) (chunks : List (List Nat)) :
    runChunksI Gen.ParserReader.readRuneBody Gen.ParserReader.printBody T cl chunks = some (runChunks T cl chunks) :=
  runChunksI_eq _ _ readRune_body_eq_model
    (fun cl' hcl fuel r rd => by
      obtain ⟨w, h, _⟩ := print_body_eq_model cl' hcl (fun _ => 0) (fun _ => 0) fuel r rd
      exact ⟨w, h⟩) T cl chunks

-- non-vacuity: "e" + U+0301 in the buffer, cluster length 2, widths 1: one Print of width 1, reader at the 'A'
example : (Model.ParserReaderInterp.interpPrint 2 (fun _ => 1) (fun _ => 1) 10 0x65 Gen.ParserReader.printBody
    { buf := [0xCC, 0x81, 0x41], chunks := [] }).map (fun x => (x.1, x.2.1, x.2.2.buf, x.2.2.pos)) =
    some ([0x65, 0x301], 1, [0x41], 2) := by decide
-- … and an invalid byte in the look-ahead is left in the buffer (F102d repaired)
example : (Model.ParserReaderInterp.interpPrint 2 (fun _ => 1) (fun _ => 1) 10 0x600 Gen.ParserReader.printBody
    { buf := [0xFF, 0x41], chunks := [] }).map (fun x => (x.1, x.2.1, x.2.2.buf, x.2.2.pos)) =
    some ([0x600], 1, [0xFF, 0x41], 0) := by decide

/-- **Every Print, in every stream, is one grapheme cluster — or a piece of one cut at a read boundary
    or in front of an invalid byte.**  Whatever the parser has read before and whatever is buffered
    or still to come (any reader state: this is every call of `print` in every run), for the rune `r`
    being printed and the cluster length `cl` the oracle reports for the text starting at `r`: the
    grapheme emitted is `r` followed by the next `k` units of the stream, each a well-formed scalar
    delivered as itself; exactly those bytes are consumed; `1 + k ≤ max 1 cl`; and `1 + k < max 1 cl`
    only if the buffer is empty afterwards (the rest of the cluster has not arrived: a read boundary
    or the end of the stream) or the next unit is an invalid byte (left to `readRune`).  With
    `print_width` the Print also carries `StringWidth` of exactly that grapheme.  (`text_blocks` is the
    same statement assembled over a whole text stream.) -/
theorem print_takes_one_cluster (cl : Nat) (rd : Rd) (r : Nat) :
    ∃ us : List U,
      (printLoop (max 1 cl) (rd.remaining + 1) rd [r]).1 = r :: us.map U.raw ∧
      (∀ u ∈ us, u.inv = false) ∧
      units (bytesOf rd) = us ++ units (bytesOf (printLoop (max 1 cl) (rd.remaining + 1) rd [r]).2) ∧
      1 + us.length ≤ max 1 cl ∧
      (1 + us.length = max 1 cl ∨ (printLoop (max 1 cl) (rd.remaining + 1) rd [r]).2.buf = [] ∨
        ∃ u rest, units (bytesOf (printLoop (max 1 cl) (rd.remaining + 1) rd [r]).2) = u :: rest ∧ u.inv = true) := by
  obtain ⟨us, g1, g2, g3, g4, g5, g6, g7, g8, _, g10⟩ := printLoop_spec (max 1 cl) (rd.remaining + 1) rd [r]
  refine ⟨us, by simpa using g1, g10, g2, ?_, ?_⟩
  · by_cases hne : us = []
    · subst hne; simp only [List.length_nil]; omega
    · have := g7 hne; simp only [List.length_cons, List.length_nil] at this; omega
  · simp only [List.length_cons, List.length_nil] at g8
    have hrem := remaining_eq rd
    rcases g8 with h | h | h | h
    · left
      by_cases hne : us = []
      · subst hne; simp only [List.length_nil] at h ⊢; omega
      · have := g7 hne; simp only [List.length_cons, List.length_nil] at this; omega
    · exact Or.inr (Or.inl h)
    · exfalso; omega
    · exact Or.inr (Or.inr h)

/-! ## The reads disappear -/

/-- **Model of the reading side = automaton over the decoded stream**, for every byte stream,
    every way of splitting it into reads (any byte offsets: inside a UTF-8 sequence, inside an
    escape sequence, empty reads) and every cluster oracle that respects the stream (never joins a
    C0 control to what precedes it — uniseg GB4/GB5; nothing is assumed about invalid bytes since
    F102d is repaired): the items delivered — compared modulo
    merging/splitting adjacent Prints, i.e. after `flat` — are exactly what the automaton delivers
    when fed the runes of the stream one by one (valid scalars, raw invalid bytes), then end of
    input.  Escape sequences, control strings and text alike. -/
theorem reads_disappear (cl : Nat → Nat) (chunks : List (List UInt8))
    (hR : Respects cl 0 (units (streamOf chunks))) :
    flat (runChunks handTable cl (natChunks chunks)) =
      runRunes handTable PState.init (decodeRunes (streamOf chunks)) :=
  runChunks_flat cl (natChunks chunks) hR

/-- The same for the table regenerated from ansi/parser.go on this run. -/
theorem reads_disappear_gen (cl : Nat → Nat) (chunks : List (List UInt8))
    (hR : Respects cl 0 (units (streamOf chunks))) :
    flat (runChunks genTable cl (natChunks chunks)) =
      runRunes genTable PState.init (decodeRunes (streamOf chunks)) := by
  have hstep : ∀ s i, step genTable s i = step handTable s i := fun s i =>
    (step_congr handTable genTable (by decide +kernel) (by decide +kernel) (by decide +kernel) s i).symm
  unfold runChunks
  rw [runLoop_table_congr genTable handTable hstep, runRunes_table_congr genTable handTable hstep]
  exact runChunks_flat cl (natChunks chunks) hR

-- non-vacuity: the oracle that joins nothing respects every stream; a ZWJ-joining oracle respects "a👩‍👩ESC[m"
example (chunks : List (List UInt8)) : Respects (fun _ => 1) 0 (units (streamOf chunks)) := respects_const_one 0 _
example : Respects (fun p => if p = 1 then 3 else 1) 0
    (units [0x61, 0xF0, 0x9F, 0x91, 0xA9, 0xE2, 0x80, 0x8D, 0xF0, 0x9F, 0x91, 0xA9, 0x1B, 0x5B, 0x6D]) := by decide

/-- **Splitting independence, every byte stream, arbitrary byte-offset splits.**  Two ways of
    splitting the same bytes into reads, under any two cluster oracles that never join a C0 control,
    deliver the same items once adjacent Prints are merged (`flat`).  (Round 2: `…_partial`, the
    oracles also had to keep off invalid bytes — F102d, repaired.) -/
theorem chunk_independent (cl1 cl2 : Nat → Nat) (c1 c2 : List (List UInt8))
    (hsame : streamOf c1 = streamOf c2)
    (h1 : Respects cl1 0 (units (streamOf c1))) (h2 : Respects cl2 0 (units (streamOf c2))) :
    flat (runChunks handTable cl1 (natChunks c1)) = flat (runChunks handTable cl2 (natChunks c2)) := by
  rw [reads_disappear cl1 c1 h1, reads_disappear cl2 c2 h2, hsame]

-- an oracle that joins an invalid byte to the Prepend character before it (the F102d witness) is admitted now
example : Respects (fun p => if p = 0 then 2 else 1) 0 (units [0xD8, 0x80, 0xFF]) := by decide

/-- The statement with no hypothesis on the oracle at all.  Not a statement about the code: an
    "oracle" that joins an ESC to the letter before it (uniseg never does: GB4/GB5) swallows the ESC
    into the Print — `Witness.F102.chunk_independent_needs_c0_oracle`. -/
def chunk_independent_full : Prop :=
  ∀ (cl : Nat → Nat) (c1 c2 : List (List UInt8)), streamOf c1 = streamOf c2 →
    flat (runChunks handTable cl (natChunks c1)) = flat (runChunks handTable cl (natChunks c2))

/-- **Each Print is one grapheme cluster — unless cut by a read boundary or an invalid byte.**  For a
    stream of bytes ≥ 0x20, every split into reads and **any** oracle (no hypothesis at all; in
    particular any `cluster` with `0 < cluster l ≤ l.length`): the items are Prints then `EOF{}`; the
    Prints are consecutive, non-empty blocks of the units of the stream, in order, covering it exactly
    (nothing lost, duplicated or reordered); only the first unit of a block can be an invalid byte;
    a block starting at byte offset `pos` has at most `max 1 (cl pos)` units, and fewer only if it
    ends exactly at a read boundary or in front of an invalid byte (which starts the next block).
    What a Print carries is `render block` = every unit as its own rune (valid scalar, or the raw
    invalid byte): nothing is altered. -/
theorem text_blocks (cl : Nat → Nat) (chunks : List (List UInt8)) (htext : ∀ b ∈ streamOf chunks, 0x20 ≤ b) :
    ∃ blocks : List (List U),
      runChunks handTable cl (natChunks chunks) = blocks.map (fun b => Item.print (render b)) ++ [.seq .eof] ∧
      blocks.flatten = units (streamOf chunks) ∧ BlocksOk cl (IsCut (natChunks chunks)) 0 blocks :=
  runChunks_blocks cl (natChunks chunks) htext

/-- **Text conservation, every byte ≥ 0x20, any oracle** (printable ASCII, DEL, every valid UTF-8
    scalar, every raw invalid byte): for every split into reads and whatever the cluster oracle says,
    the parser delivers only Prints and the end marker, and the runes of the Prints, in order, are
    exactly the decoded stream — each valid scalar once, each invalid byte as itself, nothing lost,
    duplicated, altered or reordered.  (Round 2: `text_conserved_full`, false because of F102d;
    `text_conserved_partial` needed an oracle keeping off invalid bytes.) -/
theorem text_conserved (cl : Nat → Nat) (chunks : List (List UInt8))
    (htext : ∀ b ∈ streamOf chunks, 0x20 ≤ b) :
    flat (runChunks handTable cl (natChunks chunks)) = (decodeRunes (streamOf chunks)).map .print ++ [.eof] := by
  obtain ⟨blocks, h1, h2, _⟩ := text_blocks cl chunks htext
  rw [h1, decodeRunes, ← h2]
  exact flat_blocks blocks

/-- The round-2 statement (a respectful oracle), kept: a special case of `text_conserved`. -/
theorem text_conserved_partial (cl : Nat → Nat) (chunks : List (List UInt8))
    (htext : ∀ b ∈ streamOf chunks, 0x20 ≤ b) (_hR : Respects cl 0 (units (streamOf chunks))) :
    flat (runChunks handTable cl (natChunks chunks)) = (decodeRunes (streamOf chunks)).map .print ++ [.eof] :=
  text_conserved cl chunks htext

-- the block structure on a concrete stream: "e" + U+0301 split inside the combining mark, oracle joining them
example : runChunks handTable (fun p => if p = 0 then 2 else 1) (natChunks [[0x65, 0xCC], [0x81, 0x41]]) =
    [.print [0x65, 0x301], .print [0x41], .seq .eof] := by decide
-- the F102d stream: the invalid byte FF after the Prepend character U+0600, joined by the oracle, is its own Print
example : runChunks handTable (fun p => if p = 0 then 2 else 1) (natChunks [[0xD8, 0x80, 0xFF]]) =
    [.print [0x600], .print [0xFF], .seq .eof] := by decide
-- … and cut by the read boundary when the mark arrives in the next read
example : runChunks handTable (fun p => if p = 0 then 2 else 1) (natChunks [[0x65], [0xCC, 0x81, 0x41]]) =
    [.print [0x65], .print [0x301], .print [0x41], .seq .eof] := by decide

end VaxisModel.Props.C02Text
