import VaxisModel.Lemmas.Input
import VaxisModel.Lemmas.InputLoop
import VaxisModel.Lemmas.InputEvents
import VaxisModel.Lemmas.InputFlow
import VaxisModel.Lemmas.InputFlowAny
import VaxisModel.Lemmas.InputFlowCpr

/-!
# C03 — every terminal report becomes the right event; the input loop survives any input

Theorems over `Model/Input.lean` (transcription of `handleSequence`, `parseMouseEvent`, the
collection loop of `New`) and `Model/InputLoop.lean` (LTS of the input goroutine, the event queue
and the reply channels).  The facts read from the source on every run are in `Gen/Caps.lean`.
-/
namespace VaxisModel.Props.C03
open VaxisModel.Model.Input VaxisModel.Model.InputLoop
open VaxisModel.Lemmas.Input VaxisModel.Lemmas.InputLoop VaxisModel.Lemmas.InputEvents VaxisModel.Lemmas.InputFlow
open VaxisModel.Lemmas.InputFlowAny (NotCprKey emitted_spec_any)
open VaxisModel.Lemmas.InputFlowCpr (unambiguous emitted_spec_cpr)
open VaxisModel.Spec.InputEvents (mouseEvent UEvent)

/-! ## Tie to the source: the constants and guards the theorems rely on -/

/-- The bit masks of mouse.go are the SGR-1006 ones. -/
theorem mouse_constants :
    Gen.Caps.buttonBits = 195 ∧ Gen.Caps.motion = 32 ∧ Gen.Caps.mouseModShift = 4 ∧
    Gen.Caps.mouseModAlt = 8 ∧ Gen.Caps.mouseModCtrl = 16 := by decide

/-- The first guard of `parseMouseEvent` is a disjunction (F09 repaired). -/
theorem mouse_guard_is_or : Gen.Caps.mouseGuardIsOr = true := by decide

/-- The five buffered reply sends are non-blocking and the clipboard hand-off has a time-out
(F10, F11, F12 repaired). -/
theorem send_kinds : Kinds.ofGen =
    { cursorPos := .nonblocking, sizeDone := .nonblocking, color := .nonblocking, fg := .nonblocking,
      bg := .nonblocking, clipboard := .timeout } := by decide

/-- The requester side of the cursor-position hand-off as the LTS models it (F12 repaired):
`chCursorPos` has capacity 1, and `CursorPosition()` drops a stale answer, raises the request flag,
writes the query, arms a 50 ms timer and waits for the timer (clearing the flag) or the answer. -/
theorem cursor_position_shape :
    cursorCapGen = 1 ∧ cursorDrainGen = true ∧ cursorTimeoutResetsGen = true ∧
    Gen.Caps.cp_select = [
      ("<-timeout.C", ["log.Warn(\"CursorPosition timed out\")", "atomicStore(&vx.reqCursorPos, false)", "return -1, -1"]),
      ("pos := <-vx.chCursorPos", ["return pos[0] - 1, pos[1] - 1"])] ∧
    Gen.Caps.cp_stmts = [
      "select { case <-vx.chCursorPos: default: }",
      "atomicStore(&vx.reqCursorPos, true)",
      "_, _ = io.WriteString(vx.console, dsrcpr)",
      "timeout := time.NewTimer(50 * time.Millisecond)",
      "select { case <-timeout.C: log.Warn(\"CursorPosition timed out\") atomicStore(&vx.reqCursorPos, false) return -1, -1 case pos := <-vx.chCursorPos: return pos[0] - 1, pos[1] - 1 }"] := by
  decide +kernel

/-- `handleSequence` takes the request flag in one atomic step (compare-and-swap; F103 repaired:
with a separate load and store the store could withdraw a request raised in between), and nothing
else in vaxis.go touches the flag but `CursorPosition` (raise; lower on its own time-out).  This
is what entitles the LTS to treat "flag seen and lowered" as part of the `.input` label. -/
theorem cpr_take_atomic :
    Gen.Caps.cprCond = "atomic.CompareAndSwapInt32(&vx.reqCursorPos, 1, 0)" ∧
    Gen.Caps.reqFlagOps = [
      ("handleSequence", "atomic.CompareAndSwapInt32(&vx.reqCursorPos, 1, 0)"),
      ("CursorPosition", "atomicStore(&vx.reqCursorPos, true)"),
      ("CursorPosition", "atomicStore(&vx.reqCursorPos, false)")] := by decide +kernel

/-- In the LTS a standing cursor-position request is withdrawn only by the goroutine accepting a
sequence (the report that answers it) or by the requester's own time-out — never by a later step
of the goroutine (the hand-off), whatever was called in between. -/
theorem flag_lowered_only_by (p : Params) (s s' : Sys) (l : Label)
    (h : next p s l = some (.ok s')) (hup : s.vs.reqCursorPos = true) (hdown : s'.vs.reqCursorPos = false) :
    (∃ q, l = .input q) ∨ l = .cursorTimeout := by
  cases l with
  | input q => exact Or.inl ⟨q, rfl⟩
  | cursorTimeout => exact Or.inr rfl
  | step =>
    exfalso
    simp only [next] at h
    split at h
    · simp at h
    · rename_i e rest _
      cases hs : stepEffect p s e rest with
      | none => simp [hs] at h
      | some t =>
        simp [hs] at h
        have := stepEffect_vs p s t e rest hs
        rw [← h, this, hup] at hdown
        cases hdown
  | _ =>
    exfalso
    simp only [next] at h
    (repeat' split at h) <;> simp at h <;> (try (subst h; simp_all))

/-- The "recall" schedule (replayed on the real code through the yield point): the first call
times out after the goroutine has taken the flag, a second call raises it again, the goroutine
hands the first answer over (the second call receives it), and the second report is still
consumed as a reply — no key event, the answer parked for the next call to drop. -/
example :
    (match run { qcap := 4, kinds := Kinds.ofGen, b64 := fun _ => none } {}
        [.cursorDrain, .cursorCall, .input (.csi [] [[3], [7]] (ch 'R')), .cursorTimeout, .cursorDrain, .cursorCall,
         .step, .cursorRecv, .input (.csi [] [[4], [9]] (ch 'R')), .step] with
     | some s => s.pend == [] && s.queue == [] && s.cursorGot == [(3, 7)] && s.cursorCh == [(4, 9)] && !s.vs.reqCursorPos
     | none => false) = true := by decide

theorem send_kinds_safe : Kinds.safe Kinds.ofGen := by
  rw [send_kinds]; simp [Kinds.safe]

/-! ## mouse_exact -/

/-- The model's `Mouse` for a spec-level mouse event. -/
def mouseOfSpec {κ : Type} : UEvent κ → Option Mouse
  | .mouse button col row et mods => some { button := button, row := row, col := col, eventType := et, mods := mods }
  | _ => none

/-- `CSI < b ; x ; y M/m` decodes exactly as the SGR protocol defines: button from bits 0–1 and
6–7, motion bit 5, shift/alt/ctrl bits 2/3/4, `col = x − 1`, `row = y − 1`, press/release by the
final byte — for every button value and all coordinates a Go `int` can hold. -/
theorem mouse_exact (b x y : Nat) (rel : Bool) (hx : x < 2 ^ 63) (hy : y < 2 ^ 63) :
    parseMouse [ch '<'] [[(b : Int)], [(x : Int)], [(y : Int)]] (if rel then ch 'm' else ch 'M')
      = .ok (mouseOfSpec (mouseEvent (κ := Unit) b x y rel)) := by
  have hg : mouseGuard [60] = .ok false := mouseGuard_sgr
  obtain ⟨h1, h2, h3, h4, h5⟩ := mouse_constants
  cases rel <;>
  simp [parseMouse, hg, idx2, idx, bind, Except.bind, pure, Except.pure, h1, h2, h3, h4, h5, mouseOfSpec, mouseEvent,
    andMask_buttons, wrap64_pred, hx, hy, mods_sum, andMask_motion, ch, evPress, evMotion, evRelease,
    VaxisModel.Spec.InputEvents.etMotion, VaxisModel.Spec.InputEvents.etPress, VaxisModel.Spec.InputEvents.etRelease] <;>
  (rcases Nat.mod_two_eq_zero_or_one (b / 32) with h | h <;> simp [h])

/-- Every other shape (no `<` marker, more than one intermediate, not exactly three parameters)
is rejected without a panic. -/
theorem mouse_rejects (interm : List Nat) (params : List (List Int)) (final : Nat)
    (h : interm ≠ [ch '<'] ∨ params.length ≠ 3) : parseMouse interm params final = .ok none := by
  have hor := mouse_guard_is_or
  unfold parseMouse mouseGuard mouseGuardWith
  rcases interm with _ | ⟨i0, _ | ⟨i1, irest⟩⟩
  · simp [hor, bind, Except.bind, pure, Except.pure]
  · by_cases hi : i0 = ch '<'
    · subst hi
      have hl : params.length ≠ 3 := by
        rcases h with h | h
        · exact absurd rfl h
        · exact h
      simp [hor, idx, bind, Except.bind, pure, Except.pure, hl]
    · simp [hor, idx, bind, Except.bind, pure, Except.pure, hi]
  · simp [hor, bind, Except.bind, pure, Except.pure]

/-- Non-vacuity: a left-button press with Ctrl at column 10, row 5. -/
example : parseMouse [ch '<'] [[16], [10], [5]] (ch 'M')
    = .ok (some { button := 0, row := 4, col := 9, eventType := evPress, mods := modCtrl }) := by rfl

/-! ## handle_total -/

/-- `handleSequence` never panics on a sequence the parser can deliver (every CSI parameter has
at least one sub-parameter), in any state, for any base64 decoder. -/
theorem handle_total (b64 : List Nat → Option (List Nat)) (st : VState) (s : Seq) (h : WfSeq s) :
    ∃ r, handle b64 st s = .ok r :=
  (ok_iff _).mpr (handle_ok b64 st s h)

/-- The hypothesis is needed: an empty parameter list (which the parser never builds) panics. -/
example : handle (fun _ => none) {} (.csi [] [[]] (ch 't')) = .ok ({}, []) := by rfl
example : (match handle (fun _ => none) {} (.csi [] [[8], [], [1]] (ch 't')) with | .error _ => true | .ok _ => false) = true := by decide

/-! ## never_wedges -/

/-- Full statement: from every reachable state internal moves alone (the goroutine's own steps,
the clipboard time-out, the application reading events) bring the input goroutine back to its
`select`.  False of the source before the F12 repair (Witness/F12.lean); true now (`never_wedges`). -/
def never_wedges_full (p : Params) (s0 : Sys) : Prop :=
  ∀ s, Reachable p s0 s → ∃ ls s', (∀ l ∈ ls, l.internal = true) ∧ run p s ls = some s' ∧ s'.pend = []

/-- For every queue capacity ≥ 1, every base64 decoder, with the send kinds, the `chCursorPos`
capacity and the `CursorPosition` prologue of the current source, from every state reachable (by
any labels: terminal input, requesters calling, receiving, timing out at any moment) from a state
with a legal queue, the input goroutine gets back to its `select` by internal moves alone — no
further terminal input, no requester, no matter which replies were unsolicited, repeated,
truncated or late.  Unconditional since the F12 repair. -/
theorem never_wedges (qcap : Nat) (hq : 0 < qcap) (b64 : List Nat → Option (List Nat)) (s0 : Sys)
    (h0 : s0.queue.length ≤ qcap) :
    never_wedges_full { qcap := qcap, kinds := Kinds.ofGen, b64 := b64 } s0 := by
  intro s hr
  exact settle { qcap := qcap, kinds := Kinds.ofGen, b64 := b64 } hq send_kinds_safe s.pend s rfl
    (reach_queue_le _ s0 s h0 hr)

/-- The F12 schedule (request, report consumed, time-out before the hand-off) is a run of the
LTS with the current source's parameters, and it ends with the goroutine back at its `select`
after one more step: the answer is parked in the buffered channel and dropped by the next call. -/
example :
    (match run { qcap := 1, kinds := Kinds.ofGen, b64 := fun _ => none } {}
        [.cursorDrain, .cursorCall, .input (.csi [] [[3], [7]] (ch 'R')), .cursorTimeout, .step, .cursorDrain, .cursorCall] with
     | some s => s.pend == [] && s.cursorCh == [] && s.cursorWaiting
     | none => false) = true := by decide

/-- Non-vacuity: after two unsolicited size reports with the capability known (the F10 input),
the state satisfies the hypotheses and the goroutine is mid-sequence. -/
example :
    (match run { qcap := 1, kinds := Kinds.ofGen, b64 := fun _ => none }
        { vs := { caps := { reportSizeChars := true } } }
        [.input (.csi [] [[8], [24], [80]] (ch 't')), .step, .input (.csi [] [[8], [24], [80]] (ch 't'))] with
     | some s => s.pend == [.sendSizeDone] && s.sizeDone == 1
     | none => false) = true := by decide


/-! ## events_exact -/

/-- For every list of well-formed reports (key presses in any legacy/kitty encoding that reaches
the key decoder, SGR mouse reports, focus changes, paste brackets, consumed query replies, in-band
resize and colour-theme notifications), handled in order from any state with no cursor-position
request outstanding: no panic, and the application-visible events posted are exactly the events
the grammar-level spec requires — one per report, in order, keys inside a paste marked as pasted,
replies invisible.  (Sequence level: `SReport.seq` is what the parser delivers for the report,
which is C02's round-trip property.) -/
theorem events_exact (b64 : List Nat → Option (List Nat)) (rs : List SReport) (st : VState)
    (hw : ∀ r ∈ rs, r.Wf) (hreq : st.reqCursorPos = false) :
    ∃ st' evs, pipeline b64 st (rs.map SReport.seq) = .ok (st', evs) ∧
      visible evs = VaxisModel.Spec.InputEvents.specEvents st.pastePending (rs.map SReport.spec) :=
  pipeline_events b64 rs st hw hreq

/-- Non-vacuity: paste start, `a`, paste end, Ctrl+Up, a mouse press, an unsolicited DA1. -/
example : ∀ r ∈ [SReport.pasteStart, .key (.print [97] 1), .pasteEnd, .key (.csi [] [[1, 5]] (ch 'A')),
    .mouse 0 3 4 false, .reply (.csi [ch '?'] [[62], [4]] (ch 'c'))], r.Wf := by
  intro r hr
  simp only [List.mem_cons, List.mem_nil_iff, or_false] at hr
  rcases hr with rfl | rfl | rfl | rfl | rfl | rfl
  · trivial
  · trivial
  · trivial
  · simp [SReport.Wf, LegitKey, ch]
  · simp [SReport.Wf]
  · refine ⟨by decide, ?_⟩
    intro p hp
    simp at hp
    rcases hp with rfl | rfl <;> simp

/-! ## input_never_lost — the composed model: parser output → `handleSequence` → pending posts → event queue → application -/

/-- **Queue mechanics.**  For every run of the input LTS — any labels (terminal input, goroutine
steps, the application consuming, requesters calling / receiving / timing out), any queue
capacity, any send kinds — the user-input events (keys, mouse reports, focus changes, paste
brackets) delivered, queued or still pending are exactly those there at the start followed by what
`handleSequence` posted for each sequence, in order: the queue, the blocking posts and the
dropped non-blocking posts (never user input) lose, duplicate and reorder nothing. -/
theorem flow_preserved (p : Params) (ls : List Label) (s s' : Sys) (hr : run p s ls = some s') (hnb : nbOK s.pend) :
    ui (flow s') = ui (flow s) ++ ui (emitted p s ls) :=
  (flow_run p ls s s' hr hnb).1

/-- **input_never_lost.**  For every list of well-formed reports (keys in any encoding, SGR mouse,
focus, paste brackets, replies of every shape, in-band resize, colour theme) arbitrarily
interleaved, fed to the LTS as its terminal input under *any* schedule (labels in any order and
number, any queue capacity, requesters other than `CursorPosition` active at any time), from a
state with no cursor-position request outstanding: each key press, mouse report, focus change and
paste boundary of the stream appears exactly once among delivered ++ queued ++ pending events, in
stream order, mouse reports decoded per SGR-1006, keys inside a paste marked as pasted — after
whatever user input was already in flight. -/
theorem input_never_lost (p : Params) (rs : List SReport) (ls : List Label) (s s' : Sys)
    (hin : inputSeqs ls = rs.map SReport.seq) (hw : ∀ r ∈ rs, r.Wf) (hreq : s.vs.reqCursorPos = false)
    (hnc : ∀ l ∈ ls, l ≠ .cursorCall) (hnb : nbOK s.pend) (hr : run p s ls = some s') :
    (visible (flow s')).filter uiU =
      (visible (flow s)).filter uiU ++ (VaxisModel.Spec.InputEvents.specEvents s.vs.pastePending (rs.map SReport.spec)).filter uiU := by
  rw [← visible_ui, ← visible_ui, flow_preserved p ls s s' hr hnb]
  have := emitted_spec p ls rs s s' hin hw hreq hnc hr
  rw [← this, ← visible_ui]
  simp [visible, List.filterMap_append]

/-- **input_never_lost, any requester activity.**  The same for every run in which `CursorPosition`
is called, drops a stale answer, receives an answer already in flight and times out at any moment
(labels `cursorCall`, `cursorDrain`, `cursorRecv`, `cursorTimeout` anywhere in the schedule), from
any state of the request flag — provided no key of the stream is encoded `CSI … R` (the one
encoding that shares its final byte with the cursor-position report and is, by design, taken for
the answer while the flag is up; the answers themselves are for the same reason outside the
report vocabulary — their hand-off is `never_wedges` / `flag_lowered_only_by` and the race
replay): user input is neither lost nor reordered by queries outstanding or timing out around it. -/
theorem input_never_lost_any_requester (p : Params) (rs : List SReport) (ls : List Label) (s s' : Sys)
    (hin : inputSeqs ls = rs.map SReport.seq) (hw : ∀ r ∈ rs, r.Wf) (hk : ∀ r ∈ rs, NotCprKey r)
    (hnb : nbOK s.pend) (hr : run p s ls = some s') :
    (visible (flow s')).filter uiU =
      (visible (flow s)).filter uiU ++ (VaxisModel.Spec.InputEvents.specEvents s.vs.pastePending (rs.map SReport.spec)).filter uiU := by
  rw [← visible_ui, ← visible_ui, flow_preserved p ls s s' hr hnb]
  have := emitted_spec_any p ls rs s s' hin hw hk hr
  rw [← this, ← visible_ui]
  simp [visible, List.filterMap_append]

/-- **input_never_lost, cursor-position reports included.**  For *every* stream of well-formed,
parser-deliverable reports — now also `CSI … R` sequences: answers to cursor-position queries, late
answers, and the keys that share this encoding — under *every* schedule (queries made, answered,
timed out and repeated at any moment, any queue capacity): every user-input event other than a key
encoded `CSI … R` appears exactly once, in stream order, correctly decoded and paste-marked.  (A
`CSI … R` sequence itself is, by design of DSR 6, the answer while a request stands and a key
otherwise; whichever it is, it neither removes, duplicates nor reorders anything else.) -/
theorem input_never_lost_with_cpr (p : Params) (rs : List SReport) (ls : List Label) (s s' : Sys)
    (hin : inputSeqs ls = rs.map SReport.seq) (hw : ∀ r ∈ rs, r.Wf) (hs : ∀ r ∈ rs, WfSeq r.seq)
    (hnb : nbOK s.pend) (hr : run p s ls = some s') :
    ((visible (flow s')).filter uiU).filter unambiguous =
      ((visible (flow s)).filter uiU).filter unambiguous ++
        (VaxisModel.Spec.InputEvents.specEvents s.vs.pastePending (rs.map SReport.spec)).filter unambiguous := by
  rw [← visible_ui, ← visible_ui, flow_preserved p ls s s' hr hnb]
  have := emitted_spec_cpr p ls rs s s' hin hw hs hr
  rw [← this]
  have hu : ∀ l : List Event, (visible l).filter unambiguous = (visible (ui l)).filter unambiguous := by
    intro l
    rw [visible_ui, List.filter_filter]
    congr 1; funext u
    cases u <;> simp [unambiguous, uiU]
  rw [hu (emitted p s ls)]
  simp [visible, List.filterMap_append]

/-- Non-vacuity: a query, a key, the answer `CSI 3;7 R`, a mouse report, a second `CSI 4;9 R` with no
query outstanding (it comes out as a key) — the run exists. -/
example :
    (match run { qcap := 4, kinds := Kinds.ofGen, b64 := fun _ => none } {}
        [.cursorDrain, .cursorCall, .input (SReport.seq (.key (.print [97] 1))), .step,
         .input (SReport.seq (.key (.csi [] [[3], [7]] (ch 'R')))), .step, .cursorRecv,
         .input (SReport.seq (.mouse 0 3 4 false)), .step, .input (SReport.seq (.key (.csi [] [[4], [9]] (ch 'R')))), .step] with
     | some s => s.queue.length == 3 && s.cursorGot == [(3, 7)]
     | none => false) = true := by decide

/-- Non-vacuity: a key and a mouse report arrive while a cursor-position query is outstanding and
an earlier answer is still being handed over; the query times out, a second one is made; the run
exists, both events are delivered in order. -/
example :
    (match run { qcap := 2, kinds := Kinds.ofGen, b64 := fun _ => none }
        { pend := [.sendCursorPos 3 7], cursorWaiting := true, vs := { reqCursorPos := false } }
        [.step, .cursorRecv, .cursorDrain, .cursorCall, .input (SReport.seq (.key (.print [97] 1))), .step, .consume,
         .input (SReport.seq (.mouse 0 3 4 false)), .cursorTimeout, .step, .cursorDrain, .cursorCall, .consume] with
     | some s => s.delivered.length == 2 && s.cursorGot == [(3, 7)] && s.vs.reqCursorPos
     | none => false) = true := by decide

/-- Non-vacuity: a paste bracket, a key, a DA1 reply, a mouse press through a queue of capacity 1
with the application consuming in between; the run exists. -/
example :
    (match run { qcap := 1, kinds := Kinds.ofGen, b64 := fun _ => none } {}
        [.input (SReport.seq .pasteStart), .step, .consume, .input (SReport.seq (.key (.print [97] 1))), .step,
         .input (SReport.seq (.reply (.csi [ch '?'] [[62], [4]] (ch 'c')))), .consume, .step, .consume, .step,
         .input (SReport.seq (.mouse 0 3 4 false)), .consume, .step] with
     | some s => (flow s).length == 5 && s.delivered.length == 4
     | none => false) = true := by decide

/-! ## replies_internal -/

/-- Every sequence consumed as a reply (DCS, APC, OSC; `CSI ? … c/S/u`, `CSI … y`, `CSI … t` other
than the in-band resize, `CSI ? a;b n` other than the colour-theme report) posts only events of
unexported types and leaves the paste and cursor-request flags untouched — in every state, whether
solicited, unsolicited, repeated or malformed. -/
theorem replies_internal (b64 : List Nat → Option (List Nat)) (st st' : VState) (s : Seq) (effs : List Effect)
    (hq : isQueryReply s = true) (h : handle b64 st s = .ok (st', effs)) :
    (∀ e ∈ posted effs, e.userVisible = false) ∧ st'.pastePending = st.pastePending ∧ st'.reqCursorPos = st.reqCursorPos := by
  have hr := isQueryReply_ok b64 st s hq
  simp only [h, replyOK, Bool.and_eq_true, beq_iff_eq] at hr
  obtain ⟨⟨ha, hp⟩, hrq⟩ := hr
  exact ⟨posted_internal effs ha, hp, hrq⟩

/-- The start-up loop of `New` turns each internal event into exactly the capability it stands
for: the record changes in at most that one field, which becomes true. -/
theorem collect_exact (c : Caps) (i : Internal) :
    (collect false c i).toList = match fieldIndex i with
      | some k => c.toList.set k true
      | none => c.toList := by
  cases i <;> rfl

/-- A cursor-position report while a request is outstanding is handed to the requester and
clears the request; nothing is posted. -/
theorem reply_cpr (b64 : List Nat → Option (List Nat)) (st : VState) (r c : Int) (h : st.reqCursorPos = true) :
    handle b64 st (.csi [] [[r], [c]] (ch 'R')) = .ok ({ st with reqCursorPos := false }, [.sendCursorPos r c]) := by
  simp [handle, handleCSI, ch, h, idx2, idx, bind, Except.bind, pure, Except.pure]

/-- A character-size report once the capability is known updates exactly columns and rows and
signals `chSizeDone`; before that it only announces the capability. -/
theorem reply_size_chars (b64 : List Nat → Option (List Nat)) (st : VState) (h w : Int) :
    handle b64 st (.csi [] [[8], [h], [w]] (ch 't')) =
      .ok ({ st with nextSize := { st.nextSize with cols := w, rows := h } },
           if st.caps.reportSizeChars then [.sendSizeDone] else [.postB (.internal .textAreaChar)]) := by
  cases hc : st.caps.reportSizeChars <;>
  simp [handle, handleCSI, ch, idx2, idx, bind, Except.bind, pure, Except.pure, post, hc]

theorem reply_size_pixels (b64 : List Nat → Option (List Nat)) (st : VState) (h w : Int) :
    handle b64 st (.csi [] [[4], [h], [w]] (ch 't')) =
      .ok ({ st with nextSize := { st.nextSize with xpix := w, ypix := h } },
           if st.caps.reportSizePixels then [] else [.postB (.internal .textAreaPix)]) := by
  cases hc : st.caps.reportSizePixels <;>
  simp [handle, handleCSI, ch, idx2, idx, bind, Except.bind, pure, Except.pure, post, hc]

/-- A foreground-colour reply is offered to `QueryForeground` only once the capability is known,
and always announces the capability; likewise OSC 4 and 11. -/
theorem reply_osc10 (b64 : List Nat → Option (List Nat)) (st : VState) (rest : List Nat) :
    handle b64 st (.osc (ch '1' :: ch '0' :: rest)) =
      .ok (st, (if st.caps.osc10 then [Effect.sendFg (ch '1' :: ch '0' :: rest)] else []) ++ [.postB (.internal .capabilityOsc10)]) := by
  simp [handle, handleOSC, isPrefix, str, ch, bind, Except.bind, pure, Except.pure]

/-! ## Coverage of `handleSequence` (regenerated skeleton) -/

/-- The arms of `handleSequence` are exactly those the model transcribes: adding, removing or
relabelling a case changes `Gen.Caps.hs_switches` and this theorem stops checking. -/
theorem switch_coverage : Gen.Caps.hs_switches = [
    ("type", ["ansi.Print", "ansi.C0", "ansi.ESC", "ansi.SS3", "ansi.CSI", "ansi.DCS", "ansi.APC", "ansi.OSC"]),
    ("seq.Final", ["'c'", "'I'", "'O'", "'R'", "'S'", "'n'", "'y'", "'u'", "'~'", "'M'", "'m'", "'t'"]),
    ("ps[0]", ["4"]),
    ("seq.Parameters[0][0]", ["2"]),
    ("seq.Parameters[0][0]", ["colorThemeResp"]),
    ("seq.Parameters[0][0]", ["2026", "2027", "2031"]),
    ("seq.Parameters[1][0]", ["1", "2"]),
    ("seq.Parameters[1][0]", ["1", "2", "3"]),
    ("seq.Parameters[1][0]", ["1", "2"]),
    ("seq.Parameters[0][0]", ["200", "201"]),
    ("typ", ["4", "8", "48"]),
    ("len(seq.Parameters)", ["5"]),
    ("seq.Final", ["'r'", "'|'"]),
    ("seq.Intermediate[0]", ["'+'", "'$'"]),
    ("vals[0]", ["hexEncode(\"Smulx\")", "hexEncode(\"RGB\")"]),
    ("seq.Intermediate[0]", ["'!'", "'>'"])] := by decide +kernel

/-- The DECRPM values the model reads from the source: set/reset for 2026 and 2031, and also
"permanently set" for 2027. -/
theorem decrpm_values : decrpmVals 0 = [1, 2] ∧ decrpmVals 1 = [1, 2, 3] ∧ decrpmVals 2 = [1, 2] := by decide +kernel

theorem literal_coverage : Gen.Caps.hs_literals = [
    ("strings.Split", "="), ("hexEncode", "Smulx"), ("hexEncode", "RGB"), ("strings.HasSuffix", " q"),
    ("hexEncode", "~VTE"), ("strings.HasPrefix", "G"), ("strings.HasPrefix", "4"), ("strings.HasPrefix", "10"),
    ("strings.HasPrefix", "11"), ("strings.HasPrefix", "52"), ("strings.Split", ";"), ("strings.HasPrefix", "176"),
    ("strings.Split", ";")] ∧ Gen.Caps.colorThemeResp = 997 := by decide +kernel

/-- Every index expression of `handleSequence` / `parseMouseEvent` is one the model checks. -/
theorem index_coverage :
    Gen.Caps.hs_indexExprs.eraseDups = ["seq.Intermediate[0]", "ps[0]", "seq.Parameters[0][0]", "seq.Parameters[1][0]",
      "seq.Parameters[2][0]", "seq.Parameters[3][0]", "seq.Parameters[4][0]", "seq.Parameters[0]", "vals[0]", "seq.Data[0]",
      "vals[2]", "vals[1]"] ∧
    Gen.Caps.pm_indexExprs.eraseDups = ["seq.Intermediate[0]", "seq.Parameters[0][0]", "seq.Parameters[1][0]",
      "seq.Parameters[2][0]"] ∧ Gen.Caps.hs_indexExprs.length = 28 ∧ Gen.Caps.pm_indexExprs.length = 8 := by decide +kernel

/-- The capability record and the collection loop of `New` are the ones the model transcribes. -/
theorem caps_coverage :
    Gen.Caps.capFields = Caps.fieldNames ∧
    (Gen.Caps.collect.filter (fun x => x.1 != "appID" && x.1 != "terminalID")).map (fun x => (x.1, x.2.1)) = collectTable ∧
    (Gen.Caps.collect.filter (fun x => x.1 == "appID" || x.1 == "terminalID")).map (fun x => (x.1, x.2.1))
      = [("appID", ["osc176"]), ("terminalID", [])] := by decide +kernel

/-- The reply channels have the capacities the LTS assumes (1,1,1,1,1,0). -/
theorem chan_capacities :
    (["chCursorPos", "chSizeDone", "chColor", "chFg", "chBg", "chClipboard"].map fun c => (Gen.Caps.chanCaps.lookup c))
      = [some "1", some "1", some "1", some "1", some "1", some "0"] := by decide +kernel

end VaxisModel.Props.C03
