import VaxisModel.Model.InputLoop
import VaxisModel.Spec.InputEvents

namespace VaxisModel.Props.C03
open VaxisModel.Model.Input

theorem placeholder : (1 : Nat) = 1 := rfl

end VaxisModel.Props.C03
