/-
C03, round 4 — `handleSequence`, `parseMouseEvent` and `Resize` INTERPRETED from the source.

`Gen/InputBody.lean` (regenerated on every run by extract/cmd/C03 with the go/ast translator of
C09/C13) holds the three bodies as terms of the statement language `Model/GoBody.lean`;
`Model/InputBody.lean` executes them.  The theorems below say that this execution IS the hand model
of `Model/Input.lean` (over which all the other C03 / C07 theorems are proved), for every state and
every sequence: same new state, same effects in the same order, each written the way the LTS assumes
(blocking post / non-blocking post / `select` with `default` / `select` with a time-out case), the
same early returns and `break`s, a run-time panic exactly where the model has one — and the
interpreter never meets a construct it has no meaning for.
-/
import VaxisModel.Lemmas.InputBodyArms3
import VaxisModel.Props.C03
import VaxisModel.Lemmas.CursorBody

namespace VaxisModel.Props.C03Body
open VaxisModel.Model.GoBody VaxisModel.Model.Input VaxisModel.Model.InputBody VaxisModel.Model.InputLoop
open VaxisModel.Gen.InputBody VaxisModel.Lemmas.InputBodyArms

/-- Every node of the three regenerated bodies is one the translator knows (no `.unknown`, no
operator or assignment token it has no constructor for). -/
theorem bodies_fully_recognised :
    hs.clean = true ∧ pm.clean = true ∧ rz.clean = true ∧ unknownCount = 0 := by decide

/-- The constants the interpreter (and the hand model) use for `EventType` and the modifier masks
are those of key.go's iota blocks, read from the source on every run. -/
theorem interpreter_constants_from_source :
    Gen.InputBody.eventTypes.lookup "EventPress" = some evPress ∧ Gen.InputBody.eventTypes.lookup "EventRelease" = some evRelease ∧
    Gen.InputBody.eventTypes.lookup "EventMotion" = some evMotion ∧ Gen.InputBody.eventTypes.lookup "EventPaste" = some evPaste ∧
    Gen.InputBody.modifierMasks.lookup "ModShift" = some modShift ∧ Gen.InputBody.modifierMasks.lookup "ModAlt" = some modAlt ∧
    Gen.InputBody.modifierMasks.lookup "ModCtrl" = some modCtrl := by decide

/-- `parseMouseEvent` run on its regenerated body = the hand model `parseMouse`, for all
intermediates, parameter lists and finals: the same `Mouse` and `ok`, a panic exactly where the
model has one. -/
theorem parseMouse_body_eq_model (interm : List Nat) (params : List (List Int)) (final : Nat) :
    runPm (.csi interm params final) = pmOfModel (parseMouse interm params final) :=
  pm_eq interm params final

/-- `handleSequence` run on its regenerated body = the hand model `handle`, for every base-64
decoder, every state and every sequence: the new state, the effects in order, and for each effect
the way its statement is written in the source = the kind the LTS takes from `Gen.Caps.hs_sends`. -/
theorem handleSequence_body_eq_model (b64 : List Nat → Option (List Nat)) (vs : VState) (s : Seq) :
    runHs b64 vs s = ofModel Kinds.ofGen (handle b64 vs s) := by
  cases s with
  | print g w => exact key_print b64 vs g w
  | c0 r => exact key_c0 b64 vs r
  | esc i f => exact key_esc b64 vs i f
  | ss3 r => exact key_ss3 b64 vs r
  | other => exact no_arm b64 vs
  | apc d => exact apc_all b64 vs d
  | osc pl => exact osc_all b64 vs pl
  | dcs f i p d =>
    by_cases h1 : f = 114
    · subst h1; exact dcs_r b64 vs i p d
    · by_cases h2 : f = 124
      · subst h2; exact dcs_pipe b64 vs i p d
      · exact dcs_other b64 vs f i p d h1 h2
  | csi i p f =>
    by_cases h1 : f = 99
    · subst h1; exact csi_c b64 vs i p
    by_cases h2 : f = 73
    · subst h2; exact csi_I b64 vs i p
    by_cases h3 : f = 79
    · subst h3; exact csi_O b64 vs i p
    by_cases h4 : f = 82
    · subst h4; exact csi_R b64 vs i p
    by_cases h5 : f = 83
    · subst h5; exact csi_S b64 vs i p
    by_cases h6 : f = 110
    · subst h6; exact csi_n b64 vs i p
    by_cases h7 : f = 121
    · subst h7; exact csi_y b64 vs i p
    by_cases h8 : f = 117
    · subst h8; exact csi_u b64 vs i p
    by_cases h9 : f = 126
    · subst h9; exact csi_tilde b64 vs i p
    by_cases h10 : f = 77
    · exact csi_Mm b64 vs i p f (Or.inl h10)
    by_cases h11 : f = 109
    · exact csi_Mm b64 vs i p f (Or.inr h11)
    by_cases h12 : f = 116
    · subst h12; exact csi_t b64 vs i p
    exact csi_other b64 vs i p f ⟨h1, h2, h3, h4, h5, h6, h7, h8, h9, h10, h11, h12⟩

/-- The interpreter never meets something it has no meaning for, on any input: the regenerated body
stays inside the interpreted subset of Go. -/
theorem body_never_stuck (b64 : List Nat → Option (List Nat)) (vs : VState) (s : Seq) (why : String) :
    runHs b64 vs s ≠ .error (.stuck why) := by
  rw [handleSequence_body_eq_model]
  cases handle b64 vs s with
  | error e => simp [ofModel]
  | ok r => simp [ofModel]

/-- The regenerated body panics (index out of range) exactly when the hand model does. -/
theorem body_panics_iff_model (b64 : List Nat → Option (List Nat)) (vs : VState) (s : Seq) :
    runHs b64 vs s = .error .panic ↔ handle b64 vs s = .error .indexOutOfRange := by
  rw [handleSequence_body_eq_model]
  cases h : handle b64 vs s with
  | error e => cases e; simp [ofModel]
  | ok r => simp [ofModel]

/-- No reply hand-off in the regenerated body is a bare (blocking) channel send: whatever the
sequence and the state, every send effect the body performs is written as a `select` with `default`
or with a time-out case (F10, F11, F12 repaired); only posts of events block. -/
theorem body_sends_never_bare (b64 : List Nat → Option (List Nat)) (vs vs' : VState) (s : Seq)
    (effs : List KEff) (h : runHs b64 vs s = .ok (vs', effs)) (e : Effect) (k : SendKind) (hm : (e, k) ∈ effs) :
    k = .blocking → ∃ ev, e = .postB ev := by
  rw [handleSequence_body_eq_model] at h
  cases hh : handle b64 vs s with
  | error x => simp [hh, ofModel] at h
  | ok r =>
    obtain ⟨v, l⟩ := r
    simp only [hh, ofModel, Except.ok.injEq, Prod.mk.injEq] at h
    obtain ⟨-, rfl⟩ := h
    simp only [List.mem_map, Prod.mk.injEq] at hm
    obtain ⟨e', -, rfl, rfl⟩ := hm
    intro hk
    cases e' <;> simp [kindOf, kinds_now] at hk ⊢

/-- The `.input` label of the LTS of the input goroutine (`Model/InputLoop.lean`, over which
`never_wedges`, `input_never_lost*`, `caps_exact` … are proved) IS a run of the regenerated body of
`handleSequence`. -/
theorem lts_input_is_body (p : Params) (s : Sys) (q : Seq) (h : s.pend = []) :
    next p s (.input q) =
      match runHs p.b64 s.vs q with
      | .ok (vs, keffs) => some (.ok { s with vs := vs, pend := keffs.map (·.1) })
      | .error _ => some (.error .indexOutOfRange) := by
  rw [handleSequence_body_eq_model]
  simp only [next, h]
  cases hh : handle p.b64 s.vs q with
  | error e => cases e; simp [ofModel]
  | ok r => obtain ⟨v, l⟩ := r; simp [ofModel, List.map_map, Function.comp_def]


/-! ## `CursorPosition` interpreted from the source -/

/-- **`CursorPosition()` run on its regenerated body = the model**, whichever case of its final
`select` fires and whatever pair is received: it drops a stale answer (non-blocking receive on
`chCursorPos`), raises the request flag, writes `DSR 6`, arms a 50 ms timer; if the timer fires
first it lowers the flag and returns `(-1, -1)`, otherwise it receives once and returns
`(row-1, col-1)` — the labels `cursorDrain`, `cursorCall`, `cursorTimeout` (with the flag lowered),
`cursorRecv` of the LTS, in this order; no node of the body is unknown to the translator. -/
theorem cursorPosition_body_eq_model (fired : Bool) (r c : Int) :
    VaxisModel.Model.CursorBody.runCp ⟨fired, [r, c]⟩ = .ok (VaxisModel.Model.CursorBody.cursorPositionModel fired r c) ∧
    Gen.InputBody.cp.clean = true :=
  ⟨VaxisModel.Lemmas.CursorBody.cp_eq fired r c, by decide⟩

/-- The parameters the LTS reads from the statement strings of `CursorPosition` (`cp_stmts`) agree
with the interpreted body: it starts with the drain, and its time-out branch lowers the flag. -/
theorem cursor_lts_params_agree_with_body :
    cursorDrainGen = true ∧ cursorTimeoutResetsGen = true ∧
    (VaxisModel.Model.CursorBody.cursorPositionModel true 0 0).1.head? = some (.tryRecv "vx.chCursorPos") ∧
    (VaxisModel.Model.CursorBody.cursorPositionModel true 0 0).1.getLast? = some (.store "vx.reqCursorPos" false) := by decide

/-! ## The end-to-end event theorem over the interpreted source -/

/-- The sequences of a stream handled one after the other BY THE REGENERATED BODY: the final state
and everything posted, in order. -/
def pipelineBody (b64 : List Nat → Option (List Nat)) : VState → List Seq → Except Fail (VState × List Event)
  | st, [] => .ok (st, [])
  | st, s :: ss =>
    match runHs b64 st s with
    | .error e => .error e
    | .ok (st1, keffs) =>
      match pipelineBody b64 st1 ss with
      | .error e => .error e
      | .ok (st2, evs) => .ok (st2, VaxisModel.Lemmas.InputEvents.posted (keffs.map (·.1)) ++ evs)

theorem pipelineBody_eq (b64 : List Nat → Option (List Nat)) : ∀ (ss : List Seq) (st : VState),
    pipelineBody b64 st ss =
      match VaxisModel.Lemmas.InputEvents.pipeline b64 st ss with
      | .ok r => .ok r
      | .error _ => .error .panic
  | [], st => rfl
  | s :: ss, st => by
    simp only [pipelineBody, VaxisModel.Lemmas.InputEvents.pipeline, handleSequence_body_eq_model]
    cases hh : handle b64 st s with
    | error e => simp [ofModel]
    | ok r =>
      obtain ⟨st1, effs⟩ := r
      simp only [ofModel, pipelineBody_eq b64 ss st1, List.map_map, Function.comp_def, List.map_id']
      cases VaxisModel.Lemmas.InputEvents.pipeline b64 st1 ss with
      | error e => rfl
      | ok r2 => rfl

/-- **`events_exact` on the interpreted source.**  For every list of well-formed reports handled in
order by the regenerated body of `handleSequence`, from any state with no cursor-position request
outstanding: no panic, nothing the interpreter cannot execute, and the application-visible events
posted are exactly those the grammar-level spec requires — one per report, in order, keys inside a
paste marked as pasted, replies invisible. -/
theorem events_exact_body (b64 : List Nat → Option (List Nat)) (rs : List VaxisModel.Lemmas.InputEvents.SReport) (st : VState)
    (hw : ∀ r ∈ rs, r.Wf) (hreq : st.reqCursorPos = false) :
    ∃ st' evs, pipelineBody b64 st (rs.map VaxisModel.Lemmas.InputEvents.SReport.seq) = .ok (st', evs) ∧
      VaxisModel.Lemmas.InputEvents.visible evs =
        VaxisModel.Spec.InputEvents.specEvents st.pastePending (rs.map VaxisModel.Lemmas.InputEvents.SReport.spec) := by
  obtain ⟨st', evs, hp, hv⟩ := VaxisModel.Props.C03.events_exact b64 rs st hw hreq
  exact ⟨st', evs, by rw [pipelineBody_eq, hp], hv⟩

/-- Non-vacuity: a concrete run of the regenerated body — the answer to a cursor-position request
is handed over with a non-blocking send and the flag is lowered. -/
example : runHs (fun _ => none) { reqCursorPos := true } (.csi [] [[3], [7]] 82)
    = .ok ({ reqCursorPos := false }, [(.sendCursorPos 3 7, .nonblocking)]) := by
  rw [handleSequence_body_eq_model]; rfl

end VaxisModel.Props.C03Body
