/-
C03, round 4 — "never stops consuming input": liveness of the input goroutine as statements about
ALL runs of the LTS (`Model/InputLoop.lean`, whose `.input` label is a run of the regenerated body of
`handleSequence`, `Props/C03Body.lts_input_is_body`), with the send kinds, channel capacities and
requester prologues of the current source (F10, F11, F12, F103, F203 repaired).

`never_wedges` (Props/C03) says: from every reachable state SOME internal schedule brings the
goroutine back to its `select`.  Here: every internal schedule does, within a bound; whenever effects
are pending an internal move is enabled; and every stream is consumed to its end from every
reachable state, whatever the requesters did before.
-/
import VaxisModel.Lemmas.InputLive
import VaxisModel.Props.C03

namespace VaxisModel.Props.C03Live
open VaxisModel.Model.Input VaxisModel.Model.InputLoop VaxisModel.Lemmas.InputLoop VaxisModel.Lemmas.Input
open VaxisModel.Lemmas.InputLive

/-- The parameters of the current source: any queue capacity, the regenerated send kinds. -/
def srcParams (qcap : Nat) (b64 : List Nat → Option (List Nat)) : Params := { qcap := qcap, kinds := Kinds.ofGen, b64 := b64 }

/-- The event queue always has room for at least one event: `New()` replaces a size below 1 by the
default, and the channel is made with that size (read from the source on every run). This is the
hypothesis `0 < qcap` of the theorems below. -/
theorem queue_capacity_positive :
    Gen.Caps.queueSizeGuard = "opts.EventQueueSize < 1" ∧ Gen.Caps.queueCapExpr = "opts.EventQueueSize" ∧
    0 < Gen.Caps.defaultQueueSize := by decide

/-- **The goroutine is never stuck.**  In every state reachable by any labels (terminal input of any
kind, requesters calling, receiving and timing out at any moment) with effects still pending, an
internal move — a goroutine step, the clipboard hand-off's own time-out, or the application reading
one event — is enabled.  There is no reachable state in which the input goroutine waits for ever
while the application drains its events. -/
theorem never_stuck (qcap : Nat) (hq : 0 < qcap) (b64 : List Nat → Option (List Nat)) (s0 s : Sys)
    (h0 : s0.queue.length ≤ qcap) (hr : Reachable (srcParams qcap b64) s0 s) (hp : s.pend ≠ []) :
    ∃ l s', l.internal = true ∧ next (srcParams qcap b64) s l = some (.ok s') :=
  internal_enabled (srcParams qcap b64) hq VaxisModel.Props.C03.send_kinds_safe s (reach_queue_le _ s0 s h0 hr) hp

/-- **Every internal schedule terminates, and quickly.**  Each internal move strictly decreases
`work = 2·|pending effects| + |queue|`; so any run of internal moves from `s` has at most `work s`
moves — the goroutine cannot be kept busy for ever by one sequence, in any order of steps,
time-outs and receives. -/
theorem internal_runs_terminate (p : Params) (ls : List Label) (s s' : Sys) (hi : ∀ l ∈ ls, l.internal = true)
    (hr : run p s ls = some s') : ls.length + work s' ≤ work s :=
  internal_run_bounded p ls s s' hi hr

/-- **All-runs form of `never_wedges`.**  From every reachable state, EVERY maximal schedule of
internal moves ends — after at most `work s` moves — with the goroutine back at its `select` and
the queue empty: a run of internal moves that cannot be extended has nothing pending. -/
theorem every_internal_run_settles (qcap : Nat) (hq : 0 < qcap) (b64 : List Nat → Option (List Nat)) (s0 s s' : Sys)
    (h0 : s0.queue.length ≤ qcap) (hr : Reachable (srcParams qcap b64) s0 s) (ls : List Label)
    (hi : ∀ l ∈ ls, l.internal = true) (hrun : run (srcParams qcap b64) s ls = some s')
    (hmax : ∀ l, l.internal = true → ∀ s'', next (srcParams qcap b64) s' l ≠ some (.ok s'')) :
    s'.pend = [] ∧ s'.queue = [] ∧ ls.length ≤ work s := by
  have hreach : Reachable (srcParams qcap b64) s0 s' := by
    clear hmax hi
    induction ls generalizing s with
    | nil => simp [run] at hrun; subst hrun; exact hr
    | cons l t ih =>
      simp only [run] at hrun
      cases hn : next (srcParams qcap b64) s l with
      | none => simp [hn] at hrun
      | some r =>
        cases r with
        | error e => simp [hn] at hrun
        | ok s1 => simp only [hn] at hrun; exact ih s1 (Reachable.step l hr hn) hrun
  have hb := internal_run_bounded _ ls s s' hi hrun
  refine ⟨?_, ?_, by omega⟩
  · apply Classical.byContradiction
    intro hp
    obtain ⟨l, s'', hl, hn⟩ := never_stuck qcap hq b64 s0 s' h0 hreach hp
    exact hmax l hl s'' hn
  · cases hqe : s'.queue with
    | nil => rfl
    | cons ev q =>
      exact absurd (show next (srcParams qcap b64) s' .consume = some (.ok { s' with queue := q, delivered := s'.delivered ++ [ev] }) by
        simp [next, hqe]) (hmax .consume rfl _)

/-- **Requesters can neither starve nor prolong the input goroutine.**  A requester label (any call,
receive, time-out or cancellation of `CursorPosition`, `reportWinsize`, the colour queries,
`ClipboardPop`) changes neither the pending effects nor the event queue; hence in ANY schedule
without further terminal input — internal moves and requester activity interleaved in any way — at
most `work s` moves are internal.  Together with `never_stuck` (an internal move is enabled in every
reachable state with effects pending, and reachability is closed under requester labels): under
every schedule of requesters, the goroutine is back at its `select` after at most `work s` of its
own moves and the application's receives. -/
theorem requesters_do_not_add_work (p : Params) (ls : List Label) (s s' : Sys) (hni : ∀ l ∈ ls, ∀ q, l ≠ .input q)
    (hr : run p s ls = some s') : (ls.filter (·.internal)).length + work s' ≤ work s :=
  schedule_bounded p ls s s' hni hr

/-- **The loop reaches the end of every stream.**  From every state reachable by any labels — any
earlier input, any requester activity, any time-outs — and for every further stream of sequences
the parser can deliver, there is a schedule consisting of exactly those sequences, in order, and
internal moves only (no requester needed, nothing left to chance but the application reading its
events) after which the goroutine is back at its `select` with the whole stream handled and
without a panic. -/
theorem stream_reaches_end (qcap : Nat) (hq : 0 < qcap) (b64 : List Nat → Option (List Nat)) (s0 s : Sys)
    (h0 : s0.queue.length ≤ qcap) (hr : Reachable (srcParams qcap b64) s0 s) (qs : List Seq) (hwf : ∀ q ∈ qs, WfSeq q) :
    ∃ ls s', run (srcParams qcap b64) s ls = some s' ∧ s'.pend = [] ∧ inputsOf ls = qs ∧
      (∀ l ∈ ls, l.internal = true ∨ ∃ q, l = .input q) := by
  obtain ⟨ls, s', h1, h2, _, h4, h5⟩ :=
    stream_consumed (srcParams qcap b64) hq VaxisModel.Props.C03.send_kinds_safe qs s hwf (reach_queue_le _ s0 s h0 hr)
  exact ⟨ls, s', h1, h2, h4, h5⟩

/-- **A solicited clipboard reply reaches its requester even when it is handled first.**  With the
hand-off written as in the source (`select` with a time-out case, `send_kinds`), a reply whose
hand-off is pending when nobody waits yet stays pending — the goroutine's step is not enabled — and
as soon as `ClipboardPop` parks in its `select` the step hands the text over.  (Seeded change
C03-m7 turns the hand-off into `select` + `default`; the example below is that variant.) -/
theorem early_clipboard_reply_delivered (qcap : Nat) (b64 : List Nat → Option (List Nat)) (s : Sys) (v : List Nat) (rest : List Effect)
    (hp : s.pend = .sendClipboard v :: rest) (hw : s.clipWaiting = false) :
    next (srcParams qcap b64) s .step = none ∧
    run (srcParams qcap b64) s [.clipCall, .step] =
      some { s with pend := rest, clipWaiting := false, clipGot := s.clipGot ++ [v] } := by
  have hk : (srcParams qcap b64).kinds.clipboard = .timeout := by
    simp [srcParams, VaxisModel.Props.C03.send_kinds]
  constructor
  · simp [next, hp, stepEffect, hw, hk]
  · simp [run, next, hp, stepEffect, hw]

/-- The variant of seeded change C03-m7 (non-blocking hand-off): the reply handled before the
requester parks is dropped by the goroutine's next step, and `ClipboardPop` then has nothing to
receive. -/
example : (let p : Params := { qcap := 4, kinds := { Kinds.ofGen with clipboard := .nonblocking }, b64 := fun _ => some [104, 105] }
    match run p {} [.input (.osc [53, 50, 59, 99, 59, 97]), .step, .clipCall] with
    | some s => s.pend.isEmpty && s.clipGot.isEmpty && s.clipWaiting
    | none => false) = true := by decide

/-- `inputsOf` (this file's lemmas) and `inputSeqs` (the flow lemmas) are the same function. -/
private theorem inputsOf_eq_inputSeqs : ∀ ls : List Label, inputsOf ls = VaxisModel.Lemmas.InputFlow.inputSeqs ls
  | [] => rfl
  | l :: t => by
    have ih := inputsOf_eq_inputSeqs t
    cases l <;> simp [inputsOf, VaxisModel.Lemmas.InputFlow.inputSeqs] at ih ⊢ <;> exact ih

/-- **Safety and liveness together: every stream is delivered completely.**  For every queue
capacity ≥ 1, every decoder and every stream of well-formed, parser-deliverable reports (keys in any
encoding, SGR mouse, focus, paste brackets, replies of every shape, cursor-position reports) there
is a schedule from the initial state — the stream's sequences in order, otherwise only goroutine
steps, the clipboard time-out and the application reading events — after which the goroutine is at
its `select`, the queue is empty, and the application HAS RECEIVED every user-input event of the
stream other than the keys encoded `CSI … R`: exactly once, in stream order, decoded and paste-marked
as the grammar-level spec says.  (`input_never_lost_with_cpr` says nothing is lost on any run;
this adds that a run delivering everything exists for every stream.) -/
theorem stream_delivered_completely (qcap : Nat) (hq : 0 < qcap) (b64 : List Nat → Option (List Nat))
    (rs : List VaxisModel.Lemmas.InputEvents.SReport) (hw : ∀ r ∈ rs, r.Wf) (hs : ∀ r ∈ rs, WfSeq r.seq) :
    ∃ ls s', run (srcParams qcap b64) {} ls = some s' ∧ s'.pend = [] ∧ s'.queue = [] ∧
      VaxisModel.Lemmas.InputFlow.inputSeqs ls = rs.map VaxisModel.Lemmas.InputEvents.SReport.seq ∧
      (∀ l ∈ ls, l.internal = true ∨ ∃ q, l = .input q) ∧
      ((VaxisModel.Lemmas.InputEvents.visible s'.delivered).filter VaxisModel.Lemmas.InputFlow.uiU).filter VaxisModel.Lemmas.InputFlowCpr.unambiguous =
        (VaxisModel.Spec.InputEvents.specEvents false (rs.map VaxisModel.Lemmas.InputEvents.SReport.spec)).filter
          VaxisModel.Lemmas.InputFlowCpr.unambiguous := by
  have hwf : ∀ q ∈ rs.map VaxisModel.Lemmas.InputEvents.SReport.seq, WfSeq q := by
    intro q hq'
    obtain ⟨r, hr, rfl⟩ := List.mem_map.mp hq'
    exact hs r hr
  obtain ⟨ls1, s1, hr1, hp1, hq1, hi1, hl1⟩ :=
    stream_consumed (srcParams qcap b64) hq VaxisModel.Props.C03.send_kinds_safe _ ({} : Sys) hwf (by simp)
  obtain ⟨s2, hr2, hp2, hq2⟩ := drain_queue (srcParams qcap b64) s1.queue.length s1 rfl hp1
  have hrun : run (srcParams qcap b64) {} (ls1 ++ List.replicate s1.queue.length .consume) = some s2 := by
    rw [run_append _ ls1 _ _ s1 hr1, hr2]
  have hin : VaxisModel.Lemmas.InputFlow.inputSeqs (ls1 ++ List.replicate s1.queue.length .consume) =
      rs.map VaxisModel.Lemmas.InputEvents.SReport.seq := by
    rw [← inputsOf_eq_inputSeqs, inputsOf_append, hi1, inputsOf_consumes, List.append_nil]
  refine ⟨_, s2, hrun, hp2, hq2, hin, ?_, ?_⟩
  · intro l hl
    rcases List.mem_append.mp hl with h | h
    · exact hl1 l h
    · rw [List.eq_of_mem_replicate h]; exact Or.inl rfl
  · have h := VaxisModel.Props.C03.input_never_lost_with_cpr (srcParams qcap b64) rs _ ({} : Sys) s2 hin hw hs (by trivial) hrun
    simpa [VaxisModel.Lemmas.InputFlow.flow, hp2, hq2, VaxisModel.Lemmas.InputEvents.posted, VaxisModel.Lemmas.InputEvents.visible] using h

/-- Why `0 < qcap` is needed (it is what `New()` guarantees, `queue_capacity_positive`): with a
queue without room a blocking post is never enabled and nothing can be consumed. -/
example : (let p := srcParams 0 (fun _ => none)
    let s : Sys := { pend := [.postB .focusIn] }
    (next p s .step).isNone && (next p s .consume).isNone && (next p s .clipTimeout).isNone) = true := by decide

/-- Why the send kinds matter (`send_kinds_safe` is a theorem over the regenerated source, not a
hypothesis): with the bare sends of the original source a second size report is stuck for ever —
the F10 state, no internal move enabled. -/
example : (let p : Params := { qcap := 4, kinds := Kinds.original, b64 := fun _ => none }
    let s : Sys := { pend := [.sendSizeDone], sizeDone := 1 }
    (next p s .step).isNone && (next p s .consume).isNone && (next p s .clipTimeout).isNone) = true := by decide

/-- Non-vacuity: a state with a request outstanding, a parked stale answer, a full capacity-1
colour channel and a paste in progress; the stream `paste end, key, OSC 4 reply, CPR` is consumed
to its end by the schedule given. -/
example : (match run (srcParams 2 (fun _ => none))
      { vs := { pastePending := true, reqCursorPos := true, caps := { osc4 := true } }, cursorCh := [(1, 1)], color := [[52]] }
      [.input (.csi [] [[201]] 126), .step, .input (.print [97] 1), .step, .input (.osc [52, 59]), .step, .consume, .step,
       .input (.csi [] [[3], [4]] 82), .step] with
    | some s' => s'.pend.isEmpty && s'.delivered.length == 1 && s'.queue.length == 2 && s'.cursorCh.length == 1
    | none => false) = true := by decide

end VaxisModel.Props.C03Live
