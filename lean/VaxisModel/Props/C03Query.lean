import VaxisModel.Lemmas.InputQuery
import VaxisModel.Model.InputLoop

/-!
# C03 — "replies to Vaxis's own queries … update exactly the answer they report": the colour requesters

Theorems over `Model/InputQuery.lean` (the `Sscanf` parse of `QueryColor`, `QueryForeground`,
`QueryBackground`).  The hand-off of the payload (reply → `chColor`/`chFg`/`chBg` → requester) is
the LTS of `Model/InputLoop.lean`; `Driver/C03` composes both and compares with the real requesters.
-/
namespace VaxisModel.Props.C03Query
open VaxisModel.Model.InputQuery VaxisModel.Model.Color VaxisModel.Lemmas.InputQuery
open VaxisModel.Model.Input VaxisModel.Model.InputLoop

/-- A group of hexadecimal digits as the terminal may send it for one channel. -/
def Group (ds : List Nat) : Prop := ds ≠ [] ∧ (∀ d ∈ ds, (hexVal d).isSome = true) ∧ ds.length ≤ 15

/-- **What the requester gets for which reply.**  For every literal prefix `lit` (`4;<idx>;rgb:`,
`10;rgb:`, `11;rgb:`), every three groups of 1–15 hexadecimal digits (any case) and every trailing
text that does not continue the last number: the parse succeeds with the three values, and the
colour returned is the direct colour made of the **low byte** of each value. -/
theorem query_reply_parsed (lit r g b tail : List Nat) (hr : Group r) (hg : Group g) (hb : Group b)
    (ht : ∀ c, tail.head? = some c → isNumRune c = false) :
    ∃ vr vg vb, hexNum r 0 = some vr ∧ hexNum g 0 = some vg ∧ hexNum b 0 = some vb ∧
      sscanf3 lit (lit ++ (r ++ 47 :: (g ++ 47 :: (b ++ tail)))) = some ((vr : Int), (vg : Int), (vb : Int)) ∧
      colorOfReply lit (lit ++ (r ++ 47 :: (g ++ 47 :: (b ++ tail)))) = rgbColor (vr % 256) (vg % 256) (vb % 256) := by
  have hs : ∀ (x : List Nat) c, (47 :: x).head? = some c → isNumRune c = false := by
    intro x c hc; simp at hc; subst hc; exact slash_not_num
  obtain ⟨vr, e1, _, s1⟩ := scanHex_digits r (47 :: (g ++ 47 :: (b ++ tail))) hr.1 hr.2.1 hr.2.2 (hs _)
  obtain ⟨vg, e2, _, s2⟩ := scanHex_digits g (47 :: (b ++ tail)) hg.1 hg.2.1 hg.2.2 (hs _)
  obtain ⟨vb, e3, _, s3⟩ := scanHex_digits b tail hb.1 hb.2.1 hb.2.2 ht
  have hp : sscanf3 lit (lit ++ (r ++ 47 :: (g ++ 47 :: (b ++ tail)))) = some ((vr : Int), (vg : Int), (vb : Int)) := by
    unfold sscanf3
    simp [matchLit_app, s1, s2, s3, matchLit]
  refine ⟨vr, vg, vb, e1, e2, e3, hp, ?_⟩
  unfold colorOfReply
  rw [hp]
  have u : ∀ n : Nat, u8 (n : Int) = n % 256 := by
    intro n; unfold u8; omega
  simp [u]

/-- A reply that does not start with the literal prefix of the query (another index, another OSC
number, a truncated payload) makes the requester return `Color(0)`. -/
theorem query_reply_rejected (lit resp : List Nat) (h : matchLit lit resp = none) : colorOfReply lit resp = 0 := by
  simp [colorOfReply, sscanf3, h]

private theorem hv (d : Nat) (h : (hexVal d).isSome = true) : ∃ v, hexVal d = some v ∧ v < 16 := by
  cases e : hexVal d with
  | none => simp [e] at h
  | some v => exact ⟨v, rfl, hexVal_lt d v e⟩

/-- **8 bits per channel** (`rgb:hh/hh/hh`, what most terminals send): the requester returns
exactly the reported colour — the XParseColor reading of the reply. -/
theorem query_reply_exact_8bit (lit tail : List Nat) (a1 a2 b1 b2 c1 c2 : Nat)
    (h : ∀ d ∈ [a1, a2, b1, b2, c1, c2], (hexVal d).isSome = true)
    (ht : ∀ c, tail.head? = some c → isNumRune c = false) :
    ∃ r g b, xparseChannel [a1, a2] = some r ∧ xparseChannel [b1, b2] = some g ∧ xparseChannel [c1, c2] = some b ∧
      colorOfReply lit (lit ++ ([a1, a2] ++ 47 :: ([b1, b2] ++ 47 :: ([c1, c2] ++ tail)))) = rgbColor r g b := by
  obtain ⟨x1, e1, l1⟩ := hv a1 (h _ (by simp)); obtain ⟨x2, e2, l2⟩ := hv a2 (h _ (by simp))
  obtain ⟨y1, f1, m1⟩ := hv b1 (h _ (by simp)); obtain ⟨y2, f2, m2⟩ := hv b2 (h _ (by simp))
  obtain ⟨z1, g1, n1⟩ := hv c1 (h _ (by simp)); obtain ⟨z2, g2, n2⟩ := hv c2 (h _ (by simp))
  have grp : ∀ p q, (hexVal p).isSome = true → (hexVal q).isSome = true → Group [p, q] := by
    intro p q hp hq
    refine ⟨by simp, ?_, by simp⟩
    intro d hd; simp at hd; rcases hd with rfl | rfl <;> assumption
  obtain ⟨vr, vg, vb, k1, k2, k3, _, hc⟩ := query_reply_parsed lit [a1, a2] [b1, b2] [c1, c2] tail
    (grp _ _ (h _ (by simp)) (h _ (by simp))) (grp _ _ (h _ (by simp)) (h _ (by simp))) (grp _ _ (h _ (by simp)) (h _ (by simp))) ht
  simp [hexNum, e1, e2, f1, f2, g1, g2] at k1 k2 k3
  have und : ∀ d, (hexVal d).isSome = true → d ≠ 95 := by
    intro d hd; have := hexVal_range d hd; omega
  have na1 := und a1 (h _ (by simp)); have na2 := und a2 (h _ (by simp))
  have nb1 := und b1 (h _ (by simp)); have nb2 := und b2 (h _ (by simp))
  have nc1 := und c1 (h _ (by simp)); have nc2 := und c2 (h _ (by simp))
  refine ⟨x1 * 16 + x2, y1 * 16 + y2, z1 * 16 + z2, ?_, ?_, ?_, ?_⟩
  · simp [xparseChannel, hexNum, e1, e2]; omega
  · simp [xparseChannel, hexNum, f1, f2]; omega
  · simp [xparseChannel, hexNum, g1, g2]; omega
  · rw [hc, ← k1, ← k2, ← k3]
    have : ∀ a b : Nat, a < 16 → b < 16 → (a * 16 + b) % 256 = a * 16 + b := by intro a b _ _; omega
    rw [this _ _ l1 l2, this _ _ m1 m2, this _ _ n1 n2]

/-- **16 bits per channel, the byte repeated** (`rgb:hhhh/…` with both bytes equal — what xterm and
foot send for an 8-bit colour): the low byte kept by the requester is the reported colour. -/
theorem query_reply_exact_16bit_repeated (lit tail : List Nat) (a1 a2 b1 b2 c1 c2 : Nat)
    (h : ∀ d ∈ [a1, a2, b1, b2, c1, c2], (hexVal d).isSome = true)
    (ht : ∀ c, tail.head? = some c → isNumRune c = false) :
    ∃ r g b, xparseChannel [a1, a2, a1, a2] = some r ∧ xparseChannel [b1, b2, b1, b2] = some g ∧
      xparseChannel [c1, c2, c1, c2] = some b ∧
      colorOfReply lit (lit ++ ([a1, a2, a1, a2] ++ 47 :: ([b1, b2, b1, b2] ++ 47 :: ([c1, c2, c1, c2] ++ tail)))) = rgbColor r g b := by
  obtain ⟨x1, e1, l1⟩ := hv a1 (h _ (by simp)); obtain ⟨x2, e2, l2⟩ := hv a2 (h _ (by simp))
  obtain ⟨y1, f1, m1⟩ := hv b1 (h _ (by simp)); obtain ⟨y2, f2, m2⟩ := hv b2 (h _ (by simp))
  obtain ⟨z1, g1, n1⟩ := hv c1 (h _ (by simp)); obtain ⟨z2, g2, n2⟩ := hv c2 (h _ (by simp))
  have grp : ∀ p q, (hexVal p).isSome = true → (hexVal q).isSome = true → Group [p, q, p, q] := by
    intro p q hp hq
    refine ⟨by simp, ?_, by simp⟩
    intro d hd; simp at hd; rcases hd with rfl | rfl | rfl | rfl <;> assumption
  obtain ⟨vr, vg, vb, k1, k2, k3, _, hc⟩ := query_reply_parsed lit [a1, a2, a1, a2] [b1, b2, b1, b2] [c1, c2, c1, c2] tail
    (grp _ _ (h _ (by simp)) (h _ (by simp))) (grp _ _ (h _ (by simp)) (h _ (by simp))) (grp _ _ (h _ (by simp)) (h _ (by simp))) ht
  simp [hexNum, e1, e2, f1, f2, g1, g2] at k1 k2 k3
  have und : ∀ d, (hexVal d).isSome = true → d ≠ 95 := by
    intro d hd; have := hexVal_range d hd; omega
  have na1 := und a1 (h _ (by simp)); have na2 := und a2 (h _ (by simp))
  have nb1 := und b1 (h _ (by simp)); have nb2 := und b2 (h _ (by simp))
  have nc1 := und c1 (h _ (by simp)); have nc2 := und c2 (h _ (by simp))
  refine ⟨x1 * 16 + x2, y1 * 16 + y2, z1 * 16 + z2, ?_, ?_, ?_, ?_⟩
  · simp [xparseChannel, hexNum, e1, e2]; omega
  · simp [xparseChannel, hexNum, f1, f2]; omega
  · simp [xparseChannel, hexNum, g1, g2]; omega
  · rw [hc, ← k1, ← k2, ← k3]
    have : ∀ a b : Nat, a < 16 → b < 16 → (((a * 16 + b) * 16 + a) * 16 + b) % 256 = a * 16 + b := by intro a b _ _; omega
    rw [this _ _ l1 l2, this _ _ m1 m2, this _ _ n1 n2]

/-- Non-vacuity: `10;rgb:B9/01/a5` followed by junk → #b901a5; what `Sscanf` also lets through
(blank, sign, 17 digits) and what it refuses (`_`, a missing group, a newline). -/
example : colorOfReply litFg (ascii "10;rgb:B9/01/a5 x") = rgbColor 0xb9 0x01 0xa5 := by decide
example : colorOfReply (litColor 15) (ascii "4;15;rgb:-1/+0a/ 1f") = rgbColor 0xff 0x0a 0x1f := by decide
example : colorOfReply litBg (ascii "11;rgb:ff/ff/12345678901234567") = 0 := by decide
example : colorOfReply litBg (ascii "11;rgb:f_f/00/00") = 0 ∧ colorOfReply litBg (ascii "11;rgb:ff/ff") = 0 ∧
    colorOfReply litBg (ascii "11;rgb:ff/\nff/ff") = 0 ∧ colorOfReply (litColor 3) (ascii "4;30;rgb:ff/ff/ff") = 0 := by decide

/-- The prologue of `QueryColor`: no capability → `Color(0)` without a query; an RGB colour is
returned as is; an indexed colour asks for its index; the default colour has no index. -/
theorem query_color_prologue (c : Color) :
    queryColorPre false c = .inl 0 ∧ queryColorPre true (indexColor 7) = .inr 7 ∧
    queryColorPre true (rgbColor 1 2 3) = .inl (rgbColor 1 2 3) ∧ queryColorPre true 0 = .inl 0 := by
  refine ⟨rfl, by decide, by decide, by decide⟩

/-! ## The hand-off of the reply (LTS) -/

/-- What `handleSequence` does with an OSC 4 reply: offered to `QueryColor` only once the
capability is known, and the capability is always announced. -/
theorem osc4_effects (b64 : List Nat → Option (List Nat)) (st : VState) (rest : List Nat) :
    handle b64 st (.osc (ch '4' :: rest)) =
      .ok (st, (if st.caps.osc4 then [Effect.sendColor (ch '4' :: rest)] else []) ++ [.postB (.internal .capabilityOsc4)]) := by
  simp [handle, handleOSC, isPrefix, str, ch, bind, Except.bind, pure, Except.pure]

/-- **The requester receives the answer to its own query** (F203 repaired): once `QueryColor` has
dropped whatever was parked in `chColor` (the first statement after its prologue,
`query_requesters_shape`), the terminal's reply is parked there by the goroutine's next step and is
what the requester's receive returns — whatever unsolicited or repeated replies came before.
Without the drain (`s.color ≠ []`) the non-blocking hand-off drops the reply and the stale payload
stays at the head of the channel: the defect. -/
theorem own_reply_parked (p : Params) (hk : p.kinds.color = .nonblocking) (s : Sys) (hp : s.pend = [])
    (hc : s.vs.caps.osc4 = true) (rest : List Nat) :
    ∃ s', run p s [.input (.osc (ch '4' :: rest)), .step] = some s' ∧
      s'.color = (if s.color = [] then [ch '4' :: rest] else s.color) ∧
      s'.pend = [.postB (.internal .capabilityOsc4)] := by
  cases hcol : s.color with
  | nil =>
    refine ⟨{ s with pend := [.postB (.internal .capabilityOsc4)], color := [ch '4' :: rest] }, ?_, by simp, rfl⟩
    simp [run, next, hp, osc4_effects, hc, stepEffect, send1, hcol]
  | cons a t =>
    refine ⟨{ s with pend := [.postB (.internal .capabilityOsc4)] }, ?_, by simp [hcol], rfl⟩
    simp [run, next, hp, osc4_effects, hc, stepEffect, send1, hcol, hk]

/-- Non-vacuity / the F203 schedule: an unsolicited `4;1;rgb:…` reply, then the reply to a query for
index 5. With the drain the channel holds the second payload; without it still the first. -/
example :
    let p : Params := { qcap := 4, kinds := Kinds.ofGen, b64 := fun _ => none }
    let s0 : Sys := { vs := { caps := { osc4 := true } } }
    (match run p s0 [.input (.osc (ascii "4;1;rgb:ff/00/00")), .step, .step] with
     | some s1 =>
       (match run p { s1 with color := [] } [.input (.osc (ascii "4;5;rgb:00/ff/00")), .step], run p s1 [.input (.osc (ascii "4;5;rgb:00/ff/00")), .step] with
        | some a, some b => a.color == [ascii "4;5;rgb:00/ff/00"] && b.color == [ascii "4;1;rgb:ff/00/00"] &&
            colorOfReply (litColor 5) (ascii "4;1;rgb:ff/00/00") == 0
        | _, _ => false)
     | none => false) = true := by decide

/-! ## Tie to the source (`Gen/Caps.lean`, regenerated on every run) -/

/-- The three requesters are the ones the model transcribes: capability guard, (for `QueryColor`)
the `Params` prologue, the drop of a stale reply (F203 repaired), the query, one receive from the
reply channel, `Sscanf` with the literal prefix and `rgb:%x/%x/%x` into three `int`s, `Color(0)`
on error, `RGBColor(uint8(r), uint8(g), uint8(b))`. -/
theorem query_requesters_shape :
    Gen.Caps.qc_stmts = [
      "if !vx.CanReportColor() { return Color(0) }", "p := c.Params()", "if len(p) == 3 { return c }",
      "if len(p) != 1 { return Color(0) }", "select { case <-vx.chColor: default: }",
      "vx.tw.WriteStringLocked(tparm(osc4, p[0]))", "resp := <-vx.chColor", "var r, g, b int",
      "prefix := fmt.Sprintf(\"4;%v;\", p[0])", "_, err := fmt.Sscanf(resp, prefix+\"rgb:%x/%x/%x\", &r, &g, &b)",
      "if err != nil { log.Error(\"QueryColor: failed to parse the OSC 4 response: %s\", err) return Color(0) }",
      "return RGBColor(uint8(r), uint8(g), uint8(b))"] ∧
    Gen.Caps.qf_stmts = [
      "if !vx.CanReportForegroundColor() { return Color(0) }", "select { case <-vx.chFg: default: }",
      "vx.tw.WriteStringLocked(osc10)", "resp := <-vx.chFg", "var r, g, b int",
      "_, err := fmt.Sscanf(resp, \"10;rgb:%x/%x/%x\", &r, &g, &b)",
      "if err != nil { log.Error(\"QueryForeground: failed to parse the OSC 10 response: %s\", err) return Color(0) }",
      "return RGBColor(uint8(r), uint8(g), uint8(b))"] ∧
    Gen.Caps.qb_stmts = [
      "if !vx.CanReportBackgroundColor() { return Color(0) }", "select { case <-vx.chBg: default: }",
      "vx.tw.WriteStringLocked(osc11)", "resp := <-vx.chBg", "var r, g, b int",
      "_, err := fmt.Sscanf(resp, \"11;rgb:%x/%x/%x\", &r, &g, &b)",
      "if err != nil { log.Error(\"QueryBackground: failed to parse the OSC 11 response: %s\", err) return Color(0) }",
      "return RGBColor(uint8(r), uint8(g), uint8(b))"] ∧
    colorDrainGen = true ∧ fgDrainGen = true ∧ bgDrainGen = true := by decide +kernel

end VaxisModel.Props.C03Query
