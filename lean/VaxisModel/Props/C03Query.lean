import VaxisModel.Lemmas.InputQuery
import VaxisModel.Lemmas.QueryBody
import VaxisModel.Lemmas.RequesterBody
import VaxisModel.Model.InputLoop

/-!
# C03 — "replies to Vaxis's own queries … update exactly the answer they report": the colour requesters

Theorems over `Model/InputQuery.lean` (the parse of the reply by `QueryColor`, `QueryForeground`,
`QueryBackground`: `parseColorReply` since the F303 repair).  The hand-off of the payload (reply → `chColor`/`chFg`/`chBg` → requester) is
the LTS of `Model/InputLoop.lean`; `Driver/C03` composes both and compares with the real requesters.
-/
namespace VaxisModel.Props.C03Query
open VaxisModel.Model.InputQuery VaxisModel.Model.Color VaxisModel.Lemmas.InputQuery
open VaxisModel.Model.Input VaxisModel.Model.InputLoop

/-- The channels of a well-formed reply contain no `/`. -/
private theorem no_slash (ds : List Nat) (v : Nat) (h : xparseChannel ds = some v) : ∀ x ∈ ds, x ≠ 47 := by
  rw [← parseChannel_eq_xparse] at h
  unfold parseChannel at h
  split at h
  · cases h
  · cases hn : hexNum ds 0 with
    | none => simp [hn] at h
    | some w => intro x hx; exact (hex_ne_slash x (hexNum_all_hex ds 0 w hn x hx)).1

/-- **The answer is exactly the colour the reply reports** (F303 repaired), for every digit count:
for every literal prefix (`4;<idx>;rgb:`, `10;rgb:`, `11;rgb:`) and every three channels each of
which XParseColor accepts — 1, 2, 3 or 4 hexadecimal digits, either case — the requester returns
the direct colour whose channels are the XParseColor readings (value scaled to 16 bits, high byte).
`Witness/F303` proves the same statement false of the parse the code had before the repair. -/
theorem query_reply_exact : ExactFor colorOfReply := by
  intro lit r g b vr vg vb hr hg hb
  have sr := no_slash r vr hr
  have sg := no_slash g vg hg
  have sb := no_slash b vb hb
  simp only [colorOfReply, matchLit_app, splitOn_sep_app 47 r _ sr, splitOn_sep_app 47 g _ sg, splitOn_nosep 47 b sb,
    parseChannel_eq_xparse, hr, hg, hb]

/-- Every digit count separately, as the terminal may mix them: `rgb:f/ff/fff` and `rgb:ffff/…`. -/
example : colorOfReply litFg (ascii "10;rgb:f/ff/fff") = rgbColor 255 255 255 ∧
    colorOfReply litBg (ascii "11;rgb:1234/5678/9abc") = rgbColor 0x12 0x56 0x9a ∧
    colorOfReply (litColor 15) (ascii "4;15;rgb:8/80/800") = rgbColor 0x88 0x80 0x80 ∧
    colorOfReply litFg (ascii "10;rgb:B9/01/a5") = rgbColor 0xb9 0x01 0xa5 := by decide

/-- The value returned always fits the three `uint8` channels of `RGBColor` (the conversion in
`rgb[i] = uint8(…)` cuts nothing). -/
theorem query_reply_channel_range (ds : List Nat) (v : Nat) (h : parseChannel ds = some v) : v < 256 :=
  parseChannel_lt ds v h

/-- A reply that does not start with the literal prefix of the query (another index, another OSC
number, a truncated payload) makes the requester return `Color(0)`. -/
theorem query_reply_rejected (lit resp : List Nat) (h : matchLit lit resp = none) : colorOfReply lit resp = 0 := by
  simp [colorOfReply, h]

/-- A reply with the right prefix but not exactly three channels, or with a channel that is not 1–4
hexadecimal digits, makes the requester return `Color(0)` — nothing else happens (no panic: the
model has no partial operation here). -/
theorem query_reply_malformed (lit rest : List Nat) :
    ((splitOn 47 rest).length ≠ 3 → colorOfReply lit (lit ++ rest) = 0) ∧
    (∀ a b c, splitOn 47 rest = [a, b, c] → (parseChannel a = none ∨ parseChannel b = none ∨ parseChannel c = none) →
      colorOfReply lit (lit ++ rest) = 0) := by
  refine ⟨?_, ?_⟩
  · intro h
    simp only [colorOfReply, matchLit_app]
    split
    · rename_i heq; simp [heq] at h
    · rfl
  · intro a b c hs h
    simp only [colorOfReply, matchLit_app, hs]
    rcases h with h | h | h
    · simp [h]
    · cases parseChannel a <;> simp [h]
    · cases parseChannel a <;> cases parseChannel b <;> simp [h]

/-- Non-vacuity of the rejections: what the old `Sscanf` let through and XParseColor does not
(blank, sign, trailing text, 5 digits), `_`, a missing channel, another index. -/
example : colorOfReply (litColor 15) (ascii "4;15;rgb:-1/+0a/ 1f") = 0 ∧ colorOfReply litFg (ascii "10;rgb:B9/01/a5 x") = 0 ∧
    colorOfReply litBg (ascii "11;rgb:ff/ff/12345") = 0 ∧ colorOfReply litBg (ascii "11;rgb:f_f/00/00") = 0 ∧
    colorOfReply litBg (ascii "11;rgb:ff/ff") = 0 ∧ colorOfReply (litColor 3) (ascii "4;30;rgb:ff/ff/ff") = 0 := by decide

/-- The prologue of `QueryColor`: no capability → `Color(0)` without a query; an RGB colour is
returned as is; an indexed colour asks for its index; the default colour has no index. -/
theorem query_color_prologue (c : Color) :
    queryColorPre false c = .inl 0 ∧ queryColorPre true (indexColor 7) = .inr 7 ∧
    queryColorPre true (rgbColor 1 2 3) = .inl (rgbColor 1 2 3) ∧ queryColorPre true 0 = .inl 0 := by
  refine ⟨rfl, by decide, by decide, by decide⟩


/-! ## `parseColorReply` interpreted from the source (round 4) -/

open VaxisModel.Model.QueryBody in
/-- The regenerated body of `parseColorReply` (`Gen.InputBody.pr`, a term of the statement language
of `Model/GoBody.lean`) contains no node the translator did not know. -/
theorem parse_reply_body_recognised : Gen.InputBody.pr.clean = true := by decide

open VaxisModel.Model.QueryBody in
/-- **`parseColorReply` run on its regenerated body = the model**, for every reply and every prefix:
the same colour and the same `ok` (`Model/QueryBody.lean` executes the term: byte lengths, unsigned
64-bit `mul` / `shl` / `-`, `div`, `shr`, `uint8`, `strconv.ParseUint(·, 16, 16)`, the array `rgb`). -/
theorem parseColorReply_body_eq_model (resp pfx : List Nat) :
    runPr resp pfx = .ok (match parseReply (pfx ++ [114, 103, 98, 58]) resp with | some c => (c, true) | none => (0, false)) :=
  VaxisModel.Lemmas.QueryBody.pr_eq resp pfx

open VaxisModel.Model.QueryBody in
/-- What the requesters return (`colorOfReply`, over which `query_reply_exact` is proved) is the
colour component of that run. -/
theorem colorOfReply_is_body (resp pfx : List Nat) :
    runPr resp pfx = .ok (colorOfReply (pfx ++ [114, 103, 98, 58]) resp, (parseReply (pfx ++ [114, 103, 98, 58]) resp).isSome) := by
  rw [parseColorReply_body_eq_model]
  unfold parseReply colorOfReply
  cases matchLit (pfx ++ [114, 103, 98, 58]) resp with
  | none => rfl
  | some rest =>
    simp only []
    rcases splitOn 47 rest with _ | ⟨a, _ | ⟨b, _ | ⟨c, _ | ⟨d, t⟩⟩⟩⟩ <;> try rfl
    cases ha : parseChannel a <;> cases hb : parseChannel b <;> cases hc : parseChannel c <;> simp [ha, hb, hc]

/-! ## The three requesters interpreted from the source (round 4) -/

open VaxisModel.Model.RequesterBody in
/-- The regenerated bodies of `QueryColor`, `QueryForeground`, `QueryBackground` contain no node the
translator did not know. -/
theorem requester_bodies_recognised :
    Gen.InputBody.qc.clean = true ∧ Gen.InputBody.qf.clean = true ∧ Gen.InputBody.qb.clean = true := by decide

open VaxisModel.Model.RequesterBody in
/-- **`QueryColor` run on its regenerated body = the model**, for every state of the capability,
every colour asked for and every payload its receive returns: without the capability, for an RGB
colour and for the default colour it returns at once without touching the terminal; otherwise it
drops a stale reply (non-blocking receive), writes `OSC 4 ; idx ; ?`, receives exactly once and
returns `colorOfReply` of what it received with the prefix `4;idx;` (through the regenerated body
of `parseColorReply`). -/
theorem queryColor_body_eq_model (can : Bool) (c : Color) (resp : List Nat) :
    runReq Gen.InputBody.qc ⟨can, params c, resp⟩ c = .ok (queryColorModel can c resp) :=
  VaxisModel.Lemmas.RequesterBody.qc_eq can c resp

open VaxisModel.Model.RequesterBody in
/-- The same for `QueryForeground` (`OSC 10`, prefix `10;`) and `QueryBackground` (`OSC 11`, `11;`). -/
theorem queryFgBg_body_eq_model (can : Bool) (ps resp : List Nat) (c : Color) :
    runReq Gen.InputBody.qf ⟨can, ps, resp⟩ c = .ok (queryFgBgModel can "vx.chFg" "osc10" litFg resp) ∧
    runReq Gen.InputBody.qb ⟨can, ps, resp⟩ c = .ok (queryFgBgModel can "vx.chBg" "osc11" litBg resp) :=
  ⟨VaxisModel.Lemmas.RequesterBody.qf_eq can ps resp c, VaxisModel.Lemmas.RequesterBody.qb_eq can ps resp c⟩

/-! ## The hand-off of the reply (LTS) -/

/-- What `handleSequence` does with an OSC 4 reply: offered to `QueryColor` only once the
capability is known, and the capability is always announced. -/
theorem osc4_effects (b64 : List Nat → Option (List Nat)) (st : VState) (rest : List Nat) :
    handle b64 st (.osc (ch '4' :: rest)) =
      .ok (st, (if st.caps.osc4 then [Effect.sendColor (ch '4' :: rest)] else []) ++ [.postB (.internal .capabilityOsc4)]) := by
  simp [handle, handleOSC, isPrefix, str, ch, bind, Except.bind, pure, Except.pure]

/-- **The requester receives the answer to its own query** (F203 repaired): once `QueryColor` has
dropped whatever was parked in `chColor` (the first statement after its prologue,
`query_requesters_shape`), the terminal's reply is parked there by the goroutine's next step and is
what the requester's receive returns — whatever unsolicited or repeated replies came before.
Without the drain (`s.color ≠ []`) the non-blocking hand-off drops the reply and the stale payload
stays at the head of the channel: the defect. -/
theorem own_reply_parked (p : Params) (hk : p.kinds.color = .nonblocking) (s : Sys) (hp : s.pend = [])
    (hc : s.vs.caps.osc4 = true) (rest : List Nat) :
    ∃ s', run p s [.input (.osc (ch '4' :: rest)), .step] = some s' ∧
      s'.color = (if s.color = [] then [ch '4' :: rest] else s.color) ∧
      s'.pend = [.postB (.internal .capabilityOsc4)] := by
  cases hcol : s.color with
  | nil =>
    refine ⟨{ s with pend := [.postB (.internal .capabilityOsc4)], color := [ch '4' :: rest] }, ?_, by simp, rfl⟩
    simp [run, next, hp, osc4_effects, hc, stepEffect, send1, hcol]
  | cons a t =>
    refine ⟨{ s with pend := [.postB (.internal .capabilityOsc4)] }, ?_, by simp [hcol], rfl⟩
    simp [run, next, hp, osc4_effects, hc, stepEffect, send1, hcol, hk]

/-- Non-vacuity / the F203 schedule: an unsolicited `4;1;rgb:…` reply, then the reply to a query for
index 5. With the drain the channel holds the second payload; without it still the first. -/
example :
    let p : Params := { qcap := 4, kinds := Kinds.ofGen, b64 := fun _ => none }
    let s0 : Sys := { vs := { caps := { osc4 := true } } }
    (match run p s0 [.input (.osc (ascii "4;1;rgb:ff/00/00")), .step, .step] with
     | some s1 =>
       (match run p { s1 with color := [] } [.input (.osc (ascii "4;5;rgb:00/ff/00")), .step], run p s1 [.input (.osc (ascii "4;5;rgb:00/ff/00")), .step] with
        | some a, some b => a.color == [ascii "4;5;rgb:00/ff/00"] && b.color == [ascii "4;1;rgb:ff/00/00"] &&
            colorOfReply (litColor 5) (ascii "4;1;rgb:ff/00/00") == 0
        | _, _ => false)
     | none => false) = true := by decide

/-! ## Tie to the source (`Gen/Caps.lean`, regenerated on every run) -/

/-- The three requesters and the parser they share are the ones the model transcribes: capability
guard, (for `QueryColor`) the `Params` prologue, the drop of a stale reply (F203 repaired), the
query, one receive from the reply channel, `parseColorReply` with the prefix of the query,
`Color(0)` on failure; `parseColorReply`: prefix + `rgb:`, split at `/`, exactly three channels,
each 1–4 bytes, `ParseUint(ch, 16, 16)`, scaled by `0xFFFF / (1<<(4n) - 1)`, high byte (F303
repaired). -/
theorem query_requesters_shape :
    Gen.Caps.qc_stmts = [
      "if !vx.CanReportColor() { return Color(0) }", "p := c.Params()", "if len(p) == 3 { return c }",
      "if len(p) != 1 { return Color(0) }", "select { case <-vx.chColor: default: }",
      "vx.tw.WriteStringLocked(tparm(osc4, p[0]))", "resp := <-vx.chColor",
      "prefix := fmt.Sprintf(\"4;%v;\", p[0])", "col, ok := parseColorReply(resp, prefix)",
      "if !ok { log.Error(\"QueryColor: failed to parse the OSC 4 response: %s\", resp) return Color(0) }",
      "return col"] ∧
    Gen.Caps.qf_stmts = [
      "if !vx.CanReportForegroundColor() { return Color(0) }", "select { case <-vx.chFg: default: }",
      "vx.tw.WriteStringLocked(osc10)", "resp := <-vx.chFg", "col, ok := parseColorReply(resp, \"10;\")",
      "if !ok { log.Error(\"QueryForeground: failed to parse the OSC 10 response: %s\", resp) return Color(0) }",
      "return col"] ∧
    Gen.Caps.qb_stmts = [
      "if !vx.CanReportBackgroundColor() { return Color(0) }", "select { case <-vx.chBg: default: }",
      "vx.tw.WriteStringLocked(osc11)", "resp := <-vx.chBg", "col, ok := parseColorReply(resp, \"11;\")",
      "if !ok { log.Error(\"QueryBackground: failed to parse the OSC 11 response: %s\", resp) return Color(0) }",
      "return col"] ∧
    Gen.Caps.pr_stmts = [
      "if !strings.HasPrefix(resp, prefix+\"rgb:\") { return Color(0), false }",
      "channels := strings.Split(strings.TrimPrefix(resp, prefix+\"rgb:\"), \"/\")",
      "if len(channels) != 3 { return Color(0), false }", "var rgb [3]uint8",
      "for i, ch := range channels { n := len(ch) if n < 1 || n > 4 { return Color(0), false } v, err := strconv.ParseUint(ch, 16, 16) if err != nil { return Color(0), false } max := uint64(1)<<(4*n) - 1 rgb[i] = uint8(v * 0xFFFF / max >> 8) }",
      "return RGBColor(rgb[0], rgb[1], rgb[2]), true"] ∧
    colorDrainGen = true ∧ fgDrainGen = true ∧ bgDrainGen = true := by decide +kernel

end VaxisModel.Props.C03Query
