/-
C04 — Terminal state is restored on every exit path.

The start-up and shutdown functions are *interpreted from the lists regenerated from vaxis.go*
(`Gen/Modes.lean`), composed with the writer model, and run on the mode terminal `Spec.ModeTerm`.
`decide +kernel` evaluates the checkers on ALL 2^9 assignments of the guard variables
(kittyKeyboard, sixels, unicodeCore, explicitWidth, colorThemeUpdates, inBandResize, osc176,
synchronizedUpdate, disableMouse) × all four (cursorNext.visible, cursorLast.visible) combinations:
a proof over the whole finite configuration space, not a sample.  A mode enabled under one guard
and reset under another makes the corresponding chunk fail to compile.
-/
import VaxisModel.Props.C07
import VaxisModel.Lemmas.C04Chunk00
import VaxisModel.Lemmas.C04Chunk01
import VaxisModel.Lemmas.C04Chunk02
import VaxisModel.Lemmas.C04Chunk03
import VaxisModel.Lemmas.C04Chunk04
import VaxisModel.Lemmas.C04Chunk05
import VaxisModel.Lemmas.C04Chunk06
import VaxisModel.Lemmas.C04Chunk07
import VaxisModel.Lemmas.C04Chunk08
import VaxisModel.Lemmas.C04Chunk09
import VaxisModel.Lemmas.C04Chunk10
import VaxisModel.Lemmas.C04Chunk11
import VaxisModel.Lemmas.C04Chunk12
import VaxisModel.Lemmas.C04Chunk13
import VaxisModel.Lemmas.C04Chunk14
import VaxisModel.Lemmas.C04Chunk15

namespace VaxisModel.Props.C04
open VaxisModel.Lemmas.C04Check VaxisModel.Model.Lifecycle VaxisModel.Spec.ModeTerm

private theorem chunk_sound (f : Nat → Bool → Bool → Bool) (lo hi : Nat) (h : chunkB f lo hi = true) :
    ∀ m, lo ≤ m → m < hi → ∀ a b : Bool, f m a b = true := by
  intro m h1 h2 a b
  unfold chunkB at h
  rw [List.all_eq_true] at h
  have := h (m - lo) (by simp; omega)
  have e : lo + (m - lo) = m := by omega
  rw [e] at this
  simp only [Bool.and_eq_true] at this
  obtain ⟨⟨⟨x1, x2⟩, x3⟩, x4⟩ := this
  cases a <;> cases b <;> assumption

/-- **Balanced.** For every capability/option assignment and every cursor state at shutdown:
    start-up, then frames (which may change pointer shape, cursor shape and visibility), then
    `Close` returns every mode of the property's list to its prior value, with the cursor
    visible, the primary screen active, the pen reset, no hyperlink open, the kitty keyboard
    stack depth restored, keypad numeric, application id and cursor shape restored and
    synchronized-update balanced. -/
theorem balanced (m : Nat) (hm : m < 512) (cnv clv : Bool) : balancedB m cnv clv = true := by
    rcases (by omega : (0 ≤ m ∧ m < 32) ∨ (32 ≤ m ∧ m < 64) ∨ (64 ≤ m ∧ m < 96) ∨ (96 ≤ m ∧ m < 128) ∨ (128 ≤ m ∧ m < 160) ∨ (160 ≤ m ∧ m < 192) ∨ (192 ≤ m ∧ m < 224) ∨ (224 ≤ m ∧ m < 256) ∨ (256 ≤ m ∧ m < 288) ∨ (288 ≤ m ∧ m < 320) ∨ (320 ≤ m ∧ m < 352) ∨ (352 ≤ m ∧ m < 384) ∨ (384 ≤ m ∧ m < 416) ∨ (416 ≤ m ∧ m < 448) ∨ (448 ≤ m ∧ m < 480) ∨ (480 ≤ m ∧ m < 512)) with h | h | h | h | h | h | h | h | h | h | h | h | h | h | h | h
    · exact chunk_sound balancedB 0 32 balanced_chunk00 m (by omega) (by omega) cnv clv
    · exact chunk_sound balancedB 32 64 balanced_chunk01 m (by omega) (by omega) cnv clv
    · exact chunk_sound balancedB 64 96 balanced_chunk02 m (by omega) (by omega) cnv clv
    · exact chunk_sound balancedB 96 128 balanced_chunk03 m (by omega) (by omega) cnv clv
    · exact chunk_sound balancedB 128 160 balanced_chunk04 m (by omega) (by omega) cnv clv
    · exact chunk_sound balancedB 160 192 balanced_chunk05 m (by omega) (by omega) cnv clv
    · exact chunk_sound balancedB 192 224 balanced_chunk06 m (by omega) (by omega) cnv clv
    · exact chunk_sound balancedB 224 256 balanced_chunk07 m (by omega) (by omega) cnv clv
    · exact chunk_sound balancedB 256 288 balanced_chunk08 m (by omega) (by omega) cnv clv
    · exact chunk_sound balancedB 288 320 balanced_chunk09 m (by omega) (by omega) cnv clv
    · exact chunk_sound balancedB 320 352 balanced_chunk10 m (by omega) (by omega) cnv clv
    · exact chunk_sound balancedB 352 384 balanced_chunk11 m (by omega) (by omega) cnv clv
    · exact chunk_sound balancedB 384 416 balanced_chunk12 m (by omega) (by omega) cnv clv
    · exact chunk_sound balancedB 416 448 balanced_chunk13 m (by omega) (by omega) cnv clv
    · exact chunk_sound balancedB 448 480 balanced_chunk14 m (by omega) (by omega) cnv clv
    · exact chunk_sound balancedB 480 512 balanced_chunk15 m (by omega) (by omega) cnv clv

/-- **Suspend restores, Resume re-establishes.** After `Suspend` everything is restored as after
    `Close`; after `Resume` the mode state equals the one start-up established. -/
theorem resume_reestablishes (m : Nat) (hm : m < 512) (cnv clv : Bool) : resumeB m cnv clv = true := by
    rcases (by omega : (0 ≤ m ∧ m < 32) ∨ (32 ≤ m ∧ m < 64) ∨ (64 ≤ m ∧ m < 96) ∨ (96 ≤ m ∧ m < 128) ∨ (128 ≤ m ∧ m < 160) ∨ (160 ≤ m ∧ m < 192) ∨ (192 ≤ m ∧ m < 224) ∨ (224 ≤ m ∧ m < 256) ∨ (256 ≤ m ∧ m < 288) ∨ (288 ≤ m ∧ m < 320) ∨ (320 ≤ m ∧ m < 352) ∨ (352 ≤ m ∧ m < 384) ∨ (384 ≤ m ∧ m < 416) ∨ (416 ≤ m ∧ m < 448) ∨ (448 ≤ m ∧ m < 480) ∨ (480 ≤ m ∧ m < 512)) with h | h | h | h | h | h | h | h | h | h | h | h | h | h | h | h
    · exact chunk_sound resumeB 0 32 resume_chunk00 m (by omega) (by omega) cnv clv
    · exact chunk_sound resumeB 32 64 resume_chunk01 m (by omega) (by omega) cnv clv
    · exact chunk_sound resumeB 64 96 resume_chunk02 m (by omega) (by omega) cnv clv
    · exact chunk_sound resumeB 96 128 resume_chunk03 m (by omega) (by omega) cnv clv
    · exact chunk_sound resumeB 128 160 resume_chunk04 m (by omega) (by omega) cnv clv
    · exact chunk_sound resumeB 160 192 resume_chunk05 m (by omega) (by omega) cnv clv
    · exact chunk_sound resumeB 192 224 resume_chunk06 m (by omega) (by omega) cnv clv
    · exact chunk_sound resumeB 224 256 resume_chunk07 m (by omega) (by omega) cnv clv
    · exact chunk_sound resumeB 256 288 resume_chunk08 m (by omega) (by omega) cnv clv
    · exact chunk_sound resumeB 288 320 resume_chunk09 m (by omega) (by omega) cnv clv
    · exact chunk_sound resumeB 320 352 resume_chunk10 m (by omega) (by omega) cnv clv
    · exact chunk_sound resumeB 352 384 resume_chunk11 m (by omega) (by omega) cnv clv
    · exact chunk_sound resumeB 384 416 resume_chunk12 m (by omega) (by omega) cnv clv
    · exact chunk_sound resumeB 416 448 resume_chunk13 m (by omega) (by omega) cnv clv
    · exact chunk_sound resumeB 448 480 resume_chunk14 m (by omega) (by omega) cnv clv
    · exact chunk_sound resumeB 480 512 resume_chunk15 m (by omega) (by omega) cnv clv

/-- **A second Close is harmless**: it writes nothing and changes no state. -/
theorem close_idempotent (e : Env) (w : WSt) : (closeW e true w).wire = w.wire ∧ (closeW e true w).buf = w.buf := by
  simp [closeW, interp, Gen.Modes.close, evalG]

/-- **Close while suspended** (Suspend, then Close without Resume) writes nothing more: Suspend's
    early return on `vx.suspended` is taken, so the terminal stays restored (and the call does
    not wait for a parser that is already stopped). -/
theorem close_while_suspended_writes_nothing (m : Nat) (hm : m < 4) :
    let e := envOf (m * 170)
    let w := suspendW e { (startupW e) with wire := [] }
    (closeW e false { w with wire := [] }).wire = [] := by
  rcases (by omega : m = 0 ∨ m = 1 ∨ m = 2 ∨ m = 3) with rfl | rfl | rfl | rfl <;> decide +kernel

/-- The printed forms of DECSET/DECRST lex to exactly the tokens the lifecycle model maps them to
    (checked for every mode number that occurs in vaxis.go). -/
theorem decset_lexes :
    ∀ n ∈ [1, 25, 1002, 1003, 1004, 1006, 1049, 2004, 2026, 2027, 2031, 2048, 8452],
      toksOf (wBytes default (.decset n)) = [.decset n] ∧ toksOf (wBytes default (.decrst n)) = [.decrst n] := by
  decide +kernel

/-! ### Frames do not touch the lifecycle state -/

section frames
open VaxisModel.Model.Render VaxisModel.Lemmas.RenderGate VaxisModel.Spec

/-- The part of the terminal that start-up establishes and only shutdown may change. -/
def core (t : MTerm) : List (Nat × Bool) × Bool × Nat × Bool × String :=
  (t.modes, t.alt, t.kitty, t.keypadApp, t.appId)

private theorem step_core (t : MTerm) (caps : Caps) (k : Tok) (h : allowedTok caps k = true)
    (hk : ∀ r, k ≠ Tok.other r) : core (ModeTerm.step t k) = core t := by
  cases k with
  | other r => exact absurd rfl (hk r)
  | decset n =>
    simp only [allowedTok, Bool.or_eq_true, beq_iff_eq, Bool.and_eq_true] at h
    rcases h with h | ⟨h, _⟩ <;> subst h <;> simp [ModeTerm.step, decMode, core] <;> (try split) <;> simp
  | decrst n =>
    simp only [allowedTok, Bool.or_eq_true, beq_iff_eq, Bool.and_eq_true] at h
    rcases h with h | ⟨h, _⟩ <;> subst h <;> simp [ModeTerm.step, decMode, core] <;> (try split) <;> simp
  | _ => simp [ModeTerm.step, core]

/-- **Frames never change a mode, the screen selector, the kitty keyboard stack, the keypad mode or
    the application id** — whatever is drawn, under every capability set. So the state that
    `balanced` / `resume_reestablishes` start from is the one start-up established, after any
    number of frames. -/
theorem frame_keeps_core (cw : String → Nat) (f : Frame) (t : MTerm) :
    core (ModeTerm.run t (renderFrame cw f).2) = core t := by
  have hall := C07.render_gated cw f
  have hno : ∀ k ∈ (renderFrame cw f).2, ∀ r, k ≠ Tok.other r := by
    intro k hk r hr
    -- `other` tokens are never produced, for any capability set
    subst hr
    obtain ⟨pre, extra, close, show_, hb, hpre, hvoc, hclose, _, hs⟩ := Lemmas.RenderToks.renderBody_shape cw f
    have hbody : ∀ k' ∈ (renderBody cw f).2, ∀ r', k' ≠ Tok.other r' := by
      intro k' hk' r' hr'
      rw [hb] at hk'
      simp only [List.mem_append] at hk'
      rcases hk' with ((hk' | hk') | hk') | hk'
      · rcases hpre with h0 | ⟨s, h0⟩ <;> subst h0 <;> simp at hk'
        subst hk'; cases hr'
      · have := hvoc k' hk'; subst hr'; exact this
      · rcases hclose with h0 | h0 <;> subst h0 <;> simp at hk'
        subst hk'; cases hr'
      · subst hs; split at hk'
        · simp [showCursorToks] at hk'; rcases hk' with rfl | rfl | rfl <;> cases hr'
        · simp at hk'
    unfold renderFrame flush at hk
    simp only at hk
    split at hk
    · repeat' split at hk
      all_goals simp [showCursorToks] at hk
    · simp only [List.mem_append, List.mem_singleton] at hk
      rcases hk with ((((hk | hk) | hk) | hk) | hk) | hk
      · split at hk <;> simp at hk
      · split at hk <;> simp at hk
      · exact hbody _ hk r rfl
      · cases hk
      · split at hk
        · simp [showCursorToks] at hk
        · simp at hk
      · split at hk <;> simp at hk
  generalize (renderFrame cw f).2 = toks at hall hno
  induction toks generalizing t with
  | nil => rfl
  | cons k ks ih =>
    simp only [ModeTerm.run, List.foldl_cons]
    have h1 := step_core t f.caps k (hall k (by simp)) (hno k (by simp))
    have h2 := ih (ModeTerm.step t k) (fun k' hk' => hall k' (by simp [hk'])) (fun k' hk' => hno k' (by simp [hk']))
    simp only [ModeTerm.run] at h2
    rw [h2, h1]

end frames

-- Non-vacuity: assignment 0x1ff (everything advertised, mouse disabled) really enables things.
example : (run (t0Of (envOf 255)) (startupW (envOf 255)).wire).kitty = 1 := by decide +kernel
example : (run (t0Of (envOf 255)) (startupW (envOf 255)).wire).alt = true := by decide +kernel

end VaxisModel.Props.C04
