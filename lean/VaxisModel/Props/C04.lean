/-
C04 — Terminal state is restored on every exit path.

The start-up and shutdown functions are *interpreted from the lists regenerated from vaxis.go*
(`Gen/Modes.lean`), composed with the writer model, and run on the mode terminal `Spec.ModeTerm`.

* **All run-time values.**  The interpreter produces *items*: tokens plus named holes for the kitty
  keyboard flags, the queried user cursor style, the saved application id and the cursor the
  application asked for (`Model.Lifecycle.interpS` never sees a value; `inst` fills the holes).  The
  mode terminal is run on items with *symbols* for the value-carrying fields (`Lemmas.C04Sym`), and
  `runS_sound` — proved for every value — says the symbolic run describes every concrete one.  The
  prior value and the value the application sets are different symbols, so "restored" cannot hold
  because two representatives happen to coincide; and since equal symbols give equal values
  whatever the values are, the statements also cover the case where the user's value equals the
  default or the application's value.
* **All capability sets.**  `decide +kernel` evaluates the symbolic checkers on ALL 2^9 assignments
  of the guard variables (kittyKeyboard, sixels, unicodeCore, explicitWidth, colorThemeUpdates,
  inBandResize, osc176, synchronizedUpdate, disableMouse) × all four (cursorNext.visible,
  cursorLast.visible) combinations, from a running state in which everything frames may change is
  *unknown*.  A mode enabled under one guard and reset under another makes a chunk fail to compile.
* **All sessions.**  Induction over the list of operations (`Lemmas.C04Session`): start-up, then any
  number of frames, cursor requests, SetAppID calls and Suspend/Resume cycles, then shutdown at any
  point — by Close, by the signal arm or by the panic handler of the input goroutine (both are
  `Close`: `signal_path_is_close`, `panic_path_is_close`, over the skeleton regenerated from `openTty`).
-/
import VaxisModel.Props.C07
import VaxisModel.Props.C01
import VaxisModel.Lemmas.C04Chunk00
import VaxisModel.Lemmas.C04Chunk01
import VaxisModel.Lemmas.C04Chunk02
import VaxisModel.Lemmas.C04Chunk03
import VaxisModel.Lemmas.C04Chunk04
import VaxisModel.Lemmas.C04Chunk05
import VaxisModel.Lemmas.C04Chunk06
import VaxisModel.Lemmas.C04Chunk07
import VaxisModel.Lemmas.C04Chunk08
import VaxisModel.Lemmas.C04Chunk09
import VaxisModel.Lemmas.C04Chunk10
import VaxisModel.Lemmas.C04Chunk11
import VaxisModel.Lemmas.C04Chunk12
import VaxisModel.Lemmas.C04Chunk13
import VaxisModel.Lemmas.C04Chunk14
import VaxisModel.Lemmas.C04Chunk15
import VaxisModel.Lemmas.C04Session
import VaxisModel.Lemmas.C04Guards

namespace VaxisModel.Props.C04
open VaxisModel.Lemmas.C04Check VaxisModel.Model.Lifecycle VaxisModel.Spec.ModeTerm
open VaxisModel.Lemmas.C04Sym VaxisModel.Lemmas.C04SymCheck VaxisModel.Lemmas.C04Session VaxisModel.Lemmas.C04Interp

private theorem all_checked (m : Nat) (hm : m < 512) : allB m = true := by
  rcases (by omega : (0 ≤ m ∧ m < 32) ∨ (32 ≤ m ∧ m < 64) ∨ (64 ≤ m ∧ m < 96) ∨ (96 ≤ m ∧ m < 128) ∨ (128 ≤ m ∧ m < 160) ∨ (160 ≤ m ∧ m < 192) ∨ (192 ≤ m ∧ m < 224) ∨ (224 ≤ m ∧ m < 256) ∨ (256 ≤ m ∧ m < 288) ∨ (288 ≤ m ∧ m < 320) ∨ (320 ≤ m ∧ m < 352) ∨ (352 ≤ m ∧ m < 384) ∨ (384 ≤ m ∧ m < 416) ∨ (416 ≤ m ∧ m < 448) ∨ (448 ≤ m ∧ m < 480) ∨ (480 ≤ m ∧ m < 512)) with h | h | h | h | h | h | h | h | h | h | h | h | h | h | h | h
  · exact chunk_sound 0 32 sym_chunk00 m (by omega) (by omega)
  · exact chunk_sound 32 64 sym_chunk01 m (by omega) (by omega)
  · exact chunk_sound 64 96 sym_chunk02 m (by omega) (by omega)
  · exact chunk_sound 96 128 sym_chunk03 m (by omega) (by omega)
  · exact chunk_sound 128 160 sym_chunk04 m (by omega) (by omega)
  · exact chunk_sound 160 192 sym_chunk05 m (by omega) (by omega)
  · exact chunk_sound 192 224 sym_chunk06 m (by omega) (by omega)
  · exact chunk_sound 224 256 sym_chunk07 m (by omega) (by omega)
  · exact chunk_sound 256 288 sym_chunk08 m (by omega) (by omega)
  · exact chunk_sound 288 320 sym_chunk09 m (by omega) (by omega)
  · exact chunk_sound 320 352 sym_chunk10 m (by omega) (by omega)
  · exact chunk_sound 352 384 sym_chunk11 m (by omega) (by omega)
  · exact chunk_sound 384 416 sym_chunk12 m (by omega) (by omega)
  · exact chunk_sound 416 448 sym_chunk13 m (by omega) (by omega)
  · exact chunk_sound 448 480 sym_chunk14 m (by omega) (by omega)
  · exact chunk_sound 480 512 sym_chunk15 m (by omega) (by omega)

/-- Everything the kernel evaluated for guard assignment `m` (all 16 chunk modules), as propositions. -/
theorem facts (m : Nat) (hm : m < 512) : Facts m := facts_of (all_checked m hm)

/-- **Balanced — every session, every value, every exit path.**  For every capability/option
    assignment `m`, all kitty keyboard flags, every user cursor style, every application id the
    terminal reports (`SettableId`: any id except the one-character id `?`, which OSC 176 reads as
    the query), every prior depth `k0` of the kitty keyboard stack: start-up, then ANY list of
    operations — frames (any renderer output), cursor requests (any position, any style, shown or
    hidden), `SetAppID` with any id, Suspend, Resume, in any number and order — then shutdown
    (Close; the signal arm and the panic handler are `Close`, see below) leaves every mode of the
    property's list at its prior value, the cursor visible, the primary screen active, the pen
    reset, no hyperlink open, the kitty keyboard stack at its prior depth, keypad numeric, the
    application id, cursor shape and pointer shape restored and synchronized-update off; and Vaxis is marked closed. -/
theorem balanced (m : Nat) (hm : m < 512) (kittyFlags userCursorStyle k0 : Nat) (appId : String) (hq : SettableId appId)
    (ops : List Op) (hok : ∀ op ∈ ops, op.ok) :
    let e := envV m kittyFlags userCursorStyle appId
    let t0 := t0V m e k0
    let s := shutdown e (runOps e (start e t0) ops)
    restored t0 s.t = true ∧ s.w.closed = true := by
  intro e t0 s
  have F := facts m hm
  have hinv := ops_inv (k0 := k0) F (rfl : e.v = vOf m) hq _ ops hok (start_inv F rfl hq)
  have := shutdown_restores F (rfl : e.v = vOf m) hq _ hinv
  exact ⟨this.2, this.1⟩

/-- The terminal before Vaxis starts, for a guard function `e.v` (cf. `t0V`). -/
def t0G (e : Env) (k0 : Nat) : MTerm :=
  { supported := (t0Of e).supported, kittySupported := e.v "caps.kittyKeyboard", appIdSupported := e.v "caps.osc176",
    kitty := k0, appId := appIdHex e.appId, cursorShape := e.userCursorStyle }

/-- **`balanced` over guard functions instead of assignment numbers.**  For EVERY `v : String → Bool`
    that is false outside the nine guard variables (i.e. every capability set × DisableMouse, and no
    I/O error on the way — the `expr:` guards of the error returns are false), every `Env` with these
    guards and any run-time values: every session followed by shutdown restores the terminal.
    (`C04Guards.v_eq`: such a `v` is one of the 512 assignments the kernel evaluated.) -/
theorem balanced_all_guards (e : Env) (hv : ∀ n, n ∉ vars → e.v n = false) (k0 : Nat) (hq : SettableId e.appId)
    (ops : List Op) (hok : ∀ op ∈ ops, op.ok) :
    restored (t0G e k0) (shutdown e (runOps e (start e (t0G e k0)) ops)).t = true := by
  have hve := VaxisModel.Lemmas.C04Guards.v_eq e.v hv
  have he : e = envV (VaxisModel.Lemmas.C04Guards.mOf e.v) e.kittyFlags e.userCursorStyle e.appId := by
    cases e with
    | mk v kf ucs app => simp only [envV, Env.mk.injEq, and_true]; exact hve
  have ht : t0G e k0 = t0V (VaxisModel.Lemmas.C04Guards.mOf e.v) e k0 := by
    simp only [t0G, t0V, sT0, t0Of, vOf]
    rw [show (envOf (VaxisModel.Lemmas.C04Guards.mOf e.v)).v = e.v from hve.symm]
  rw [ht]
  have := (balanced (VaxisModel.Lemmas.C04Guards.mOf e.v) (VaxisModel.Lemmas.C04Guards.mOf_lt e.v) e.kittyFlags e.userCursorStyle k0 e.appId hq ops hok).1
  rw [← he] at this
  exact this

/-- **Suspend restores, Resume re-establishes** — at every point of every session: while
    suspended everything is restored exactly as after Close; while running (in particular after
    every Resume) the mode table, screen selector, kitty keyboard stack depth and keypad mode are
    exactly the ones start-up established. -/
theorem resume_reestablishes (m : Nat) (hm : m < 512) (kittyFlags userCursorStyle k0 : Nat) (appId : String) (hq : SettableId appId)
    (ops : List Op) (hok : ∀ op ∈ ops, op.ok) :
    let e := envV m kittyFlags userCursorStyle appId
    let t0 := t0V m e k0
    let s := runOps e (start e t0) ops
    (s.w.suspended = true → restored t0 s.t = true) ∧
    (s.w.suspended = false → s.t.modes = (start e t0).t.modes ∧ s.t.alt = (start e t0).t.alt ∧
        s.t.kitty = (start e t0).t.kitty ∧ s.t.keypadApp = (start e t0).t.keypadApp) := by
  intro e t0 s
  have F := facts m hm
  have hinv := ops_inv (k0 := k0) F (rfl : e.v = vOf m) hq _ ops hok (start_inv F rfl hq)
  exact ⟨suspended_restored (e := e) F rfl hq _ hinv, running_core (e := e) F rfl hq _ hinv⟩

/-- **A second Close is harmless**: for every state and all values it writes nothing and buffers nothing. -/
theorem close_idempotent (e : Env) (w : WSt) : (closeW e true w).wire = w.wire ∧ (closeW e true w).buf = w.buf := by
  have h : interpS e.v 64 Gen.Modes.close (absW { w with closed := w.closed || true }) = absW { w with closed := w.closed || true } :=
    close_closed _ _ (by simp [absW])
  simp only [closeW, interp, h]
  exact concW_absW e _

/-- …in particular after the shutdown of any session: Close again changes nothing on the terminal. -/
theorem close_twice (m : Nat) (hm : m < 512) (kittyFlags userCursorStyle k0 : Nat) (appId : String) (hq : SettableId appId)
    (ops : List Op) (hok : ∀ op ∈ ops, op.ok) :
    let e := envV m kittyFlags userCursorStyle appId
    let s := shutdown e (runOps e (start e (t0V m e k0)) ops)
    (shutdown e s).t = s.t := by
  intro e s
  have hc := (balanced m hm kittyFlags userCursorStyle k0 appId hq ops hok).2
  have h : interpS e.v 64 Gen.Modes.close (absW { clearWire s.w with closed := (clearWire s.w).closed || false }) =
      absW { clearWire s.w with closed := (clearWire s.w).closed || false } :=
    close_closed _ _ (by simpa [absW, clearWire] using hc)
  simp only [shutdown, closeW, interp, h]
  rw [(concW_absW e _).1]
  simp [clearWire, run]

/-- **Close while suspended** (Suspend, then Close without Resume — at any point of any session)
    writes nothing: Suspend's early return on `vx.suspended` is taken, so the terminal stays
    restored (and the call does not wait for a parser that is already stopped). -/
theorem close_while_suspended_writes_nothing (m : Nat) (hm : m < 512) (kittyFlags userCursorStyle k0 : Nat) (appId : String)
    (hq : SettableId appId) (ops : List Op) (hok : ∀ op ∈ ops, op.ok) :
    let e := envV m kittyFlags userCursorStyle appId
    let s := runOps e (start e (t0V m e k0)) ops
    s.w.suspended = true → (shutdown e s).w.wire = [] := by
  intro e s
  have F := facts m hm
  have hinv := ops_inv (k0 := k0) F (rfl : e.v = vOf m) hq _ ops hok (start_inv F rfl hq)
  exact shutdown_suspended_silent (e := e) F rfl hq _ hinv

/-! ### The signal path and the panic path (skeleton regenerated from `openTty`) -/

/-- The skeleton of the input goroutine was fully recognised: the deferred handler is the first
    statement, it is `if err := recover(); err != nil { vx.Close(); panic(err) }`, the select loop has
    the parser arm (which also tells whether the parser's channel has been closed: round 3, F13
    repaired), the window-size arm and the kill-signal arm `vx.Close(); return`. -/
theorem facts_inputLoop :
    Gen.Modes.inputLoopRecover = [.call .tt "Close", .other .tt "panic(err)"] ∧
    Gen.Modes.inputLoopSignalArm = [.call .tt "Close", .other .tt "return"] ∧
    Gen.Modes.inputLoopRecoverGuard = "err := recover(); err != nil" ∧
    Gen.Modes.inputLoopDeferFirst = true ∧
    Gen.Modes.inputLoopArms = ["seq, ok := <-parser.Next()", "<-vx.chSigWinSz", "<-vx.chSigKill"] := by
  decide

/-- **Signal path.** What the kill-signal arm of the input goroutine writes, from every state and
    for all values, is exactly what `Close` writes (so `balanced` applies to it). -/
theorem signal_path_is_close (e : Env) (w : WSt) :
    (interp e 65 Gen.Modes.inputLoopSignalArm w).wire = (closeW e false w).wire ∧
    (interp e 65 Gen.Modes.inputLoopSignalArm w).buf = (closeW e false w).buf ∧
    (interp e 65 Gen.Modes.inputLoopSignalArm w).closed = (closeW e false w).closed := by
  have h : interpS e.v 65 Gen.Modes.inputLoopSignalArm (absW w) = interpS e.v 64 Gen.Modes.close (absW w) :=
    signal_arm_close e.v _ (absW w) facts_inputLoop.2.1
  have hw : ({ w with closed := w.closed || false } : WSt) = w := by simp
  simp only [closeW, interp, h, hw, and_self]

/-- **Panic path.** What the deferred recover handler of the input goroutine writes before it
    re-panics, from every state and for all values, is exactly what `Close` writes. -/
theorem panic_path_is_close (e : Env) (w : WSt) :
    (interp e 65 Gen.Modes.inputLoopRecover w).wire = (closeW e false w).wire ∧
    (interp e 65 Gen.Modes.inputLoopRecover w).buf = (closeW e false w).buf ∧
    (interp e 65 Gen.Modes.inputLoopRecover w).closed = (closeW e false w).closed := by
  have h : interpS e.v 65 Gen.Modes.inputLoopRecover (absW w) = interpS e.v 64 Gen.Modes.close (absW w) :=
    recover_close e.v _ (absW w) facts_inputLoop.1
  have hw : ({ w with closed := w.closed || false } : WSt) = w := by simp
  simp only [closeW, interp, h, hw, and_self]

/-! ### The saved original values are written by start-up only -/

/-- **Every site in the package that writes a value which shutdown formats into a restore
    sequence** (regenerated from all non-test files of the package): the kitty keyboard flags are
    set in `New` from the options; `appIDLast` is assigned once, in `New`'s start-up loop, from the
    terminal's OSC 176 reply; `userCursorStyle` only in `handleSequence`'s DECRPSS reply arm.  No
    application-facing call (`SetAppID`, `ShowCursor`, …) writes them — which is why the model keeps
    them constant over a session (`Env`) and why `balanced` may identify `appIDLast` with the
    terminal's ORIGINAL application id. -/
theorem facts_savedValueWrites :
    Gen.Modes.savedValueWrites =
      [("kittyFlags", "New", "kittyFlags: int(CSIuDisambiguate)"),
       ("kittyFlags", "New", "vx.kittyFlags = int(opts.CSIuBitMask)"),
       ("kittyFlags", "New", "vx.kittyFlags |= int(CSIuReportEvents)"),
       ("appIDLast", "New", "vx.appIDLast = ev"),
       ("userCursorStyle", "handleSequence", "vx.userCursorStyle = CursorStyle(cursorStyle - 0x30)")] := by
  decide

/-- **Start-up skeleton.** `New` calls `openTty`, `sendQueries`, `enterAltScreen`, `enableModes` in this
    order (the model's `startupS` folds over this regenerated list), `openTty` installs a new writer,
    and `newWriter` creates its buffer with 8192 bytes already in it (the `fresh` flag of the writer
    model: the first group after start-up/Resume has no prologue). -/
theorem facts_startup_skeleton :
    Gen.Modes.newCalls = ["openTty", "sendQueries", "enterAltScreen", "enableModes"] ∧
    Gen.Modes.openTtyInstallsWriter = true ∧
    Gen.Modes.newWriterBuf = "bytes.NewBuffer(make([]byte, 8192))" := by
  decide

/-! ### The direct token mappings agree with the lexer -/

/-- The printed forms of DECSET/DECRST lex to exactly the tokens the lifecycle model maps them to
    (checked for every mode number that occurs in vaxis.go). -/
theorem decset_lexes :
    ∀ n ∈ [1, 25, 1002, 1003, 1004, 1006, 1049, 2004, 2026, 2027, 2031, 2048, 8452],
      toksOf (wBytes default (.decset n)) = [.decset n] ∧ toksOf (wBytes default (.decrst n)) = [.decrst n] := by
  decide +kernel

/-- `CSI > flags u` as printed by `tparm(kittyKBEnable, flags)` lexes to the token the model maps it
    to — for every value of the 5-bit progressive-enhancement mask (all flags the kitty keyboard protocol defines). -/
theorem kittyPush_lexes :
    ∀ n ∈ List.range 32,
      toksOf (wBytes { v := fun _ => false, kittyFlags := n } (.tparm "kittyKBEnable" "\x1b[>%du" ["vx.kittyFlags"])) =
        inst { v := fun _ => false, kittyFlags := n } default default .kittyPush := by
  decide +kernel

/-- `CSI n SP q` lexes to the model's token for every style `vaxis.go` can store in
    `userCursorStyle` (the DECRQSS reply is only accepted for the digits 0–6). -/
theorem userStyle_lexes :
    ∀ n ∈ List.range 7,
      toksOf (wBytes { v := fun _ => false, userCursorStyle := n } (.tparm "cursorStyleSet" "\x1b[%d q" ["int(vx.userCursorStyle)"])) =
        inst { v := fun _ => false, userCursorStyle := n } default default .userStyle := by
  decide +kernel

/-- `OSC 176 ; id ST` lexes to the model's token (sample of ids, including the empty id, ids with
    `;`, spaces and non-ASCII; real ids by the correspondence run). -/
theorem appIdRestore_lexes :
    ∀ id ∈ ["", "app", "foot", "org.example.App", "a;b", "x y", "é", "?"],
      toksOf (wBytes { v := fun _ => false, appId := id } (.tparm "setAppID" "\x1b]176;%s\x1b\\" ["vx.appIDLast"])) =
        inst { v := fun _ => false, appId := id } default default .appIdRestore := by
  decide +kernel

/-- The recognised run-time writes of the current source are recognised (no `opaqueW` item, no
    value-dependent cursor-only flush) — otherwise `balanced` could not have been proved; stated
    separately so that a regression names the cause. -/
theorem no_opaque_items :
    ∀ m ∈ [0, 255, 511], ∀ it ∈ (startupS (vOf m)).wire ++ (interpS (vOf m) 64 Gen.Modes.suspend (Wrun true true)).wire,
      (match it with | .opaqueW _ => false | .cursorOnly _ => false | _ => true) = true := by
  decide +kernel

/-- `balanced` without the hypothesis `SettableId`. -/
def balanced_full : Prop :=
  ∀ (m : Nat), m < 512 → ∀ (kittyFlags userCursorStyle k0 : Nat) (appId : String) (ops : List Op), (∀ op ∈ ops, op.ok) →
    let e := envV m kittyFlags userCursorStyle appId
    let t0 := t0V m e k0
    restored t0 (shutdown e (runOps e (start e t0) ops)).t = true

/-- …is false, and only because of the protocol: a terminal (assignment 64: OSC 176 only) whose original
    application id is the single character `?`; the application calls `SetAppID("x")`; shutdown writes
    `OSC 176 ; ? ST`, which is the query, and the id stays `x`.  So `SettableId` in `balanced` is needed. -/
theorem balanced_full_fails : ¬ balanced_full := by
  intro h
  have := h 64 (by omega) 1 0 0 "?" [.setAppId "x"] (by intro op hop; simp at hop; subst hop; trivial)
  revert this
  decide +kernel

/-- The application id `?` cannot be restored through OSC 176 (the sequence is the query): the
    hypothesis `SettableId` of `balanced` excludes exactly such ids. -/
theorem unsettable_id_is_query : ¬ SettableId "?" := by
  unfold SettableId; decide +kernel

/-! ### Frames: every frame of the renderer model is an admissible `Op.frame` -/

section frames
open VaxisModel.Model.Render VaxisModel.Lemmas.RenderGate VaxisModel.Spec VaxisModel.Lemmas.RenderToks

/-- The part of the terminal that start-up establishes and only shutdown may change. -/
def core (t : MTerm) : List (Nat × Bool) × Bool × Nat × Bool × String :=
  (t.modes, t.alt, t.kitty, t.keypadApp, t.appId)

/-- The renderer never writes a token outside its own vocabulary (`Tok.other`), for any capability set. -/
private theorem render_no_other (cw : String → Nat) (f : Frame) : ∀ k ∈ (renderFrame cw f).2, ∀ r, k ≠ Tok.other r := by
  intro k hk r hr
  subst hr
  obtain ⟨pre, extra, close, show_, hb, hpre, hvoc, hclose, _, hs⟩ := Lemmas.RenderToks.renderBody_shape cw f
  have hbody : ∀ k' ∈ (renderBody cw f).2, ∀ r', k' ≠ Tok.other r' := by
    intro k' hk' r' hr'
    rw [hb] at hk'
    simp only [List.mem_append] at hk'
    rcases hk' with ((hk' | hk') | hk') | hk'
    · rcases hpre with h0 | ⟨s, h0⟩ <;> subst h0 <;> simp at hk'
      subst hk'; cases hr'
    · have := hvoc k' hk'; subst hr'; exact this
    · rcases hclose with h0 | h0 <;> subst h0 <;> simp at hk'
      subst hk'; cases hr'
    · subst hs; split at hk'
      · simp [showCursorToks] at hk'; rcases hk' with rfl | rfl | rfl <;> cases hr'
      · simp at hk'
  unfold renderFrame flush at hk
  simp only at hk
  split at hk
  · repeat' split at hk
    all_goals simp [showCursorToks] at hk
  · simp only [List.mem_append, List.mem_singleton] at hk
    rcases hk with ((((hk | hk) | hk) | hk) | hk) | hk
    · split at hk <;> simp at hk
    · split at hk <;> simp at hk
    · exact hbody _ hk r rfl
    · cases hk
    · split at hk
      · simp [showCursorToks] at hk
      · simp at hk
    · split at hk <;> simp at hk

private theorem linkOpen_step (t : MTerm) (k : Tok) (l : String) (h : t.linkOpen = decide (l ≠ "")) :
    (ModeTerm.step t k).linkOpen = decide (linkStep l k ≠ "") := by
  cases k with
  | osc8 p u => by_cases hu : u = "" <;> simp [ModeTerm.step, linkStep, hu]
  | decset n => simp only [ModeTerm.step, decMode, linkStep]; (repeat' split) <;> exact h
  | decrst n => simp only [ModeTerm.step, decMode, linkStep]; (repeat' split) <;> exact h
  | other r => simp only [ModeTerm.step, ModeTerm.other, linkStep]; (repeat' split) <;> exact h
  | _ => exact h

private theorem linkOpen_run (toks : List Tok) (t : MTerm) (l : String) (h : t.linkOpen = decide (l ≠ "")) :
    (ModeTerm.run t toks).linkOpen = decide (linkRun l toks ≠ "") := by
  induction toks generalizing t l with
  | nil => exact h
  | cons k ks ih =>
    simp only [ModeTerm.run, List.foldl_cons, linkRun]
    exact ih _ _ (linkOpen_step t k l h)

/-- **Every frame the renderer model can produce — any cells, any cursor request, any capability
    set — is an admissible frame operation of `balanced`**: renderer vocabulary only (the only private
    modes are cursor visibility and the synchronized-update brackets), and no hyperlink left open. -/
theorem renderFrame_ok (cw : String → Nat) (f : Frame) : (Op.frame (renderFrame cw f).2).ok := by
  refine ⟨?_, ?_⟩
  · intro k hk
    have ha := C07.render_gated cw f k hk
    have hn := render_no_other cw f k hk
    cases k with
    | other r => exact absurd rfl (hn r)
    | decset n =>
      simp only [allowedTok, Bool.or_eq_true, beq_iff_eq, Bool.and_eq_true] at ha
      rcases ha with h | ⟨h, _⟩ <;> subst h <;> rfl
    | decrst n =>
      simp only [allowedTok, Bool.or_eq_true, beq_iff_eq, Bool.and_eq_true] at ha
      rcases ha with h | ⟨h, _⟩ <;> subst h <;> rfl
    | _ => rfl
  · intro t ht
    have hrest := C01.flush_epilogue (fun _ => 1) cw f (Display.Term.init 1 1) ⟨rfl, rfl, rfl⟩
    have hl := (run_fields (fun _ => 1) (renderFrame cw f).2 (Display.Term.init 1 1)).1
    rw [hrest.2.1] at hl
    have := linkOpen_run (renderFrame cw f).2 t "" (by simp [ht])
    rw [this, show linkRun "" (renderFrame cw f).2 = "" from hl.symm]
    simp

/-- **Frames never change a mode, the screen selector, the kitty keyboard stack, the keypad mode or
    the application id** — whatever is drawn, under every capability set. -/
theorem frame_keeps_core (cw : String → Nat) (f : Frame) (t : MTerm) :
    core (ModeTerm.run t (renderFrame cw f).2) = core t := by
  have k := keeps_run t (renderFrame cw f).2 (renderFrame_ok cw f).1
  simp only [core, k.modes, k.alt, k.kitty, k.keypadApp, k.appId]

end frames

-- Non-vacuity: assignment 0x1ff (everything advertised, mouse disabled) really enables things, for the
-- representative values as well as others; ordinary ids are settable; a session with frames,
-- cursor requests, SetAppID and Suspend/Resume meets the hypotheses of `balanced`.
example : (run (t0Of (envOf 255)) (startupW (envOf 255)).wire).kitty = 1 := by decide +kernel
example : (run (t0Of (envOf 255)) (startupW (envOf 255)).wire).alt = true := by decide +kernel
example : (established 255).kitty = 1 ∧ (established 255).alt = true ∧ (established 255).keypadApp = true := by decide +kernel
example : SettableId "app" ∧ SettableId "" ∧ SettableId "??" := by
  refine ⟨?_, ?_, ?_⟩ <;> (unfold SettableId; decide +kernel)
example : ∀ op ∈ [Op.frame [.decrst 25, .sgr [[1]], .text "78", .osc8 "" "68", .text "79", .osc8 "" "", .sgr [], .decset 25],
    Op.cursor { row := 3, col := 4, style := 5, visible := true } {}, Op.setAppId "other", Op.suspend, Op.resume], op.ok := by
  intro op hop
  simp only [List.mem_cons, List.mem_nil_iff, or_false] at hop
  rcases hop with rfl | rfl | rfl | rfl | rfl
  · refine ⟨by decide, ?_⟩
    intro t _
    simp [run, step, decMode]
  all_goals trivial

-- other application output between lifecycle calls is admissible too: a title (OSC 2), the bell, an OSC 52 clipboard write
example : frameTok (.other "1b5d323b7469746c65") = true ∧ frameTok (.other "07") = true ∧ frameTok (.other "1b5d35323b633b59513d3d") = true := by
  decide +kernel
-- … but not a sequence the mode terminal reacts to (keypad application mode, kitty keyboard push)
example : frameTok (.other "1b3d") = false ∧ frameTok (.other "1b5b3e3175") = false := by decide +kernel

end VaxisModel.Props.C04
