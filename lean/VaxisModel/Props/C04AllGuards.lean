/-
C04 — `balanced` over ALL guard functions, with one hypothesis only: no I/O error in `Resume` (round 4).

`balanced_all_guards` needs the guard function to be false outside the nine guard variables.  Here it
is arbitrary — whatever `vx.withConsole == nil`, `vx.withTty != ""`, `col == 1`, `vx.renders != 0` … are
— except that the I/O-error guard `expr:err != nil` of the regenerated lists is false (what happens when
it is true is `C04Start.resume_failure_writes_nothing` / `failed_startup_restores`).  Method:
`C04Restrict.interpS_restrict` — the interpreter depends on the guard function only through the nine
variables, Vaxis's two flags and that error guard (`safeList`, kernel-evaluated on the regenerated lists).
-/
import VaxisModel.Props.C04
import VaxisModel.Lemmas.C04Restrict

namespace VaxisModel.Props.C04AllGuards
open VaxisModel.Lemmas.C04Check VaxisModel.Model.Lifecycle VaxisModel.Spec.ModeTerm VaxisModel.Gen.Modes
open VaxisModel.Lemmas.C04Sym VaxisModel.Lemmas.C04SymCheck VaxisModel.Lemmas.C04Session VaxisModel.Lemmas.C04Restrict

/-- The guards of all effective statements of the regenerated lifecycle lists (and of what they call) mention
    only the nine guard variables, `closed` / `suspended`, or are conjunctions with the I/O-error guard. -/
theorem lists_are_safe :
    safeList 64 suspend = true ∧ safeList 64 resume = true ∧ safeList 64 close = true ∧
    safeList 64 enterAltScreen = true ∧ safeList 64 exitAltScreen = true ∧ safeList 64 enableModes = true ∧
    safeList 64 disableModes = true := by
  decide +kernel

/-- `e` with every guard variable outside the nine forgotten. -/
def restrictEnv (e : Env) : Env := { e with v := restrict e.v }

theorem restrict_outside (v : String → Bool) : ∀ n, n ∉ vars → restrict v n = false := by
  intro n hn
  have : vars.contains n = false := by simpa using hn
  show (if vars.contains n = true then v n else false) = false
  rw [this]; rfl

theorem restrict_inside (v : String → Bool) (n : String) (hn : vars.contains n = true) : restrict v n = v n := by
  show (if vars.contains n = true then v n else false) = v n
  rw [if_pos hn]

section
variable (e : Env) (herr : e.v errName = false)
include herr

theorem interp_restrict (l : List S) (hl : safeList 64 l = true) (w : WSt) : interp (restrictEnv e) 64 l w = interp e 64 l w := by
  simp only [interp, restrictEnv, interpS_restrict e.v herr 64 l (absW w) hl]
  rfl

theorem startupS_restrict : startupS (restrict e.v) = startupS e.v := by
  have h1 := interpS_restrict e.v herr 64 enterAltScreen
  have h2 := interpS_restrict e.v herr 64 enableModes
  have t1 : table "enterAltScreen" = some enterAltScreen := by decide +kernel
  have t2 : table "enableModes" = some enableModes := by decide +kernel
  have n1 : ("sendQueries" = "openTty") = False := by decide
  have n2 : ("enterAltScreen" = "openTty") = False := by decide
  have n3 : ("enterAltScreen" = "sendQueries") = False := by decide
  have n4 : ("enableModes" = "openTty") = False := by decide
  have n5 : ("enableModes" = "sendQueries") = False := by decide
  have hc : newCalls = ["openTty", "sendQueries", "enterAltScreen", "enableModes"] := by decide
  simp only [startupS, hc, List.foldl_cons, List.foldl_nil, if_true, n1, n2, n3, n4, n5, if_false, t1, t2]
  rw [h1 _ lists_are_safe.2.2.2.1, h2 _ lists_are_safe.2.2.2.2.2.1]

theorem start_restrict (t0 : MTerm) : start (restrictEnv e) t0 = start e t0 := by
  simp only [start, startupW, restrictEnv, startupS_restrict e herr]
  rfl

theorem applyOp_restrict (s : Sess) (op : Op) : applyOp (restrictEnv e) s op = applyOp e s op := by
  cases op with
  | frame toks => rfl
  | cursor cn cl => rfl
  | setAppId id => rfl
  | suspend => simp only [applyOp, suspendW, interp_restrict e herr suspend lists_are_safe.1]
  | resume => simp only [applyOp, resumeW, interp_restrict e herr resume lists_are_safe.2.1]

theorem runOps_restrict (ops : List Op) (s : Sess) : runOps (restrictEnv e) s ops = runOps e s ops := by
  induction ops generalizing s with
  | nil => rfl
  | cons op rest ih => simp only [runOps, List.foldl_cons] at ih ⊢; rw [applyOp_restrict e herr, ih]

theorem shutdown_restrict (s : Sess) : shutdown (restrictEnv e) s = shutdown e s := by
  simp only [shutdown, closeW, interp_restrict e herr close lists_are_safe.2.2.1]

end

/-- **`balanced` for every guard function without an I/O error**: for EVERY `Env` — any capability set,
    `DisableMouse`, and ANY values of every other condition the lifecycle functions test — whose I/O-error
    guard is false, all run-time values, every session followed by shutdown: the terminal is restored.
    (`balanced_all_guards` without its hypothesis "false outside the nine variables".) -/
theorem balanced_no_io_error (e : Env) (herr : e.v errName = false) (k0 : Nat) (hq : SettableId e.appId)
    (ops : List Op) (hok : ∀ op ∈ ops, op.ok) :
    restored (C04.t0G e k0) (shutdown e (runOps e (start e (C04.t0G e k0)) ops)).t = true := by
  have ht : C04.t0G (restrictEnv e) k0 = C04.t0G e k0 := by
    simp only [C04.t0G, t0Of, restrictEnv,
      restrict_inside e.v "caps.synchronizedUpdate" (by decide), restrict_inside e.v "caps.unicodeCore" (by decide),
      restrict_inside e.v "caps.colorThemeUpdates" (by decide), restrict_inside e.v "caps.inBandResize" (by decide),
      restrict_inside e.v "caps.sixels" (by decide), restrict_inside e.v "caps.kittyKeyboard" (by decide),
      restrict_inside e.v "caps.osc176" (by decide)]
  have h := C04.balanced_all_guards (restrictEnv e) (restrict_outside e.v) k0 hq ops hok
  rw [ht, start_restrict e herr, runOps_restrict e herr, shutdown_restrict e herr] at h
  exact h

-- Non-vacuity: a guard function that is true on conditions outside the nine variables (Resume on a real TTY given by path,
-- explicit width detected, frames rendered) and has no I/O error.
example : (fun n => n == "expr:vx.withConsole == nil" || n == "expr:vx.withTty != \"\"" || n == "expr:col == 1" ||
    n == "expr:vx.renders != 0" || n == "caps.kittyKeyboard") errName = false := by decide

end VaxisModel.Props.C04AllGuards
