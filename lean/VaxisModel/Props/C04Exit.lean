import VaxisModel.Props.C04
import VaxisModel.Props.C10Shutdown
import VaxisModel.Lemmas.ConcPersist
import VaxisModel.Gen.Conc

/-!
# C04 × C10 — every exit path reaches its end on every schedule, and what it writes restores the terminal

`Props/C04.lean` proves, at the level of statement lists, that `Close`, the kill-signal arm and the
panic handler of the input goroutine write exactly the restoring sequence (`balanced`,
`signal_path_is_close`, `panic_path_is_close`).  Whether those paths *reach their end* is a
question of schedules: `Close` on the input goroutine used to wait for ever with sequences pending
(F13), `Close` with a full event queue never returned (F53).  Both are repaired; this file joins the
two halves.
-/
namespace VaxisModel.Props.C04Exit
open VaxisModel.Model.Conc VaxisModel.Lemmas.ConcInv VaxisModel.Lemmas.ConcPersist VaxisModel.Model.Lifecycle

/-- **The kill-signal path and the panic path run to their end.** From every state of the shutdown
LTS that satisfies the protocol invariant — whatever the event queue holds, whether or not anybody
receives, whatever input is pending, whoever else is inside `Close` or `Suspend` — once the input
goroutine has taken its kill-signal arm, or its deferred `recover` has caught a panic, EVERY maximal
run of the system ends with that `Close` returned, every goroutine of the library done and `chQuit`
closed exactly once. -/
theorem exit_path_completes (s s1 s' : SSys) (a : IAct) (ha : a = .kill ∨ a = .panic) (hinv : Inv s)
    (h1 : snext s (.input a) = some s1) (ls : List SLabel) (hl : ∀ l ∈ ls, l.sched = true) (hr : srun s1 ls = some s')
    (hrest : s'.quiescent = true) : s'.final = true ∧ s'.quitCloses = 1 := by
  have hinv1 : Inv s1 := inv_input s s1 a hinv h1
  obtain ⟨c, hc, hk⟩ := isClose_run ls s1 s' _ (exit_adds_close s s1 a ha h1) hr
  exact C10Shutdown.close_called_completes s1 s' ls hinv1 hl hr hrest c (List.mem_of_getElem? hc) hk

/-- **Every exit path, every schedule.** The two halves side by side: the signal / panic path
completes on every schedule (`exit_path_completes`, C10's LTS), and what it writes — from every
writer state, for all run-time values — is exactly what `Close` writes (C04's statement lists
regenerated from `openTty`), to which `C04.balanced` applies. -/
theorem exit_paths_complete_and_restore :
    (∀ (s s1 s' : SSys) (a : IAct), (a = .kill ∨ a = .panic) → Inv s → snext s (.input a) = some s1 →
      ∀ ls, (∀ l ∈ ls, l.sched = true) → srun s1 ls = some s' → s'.quiescent = true → s'.final = true ∧ s'.quitCloses = 1) ∧
    (∀ (e : Env) (w : WSt), (interp e 65 Gen.Modes.inputLoopSignalArm w).wire = (closeW e false w).wire) ∧
    (∀ (e : Env) (w : WSt), (interp e 65 Gen.Modes.inputLoopRecover w).wire = (closeW e false w).wire) :=
  ⟨fun s s1 s' a ha hinv h1 ls hl hr hrest => exit_path_completes s s1 s' a ha hinv h1 ls hl hr hrest,
   fun e w => (C04.signal_path_is_close e w).1, fun e w => (C04.panic_path_is_close e w).1⟩

/-! ### Every exit path, at every point of every session (round 4)

The exit paths of the property text are `Close`, a termination signal (the kill arm of the input
goroutine's `select`: SIGABRT, SIGBUS, SIGFPE, SIGILL, SIGINT, SIGQUIT, SIGSEGV, SIGTERM — what
`setupSignals` registers; SIGHUP is not registered: the terminal is gone then) and a panic inside the
input goroutine (its deferred `recover`).  A panic of the APPLICATION's goroutine is not an exit path
of the text ("when the library's own input goroutine panics"): the library cannot intercept it, the
application's own `defer vx.Close()` is a `Close`. -/

open VaxisModel.Lemmas.C04Session VaxisModel.Lemmas.C04Sym VaxisModel.Spec.ModeTerm in
/-- **At every point of every session — running or suspended, after any frames, cursor requests,
`SetAppID` calls and Suspend/Resume cycles — each of the three exit paths restores the terminal**: what
`Close`, the kill-signal arm and the recover handler of the input goroutine (statement lists
regenerated from `openTty`) write from the writer state the session has reached, run on the mode
terminal the session has reached, leaves everything at its prior value; for every capability set and
all run-time values.  (`path` ranges over the three lists; that each path also RUNS TO ITS END on every
schedule is `exit_path_completes`.) -/
theorem every_exit_restores_at_every_point (m : Nat) (hm : m < 512) (kittyFlags userCursorStyle k0 : Nat) (appId : String)
    (hq : SettableId appId) (ops : List Op) (hok : ∀ op ∈ ops, op.ok) :
    let e := envV m kittyFlags userCursorStyle appId
    let t0 := t0V m e k0
    let s := runOps e (start e t0) ops
    restored t0 (run s.t (closeW e false (clearWire s.w)).wire) = true ∧
    restored t0 (run s.t (interp e 65 Gen.Modes.inputLoopSignalArm (clearWire s.w)).wire) = true ∧
    restored t0 (run s.t (interp e 65 Gen.Modes.inputLoopRecover (clearWire s.w)).wire) = true := by
  intro e t0 s
  have h := (C04.balanced m hm kittyFlags userCursorStyle k0 appId hq ops hok).1
  have h' : restored t0 (run s.t (closeW e false (clearWire s.w)).wire) = true := h
  refine ⟨h', ?_, ?_⟩
  · rw [(C04.signal_path_is_close e (clearWire s.w)).1]; exact h'
  · rw [(C04.panic_path_is_close e (clearWire s.w)).1]; exact h'

/-- **Which termination signals are exit paths**: `setupSignals` routes exactly these eight to `chSigKill`
(the kill arm of the input goroutine), unconditionally — no enclosing condition, no earlier return (seeded
C04-m6 put an early return under in-band resize in front of it).  SIGHUP is not among them. -/
theorem facts_kill_signals :
    Gen.Modes.killSignals = ["syscall.SIGABRT", "syscall.SIGBUS", "syscall.SIGFPE", "syscall.SIGILL", "syscall.SIGINT",
      "syscall.SIGQUIT", "syscall.SIGSEGV", "syscall.SIGTERM"] ∧
    Gen.Modes.killNotifyGuard = "" := by decide

/-- The spinner widget's goroutine — the other goroutine the library starts that can panic in code of
the library — has the same deferred handler: `recover` → `m.vx.Close()` → `panic(err)` (regenerated
skeleton of the goroutine in `Model.start`), so its panic path is `Close` as well. -/
theorem spinner_panic_path_is_close :
    Gen.Conc.shape_spinnerLoop.take 6 = ["defer func {", "if err := recover(); err != nil {", "m.vx.Close()", "panic(err)", "}", "}"] := by
  decide

end VaxisModel.Props.C04Exit
