/-
C04 — the direct token mappings of the three run-time writes agree with the lexer for EVERY value
(round 4): `CSI > flags u` and `CSI n SP q` for every natural number, `OSC 176 ; id ST` for every id
without BEL / ESC.  `Props.C04.kittyPush_lexes` checks the values 0..31 by kernel evaluation; the application can
pass any `Options.CSIuBitMask` (an `int`), so the statement is wanted for all natural numbers.
-/
import VaxisModel.Lemmas.C04Lex

namespace VaxisModel.Props.C04Lex
open VaxisModel.Model.Lifecycle VaxisModel.Spec.Tokenize VaxisModel.Model.Render VaxisModel.Lemmas.C04Lex VaxisModel.Gen.Modes

private theorem fmt_toList : "\x1b[>%du".toList = [Char.ofNat 27, '[', '>', '%', 'd', 'u'] := by decide

private theorem wBytes_kitty (n : Nat) :
    wBytes { v := fun _ => false, kittyFlags := n } (.tparm "kittyKBEnable" "\x1b[>%du" ["vx.kittyFlags"]) =
      String.ofList ([Char.ofNat 27, '[', '>'] ++ Nat.toDigits 10 n ++ ['u']) := by
  have ha : argVal { v := fun _ => false, kittyFlags := n } "vx.kittyFlags" = toString n := by simp [argVal]
  simp only [wBytes, List.map_cons, List.map_nil, ha, fmt_toList]
  rw [toString_nat]
  simp [sprintf, String.toList_ofList]

/-- **`CSI > n u` for every `n`**: what `tparm(kittyKBEnable, n)` prints — through `String.toUTF8`, the
    lexer `Spec.Tokenize.tokens` and its hex encoding — is exactly the one token the lifecycle model maps the
    write to (`inst … .kittyPush`), for every natural number `n`. -/
theorem kittyPush_lexes_all (n : Nat) :
    toksOf (wBytes { v := fun _ => false, kittyFlags := n } (.tparm "kittyKBEnable" "\x1b[>%du" ["vx.kittyFlags"])) =
      inst { v := fun _ => false, kittyFlags := n } default default .kittyPush := by
  rw [wBytes_kitty]
  show tokens [[32]] (bytesOf (String.ofList ([Char.ofNat 27, '[', '>'] ++ Nat.toDigits 10 n ++ ['u']))) = [.other (kittyPushRaw n)]
  have hascii : ∀ c ∈ [Char.ofNat 27, '[', '>'] ++ Nat.toDigits 10 n ++ ['u'], c.toNat < 128 := by
    intro c hc
    simp only [List.mem_append, List.mem_cons, List.mem_nil_iff, or_false] at hc
    rcases hc with ((rfl | rfl | rfl) | hc) | rfl
    · decide
    · decide
    · decide
    · exact digits_ascii n c hc
    · decide
  rw [bytesOf_ascii _ hascii]
  have hb : ([Char.ofNat 27, '[', '>'] ++ Nat.toDigits 10 n ++ ['u']).map Char.toNat = [27, 91, 62] ++ digitBytes n ++ [117] := by
    simp only [List.map_append, List.map_cons, List.map_nil, digitBytes]
    rfl
  rw [hb, lex_csi_gt_u _ (digitBytes_range n)]
  congr 2
  rw [← String.toList_inj, hexOfBytes_toList _ (by simp), kittyPushRaw, String.toList_ofList, bytesOf_toString,
    hexChars_append, hexChars_append]
  rfl

private theorem fmt176_toList : "\x1b]176;%s\x1b\\".toList = [Char.ofNat 27, ']', '1', '7', '6', ';', '%', 's', Char.ofNat 27, '\\'] := by decide

private theorem wBytes_appId (id : String) :
    wBytes { v := fun _ => false, appId := id } (.tparm "setAppID" "\x1b]176;%s\x1b\\" ["vx.appIDLast"]) =
      String.ofList ([Char.ofNat 27, ']', '1', '7', '6', ';'] ++ id.toList ++ [Char.ofNat 27, '\\']) := by
  have ha : argVal { v := fun _ => false, appId := id } "vx.appIDLast" = id := by simp [argVal]
  simp only [wBytes, List.map_cons, List.map_nil, ha, fmt176_toList]
  simp [sprintf]

/-- **`OSC 176 ; id ST` for every id** whose UTF-8 encoding contains neither BEL nor ESC (i.e. every string without
    these two control characters — any other text, any length, `;` and non-ASCII included): what
    `tparm(setAppID, id)` prints lexes to exactly the one token the lifecycle model maps the write to. -/
theorem appIdRestore_lexes_all (id : String) (h : ∀ b ∈ bytesOf id, b ≠ 7 ∧ b ≠ 27) :
    toksOf (wBytes { v := fun _ => false, appId := id } (.tparm "setAppID" "\x1b]176;%s\x1b\\" ["vx.appIDLast"])) =
      inst { v := fun _ => false, appId := id } default default .appIdRestore := by
  rw [wBytes_appId]
  show tokens [[32]] (bytesOf (String.ofList ([Char.ofNat 27, ']', '1', '7', '6', ';'] ++ id.toList ++ [Char.ofNat 27, '\\']))) = [.other (appIdSetRaw id)]
  rw [bytesOf_ofList, bytesOfChars_append, bytesOfChars_append, bytesOfChars_toList,
    bytesOfChars_ascii [Char.ofNat 27, ']', '1', '7', '6', ';'] (by decide), bytesOfChars_ascii [Char.ofNat 27, '\\'] (by decide)]
  show tokens [[32]] ([27, 93, 49, 55, 54, 59] ++ bytesOf id ++ [27, 92]) = _
  rw [lex_osc176 _ h]
  congr 2
  rw [← String.toList_inj, hexOfBytes_toList _ (by simp), appIdSetRaw, String.toList_ofList, hexChars_append]
  rfl

private theorem fmtStyle_toList : "\x1b[%d q".toList = [Char.ofNat 27, '[', '%', 'd', ' ', 'q'] := by decide

private theorem wBytes_style (n : Nat) :
    wBytes { v := fun _ => false, userCursorStyle := n } (.tparm "cursorStyleSet" "\x1b[%d q" ["int(vx.userCursorStyle)"]) =
      String.ofList ([Char.ofNat 27, '['] ++ Nat.toDigits 10 n ++ [' ', 'q']) := by
  have ha : argVal { v := fun _ => false, userCursorStyle := n } "int(vx.userCursorStyle)" = toString n := by simp [argVal]
  simp only [wBytes, List.map_cons, List.map_nil, ha, fmtStyle_toList]
  rw [toString_nat]
  simp [sprintf, String.toList_ofList]

/-- **`CSI n SP q` for every `n`**: what `tparm(cursorStyleSet, n)` prints lexes to `cursorStyle n` — the decimal
    parameter parsed by the lexer is `n` itself (`Nat.ofDigitChars_toDigits`). -/
theorem userStyle_lexes_all (n : Nat) :
    toksOf (wBytes { v := fun _ => false, userCursorStyle := n } (.tparm "cursorStyleSet" "\x1b[%d q" ["int(vx.userCursorStyle)"])) =
      inst { v := fun _ => false, userCursorStyle := n } default default .userStyle := by
  rw [wBytes_style]
  show tokens [[32]] (bytesOf (String.ofList ([Char.ofNat 27, '['] ++ Nat.toDigits 10 n ++ [' ', 'q']))) = [.cursorStyle n]
  have hascii : ∀ c ∈ [Char.ofNat 27, '['] ++ Nat.toDigits 10 n ++ [' ', 'q'], c.toNat < 128 := by
    intro c hc
    simp only [List.mem_append, List.mem_cons, List.mem_nil_iff, or_false] at hc
    rcases hc with ((rfl | rfl) | hc) | (rfl | rfl)
    · decide
    · decide
    · exact digits_ascii n c hc
    · decide
    · decide
  rw [bytesOf_ascii _ hascii]
  have hb : ([Char.ofNat 27, '['] ++ Nat.toDigits 10 n ++ [' ', 'q']).map Char.toNat = [27, 91] ++ digitBytes n ++ [32, 113] := by
    simp only [List.map_append, List.map_cons, List.map_nil, digitBytes]
    rfl
  rw [hb, lex_csi_sp_q]

-- the statements are not vacuous and not about small values only
example : toksOf (wBytes { v := fun _ => false, appId := "org.example.App;é x" } (.tparm "setAppID" "\x1b]176;%s\x1b\\" ["vx.appIDLast"])) =
    inst { v := fun _ => false, appId := "org.example.App;é x" } default default .appIdRestore :=
  appIdRestore_lexes_all _ (by decide +kernel)

-- the statement is not vacuous and not about small numbers only
example : toksOf (wBytes { v := fun _ => false, kittyFlags := 4095 } (.tparm "kittyKBEnable" "\x1b[>%du" ["vx.kittyFlags"])) =
    [.other "1b5b3e3430393575"] := by decide +kernel

end VaxisModel.Props.C04Lex
