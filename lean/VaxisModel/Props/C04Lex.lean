/-
C04 — the direct token mapping of `CSI > flags u` agrees with the lexer for EVERY value of the flags
(round 4).  `Props.C04.kittyPush_lexes` checks the values 0..31 by kernel evaluation; the application can
pass any `Options.CSIuBitMask` (an `int`), so the statement is wanted for all natural numbers.
-/
import VaxisModel.Lemmas.C04Lex

namespace VaxisModel.Props.C04Lex
open VaxisModel.Model.Lifecycle VaxisModel.Spec.Tokenize VaxisModel.Model.Render VaxisModel.Lemmas.C04Lex VaxisModel.Gen.Modes

private theorem fmt_toList : "\x1b[>%du".toList = [Char.ofNat 27, '[', '>', '%', 'd', 'u'] := by decide

private theorem wBytes_kitty (n : Nat) :
    wBytes { v := fun _ => false, kittyFlags := n } (.tparm "kittyKBEnable" "\x1b[>%du" ["vx.kittyFlags"]) =
      String.ofList ([Char.ofNat 27, '[', '>'] ++ Nat.toDigits 10 n ++ ['u']) := by
  have ha : argVal { v := fun _ => false, kittyFlags := n } "vx.kittyFlags" = toString n := by simp [argVal]
  simp only [wBytes, List.map_cons, List.map_nil, ha, fmt_toList]
  rw [toString_nat]
  simp [sprintf, String.toList_ofList]

/-- **`CSI > n u` for every `n`**: what `tparm(kittyKBEnable, n)` prints — through `String.toUTF8`, the
    lexer `Spec.Tokenize.tokens` and its hex encoding — is exactly the one token the lifecycle model maps the
    write to (`inst … .kittyPush`), for every natural number `n`. -/
theorem kittyPush_lexes_all (n : Nat) :
    toksOf (wBytes { v := fun _ => false, kittyFlags := n } (.tparm "kittyKBEnable" "\x1b[>%du" ["vx.kittyFlags"])) =
      inst { v := fun _ => false, kittyFlags := n } default default .kittyPush := by
  rw [wBytes_kitty]
  show tokens [[32]] (bytesOf (String.ofList ([Char.ofNat 27, '[', '>'] ++ Nat.toDigits 10 n ++ ['u']))) = [.other (kittyPushRaw n)]
  have hascii : ∀ c ∈ [Char.ofNat 27, '[', '>'] ++ Nat.toDigits 10 n ++ ['u'], c.toNat < 128 := by
    intro c hc
    simp only [List.mem_append, List.mem_cons, List.mem_nil_iff, or_false] at hc
    rcases hc with ((rfl | rfl | rfl) | hc) | rfl
    · decide
    · decide
    · decide
    · exact digits_ascii n c hc
    · decide
  rw [bytesOf_ascii _ hascii]
  have hb : ([Char.ofNat 27, '[', '>'] ++ Nat.toDigits 10 n ++ ['u']).map Char.toNat = [27, 91, 62] ++ digitBytes n ++ [117] := by
    simp only [List.map_append, List.map_cons, List.map_nil, digitBytes]
    rfl
  rw [hb, lex_csi_gt_u _ (digitBytes_range n)]
  congr 2
  rw [← String.toList_inj, hexOfBytes_toList _ (by simp), kittyPushRaw, String.toList_ofList, bytesOf_toString,
    hexChars_append, hexChars_append]
  rfl

-- the statement is not vacuous and not about small numbers only
example : toksOf (wBytes { v := fun _ => false, kittyFlags := 4095 } (.tparm "kittyKBEnable" "\x1b[>%du" ["vx.kittyFlags"])) =
    [.other "1b5b3e3430393575"] := by decide +kernel

end VaxisModel.Props.C04Lex
