/-
C04 — "back at its prior value" for ARBITRARY prior values of the terminal (round 4).

`Props/C04.lean` states `balanced` from the terminal `t0V`: every private mode reset, cursor visible,
primary screen, keypad numeric, pointer `text`, pen clean.  Here the terminal before Vaxis starts is
ANY terminal `p` (`PriorOK`: it implements what it advertises, it answers the two queries with its
current cursor style / application id, no hyperlink is open; its mode table, cursor visibility,
active screen, keypad mode, pointer shape and pen are arbitrary — e.g. a shell that left bracketed
paste or focus reporting set).

**Reading of the property text decided here.**  The text says "back at its prior value", and names as
*saved* values only the application id and the user's cursor style (anchors: "saved application ID
and user cursor style — values to restore"; "detected capabilities — which modes were enabled and
therefore must be disabled"); the same sentence lists the pen (SGR state) and the hyperlink, which have
no queryable prior value at all, and adds two absolutes ("with the cursor visible and the primary
screen active").  So for everything Vaxis does not query, "prior value" is the value of a terminal at
rest = reset; that Vaxis sets a mode it does not query and resets it on the way out is what the text
describes, not a defect.  The theorems below say exactly what happens for every prior state:

* a mode Vaxis wrote at any time during the session ends RESET, whatever it was before;
* a mode Vaxis never wrote keeps its prior value — nothing else is touched;
* cursor visible, primary screen, keypad numeric, pointer `text`, pen clean, no hyperlink,
  synchronized-update off; kitty keyboard stack, cursor shape and application id at their PRIOR values;
* consequently the literal reading (every mode equal to its prior value) holds iff none of the modes
  Vaxis wrote was set before (`literal_restored_iff`), and is false e.g. for a terminal that had
  bracketed paste set (`prior_set_mode_ends_reset`) — recorded as the decided reading, not as a finding.
-/
import VaxisModel.Props.C04
import VaxisModel.Lemmas.C04Prior
import VaxisModel.Lemmas.C04PriorChunk0
import VaxisModel.Lemmas.C04PriorChunk1
import VaxisModel.Lemmas.C04PriorChunk2
import VaxisModel.Lemmas.C04PriorChunk3
import VaxisModel.Lemmas.C04PriorChunk4
import VaxisModel.Lemmas.C04PriorChunk5
import VaxisModel.Lemmas.C04PriorChunk6
import VaxisModel.Lemmas.C04PriorChunk7

namespace VaxisModel.Props.C04Prior
open VaxisModel.Lemmas.C04Check VaxisModel.Model.Lifecycle VaxisModel.Spec.ModeTerm
open VaxisModel.Lemmas.C04Sym VaxisModel.Lemmas.C04SymCheck VaxisModel.Lemmas.C04Session VaxisModel.Lemmas.C04Prior

/-- Start-up from every unknown prior state establishes the running invariant: kernel-evaluated for
    all 512 guard assignments (8 chunk modules). -/
theorem prior_checked (m : Nat) (hm : m < 512) : priorB m = true := by
  rcases (by omega : (0 ≤ m ∧ m < 64) ∨ (64 ≤ m ∧ m < 128) ∨ (128 ≤ m ∧ m < 192) ∨ (192 ≤ m ∧ m < 256) ∨ (256 ≤ m ∧ m < 320) ∨
      (320 ≤ m ∧ m < 384) ∨ (384 ≤ m ∧ m < 448) ∨ (448 ≤ m ∧ m < 512)) with h | h | h | h | h | h | h | h
  · exact priorChunk_sound 0 64 prior_chunk0 m (by omega) (by omega)
  · exact priorChunk_sound 64 128 prior_chunk1 m (by omega) (by omega)
  · exact priorChunk_sound 128 192 prior_chunk2 m (by omega) (by omega)
  · exact priorChunk_sound 192 256 prior_chunk3 m (by omega) (by omega)
  · exact priorChunk_sound 256 320 prior_chunk4 m (by omega) (by omega)
  · exact priorChunk_sound 320 384 prior_chunk5 m (by omega) (by omega)
  · exact priorChunk_sound 384 448 prior_chunk6 m (by omega) (by omega)
  · exact priorChunk_sound 448 512 prior_chunk7 m (by omega) (by omega)

private theorem priorOK_empty {m : Nat} {e : Env} {k0 : Nat} {p : MTerm} (hp : PriorOK m e k0 p) :
    PriorOK m e k0 { p with modes := [] } :=
  ⟨hp.supported, hp.kittySupported, hp.appIdSupported, hp.kitty, hp.appId, hp.shape, hp.link, hp.sync⟩

/-- The session on `p` is the session on `p` with an empty table, with `p`'s table behind it. -/
private theorem session_split (e : Env) (p : MTerm) (ops : List Op) :
    runOps e (start e p) ops = sessPrior p.modes (runOps e (start e { p with modes := [] }) ops) := by
  have h : p = withPrior p.modes { p with modes := [] } := (withPrior_self p).symm
  conv => lhs; rw [h]
  rw [start_withPrior, runOps_withPrior]

/-- **Balanced from every prior state.**  For every capability/option assignment, all run-time
    values, EVERY terminal `p` before start-up (`PriorOK`: any mode table, any cursor visibility, screen,
    keypad mode, pointer shape, pen), every session and shutdown at any point: a private mode reads
    RESET if the session wrote it at any time and its PRIOR value otherwise (`c` is the same session on
    the terminal with an empty table: its table lists exactly the modes the session wrote); the cursor is
    visible, the primary screen active, the keypad numeric, the pointer `text`, the pen clean, no
    hyperlink open, synchronized-update off; the kitty keyboard stack, the cursor shape and the
    application id are the prior ones; Vaxis is marked closed. -/
theorem balanced_any_prior (m : Nat) (hm : m < 512) (kittyFlags userCursorStyle k0 : Nat) (appId : String) (hq : SettableId appId)
    (p : MTerm) (hp : PriorOK m (envV m kittyFlags userCursorStyle appId) k0 p)
    (ops : List Op) (hok : ∀ op ∈ ops, op.ok) :
    let e := envV m kittyFlags userCursorStyle appId
    let s := shutdown e (runOps e (start e p) ops)
    let c := shutdown e (runOps e (start e { p with modes := [] }) ops)
    (∀ n, modeVal s.t n = if hasKey c.t.modes n then false else modeVal p n) ∧
    s.t.cursorVisible = true ∧ s.t.alt = false ∧ s.t.kitty = p.kitty ∧ s.t.keypadApp = false ∧
    s.t.cursorShape = p.cursorShape ∧ s.t.appId = p.appId ∧ s.t.pointer = "74657874" ∧ s.t.penClean = true ∧
    s.t.linkOpen = false ∧ s.t.sync = false ∧ s.w.closed = true := by
  intro e s c
  have F := C04.facts m hm
  have hinv0 := start_inv_prior (k0 := k0) F (rfl : e.v = vOf m) hq (prior_checked m hm) (priorOK_empty hp) rfl
  have hinv := ops_inv (k0 := k0) F (rfl : e.v = vOf m) hq _ ops hok hinv0
  have hr := shutdown_restores F (rfl : e.v = vOf m) hq _ hinv
  have hs : s = sessPrior p.modes c := by
    show shutdown e (runOps e (start e p) ops) = _
    rw [session_split, shutdown_withPrior]
  obtain ⟨hclosed, hres⟩ := hr
  simp only [restored, Bool.and_eq_true, Bool.not_eq_true', beq_iff_eq, t0V] at hres
  obtain ⟨⟨⟨⟨⟨⟨⟨⟨⟨⟨h1, h2⟩, h3⟩, h4⟩, h5⟩, h6⟩, h7⟩, h8⟩, h9⟩, h10⟩, h11⟩ := hres
  rw [hs]
  refine ⟨?_, h2, h3, ?_, h5, ?_, ?_, h8, h9, h10, h11, hclosed⟩
  · intro n
    show modeVal (withPrior p.modes c.t) n = _
    rw [modeVal_withPrior]
    split
    · exact modeVal_of_all_false c.t h1 n
    · rfl
  · show c.t.kitty = p.kitty
    rw [h4, hp.kitty]
  · show c.t.cursorShape = p.cursorShape
    rw [h6, hp.shape]
  · show c.t.appId = p.appId
    rw [h7, hp.appId]

/-- **Suspend restores, Resume re-establishes — from every prior state**, at every point of every
    session: while suspended the statement of `balanced_any_prior` holds (a mode the session wrote reads
    reset, any other its prior value; everything else restored); while running the mode table, the
    screen selector, the kitty keyboard stack depth and the keypad mode are exactly those start-up
    established on this terminal. -/
theorem resume_reestablishes_any_prior (m : Nat) (hm : m < 512) (kittyFlags userCursorStyle k0 : Nat) (appId : String)
    (hq : SettableId appId) (p : MTerm) (hp : PriorOK m (envV m kittyFlags userCursorStyle appId) k0 p)
    (ops : List Op) (hok : ∀ op ∈ ops, op.ok) :
    let e := envV m kittyFlags userCursorStyle appId
    let s := runOps e (start e p) ops
    let c := runOps e (start e { p with modes := [] }) ops
    (s.w.suspended = true →
        (∀ n, modeVal s.t n = if hasKey c.t.modes n then false else modeVal p n) ∧ s.t.cursorVisible = true ∧ s.t.alt = false ∧
        s.t.kitty = p.kitty ∧ s.t.keypadApp = false ∧ s.t.cursorShape = p.cursorShape ∧ s.t.appId = p.appId ∧
        s.t.pointer = "74657874" ∧ s.t.penClean = true ∧ s.t.linkOpen = false ∧ s.t.sync = false) ∧
    (s.w.suspended = false → s.t.modes = (start e p).t.modes ∧ s.t.alt = (start e p).t.alt ∧
        s.t.kitty = (start e p).t.kitty ∧ s.t.keypadApp = (start e p).t.keypadApp) := by
  intro e s c
  have F := C04.facts m hm
  have hinv0 := start_inv_prior (k0 := k0) F (rfl : e.v = vOf m) hq (prior_checked m hm) (priorOK_empty hp) rfl
  have hinv := ops_inv (k0 := k0) F (rfl : e.v = vOf m) hq _ ops hok hinv0
  have hs : s = sessPrior p.modes c := session_split e p ops
  have hst : start e p = sessPrior p.modes (start e { p with modes := [] }) := by
    have := session_split e p []
    simpa [runOps] using this
  refine ⟨?_, ?_⟩
  · intro hsus
    have hsus' : c.w.suspended = true := by rw [hs] at hsus; exact hsus
    have hres := suspended_restored (e := e) F rfl hq _ hinv hsus'
    simp only [restored, Bool.and_eq_true, Bool.not_eq_true', beq_iff_eq, t0V] at hres
    obtain ⟨⟨⟨⟨⟨⟨⟨⟨⟨⟨h1, h2⟩, h3⟩, h4⟩, h5⟩, h6⟩, h7⟩, h8⟩, h9⟩, h10⟩, h11⟩ := hres
    rw [hs]
    refine ⟨?_, h2, h3, ?_, h5, ?_, ?_, h8, h9, h10, h11⟩
    · intro n
      show modeVal (withPrior p.modes c.t) n = _
      rw [modeVal_withPrior]
      split
      · exact modeVal_of_all_false c.t h1 n
      · rfl
    · show c.t.kitty = p.kitty
      rw [h4, hp.kitty]
    · show c.t.cursorShape = p.cursorShape
      rw [h6, hp.shape]
    · show c.t.appId = p.appId
      rw [h7, hp.appId]
  · intro hrun
    have hrun' : c.w.suspended = false := by rw [hs] at hrun; exact hrun
    -- on the empty-table terminal the core is the one start-up established there (same invariant `G m`)
    have core : c.t.modes = (start e { p with modes := [] }).t.modes ∧ c.t.alt = (start e { p with modes := [] }).t.alt ∧
        c.t.kitty = (start e { p with modes := [] }).t.kitty ∧ c.t.keypadApp = (start e { p with modes := [] }).t.keypadApp := by
      rcases hinv0 with ⟨_, _, _, _, hr0⟩ | ⟨_, _, h1, _⟩
      · rcases hinv with ⟨_, _, _, _, hr⟩ | ⟨_, _, h1, _⟩
        · have a := hr c.w.cn; have b := hr0 c.w.cn
          exact ⟨by rw [a.modes, b.modes], by rw [a.alt, b.alt], by rw [a.kitty, b.kitty], by rw [a.keypadApp, b.keypadApp]⟩
        · rw [hrun'] at h1; cases h1
      · have hns : (start e { p with modes := [] }).w.suspended = false := by
          show (startupS (vOf m)).suspended = false
          exact F.start.sus
        rw [hns] at h1; cases h1
    obtain ⟨c1, c2, c3, c4⟩ := core
    rw [hs, hst]
    refine ⟨?_, c2, c3, c4⟩
    show c.t.modes ++ rest p.modes c.t.modes = _ ++ rest p.modes _
    rw [c1]

/-- **The literal reading**: every private mode equal to its prior value after shutdown — holds
    exactly when none of the modes the session wrote was set before Vaxis started. -/
theorem literal_restored_iff (m : Nat) (hm : m < 512) (kittyFlags userCursorStyle k0 : Nat) (appId : String) (hq : SettableId appId)
    (p : MTerm) (hp : PriorOK m (envV m kittyFlags userCursorStyle appId) k0 p)
    (ops : List Op) (hok : ∀ op ∈ ops, op.ok) :
    let e := envV m kittyFlags userCursorStyle appId
    let s := shutdown e (runOps e (start e p) ops)
    let c := shutdown e (runOps e (start e { p with modes := [] }) ops)
    (∀ n, modeVal s.t n = modeVal p n) ↔ (∀ n, hasKey c.t.modes n = true → modeVal p n = false) := by
  intro e s c
  have h := (balanced_any_prior m hm kittyFlags userCursorStyle k0 appId hq p hp ops hok).1
  constructor
  · intro hall n hk
    have := h n
    rw [if_pos hk] at this
    rw [← hall n]; exact this
  · intro hw n
    rw [h n]
    split
    · rename_i hk; exact (hw n hk).symm
    · rfl

/-- The terminal of a shell that left bracketed paste (mode 2004) set; nothing advertised. -/
def pasteSetTerminal : MTerm := { modes := [(2004, true)], cursorShape := 0, appId := appIdHex "" }

/-- **A mode that was set before Vaxis started ends reset, not set**: start-up + Close on a terminal
    whose mode 2004 was set leaves 2004 reset (Vaxis sets it and resets it; it never asks what it was).
    Under the reading decided above this is what the text asks for ("enabled, therefore disabled"); under
    the literal reading it would not be "back at its prior value". -/
theorem prior_set_mode_ends_reset :
    PriorOK 0 (envV 0 1 0 "") 0 pasteSetTerminal ∧
    modeVal pasteSetTerminal 2004 = true ∧
    modeVal (shutdown (envV 0 1 0 "") (runOps (envV 0 1 0 "") (start (envV 0 1 0 "") pasteSetTerminal) [])).t 2004 = false := by
  refine ⟨⟨by decide +kernel, by decide +kernel, by decide +kernel, rfl, rfl, rfl, rfl, fun _ => rfl⟩, by decide +kernel, by decide +kernel⟩

/-- …while a mode Vaxis never writes (any number outside the vocabulary of the session) keeps its
    prior value through the whole session, for every session. -/
theorem untouched_mode_keeps_prior (m : Nat) (hm : m < 512) (kittyFlags userCursorStyle k0 : Nat) (appId : String) (hq : SettableId appId)
    (p : MTerm) (hp : PriorOK m (envV m kittyFlags userCursorStyle appId) k0 p)
    (ops : List Op) (hok : ∀ op ∈ ops, op.ok) (n : Nat)
    (hk : hasKey (shutdown (envV m kittyFlags userCursorStyle appId)
        (runOps (envV m kittyFlags userCursorStyle appId) (start (envV m kittyFlags userCursorStyle appId) { p with modes := [] }) ops)).t.modes n = false) :
    modeVal (shutdown (envV m kittyFlags userCursorStyle appId)
        (runOps (envV m kittyFlags userCursorStyle appId) (start (envV m kittyFlags userCursorStyle appId) p) ops)).t n = modeVal p n := by
  have h := (balanced_any_prior m hm kittyFlags userCursorStyle k0 appId hq p hp ops hok).1 n
  simp only [hk, Bool.false_eq_true, if_false] at h
  exact h

-- Non-vacuity: a prior state with several modes set, the cursor hidden, the alternate screen active, keypad
-- application mode, another pointer shape and a dirty pen meets `PriorOK` (assignment 0: nothing advertised).
example : PriorOK 0 (envV 0 1 4 "shell") 2
    { modes := [(2004, true), (1004, true), (7, true)], cursorVisible := false, alt := true, keypadApp := true,
      pointer := "706f696e746572", penClean := false, kitty := 2, cursorShape := 4, appId := appIdHex "shell" } :=
  ⟨by decide +kernel, by decide +kernel, by decide +kernel, rfl, rfl, rfl, rfl, fun _ => rfl⟩

end VaxisModel.Props.C04Prior
