/-
C04 — the failing start-up and Resume paths (round 4).

`New` has three error exits (`Gen.Modes.newSequence`, regenerated from its body): the TTY cannot be
opened, `openTty` fails (not a console / raw mode cannot be set) — both before anything has been
written —, and the window size cannot be read, AFTER raw mode, the alternate screen and the modes.
On that exit `New` returned `(nil, err)` and left everything on (finding F405, repaired: it now calls
`Close` first).  `Resume` has its error exits before it writes anything.
-/
import VaxisModel.Props.C04
import VaxisModel.Lemmas.C04FailChunk0
import VaxisModel.Lemmas.C04FailChunk1
import VaxisModel.Lemmas.C04FailChunk2
import VaxisModel.Lemmas.C04FailChunk3
import VaxisModel.Lemmas.C04FailChunk4
import VaxisModel.Lemmas.C04FailChunk5
import VaxisModel.Lemmas.C04FailChunk6
import VaxisModel.Lemmas.C04FailChunk7

namespace VaxisModel.Props.C04Start
open VaxisModel.Lemmas.C04Check VaxisModel.Model.Lifecycle VaxisModel.Spec.ModeTerm
open VaxisModel.Lemmas.C04Sym VaxisModel.Lemmas.C04SymCheck VaxisModel.Lemmas.C04Session

/-- **The error exits of `New`**, in source order between the lifecycle calls: only the last one comes after
    the terminal has been set up, and it calls `Close` before it returns the error. -/
theorem facts_new_sequence :
    Gen.Modes.newSequence =
      [("err", "os.OpenFile", []), ("call", "openTty", []), ("err", "vx.openTty", []), ("call", "sendQueries", []),
       ("call", "enterAltScreen", []), ("call", "enableModes", []), ("err", "vx.reportWinsize", ["Close"])] := by
  decide

/-- The exits before `sendQueries` write nothing at all (whatever the capability set: nothing is known yet). -/
theorem early_exits_write_nothing (v : String → Bool) :
    (startupFailS v "os.OpenFile" Gen.Modes.newSequence {}).wire = [] ∧ (startupFailS v "os.OpenFile" Gen.Modes.newSequence {}).buf = [] ∧
    (startupFailS v "vx.openTty" Gen.Modes.newSequence {}).wire = [] ∧ (startupFailS v "vx.openTty" Gen.Modes.newSequence {}).buf = [] := by
  refine ⟨rfl, rfl, rfl, rfl⟩

private theorem fail_checked (m : Nat) (hm : m < 512) : failB m = true := by
  rcases (by omega : (0 ≤ m ∧ m < 64) ∨ (64 ≤ m ∧ m < 128) ∨ (128 ≤ m ∧ m < 192) ∨ (192 ≤ m ∧ m < 256) ∨ (256 ≤ m ∧ m < 320) ∨
      (320 ≤ m ∧ m < 384) ∨ (384 ≤ m ∧ m < 448) ∨ (448 ≤ m ∧ m < 512)) with h | h | h | h | h | h | h | h
  · exact failChunk_sound 0 64 fail_chunk0 m (by omega) (by omega)
  · exact failChunk_sound 64 128 fail_chunk1 m (by omega) (by omega)
  · exact failChunk_sound 128 192 fail_chunk2 m (by omega) (by omega)
  · exact failChunk_sound 192 256 fail_chunk3 m (by omega) (by omega)
  · exact failChunk_sound 256 320 fail_chunk4 m (by omega) (by omega)
  · exact failChunk_sound 320 384 fail_chunk5 m (by omega) (by omega)
  · exact failChunk_sound 384 448 fail_chunk6 m (by omega) (by omega)
  · exact failChunk_sound 448 512 fail_chunk7 m (by omega) (by omega)

/-- **A `New` that fails after the terminal has been set up leaves it restored** — for every capability set
    and all run-time values: everything `New` has written by the time it returns the error of
    `reportWinsize` (start-up, then the `Close` of that error exit), run on the mode terminal, leaves every
    mode, the screen, the cursor, the kitty keyboard stack, the keypad mode, the application id, the pointer,
    the pen at their prior values; nothing stays buffered; Vaxis is marked closed. -/
theorem failed_startup_restores (m : Nat) (hm : m < 512) (kittyFlags userCursorStyle k0 : Nat) (appId : String) (hq : SettableId appId) :
    let e := envV m kittyFlags userCursorStyle appId
    restored (t0V m e k0) (run (t0V m e k0) (startupFailW e).wire) = true ∧ (startupFailW e).buf = [] ∧ (startupFailW e).closed = true := by
  intro e
  have h := fail_checked m hm
  simp only [failB, Bool.and_eq_true, List.isEmpty_iff] at h
  obtain ⟨⟨hbuf, hclosed⟩, hres⟩ := h
  have hpo : (runS (sT0 m) (startupFailS (vOf m) "vx.reportWinsize" Gen.Modes.newSequence {}).wire).poison = false := by
    have := hres; simp only [restoredS, Bool.and_eq_true, Bool.not_eq_true'] at this
    exact this.1.1.1.1.1.1.1.1.1.1.1.1
  have hrel := runS_sound (e := e) (cn := ({} : WSt).cn) (k0 := k0) ({} : WSt).cl hq
    (startupFailS (vOf m) "vx.reportWinsize" Gen.Modes.newSequence {}).wire (rel_t0 m) hpo
  refine ⟨restored_of hres hrel, ?_, ?_⟩
  · show (concW e {} (startupFailS (vOf m) "vx.reportWinsize" Gen.Modes.newSequence {})).buf = []
    simp only [concW, hbuf, List.flatMap_nil]
  · exact hclosed

/-- **`Resume` failing** (`openTty` returns an error: the `expr:err != nil` guard of the regenerated list is
    true): nothing is written, nothing buffered, Vaxis stays suspended — the terminal stays restored —,
    from every writer state and for every capability set and all values. -/
theorem resume_failure_writes_nothing (e : Env) (herr : e.v "expr:err != nil" = true) (w : WSt) :
    (resumeW e w).wire = w.wire ∧ (resumeW e w).buf = w.buf ∧ (resumeW e w).suspended = w.suspended ∧
    (resumeW e w).closed = w.closed := by
  have h := VaxisModel.Lemmas.C04Interp.interpS_quietUntilErr e.v (absW w) herr Gen.Modes.resume 64 (by decide +kernel) (by decide +kernel)
  obtain ⟨h1, h2, h3, h4⟩ := h
  simp only [resumeW, interp, concW]
  refine ⟨?_, ?_, ?_, ?_⟩
  · rw [h1]; simp [absW, VaxisModel.Lemmas.C04Interp.inst_tok]
  · rw [h2]; simp [absW, VaxisModel.Lemmas.C04Interp.inst_tok]
  · rw [h3]; rfl
  · rw [h4]; rfl

end VaxisModel.Props.C04Start
