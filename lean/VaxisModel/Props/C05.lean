/-
C05 — the embedded terminal never crashes or hangs on child output (state clause + safety).

`emu_safe_step` / `emu_safe_run`: from every state satisfying the invariant `EmuInv` (cursor within
the screen, margins ordered and within the screen, every row of both grids exactly `cols` wide —
plus saved cursors on the screen and tab stops ≥ 0, which make it inductive), on every terminal
size from 1×1 to 65535×65535, EVERY parsed sequence — every print of every width, every C0, every
ESC label, every CSI label with EVERY parameter list in ℤ (incl. sub-parameters), every OSC —
and every resize to a size in that range is processed by the model of the current code without
panic and without hang, and re-establishes the invariant. Lifted to all operation sequences by
induction. The statement was FALSE of the code before the repairs F15–F19, F105a–F105f
(`Witness/F*.lean` prove that from concrete inputs).
-/
import VaxisModel.Lemmas.EmuSafe1
import VaxisModel.Lemmas.EmuSafe2
import VaxisModel.Lemmas.EmuSafe3
import VaxisModel.Lemmas.EmuSafe4
import VaxisModel.Lemmas.EmuResize

namespace VaxisModel.Props.C05
open VaxisModel.Model.Emu VaxisModel.Lemmas.Emu VaxisModel.Gen.TermModes

/-! ### the generated dispatch tables are the ones the model was written against -/

/-- The special (hand-modelled) arms of decset/decrst and the silent arms of decrqm are exactly the
    ones the model handles; sm/rm have no special arms. -/
theorem mode_tables_known :
    decsetSpecial = [5, 7, 1049] ∧ decrstSpecial = [5, 7, 1049] ∧ smSpecial = [] ∧ rmSpecial = [] ∧
    decrqmOther = [5, 2027] := by decide

/-- The case labels of sgr() are the ones `sgrOne` models (21 is an empty arm). -/
theorem sgr_cases_known :
    sgrCases = [0, 1, 2, 3, 4, 5, 7, 8, 9, 21, 22, 23, 24, 25, 27, 28, 29, 30, 31, 32, 33, 34, 35, 36, 37, 38, 39,
      40, 41, 42, 43, 44, 45, 46, 47, 48, 49, 58, 59, 90, 91, 92, 93, 94, 95, 96, 97, 100, 101, 102, 103, 104,
      105, 106, 107] := by decide

/-- Every dispatch label of csi()/esc()/c0() has a model arm (the model matches exhaustively on the
    generated enums; this states it for the tables), and the argument-passing kinds are the ones the
    model assumes for the arms it calls with `ps(params)` / `params` / no argument. -/
theorem dispatch_covered :
    (csiTable.all fun r => (lookupArm csiTable r.1).isSome) = true ∧
    (escTable.all fun r => (lookupArm escTable r.1).isSome) = true ∧
    (c0Table.all fun r => (lookupArm c0Table r.1).isSome) = true := by decide

/-- The event channel facts the event-loop theorems (Props/C05Events) rely on. -/
theorem tab_stop_constants : tabFirst = 8 ∧ tabLimit = 350 ∧ tabStep = 8 := by decide

/-! ### parameters after clamping -/

theorem clampParam_ok (n : Int) : POk (clampParam n) := by
  unfold clampParam maxParam POk; split <;> omega

theorem ps_clamp_ok (pm : List Param) : POk (ps (clampParams pm)) := by
  cases pm with
  | nil => exact ⟨by decide, by decide⟩
  | cons p rest => exact clampParam_ok p.1

/-! ### CSI -/

theorem csi_safe {e : Emu} {rows cols : Nat} (h : EmuInv e rows cols) (d : Dim rows cols)
    (label : List Nat) (pm0 : List Param) : Safe rows cols (csi Fixes.current e label pm0) := by
  unfold csi
  have hf : Fixes.current.f18 = true := rfl
  simp only [hf, if_true]
  have hn := ps_clamp_ok pm0
  have hd1 := dflt1_ok hn
  generalize clampParams pm0 = pm at hn hd1
  cases hl : lookupArm csiTable label with
  | none => exact Safe.ok h
  | some arm =>
    cases arm with
    | ich => exact ich_safe h d hn
    | cuu => exact Safe.ok (cuu_inv h hn)
    | cud => exact Safe.ok (cud_inv h hn)
    | cuf => exact Safe.ok (cuf_inv h d hn)
    | cub => exact Safe.ok (cub_inv h hn)
    | cnl => exact cnl_safe h d hn
    | cpl => exact cpl_safe h d hn
    | cha => exact Safe.ok (cha_inv h hn)
    | cup => exact Safe.ok (cup_inv h d pm)
    | cht => exact Safe.ok (cht_inv h d hn)
    | ed => exact ed_safe h d _
    | el => exact el_safe h d _
    | il => exact il_safe h d hn
    | dl => exact dl_safe h d hn
    | dch => exact dch_safe h d hn
    | arm_53 => exact scrollUp_safe h d (by omega)
    | arm_54 =>
      simp only
      split
      · exact Safe.ok h
      · exact scrollDown_safe h d (by omega)
    | ech => exact ech_safe h d hn
    | cbt => exact Safe.ok (cbt_inv h hn)
    | hpa => exact Safe.ok (hpa_inv h d hn)
    | hpr => exact Safe.ok (hpr_inv h d hn)
    | rep => exact rep_safe h d hn
    | arm_63 => exact Safe.ok h
    | arm_3e63 => exact Safe.ok h
    | vpa => exact Safe.ok (vpa_inv h d hn)
    | vpr => exact Safe.ok (vpr_inv h hn)
    | tbc => exact Safe.ok (tbc_inv h _)
    | sm => exact Safe.ok (sm_inv h pm)
    | decset => exact decset_safe h d pm
    | rm => exact Safe.ok (rm_inv h pm)
    | decrst => exact decrst_safe h d pm
    | sgr => exact sgr_safe h pm
    | arm_6e => exact Safe.ok h
    | arm_2470 => exact Safe.ok h
    | decrqm => exact Safe.ok h
    | decstbm => exact Safe.ok (decstbm_inv h pm)
    | decsc => exact Safe.ok (decsc_inv h)
    | decrc => exact Safe.ok (decrc_inv h)
    | arm_2071 => exact Safe.ok (inv_shape h _)

/-! ### ESC -/

theorem esc_safe {e : Emu} {rows cols : Nat} (h : EmuInv e rows cols) (d : Dim rows cols)
    (label : List Nat) : Safe rows cols (esc Fixes.current e label) := by
  unfold esc
  cases hl : lookupArm escTable label with
  | none => exact Safe.ok h
  | some arm =>
    cases arm with
    | decsc => exact Safe.ok (decsc_inv h)
    | decrc => exact Safe.ok (decrc_inv h)
    | ind => exact ind_safe h d
    | nel => exact nel_safe h d
    | hts => exact Safe.ok (hts_inv h)
    | ri => exact ri_safe h d
    | arm_4e => exact Safe.ok (inv_cs h _)
    | arm_4f => exact Safe.ok (inv_cs h _)
    | arm_3d => exact Safe.ok (inv_mode h _)
    | arm_3e => exact Safe.ok (inv_mode h _)
    | ris => exact Safe.ok (ris_inv h d)
    | arm_2830 => exact Safe.ok (inv_cs h _)
    | arm_2930 => exact Safe.ok (inv_cs h _)
    | arm_2a30 => exact Safe.ok (inv_cs h _)
    | arm_2b30 => exact Safe.ok (inv_cs h _)
    | arm_2842 => exact Safe.ok (inv_cs h _)
    | arm_2942 => exact Safe.ok (inv_cs h _)
    | arm_2a42 => exact Safe.ok (inv_cs h _)
    | arm_2b42 => exact Safe.ok (inv_cs h _)
    | arm_2338 => exact Safe.ok h

/-! ### one operation, all operations -/

/-- The state is a well-formed `rows × cols` terminal of admissible size. -/
def Good (e : Emu) : Prop := ∃ rows cols, EmuInv e rows cols ∧ Dim rows cols

/-- Sizes a resize may ask for (a pty's winsize fields are uint16; 0 is excluded by the property:
    "all sizes from 1x1 upward"). Every other operation is unrestricted. -/
def OpOk : EOp → Prop
  | .resize w h => 1 ≤ w ∧ w ≤ 65535 ∧ 1 ≤ h ∧ h ≤ 65535
  | _ => True

/-- Every operation other than resize, with every parameter, on a fixed-size terminal. -/
theorem emu_safe {e : Emu} {rows cols : Nat} (h : EmuInv e rows cols) (d : Dim rows cols) (op : EOp)
    (hop : ∀ w hh, op ≠ .resize w hh) : ∃ r, emuStep e op = .ok r ∧ EmuInv r.1 rows cols := by
  unfold emuStep emuStepF
  cases op with
  | print g w =>
    obtain ⟨e', he, hi⟩ := print_safe h d g w
    exact ⟨(e', 0), by simp only [he, bind, Except.bind], hi⟩
  | c0 r => exact c0_safe h d r
  | esc l =>
    obtain ⟨e', he, hi⟩ := esc_safe h d l
    exact ⟨(e', 0), by simp only [he, bind, Except.bind], hi⟩
  | csi l pm =>
    obtain ⟨e', he, hi⟩ := csi_safe h d l pm
    exact ⟨(e', 0), by simp only [he, bind, Except.bind], hi⟩
  | osc data info => exact osc_safe h data info
  | dcs => exact ⟨(e, 0), rfl, h⟩
  | apc => exact ⟨(e, 1), rfl, h⟩
  | resize w hh => exact absurd rfl (hop w hh)

/-- Resizing to any admissible size from any good state. -/
theorem resize_step_safe {e : Emu} {rows cols : Nat} (h : EmuInv e rows cols) (d : Dim rows cols) (w hh : Int)
    (hw1 : 1 ≤ w) (hw2 : w ≤ 65535) (hh1 : 1 ≤ hh) (hh2 : hh ≤ 65535) :
    ∃ r, emuStep e (.resize w hh) = .ok r ∧ EmuInv r.1 hh.toNat w.toNat ∧ Dim hh.toNat w.toNat := by
  obtain ⟨e', he, hi⟩ := resize_safe h d w hh hw1 hw2 hh1 hh2
  refine ⟨(e', 0), ?_, hi, ⟨by omega, by omega, by omega, by omega⟩⟩
  unfold emuStep emuStepF
  simp only [he, bind, Except.bind]

/-- F112c repaired (aefad78): a resize leaves the pen alone — for EVERY old state (no invariant needed),
    every size, whatever the reflow re-prints. (Before the repair the pen was the style of the last
    reflowed cell: `resize_clobbered_pen` below.) -/
theorem resize_preserves_pen {e e' : Emu} {w h : Int} (hr : resize Fixes.current e w h = .ok e') :
    e'.cur.st = e.cur.st := by
  rw [resize_eq] at hr
  split at hr
  · cases hr
  · cases hq : reflow Fixes.current e.cur.row e.primary 0 (resizeInit e w h) with
    | error p => rw [hq] at hr; cases hr
    | ok e1 => rw [hq] at hr; cases hr; rfl

/-- What a resize leaves alone / sets, for EVERY old state (no invariant needed): pen, cursor shape,
    modes, OSC 8 switch, tab stops, character sets (outside a single shift) are kept; the active
    screen is the one mode 1049 selects; the alternate grid is blank; the margins are the full new
    screen; both saved cursors are clamped; the deferred-wrap flag is only set with the cursor in the
    pending-wrap column. (`Lemmas.EmuResize.ResizeFrame`; used by the C12 composition across resizes.) -/
theorem resize_frame {e e' : Emu} {w h : Int} (hr : resize Fixes.current e w h = .ok e') :
    VaxisModel.Lemmas.EmuResize.ResizeFrame e e' w h :=
  VaxisModel.Lemmas.EmuResize.resize_keep hr

/-- Non-vacuity of `resize_frame` / `resize_preserves_pen`: the resize of the F112c scenario succeeds. -/
example : ∃ e e', resize Fixes.current e 5 2 = .ok e' ∧ e.primary ≠ [] :=
  ⟨{ ({} : Emu) with primary := [[{ g := [97], w := 1, st := { bg := 7 } }], [{}]], cur := { row := 1 } }, _, rfl, by decide⟩

/-- … and so does every step `resize` of the machine. -/
theorem resize_step_preserves_pen {e : Emu} {w h : Int} {r : Emu × Nat}
    (hr : emuStep e (.resize w h) = .ok r) : r.1.cur.st = e.cur.st := by
  unfold emuStep emuStepF at hr
  cases hq : resize Fixes.current e w h with
  | error p => simp only [hq, bind, Except.bind] at hr; cases hr
  | ok e1 =>
    simp only [hq, bind, Except.bind] at hr
    cases hr
    exact resize_preserves_pen hq

/-- The F112c scenario (corpus/C05/F112c-resize-pen.ops): 4×2, `SGR 44`, `abcd`, CR, LF, `SGR 0`,
    resize to 5×2. With the repair switched off the pen after the resize has background index 4; the
    current code keeps the default pen. -/
def f112cOps : List EOp :=
  [.csi [109] [(44, [])], .print [97] 1, .print [98] 1, .print [99] 1, .print [100] 1, .c0 13, .c0 10, .csi [109] []]

theorem resize_clobbered_pen :
    (match Emu.new Fixes.current 4 2 with
     | .ok e0 =>
       (match runOps e0 f112cOps with
        | .ok e1 =>
          (match resize { Fixes.current with f112c := false } e1 5 2, resize Fixes.current e1 5 2 with
           | .ok before, .ok now => decide (e1.cur.st = {} ∧ before.cur.st.bg = indexColor 4 ∧ now.cur.st = {})
           | _, _ => false)
        | .error _ => false)
     | .error _ => false) = true := by decide +kernel

theorem emu_safe_step {e : Emu} (hg : Good e) (op : EOp) (hop : OpOk op) :
    ∃ r, emuStep e op = .ok r ∧ Good r.1 := by
  obtain ⟨rows, cols, h, d⟩ := hg
  cases op with
  | resize w hh =>
    obtain ⟨hw1, hw2, hh1, hh2⟩ := hop
    obtain ⟨r, hr, hi, hd⟩ := resize_step_safe h d w hh hw1 hw2 hh1 hh2
    exact ⟨r, hr, _, _, hi, hd⟩
  | print g w => obtain ⟨r, hr, hi⟩ := emu_safe h d (.print g w) (by intro _ _ hc; cases hc); exact ⟨r, hr, rows, cols, hi, d⟩
  | c0 x => obtain ⟨r, hr, hi⟩ := emu_safe h d (.c0 x) (by intro _ _ hc; cases hc); exact ⟨r, hr, rows, cols, hi, d⟩
  | esc l => obtain ⟨r, hr, hi⟩ := emu_safe h d (.esc l) (by intro _ _ hc; cases hc); exact ⟨r, hr, rows, cols, hi, d⟩
  | csi l pm => obtain ⟨r, hr, hi⟩ := emu_safe h d (.csi l pm) (by intro _ _ hc; cases hc); exact ⟨r, hr, rows, cols, hi, d⟩
  | osc x y => obtain ⟨r, hr, hi⟩ := emu_safe h d (.osc x y) (by intro _ _ hc; cases hc); exact ⟨r, hr, rows, cols, hi, d⟩
  | dcs => obtain ⟨r, hr, hi⟩ := emu_safe h d .dcs (by intro _ _ hc; cases hc); exact ⟨r, hr, rows, cols, hi, d⟩
  | apc => obtain ⟨r, hr, hi⟩ := emu_safe h d .apc (by intro _ _ hc; cases hc); exact ⟨r, hr, rows, cols, hi, d⟩

/-- All histories: any sequence of operations (with admissible resizes interleaved anywhere) from a
    good state runs to completion — no panic, no hang — and ends in a good state. -/
theorem emu_safe_run (ops : List EOp) : ∀ {e : Emu}, Good e → (∀ op ∈ ops, OpOk op) →
    ∃ e', runOps e ops = .ok e' ∧ Good e' := by
  induction ops with
  | nil => intro e hg _; exact ⟨e, rfl, hg⟩
  | cons op rest ih =>
    intro e hg hall
    obtain ⟨r, hr, hg'⟩ := emu_safe_step hg op (hall op List.mem_cons_self)
    obtain ⟨e', he', hg''⟩ := ih hg' (fun o ho => hall o (List.mem_cons_of_mem _ ho))
    exact ⟨e', by simp only [runOps, hr, bind, Except.bind]; exact he', hg''⟩

/-- A freshly started terminal (New() + resize, as StartWithSize does) of any admissible size is good. -/
theorem new_good (w h : Int) (hw1 : 1 ≤ w) (hw2 : w ≤ 65535) (hh1 : 1 ≤ h) (hh2 : h ≤ 65535) :
    ∃ e, Emu.new Fixes.current w h = .ok e ∧ Good e := by
  obtain ⟨e, he, hi⟩ := new_safe w h hw1 hw2 hh1 hh2
  exact ⟨e, he, _, _, hi, ⟨by omega, by omega, by omega, by omega⟩⟩

/-- From start-up, every byte stream's parsed form: start at any size, apply any operations. -/
theorem session_safe (w h : Int) (hw1 : 1 ≤ w) (hw2 : w ≤ 65535) (hh1 : 1 ≤ h) (hh2 : h ≤ 65535)
    (ops : List EOp) (hall : ∀ op ∈ ops, OpOk op) :
    ∃ e0 e', Emu.new Fixes.current w h = .ok e0 ∧ runOps e0 ops = .ok e' ∧ Good e' := by
  obtain ⟨e0, he0, hg⟩ := new_good w h hw1 hw2 hh1 hh2
  obtain ⟨e', he', hg'⟩ := emu_safe_run ops hg hall
  exact ⟨e0, e', he0, he', hg'⟩

/-- The state clause of the property, read off `Good`. -/
theorem good_state_clause {e : Emu} (hg : Good e) :
    ∃ rows cols : Nat, 1 ≤ rows ∧ 1 ≤ cols ∧
      0 ≤ e.cur.row ∧ e.cur.row < rows ∧ 0 ≤ e.cur.col ∧ e.cur.col ≤ cols ∧
      0 ≤ e.top ∧ e.top ≤ e.bottom ∧ e.bottom < rows ∧ e.left = 0 ∧ e.right = (cols : Int) - 1 ∧
      e.primary.length = rows ∧ (∀ r ∈ e.primary, r.length = cols) ∧
      e.alt.length = rows ∧ (∀ r ∈ e.alt, r.length = cols) := by
  obtain ⟨rows, cols, h, d⟩ := hg
  exact ⟨rows, cols, d.r1, d.c1, h.rowLo, h.rowHi, h.colLo, h.colHi, h.topLo, h.topLe, h.botHi, h.left0,
    h.right, h.prim.len, h.prim.rowLen, h.alt.len, h.alt.rowLen⟩

theorem bind0 {m : M Emu} {r : Emu × Nat}
    (h : (do let x ← m; (Except.ok (x, 0) : M (Emu × Nat))) = .ok r) : r.2 ≤ 1 := by
  cases m with
  | error _ => simp only [bind, Except.bind] at h; cases h
  | ok x => simp only [bind, Except.bind] at h; cases h; simp only; omega

/-- One sequence raises at most one event (the hypothesis of the event-loop theorems). -/
theorem events_per_op_le_one (e : Emu) (op : EOp) (r : Emu × Nat) (h : emuStep e op = .ok r) : r.2 ≤ 1 := by
  unfold emuStep emuStepF at h
  cases op with
  | print g w => exact bind0 h
  | c0 x =>
    simp only at h
    unfold c0 at h
    cases hl : lookupArm c0Table [x] with
    | none => rw [hl] at h; cases h; simp only; omega
    | some arm =>
      rw [hl] at h
      cases arm with
      | arm_07 => cases h; simp only; omega
      | bs => cases h; simp only; omega
      | ht => cases h; simp only; omega
      | lf => exact bind0 h
      | vt => exact bind0 h
      | ff => exact bind0 h
      | cr => cases h; simp only; omega
      | arm_0e => cases h; simp only; omega
      | arm_0f => cases h; simp only; omega
  | esc l => exact bind0 h
  | csi l pm => exact bind0 h
  | osc x y =>
    simp only at h
    unfold osc at h
    simp only at h
    repeat' (split at h)
    all_goals (first | (cases h; simp only; omega) | (cases h))
  | dcs => cases h; simp only; omega
  | apc => cases h; simp only; omega
  | resize w hh => exact bind0 h

/-! ### non-vacuity -/

example : ∃ e, Good e := by
  obtain ⟨e, _, hg⟩ := new_good 80 24 (by decide) (by decide) (by decide) (by decide)
  exact ⟨e, hg⟩

example : OpOk (.csi [66] [(-5, []), (9223372036854775807, [3])]) := trivial

end VaxisModel.Props.C05
