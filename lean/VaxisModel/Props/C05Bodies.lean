/-
C05 — the BODIES of the control functions are tied to the source structurally.

`Gen/TermBodies.lean` (regenerated from /repo on every run by extract/cmd/C05/bodies.go) holds, per
function of widgets/term, its body as a term of the statement language `Model/EmuBodyLang.lean`.
`evalBody` (Model/EmuBody.lean) gives the language its meaning in the vocabulary of the model. The
theorems `body_<fn>` say: FOR ALL states and arguments, running the translated body is the
hand-written model function of `Model/Emu.lean` (the one all safety / refinement theorems are
about, with `Fixes.current`). So an edit of one of these Go bodies changes a Gen term and either
breaks `body_<fn>` or — if it is a semantically neutral rewrite the proof script absorbs — changes
nothing. `bodies_recognised` / `bodies_wf`: the covered bodies contain no statement outside the
language and satisfy the side conditions under which `evalBody` is the Go semantics.
-/
import VaxisModel.Lemmas.EmuBody
import VaxisModel.Lemmas.EmuBodyRow
import VaxisModel.Lemmas.EmuBodyPrint
import VaxisModel.Lemmas.EmuBodyTabs
import VaxisModel.Lemmas.EmuBodyModes
import VaxisModel.Lemmas.EmuBodyReflow
import VaxisModel.Lemmas.EmuBodySgr
import VaxisModel.Lemmas.EmuBodyOsc
import VaxisModel.Lemmas.EmuBodyInline
import VaxisModel.Lemmas.EmuBodyTop
import VaxisModel.Lemmas.EmuSafe1

namespace VaxisModel.Props.C05Bodies
open VaxisModel.Model.Emu VaxisModel.Model.EmuBody VaxisModel.Lemmas.Emu VaxisModel.Lemmas.EmuBody VaxisModel.Gen

/-! ### cursor motion, C0, ESC: straight-line bodies -/

theorem body_cuu (e : Emu) (n : Int) : evalBody TermBodies.body_cuu [] [n] e = .ok (cuu e n) := by
  simp only [TermBodies.body_cuu, TermBodies.stmt_cuu, cuu]; body_norm; body_fin
theorem body_cud (e : Emu) (n : Int) : evalBody TermBodies.body_cud [] [n] e = .ok (cud Fixes.current e n) := by
  simp only [TermBodies.body_cud, TermBodies.stmt_cud, cud]; body_norm; body_fin
theorem body_cuf (e : Emu) (n : Int) : evalBody TermBodies.body_cuf [] [n] e = .ok (cuf e n) := by
  simp only [TermBodies.body_cuf, TermBodies.stmt_cuf, cuf]; body_norm; body_fin
theorem body_cub (e : Emu) (n : Int) : evalBody TermBodies.body_cub [] [n] e = .ok (cub e n) := by
  simp only [TermBodies.body_cub, TermBodies.stmt_cub, cub]; body_norm; body_fin
theorem body_cnl (e : Emu) (n : Int) : evalBody TermBodies.body_cnl [] [n] e = cnl Fixes.current e n := by
  simp only [TermBodies.body_cnl, TermBodies.stmt_cnl, cnl]; body_norm
theorem body_cpl (e : Emu) (n : Int) : evalBody TermBodies.body_cpl [] [n] e = cpl Fixes.current e n := by
  simp only [TermBodies.body_cpl, TermBodies.stmt_cpl, cpl]; body_norm
theorem body_cha (e : Emu) (n : Int) : evalBody TermBodies.body_cha [] [n] e = .ok (cha e n) := by
  simp only [TermBodies.body_cha, TermBodies.stmt_cha, cha]; body_norm; body_fin
theorem body_vpa (e : Emu) (n : Int) : evalBody TermBodies.body_vpa [] [n] e = .ok (vpa Fixes.current e n) := by
  simp only [TermBodies.body_vpa, TermBodies.stmt_vpa, vpa]; body_norm; body_fin
theorem body_vpr (e : Emu) (n : Int) : evalBody TermBodies.body_vpr [] [n] e = .ok (vpr e n) := by
  simp only [TermBodies.body_vpr, TermBodies.stmt_vpr, vpr]; body_norm; body_fin
theorem body_hpa (e : Emu) (n : Int) : evalBody TermBodies.body_hpa [] [n] e = .ok (hpa e n) := by
  simp only [TermBodies.body_hpa, TermBodies.stmt_hpa, hpa]; body_norm; body_fin
theorem body_hpr (e : Emu) (n : Int) : evalBody TermBodies.body_hpr [] [n] e = .ok (hpr e n) := by
  simp only [TermBodies.body_hpr, TermBodies.stmt_hpr, hpr]; body_norm; body_fin
theorem body_ind (e : Emu) : evalBody TermBodies.body_ind [] [] e = ind e := by
  simp only [TermBodies.body_ind, TermBodies.stmt_ind, ind]; body_norm; body_fin
theorem body_nel (e : Emu) : evalBody TermBodies.body_nel [] [] e = nel e := by
  simp only [TermBodies.body_nel, TermBodies.stmt_nel, nel]; body_norm
theorem body_ri (e : Emu) : evalBody TermBodies.body_ri [] [] e = ri Fixes.current e := by
  simp only [TermBodies.body_ri, TermBodies.stmt_ri, ri]; body_norm; body_fin
theorem body_bs (e : Emu) : evalBody TermBodies.body_bs [] [] e = .ok (bs Fixes.current e) := by
  simp only [TermBodies.body_bs, TermBodies.stmt_bs, bs]; body_norm; body_fin
theorem body_lf (e : Emu) : evalBody TermBodies.body_lf [] [] e = lf e := by
  simp only [TermBodies.body_lf, TermBodies.stmt_lf, lf]; body_norm
  cases ind e <;> simp [ok_bind, err_bind, Modes.get] <;> split <;> simp_all
theorem body_cr (e : Emu) : evalBody TermBodies.body_cr [] [] e = .ok (cr e) := by
  simp only [TermBodies.body_cr, TermBodies.stmt_cr, cr]; body_norm
theorem body_ht (e : Emu) : evalBody TermBodies.body_ht [] [] e = .ok (cht Fixes.current e 1) := by
  simp only [TermBodies.body_ht, TermBodies.stmt_ht]; body_norm
theorem body_vt (e : Emu) : evalBody TermBodies.body_vt [] [] e = lf e := by
  simp only [TermBodies.body_vt, TermBodies.stmt_vt]; body_norm
theorem body_ff (e : Emu) : evalBody TermBodies.body_ff [] [] e = lf e := by
  simp only [TermBodies.body_ff, TermBodies.stmt_ff]; body_norm
/-! ### functions of the parameter list: CUP/HVP, DECSTBM, the inline arms SU / SD of csi() -/

theorem body_cup (e : Emu) (pm : List Param) : evalBody TermBodies.body_cup pm [] e = .ok (cup Fixes.current e pm) := by
  simp only [TermBodies.body_cup, TermBodies.stmt_cup, cup]
  rcases pm with _ | ⟨a, _ | ⟨b, _ | ⟨c, r⟩⟩⟩ <;> body_norm
  case cons.cons.cons =>
    simp only [len3, if_false]; body_fin
  all_goals body_fin

theorem body_decstbm (e : Emu) (pm : List Param) : evalBody TermBodies.body_decstbm pm [] e = .ok (decstbm Fixes.current e pm) := by
  simp only [TermBodies.body_decstbm, TermBodies.stmt_decstbm, decstbm]
  rcases pm with _ | ⟨a, _ | ⟨b, _ | ⟨c, r⟩⟩⟩ <;> body_norm
  case cons.cons.cons =>
    simp only [len3, if_false]; body_fin
  all_goals body_fin

theorem body_csi_su (e : Emu) (pm : List Param) :
    evalBody TermBodies.body_csi_su pm [] e = scrollUp e (dflt1 (ps pm)) := by
  simp only [TermBodies.body_csi_su, TermBodies.stmt_csi_su]; body_norm; body_fin
theorem body_csi_sd (e : Emu) (pm : List Param) :
    evalBody TermBodies.body_csi_sd pm [] e = if pm.length = 5 then .ok e else scrollDown e (dflt1 (ps pm)) := by
  simp only [TermBodies.body_csi_sd, TermBodies.stmt_csi_sd]; body_norm; body_fin

/-! ### bodies with loops over the grid: EL, ECH, ED, IL, DL, DCH, scrollUp, scrollDown -/

theorem body_el (e : Emu) (n : Int) : evalBody TermBodies.body_el [] [n] e = el Fixes.current e n := by
  simp only [TermBodies.body_el, TermBodies.stmt_el, el, eraseCols]
  body_norm
  simp only [min_clamp]

theorem body_ech (e : Emu) (n : Int) : evalBody TermBodies.body_ech [] [n] e = ech e n := by
  simp only [TermBodies.body_ech, TermBodies.stmt_ech, ech]
  body_norm; body_fin

theorem body_ed (e : Emu) (n : Int) : evalBody TermBodies.body_ed [] [n] e = ed e n := by
  simp only [TermBodies.body_ed, TermBodies.stmt_ed, ed]
  body_norm

theorem body_il (e : Emu) (n : Int) : evalBody TermBodies.body_il [] [n] e = il Fixes.current e n := by
  simp only [TermBodies.body_il, TermBodies.stmt_il, il, ilClamp, eraseCols]
  body_norm
  body_fin

theorem body_dl (e : Emu) (n : Int) : evalBody TermBodies.body_dl [] [n] e = dl Fixes.current e n := by
  simp only [TermBodies.body_dl, TermBodies.stmt_dl, dl, ilClamp, eraseCols]
  body_norm
  body_fin

theorem body_scrollUp (e : Emu) (n : Int) : evalBody TermBodies.body_scrollUp [] [n] e = scrollUp e n := by
  simp only [TermBodies.body_scrollUp, TermBodies.stmt_scrollUp, scrollUp, eraseCols]
  body_norm
  body_fin

theorem body_scrollDown (e : Emu) (n : Int) : evalBody TermBodies.body_scrollDown [] [n] e = scrollDown e n := by
  simp only [TermBodies.body_scrollDown, TermBodies.stmt_scrollDown, scrollDown, eraseCols]
  body_norm
  body_fin

theorem body_dch (e : Emu) (n : Int) : evalBody TermBodies.body_dch [] [n] e = dch e n := by
  simp only [TermBodies.body_dch, TermBodies.stmt_dch, dch]
  body_norm
  simp only [cellCopy_same_row]
  body_fin

/-- ICH: the body works through the alias `line := vt.activeScreen[row]`; the model loops over that
    row and stores it back (`Lemmas/EmuBodyRow.lean` relates the two). -/
theorem body_ich (e : Emu) (n : Int) : evalBody TermBodies.body_ich [] [n] e = ich Fixes.current e n := by
  simp only [TermBodies.body_ich, TermBodies.stmt_ich, ich]
  body_norm
  split
  · exact ich_core e 1 _
  · exact ich_core e n _

theorem body_rep (e : Emu) (n : Int) : evalBody TermBodies.body_rep [] [n] e = rep Fixes.current e n := by
  simp only [TermBodies.body_rep, TermBodies.stmt_rep, rep]
  body_norm

/-! ### tab stops: CHT (and HT), CBT, TBC, HTS -/

theorem body_cht (e : Emu) (n : Int) : evalBody TermBodies.body_cht [] [n] e = .ok (cht Fixes.current e n) :=
  body_cht_eq e n
theorem body_cbt (e : Emu) (n : Int) : evalBody TermBodies.body_cbt [] [n] e = .ok (cbt e n) := body_cbt_eq e n
theorem body_tbc (e : Emu) (n : Int) : evalBody TermBodies.body_tbc [] [n] e = .ok (tbc e n) := body_tbc_eq e n
theorem body_hts (e : Emu) : evalBody TermBodies.body_hts [] [] e = .ok (hts e) := body_hts_eq e

/-- resize(w, h) (term.go): EVERY statement is interpreted, the reflow loop nest included (two function-level loops over
    the snapshot of the old primary screen; `Lemmas/EmuBodyReflow.lean`). For every size, including negative ones (`make`
    panics), except the unreachable `w < 0 ∧ h = 0`; the old primary screen must be rectangular (`Rect`: every row as wide
    as the first, which `len(primary[0])` as the bound of the inner loop presupposes). -/
theorem body_resize (e : Emu) (w h : Int) (h0 : ¬ (w < 0 ∧ h = 0)) (hrect : Rect e.primary) :
    evalBody TermBodies.body_resize [] [w, h] e = resize Fixes.current e w h := body_resize_eq e w h h0 hrect

/-- Every state the safety theorems speak about has a rectangular primary screen … -/
theorem rect_of_inv {e : Emu} {rows cols : Nat} (h : EmuInv e rows cols) : Rect e.primary := by
  intro r hr
  rw [h.prim.rowLen r hr]
  unfold width0
  split
  · rename_i hnil; rw [hnil] at hr; cases hr
  · rename_i r0 _ hcons
    exact (h.prim.rowLen r0 (by rw [hcons]; exact List.mem_cons_self)).symm

/-- … and so has the state `New()` leaves (no rows at all), on which StartWithSize calls resize first. -/
theorem rect_init : Rect Emu.init.primary := by intro r hr; cases hr

example : ¬ ((80 : Int) < 0 ∧ (24 : Int) = 0) := by decide

/-- print(seq): charset translation, autowrap (wrapped flag + NEL), insert-mode shift, clamped write,
    trailing cells of a wide glyph, cursor advance and pending wrap — for every grapheme, every width,
    every state. -/
theorem body_print (e : Emu) (g : G) (w : Nat) :
    evalPrint TermBodies.body_print g (w : Int) e = print Fixes.current e g w := print_body_eq e g w

/-! ### round 3: DECSC / DECRC / RIS, the mode functions (every arm incl. the special ones 5, 7, 1049, 2027) -/

/-- decsc() (esc.go): the saved-cursor record (whole cursor incl. pen and shape, DECAWM, DECOM, the character sets without the
    single-shift flag) goes to the slot of the screen mode 1049 selects. -/
theorem body_decsc (e : Emu) : evalBody TermBodies.body_decsc [] [] e = .ok (decsc e) := body_decsc_eq e
/-- decrc() (esc.go) -/
theorem body_decrc (e : Emu) : evalBody TermBodies.body_decrc [] [] e = .ok (decrc e) := body_decrc_eq e
/-- ris() (esc.go): both grids re-allocated at the current size, bottom/right margins, cursor home, character sets, modes, tab stops
    (and NOT the top margin, the pen or the saved cursors — as the code is). -/
theorem body_ris (e : Emu) : evalBody TermBodies.body_ris [] [] e = .ok (ris e) := body_ris_eq e
/-- setDefaultTabStops() (esc.go): the loop constants are folded by the translator; the stops are the model's `defaultTabs`. -/
theorem body_setDefaultTabStops (e : Emu) :
    evalBody TermBodies.body_setDefaultTabStops [] [] e = .ok { e with tabs := defaultTabs } := body_setDefaultTabStops_eq e
/-- sm() / rm() (mode.go): for EVERY parameter list -/
theorem body_sm (e : Emu) (pm : List Param) : evalBody TermBodies.body_sm pm [] e = .ok (sm e pm) := body_sm_eq e pm
theorem body_rm (e : Emu) (pm : List Param) : evalBody TermBodies.body_rm pm [] e = .ok (rm e pm) := body_rm_eq e pm
/-- decset() / decrst() (mode.go): for EVERY parameter list, every arm: the plain flag arms (the generated tables the model
    looks up), the empty arm 5, arm 7 (DECAWM + pending wrap reset) and arm 1049 (DECSC, alternate screen, ED 2 / ED 2, primary
    screen, DECRC). -/
theorem body_decset (e : Emu) (pm : List Param) :
    evalBody TermBodies.body_decset pm [] e = decset Fixes.current e pm := body_decset_eq e pm
theorem body_decrst (e : Emu) (pm : List Param) :
    evalBody TermBodies.body_decrst pm [] e = decrst e pm := body_decrst_eq e pm
/-- decrqm() (mode.go): every arm only computes the reply; the emulator state is untouched (what the dispatcher of the model assumes). -/
theorem body_decrqm (e : Emu) (pd : Int) : evalBody TermBodies.body_decrqm [] [pd] e = .ok e := body_decrqm_eq e pd

/-- sgr() (sgr.go): for EVERY pen and EVERY parameter list — any length (the empty list is `[[0]]`), any sub-parameters, every case label
    (attribute bits through the regenerated `attr*` constants, the six underline styles, the 8+8 indexed colours, `uint8` truncation), the
    legacy forms `38;5;n` / `38;2;r;g;b` with their `i += 2/4`, the colon forms with 3 / 5 / 6 sub-parameters, and every malformed form (the
    `return`s), with the index expressions `params[i+1][0]`, `params[i][1]` … as checked accesses. -/
theorem body_sgr (e : Emu) (pm : List Param) : evalBody TermBodies.body_sgr pm [] e = sgr e pm := body_sgr_eq e pm

/-- osc() (osc.go): for EVERY payload, base64 verdict, answer of the host terminal and state: the resulting state AND the number of
    events posted are the model's (`cutString` splits, the selector switch "0"/"2"/"8"/"9"/"11"/"52"/"777", OSC 8 only with `vt.OSC8`,
    OSC 52 / OSC 11 `?` return without a Vaxis, the nested "notify" form). -/
theorem body_osc (e : Emu) (data : List Nat) (info : OscInfo) (hostEmpty : Bool) :
    evalOsc TermBodies.body_osc data info hostEmpty e = osc Fixes.current e data info := body_osc_eq e data info hostEmpty
/-- `cutString` is a primitive of the statement language (meaning `cutSemi`): its source is the text the primitive was written against. -/
theorem cutString_pinned : TermBodies.cutStringSrc =
    "// Copied from stdlib to here for go 1.16 compat func cutString(s string, sep string) (before string, after string, found bool) { if i := strings.Index(s, sep); i >= 0 { return s[:i], s[i+len(sep):], true } return s, \"\", false }" :=
  cutString_source

/-! ### the inline arms of the dispatchers that contain code (DECSCUSR, single shifts, keypad modes, charset designations, SO/SI) -/

theorem body_csi_arm_2071 (e : Emu) (pm : List Param) :
    evalBody TermBodies.body_csi_arm_2071 pm [] e = .ok { e with cur := { e.cur with shape := ps pm } } := body_csi_arm_2071_eq e pm
theorem body_esc_arm_4e (e : Emu) : evalBody TermBodies.body_esc_arm_4e [] [] e = .ok { e with cs := { e.cs with ss := true, sel := 2 } } := body_esc_arm_4e_eq e
theorem body_esc_arm_4f (e : Emu) : evalBody TermBodies.body_esc_arm_4f [] [] e = .ok { e with cs := { e.cs with ss := true, sel := 3 } } := body_esc_arm_4f_eq e
theorem body_esc_arm_3d (e : Emu) :
    evalBody TermBodies.body_esc_arm_3d [] [] e = .ok { e with mode := { e.mode with deckpam := true, deckpnm := false } } := body_esc_arm_3d_eq e
theorem body_esc_arm_3e (e : Emu) :
    evalBody TermBodies.body_esc_arm_3e [] [] e = .ok { e with mode := { e.mode with deckpnm := true, deckpam := false } } := body_esc_arm_3e_eq e
theorem body_esc_arm_2830 (e : Emu) : evalBody TermBodies.body_esc_arm_2830 [] [] e = .ok { e with cs := { e.cs with g0 := 1 } } := body_esc_arm_2830_eq e
theorem body_esc_arm_2930 (e : Emu) : evalBody TermBodies.body_esc_arm_2930 [] [] e = .ok { e with cs := { e.cs with g1 := 1 } } := body_esc_arm_2930_eq e
theorem body_esc_arm_2a30 (e : Emu) : evalBody TermBodies.body_esc_arm_2a30 [] [] e = .ok { e with cs := { e.cs with g2 := 1 } } := body_esc_arm_2a30_eq e
theorem body_esc_arm_2b30 (e : Emu) : evalBody TermBodies.body_esc_arm_2b30 [] [] e = .ok { e with cs := { e.cs with g3 := 1 } } := body_esc_arm_2b30_eq e
theorem body_esc_arm_2842 (e : Emu) : evalBody TermBodies.body_esc_arm_2842 [] [] e = .ok { e with cs := { e.cs with g0 := 0 } } := body_esc_arm_2842_eq e
theorem body_esc_arm_2942 (e : Emu) : evalBody TermBodies.body_esc_arm_2942 [] [] e = .ok { e with cs := { e.cs with g1 := 0 } } := body_esc_arm_2942_eq e
theorem body_esc_arm_2a42 (e : Emu) : evalBody TermBodies.body_esc_arm_2a42 [] [] e = .ok { e with cs := { e.cs with g2 := 0 } } := body_esc_arm_2a42_eq e
theorem body_esc_arm_2b42 (e : Emu) : evalBody TermBodies.body_esc_arm_2b42 [] [] e = .ok { e with cs := { e.cs with g3 := 0 } } := body_esc_arm_2b42_eq e
theorem body_c0_arm_0e (e : Emu) : evalBody TermBodies.body_c0_arm_0e [] [] e = .ok { e with cs := { e.cs with sel := 1 } } := body_c0_arm_0e_eq e
theorem body_c0_arm_0f (e : Emu) : evalBody TermBodies.body_c0_arm_0f [] [] e = .ok { e with cs := { e.cs with sel := 2 } } := body_c0_arm_0f_eq e

/-! ### round 4: the arms that only answer the child, are empty or post an event; the parameter clamp of csi() -/

/-- DA1 (`CSI c`): builds and writes the reply; the emulator state is untouched (whatever the reply text is). -/
theorem body_csi_arm_63 (e : Emu) (pm : List Param) : evalBody TermBodies.body_csi_arm_63 pm [] e = .ok e := body_csi_arm_63_eq e pm
/-- DA2 (`CSI > c`) -/
theorem body_csi_arm_3e63 (e : Emu) (pm : List Param) : evalBody TermBodies.body_csi_arm_3e63 pm [] e = .ok e := body_csi_arm_3e63_eq e pm
/-- DSR (`CSI n`): `switch ps(params) { case 5: reply; case 6: reply }` — for every parameter list -/
theorem body_csi_arm_6e (e : Emu) (pm : List Param) : evalBody TermBodies.body_csi_arm_6e pm [] e = .ok e := body_csi_arm_6e_eq e pm
/-- `CSI $ p` (DECRQM for ANSI modes): an empty arm -/
theorem body_csi_arm_2470 (e : Emu) (pm : List Param) : evalBody TermBodies.body_csi_arm_2470 pm [] e = .ok e := body_csi_arm_2470_eq e pm
/-- `ESC # 8` (DECALN): an empty arm -/
theorem body_esc_arm_2338 (e : Emu) : evalBody TermBodies.body_esc_arm_2338 [] [] e = .ok e := body_esc_arm_2338_eq e
/-- BEL: `vt.postEvent(EventBell{})` — the state is untouched and exactly ONE event is posted -/
theorem body_c0_arm_07 (e : Emu) : evalBodyEv TermBodies.body_c0_arm_07 [] [] e = .ok (e, 1) := body_c0_arm_07_eq e
/-- csi(): the statements in front of the dispatch switch — the nested loops over `params` with `if p < 0 || p > maxParam
    { param[i] = maxParam }` (the constant read from the source) — ARE `clampParams`, for EVERY parameter list, sub-parameters included. -/
theorem body_csi_pre (pm : List Param) : evalPm TermBodies.body_csi_pre pm = .ok (clampParams pm) := body_csi_pre_eq pm

/-! ### coverage -/

theorem bodies_fully_recognised : (covered.all Body.recognised) = true := by decide
theorem bodies_wf : (covered.all Body.wf) = true := by decide
/-- every generated body is covered: each of the translated functions has its `body_<fn>` theorem -/
theorem all_generated_covered : (TermBodies.bodies.all fun b => covered.contains b) = true := by decide
/-- every covered body is one of the generated ones -/
theorem covered_generated : (covered.all fun b => TermBodies.bodies.contains b) = true := by decide

end VaxisModel.Props.C05Bodies
