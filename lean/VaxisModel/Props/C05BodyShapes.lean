/-
C05 — the bodies that `evalBody` does not interpret yet (resize): their translated statement skeleton is pinned literally, so that an edit of one of these Go
bodies changes `Gen/TermBodies.lean` and breaks the corresponding `shape_<fn>` (then the
correspondence run decides whether the model still agrees). Weaker than `body_<fn>` in
Props/C05Bodies.lean: it says WHAT the source is, not that the model equals it.
-/
import VaxisModel.Gen.TermBodies

namespace VaxisModel.Props.C05BodyShapes
open VaxisModel.Model.EmuBody VaxisModel.Gen

theorem shape_resize : TermBodies.stmt_resize =
 (.seq (.unknown "primary := vt.primaryScreen")
 (.seq (.unknown "vt.altScreen = make([][]cell, h)")
 (.seq (.unknown "vt.primaryScreen = make([][]cell, h)")
 (.seq (.unknown "for i := range vt.altScreen { vt.altScreen[i] = make([]cell, w) vt.primaryScreen[i] = make([]cell, w) }")
 (.seq (.assign (.var 2) (.loc .curRow))
 (.seq (.assign .top (.lit 0))
 (.seq (.unknown "for _, st := range []*cursorState{&vt.primaryState, &vt.altState} { if st.cursor.row > row(h)-1 { st.cursor.row = row(h) - 1 } if st.cursor.col > column(w)-1 { st.cursor.col = column(w) - 1 } }")
 (.seq (.assign .bottom (.sub (.loc (.var 1)) (.lit 1)))
 (.seq (.assign .right (.sub (.loc (.var 0)) (.lit 1)))
 (.seq (.assign .curRow (.lit 0))
 (.seq (.assign .curCol (.lit 0))
 (.seq (.setLastCol false)
 (.seq (.unknown "vt.activeScreen = vt.primaryScreen")
 (.seq (.unknown "for row := 0; row < len(primary); row += 1 { if row == int(last) { break } wrapped := false for col := 0; col < len(primary[0]); col += 1 { cell := primary[row][col] vt.cursor.Style = cell.Style vt.print(ansi.Print{ Grapheme: cell.Character.Grapheme, Width: cell.Character.Width, }) wrapped = cell.wrapped } if !wrapped { vt.nel() } }")
 (.unknown "switch vt.mode.smcup { case false: vt.activeScreen = vt.primaryScreen default: vt.activeScreen = vt.altScreen }"))))))))))))))) := rfl

end VaxisModel.Props.C05BodyShapes
