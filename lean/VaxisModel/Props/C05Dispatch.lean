/-
C05 — the DISPATCH of csi() / esc() / c0() composed with the translated bodies: the model's dispatchers are "look the label
up in the regenerated table, run the regenerated body of the arm with the parameters passed the way the regenerated table
says" (`ps(params)`, `params`, nothing). `csiGen` / `escGen` / `c0Gen` are defined from `Gen.TermModes` (tables with the
argument-passing kind of every arm) and `Gen.TermBodies` (bodies) through `evalBody` only; the theorems say they ARE the model's
`csi` / `esc` / `c0` for every state, label and parameter list. So for the arms that call a function nothing of the model is
hand-transcribed any more: an edit of a callee's body, of the callee an arm names, or of how an arm passes its parameters
changes a generated term and breaks `csi_is_generated` / `esc_is_generated` / `c0_is_generated` (or is a neutral rewrite).
The inline arms that contain code (DECSCUSR, single shifts, keypad modes, charset designations, SO/SI) are translated bodies too,
and since round 4 so are the arms that only answer the child (DA1, DA2, DSR), the empty ones (`CSI $ p`, `ESC # 8`) and BEL (one
event), the statements of csi() in front of its switch (the parameter clamp: `body_csi_pre`), and update() itself: `updateGen` is
"look the kind of the parsed sequence up in the regenerated table `updateArms` and do what the arm says" (`update_is_generated`).
No arm of the dispatch path is hand-transcribed any more.
-/
import VaxisModel.Props.C05Bodies
import VaxisModel.Props.C05

namespace VaxisModel.Props.C05Dispatch
open VaxisModel.Model.Emu VaxisModel.Model.EmuBody VaxisModel.Lemmas.Emu VaxisModel.Lemmas.EmuBody VaxisModel.Gen
open VaxisModel.Gen.TermModes VaxisModel.Props.C05Bodies

/-- run a translated body with the parameters passed as the dispatch table says -/
def runArm (b : Body) (k : ArgKind) (pm : List Param) (e : Emu) : M Emu :=
  match k with
  | .ps => evalBody b [] [ps pm] e
  | .params => evalBody b pm [] e
  | .none => evalBody b [] [] e
  | .inline => evalBody b pm [] e        -- the inline arms SU / SD read `params` themselves

/-- the translated body an arm of csi() runs (every arm has one) -/
def csiBodyOf : CsiArm → Option Body
  | .ich => some TermBodies.body_ich | .cuu => some TermBodies.body_cuu | .cud => some TermBodies.body_cud
  | .cuf => some TermBodies.body_cuf | .cub => some TermBodies.body_cub | .cnl => some TermBodies.body_cnl
  | .cpl => some TermBodies.body_cpl | .cha => some TermBodies.body_cha | .cup => some TermBodies.body_cup
  | .cht => some TermBodies.body_cht | .ed => some TermBodies.body_ed | .el => some TermBodies.body_el
  | .il => some TermBodies.body_il | .dl => some TermBodies.body_dl | .dch => some TermBodies.body_dch
  | .arm_53 => some TermBodies.body_csi_su | .arm_54 => some TermBodies.body_csi_sd
  | .ech => some TermBodies.body_ech | .cbt => some TermBodies.body_cbt | .hpa => some TermBodies.body_hpa
  | .hpr => some TermBodies.body_hpr | .rep => some TermBodies.body_rep | .vpa => some TermBodies.body_vpa
  | .vpr => some TermBodies.body_vpr | .tbc => some TermBodies.body_tbc | .sm => some TermBodies.body_sm
  | .decset => some TermBodies.body_decset | .rm => some TermBodies.body_rm | .decrst => some TermBodies.body_decrst
  | .sgr => some TermBodies.body_sgr | .decrqm => some TermBodies.body_decrqm | .decstbm => some TermBodies.body_decstbm
  | .decsc => some TermBodies.body_decsc | .decrc => some TermBodies.body_decrc
  | .arm_2071 => some TermBodies.body_csi_arm_2071
  | .arm_63 => some TermBodies.body_csi_arm_63 | .arm_3e63 => some TermBodies.body_csi_arm_3e63
  | .arm_6e => some TermBodies.body_csi_arm_6e | .arm_2470 => some TermBodies.body_csi_arm_2470

/-- csi() from generated data only (plus the inline arms) -/
def csiGen (e : Emu) (label : List Nat) (pm0 : List Param) : M Emu := do
  -- the statements in front of the switch (the clamp), then the switch
  let pm ← evalPm TermBodies.body_csi_pre pm0
  match csiTable.find? (·.1 = label) with
  | none => .ok e
  | some (_, arm, kind) =>
    match csiBodyOf arm with
    | some b => runArm b kind pm e
    | none => .ok e                     -- (no such arm: `csi_arms_all_translated`)

/-- the arm-level statement, for every entry of the regenerated table -/
def CsiEntryOk (x : List Nat × CsiArm × ArgKind) : Prop :=
  ∀ (e : Emu) (pm0 : List Param),
    csi Fixes.current e x.1 pm0 =
      (match csiBodyOf x.2.1 with
       | some b => runArm b x.2.2 (clampParams pm0) e
       | none => .ok e)

theorem all_csi_entries : ∀ x ∈ csiTable, CsiEntryOk x := by
  intro x hx
  simp only [csiTable, List.mem_cons, List.not_mem_nil, or_false] at hx
  rcases hx with rfl | rfl | rfl | rfl | rfl | rfl | rfl | rfl | rfl | rfl | rfl | rfl | rfl | rfl | rfl | rfl | rfl | rfl | rfl | rfl | rfl | rfl | rfl | rfl | rfl | rfl | rfl | rfl | rfl | rfl | rfl | rfl | rfl | rfl | rfl | rfl | rfl | rfl | rfl | rfl
  · intro e pm0; simp only [csiBodyOf, runArm]; rw [body_ich]; rfl
  · intro e pm0; simp only [csiBodyOf, runArm]; rw [body_cuu]; rfl
  · intro e pm0; simp only [csiBodyOf, runArm]; rw [body_cud]; rfl
  · intro e pm0; simp only [csiBodyOf, runArm]; rw [body_cuf]; rfl
  · intro e pm0; simp only [csiBodyOf, runArm]; rw [body_cub]; rfl
  · intro e pm0; simp only [csiBodyOf, runArm]; rw [body_cnl]; rfl
  · intro e pm0; simp only [csiBodyOf, runArm]; rw [body_cpl]; rfl
  · intro e pm0; simp only [csiBodyOf, runArm]; rw [body_cha]; rfl
  · intro e pm0; simp only [csiBodyOf, runArm]; rw [body_cup]; rfl
  · intro e pm0; simp only [csiBodyOf, runArm]; rw [body_cht]; rfl
  · intro e pm0; simp only [csiBodyOf, runArm]; rw [body_ed]; rfl
  · intro e pm0; simp only [csiBodyOf, runArm]; rw [body_el]; rfl
  · intro e pm0; simp only [csiBodyOf, runArm]; rw [body_il]; rfl
  · intro e pm0; simp only [csiBodyOf, runArm]; rw [body_dl]; rfl
  · intro e pm0; simp only [csiBodyOf, runArm]; rw [body_dch]; rfl
  · intro e pm0; simp only [csiBodyOf, runArm]; rw [body_csi_su]; rfl
  · intro e pm0; simp only [csiBodyOf, runArm]; rw [body_csi_sd]; rfl
  · intro e pm0; simp only [csiBodyOf, runArm]; rw [body_ech]; rfl
  · intro e pm0; simp only [csiBodyOf, runArm]; rw [body_cbt]; rfl
  · intro e pm0; simp only [csiBodyOf, runArm]; rw [body_hpa]; rfl
  · intro e pm0; simp only [csiBodyOf, runArm]; rw [body_hpr]; rfl
  · intro e pm0; simp only [csiBodyOf, runArm]; rw [body_rep]; rfl
  · intro e pm0; simp only [csiBodyOf, runArm]; rw [body_csi_arm_63]; rfl
  · intro e pm0; simp only [csiBodyOf, runArm]; rw [body_csi_arm_3e63]; rfl
  · intro e pm0; simp only [csiBodyOf, runArm]; rw [body_vpa]; rfl
  · intro e pm0; simp only [csiBodyOf, runArm]; rw [body_vpr]; rfl
  · intro e pm0; simp only [csiBodyOf, runArm]; rw [body_cup]; rfl
  · intro e pm0; simp only [csiBodyOf, runArm]; rw [body_tbc]; rfl
  · intro e pm0; simp only [csiBodyOf, runArm]; rw [body_sm]; rfl
  · intro e pm0; simp only [csiBodyOf, runArm]; rw [body_decset]; rfl
  · intro e pm0; simp only [csiBodyOf, runArm]; rw [body_rm]; rfl
  · intro e pm0; simp only [csiBodyOf, runArm]; rw [body_decrst]; rfl
  · intro e pm0; simp only [csiBodyOf, runArm]; rw [body_sgr]; rfl
  · intro e pm0; simp only [csiBodyOf, runArm]; rw [body_csi_arm_6e]; rfl
  · intro e pm0; simp only [csiBodyOf, runArm]; rw [body_csi_arm_2470]; rfl
  · intro e pm0; simp only [csiBodyOf, runArm]; rw [body_decrqm]; rfl
  · intro e pm0; simp only [csiBodyOf, runArm]; rw [body_decstbm]; rfl
  · intro e pm0; simp only [csiBodyOf, runArm]; rw [body_decsc]; rfl
  · intro e pm0; simp only [csiBodyOf, runArm]; rw [body_decrc]; rfl
  · intro e pm0; simp only [csiBodyOf, runArm]; rw [body_csi_arm_2071]; rfl

/-- **csi() is the regenerated table composed with the regenerated bodies**, for every state, label and parameter list. -/
theorem csi_is_generated (e : Emu) (label : List Nat) (pm0 : List Param) :
    csi Fixes.current e label pm0 = csiGen e label pm0 := by
  unfold csiGen
  rw [body_csi_pre]
  show _ = (match csiTable.find? (·.1 = label) with
    | none => Except.ok e
    | some (_, arm, kind) =>
      match csiBodyOf arm with
      | some b => runArm b kind (clampParams pm0) e
      | none => Except.ok e)
  cases hf : csiTable.find? (·.1 = label) with
  | none =>
    have : lookupArm csiTable label = none := by unfold lookupArm; rw [hf]; rfl
    unfold csi
    simp only [this]
  | some x =>
    obtain ⟨l, arm, kind⟩ := x
    have hl : l = label := by
      have := List.find?_some hf
      simpa using this
    subst hl
    exact all_csi_entries _ (List.mem_of_find?_eq_some hf) e pm0

/-- the translated body an arm of esc() runs -/
def escBodyOf : EscArm → Option Body
  | .decsc => some TermBodies.body_decsc | .decrc => some TermBodies.body_decrc | .ind => some TermBodies.body_ind
  | .nel => some TermBodies.body_nel | .hts => some TermBodies.body_hts | .ri => some TermBodies.body_ri
  | .ris => some TermBodies.body_ris
  | .arm_4e => some TermBodies.body_esc_arm_4e | .arm_4f => some TermBodies.body_esc_arm_4f
  | .arm_3d => some TermBodies.body_esc_arm_3d | .arm_3e => some TermBodies.body_esc_arm_3e
  | .arm_2830 => some TermBodies.body_esc_arm_2830 | .arm_2930 => some TermBodies.body_esc_arm_2930
  | .arm_2a30 => some TermBodies.body_esc_arm_2a30 | .arm_2b30 => some TermBodies.body_esc_arm_2b30
  | .arm_2842 => some TermBodies.body_esc_arm_2842 | .arm_2942 => some TermBodies.body_esc_arm_2942
  | .arm_2a42 => some TermBodies.body_esc_arm_2a42 | .arm_2b42 => some TermBodies.body_esc_arm_2b42
  | .arm_2338 => some TermBodies.body_esc_arm_2338

/-- the arms of esc() that call a function, from generated data only -/
def EscEntryOk (x : List Nat × EscArm × ArgKind) : Prop :=
  ∀ (e : Emu), match escBodyOf x.2.1 with
    | some b => esc Fixes.current e x.1 = runArm b x.2.2 [] e
    | none => True

theorem all_esc_entries : ∀ x ∈ escTable, EscEntryOk x := by
  intro x hx
  simp only [escTable, List.mem_cons, List.not_mem_nil, or_false] at hx
  rcases hx with rfl | rfl | rfl | rfl | rfl | rfl | rfl | rfl | rfl | rfl | rfl | rfl | rfl | rfl | rfl | rfl | rfl | rfl | rfl | rfl
  · intro e; simp only [escBodyOf, runArm]; rw [body_decsc]; rfl
  · intro e; simp only [escBodyOf, runArm]; rw [body_decrc]; rfl
  · intro e; simp only [escBodyOf, runArm]; rw [body_ind]; rfl
  · intro e; simp only [escBodyOf, runArm]; rw [body_nel]; rfl
  · intro e; simp only [escBodyOf, runArm]; rw [body_hts]; rfl
  · intro e; simp only [escBodyOf, runArm]; rw [body_ri]; rfl
  · intro e; simp only [escBodyOf, runArm]; rw [body_esc_arm_4e]; rfl
  · intro e; simp only [escBodyOf, runArm]; rw [body_esc_arm_4f]; rfl
  · intro e; simp only [escBodyOf, runArm]; rw [body_esc_arm_3d]; rfl
  · intro e; simp only [escBodyOf, runArm]; rw [body_esc_arm_3e]; rfl
  · intro e; simp only [escBodyOf, runArm]; rw [body_ris]; rfl
  · intro e; simp only [escBodyOf, runArm]; rw [body_esc_arm_2830]; rfl
  · intro e; simp only [escBodyOf, runArm]; rw [body_esc_arm_2930]; rfl
  · intro e; simp only [escBodyOf, runArm]; rw [body_esc_arm_2a30]; rfl
  · intro e; simp only [escBodyOf, runArm]; rw [body_esc_arm_2b30]; rfl
  · intro e; simp only [escBodyOf, runArm]; rw [body_esc_arm_2842]; rfl
  · intro e; simp only [escBodyOf, runArm]; rw [body_esc_arm_2942]; rfl
  · intro e; simp only [escBodyOf, runArm]; rw [body_esc_arm_2a42]; rfl
  · intro e; simp only [escBodyOf, runArm]; rw [body_esc_arm_2b42]; rfl
  · intro e; simp only [escBodyOf, runArm]; rw [body_esc_arm_2338]; rfl

/-- the translated body an arm of c0() runs -/
def c0BodyOf : C0Arm → Option Body
  | .bs => some TermBodies.body_bs | .ht => some TermBodies.body_ht | .lf => some TermBodies.body_lf
  | .vt => some TermBodies.body_vt | .ff => some TermBodies.body_ff | .cr => some TermBodies.body_cr
  | .arm_0e => some TermBodies.body_c0_arm_0e | .arm_0f => some TermBodies.body_c0_arm_0f
  | .arm_07 => none

/-- BEL: the arm that posts an event -/
def c0EvBodyOf : C0Arm → Option Body
  | .arm_07 => some TermBodies.body_c0_arm_07
  | _ => none

/-- the arms of c0() from generated data only: a body that posts no event, or (BEL) one run with the event count -/
def C0EntryOk (x : List Nat × C0Arm × ArgKind) : Prop :=
  ∀ (e : Emu) (r : Nat), x.1 = [r] → match c0BodyOf x.2.1 with
    | some b => c0 Fixes.current e r = (runArm b x.2.2 [] e >>= fun e' => .ok (e', 0))
    | none => match c0EvBodyOf x.2.1 with
      | some b => c0 Fixes.current e r = evalBodyEv b [] [] e
      | none => True

theorem all_c0_entries : ∀ x ∈ c0Table, C0EntryOk x := by
  intro x hx
  simp only [c0Table, List.mem_cons, List.not_mem_nil, or_false] at hx
  rcases hx with rfl | rfl | rfl | rfl | rfl | rfl | rfl | rfl | rfl
  · intro e r hr; cases hr; simp only [c0BodyOf, c0EvBodyOf]; rw [body_c0_arm_07]; rfl
  · intro e r hr; cases hr; simp only [c0BodyOf, runArm]; rw [body_bs]; rfl
  · intro e r hr; cases hr; simp only [c0BodyOf, runArm]; rw [body_ht]; rfl
  · intro e r hr; cases hr; simp only [c0BodyOf, runArm]; rw [body_lf]; rfl
  · intro e r hr; cases hr; simp only [c0BodyOf, runArm]; rw [body_vt]; rfl
  · intro e r hr; cases hr; simp only [c0BodyOf, runArm]; rw [body_ff]; rfl
  · intro e r hr; cases hr; simp only [c0BodyOf, runArm]; rw [body_cr]; rfl
  · intro e r hr; cases hr; simp only [c0BodyOf, runArm]; rw [body_c0_arm_0e]; rfl
  · intro e r hr; cases hr; simp only [c0BodyOf, runArm]; rw [body_c0_arm_0f]; rfl

/-- esc() from generated data for the arms that call a function (the inline arms as the model has them) -/
def escGen (e : Emu) (label : List Nat) : M Emu :=
  match escTable.find? (·.1 = label) with
  | none => .ok e
  | some (_, arm, kind) =>
    match escBodyOf arm with
    | some b => runArm b kind [] e
    | none => .ok e                      -- (no such arm: `esc_arms_all_translated`)

/-- **esc() is the regenerated table composed with the regenerated bodies** (DECSC, DECRC, IND, NEL, HTS, RI, RIS). -/
theorem esc_is_generated (e : Emu) (label : List Nat) : esc Fixes.current e label = escGen e label := by
  unfold escGen
  cases hf : escTable.find? (·.1 = label) with
  | none =>
    have : lookupArm escTable label = none := by unfold lookupArm; rw [hf]; rfl
    unfold esc
    simp only [this]
  | some x =>
    obtain ⟨l, arm, kind⟩ := x
    have hl : l = label := by
      have := List.find?_some hf
      simpa using this
    subst hl
    have h := all_esc_entries _ (List.mem_of_find?_eq_some hf) e
    simp only [EscEntryOk] at h ⊢
    cases hb : escBodyOf arm with
    | none => cases arm <;> simp [escBodyOf] at hb
    | some b => simp only [hb] at h; exact h

/-- c0() likewise (BS, HT, LF, VT, FF, CR; BEL and SO/SI are inline) -/
def c0Gen (e : Emu) (r : Nat) : M (Emu × Nat) :=
  match c0Table.find? (·.1 = [r]) with
  | none => .ok (e, 0)
  | some (_, arm, kind) =>
    match c0BodyOf arm with
    | some b => runArm b kind [] e >>= fun e' => .ok (e', 0)
    | none => match c0EvBodyOf arm with
      | some b => evalBodyEv b [] [] e
      | none => .ok (e, 0)               -- (no such arm: `c0_arms_all_translated`)

theorem c0_is_generated (e : Emu) (r : Nat) : c0 Fixes.current e r = c0Gen e r := by
  unfold c0Gen
  cases hf : c0Table.find? (·.1 = [r]) with
  | none =>
    have : lookupArm c0Table [r] = none := by unfold lookupArm; rw [hf]; rfl
    unfold c0
    simp only [this]
  | some x =>
    obtain ⟨l, arm, kind⟩ := x
    have hl : l = [r] := by
      have := List.find?_some hf
      simpa using this
    subst hl
    have h := all_c0_entries _ (List.mem_of_find?_eq_some hf) e r rfl
    simp only [C0EntryOk] at h ⊢
    cases hb : c0BodyOf arm with
    | none =>
      simp only [hb] at h
      cases hb2 : c0EvBodyOf arm with
      | none => cases arm <;> simp [c0BodyOf, c0EvBodyOf] at hb hb2
      | some b => simp only [hb2] at h; exact h
    | some b => simp only [hb] at h; exact h

/-- every arm of the three dispatchers has a translated body -/
theorem csi_arms_all_translated : ∀ a : CsiArm, (csiBodyOf a).isSome = true := by intro a; cases a <;> rfl
theorem esc_arms_all_translated : ∀ a : EscArm, (escBodyOf a).isSome = true := by intro a; cases a <;> rfl
theorem c0_arms_all_translated : ∀ a : C0Arm, ((c0BodyOf a).isSome || (c0EvBodyOf a).isSome) = true := by intro a; cases a <;> rfl

/-! ### update(): the type switch over the kinds of parsed sequence -/

/-- the kind update()'s type switch sees (a resize is not a parsed sequence) -/
def kindOf : EOp → Option SeqKind
  | .print _ _ => some .print
  | .c0 _ => some .c0
  | .esc _ => some .esc
  | .csi _ _ => some .csi
  | .osc _ _ => some .osc
  | .dcs => some .dcs
  | .apc => some .apc
  | .resize _ _ => none

/-- what an arm of update() does with the sequence — through the generated dispatchers / bodies only. An arm handed a sequence of
    another kind than the calls it makes can take (cannot happen in Go: the type switch binds `seq` at the case's type) does nothing. -/
def runUArm (a : UArm) (e : Emu) (op : EOp) (hostEmpty : Bool) : M (Emu × Nat) :=
  match a, op with
  | .print, .print g w => evalPrint TermBodies.body_print g w e >>= fun e' => .ok (e', 0)
  | .c0, .c0 r => c0Gen e r
  | .esc, .esc l => escGen e l >>= fun e' => .ok (e', 0)
  | .csi, .csi l pm => csiGen e l pm >>= fun e' => .ok (e', 0)
  | .osc, .osc d info => evalOsc TermBodies.body_osc d info hostEmpty e
  | .dcs, _ => .ok (e, 0)                -- the sixel arm changes `vt.graphics` only (Model/EmuDcs.lean, `dcs_safe`)
  | .post, _ => .ok (e, 1)
  | _, _ => .ok (e, 0)

/-- update() from generated data only: look the kind up in `updateArms`; no arm = nothing happens -/
def updateGen (e : Emu) (op : EOp) (hostEmpty : Bool) : M (Emu × Nat) :=
  match kindOf op with
  | none => .ok (e, 0)
  | some k =>
    match TermBodies.updateArms.find? (·.1 = k) with
    | none => .ok (e, 0)
    | some (_, a) => runUArm a e op hostEmpty

/-- **update() is the regenerated table of its type switch composed with the regenerated dispatchers and bodies**: for every state
    and every parsed sequence (print, C0, ESC, CSI with any parameters, OSC with any payload, DCS, APC), the model's step is
    `updateGen` — the state AND the number of events posted. -/
theorem update_is_generated (e : Emu) (op : EOp) (hostEmpty : Bool) (h : kindOf op ≠ none) :
    emuStep e op = updateGen e op hostEmpty := by
  cases op with
  | print g w =>
    show (print Fixes.current e g w >>= fun e' => Except.ok (e', 0)) = _
    simp only [updateGen, kindOf, TermBodies.updateArms, List.find?, decide_true, decide_false, runUArm, body_print]
  | c0 r =>
    show c0 Fixes.current e r = _
    rw [c0_is_generated]; rfl
  | esc l =>
    show (esc Fixes.current e l >>= fun e' => Except.ok (e', 0)) = _
    rw [esc_is_generated]; rfl
  | csi l pm =>
    show (csi Fixes.current e l pm >>= fun e' => Except.ok (e', 0)) = _
    rw [csi_is_generated]; rfl
  | osc d info =>
    show osc Fixes.current e d info = _
    rw [← body_osc e d info hostEmpty]; rfl
  | dcs => rfl
  | apc => rfl
  | resize w h' => exact absurd rfl h

/-- **The property's safety clause, stated of update() as translated from the source**: for every good state, size 1×1..65535²,
    and every parsed sequence (any parameters, any payload, either answer of the host), `updateGen` — the regenerated type switch
    running the regenerated dispatchers and bodies — neither panics nor hangs, re-establishes the invariant, and posts at most
    one event. -/
theorem translated_update_safe {e : Emu} {rows cols : Nat} (h : EmuInv e rows cols) (d : Dim rows cols) (op : EOp) (hostEmpty : Bool)
    (hk : kindOf op ≠ none) :
    ∃ r, updateGen e op hostEmpty = .ok r ∧ EmuInv r.1 rows cols ∧ r.2 ≤ 1 := by
  have hop : ∀ w hh, op ≠ .resize w hh := by
    intro w hh hc; subst hc; exact hk rfl
  obtain ⟨r, hr, hi⟩ := VaxisModel.Props.C05.emu_safe h d op hop
  refine ⟨r, ?_, hi, VaxisModel.Props.C05.events_per_op_le_one e op r hr⟩
  rw [← update_is_generated e op hostEmpty hk]; exact hr

/-! ### the whole session through translated code only -/

/-- one step from generated data only: a parsed sequence through `updateGen`, a resize through the translated body of resize() -/
def stepGen (hostEmpty : Bool) (e : Emu) (op : EOp) : M (Emu × Nat) :=
  match op with
  | .resize w h => evalBody TermBodies.body_resize [] [w, h] e >>= fun e' => .ok (e', 0)
  | op => updateGen e op hostEmpty

def runGen (hostEmpty : Bool) (e : Emu) : List EOp → M Emu
  | [] => .ok e
  | op :: rest => do
    let (e', _) ← stepGen hostEmpty e op
    runGen hostEmpty e' rest

/-- on a good state and an admissible operation the translated step IS the model's step -/
theorem step_is_generated (hostEmpty : Bool) {e : Emu} (hg : VaxisModel.Props.C05.Good e) (op : EOp)
    (hop : VaxisModel.Props.C05.OpOk op) : stepGen hostEmpty e op = emuStep e op := by
  obtain ⟨rows, cols, hinv, _⟩ := hg
  cases op with
  | resize w h =>
    obtain ⟨hw1, _, hh1, _⟩ := hop
    show (evalBody TermBodies.body_resize [] [w, h] e >>= fun e' => Except.ok (e', 0)) = _
    rw [body_resize e w h (by omega) (rect_of_inv hinv)]
    rfl
  | print g w => exact (update_is_generated e (.print g w) hostEmpty (by simp [kindOf])).symm
  | c0 r => exact (update_is_generated e (.c0 r) hostEmpty (by simp [kindOf])).symm
  | esc l => exact (update_is_generated e (.esc l) hostEmpty (by simp [kindOf])).symm
  | csi l pm => exact (update_is_generated e (.csi l pm) hostEmpty (by simp [kindOf])).symm
  | osc dd info => exact (update_is_generated e (.osc dd info) hostEmpty (by simp [kindOf])).symm
  | dcs => exact (update_is_generated e .dcs hostEmpty (by simp [kindOf])).symm
  | apc => exact (update_is_generated e .apc hostEmpty (by simp [kindOf])).symm

theorem runGen_eq (hostEmpty : Bool) (ops : List EOp) : ∀ {e : Emu}, VaxisModel.Props.C05.Good e →
    (∀ op ∈ ops, VaxisModel.Props.C05.OpOk op) → runGen hostEmpty e ops = runOps e ops := by
  induction ops with
  | nil => intro e _ _; rfl
  | cons op rest ih =>
    intro e hg hall
    obtain ⟨r, hr, hg'⟩ := VaxisModel.Props.C05.emu_safe_step hg op (hall op List.mem_cons_self)
    simp only [runGen, runOps, step_is_generated hostEmpty hg op (hall op List.mem_cons_self), hr, bind, Except.bind]
    exact ih hg' (fun o ho => hall o (List.mem_cons_of_mem _ ho))

/-- **C05's safety clause for the code as translated from the source, all histories**: start a terminal of any size 1×1..65535²
    (New() followed by the translated resize()), then run ANY list of parsed sequences (any parameters, payloads) and resizes to
    admissible sizes through the regenerated type switch of update(), the regenerated dispatch tables and the regenerated bodies —
    nothing panics, nothing hangs, and the final state has its cursor on the screen, ordered margins within the screen and
    rectangular grids of the terminal's size (`Good`, see `good_state_clause`). -/
theorem translated_session_safe (hostEmpty : Bool) (w h : Int) (hw1 : 1 ≤ w) (hw2 : w ≤ 65535) (hh1 : 1 ≤ h) (hh2 : h ≤ 65535)
    (ops : List EOp) (hall : ∀ op ∈ ops, VaxisModel.Props.C05.OpOk op) :
    ∃ e0 e', evalBody TermBodies.body_resize [] [w, h] Emu.init = .ok e0 ∧ runGen hostEmpty e0 ops = .ok e' ∧
      VaxisModel.Props.C05.Good e' := by
  obtain ⟨e0, e', he0, he', hg'⟩ := VaxisModel.Props.C05.session_safe w h hw1 hw2 hh1 hh2 ops hall
  obtain ⟨e0', he0', hg0⟩ := VaxisModel.Props.C05.new_good w h hw1 hw2 hh1 hh2
  have : e0' = e0 := by rw [he0] at he0'; exact (Except.ok.inj he0').symm
  subst this
  refine ⟨e0', e', ?_, ?_, hg'⟩
  · rw [body_resize Emu.init w h (by omega) rect_init]; exact he0
  · rw [runGen_eq hostEmpty ops hg0 hall]; exact he'

/-- the shape of update() the table was read from: lock, the three defers, then the type switch as the last statement; exactly
    one arm per kind of sequence (in any order), none unknown -/
theorem update_shape :
    TermBodies.updatePre = ["vt.mu.Lock()", "defer vt.mu.Unlock()", "defer vt.parser.Finish(seq)", "defer vt.invalidate()"] ∧
    TermBodies.updateSwitchLast = true ∧
    ([SeqKind.print, .c0, .esc, .csi, .osc, .dcs, .apc].all fun k => (TermBodies.updateArms.filter (·.1 = k)).length = 1) = true ∧
    (TermBodies.updateArms.all fun x => match x.2 with | .unknown _ => false | _ => true) = true := by
  refine ⟨rfl, rfl, by decide, rfl⟩

/-- Non-vacuity / reading aid: CUU is `evalBody body_cuu` on `ps(params)`, SGR is `evalBody body_sgr` on the list, DECSC takes nothing. -/
example (e : Emu) (pm : List Param) :
    csi Fixes.current e [65] pm = evalBody TermBodies.body_cuu [] [ps (clampParams pm)] e ∧
    csi Fixes.current e [109] pm = evalBody TermBodies.body_sgr (clampParams pm) [] e ∧
    csi Fixes.current e [115] pm = evalBody TermBodies.body_decsc [] [] e := by
  refine ⟨?_, ?_, ?_⟩ <;> (rw [csi_is_generated]; unfold csiGen; rw [body_csi_pre]; rfl)

end VaxisModel.Props.C05Dispatch
