/-
C05, clause "Drawing it into a host window writes only inside that window."

`Model.EmuDraw.draw` is `(*term.Model).Draw(win)`; `fixCursor = true`, `Fixes.current` is the code
as it is now. The calls of `draw` are in window coordinates; `setCellChain`/`showCursorChain`
are `Window.SetCell`/`Window.ShowCursor` through the parent chain down to the screen buffer.
-/
import VaxisModel.Model.EmuDraw
import VaxisModel.Lemmas.EmuBasic
import VaxisModel.Lemmas.EmuSafe1
import VaxisModel.Lemmas.EmuSafe4
import VaxisModel.Lemmas.EmuDraw

namespace VaxisModel.Props.C05Draw
open VaxisModel.Model.Emu VaxisModel.Model.EmuDraw VaxisModel.Lemmas.Emu VaxisModel.Lemmas.EmuDraw

/-- Draw into a window of any size 1..65535 × 1..65535, from any state satisfying the invariant
    (of any size — a different size makes Draw resize): it does not panic or hang, every
    `win.SetCell(col,row,_)` it makes has `0 ≤ col < winW`, `0 ≤ row < winH`, the cursor it shows
    (if any) is inside the same bounds, and the state afterwards satisfies the invariant for the
    window's size. -/
theorem draw_clipped {e : Emu} {rows cols : Nat} (h : EmuInv e rows cols) (d : Dim rows cols)
    (winW winH : Int) (focused : Bool)
    (hw1 : 1 ≤ winW) (hw2 : winW ≤ 65535) (hh1 : 1 ≤ winH) (hh2 : winH ≤ 65535) :
    ∃ r, draw true Fixes.current e winW winH focused = .ok r ∧
      (∀ c ∈ r.2.1, 0 ≤ c.col ∧ c.col < winW ∧ 0 ≤ c.row ∧ c.row < winH) ∧
      (∀ p, r.2.2 = some p → 0 ≤ p.1 ∧ p.1 < winW ∧ 0 ≤ p.2 ∧ p.2 < winH) ∧
      EmuInv r.1 winH.toNat winW.toNat ∧ r.1.hasVx = true := by
  have hcw : ((winW.toNat : Nat) : Int) = winW := by omega
  have hch : ((winH.toNat : Nat) : Int) = winH := by omega
  unfold draw
  by_cases hsz : winW ≠ e.width ∨ winH ≠ e.height
  · obtain ⟨e1, he1, hi1⟩ := resize_safe h d winW winH hw1 hw2 hh1 hh2
    have d1 : Dim winH.toNat winW.toNat := ⟨by omega, by omega, by omega, by omega⟩
    obtain ⟨calls, hcalls, hb, hcur, hinv⟩ := draw_sized hi1 d1 focused
    rw [hcw, hch] at hb hcur
    refine ⟨({ e1 with hasVx := true }, calls, shownCursor true e1 focused), ?_, hb, hcur, hinv, rfl⟩
    simp only [hsz, if_true, he1, hcalls, bind, Except.bind]
  · have hw := width_eq h d.r1
    have hh := height_eq h
    have hwe : winW = (cols : Int) := by omega
    have hhe : winH = (rows : Int) := by omega
    obtain ⟨calls, hcalls, hb, hcur, hinv⟩ := draw_sized h d focused
    have hr : winH.toNat = rows := by omega
    have hc : winW.toNat = cols := by omega
    rw [hr, hc, hwe, hhe]
    refine ⟨({ e with hasVx := true }, calls, shownCursor true e focused), ?_, hb, hcur, hinv, rfl⟩
    rw [← hwe, ← hhe]
    simp only [hsz, if_false, hcalls, bind, Except.bind]

/-- When the window already has the emulator's size, Draw does not resize: the state is unchanged
    except for the stored `vt.vx`. -/
theorem draw_same_size {e : Emu} {rows cols : Nat} (h : EmuInv e rows cols) (d : Dim rows cols)
    (focused : Bool) :
    ∃ calls, draw true Fixes.current e cols rows focused
      = .ok ({ e with hasVx := true }, calls, shownCursor true e focused) := by
  obtain ⟨calls, hcalls, _⟩ := draw_sized h d focused
  have hsz : ¬ ((cols : Int) ≠ e.width ∨ (rows : Int) ≠ e.height) := by
    rw [width_eq h d.r1, height_eq h]; omega
  exact ⟨calls, by simp only [draw, hsz, if_false, hcalls, bind, Except.bind]⟩

/-- The property on the host screen. `chain` is the window handed to Draw followed by its parents
    up to the root; the screen buffer has `sw × sh` cells. Every host cell written by Draw is the
    call translated by the window's origin, lies inside the window's rectangle
    `[ox, ox+winW) × [oy, oy+winH)` and on the screen; the cursor (which `Window.ShowCursor` does
    not clip) is shown inside the window's rectangle. -/
theorem draw_host_clipped {e : Emu} {rows cols : Nat} (h : EmuInv e rows cols) (d : Dim rows cols)
    (win : Win) (parents : List Win) (sw sh : Int) (focused : Bool)
    (hw1 : 1 ≤ win.w) (hw2 : win.w ≤ 65535) (hh1 : 1 ≤ win.h) (hh2 : win.h ≤ 65535) :
    ∃ r, draw true Fixes.current e win.w win.h focused = .ok r ∧
      (∀ c ∈ r.2.1, ∀ p, setCellChain sw sh (win :: parents) c.col c.row = some p →
        (origin (win :: parents)).1 ≤ p.1 ∧ p.1 < (origin (win :: parents)).1 + win.w ∧
        (origin (win :: parents)).2 ≤ p.2 ∧ p.2 < (origin (win :: parents)).2 + win.h ∧
        0 ≤ p.1 ∧ p.1 < sw ∧ 0 ≤ p.2 ∧ p.2 < sh) ∧
      (∀ q, r.2.2 = some q →
        (origin (win :: parents)).1 ≤ (showCursorChain (win :: parents) q.1 q.2).1 ∧
        (showCursorChain (win :: parents) q.1 q.2).1 < (origin (win :: parents)).1 + win.w ∧
        (origin (win :: parents)).2 ≤ (showCursorChain (win :: parents) q.1 q.2).2 ∧
        (showCursorChain (win :: parents) q.1 q.2).2 < (origin (win :: parents)).2 + win.h) := by
  obtain ⟨r, hr, hcalls, hcur, _⟩ := draw_clipped h d win.w win.h focused hw1 hw2 hh1 hh2
  refine ⟨r, hr, ?_, ?_⟩
  · intro c hc p hp
    have hb := hcalls c hc
    obtain ⟨hpe, hscr⟩ := setCellChain_some sw sh _ _ _ p hp
    rw [showCursorChain_add] at hpe
    subst hpe
    simp only at hscr ⊢
    omega
  · intro q hq
    have hb := hcur q hq
    rw [showCursorChain_add]
    simp only
    omega

/-- Which cells Draw hands to the window (once the emulator has the window's size): the calls are
    the concatenation, row by row from row 0, of a walk along each of the `rows` rows of the active
    screen that starts at column 0, hands over the cell stored at the current column (grapheme ""
    replaced by " ") and advances by `max width 1` — so the columns under a wide glyph are skipped
    and every call's column is that of a cell really stored in the row. -/
theorem draw_covers_rows {e : Emu} {rows cols : Nat} (h : EmuInv e rows cols) (d : Dim rows cols) :
    ∃ per : List (List DrawCall), drawCalls e = .ok per.flatten ∧ per.length = rows ∧
      ∀ (k : Nat) (l : List DrawCall), per[k]? = some l →
        ∃ line, getI e.active k = .ok line ∧ RowWalk line k cols 0 l := by
  unfold drawCalls
  rw [width_eq h d.r1, height_eq h]
  obtain ⟨per, h1, h2, h3⟩ := allRows_walk (active_ok h) (rows : Int).toNat 0 (by omega) (by omega)
  refine ⟨per, h1, by simpa using h2, ?_⟩
  intro k l hk
  obtain ⟨line, hl, hw⟩ := h3 k l hk
  exact ⟨line, by simpa using hl, by simpa using hw⟩

/-! ### non-vacuity -/

/-- States meeting the hypotheses exist (a fresh 80×24 terminal), and a window of another size is
    allowed (Draw resizes). -/
example : ∃ e, EmuInv e 24 80 ∧ Dim 24 80 ∧ (1 : Int) ≤ 40 ∧ (40 : Int) ≤ 65535 := by
  obtain ⟨e, _, h⟩ := new_safe 80 24 (by decide) (by decide) (by decide) (by decide)
  exact ⟨e, h, ⟨by decide, by decide, by decide, by decide⟩, by decide, by decide⟩

/-- Draw really makes calls and shows a cursor: a fresh 3×2 terminal drawn into a 3×2 window,
    focused, gives 6 calls and the cursor at (0,0). -/
example :
    (match Emu.new Fixes.current 3 2 with
     | .ok e =>
       (match draw true Fixes.current e 3 2 true with
        | .ok r => r.2.1.length == 6 && r.2.2 == some (0, 0)
        | .error _ => false)
     | .error _ => false) = true := by decide +kernel

/-- A window of a different size (2×1) makes Draw resize: 2 calls afterwards. -/
example :
    (match Emu.new Fixes.current 3 2 with
     | .ok e =>
       (match draw true Fixes.current e 2 1 false with
        | .ok r => r.2.1.length == 2 && r.2.2 == none && r.1.width == 2 && r.1.height == 1
        | .error _ => false)
     | .error _ => false) = true := by decide +kernel

/-- The chain clips: `root.New(3,1,2,2)` on a 4×4 screen is clamped to 1×2, so the call (1,0) is
    discarded; (0,1) lands on host cell (3,2). A directly instantiated 2×2 window at (3,1) keeps
    its width and the same call is discarded by the parent instead. -/
example : setCellChain 4 4 [Win.new (Win.root 4 4) 3 1 2 2, Win.root 4 4] 1 0 = none
    ∧ setCellChain 4 4 [Win.new (Win.root 4 4) 3 1 2 2, Win.root 4 4] 0 1 = some (3, 2)
    ∧ setCellChain 4 4 [{ col := 3, row := 1, w := 2, h := 2 }, Win.root 4 4] 1 0 = none := by decide

/-- A wide glyph: a 3×1 terminal showing "世" (width 2) then "a": Draw makes two calls, at columns
    0 and 2 (column 1, under the wide glyph, is skipped). -/
example :
    (match Emu.new Fixes.current 3 1 with
     | .ok e =>
       (match runOps e [.print [228, 184, 150] 2, .print [97] 1] with
        | .ok e2 =>
          (match draw true Fixes.current e2 3 1 true with
           | .ok r => r.2.1.map (·.col) == [0, 2] && r.2.2 == some (2, 0)
           | .error _ => false)
        | .error _ => false)
     | .error _ => false) = true := by decide +kernel

/-! ### windows of any size, including those without area (F105h) -/

/-- A window without area: Draw writes nothing, shows no cursor and leaves the terminal alone. -/
theorem drawG_no_area (e : Emu) (winW winH : Int) (focused : Bool) (h0 : winW ≤ 0 ∨ winH ≤ 0) :
    drawG true true Fixes.current e winW winH focused = .ok (e, [], none) := by
  unfold drawG
  have : (decide (winW ≤ 0) || decide (winH ≤ 0)) = true := by
    rcases h0 with h0 | h0 <;> simp [h0]
  simp [this]

/-- Draw as it is now, for EVERY window size up to 65535 (zero and negative included): no panic,
    every `SetCell` and the cursor inside the window, the emulator stays well-formed. -/
theorem drawG_clipped {e : Emu} {rows cols : Nat} (h : EmuInv e rows cols) (d : Dim rows cols)
    (winW winH : Int) (focused : Bool) (hw2 : winW ≤ 65535) (hh2 : winH ≤ 65535) :
    ∃ r, drawG true true Fixes.current e winW winH focused = .ok r ∧
      (∀ c ∈ r.2.1, 0 ≤ c.col ∧ c.col < winW ∧ 0 ≤ c.row ∧ c.row < winH) ∧
      (∀ p, r.2.2 = some p → 0 ≤ p.1 ∧ p.1 < winW ∧ 0 ≤ p.2 ∧ p.2 < winH) ∧
      ∃ rows' cols', EmuInv r.1 rows' cols' ∧ Dim rows' cols' := by
  by_cases h0 : winW ≤ 0 ∨ winH ≤ 0
  · refine ⟨(e, [], none), drawG_no_area e winW winH focused h0, ?_, ?_, rows, cols, h, d⟩
    · intro c hc; cases hc
    · intro p hp; cases hp
  · have hw1 : 1 ≤ winW := by omega
    have hh1 : 1 ≤ winH := by omega
    obtain ⟨r, hr, hc, hp, hi, _⟩ := draw_clipped h d winW winH focused hw1 hw2 hh1 hh2
    refine ⟨r, ?_, hc, hp, _, _, hi, ⟨by omega, by omega, by omega, by omega⟩⟩
    unfold drawG
    have : (decide (winW ≤ 0) || decide (winH ≤ 0)) = false := by
      have a : ¬ winW ≤ 0 := by omega
      have b : ¬ winH ≤ 0 := by omega
      simp [a, b]
    simp [this, hr]

end VaxisModel.Props.C05Draw
