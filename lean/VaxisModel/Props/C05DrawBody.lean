/-
C05 — `(*Model).Draw(win vaxis.Window)` (widgets/term/term.go) is tied to the source structurally (round 4).
`Gen/TermDraw.lean` is regenerated from /repo on every run (extract/cmd/C05/draw.go): the body of Draw as a term of the small
statement language `Model/EmuDrawLang.lean`. `body_Draw`: FOR ALL emulator states, window sizes (≤ 0 included) and focus flags,
running the translated body (`evalDraw`) is the hand-written model `Model.EmuDraw.drawG` with the current repairs — the model that
`draw_clipped`, `drawG_clipped`, `draw_host_clipped` (Props/C05Draw.lean) are about. So an edit of Draw — the no-area guard, the
size test before `Resize`, a loop bound, the step `if w == 0 { w = 1 }`, the argument order of `SetCell` / `ShowCursor`, the
cursor clamp `col > vt.margin.right` — changes the generated term and either breaks `body_Draw` or is a neutral rewrite.
-/
import VaxisModel.Lemmas.EmuDrawBody
import VaxisModel.Props.C05Draw

namespace VaxisModel.Props.C05DrawBody
open VaxisModel.Model.Emu VaxisModel.Model.EmuDraw VaxisModel.Model.EmuDrawBody VaxisModel.Lemmas.EmuDrawBody VaxisModel.Gen

/-- no statement of Draw is outside the language -/
theorem draw_fully_recognised : recognised TermDraw.stmt_Draw = true ∧ TermDraw.drawUnknown = 0 := by decide

/-- **Draw is its translated body**: state afterwards, the `SetCell` calls in order, and the `ShowCursor` call. -/
theorem body_Draw (e : Emu) (winW winH : Int) (focused : Bool) :
    evalDraw TermDraw.stmt_Draw e winW winH focused = drawG true true Fixes.current e winW winH focused :=
  body_Draw_eq e winW winH focused

/-- **The property's Draw clause, stated of the body translated from the source**: for every good emulator state, every window
    size up to 65535 (zero and negative included) and either focus flag, running Draw's translated body neither panics nor hangs,
    every `SetCell` it makes and the cursor it shows lie inside the window, and the emulator stays well-formed. -/
theorem translated_draw_clipped {e : Emu} {rows cols : Nat} (h : Lemmas.Emu.EmuInv e rows cols) (d : Lemmas.Emu.Dim rows cols)
    (winW winH : Int) (focused : Bool) (hw2 : winW ≤ 65535) (hh2 : winH ≤ 65535) :
    ∃ r, evalDraw TermDraw.stmt_Draw e winW winH focused = .ok r ∧
      (∀ c ∈ r.2.1, 0 ≤ c.col ∧ c.col < winW ∧ 0 ≤ c.row ∧ c.row < winH) ∧
      (∀ p, r.2.2 = some p → 0 ≤ p.1 ∧ p.1 < winW ∧ 0 ≤ p.2 ∧ p.2 < winH) ∧
      ∃ rows' cols', Lemmas.Emu.EmuInv r.1 rows' cols' ∧ Lemmas.Emu.Dim rows' cols' := by
  rw [body_Draw]
  exact VaxisModel.Props.C05Draw.drawG_clipped h d winW winH focused hw2 hh2

/-- the loop over `vt.graphics` (sixel images; not modelled: the emulator model has no graphics) is the text the translator's
    `graphics` statement was written against -/
theorem graphics_loop_pinned : TermDraw.graphicsSrc =
    "outer: for _, img := range vt.graphics { for _, imgVx := range img.vaxii { if vx != imgVx.vx { continue } win := win.New(img.origin.col, img.origin.row, -1, -1) imgVx.vxImage.Draw(win) continue outer } vxImg, err := vx.NewImage(img.img) if err != nil { log.Error(\"couldn't create Vaxis image: %v\", err) continue } vxImg.Resize(win.Size()) img.vaxii = append(img.vaxii, &vaxisImage{ vx: vx, vxImage: vxImg, }) }" := rfl

/-- non-vacuity: a 2×1 emulator holding a wide glyph, drawn focused into a 2×1 window: one SetCell for the glyph (the loop steps
    over its second column), the cursor clamped from the pending-wrap column 2 to column 1 -/
example :
    let e : Emu := { primary := [[{ g := [228, 184, 150], w := 2 }, {}]], alt := [[{}, {}]], right := 1, cur := { col := 2 }, lastCol := true }
    (match evalDraw TermDraw.stmt_Draw e 2 1 true with
     | .ok (e', calls, cur) => (e'.hasVx, calls.map (fun c => (c.col, c.row, c.cell.w)), cur)
     | .error _ => (false, [], none)) = (true, [(0, 0, 2)], some (1, 0)) := by decide
