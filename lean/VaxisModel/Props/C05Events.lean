import VaxisModel.Model.EmuEvents
import VaxisModel.Gen.TermModes

/-!
# C05, clause "events it raises (bell, title, notification) never stall further processing however
many occur … for all orders in which raised events are consumed"

Theorems about the transition system `Model.EmuEvents` of the PTY goroutine (all input lists, all
schedules = all label sequences, no bound on either).  `events_never_stall_current` and the other
`…_current` theorems are stated over the constants the extractor regenerates from
`widgets/term/term.go` on every run (`Gen.TermModes.eventCap`, `loopDrainsFirst`): if the priority
drain is removed again `loopDrainsFirst` becomes `false` and they stop checking
(`Witness/F20.lean` proves the statement false for that loop).
-/
namespace VaxisModel.Props.C05Events
open VaxisModel.Model.EmuEvents
open VaxisModel.Gen.TermModes (eventCap loopDrainsFirst postEventIsPlainSend loopArms)

/-! ## Shape of the loop as extracted -/

/-- The facts the model's shape rests on: `postEvent` is one plain blocking send, the main select
    has exactly the three arms parser / own events / timer, the channel has room for at least one
    event, and the loop drains its own channel before every main select. -/
theorem loop_shape_current :
    postEventIsPlainSend = true ∧ loopArms = 3 ∧ 1 ≤ eventCap ∧ loopDrainsFirst = true := by decide

/-! ## A blocked send is forever -/

/-- No label is enabled once the goroutine is blocked in `postEvent` (it is the only receiver). -/
theorem stuck_is_forever (cap : Nat) (df : Bool) (s : Sys) (h : stuck s) (l : Label) :
    step cap df s l = none := by
  unfold stuck at h
  cases l <;> simp [step, h]

/-- … so no schedule of any length leaves that state. -/
theorem stuck_run (cap : Nat) (df : Bool) (s s' : Sys) (h : stuck s) (ls : List Label)
    (hr : run cap df s ls = some s') : ls = [] ∧ s' = s := by
  cases ls with
  | nil => simp [run] at hr; exact ⟨rfl, hr.symm⟩
  | cons l t => simp [run, stuck_is_forever cap df s h l] at hr

/-! ## The invariant of the loop with the priority drain -/

theorem drainInv_init (input : List Bool) : DrainInv (init true input) := by
  simp [DrainInv, init, top]

theorem drainInv_step {cap : Nat} (hcap : 1 ≤ cap) {s s' : Sys} {l : Label}
    (hi : DrainInv s) (h : step cap true s l = some s') : DrainInv s' := by
  obtain ⟨inp, occ, pc, del⟩ := s
  obtain ⟨h1, h2, h3⟩ := hi
  cases pc <;> cases l <;> simp [step, top] at h
  · -- drain, drainRecv
    obtain ⟨hpos, rfl⟩ := h
    have := h2 rfl
    simp [DrainInv]; simp at this; omega
  · -- drain, drainDefault
    obtain ⟨hz, rfl⟩ := h
    simp [DrainInv]; exact hz
  · -- main, pickParser
    have hz : occ = 0 := h3 (Or.inl rfl)
    subst hz
    split at h
    · simp at h
    · simp at h; subst h; simp [DrainInv]
    · have : 0 < cap := hcap
      simp [this] at h; subst h; simp [DrainInv]
  · -- main, pickEvents
    obtain ⟨hpos, rfl⟩ := h
    have hz : occ = 0 := h3 (Or.inl rfl)
    omega
  · -- main, pickTimer
    subst h
    have hz : occ = 0 := h3 (Or.inl rfl)
    simp [DrainInv, hz]
  · -- main, eof
    split at h
    · simp at h; subst h
      have hz : occ = 0 := h3 (Or.inl rfl)
      simp [DrainInv, hz]
    · simp at h

theorem drainInv_run {cap : Nat} (hcap : 1 ≤ cap) (ls : List Label) {s s' : Sys}
    (hi : DrainInv s) (h : run cap true s ls = some s') : DrainInv s' := by
  induction ls generalizing s with
  | nil => simp [run] at h; subst h; exact hi
  | cons l t ih =>
    simp only [run] at h
    split at h
    · rename_i s1 hs; exact ih (drainInv_step hcap hi hs) h
    · simp at h

/-- Every reachable state of the loop with the priority drain satisfies the invariant. -/
theorem drainInv_reachable {cap : Nat} (hcap : 1 ≤ cap) (input : List Bool) (s : Sys)
    (hr : Reachable cap true input s) : DrainInv s := by
  obtain ⟨ls, h⟩ := hr
  exact drainInv_run hcap ls (drainInv_init input) h

/-! ## Events never stall -/

/-- **Events never stall.**  With the priority drain, for every channel capacity ≥ 1, every input
    (any number of event-raising sequences in any positions) and every schedule (every order in
    which the goroutine's selects pick ready arms, i.e. in which raised events are consumed), the
    goroutine is never blocked in `postEvent`. -/
theorem events_never_stall (cap : Nat) (hcap : 1 ≤ cap) (input : List Bool) (ls : List Label)
    (s : Sys) (h : run cap true (init true input) ls = some s) : ¬ stuck s :=
  (drainInv_reachable hcap input s ⟨ls, h⟩).1

/-- The same, for the capacity and loop shape extracted from the current source. -/
theorem events_never_stall_current (input : List Bool) (ls : List Label) (s : Sys)
    (h : run eventCap loopDrainsFirst (init loopDrainsFirst input) ls = some s) : ¬ stuck s := by
  have hd : loopDrainsFirst = true := by decide
  rw [hd] at h
  exact events_never_stall eventCap (by decide) input ls s h

/-- With the drain the channel never holds more than one event, whatever its capacity. -/
theorem occupancy_at_most_one (cap : Nat) (hcap : 1 ≤ cap) (input : List Bool) (s : Sys)
    (hr : Reachable cap true input s) : s.occ ≤ 1 := by
  obtain ⟨h1, h2, h3⟩ := drainInv_reachable hcap input s hr
  cases hpc : s.pc
  · exact h2 hpc
  · have := h3 (Or.inl hpc); omega
  · exact absurd hpc h1
  · have := h3 (Or.inr hpc); omega

/-! ## Conservation: nothing is lost or invented (any capacity, with or without the drain) -/

theorem conserved_init (df : Bool) (input : List Bool) : Conserved input (init df input) :=
  ⟨[], by simp [init], by simp [init, inFlight, raising, top]; cases df <;> simp⟩

theorem conserved_step {cap : Nat} {df : Bool} {input0 : List Bool} {s s' : Sys} {l : Label}
    (hc : Conserved input0 s) (h : step cap df s l = some s') : Conserved input0 s' := by
  obtain ⟨inp, occ, pc, del⟩ := s
  obtain ⟨consumed, hin, hsum⟩ := hc
  have htop : top df ≠ PC.blocked := by cases df <;> simp [top]
  cases pc <;> cases l <;> simp [step] at h
  · obtain ⟨hpos, rfl⟩ := h
    refine ⟨consumed, hin, ?_⟩
    simp [inFlight, htop] at hsum ⊢; omega
  · obtain ⟨hz, rfl⟩ := h
    exact ⟨consumed, hin, by simpa [inFlight] using hsum⟩
  · split at h
    · simp at h
    · rename_i rest
      simp at h; subst h
      refine ⟨consumed ++ [false], by simpa using hin, ?_⟩
      simp [inFlight, htop, raising, List.count_append] at hsum ⊢; exact hsum
    · rename_i rest
      split at h
      · simp at h; subst h
        refine ⟨consumed ++ [true], by simpa using hin, ?_⟩
        simp [inFlight, htop, raising, List.count_append] at hsum ⊢; omega
      · simp at h; subst h
        refine ⟨consumed ++ [true], by simpa using hin, ?_⟩
        simp [inFlight, raising, List.count_append] at hsum ⊢; omega
  · obtain ⟨hpos, rfl⟩ := h
    refine ⟨consumed, hin, ?_⟩
    simp [inFlight, htop] at hsum ⊢; omega
  · subst h
    exact ⟨consumed, hin, by simpa [inFlight, htop] using hsum⟩
  · split at h
    · simp at h; subst h
      exact ⟨consumed, hin, by simpa [inFlight] using hsum⟩
    · simp at h

/-- **Conservation.**  In every reachable state (any capacity, either loop, any schedule):
    delivered + waiting in the channel + being sent = events raised by the items consumed. -/
theorem conservation (cap : Nat) (df : Bool) (input : List Bool) (s : Sys)
    (hr : Reachable cap df input s) : Conserved input s := by
  obtain ⟨ls, h⟩ := hr
  suffices ∀ (ls : List Label) (s0 : Sys), Conserved input s0 → run cap df s0 ls = some s →
      Conserved input s from this ls _ (conserved_init df input) h
  intro ls
  induction ls with
  | nil => intro s0 hc h; simp [run] at h; subst h; exact hc
  | cons l t ih =>
    intro s0 hc h
    simp only [run] at h
    split at h
    · rename_i s1 hs; exact ih s1 (conserved_step hc hs) h
    · simp at h

theorem occ_le_cap_step {cap : Nat} {df : Bool} {s s' : Sys} {l : Label}
    (hc : s.occ ≤ cap) (h : step cap df s l = some s') : s'.occ ≤ cap := by
  obtain ⟨inp, occ, pc, del⟩ := s
  cases pc <;> cases l <;> simp [step] at h
  · obtain ⟨_, rfl⟩ := h; simp at hc ⊢; omega
  · obtain ⟨_, rfl⟩ := h; exact hc
  · split at h
    · simp at h
    · simp at h; subst h; exact hc
    · split at h
      · simp at h; subst h; simp at hc ⊢; omega
      · simp at h; subst h; exact hc
  · obtain ⟨_, rfl⟩ := h; simp at hc ⊢; omega
  · subst h; exact hc
  · split at h
    · simp at h; subst h; exact hc
    · simp at h

/-- The channel never holds more than its capacity (any loop, any schedule). -/
theorem occupancy_le_cap (cap : Nat) (df : Bool) (input : List Bool) (s : Sys)
    (hr : Reachable cap df input s) : s.occ ≤ cap := by
  obtain ⟨ls, h⟩ := hr
  suffices ∀ (ls : List Label) (s0 : Sys), s0.occ ≤ cap → run cap df s0 ls = some s →
      s.occ ≤ cap from this ls _ (by simp [init]) h
  intro ls
  induction ls with
  | nil => intro s0 hc h; simp [run] at h; subst h; exact hc
  | cons l t ih =>
    intro s0 hc h
    simp only [run] at h
    split at h
    · rename_i s1 hs; exact ih s1 (occ_le_cap_step hc hs) h
    · simp at h

/-! ## Progress -/

/-- **Deadlock freedom.**  With the drain, in every reachable state that is not the final one some
    label *other than the timer* is enabled: the loop can always make real progress (deliver a
    pending event, consume the next parser item, or finish at EOF). -/
theorem deadlock_free (cap : Nat) (hcap : 1 ≤ cap) (input : List Bool) (s : Sys)
    (hr : Reachable cap true input s) (hnd : s.pc ≠ .done) :
    ∃ l, l ≠ Label.pickTimer ∧ (step cap true s l).isSome = true := by
  have hi := drainInv_reachable hcap input s hr
  obtain ⟨inp, occ, pc, del⟩ := s
  cases pc
  · -- drain
    by_cases hz : occ = 0
    · exact ⟨.drainDefault, by simp, by simp [step, hz]⟩
    · exact ⟨.drainRecv, by simp, by simp [step]; omega⟩
  · -- main
    cases inp with
    | nil => exact ⟨.eof, by simp, by simp [step]⟩
    | cons b rest =>
      refine ⟨.pickParser, by simp, ?_⟩
      cases b
      · simp [step]
      · simp only [step]; split <;> simp
  · exact absurd rfl hi.1
  · exact absurd rfl hnd

/-- The same for the extracted constants. -/
theorem deadlock_free_current (input : List Bool) (s : Sys)
    (hr : Reachable eventCap loopDrainsFirst input s) (hnd : s.pc ≠ .done) :
    ∃ l, l ≠ Label.pickTimer ∧ (step eventCap loopDrainsFirst s l).isSome = true := by
  have hd : loopDrainsFirst = true := by decide
  rw [hd] at hr ⊢
  exact deadlock_free eventCap (by decide) input s hr hnd

/-! ## What has been delivered when the loop returns -/

/-- The loop returns only at EOF: all input has been consumed. -/
theorem done_input_empty (cap : Nat) (df : Bool) (input : List Bool) (s : Sys)
    (hr : Reachable cap df input s) (hd : s.pc = .done) : s.input = [] := by
  obtain ⟨ls, h⟩ := hr
  suffices ∀ (ls : List Label) (s0 : Sys), (s0.pc = .done → s0.input = []) →
      run cap df s0 ls = some s → s.input = [] from
    this ls _ (by cases df <;> simp [init, top]) h
  intro ls
  induction ls with
  | nil => intro s0 hc h; simp [run] at h; subst h; exact hc hd
  | cons l t ih =>
    intro s0 hc h
    simp only [run] at h
    split at h
    · rename_i s1 hs
      refine ih s1 ?_ h
      intro hd1
      obtain ⟨inp, occ, pc, del⟩ := s0
      have htop : top df ≠ PC.done := by cases df <;> simp [top]
      cases pc <;> cases l <;> simp [step] at hs
      · obtain ⟨_, rfl⟩ := hs; exact absurd hd1 htop
      · obtain ⟨_, rfl⟩ := hs; simp at hd1
      · split at hs
        · simp at hs
        · simp at hs; subst hs; exact absurd hd1 htop
        · split at hs <;> (simp at hs; subst hs)
          · exact absurd hd1 htop
          · simp at hd1
      · obtain ⟨_, rfl⟩ := hs; exact absurd hd1 htop
      · subst hs; exact absurd hd1 htop
      · split at hs
        · simp at hs; subst hs; rfl
        · simp at hs
    · simp at h

/-- Any loop, any capacity: when the loop has returned, every raised event was either delivered
    or is still in the channel (the loop does not drain at EOF), so at most `cap` are undelivered. -/
theorem closed_delivers_all_but_cap (cap : Nat) (df : Bool) (input : List Bool) (s : Sys)
    (hr : Reachable cap df input s) (hd : s.pc = .done) :
    s.delivered + s.occ = raising input ∧ s.delivered ≤ raising input ∧
      raising input - cap ≤ s.delivered := by
  obtain ⟨consumed, hin, hsum⟩ := conservation cap df input s hr
  have he := done_input_empty cap df input s hr hd
  have hocc := occupancy_le_cap cap df input s hr
  rw [he] at hin; simp at hin; subst hin
  simp [inFlight, hd] at hsum
  omega

/-- **All events are delivered.**  With the drain the channel is empty whenever the main select is
    reached, in particular when EOF is taken: every run that reaches `done` has delivered exactly
    the events raised by the input, whatever the schedule. -/
theorem events_all_delivered (cap : Nat) (hcap : 1 ≤ cap) (input : List Bool) (s : Sys)
    (hr : Reachable cap true input s) (hd : s.pc = .done) :
    s.delivered = raising input ∧ s.occ = 0 := by
  have hz : s.occ = 0 := (drainInv_reachable hcap input s hr).2.2 (Or.inr hd)
  have := (closed_delivers_all_but_cap cap true input s hr hd).1
  omega

theorem events_all_delivered_current (input : List Bool) (s : Sys)
    (hr : Reachable eventCap loopDrainsFirst input s) (hd : s.pc = .done) :
    s.delivered = raising input ∧ s.occ = 0 := by
  have hdf : loopDrainsFirst = true := by decide
  rw [hdf] at hr
  exact events_all_delivered eventCap (by decide) input s hr hd

/-! ## The loop can always finish; the real work in any run is bounded -/

theorem run_append (cap : Nat) (df : Bool) (s : Sys) (a b : List Label) :
    run cap df s (a ++ b) = (run cap df s a).bind (fun s' => run cap df s' b) := by
  induction a generalizing s with
  | nil => simp [run]
  | cons l t ih =>
    simp only [List.cons_append, run]
    cases step cap df s l with
    | none => simp
    | some s1 => simpa using ih s1

/-- From the top of the loop with an empty channel there is a schedule that consumes all the
    input, delivers every raised event and returns. -/
theorem finish_from_drain (cap : Nat) (hcap : 1 ≤ cap) (inp : List Bool) (d : Nat) :
    ∃ ls, run cap true ⟨inp, 0, .drain, d⟩ ls = some ⟨[], 0, .done, d + raising inp⟩ := by
  induction inp generalizing d with
  | nil => exact ⟨[.drainDefault, .eof], by simp [run, step, raising]⟩
  | cons b rest ih =>
    cases b
    · obtain ⟨ls, h⟩ := ih d
      refine ⟨[.drainDefault, .pickParser] ++ ls, ?_⟩
      rw [run_append]
      simpa [run, step, top, raising] using h
    · obtain ⟨ls, h⟩ := ih (d + 1)
      refine ⟨[.drainDefault, .pickParser, .drainRecv] ++ ls, ?_⟩
      rw [run_append]
      have hc : 0 < cap := hcap
      simp [run, step, top, raising, hc] at h ⊢
      rw [h]; simp; omega

/-- **No trap.**  With the drain, from every reachable state some continuation reaches the final
    state, with every event raised by the input delivered. -/
theorem can_always_finish (cap : Nat) (hcap : 1 ≤ cap) (input : List Bool) (s : Sys)
    (hr : Reachable cap true input s) :
    ∃ ls s', run cap true s ls = some s' ∧ s'.pc = .done ∧ s'.delivered = raising input := by
  have hi := drainInv_reachable hcap input s hr
  have key : ∃ ls s', run cap true s ls = some s' ∧ s'.pc = .done := by
    obtain ⟨inp, occ, pc, del⟩ := s
    obtain ⟨h1, h2, h3⟩ := hi
    cases pc
    · have hle : occ ≤ 1 := h2 rfl
      by_cases hz : occ = 0
      · subst hz
        obtain ⟨ls, h⟩ := finish_from_drain cap hcap inp del
        exact ⟨ls, _, h, rfl⟩
      · have h1' : occ = 1 := by omega
        subst h1'
        obtain ⟨ls, h⟩ := finish_from_drain cap hcap inp (del + 1)
        exact ⟨.drainRecv :: ls, _, by simpa [run, step, top] using h, rfl⟩
    · have hz : occ = 0 := h3 (Or.inl rfl)
      subst hz
      obtain ⟨ls, h⟩ := finish_from_drain cap hcap inp del
      exact ⟨.pickTimer :: ls, _, by simpa [run, step, top] using h, rfl⟩
    · exact absurd rfl h1
    · exact ⟨[], _, rfl, rfl⟩
  obtain ⟨ls, s', hrun, hd⟩ := key
  obtain ⟨ls0, h0⟩ := hr
  have hr' : Reachable cap true input s' := ⟨ls0 ++ ls, by rw [run_append, h0]; simpa using hrun⟩
  exact ⟨ls, s', hrun, hd, (events_all_delivered cap hcap input s' hr' hd).1⟩

/-- Any loop, any schedule: a run consumes each parser item once and hands over each event once;
    only the idle labels (`drainDefault`, `pickTimer`) can repeat without bound. -/
theorem work_is_bounded (cap : Nat) (df : Bool) (s0 s : Sys) (ls : List Label)
    (h : run cap df s0 ls = some s) :
    ls.count .pickParser + s.input.length = s0.input.length ∧
    s0.delivered + (ls.count .drainRecv + ls.count .pickEvents) = s.delivered := by
  induction ls generalizing s0 with
  | nil => simp [run] at h; subst h; simp
  | cons l t ih =>
    simp only [run] at h
    split at h
    · rename_i s1 hs
      obtain ⟨ih1, ih2⟩ := ih s1 h
      obtain ⟨inp, occ, pc, del⟩ := s0
      cases pc <;> cases l <;> simp [step] at hs
      · obtain ⟨_, rfl⟩ := hs; simp at ih1 ih2 ⊢; omega
      · obtain ⟨_, rfl⟩ := hs; simp at ih1 ih2 ⊢; omega
      · split at hs
        · simp at hs
        · simp at hs; subst hs; simp at ih1 ih2 ⊢; omega
        · split at hs <;> (simp at hs; subst hs; simp at ih1 ih2 ⊢; omega)
      · obtain ⟨_, rfl⟩ := hs; simp at ih1 ih2 ⊢; omega
      · subst hs; simp at ih1 ih2 ⊢; omega
      · split at hs
        · simp at hs; subst hs
          dsimp only at ih1 ih2 ⊢
          simp only [List.count_cons, beq_iff_eq, reduceCtorEq, if_false, Nat.add_zero,
            List.length_nil] at ih1 ⊢
          omega
        · simp at hs
    · simp at h

/-! ## The schedulers the correspondence driver runs are schedules of the model -/

theorem firstEnabled_is_step (cap : Nat) (df : Bool) (s s' : Sys) (prio : List Label)
    (h : firstEnabled cap df s prio = some s') : ∃ l, step cap df s l = some s' := by
  induction prio with
  | nil => simp [firstEnabled] at h
  | cons l t ih =>
    simp only [firstEnabled] at h
    split at h
    · rename_i s1 hs; simp at h; subst h; exact ⟨l, hs⟩
    · exact ih h

theorem runSched_is_run (cap : Nat) (df : Bool) (prio : List Label) (fuel : Nat) (s : Sys) :
    ∃ ls, run cap df s ls = some (runSched cap df prio fuel s) := by
  induction fuel generalizing s with
  | zero => exact ⟨[], rfl⟩
  | succ n ih =>
    simp only [runSched]
    split
    · rename_i s1 hs
      obtain ⟨l, hl⟩ := firstEnabled_is_step cap df s s1 prio hs
      obtain ⟨ls, h⟩ := ih s1
      exact ⟨l :: ls, by simp [run, hl, h]⟩
    · exact ⟨[], rfl⟩

/-- What the driver computes is a reachable state of the model, so the theorems above apply to
    it: with the drain it is never `blocked`, and if it is `done` it has delivered everything. -/
theorem runWith_reachable (cap : Nat) (df : Bool) (prio : List Label) (input : List Bool) :
    Reachable cap df input (runWith cap df prio input) :=
  runSched_is_run cap df prio (fuelFor input) (init df input)

/-! ## Non-vacuity -/

/-- The premises of `events_never_stall` are met by long runs: five bells, capacity 2, the
    scheduler that prefers the parser arm; the run reaches `done` with all five delivered. -/
example : (runWith 2 true parserFirst [true, true, true, true, true]) =
    ⟨[], 0, .done, 5⟩ := by decide

/-- A concrete schedule (label sequence) in which the timer fires and events are consumed at the
    drain select; it is enabled all the way. -/
example : run 2 true (init true [true, false, true])
    [.drainDefault, .pickParser, .drainRecv, .drainDefault, .pickTimer, .drainDefault,
     .pickParser, .drainDefault, .pickTimer, .drainDefault, .pickParser, .drainRecv, .drainDefault, .eof]
    = some ⟨[], 0, .done, 2⟩ := by decide

/-- `deadlock_free` is not vacuous: a reachable non-final state, and `stuck` is a state the model
    *can* express and reach when the drain is absent (so `¬ stuck` says something). -/
example : ∃ s, Reachable 2 true [true, true] s ∧ s.pc ≠ .done ∧ s.occ = 1 :=
  ⟨⟨[true], 1, .drain, 0⟩, ⟨[.drainDefault, .pickParser], by decide⟩, by decide, rfl⟩

example : ∃ s, Reachable 2 false [true, true, true] s ∧ stuck s :=
  ⟨⟨[], 2, .blocked, 0⟩, ⟨[.pickParser, .pickParser, .pickParser], by decide⟩, by decide⟩

/-- Without the drain the loop may legitimately return with events still in the channel
    (`closed_delivers_all_but_cap` is tight): two bells, both undelivered at close. -/
example : run 2 false (init false [true, true]) [.pickParser, .pickParser, .eof]
    = some ⟨[], 2, .done, 0⟩ := by decide

end VaxisModel.Props.C05Events
